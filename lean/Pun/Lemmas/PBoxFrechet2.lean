import Pun.Lemmas.PBoxFrechet
import Pun.Lemmas.PBoxMk
import Pun.Lemmas.PBoxNeg
import Mathlib.Data.List.Perm.Basic
import Mathlib.Tactic.Ring
import Mathlib.Data.Fintype.Fin
import Mathlib.Data.List.OfFn
import Mathlib.Data.Fin.Tuple.Sort
import Mathlib.Tactic.Choose
import Mathlib.Algebra.BigOperators.Group.Finset.Piecewise
import Mathlib.Algebra.BigOperators.Fin
import Mathlib.Algebra.Order.BigOperators.Group.Finset
import Mathlib.Algebra.Group.Fin.Basic
import Mathlib.Algebra.Group.Units.Equiv
import Pun.Lemmas.PBoxNum
import Pun.Lemmas.EnvImp
import Pun.Lemmas.Hull
/-!
# Frechet arithmetic at the level of the public methods: sign routing, tightness, enclosure

* `WFS`, `WF`, `Sel`, `NonNeg`, `NonPos`, `OneSign` — well-formed operands, selections, sign classes;
* `Valid n R z` — the outcome family `z` has at most `i` values below `R.left[i]` and at most
  `n-1-i` above `R.right[i]`; `IsRank n z i v` — `v` is the `i`-th smallest value of `z`; both only
  depend on the multiset of outcomes (`Valid.reindex`, `IsRank.reindex`) and are mirrored by negation
  (`Valid.neg`, `IsRank.neg`);
* `Good n op X Y R` — validity for every selection and coupling, and attainment of every entry of
  both bounds by some selection and coupling;
* transfer of `Good` through the antitone involutions the library routes through (`flipB φ`:
  negation `negB`, reciprocal `recipB`): `Good.flipX`, `Good.flipY`, `Good.negOut`;
* `good_frechet` — the base case: `classicFrechet` for an operation monotone in both arguments;
  `good_mul_nonneg` — the product of non-negative operands;
* `mul_f_onesign_good` — the public `mul(…,'f')` on operands of one sign each, all four sign
  combinations, through `negativeFrechet`;
* order statistics (`sorted_getElem_le_iff`, `sortR_forall₂`, `countP_ofFn`, `Valid.encloses_sorted`), the
  constructor on sorted pairs / on the `n²` values of the independent rule (`mk_sorted_ok`, `mk_indep_ok`);
* `AllValid` (validity alone) with `AllValid.comp` — validity composes: valid outcome families of two
  boxes combine to a valid outcome family of any box that is valid for the operation under all couplings
  (sort both families; `Tuple.sort`); `Sel.valid`, `Valid.sel_of_monotone`, `Valid.imp`, `Valid.add_const`;
* the zero-straddling product: `naive_allValid`, `naive_mk_ok`, `balchprod_allValid`,
  `straddleFrechet_allValid`, `straddleFrechet_total`, **`mul_f_allValid`, `mul_f_total`** (every
  well-formed pair of operands) — reusing `Pun.EnvImp.imp_ok/imp_err` and `Pun.PBox.Num.numberOp_mono/anti`;
* enclosure of the other dependencies for ANY operation and ANY operands: `corner_counts`,
  `allValid_encloses_paired`, `perfect_enclosed`, `opposite_enclosed`, `independent_enclosed` (double
  counting over the cyclic shifts, `sum_card_rows_le_shifts`).
-/
set_option linter.unusedSimpArgs false
set_option linter.unusedVariables false
set_option linter.unusedSectionVars false
namespace Pun.PBox
open Pun Finset

/-- well-formed operand: `n` steps, both bounds sorted -/
structure WFS (n : Nat) (p : PB) : Prop where
  llen : p.left.length = n
  rlen : p.right.length = n
  lsorted : p.left.Pairwise (· ≤ ·)
  rsorted : p.right.Pairwise (· ≤ ·)

/-- selection of one value per step -/
def Sel (n : Nat) (p : PB) (h : WFS n p) (z : Fin n → Rat) : Prop :=
  ∀ m : Fin n, p.left[m.val]'(by have := h.llen; omega) ≤ z m ∧ z m ≤ p.right[m.val]'(by have := h.rlen; omega)

/-- fully well-formed p-box: `n` steps, sorted bounds, `left ≤ right` at every step -/
structure WF (n : Nat) (p : PB) : Prop extends WFS n p where
  le : ∀ i (h : i < n), p.left[i]'(by omega) ≤ p.right[i]'(by omega)

/-- non-negative operand -/
def NonNeg (p : PB) : Prop := (∀ v ∈ p.left, 0 ≤ v) ∧ (∀ v ∈ p.right, 0 ≤ v)

/-- non-positive operand -/
def NonPos (p : PB) : Prop := (∀ v ∈ p.left, v ≤ 0) ∧ (∀ v ∈ p.right, v ≤ 0)

/-- operand of one sign (it may touch zero) -/
def OneSign (p : PB) : Prop := NonNeg p ∨ NonPos p

/-! ## outcome families: validity and rank -/

/-- the outcome family `z` lies inside the steps of `R`, by counting -/
def Valid (n : Nat) (R : PB) (z : Fin n → Rat) : Prop :=
  ∀ (i : Fin n) (l r : Rat), R.left[i.val]? = some l → R.right[i.val]? = some r →
    (univ.filter (fun m : Fin n => z m < l)).card ≤ i.val ∧
    (univ.filter (fun m : Fin n => r < z m)).card ≤ n - 1 - i.val

/-- `v` is the `i`-th smallest value of the family `z` (at most `i` values strictly below, at least
`i+1` values at or below) -/
def IsRank (n : Nat) (z : Fin n → Rat) (i : Fin n) (v : Rat) : Prop :=
  (univ.filter (fun m : Fin n => z m < v)).card ≤ i.val ∧
  i.val + 1 ≤ (univ.filter (fun m : Fin n => z m ≤ v)).card

theorem card_filter_perm {n : Nat} (e : Equiv.Perm (Fin n)) (P : Fin n → Prop) [DecidablePred P] :
    (univ.filter (fun m => P (e m))).card = (univ.filter P).card := by
  apply Finset.card_bij (fun m _ => e m)
  · intro m hm
    simpa using hm
  · intro a _ b _ h
    exact e.injective h
  · intro b hb
    refine ⟨e.symm b, ?_, by simp⟩
    simpa using hb

theorem card_lt_add_card_ge {n : Nat} (z : Fin n → Rat) (v : Rat) :
    (univ.filter (fun m : Fin n => z m < v)).card + (univ.filter (fun m : Fin n => v ≤ z m)).card = n := by
  have h := Finset.card_filter_add_card_filter_not (s := (univ : Finset (Fin n))) (fun m : Fin n => z m < v)
  simp only [not_lt, card_univ, Fintype.card_fin] at h
  exact h

theorem card_le_add_card_gt {n : Nat} (z : Fin n → Rat) (v : Rat) :
    (univ.filter (fun m : Fin n => z m ≤ v)).card + (univ.filter (fun m : Fin n => v < z m)).card = n := by
  have h := Finset.card_filter_add_card_filter_not (s := (univ : Finset (Fin n))) (fun m : Fin n => z m ≤ v)
  simp only [not_le, card_univ, Fintype.card_fin] at h
  exact h

/-- the dual description of a rank (counting from above) -/
theorem isRank_iff_right {n : Nat} (z : Fin n → Rat) (i : Fin n) (v : Rat) :
    IsRank n z i v ↔
      (univ.filter (fun m : Fin n => v < z m)).card ≤ n - 1 - i.val ∧
      n - i.val ≤ (univ.filter (fun m : Fin n => v ≤ z m)).card := by
  have h1 := card_lt_add_card_ge z v
  have h2 := card_le_add_card_gt z v
  have hi := i.isLt
  unfold IsRank
  constructor
  · rintro ⟨a, b⟩; constructor <;> omega
  · rintro ⟨a, b⟩; constructor <;> omega

theorem IsRank.reindex {n : Nat} {z : Fin n → Rat} {i : Fin n} {v : Rat} (h : IsRank n z i v)
    (e : Equiv.Perm (Fin n)) : IsRank n (fun m => z (e m)) i v := by
  unfold IsRank at h ⊢
  rw [card_filter_perm e (fun m => z m < v), card_filter_perm e (fun m => z m ≤ v)]
  exact h

theorem Valid.reindex {n : Nat} {R : PB} {z : Fin n → Rat} (h : Valid n R z)
    (e : Equiv.Perm (Fin n)) : Valid n R (fun m => z (e m)) := by
  intro i l r hl hr
  rw [card_filter_perm e (fun m => z m < l), card_filter_perm e (fun m => r < z m)]
  exact h i l r hl hr

theorem IsRank.neg {n : Nat} {z : Fin n → Rat} {i : Fin n} {v : Rat} (h : IsRank n z i v) :
    IsRank n (fun m => - z m) (Fin.rev i) (-v) := by
  rw [isRank_iff_right] at h
  unfold IsRank
  simp only [neg_lt_neg_iff, neg_le_neg_iff, Fin.val_rev]
  have hi := i.isLt
  constructor
  · have := h.1; omega
  · have := h.2; omega

/-! ## the antitone involutions: `flipB φ` (negation, reciprocal) -/

/-- image of a p-box under an order-reversing map: bounds exchanged, steps listed in reverse -/
def flipB (φ : Rat → Rat) (p : PB) : PB := ⟨p.right.reverse.map φ, p.left.reverse.map φ⟩

/-- `-P` -/
abbrev negB (p : PB) : PB := flipB (fun v => -v) p

/-- `1/P` -/
abbrev recipB (p : PB) : PB := flipB (fun v => 1 / v) p

theorem flipB_left_get (φ : Rat → Rat) (p : PB) (n : Nat) (hr : p.right.length = n) (i : Nat) (hi : i < n) :
    (flipB φ p).left[i]? = some (φ (p.right[n - 1 - i]'(by omega))) := by
  subst hr
  simp only [flipB, List.getElem?_map]
  rw [List.getElem?_reverse (by omega), List.getElem?_eq_getElem (by omega)]
  rfl

theorem flipB_right_get (φ : Rat → Rat) (p : PB) (n : Nat) (hl : p.left.length = n) (i : Nat) (hi : i < n) :
    (flipB φ p).right[i]? = some (φ (p.left[n - 1 - i]'(by omega))) := by
  subst hl
  simp only [flipB, List.getElem?_map]
  rw [List.getElem?_reverse (by omega), List.getElem?_eq_getElem (by omega)]
  rfl

theorem Valid.neg {n : Nat} {R : PB} {z : Fin n → Rat} (hl : R.left.length = n) (hr : R.right.length = n)
    (h : Valid n R z) : Valid n (negB R) (fun m => - z m) := by
  intro i l r hl' hr'
  have hi := i.isLt
  rw [flipB_left_get _ R n hr i.val hi] at hl'
  rw [flipB_right_get _ R n hl i.val hi] at hr'
  have e1 := Option.some.inj hl'
  have e2 := Option.some.inj hr'
  subst e1 e2
  have key := h (Fin.rev i) (R.left[n - 1 - i.val]'(by omega)) (R.right[n - 1 - i.val]'(by omega))
    (by rw [List.getElem?_eq_getElem (by simp only [Fin.val_rev]; omega)]; simp only [Fin.val_rev]; congr 2; omega)
    (by rw [List.getElem?_eq_getElem (by simp only [Fin.val_rev]; omega)]; simp only [Fin.val_rev]; congr 2; omega)
  simp only [neg_lt_neg_iff, Fin.val_rev] at key ⊢
  constructor
  · have := key.2; omega
  · have := key.1; omega

/-- `φ` is an order-reversing involution of the order-convex set `S` -/
structure AntiInv (φ : Rat → Rat) (S : Rat → Prop) : Prop where
  maps : ∀ a, S a → S (φ a)
  anti : ∀ a b, S a → S b → a ≤ b → φ b ≤ φ a
  invol : ∀ a, S a → φ (φ a) = a
  convex : ∀ a b c, S a → S c → a ≤ b → b ≤ c → S b

/-- all bounds of `p` lie in `S` -/
def InS (S : Rat → Prop) (p : PB) : Prop := (∀ v ∈ p.left, S v) ∧ (∀ v ∈ p.right, S v)

theorem antiInv_neg : AntiInv (fun v => -v) (fun _ => True) :=
  ⟨fun _ _ => trivial, fun a b _ _ h => neg_le_neg h, fun a _ => neg_neg a, fun _ _ _ _ _ _ _ => trivial⟩

theorem inS_true (p : PB) : InS (fun _ => True) p := ⟨fun _ _ => trivial, fun _ _ => trivial⟩

theorem flip_sorted (φ : Rat → Rat) (S : Rat → Prop) (h : AntiInv φ S) (l : List Rat)
    (s : l.Pairwise (· ≤ ·)) (hS : ∀ v ∈ l, S v) : (l.reverse.map φ).Pairwise (· ≤ ·) := by
  rw [List.pairwise_map, List.pairwise_reverse]
  refine (List.Pairwise.and_mem.mp s).imp ?_
  rintro a b ⟨ha, hb, hab⟩
  exact h.anti a b (hS a ha) (hS b hb) hab

/-- the image of a well-formed p-box under an antitone involution is well formed -/
theorem flipB_wf (φ : Rat → Rat) (S : Rat → Prop) (h : AntiInv φ S) (n : Nat) (p : PB) (hp : WF n p)
    (hS : InS S p) : WF n (flipB φ p) ∧ InS S (flipB φ p) := by
  refine ⟨⟨⟨by simp [flipB, hp.rlen], by simp [flipB, hp.llen], flip_sorted φ S h _ hp.rsorted hS.2,
    flip_sorted φ S h _ hp.lsorted hS.1⟩, ?_⟩, ?_, ?_⟩
  · intro i hi
    have e1 := flipB_left_get φ p n hp.rlen i hi
    have e2 := flipB_right_get φ p n hp.llen i hi
    have l1 : i < (flipB φ p).left.length := by simp [flipB, hp.rlen]; exact hi
    have l2 : i < (flipB φ p).right.length := by simp [flipB, hp.llen]; exact hi
    rw [List.getElem?_eq_getElem l1] at e1
    rw [List.getElem?_eq_getElem l2] at e2
    rw [Option.some.inj e1, Option.some.inj e2]
    have hl := hp.llen; have hr := hp.rlen
    exact h.anti _ _ (hS.1 _ (List.getElem_mem _)) (hS.2 _ (List.getElem_mem _)) (hp.le (n - 1 - i) (by omega))
  · intro v hv
    simp only [flipB, List.mem_map, List.mem_reverse] at hv
    obtain ⟨a, ha, rfl⟩ := hv
    exact h.maps a (hS.2 a ha)
  · intro v hv
    simp only [flipB, List.mem_map, List.mem_reverse] at hv
    obtain ⟨a, ha, rfl⟩ := hv
    exact h.maps a (hS.1 a ha)

/-- every selection of a p-box with bounds in the convex set `S` takes its values in `S` -/
theorem sel_inS (S : Rat → Prop) (φ : Rat → Rat) (h : AntiInv φ S) (n : Nat) (p : PB) (hp : WFS n p)
    (hS : InS S p) (y : Fin n → Rat) (hy : Sel n p hp y) (m : Fin n) : S (y m) :=
  h.convex _ _ _ (hS.1 _ (List.getElem_mem _)) (hS.2 _ (List.getElem_mem _)) (hy m).1 (hy m).2

/-- a selection of `p` is mirrored to a selection of `flipB φ p` -/
theorem sel_flipB (φ : Rat → Rat) (S : Rat → Prop) (h : AntiInv φ S) (n : Nat) (p : PB) (hp : WFS n p)
    (hS : InS S p) (hw : WFS n (flipB φ p)) (y : Fin n → Rat) (hy : Sel n p hp y) :
    Sel n (flipB φ p) hw (fun m => φ (y (Fin.rev m))) := by
  intro m
  have hm := m.isLt
  have hl := hp.llen; have hr := hp.rlen
  have e1 := flipB_left_get φ p n hp.rlen m.val hm
  have e2 := flipB_right_get φ p n hp.llen m.val hm
  have l1 : m.val < (flipB φ p).left.length := by rw [hw.llen]; exact hm
  have l2 : m.val < (flipB φ p).right.length := by rw [hw.rlen]; exact hm
  rw [List.getElem?_eq_getElem l1] at e1
  rw [List.getElem?_eq_getElem l2] at e2
  rw [Option.some.inj e1, Option.some.inj e2]
  have hy' := hy (Fin.rev m)
  have hSy := sel_inS S φ h n p hp hS y hy (Fin.rev m)
  have ea : p.left[(Fin.rev m).val]'(by simp only [Fin.val_rev]; omega) = p.left[n - 1 - m.val]'(by omega) := by
    congr 1; simp only [Fin.val_rev]; omega
  have eb : p.right[(Fin.rev m).val]'(by simp only [Fin.val_rev]; omega) = p.right[n - 1 - m.val]'(by omega) := by
    congr 1; simp only [Fin.val_rev]; omega
  rw [ea, eb] at hy'
  exact ⟨h.anti _ _ hSy (hS.2 _ (List.getElem_mem _)) hy'.2, h.anti _ _ (hS.1 _ (List.getElem_mem _)) hSy hy'.1⟩

/-- and back: every selection of `flipB φ p` is the mirror image of a selection of `p` -/
theorem sel_flipB_inv (φ : Rat → Rat) (S : Rat → Prop) (h : AntiInv φ S) (n : Nat) (p : PB) (hp : WFS n p)
    (hS : InS S p) (hw : WFS n (flipB φ p)) (y' : Fin n → Rat) (hy : Sel n (flipB φ p) hw y') :
    Sel n p hp (fun m => φ (y' (Fin.rev m))) ∧ ∀ m, φ (φ (y' m)) = y' m := by
  have hl := hp.llen; have hr := hp.rlen
  have bnd : ∀ m : Fin n, φ (p.right[n - 1 - m.val]'(by have := m.isLt; omega)) ≤ y' m ∧
      y' m ≤ φ (p.left[n - 1 - m.val]'(by have := m.isLt; omega)) := by
    intro m
    have hm := m.isLt
    have e1 := flipB_left_get φ p n hp.rlen m.val hm
    have e2 := flipB_right_get φ p n hp.llen m.val hm
    have l1 : m.val < (flipB φ p).left.length := by rw [hw.llen]; exact hm
    have l2 : m.val < (flipB φ p).right.length := by rw [hw.rlen]; exact hm
    rw [List.getElem?_eq_getElem l1] at e1
    rw [List.getElem?_eq_getElem l2] at e2
    have := hy m
    rw [Option.some.inj e1, Option.some.inj e2] at this
    exact this
  have inS : ∀ m : Fin n, S (y' m) := fun m =>
    h.convex _ _ _ (h.maps _ (hS.2 _ (List.getElem_mem _))) (h.maps _ (hS.1 _ (List.getElem_mem _)))
      (bnd m).1 (bnd m).2
  refine ⟨?_, fun m => h.invol _ (inS m)⟩
  intro m
  have hm := m.isLt
  have b := bnd (Fin.rev m)
  have ea : p.left[n - 1 - (Fin.rev m).val]'(by simp only [Fin.val_rev]; omega) = p.left[m.val]'(by omega) := by
    congr 1; simp only [Fin.val_rev]; omega
  have eb : p.right[n - 1 - (Fin.rev m).val]'(by simp only [Fin.val_rev]; omega) = p.right[m.val]'(by omega) := by
    congr 1; simp only [Fin.val_rev]; omega
  rw [ea, eb] at b
  have sl : S (p.left[m.val]'(by omega)) := hS.1 _ (List.getElem_mem _)
  have sr : S (p.right[m.val]'(by omega)) := hS.2 _ (List.getElem_mem _)
  constructor
  · have := h.anti _ _ (inS (Fin.rev m)) (h.maps _ sl) b.2
    rwa [h.invol _ sl] at this
  · have := h.anti _ _ (h.maps _ sr) (inS (Fin.rev m)) b.1
    rwa [h.invol _ sr] at this

/-! ## `Good`: valid for every selection and coupling, and every bound entry attained -/

/-- `R` bounds `op X Y` under every dependence (validity for every selection of one value per step
and every permutation coupling), and best-possibly: every entry of either bound is the order
statistic of the same rank of the outcomes of some selection and coupling. -/
structure Good (n : Nat) (op : Rat → Rat → Rat) (X Y R : PB) (hX : WFS n X) (hY : WFS n Y) : Prop where
  valid : ∀ x y : Fin n → Rat, Sel n X hX x → Sel n Y hY y → ∀ σ : Equiv.Perm (Fin n),
    Valid n R (fun m => op (x m) (y (σ m)))
  tightL : ∀ (i : Fin n) (l : Rat), R.left[i.val]? = some l →
    ∃ x y : Fin n → Rat, Sel n X hX x ∧ Sel n Y hY y ∧ ∃ σ : Equiv.Perm (Fin n),
      IsRank n (fun m => op (x m) (y (σ m))) i l
  tightR : ∀ (i : Fin n) (r : Rat), R.right[i.val]? = some r →
    ∃ x y : Fin n → Rat, Sel n X hX x ∧ Sel n Y hY y ∧ ∃ σ : Equiv.Perm (Fin n),
      IsRank n (fun m => op (x m) (y (σ m))) i r

/-- two operations that agree on all pairs of selected values have the same good bounds -/
theorem Good.congr_sel {n : Nat} {op op' : Rat → Rat → Rat} {X Y R : PB} {hX : WFS n X} {hY : WFS n Y}
    (g : Good n op X Y R hX hY)
    (h : ∀ x y : Fin n → Rat, Sel n X hX x → Sel n Y hY y → ∀ m k, op (x m) (y k) = op' (x m) (y k)) :
    Good n op' X Y R hX hY := by
  refine ⟨?_, ?_, ?_⟩
  · intro x y hx hy σ
    have e : (fun m => op' (x m) (y (σ m))) = (fun m => op (x m) (y (σ m))) := by
      funext m; exact (h x y hx hy m (σ m)).symm
    rw [e]; exact g.valid x y hx hy σ
  · intro i l hl
    obtain ⟨x, y, hx, hy, σ, hr⟩ := g.tightL i l hl
    refine ⟨x, y, hx, hy, σ, ?_⟩
    have e : (fun m => op' (x m) (y (σ m))) = (fun m => op (x m) (y (σ m))) := by
      funext m; exact (h x y hx hy m (σ m)).symm
    rw [e]; exact hr
  · intro i r hr'
    obtain ⟨x, y, hx, hy, σ, hr⟩ := g.tightR i r hr'
    refine ⟨x, y, hx, hy, σ, ?_⟩
    have e : (fun m => op' (x m) (y (σ m))) = (fun m => op (x m) (y (σ m))) := by
      funext m; exact (h x y hx hy m (σ m)).symm
    rw [e]; exact hr

theorem Good.congr {n : Nat} {op op' : Rat → Rat → Rat} {X Y R : PB} {hX : WFS n X} {hY : WFS n Y}
    (g : Good n op X Y R hX hY) (h : ∀ a b, op a b = op' a b) : Good n op' X Y R hX hY :=
  g.congr_sel (fun _ _ _ _ _ _ => h _ _)

/-- the second operand replaced by its mirror image: `op x (φ y)` on `Y` is `op x y'` on `flipB φ Y`
(selections `y ↦ φ∘y∘rev`, couplings `σ ↦ rev∘σ`) -/
theorem Good.flipY {n : Nat} {op : Rat → Rat → Rat} {X Y R : PB} {hX : WFS n X}
    (φ : Rat → Rat) (S : Rat → Prop) (h : AntiInv φ S) (hY : WFS n Y) (hS : InS S Y)
    (hY' : WFS n (flipB φ Y)) (g : Good n op X (flipB φ Y) R hX hY') :
    Good n (fun a b => op a (φ b)) X Y R hX hY := by
  refine ⟨?_, ?_, ?_⟩
  · intro x y hx hy σ
    have key := g.valid x (fun m => φ (y (Fin.rev m))) hx (sel_flipB φ S h n Y hY hS hY' y hy)
      (σ.trans Fin.revPerm)
    simp only [Equiv.trans_apply, Fin.revPerm_apply, Fin.rev_rev] at key
    exact key
  · intro i l hl
    obtain ⟨x, y', hx, hy', σ, hr⟩ := g.tightL i l hl
    obtain ⟨hy, hinv⟩ := sel_flipB_inv φ S h n Y hY hS hY' y' hy'
    refine ⟨x, fun m => φ (y' (Fin.rev m)), hx, hy, σ.trans Fin.revPerm, ?_⟩
    simp only [Equiv.trans_apply, Fin.revPerm_apply, Fin.rev_rev, hinv]
    exact hr
  · intro i r hr'
    obtain ⟨x, y', hx, hy', σ, hr⟩ := g.tightR i r hr'
    obtain ⟨hy, hinv⟩ := sel_flipB_inv φ S h n Y hY hS hY' y' hy'
    refine ⟨x, fun m => φ (y' (Fin.rev m)), hx, hy, σ.trans Fin.revPerm, ?_⟩
    simp only [Equiv.trans_apply, Fin.revPerm_apply, Fin.rev_rev, hinv]
    exact hr

/-- the first operand replaced by its mirror image (selections `x ↦ φ∘x∘rev`, couplings `σ ↦ σ∘rev`,
outcomes re-indexed by `rev`) -/
theorem Good.flipX {n : Nat} {op : Rat → Rat → Rat} {X Y R : PB} {hY : WFS n Y}
    (φ : Rat → Rat) (S : Rat → Prop) (h : AntiInv φ S) (hX : WFS n X) (hS : InS S X)
    (hX' : WFS n (flipB φ X)) (g : Good n op (flipB φ X) Y R hX' hY) :
    Good n (fun a b => op (φ a) b) X Y R hX hY := by
  refine ⟨?_, ?_, ?_⟩
  · intro x y hx hy σ
    have key := (g.valid (fun m => φ (x (Fin.rev m))) y (sel_flipB φ S h n X hX hS hX' x hx) hy
      (Fin.revPerm.trans σ)).reindex Fin.revPerm
    simp only [Equiv.trans_apply, Fin.revPerm_apply, Fin.rev_rev] at key
    exact key
  · intro i l hl
    obtain ⟨x', y, hx', hy, σ, hr⟩ := g.tightL i l hl
    obtain ⟨hx, hinv⟩ := sel_flipB_inv φ S h n X hX hS hX' x' hx'
    refine ⟨fun m => φ (x' (Fin.rev m)), y, hx, hy, Fin.revPerm.trans σ, ?_⟩
    have key := hr.reindex Fin.revPerm
    simp only [Equiv.trans_apply, Fin.revPerm_apply, hinv] at key ⊢
    exact key
  · intro i r hr'
    obtain ⟨x', y, hx', hy, σ, hr⟩ := g.tightR i r hr'
    obtain ⟨hx, hinv⟩ := sel_flipB_inv φ S h n X hX hS hX' x' hx'
    refine ⟨fun m => φ (x' (Fin.rev m)), y, hx, hy, Fin.revPerm.trans σ, ?_⟩
    have key := hr.reindex Fin.revPerm
    simp only [Equiv.trans_apply, Fin.revPerm_apply, hinv] at key ⊢
    exact key

/-- the result negated: `-(op x y)` is bounded by `-R` (bounds exchanged and reversed; rank `i` of the
negated outcomes is rank `n-1-i` of the outcomes) -/
theorem Good.negOut {n : Nat} {op : Rat → Rat → Rat} {X Y R : PB} {hX : WFS n X} {hY : WFS n Y}
    (hl : R.left.length = n) (hr : R.right.length = n) (g : Good n op X Y R hX hY) :
    Good n (fun a b => -(op a b)) X Y (negB R) hX hY := by
  refine ⟨?_, ?_, ?_⟩
  · intro x y hx hy σ
    exact (g.valid x y hx hy σ).neg hl hr
  · intro i l hl'
    have hi := i.isLt
    rw [flipB_left_get _ R n hr i.val hi] at hl'
    have e := Option.some.inj hl'
    subst e
    obtain ⟨x, y, hx, hy, σ, hrk⟩ := g.tightR (Fin.rev i) (R.right[n - 1 - i.val]'(by omega))
      (by rw [List.getElem?_eq_getElem (by simp only [Fin.val_rev]; omega)]; simp only [Fin.val_rev]; congr 2; omega)
    refine ⟨x, y, hx, hy, σ, ?_⟩
    have := hrk.neg
    rw [Fin.rev_rev] at this
    exact this
  · intro i r hr'
    have hi := i.isLt
    rw [flipB_right_get _ R n hl i.val hi] at hr'
    have e := Option.some.inj hr'
    subst e
    obtain ⟨x, y, hx, hy, σ, hrk⟩ := g.tightL (Fin.rev i) (R.left[n - 1 - i.val]'(by omega))
      (by rw [List.getElem?_eq_getElem (by simp only [Fin.val_rev]; omega)]; simp only [Fin.val_rev]; congr 2; omega)
    refine ⟨x, y, hx, hy, σ, ?_⟩
    have := hrk.neg
    rw [Fin.rev_rev] at this
    exact this

/-! ## base cases: `classicFrechet` for a monotone operation; product of non-negative operands -/

/-- raw Frechet result for the operation `op` -/
def rawF (op : Rat → Rat → Rat) (X Y : PB) : PB :=
  ⟨frechetLeftRaw op X.left Y.left, frechetRightRaw op X.right Y.right⟩

theorem sel_left (n : Nat) (X : PB) (hX : WF n X) :
    Sel n X hX.toWFS (fun m => X.left[m.val]'(by have := hX.llen; omega)) :=
  fun m => ⟨le_refl _, hX.le m.val m.isLt⟩

theorem sel_right (n : Nat) (X : PB) (hX : WF n X) :
    Sel n X hX.toWFS (fun m => X.right[m.val]'(by have := hX.rlen; omega)) :=
  fun m => ⟨hX.le m.val m.isLt, le_refl _⟩

/-- **Frechet rule for an operation monotone in both arguments**: the constructor accepts the raw
bounds, the result is well formed, valid for every selection and coupling, and both bounds are
attained entry by entry (by the bounding selections under the anti-diagonal couplings). -/
theorem good_frechet (op : Rat → Rat → Rat)
    (hop : ∀ p p' q q', p ≤ p' → q ≤ q' → op p q ≤ op p' q')
    (n : Nat) (X Y : PB) (hX : WF n X) (hY : WF n Y) :
    classicFrechet n op X Y = .ok (rawF op X Y) ∧ WF n (rawF op X Y) ∧
    Good n op X Y (rawF op X Y) hX.toWFS hY.toWFS := by
  have hs := frechetOp_eq_raw op hop X Y (by rw [hX.llen, hY.llen]) (by rw [hX.rlen, hY.rlen])
    hY.lsorted hX.rsorted
  have sl := frechetLeftRaw_sorted op hop X.left Y.left (by rw [hX.llen, hY.llen]) hY.lsorted
  have sr := frechetRightRaw_sorted op hop X.right Y.right (by rw [hX.rlen, hY.rlen]) hX.rsorted
  have ll : (frechetLeftRaw op X.left Y.left).length = n := by rw [frechetLeftRaw_length, hX.llen]
  have lr : (frechetRightRaw op X.right Y.right).length = n := by rw [frechetRightRaw_length, hX.rlen]
  have hle : ∀ i (h : i < n), (frechetLeftRaw op X.left Y.left)[i]'(by omega) ≤
      (frechetRightRaw op X.right Y.right)[i]'(by omega) := fun i h =>
    frechetRaw_le op hop X.left X.right Y.left Y.right n hX.llen hX.rlen hY.llen hY.rlen
      hX.rsorted hY.rsorted hX.le hY.le i h
  refine ⟨?_, ⟨⟨ll, lr, sl, sr⟩, hle⟩, ?_, ?_, ?_⟩
  · unfold classicFrechet
    simp only [hs]
    exact mk_arr_ok n _ _ ll lr sl sr (fun i h => hle i (by omega))
  · intro x y hx hy σ i l r hl hr
    exact ⟨frechetLeft_valid op hop X.left Y.left n hX.llen hY.llen hX.lsorted hY.lsorted x y
        (fun m => (hx m).1) (fun m => (hy m).1) σ i l hl,
      frechetRight_valid op hop X.right Y.right n hX.rlen hY.rlen hX.rsorted hY.rsorted x y
        (fun m => (hx m).2) (fun m => (hy m).2) σ i r hr⟩
  · intro i l hl
    obtain ⟨σ, h1, h2⟩ := frechetLeft_tight op hop X.left Y.left n hX.llen hY.llen hX.lsorted hY.lsorted i l hl
    exact ⟨_, _, sel_left n X hX, sel_left n Y hY, σ, ⟨h1, h2⟩⟩
  · intro i r hr
    obtain ⟨σ, h1, h2⟩ := frechetRight_tight op hop X.right Y.right n hX.rlen hY.rlen hX.rsorted hY.rsorted i r hr
    exact ⟨_, _, sel_right n X hX, sel_right n Y hY, σ, (isRank_iff_right _ _ _).mpr ⟨h1, h2⟩⟩

/-- on non-negative operands `frechet_op(…, mul)` is the rule for the clamped product -/
theorem frechetOp_mul_eq (X Y : PB) (hX : NonNeg X) (hY : NonNeg Y) :
    frechetOp (· * ·) X Y = frechetOp mulPos X Y := by
  unfold frechetOp
  rw [frechetLeftRaw_mul_eq X.left Y.left hX.1 hY.1, frechetRightRaw_mul_eq X.right Y.right hX.2 hY.2]

theorem mulPos_nonneg (p q : Rat) : 0 ≤ mulPos p q :=
  mul_nonneg (le_max_right _ _) (le_max_right _ _)

theorem sel_nonneg (n : Nat) (X : PB) (hX : WFS n X) (pX : NonNeg X) (x : Fin n → Rat) (hx : Sel n X hX x)
    (m : Fin n) : 0 ≤ x m :=
  le_trans (pX.1 _ (List.getElem_mem _)) (hx m).1

/-- **Frechet product of non-negative operands** (`classic_frechet_pbox(x, y, mul)`) -/
theorem good_mul_nonneg (n : Nat) (X Y : PB) (hX : WF n X) (hY : WF n Y) (pX : NonNeg X) (pY : NonNeg Y) :
    classicFrechet n (· * ·) X Y = .ok (rawF mulPos X Y) ∧ WF n (rawF mulPos X Y) ∧
    NonNeg (rawF mulPos X Y) ∧ Good n (· * ·) X Y (rawF mulPos X Y) hX.toWFS hY.toWFS := by
  obtain ⟨h1, h2, h3⟩ := good_frechet mulPos mulPos_mono2 n X Y hX hY
  refine ⟨?_, h2, ⟨?_, ?_⟩, ?_⟩
  · unfold classicFrechet at h1 ⊢
    rw [frechetOp_mul_eq X Y pX pY]
    exact h1
  · intro v hv
    obtain ⟨i, hi, rfl⟩ := List.getElem_of_mem hv
    simp only [rawF, frechetLeftRaw_length] at hi
    obtain ⟨w, hw, -, j, hj, hatt⟩ := frechetLeftRaw_spec mulPos X.left Y.left
      (by rw [hX.llen, hY.llen]) i hi
    have e : (rawF mulPos X Y).left[i]? = some w := hw
    rw [List.getElem?_eq_getElem (by simp only [rawF, frechetLeftRaw_length]; exact hi)] at e
    rw [Option.some.inj e, hatt]
    exact mulPos_nonneg _ _
  · intro v hv
    obtain ⟨i, hi, rfl⟩ := List.getElem_of_mem hv
    simp only [rawF, frechetRightRaw_length] at hi
    obtain ⟨w, hw, -, t, ht, hatt⟩ := frechetRightRaw_spec mulPos X.right Y.right n hX.rlen hY.rlen i
      (by rw [← hX.rlen]; exact hi)
    have e : (rawF mulPos X Y).right[i]? = some w := hw
    rw [List.getElem?_eq_getElem (by simp only [rawF, frechetRightRaw_length]; exact hi)] at e
    rw [Option.some.inj e, hatt]
    exact mulPos_nonneg _ _
  · exact h3.congr_sel (fun x y hx hy m k =>
      mulPos_eq _ _ (sel_nonneg n X hX.toWFS pX x hx m) (sel_nonneg n Y hY.toWFS pY y hy k))

/-! ## negation and sign classes -/

/-- `-Y` of a well-formed p-box is well formed -/
theorem neg_wf (n : Nat) (Y : PB) (hY : WF n Y) : neg n Y = .ok (negB Y) ∧ WF n (negB Y) :=
  ⟨neg_ok n Y hY.llen hY.rlen hY.lsorted hY.rsorted hY.le,
    (flipB_wf _ _ antiInv_neg n Y hY (inS_true Y)).1⟩

theorem nonneg_negB (p : PB) (h : NonPos p) : NonNeg (negB p) := by
  constructor
  · intro v hv
    simp only [negB, flipB, List.mem_map, List.mem_reverse] at hv
    obtain ⟨a, ha, rfl⟩ := hv
    have := h.2 a ha
    linarith
  · intro v hv
    simp only [negB, flipB, List.mem_map, List.mem_reverse] at hv
    obtain ⟨a, ha, rfl⟩ := hv
    have := h.1 a ha
    linarith

theorem getLastD_mem (l : List Rat) (d : Rat) (h : l ≠ []) : l.getLastD d ∈ l := by
  cases l with
  | nil => exact absurd rfl h
  | cons a t =>
    rw [List.getLastD_cons]
    cases t with
    | nil => simp
    | cons b u =>
      have : (b :: u).getLastD a = (b :: u).getLast (by simp) := by
        rw [List.getLastD_eq_getLast?, List.getLast?_eq_some_getLast (by simp)]; rfl
      rw [this]
      exact List.mem_cons_of_mem _ (List.getLast_mem _)

theorem hi_le_of_nonpos (p : PB) (h : NonPos p) : hi p ≤ 0 := by
  unfold hi
  by_cases hne : p.right = []
  · simp [hne]
  · exact h.2 _ (getLastD_mem _ _ hne)

theorem hi_eq (n : Nat) (p : PB) (hr : p.right.length = n) (hn : 0 < n) :
    hi p = p.right[n - 1]'(by omega) := by
  unfold hi
  subst hr
  rw [List.getLastD_eq_getLast?, List.getLast?_eq_getElem?, List.getElem?_eq_getElem (by omega)]
  rfl

/-- a well-formed p-box whose upper end is `≤ 0` is non-positive -/
theorem nonpos_of_hi (n : Nat) (p : PB) (hp : WF n p) (h : hi p ≤ 0) : NonPos p := by
  rcases Nat.eq_zero_or_pos n with hn | hn
  · subst hn
    have e1 := List.eq_nil_of_length_eq_zero hp.llen
    have e2 := List.eq_nil_of_length_eq_zero hp.rlen
    constructor <;> intro v hv <;> simp [e1, e2] at hv
  · rw [hi_eq n p hp.rlen hn] at h
    have hr := hp.rlen; have hl := hp.llen
    have key : ∀ v ∈ p.right, v ≤ 0 := by
      intro v hv
      obtain ⟨i, hi', rfl⟩ := List.getElem_of_mem hv
      have := sorted_getElem_mono p.right hp.rsorted n hp.rlen
        (show (⟨i, by omega⟩ : Fin n) ≤ ⟨n - 1, by omega⟩ by simp only [Fin.le_def]; omega)
      simp only at this
      exact le_trans this h
    refine ⟨?_, key⟩
    intro v hv
    obtain ⟨i, hi', rfl⟩ := List.getElem_of_mem hv
    exact le_trans (hp.le i (by omega)) (key _ (List.getElem_mem _))

theorem nonneg_of_not_hi (p : PB) (s : OneSign p) (h : ¬ hi p ≤ 0) : NonNeg p := by
  rcases s with s | s
  · exact s
  · exact absurd (hi_le_of_nonpos p s) h

theorem not_straddles_of_nonneg (p : PB) (h : NonNeg p) : straddlesZero p = false := by
  unfold straddlesZero
  have : ¬ minL 0 p.left < 0 := by
    by_cases hne : p.left = []
    · simp [hne, minL]
    · exact not_lt.mpr (h.1 _ (minL_spec 0 p.left hne).1)
  simp [this]

theorem not_straddles_of_nonpos (p : PB) (h : NonPos p) : straddlesZero p = false := by
  unfold straddlesZero
  have : ¬ maxL 0 p.right > 0 := by
    by_cases hne : p.right = []
    · simp [hne, maxL]
    · exact not_lt.mpr (h.2 _ (maxL_spec 0 p.right hne).1)
  simp [this]

theorem not_straddles_of_oneSign (p : PB) (h : OneSign p) : straddlesZero p = false := by
  rcases h with h | h
  · exact not_straddles_of_nonneg p h
  · exact not_straddles_of_nonpos p h

/-- for well-formed boxes "one sign" is exactly the model's routing test `not straddles_zero` -/
theorem oneSign_of_not_straddles (n : Nat) (p : PB) (hp : WF n p) (h : straddlesZero p = false) :
    OneSign p := by
  rcases Nat.eq_zero_or_pos n with hn | hn
  · subst hn
    have e1 := List.eq_nil_of_length_eq_zero hp.llen
    have e2 := List.eq_nil_of_length_eq_zero hp.rlen
    left; constructor <;> intro v hv <;> simp [e1, e2] at hv
  · have hl := hp.llen; have hr := hp.rlen
    have nel : p.left ≠ [] := by intro e; rw [e] at hl; simp at hl; omega
    have ner : p.right ≠ [] := by intro e; rw [e] at hr; simp at hr; omega
    unfold straddlesZero at h
    simp only [Bool.and_eq_false_iff, decide_eq_false_iff_not, not_lt] at h
    rcases h with h | h
    · left
      have key : ∀ v ∈ p.left, 0 ≤ v := fun v hv => le_trans h ((minL_spec 0 p.left nel).2 v hv)
      refine ⟨key, ?_⟩
      intro v hv
      obtain ⟨i, hi', rfl⟩ := List.getElem_of_mem hv
      exact le_trans (key _ (List.getElem_mem _)) (hp.le i (by omega))
    · right
      have key : ∀ v ∈ p.right, v ≤ 0 := fun v hv => le_trans ((maxL_spec 0 p.right ner).2 v hv) h
      refine ⟨?_, key⟩
      intro v hv
      obtain ⟨i, hi', rfl⟩ := List.getElem_of_mem hv
      exact le_trans (hp.le i (by omega)) (key _ (List.getElem_mem _))

/-! ## the public Frechet product on operands of one sign each -/

/-- **`X.mul(Y, 'f')` for operands of one sign each (all four sign combinations, including operands
that touch zero)**: the model's routing through `negativeFrechet` (negate the non-positive operands,
multiply by the classic rule, negate the result when exactly one operand was negated) returns a
well-formed p-box that is valid for every selection and coupling and attained entry by entry. -/
theorem mul_f_onesign_good (n : Nat) (X Y : PB) (hX : WF n X) (hY : WF n Y)
    (sX : OneSign X) (sY : OneSign Y) :
    ∃ R, mul n .f X Y = .ok R ∧ WF n R ∧ Good n (· * ·) X Y R hX.toWFS hY.toWFS := by
  have nsX := not_straddles_of_oneSign X sX
  have nsY := not_straddles_of_oneSign Y sY
  obtain ⟨enX, wnX⟩ := neg_wf n X hX
  obtain ⟨enY, wnY⟩ := neg_wf n Y hY
  by_cases hx : hi X ≤ 0 <;> by_cases hy : hi Y ≤ 0
  · -- both non-positive: (-X)(-Y)
    have pX := nonneg_negB X (nonpos_of_hi n X hX hx)
    have pY := nonneg_negB Y (nonpos_of_hi n Y hY hy)
    obtain ⟨e, w, -, g⟩ := good_mul_nonneg n (negB X) (negB Y) wnX wnY pX pY
    refine ⟨rawF mulPos (negB X) (negB Y), ?_, w, ?_⟩
    · simp [mul, frechetMul, frechetMulNoStraddle, negativeFrechet, nsX, nsY, hx, hy, enX, enY, e,
        bind, Except.bind, pure, Except.pure]
    · have g1 := g.flipY _ _ antiInv_neg hY.toWFS (inS_true Y) wnY.toWFS
      have g2 := g1.flipX _ _ antiInv_neg hX.toWFS (inS_true X) wnX.toWFS
      exact g2.congr (fun a b => by simp)
  · -- X non-positive, Y non-negative: -((-X) Y)
    have pX := nonneg_negB X (nonpos_of_hi n X hX hx)
    have pY := nonneg_of_not_hi Y sY hy
    obtain ⟨e, w, -, g⟩ := good_mul_nonneg n (negB X) Y wnX hY pX pY
    obtain ⟨enR, wnR⟩ := neg_wf n _ w
    refine ⟨negB (rawF mulPos (negB X) Y), ?_, wnR, ?_⟩
    · simp [mul, frechetMul, frechetMulNoStraddle, negativeFrechet, nsX, nsY, hx, hy, enX, e, enR,
        bind, Except.bind, pure, Except.pure]
    · have g1 := g.flipX _ _ antiInv_neg hX.toWFS (inS_true X) wnX.toWFS
      have g2 := g1.negOut w.llen w.rlen
      exact g2.congr (fun a b => by simp)
  · -- X non-negative, Y non-positive: -(X (-Y))
    have pX := nonneg_of_not_hi X sX hx
    have pY := nonneg_negB Y (nonpos_of_hi n Y hY hy)
    obtain ⟨e, w, -, g⟩ := good_mul_nonneg n X (negB Y) hX wnY pX pY
    obtain ⟨enR, wnR⟩ := neg_wf n _ w
    refine ⟨negB (rawF mulPos X (negB Y)), ?_, wnR, ?_⟩
    · simp [mul, frechetMul, frechetMulNoStraddle, negativeFrechet, nsX, nsY, hx, hy, enY, e, enR,
        bind, Except.bind, pure, Except.pure]
    · have g1 := g.flipY _ _ antiInv_neg hY.toWFS (inS_true Y) wnY.toWFS
      have g2 := g1.negOut w.llen w.rlen
      exact g2.congr (fun a b => by simp)
  · -- both non-negative
    have pX := nonneg_of_not_hi X sX hx
    have pY := nonneg_of_not_hi Y sY hy
    obtain ⟨e, w, -, g⟩ := good_mul_nonneg n X Y hX hY pX pY
    refine ⟨rawF mulPos X Y, ?_, w, g⟩
    simp [mul, frechetMul, frechetMulNoStraddle, nsX, nsY, hx, hy, e]

/-! ## order statistics: sorted lists, counting, the constructor on sorted pairs -/

theorem sortR_perm (l : List Rat) : (sortR l).Perm l := List.mergeSort_perm l _

theorem sortR_sorted (l : List Rat) : (sortR l).Pairwise (· ≤ ·) := by
  have := List.pairwise_mergeSort (le := fun a b : Rat => decide (a ≤ b))
    (fun a b c h1 h2 => by simp at h1 h2 ⊢; exact le_trans h1 h2)
    (fun a b => by simp; exact le_total a b) l
  exact this.imp (fun h => by simpa using h)

theorem sortR_length (l : List Rat) : (sortR l).length = l.length := (sortR_perm l).length_eq

/-- rank characterisation of a sorted list (as `Pun.Iso.sorted_get_le_iff`) -/
theorem sorted_getElem_le_iff (s : List Rat) (hs : s.Pairwise (· ≤ ·)) (c : Rat) (i : Nat) (hi : i < s.length) :
    s[i] ≤ c ↔ i < s.countP (fun x => decide (x ≤ c)) := by
  induction s generalizing i with
  | nil => simp at hi
  | cons a t ih =>
    rw [List.pairwise_cons] at hs
    obtain ⟨hat, ht⟩ := hs
    cases i with
    | zero =>
      simp only [List.getElem_cons_zero, List.countP_cons]
      by_cases h : a ≤ c
      · simp [h]
      · simp only [h, decide_false, Bool.false_eq_true, if_false, add_zero, false_iff, not_lt, Nat.le_zero]
        rw [List.countP_eq_zero]
        intro x hx
        have := hat x hx
        simp only [decide_eq_true_eq, not_le]
        exact lt_of_lt_of_le (not_le.mp h) this
    | succ j =>
      simp only [List.getElem_cons_succ, List.countP_cons]
      have hj : j < t.length := by simpa using hi
      rw [ih ht j hj]
      by_cases h : a ≤ c
      · simp [h]
      · simp only [h, decide_false, Bool.false_eq_true, if_false, add_zero]
        have hz : t.countP (fun x => decide (x ≤ c)) = 0 := by
          rw [List.countP_eq_zero]
          intro x hx
          have := hat x hx
          simp only [decide_eq_true_eq, not_le]
          exact lt_of_lt_of_le (not_le.mp h) this
        simp [hz]

theorem countP_le_of_forall₂ (l l' : List Rat) (h : List.Forall₂ (· ≤ ·) l l') (c : Rat) :
    l'.countP (fun x => decide (x ≤ c)) ≤ l.countP (fun x => decide (x ≤ c)) := by
  induction h with
  | nil => simp
  | @cons a b s t hab _ ih =>
    simp only [List.countP_cons]
    by_cases hb : b ≤ c
    · have ha : a ≤ c := le_trans hab hb
      simp [ha, hb]; exact ih
    · simp only [hb, decide_false, Bool.false_eq_true, if_false, add_zero]
      exact le_trans ih (Nat.le_add_right _ _)

/-- order statistics are monotone: a pointwise smaller list has a pointwise smaller sort -/
theorem sortR_forall₂ (l l' : List Rat) (h : List.Forall₂ (· ≤ ·) l l') :
    List.Forall₂ (· ≤ ·) (sortR l) (sortR l') := by
  rw [List.forall₂_iff_get]
  have hlen : (sortR l).length = (sortR l').length := by rw [sortR_length, sortR_length, h.length_eq]
  refine ⟨hlen, fun i hi hi' => ?_⟩
  simp only [List.get_eq_getElem]
  rw [sorted_getElem_le_iff _ (sortR_sorted l) _ i hi]
  have h1 : i < (sortR l').countP (fun x => decide (x ≤ (sortR l')[i])) := by
    rw [← sorted_getElem_le_iff _ (sortR_sorted l') _ i hi']
  rw [(sortR_perm l).countP_eq]
  rw [(sortR_perm l').countP_eq] at h1
  exact lt_of_lt_of_le h1 (countP_le_of_forall₂ l l' h _)

theorem forall₂_getElem (l r : List Rat) (h : List.Forall₂ (· ≤ ·) l r) (i : Nat) (hi : i < l.length) :
    l[i] ≤ r[i]'(by rw [← h.length_eq]; exact hi) := by
  have := (List.forall₂_iff_get.mp h).2 i hi (by rw [← h.length_eq]; exact hi)
  simpa using this

theorem forall₂_of_wf (n : Nat) (X : PB) (hX : WF n X) : List.Forall₂ (· ≤ ·) X.left X.right := by
  rw [List.forall₂_iff_get]
  refine ⟨by rw [hX.llen, hX.rlen], fun i hi hi' => ?_⟩
  simp only [List.get_eq_getElem]
  exact hX.le i (by rw [← hX.llen]; exact hi)

/-- the array-form constructor on the sorts of a pointwise ordered pair of raw bounds -/
theorem mk_sorted_ok (n : Nat) (l r : List Rat) (hl : l.length = n) (hr : r.length = n)
    (hle : List.Forall₂ (· ≤ ·) l r) :
    mk n false (sortR l) (sortR r) = .ok ⟨sortR l, sortR r⟩ ∧ WF n ⟨sortR l, sortR r⟩ := by
  have h2 := sortR_forall₂ l r hle
  have ll : (sortR l).length = n := by rw [sortR_length, hl]
  have lr : (sortR r).length = n := by rw [sortR_length, hr]
  refine ⟨mk_arr_ok n _ _ ll lr (sortR_sorted l) (sortR_sorted r) (fun i h => forall₂_getElem _ _ h2 i h),
    ⟨⟨ll, lr, sortR_sorted l, sortR_sorted r⟩, fun i h => forall₂_getElem _ _ h2 i (by rw [ll]; exact h)⟩⟩

/-- counting in `List.ofFn z` is counting over `Fin n` -/
theorem countP_ofFn {n : Nat} (z : Fin n → Rat) (P : Rat → Prop) [DecidablePred P] :
    (List.ofFn z).countP (fun v => decide (P v)) = (univ.filter (fun m : Fin n => P (z m))).card := by
  induction n with
  | zero => simp
  | succ k ih =>
    rw [List.ofFn_succ, List.countP_cons, Fin.card_filter_univ_succ', ih (fun i => z i.succ)]
    by_cases h : P (z 0) <;> simp [h, add_comm]

/-- **a valid p-box encloses the order statistics of the outcomes**: if `s` is the sorted list of the
outcome family `z`, then `R.left[k] ≤ s[k] ≤ R.right[k]` -/
theorem Valid.encloses_sorted {n : Nat} {R : PB} {z : Fin n → Rat} (hv : Valid n R z) (s : List Rat)
    (hs : s.Pairwise (· ≤ ·)) (hp : s.Perm (List.ofFn z)) (k : Fin n) (l r : Rat)
    (hl : R.left[k.val]? = some l) (hr : R.right[k.val]? = some r) :
    l ≤ s[k.val]'(by rw [hp.length_eq, List.length_ofFn]; exact k.isLt) ∧
    s[k.val]'(by rw [hp.length_eq, List.length_ofFn]; exact k.isLt) ≤ r := by
  have hk : k.val < s.length := by rw [hp.length_eq, List.length_ofFn]; exact k.isLt
  obtain ⟨v1, v2⟩ := hv k l r hl hr
  constructor
  · by_contra hlt
    rw [not_le] at hlt
    have h1 : k.val < s.countP (fun x => decide (x ≤ s[k.val])) :=
      (sorted_getElem_le_iff s hs _ k.val hk).mp (le_refl _)
    rw [hp.countP_eq, countP_ofFn z (fun v => v ≤ s[k.val])] at h1
    have hsub : (univ.filter (fun m : Fin n => z m ≤ s[k.val])) ⊆ (univ.filter (fun m : Fin n => z m < l)) := by
      intro m hm
      rw [Finset.mem_filter] at hm ⊢
      exact ⟨hm.1, lt_of_le_of_lt hm.2 hlt⟩
    have := Finset.card_le_card hsub
    omega
  · rw [sorted_getElem_le_iff s hs r k.val hk, hp.countP_eq, countP_ofFn z (fun v => v ≤ r)]
    have := card_le_add_card_gt z r
    have hk' := k.isLt
    omega

/-! ## the four-corner rule for an operation monotone in both arguments -/

theorem corner_mono (op : Rat → Rat → Rat)
    (hop : ∀ p p' q q', p ≤ p' → q ≤ q' → op p q ≤ op p' q') (a b c d : Rat) (hab : a ≤ b) (hcd : c ≤ d) :
    min4 (op a c) (op a d) (op b c) (op b d) = op a c ∧ max4 (op a c) (op a d) (op b c) (op b d) = op b d := by
  have h1 : op a c ≤ op a d := hop _ _ _ _ (le_refl _) hcd
  have h2 : op a c ≤ op b c := hop _ _ _ _ hab (le_refl _)
  have h3 : op a c ≤ op b d := hop _ _ _ _ hab hcd
  have h4 : op a d ≤ op b d := hop _ _ _ _ hab (le_refl _)
  have h5 : op b c ≤ op b d := hop _ _ _ _ (le_refl _) hcd
  unfold min4 max4
  constructor
  · rw [min_eq_left h1, min_eq_left h2, min_eq_left h3]
  · exact max_eq_right (max_le (max_le h3 h4) h5)

/-- focal pairs under a monotone operation: lower endpoints combine to the lower endpoint, upper to upper -/
theorem cornerPair_mono (op : Rat → Rat → Rat)
    (hop : ∀ p p' q q', p ≤ p' → q ≤ q' → op p q ≤ op p' q') (xl xr yl yr : List Rat)
    (hx : List.Forall₂ (· ≤ ·) xl xr) (hy : List.Forall₂ (· ≤ ·) yl yr) :
    cornerPair op xl xr yl yr = (List.zipWith op xl yl, List.zipWith op xr yr) := by
  induction hx generalizing yl yr with
  | nil => simp [cornerPair, zip4]
  | @cons a b ta tb hab _ ih =>
    cases hy with
    | nil => simp [cornerPair, zip4]
    | @cons c d tc td hcd htl =>
      have := ih tc td htl
      simp only [cornerPair, List.zipWith_cons_cons, zip4, Prod.mk.injEq] at this ⊢
      obtain ⟨e1, e2⟩ := corner_mono op hop a b c d hab hcd
      rw [e1, e2, this.1, this.2]
      exact ⟨rfl, rfl⟩

theorem cornerPair_congr_mem (f g : Rat → Rat → Rat) (xl xr yl yr : List Rat)
    (h : ∀ x, x ∈ xl ∨ x ∈ xr → ∀ y, y ∈ yl ∨ y ∈ yr → f x y = g x y) :
    cornerPair f xl xr yl yr = cornerPair g xl xr yl yr := by
  unfold cornerPair
  rw [zipWith_congr_mem f g xl yl (fun x hx y hy => h x (Or.inl hx) y (Or.inl hy)),
    zipWith_congr_mem f g xl yr (fun x hx y hy => h x (Or.inl hx) y (Or.inr hy)),
    zipWith_congr_mem f g xr yl (fun x hx y hy => h x (Or.inr hx) y (Or.inl hy)),
    zipWith_congr_mem f g xr yr (fun x hx y hy => h x (Or.inr hx) y (Or.inr hy))]

theorem zipWith_mono_sorted (op : Rat → Rat → Rat)
    (hop : ∀ p p' q q', p ≤ p' → q ≤ q' → op p q ≤ op p' q') (a b : List Rat)
    (sa : a.Pairwise (· ≤ ·)) (sb : b.Pairwise (· ≤ ·)) : (List.zipWith op a b).Pairwise (· ≤ ·) := by
  rw [List.pairwise_iff_getElem]
  intro i j hi hj hij
  simp only [List.length_zipWith, lt_min_iff] at hi hj
  simp only [List.getElem_zipWith]
  exact hop _ _ _ _ ((List.pairwise_iff_getElem.mp sa) i j hi.1 hj.1 hij)
    ((List.pairwise_iff_getElem.mp sb) i j hi.2 hj.2 hij)

theorem zipWith_forall₂ (op : Rat → Rat → Rat)
    (hop : ∀ p p' q q', p ≤ p' → q ≤ q' → op p q ≤ op p' q') (xl xr yl yr : List Rat)
    (hx : List.Forall₂ (· ≤ ·) xl xr) (hy : List.Forall₂ (· ≤ ·) yl yr) :
    List.Forall₂ (· ≤ ·) (List.zipWith op xl yl) (List.zipWith op xr yr) := by
  induction hx generalizing yl yr with
  | nil => simp
  | @cons a b ta tb hab _ ih =>
    cases hy with
    | nil => simp
    | @cons c d tc td hcd htl =>
      simp only [List.zipWith_cons_cons]
      exact List.Forall₂.cons (hop _ _ _ _ hab hcd) (ih tc td htl)

theorem zipWith_eq_ofFn (op : Rat → Rat → Rat) (a b : List Rat) (n : Nat) (ha : a.length = n) (hb : b.length = n) :
    List.zipWith op a b = List.ofFn (fun m : Fin n => op (a[m.val]'(by omega)) (b[m.val]'(by omega))) := by
  apply List.ext_getElem
  · simp [ha, hb]
  · intro i h1 h2
    simp

theorem zipWith_reverse_eq_ofFn (op : Rat → Rat → Rat) (a b : List Rat) (n : Nat) (ha : a.length = n)
    (hb : b.length = n) :
    List.zipWith op a b.reverse =
      List.ofFn (fun m : Fin n => op (a[m.val]'(by omega)) (b[(Fin.revPerm m).val]'(by omega))) := by
  apply List.ext_getElem
  · simp [ha, hb]
  · intro i h1 h2
    simp only [List.getElem_zipWith, List.getElem_reverse, List.getElem_ofFn, Fin.revPerm_apply, Fin.val_rev]
    congr 2
    omega

/-! ## perfect and opposite dependence for a monotone operation, and their enclosure by Frechet -/

/-- raw result of the perfect rule for a monotone operation: sorted `op` of the paired lower / upper endpoints -/
def perfF (op : Rat → Rat → Rat) (X Y : PB) : PB :=
  ⟨sortR (List.zipWith op X.left Y.left), sortR (List.zipWith op X.right Y.right)⟩

def oppF (op : Rat → Rat → Rat) (X Y : PB) : PB :=
  ⟨sortR (List.zipWith op X.left Y.left.reverse), sortR (List.zipWith op X.right Y.right.reverse)⟩

theorem perfectOp_mono (op : Rat → Rat → Rat)
    (hop : ∀ p p' q q', p ≤ p' → q ≤ q' → op p q ≤ op p' q') (n : Nat) (X Y : PB) (hX : WF n X) (hY : WF n Y) :
    perfectOp op X Y = ((perfF op X Y).left, (perfF op X Y).right) ∧
    mk n false (perfF op X Y).left (perfF op X Y).right = .ok (perfF op X Y) ∧ WF n (perfF op X Y) := by
  have fx := forall₂_of_wf n X hX
  have fy := forall₂_of_wf n Y hY
  refine ⟨?_, ?_⟩
  · unfold perfectOp
    rw [cornerPair_mono op hop _ _ _ _ fx fy]
    rfl
  · exact mk_sorted_ok n _ _ (by simp [hX.llen, hY.llen]) (by simp [hX.rlen, hY.rlen])
      (zipWith_forall₂ op hop _ _ _ _ fx fy)

theorem oppositeOp_mono (op : Rat → Rat → Rat)
    (hop : ∀ p p' q q', p ≤ p' → q ≤ q' → op p q ≤ op p' q') (n : Nat) (X Y : PB) (hX : WF n X) (hY : WF n Y) :
    oppositeOp op X Y = ((oppF op X Y).left, (oppF op X Y).right) ∧
    mk n false (oppF op X Y).left (oppF op X Y).right = .ok (oppF op X Y) ∧ WF n (oppF op X Y) := by
  have fx := forall₂_of_wf n X hX
  have fy : List.Forall₂ (· ≤ ·) Y.left.reverse Y.right.reverse :=
    List.rel_reverse (forall₂_of_wf n Y hY)
  refine ⟨?_, ?_⟩
  · unfold oppositeOp
    rw [cornerPair_mono op hop _ _ _ _ fx fy]
    rfl
  · exact mk_sorted_ok n _ _ (by simp [hX.llen, hY.llen]) (by simp [hX.rlen, hY.rlen])
      (zipWith_forall₂ op hop _ _ _ _ fx fy)

/-- `F` encloses `D`: `F.left ≤ D.left` and `D.right ≤ F.right` at every step -/
def Encloses (F D : PB) : Prop :=
  ∀ (k : Nat) (l r dl dr : Rat), F.left[k]? = some l → F.right[k]? = some r →
    D.left[k]? = some dl → D.right[k]? = some dr → l ≤ dl ∧ dr ≤ r

/-- a box valid for every selection and coupling encloses the sorted outcomes of any selections under
any coupling: the sorted outcomes of `(xL, yL, σ)` from below, those of `(xR, yR, σ')` from above -/
theorem encloses_coupling (op : Rat → Rat → Rat) (n : Nat) (X Y F : PB) (hX : WFS n X) (hY : WFS n Y)
    (hlen : F.left.length = n ∧ F.right.length = n)
    (g : Good n op X Y F hX hY) (xL yL xR yR : Fin n → Rat)
    (sxL : Sel n X hX xL) (syL : Sel n Y hY yL) (sxR : Sel n X hX xR) (syR : Sel n Y hY yR)
    (σ σ' : Equiv.Perm (Fin n)) (D : PB)
    (sl : D.left.Pairwise (· ≤ ·)) (sr : D.right.Pairwise (· ≤ ·))
    (pl : D.left.Perm (List.ofFn (fun m : Fin n => op (xL m) (yL (σ m)))))
    (pr : D.right.Perm (List.ofFn (fun m : Fin n => op (xR m) (yR (σ' m))))) :
    Encloses F D := by
  intro k l r dl dr hl hr hdl hdr
  have hk : k < n := by
    have := (List.getElem?_eq_some_iff.mp hl).1
    rw [hlen.1] at this; exact this
  have v1 := (g.valid _ _ sxL syL σ).encloses_sorted D.left sl pl ⟨k, hk⟩ l r hl hr
  have v2 := (g.valid _ _ sxR syR σ').encloses_sorted D.right sr pr ⟨k, hk⟩ l r hl hr
  simp only at v1 v2
  obtain ⟨h1, e1⟩ := List.getElem?_eq_some_iff.mp hdl
  obtain ⟨h2, e2⟩ := List.getElem?_eq_some_iff.mp hdr
  rw [← e1, ← e2]
  exact ⟨v1.1, v2.2⟩

/-- **a Frechet result encloses the perfect pairing of the lower / upper endpoints** -/
theorem good_encloses_perfect (op : Rat → Rat → Rat) (n : Nat) (X Y F : PB) (hX : WF n X) (hY : WF n Y)
    (hlen : F.left.length = n ∧ F.right.length = n) (g : Good n op X Y F hX.toWFS hY.toWFS) :
    Encloses F (perfF op X Y) := by
  refine encloses_coupling op n X Y F hX.toWFS hY.toWFS hlen g _ _ _ _ (sel_left n X hX) (sel_left n Y hY)
    (sel_right n X hX) (sel_right n Y hY) (Equiv.refl _) (Equiv.refl _) _ (sortR_sorted _) (sortR_sorted _) ?_ ?_
  · simp only [perfF, Equiv.refl_apply]
    rw [← zipWith_eq_ofFn op X.left Y.left n hX.llen hY.llen]
    exact sortR_perm _
  · simp only [perfF, Equiv.refl_apply]
    rw [← zipWith_eq_ofFn op X.right Y.right n hX.rlen hY.rlen]
    exact sortR_perm _

/-- **… and the opposite pairing** -/
theorem good_encloses_opposite (op : Rat → Rat → Rat) (n : Nat) (X Y F : PB) (hX : WF n X) (hY : WF n Y)
    (hlen : F.left.length = n ∧ F.right.length = n) (g : Good n op X Y F hX.toWFS hY.toWFS) :
    Encloses F (oppF op X Y) := by
  refine encloses_coupling op n X Y F hX.toWFS hY.toWFS hlen g _ _ _ _ (sel_left n X hX) (sel_left n Y hY)
    (sel_right n X hX) (sel_right n Y hY) Fin.revPerm Fin.revPerm _ (sortR_sorted _) (sortR_sorted _) ?_ ?_
  · simp only [oppF]
    rw [← zipWith_reverse_eq_ofFn op X.left Y.left n hX.llen hY.llen]
    exact sortR_perm _
  · simp only [oppF]
    rw [← zipWith_reverse_eq_ofFn op X.right Y.right n hX.rlen hY.rlen]
    exact sortR_perm _

/-! ### products of non-negative operands under perfect / opposite dependence -/

theorem perfectOp_mul_eq (X Y : PB) (pX : NonNeg X) (pY : NonNeg Y) :
    perfectOp (· * ·) X Y = perfectOp mulPos X Y := by
  unfold perfectOp
  rw [cornerPair_congr_mem (· * ·) mulPos _ _ _ _ (fun x hx y hy =>
    (mulPos_eq x y (hx.elim (pX.1 x) (pX.2 x)) (hy.elim (pY.1 y) (pY.2 y))).symm)]

theorem oppositeOp_mul_eq (X Y : PB) (pX : NonNeg X) (pY : NonNeg Y) :
    oppositeOp (· * ·) X Y = oppositeOp mulPos X Y := by
  unfold oppositeOp
  rw [cornerPair_congr_mem (· * ·) mulPos _ _ _ _ (fun x hx y hy =>
    (mulPos_eq x y (hx.elim (pX.1 x) (pX.2 x))
      (hy.elim (fun h => pY.1 y (List.mem_reverse.mp h)) (fun h => pY.2 y (List.mem_reverse.mp h)))).symm)]

theorem perfF_mul_eq (X Y : PB) (pX : NonNeg X) (pY : NonNeg Y) : perfF mulPos X Y = perfF (· * ·) X Y := by
  unfold perfF
  rw [zipWith_congr_mem mulPos (· * ·) X.left Y.left (fun x hx y hy => mulPos_eq x y (pX.1 x hx) (pY.1 y hy)),
    zipWith_congr_mem mulPos (· * ·) X.right Y.right (fun x hx y hy => mulPos_eq x y (pX.2 x hx) (pY.2 y hy))]

theorem oppF_mul_eq (X Y : PB) (pX : NonNeg X) (pY : NonNeg Y) : oppF mulPos X Y = oppF (· * ·) X Y := by
  unfold oppF
  rw [zipWith_congr_mem mulPos (· * ·) X.left Y.left.reverse
      (fun x hx y hy => mulPos_eq x y (pX.1 x hx) (pY.1 y (List.mem_reverse.mp hy))),
    zipWith_congr_mem mulPos (· * ·) X.right Y.right.reverse
      (fun x hx y hy => mulPos_eq x y (pX.2 x hx) (pY.2 y (List.mem_reverse.mp hy)))]

/-- bounding selections and anti-diagonal couplings attain the raw Frechet bounds of a monotone operation -/
theorem frechet_tight_explicit (op : Rat → Rat → Rat)
    (hop : ∀ p p' q q', p ≤ p' → q ≤ q' → op p q ≤ op p' q')
    (n : Nat) (X Y : PB) (hX : WF n X) (hY : WF n Y) (i : Fin n) :
    (∀ l, (rawF op X Y).left[i.val]? = some l → ∃ σ : Equiv.Perm (Fin n),
      IsRank n (fun m => op (X.left[m.val]'(by have := hX.llen; omega))
        (Y.left[(σ m).val]'(by have := hY.llen; omega))) i l) ∧
    (∀ r, (rawF op X Y).right[i.val]? = some r → ∃ σ : Equiv.Perm (Fin n),
      IsRank n (fun m => op (X.right[m.val]'(by have := hX.rlen; omega))
        (Y.right[(σ m).val]'(by have := hY.rlen; omega))) i r) := by
  constructor
  · intro l hl
    obtain ⟨σ, h1, h2⟩ := frechetLeft_tight op hop X.left Y.left n hX.llen hY.llen hX.lsorted hY.lsorted i l hl
    exact ⟨σ, ⟨h1, h2⟩⟩
  · intro r hr
    obtain ⟨σ, h1, h2⟩ := frechetRight_tight op hop X.right Y.right n hX.rlen hY.rlen hX.rsorted hY.rsorted i r hr
    exact ⟨σ, (isRank_iff_right _ _ _).mpr ⟨h1, h2⟩⟩

/-! ## the independent rule for a monotone operation, and its enclosure by Frechet -/

theorem cartesian_cons (op : Rat → Rat → Rat) (a : Rat) (t b : List Rat) :
    cartesian op (a :: t) b = b.map (fun y => op a y) ++ cartesian op t b := by
  simp [cartesian]

theorem cartesian_append (op : Rat → Rat → Rat) (a1 a2 b : List Rat) :
    cartesian op (a1 ++ a2) b = cartesian op a1 b ++ cartesian op a2 b := by
  simp [cartesian]

theorem cartesian_length (op : Rat → Rat → Rat) (a b : List Rat) :
    (cartesian op a b).length = a.length * b.length := by
  induction a with
  | nil => simp [cartesian]
  | cons x t ih => rw [cartesian_cons, List.length_append, ih]; simp [Nat.succ_mul, Nat.add_comm]

theorem zip4_append (f : Rat → Rat → Rat → Rat → Rat) (a1 a2 a3 a4 b1 b2 b3 b4 : List Rat)
    (h2 : a2.length = a1.length) (h3 : a3.length = a1.length) (h4 : a4.length = a1.length) :
    zip4 f (a1 ++ b1) (a2 ++ b2) (a3 ++ b3) (a4 ++ b4) = zip4 f a1 a2 a3 a4 ++ zip4 f b1 b2 b3 b4 := by
  induction a1 generalizing a2 a3 a4 with
  | nil =>
    have e2 := List.eq_nil_of_length_eq_zero h2
    have e3 := List.eq_nil_of_length_eq_zero h3
    have e4 := List.eq_nil_of_length_eq_zero h4
    subst e2 e3 e4
    simp [zip4]
  | cons x t ih =>
    cases a2 with
    | nil => simp at h2
    | cons x2 t2 =>
    cases a3 with
    | nil => simp at h3
    | cons x3 t3 =>
    cases a4 with
    | nil => simp at h4
    | cons x4 t4 =>
      simp only [List.cons_append, zip4]
      rw [ih t2 t3 t4 (by simpa using h2) (by simpa using h3) (by simpa using h4)]

theorem row_mono (op : Rat → Rat → Rat)
    (hop : ∀ p p' q q', p ≤ p' → q ≤ q' → op p q ≤ op p' q') (a b : Rat) (hab : a ≤ b)
    (yl yr : List Rat) (hy : List.Forall₂ (· ≤ ·) yl yr) :
    zip4 min4 (yl.map (fun y => op a y)) (yr.map (fun y => op a y)) (yl.map (fun y => op b y))
        (yr.map (fun y => op b y)) = yl.map (fun y => op a y) ∧
    zip4 max4 (yl.map (fun y => op a y)) (yr.map (fun y => op a y)) (yl.map (fun y => op b y))
        (yr.map (fun y => op b y)) = yr.map (fun y => op b y) := by
  induction hy with
  | nil => simp [zip4]
  | @cons c d tc td hcd _ ih =>
    obtain ⟨e1, e2⟩ := corner_mono op hop a b c d hab hcd
    refine ⟨?_, ?_⟩
    · simp only [List.map_cons, zip4]; rw [e1, ih.1]
    · simp only [List.map_cons, zip4]; rw [e2, ih.2]

/-- the `n²` focal combinations under a monotone operation: lower endpoints with lower endpoints -/
theorem grid_mono (op : Rat → Rat → Rat)
    (hop : ∀ p p' q q', p ≤ p' → q ≤ q' → op p q ≤ op p' q') (xl xr yl yr : List Rat)
    (hx : List.Forall₂ (· ≤ ·) xl xr) (hy : List.Forall₂ (· ≤ ·) yl yr) :
    zip4 min4 (cartesian op xl yl) (cartesian op xl yr) (cartesian op xr yl) (cartesian op xr yr) =
      cartesian op xl yl ∧
    zip4 max4 (cartesian op xl yl) (cartesian op xl yr) (cartesian op xr yl) (cartesian op xr yr) =
      cartesian op xr yr := by
  induction hx with
  | nil => simp [cartesian, zip4]
  | @cons a b ta tb hab _ ih =>
    obtain ⟨r1, r2⟩ := row_mono op hop a b hab yl yr hy
    have hl := hy.length_eq
    simp only [cartesian_cons]
    rw [zip4_append _ _ _ _ _ _ _ _ _ (by simp [hl]) (by simp) (by simp [hl]),
      zip4_append _ _ _ _ _ _ _ _ _ (by simp [hl]) (by simp) (by simp [hl]), r1, r2, ih.1, ih.2]
    exact ⟨rfl, rfl⟩

theorem independentOp_mono (op : Rat → Rat → Rat)
    (hop : ∀ p p' q q', p ≤ p' → q ≤ q' → op p q ≤ op p' q') (n : Nat) (X Y : PB) (hX : WF n X) (hY : WF n Y) :
    independentOp op X Y = (sortR (cartesian op X.left Y.left), sortR (cartesian op X.right Y.right)) := by
  obtain ⟨e1, e2⟩ := grid_mono op hop _ _ _ _ (forall₂_of_wf n X hX) (forall₂_of_wf n Y hY)
  simp only [independentOp, cornersSorted, e1, e2]

theorem map_forall₂ (op : Rat → Rat → Rat)
    (hop : ∀ p p' q q', p ≤ p' → q ≤ q' → op p q ≤ op p' q') (a b : Rat) (hab : a ≤ b)
    (yl yr : List Rat) (hy : List.Forall₂ (· ≤ ·) yl yr) :
    List.Forall₂ (· ≤ ·) (yl.map (fun y => op a y)) (yr.map (fun y => op b y)) := by
  induction hy with
  | nil => simp
  | @cons c d tc td hcd _ ih =>
    simp only [List.map_cons]
    exact List.Forall₂.cons (hop _ _ _ _ hab hcd) ih

theorem forall₂_append {a a' b b' : List Rat} (h1 : List.Forall₂ (· ≤ ·) a a') (h2 : List.Forall₂ (· ≤ ·) b b') :
    List.Forall₂ (· ≤ ·) (a ++ b) (a' ++ b') := by
  induction h1 with
  | nil => simpa using h2
  | cons h _ ih => exact List.Forall₂.cons h ih

theorem cartesian_forall₂ (op : Rat → Rat → Rat)
    (hop : ∀ p p' q q', p ≤ p' → q ≤ q' → op p q ≤ op p' q') (xl xr yl yr : List Rat)
    (hx : List.Forall₂ (· ≤ ·) xl xr) (hy : List.Forall₂ (· ≤ ·) yl yr) :
    List.Forall₂ (· ≤ ·) (cartesian op xl yl) (cartesian op xr yr) := by
  induction hx with
  | nil => simp [cartesian]
  | @cons a b ta tb hab _ ih =>
    simp only [cartesian_cons]
    exact forall₂_append (map_forall₂ op hop a b hab yl yr hy) ih

/-! ### counting in the `n × n` grid -/

theorem countP_cartesian_le (op : Rat → Rat → Rat) (P : Rat → Bool) (a b : List Rat) (c : Nat)
    (h : ∀ x ∈ a, (b.map (fun y => op x y)).countP P ≤ c) : (cartesian op a b).countP P ≤ a.length * c := by
  induction a with
  | nil => simp [cartesian]
  | cons x t ih =>
    rw [cartesian_cons, List.countP_append, List.length_cons, Nat.succ_mul]
    have h1 := h x (by simp)
    have h2 := ih (fun y hy => h y (by simp [hy]))
    omega

/-- a row in which the predicate fails from position `t` on has at most `t` hits -/
theorem countP_map_le_of_tail (f : Rat → Rat) (P : Rat → Bool) (b : List Rat) (t : Nat)
    (h : ∀ j (hj : j < b.length), t ≤ j → P (f b[j]) = false) : (b.map f).countP P ≤ t := by
  rw [← List.take_append_drop t b, List.map_append, List.countP_append]
  have h1 : ((b.take t).map f).countP P ≤ t :=
    le_trans (List.countP_le_length) (by simp)
  have h2 : ((b.drop t).map f).countP P = 0 := by
    rw [List.countP_eq_zero]
    intro x hx
    rw [List.mem_map] at hx
    obtain ⟨y, hy, rfl⟩ := hx
    obtain ⟨j, hj, rfl⟩ := List.mem_drop_iff_getElem.mp hy
    rw [h (t + j) (by omega) (by omega)]
    simp
  omega

/-- a row in which the predicate fails before position `t` has at most `length - t` hits -/
theorem countP_map_le_of_head (f : Rat → Rat) (P : Rat → Bool) (b : List Rat) (t : Nat)
    (h : ∀ j (hj : j < b.length), j < t → P (f b[j]) = false) : (b.map f).countP P ≤ b.length - t := by
  rw [← List.take_append_drop t b, List.map_append, List.countP_append]
  have h1 : ((b.take t).map f).countP P = 0 := by
    rw [List.countP_eq_zero]
    intro x hx
    rw [List.mem_map] at hx
    obtain ⟨y, hy, rfl⟩ := hx
    obtain ⟨j, hj, rfl⟩ := List.mem_take_iff_getElem.mp hy
    rw [h j (by omega) (by omega)]
    simp
  have h2 : ((b.drop t).map f).countP P ≤ b.length - t :=
    le_trans (List.countP_le_length) (by simp)
  simp only [List.take_append_drop]
  omega

theorem sorted_get_le (a : List Rat) (sa : a.Pairwise (· ≤ ·)) (i j : Nat) (hi : i < a.length) (hj : j < a.length)
    (hij : i ≤ j) : a[i] ≤ a[j] := by
  rcases Nat.lt_or_ge i j with h | h
  · exact (List.pairwise_iff_getElem.mp sa) i j hi hj h
  · have : i = j := by omega
    subst this; exact le_refl _

theorem cartesian_split (op : Rat → Rat → Rat) (a b : List Rat) (p : Nat) :
    cartesian op a b = cartesian op (a.take p) b ++ cartesian op (a.drop p) b := by
  rw [← cartesian_append, List.take_append_drop]

/-- at most `p·n + (n-p)·q` of the `n²` combinations satisfy a predicate that fails on the upper-right
quadrant `i ≥ p, j ≥ q` -/
theorem count_quadrant_low (op : Rat → Rat → Rat) (P : Rat → Bool) (a b : List Rat) (n : Nat)
    (ha : a.length = n) (hb : b.length = n) (p q : Nat) (hp : p ≤ n)
    (h : ∀ i j (hi : i < n) (hj : j < n), p ≤ i → q ≤ j → P (op (a[i]'(by omega)) (b[j]'(by omega))) = false) :
    (cartesian op a b).countP P ≤ p * n + (n - p) * q := by
  rw [cartesian_split op a b p, List.countP_append]
  have h1 : (cartesian op (a.take p) b).countP P ≤ p * n := by
    refine le_trans List.countP_le_length ?_
    rw [cartesian_length, hb]
    exact Nat.mul_le_mul_right n (by simp)
  have h2 : (cartesian op (a.drop p) b).countP P ≤ (n - p) * q := by
    have := countP_cartesian_le op P (a.drop p) b q ?_
    · simpa [ha] using this
    · intro x hx
      obtain ⟨i, hi, rfl⟩ := List.mem_drop_iff_getElem.mp hx
      apply countP_map_le_of_tail
      intro j hj hqj
      exact h (p + i) j (by omega) (by omega) (by omega) hqj
  omega

/-- at most `(n-p)·n + p·(n-q)` of the `n²` combinations satisfy a predicate that fails on the
lower-left quadrant `i < p, j < q` -/
theorem count_quadrant_high (op : Rat → Rat → Rat) (P : Rat → Bool) (a b : List Rat) (n : Nat)
    (ha : a.length = n) (hb : b.length = n) (p q : Nat) (hp : p ≤ n)
    (h : ∀ i j (hi : i < n) (hj : j < n), i < p → j < q → P (op (a[i]'(by omega)) (b[j]'(by omega))) = false) :
    (cartesian op a b).countP P ≤ (n - p) * n + p * (n - q) := by
  rw [cartesian_split op a b p, List.countP_append]
  have h2 : (cartesian op (a.drop p) b).countP P ≤ (n - p) * n := by
    refine le_trans List.countP_le_length ?_
    rw [cartesian_length, hb]
    exact Nat.mul_le_mul_right n (by simp [ha])
  have h1 : (cartesian op (a.take p) b).countP P ≤ p * (n - q) := by
    have := countP_cartesian_le op P (a.take p) b (n - q) ?_
    · have hlen : (a.take p).length = p := by simp [ha]; omega
      rw [hlen] at this; exact this
    · intro x hx
      obtain ⟨i, hi, rfl⟩ := List.mem_take_iff_getElem.mp hx
      have := countP_map_le_of_head (fun y => op a[i] y) P b q ?_
      · rw [hb] at this; exact this
      · intro j hj hjq
        exact h i j (by omega) (by omega) (by omega) hjq
  omega

/-- at most `p·n + (n-p)·q` of the `n²` combinations fall strictly below `op a[p] b[q]` -/
theorem count_below (op : Rat → Rat → Rat)
    (hop : ∀ p p' q q', p ≤ p' → q ≤ q' → op p q ≤ op p' q') (a b : List Rat) (n : Nat)
    (ha : a.length = n) (hb : b.length = n) (sa : a.Pairwise (· ≤ ·)) (sb : b.Pairwise (· ≤ ·))
    (p q : Nat) (hp : p < n) (hq : q < n) :
    (cartesian op a b).countP (fun z => decide (z < op (a[p]'(by omega)) (b[q]'(by omega)))) ≤
      p * n + (n - p) * q := by
  apply count_quadrant_low op _ a b n ha hb p q (by omega)
  intro i j hi hj hpi hqj
  simp only [decide_eq_false_iff_not, not_lt]
  exact hop _ _ _ _ (sorted_get_le a sa p i (by omega) (by omega) hpi)
    (sorted_get_le b sb q j (by omega) (by omega) hqj)

/-- at most `(n-1-p)·n + (p+1)·(n-1-q)` of the `n²` combinations lie strictly above `op a[p] b[q]` -/
theorem count_above (op : Rat → Rat → Rat)
    (hop : ∀ p p' q q', p ≤ p' → q ≤ q' → op p q ≤ op p' q') (a b : List Rat) (n : Nat)
    (ha : a.length = n) (hb : b.length = n) (sa : a.Pairwise (· ≤ ·)) (sb : b.Pairwise (· ≤ ·))
    (p q : Nat) (hp : p < n) (hq : q < n) :
    (cartesian op a b).countP (fun z => decide (op (a[p]'(by omega)) (b[q]'(by omega)) < z)) ≤
      (n - 1 - p) * n + (p + 1) * (n - 1 - q) := by
  have key := count_quadrant_high op (fun z => decide (op (a[p]'(by omega)) (b[q]'(by omega)) < z)) a b n ha hb
    (p + 1) (q + 1) (by omega) ?_
  · have e1 : n - (p + 1) = n - 1 - p := by omega
    have e2 : n - (q + 1) = n - 1 - q := by omega
    rw [e1, e2] at key; exact key
  · intro i j hi hj hip hjq
    simp only [decide_eq_false_iff_not, not_lt]
    exact hop _ _ _ _ (sorted_get_le a sa i p (by omega) (by omega) (by omega))
      (sorted_get_le b sb j q (by omega) (by omega) (by omega))

/-- **every order statistic of the `n²` independent combinations inside block `k` (ranks `kn … kn+n-1`)
lies inside step `k` of the Frechet result** -/
theorem indep_block_enclosed (op : Rat → Rat → Rat)
    (hop : ∀ p p' q q', p ≤ p' → q ≤ q' → op p q ≤ op p' q')
    (n : Nat) (X Y : PB) (hX : WF n X) (hY : WF n Y) (k : Nat) (hk : k < n) (l r : Rat)
    (hl : (rawF op X Y).left[k]? = some l) (hr : (rawF op X Y).right[k]? = some r)
    (idx : Nat) (h1 : n * k ≤ idx) (h2 : idx + 1 ≤ n * k + n)
    (hiL : idx < (sortR (cartesian op X.left Y.left)).length)
    (hiR : idx < (sortR (cartesian op X.right Y.right)).length) :
    l ≤ (sortR (cartesian op X.left Y.left))[idx] ∧ (sortR (cartesian op X.right Y.right))[idx] ≤ r := by
  constructor
  · obtain ⟨v, hv, -, j, hj, hatt⟩ := frechetLeftRaw_spec op X.left Y.left (by rw [hX.llen, hY.llen]) k
      (by rw [hX.llen]; exact hk)
    have e : (rawF op X Y).left[k]? = some v := hv
    rw [hl] at e
    have e' := Option.some.inj e
    subst e'
    by_contra hlt
    rw [not_le] at hlt
    have c1 : idx < (sortR (cartesian op X.left Y.left)).countP
        (fun x => decide (x ≤ (sortR (cartesian op X.left Y.left))[idx])) :=
      (sorted_getElem_le_iff _ (sortR_sorted _) _ idx hiL).mp (le_refl _)
    rw [(sortR_perm _).countP_eq] at c1
    have c2 : (cartesian op X.left Y.left).countP
        (fun x => decide (x ≤ (sortR (cartesian op X.left Y.left))[idx])) ≤
        (cartesian op X.left Y.left).countP (fun x => decide (x < l)) := by
      apply List.countP_mono_left
      intro x _ hx
      simp only [decide_eq_true_eq] at hx ⊢
      exact lt_of_le_of_lt hx hlt
    have c3 := count_below op hop X.left Y.left n hX.llen hY.llen hX.lsorted hY.lsorted j (k - j)
      (by omega) (by omega)
    rw [← hatt] at c3
    have c4 : (n - j) * (k - j) ≤ n * (k - j) := Nat.mul_le_mul_right _ (Nat.sub_le n j)
    have c5 : j * n + n * (k - j) = n * k := by
      rw [Nat.mul_comm j n, ← Nat.mul_add]; congr 1; omega
    omega
  · obtain ⟨w, hw, -, t, ht, hatt⟩ := frechetRightRaw_spec op X.right Y.right n hX.rlen hY.rlen k hk
    have e : (rawF op X Y).right[k]? = some w := hw
    rw [hr] at e
    have e' := Option.some.inj e
    subst e'
    rw [sorted_getElem_le_iff _ (sortR_sorted _) r idx hiR, (sortR_perm _).countP_eq]
    have tot := List.length_eq_countP_add_countP (fun x => decide (x ≤ r)) (l := cartesian op X.right Y.right)
    rw [cartesian_length, hX.rlen, hY.rlen] at tot
    have c3 := count_above op hop X.right Y.right n hX.rlen hY.rlen hX.rsorted hY.rsorted (k + t) (n - 1 - t)
      (by omega) (by omega)
    rw [← hatt] at c3
    have c2 : (cartesian op X.right Y.right).countP (fun a => decide ¬(decide (a ≤ r)) = true) =
        (cartesian op X.right Y.right).countP (fun z => decide (r < z)) := by
      congr 1
      funext a
      simp
    rw [c2] at tot
    -- arithmetic: n² - (n-1-p)·n - (p+1)·t ≥ (k+1)·n  for p = k + t, t ≤ n-k-1
    obtain ⟨u, hu⟩ : ∃ u, n = k + t + 1 + u := ⟨n - (k + t + 1), by omega⟩
    have e1 : n - 1 - (k + t) = u := by omega
    have e2 : n - 1 - (n - 1 - t) = t := by omega
    rw [e1, e2] at c3
    by_contra hcon
    rw [not_lt] at hcon
    have key : n * n + 1 ≤ n * k + n + (u * n + (k + t + 1) * t) := by omega
    subst hu
    nlinarith [Nat.zero_le (t * u), key]

/-! ### condensation of the `n²` values by the constructor (as in `Pun.Iso`) -/

theorem getD_of_lt (l : List Rat) (i : Nat) (d : Rat) (h : i < l.length) : l.getD i d = l[i] :=
  (List.getElem_eq_getD d).symm

theorem condense_length (n : Nat) (b : List Rat) : (condense n b).length = n := by simp [condense]

theorem condenseIdx_lt (len n k : Nat) (hlen : 0 < len) (hk : k < n) : condenseIdx len n k < len := by
  unfold condenseIdx
  split
  · exact hlen
  · rename_i h
    have hn : 0 < n - 1 := by omega
    have : k * (len - 1) / (n - 1) ≤ len - 1 := by
      apply Nat.div_le_of_le_mul
      have : k ≤ n - 1 := by omega
      exact Nat.mul_le_mul_right _ this
    omega

theorem condenseIdx_mono (len n k k' : Nat) (h : k ≤ k') : condenseIdx len n k ≤ condenseIdx len n k' := by
  unfold condenseIdx
  split
  · exact le_refl _
  · exact Nat.div_le_div_right (Nat.mul_le_mul_right _ h)

theorem condense_getElem? (n : Nat) (b : List Rat) (hb : 0 < b.length) (k : Nat) (hk : k < n) :
    (condense n b)[k]? = some (b[condenseIdx b.length n k]'(condenseIdx_lt _ _ _ hb hk)) := by
  unfold condense
  rw [List.getElem?_map, List.getElem?_range hk]
  simp only [Option.map_some]
  rw [getD_of_lt _ _ _ (condenseIdx_lt _ _ _ hb hk)]

theorem condense_sorted (n : Nat) (b : List Rat) (hb : 0 < b.length) (s : b.Pairwise (· ≤ ·)) :
    (condense n b).Pairwise (· ≤ ·) := by
  rw [List.pairwise_iff_getElem]
  intro i j hi hj hij
  rw [condense_length] at hi hj
  have e1 := condense_getElem? n b hb i hi
  have e2 := condense_getElem? n b hb j hj
  rw [List.getElem?_eq_getElem (by rw [condense_length]; exact hi)] at e1
  rw [List.getElem?_eq_getElem (by rw [condense_length]; exact hj)] at e2
  rw [Option.some.inj e1, Option.some.inj e2]
  exact sorted_get_le b s _ _ _ _ (condenseIdx_mono _ _ _ _ (le_of_lt hij))

/-- condensation index for `n²` values down to `n`: entry `k(n+1)` -/
theorem condense_index (n k : Nat) (hn : 2 ≤ n) : condenseIdx (n * n) n k = k * (n + 1) := by
  unfold condenseIdx
  have h1 : ¬ n ≤ 1 := by omega
  simp only [h1, if_false]
  have h2 : n * n - 1 = (n + 1) * (n - 1) := by
    obtain ⟨m, rfl⟩ : ∃ m, n = m + 2 := ⟨n - 2, by omega⟩
    have e1 : m + 2 - 1 = m + 1 := by omega
    have e2 : (m + 2) * (m + 2) = (m + 2 + 1) * (m + 1) + 1 := by ring
    rw [e1, e2]; omega
  rw [h2, ← Nat.mul_assoc, Nat.mul_div_cancel _ (by omega : 0 < n - 1)]

/-- … which lies in the `k`-th block of `n` consecutive order statistics -/
theorem condense_block (n k : Nat) (hn : 2 ≤ n) (hk : k < n) :
    k * n ≤ condenseIdx (n * n) n k ∧ condenseIdx (n * n) n k ≤ k * n + (n - 1) := by
  rw [condense_index n k hn]
  constructor
  · nlinarith
  · have : k * (n + 1) = k * n + k := by ring
    omega

/-- the constructor on the sorted `n²` endpoints of the independent rule: it returns, and step `k` of
the result is entry `idx` of each sorted list for one index inside block `k` -/
theorem mk_indep_ok (n : Nat) (l r : List Rat) (hl : l.length = n * n) (hr : r.length = n * n)
    (sl : l.Pairwise (· ≤ ·)) (sr : r.Pairwise (· ≤ ·)) (hle : List.Forall₂ (· ≤ ·) l r) :
    ∃ D, mk n false l r = .ok D ∧ WF n D ∧
      ∀ k (hk : k < n), ∃ idx, idx < n * n ∧ n * k ≤ idx ∧ idx + 1 ≤ n * k + n ∧
        D.left[k]? = l[idx]? ∧ D.right[k]? = r[idx]? := by
  rcases Nat.lt_or_ge n 2 with hn | hn
  · -- n ≤ 1: nothing is condensed
    have hnn : n * n = n := by
      rcases Nat.eq_zero_or_pos n with h0 | h0
      · subst h0; rfl
      · have : n = 1 := by omega
        subst this; rfl
    rw [hnn] at hl hr
    refine ⟨⟨l, r⟩, mk_arr_ok n l r hl hr sl sr (fun i h => forall₂_getElem l r hle i h),
      ⟨⟨hl, hr, sl, sr⟩, fun i h => forall₂_getElem l r hle i (by omega)⟩, ?_⟩
    intro k hk
    have hk0 : k = 0 := by omega
    have hn1 : n = 1 := by omega
    subst hk0 hn1
    exact ⟨0, by omega, by omega, by omega, rfl, rfl⟩
  · have hlt : n < n * n := by nlinarith
    have hlp : 0 < l.length := by omega
    have hrp : 0 < r.length := by omega
    have scl := condense_sorted n l hlp sl
    have scr := condense_sorted n r hrp sr
    have hcle : ∀ i (h : i < (condense n l).length), (condense n l)[i] ≤ (condense n r)[i]'(by
        rw [condense_length] at h ⊢; exact h) := by
      intro i h
      rw [condense_length] at h
      have e1 := condense_getElem? n l hlp i h
      have e2 := condense_getElem? n r hrp i h
      rw [List.getElem?_eq_getElem (by rw [condense_length]; exact h)] at e1 e2
      rw [Option.some.inj e1, Option.some.inj e2]
      have hidx := condenseIdx_lt l.length n i hlp h
      have := forall₂_getElem l r hle _ hidx
      simp only [hl, hr] at this ⊢
      exact this
    have il := isIncreasing_of_sorted _ scl
    have ir := isIncreasing_of_sorted _ scr
    have nc := no_cross (condense n l) (condense n r) (by rw [condense_length, condense_length]) hcle
    have bl : boundSteps n l = .ok (condense n l) := by simp [boundSteps, hl, hlt]
    have br : boundSteps n r = .ok (condense n r) := by simp [boundSteps, hr, hlt]
    have hlr : l.length = r.length := by rw [hl, hr]
    have hmk : mk n false l r = .ok ⟨condense n l, condense n r⟩ := by
      by_cases h : allGe l r = true
      · have e : l = r := allGe_antisymm l r hlr (fun i h => forall₂_getElem l r hle i h) h
        subst e
        simp [mk, h, bl, il, bind, Except.bind, condense_length]
        simpa using nc
      · simp only [Bool.not_eq_true] at h
        simp [mk, h, bl, br, il, ir, bind, Except.bind, hlr, condense_length]
        simpa using nc
    refine ⟨_, hmk, ⟨⟨condense_length n l, condense_length n r, scl, scr⟩,
      fun i h => hcle i (by rw [condense_length]; exact h)⟩, ?_⟩
    intro k hk
    obtain ⟨b1, b2⟩ := condense_block n k hn hk
    have hidx : condenseIdx (n * n) n k < n * n := condenseIdx_lt (n * n) n k (by omega) hk
    refine ⟨condenseIdx (n * n) n k, hidx, by rw [Nat.mul_comm]; exact b1, by rw [Nat.mul_comm n k]; omega, ?_, ?_⟩
    · have := condense_getElem? n l hlp k hk
      rw [this, List.getElem?_eq_getElem (by rw [hl]; exact hidx)]
      simp only [hl]
    · have := condense_getElem? n r hrp k hk
      rw [this, List.getElem?_eq_getElem (by rw [hr]; exact hidx)]
      simp only [hr]

/-- **Frechet encloses the independent result** (any operation monotone in both arguments): the
constructor returns on the `n²` sorted combinations, and every step of the condensed result lies inside
the same step of the raw Frechet bounds -/
theorem frechet_encloses_independent (op : Rat → Rat → Rat)
    (hop : ∀ p p' q q', p ≤ p' → q ≤ q' → op p q ≤ op p' q')
    (n : Nat) (X Y : PB) (hX : WF n X) (hY : WF n Y) :
    ∃ D, mk n false (independentOp op X Y).1 (independentOp op X Y).2 = .ok D ∧ WF n D ∧
      Encloses (rawF op X Y) D := by
  rw [independentOp_mono op hop n X Y hX hY]
  have lL : (sortR (cartesian op X.left Y.left)).length = n * n := by
    rw [sortR_length, cartesian_length, hX.llen, hY.llen]
  have lR : (sortR (cartesian op X.right Y.right)).length = n * n := by
    rw [sortR_length, cartesian_length, hX.rlen, hY.rlen]
  obtain ⟨D, hD, wD, hidx⟩ := mk_indep_ok n _ _ lL lR (sortR_sorted _) (sortR_sorted _)
    (sortR_forall₂ _ _ (cartesian_forall₂ op hop _ _ _ _ (forall₂_of_wf n X hX) (forall₂_of_wf n Y hY)))
  refine ⟨D, hD, wD, ?_⟩
  intro k l r dl dr hl hr hdl hdr
  have hk : k < n := by
    have := (List.getElem?_eq_some_iff.mp hl).1
    simp only [rawF, frechetLeftRaw_length, hX.llen] at this
    exact this
  obtain ⟨idx, hlt, b1, b2, eL, eR⟩ := hidx k hk
  rw [eL, List.getElem?_eq_getElem (by rw [lL]; exact hlt)] at hdl
  rw [eR, List.getElem?_eq_getElem (by rw [lR]; exact hlt)] at hdr
  rw [← Option.some.inj hdl, ← Option.some.inj hdr]
  exact indep_block_enclosed op hop n X Y hX hY k hk l r hl hr idx b1 b2 (by omega) (by omega)

theorem independentOp_mul_eq (X Y : PB) (pX : NonNeg X) (pY : NonNeg Y) :
    independentOp (· * ·) X Y = independentOp mulPos X Y := by
  have e : ∀ (a b : List Rat), (∀ x ∈ a, 0 ≤ x) → (∀ y ∈ b, 0 ≤ y) →
      cartesian (· * ·) a b = cartesian mulPos a b := by
    intro a b ha hb
    unfold cartesian
    apply List.flatMap_congr
    intro x hx
    apply List.map_congr_left
    intro y hy
    exact (mulPos_eq x y (ha x hx) (hb y hy)).symm
  unfold independentOp cornersSorted
  rw [e _ _ pX.1 pY.1, e _ _ pX.1 pY.2, e _ _ pX.2 pY.1, e _ _ pX.2 pY.2]

/-! ## validity alone (no tightness): transport, composition -/

/-- `R` bounds `op X Y` under every dependence: validity for every selection and every coupling -/
def AllValid (n : Nat) (op : Rat → Rat → Rat) (X Y R : PB) (hX : WFS n X) (hY : WFS n Y) : Prop :=
  ∀ x y : Fin n → Rat, Sel n X hX x → Sel n Y hY y → ∀ σ : Equiv.Perm (Fin n),
    Valid n R (fun m => op (x m) (y (σ m)))

theorem Good.allValid {n : Nat} {op : Rat → Rat → Rat} {X Y R : PB} {hX : WFS n X} {hY : WFS n Y}
    (g : Good n op X Y R hX hY) : AllValid n op X Y R hX hY := g.valid

theorem AllValid.congr_sel {n : Nat} {op op' : Rat → Rat → Rat} {X Y R : PB} {hX : WFS n X} {hY : WFS n Y}
    (g : AllValid n op X Y R hX hY)
    (h : ∀ x y : Fin n → Rat, Sel n X hX x → Sel n Y hY y → ∀ m k, op (x m) (y k) = op' (x m) (y k)) :
    AllValid n op' X Y R hX hY := by
  intro x y hx hy σ
  have e : (fun m => op' (x m) (y (σ m))) = (fun m => op (x m) (y (σ m))) := by
    funext m; exact (h x y hx hy m (σ m)).symm
  rw [e]; exact g x y hx hy σ

theorem AllValid.congr {n : Nat} {op op' : Rat → Rat → Rat} {X Y R : PB} {hX : WFS n X} {hY : WFS n Y}
    (g : AllValid n op X Y R hX hY) (h : ∀ a b, op a b = op' a b) : AllValid n op' X Y R hX hY :=
  g.congr_sel (fun _ _ _ _ _ _ => h _ _)

theorem AllValid.flipY {n : Nat} {op : Rat → Rat → Rat} {X Y R : PB} {hX : WFS n X}
    (φ : Rat → Rat) (S : Rat → Prop) (h : AntiInv φ S) (hY : WFS n Y) (hS : InS S Y)
    (hY' : WFS n (flipB φ Y)) (g : AllValid n op X (flipB φ Y) R hX hY') :
    AllValid n (fun a b => op a (φ b)) X Y R hX hY := by
  intro x y hx hy σ
  have key := g x (fun m => φ (y (Fin.rev m))) hx (sel_flipB φ S h n Y hY hS hY' y hy)
    (σ.trans Fin.revPerm)
  simp only [Equiv.trans_apply, Fin.revPerm_apply, Fin.rev_rev] at key
  exact key

/-- the operands exchanged (couplings `σ ↦ σ⁻¹`, outcomes re-indexed by `σ`) -/
theorem AllValid.swap {n : Nat} {op : Rat → Rat → Rat} {X Y R : PB} {hX : WFS n X} {hY : WFS n Y}
    (g : AllValid n op Y X R hY hX) : AllValid n (fun a b => op b a) X Y R hX hY := by
  intro x y hx hy σ
  have key := (g y x hy hx σ.symm).reindex σ
  simp only [Equiv.symm_apply_apply] at key
  exact key

/-- a selection (in step order) is a valid outcome family -/
theorem Sel.valid {n : Nat} {P : PB} (hP : WFS n P) (w : Fin n → Rat) (h : Sel n P hP w) : Valid n P w := by
  intro i l r hl hr
  have hi := i.isLt
  have hll := hP.llen; have hrl := hP.rlen
  rw [List.getElem?_eq_getElem (by omega)] at hl hr
  have el := Option.some.inj hl
  have er := Option.some.inj hr
  subst el er
  constructor
  · have hsub : (univ.filter (fun m : Fin n => w m < P.left[i.val])) ⊆ Finset.Iio i := by
      intro m hm
      rw [Finset.mem_filter] at hm
      rw [Finset.mem_Iio]
      by_contra hge
      rw [not_lt] at hge
      have h1 := (h m).1
      have h2 := sorted_get_le P.left hP.lsorted i.val m.val (by omega) (by have := m.isLt; omega) hge
      exact absurd hm.2 (not_lt.mpr (le_trans h2 h1))
    calc _ ≤ (Finset.Iio i).card := card_le_card hsub
      _ = i.val := Fin.card_Iio i
  · have hsub : (univ.filter (fun m : Fin n => P.right[i.val] < w m)) ⊆ Finset.Ioi i := by
      intro m hm
      rw [Finset.mem_filter] at hm
      rw [Finset.mem_Ioi]
      by_contra hge
      rw [not_lt] at hge
      have h1 := (h m).2
      have h2 := sorted_get_le P.right hP.rsorted m.val i.val (by have := m.isLt; omega) (by omega) hge
      exact absurd hm.2 (not_lt.mpr (le_trans h1 h2))
    calc _ ≤ (Finset.Ioi i).card := card_le_card hsub
      _ = n - 1 - i.val := Fin.card_Ioi i

/-- a monotone valid outcome family is a selection -/
theorem Valid.sel_of_monotone {n : Nat} {P : PB} (hP : WFS n P) (w : Fin n → Rat) (hw : Monotone w)
    (h : Valid n P w) : Sel n P hP w := by
  intro m
  have hm := m.isLt
  have hll := hP.llen; have hrl := hP.rlen
  obtain ⟨v1, v2⟩ := h m (P.left[m.val]'(by omega)) (P.right[m.val]'(by omega))
    (List.getElem?_eq_getElem (by omega)) (List.getElem?_eq_getElem (by omega))
  constructor
  · by_contra hlt
    rw [not_le] at hlt
    have hsub : Finset.Iic m ⊆ (univ.filter (fun j : Fin n => w j < P.left[m.val])) := by
      intro j hj
      rw [Finset.mem_Iic] at hj
      rw [Finset.mem_filter]
      exact ⟨mem_univ _, lt_of_le_of_lt (hw hj) hlt⟩
    have := card_le_card hsub
    rw [Fin.card_Iic] at this
    omega
  · by_contra hlt
    rw [not_le] at hlt
    have hsub : Finset.Ici m ⊆ (univ.filter (fun j : Fin n => P.right[m.val] < w j)) := by
      intro j hj
      rw [Finset.mem_Ici] at hj
      rw [Finset.mem_filter]
      exact ⟨mem_univ _, lt_of_lt_of_le hlt (hw hj)⟩
    have := card_le_card hsub
    rw [Fin.card_Ici] at this
    omega

/-- **validity composes**: if the family `u` is valid for `P`, the family `v` (same index set) is
valid for `Q`, and `R` is valid for `op P Q` under every coupling, then `op u v` is valid for `R` —
sort both families, they become selections, and the index correspondence becomes a coupling -/
theorem AllValid.comp {n : Nat} {op : Rat → Rat → Rat} {P Q R : PB} {hP : WFS n P} {hQ : WFS n Q}
    (h : AllValid n op P Q R hP hQ) (u v : Fin n → Rat) (hu : Valid n P u) (hv : Valid n Q v) :
    Valid n R (fun m => op (u m) (v m)) := by
  have su := Valid.sel_of_monotone hP (fun m => u (Tuple.sort u m)) (Tuple.monotone_sort u)
    (hu.reindex (Tuple.sort u))
  have sv := Valid.sel_of_monotone hQ (fun m => v (Tuple.sort v m)) (Tuple.monotone_sort v)
    (hv.reindex (Tuple.sort v))
  have key := (h _ _ su sv ((Tuple.sort u).trans (Tuple.sort v).symm)).reindex (Tuple.sort u).symm
  simp only [Equiv.trans_apply, Equiv.apply_symm_apply] at key
  exact key

/-! ### images of a p-box under `· + c` (monotone) and `· * c`, `c < 0` (antitone) -/

/-- image of a p-box under an order-preserving map -/
def mapB (g : Rat → Rat) (p : PB) : PB := ⟨p.left.map g, p.right.map g⟩

theorem wf_num (n : Nat) (P : PB) (h : WF n P) : Num.WF n P :=
  ⟨h.llen, h.rlen, h.lsorted, h.rsorted, forall₂_of_wf n P h⟩

theorem wf_envImp (n : Nat) (P : PB) (h : WF n P) : EnvImp.WF n P :=
  ⟨h.llen, h.rlen, h.lsorted, h.rsorted, forall₂_of_wf n P h⟩

theorem wf_of_num (n : Nat) (P : PB) (h : Num.WF n P) : WF n P :=
  ⟨⟨h.lenL, h.lenR, h.sortedL, h.sortedR⟩, fun i hi => forall₂_getElem _ _ h.le i (by rw [h.lenL]; exact hi)⟩

/-- `P + c`, `P - c` (`pbox_number_ops`): every bound shifted -/
theorem numberOp_shift (n : Nat) (f : Rat → Rat → Rat) (c : Rat) (P : PB) (h : WF n P)
    (hf : ∀ x y, x ≤ y → f x c ≤ f y c) :
    numberOp n f P c = .ok (mapB (f · c) P) ∧ WF n (mapB (f · c) P) :=
  ⟨Num.numberOp_mono n f P c (wf_num n P h) (fun _ => True) (fun _ _ => trivial) (fun _ _ => trivial)
      (fun x y _ _ hxy => hf x y hxy),
    wf_of_num n _ (Num.wf_map_mono n P (wf_num n P h) (f · c) (fun _ => True) (fun _ _ => trivial)
      (fun _ _ => trivial) (fun x y _ _ hxy => hf x y hxy))⟩

/-- `P * c` for an order-reversing constant: bounds exchanged and reversed -/
theorem numberOp_flip (n : Nat) (f : Rat → Rat → Rat) (c : Rat) (P : PB) (h : WF n P)
    (hf : ∀ x y, x ≤ y → f y c ≤ f x c) :
    numberOp n f P c = .ok (flipB (f · c) P) ∧ WF n (flipB (f · c) P) :=
  ⟨Num.numberOp_anti n f P c (wf_num n P h) (fun _ => True) (fun _ _ => trivial) (fun _ _ => trivial)
      (fun x y _ _ hxy => hf x y hxy),
    wf_of_num n _ (Num.wf_map_anti n P (wf_num n P h) (f · c) (fun _ => True) (fun _ _ => trivial)
      (fun _ _ => trivial) (fun x y _ _ hxy => hf x y hxy))⟩

theorem sel_mapB (g : Rat → Rat) (hg : ∀ x y, x ≤ y → g x ≤ g y) (n : Nat) (P : PB) (hP : WFS n P)
    (hw : WFS n (mapB g P)) (w : Fin n → Rat) (h : Sel n P hP w) : Sel n (mapB g P) hw (fun m => g (w m)) := by
  intro m
  simp only [mapB, List.getElem_map]
  exact ⟨hg _ _ (h m).1, hg _ _ (h m).2⟩

/-- the image of a selection under an antitone map is a valid family of the flipped p-box -/
theorem valid_flipB (φ : Rat → Rat) (hφ : ∀ x y, x ≤ y → φ y ≤ φ x) (n : Nat) (P : PB) (hP : WFS n P)
    (hw : WFS n (flipB φ P)) (w : Fin n → Rat) (h : Sel n P hP w) : Valid n (flipB φ P) (fun m => φ (w m)) := by
  have hs : Sel n (flipB φ P) hw (fun m => φ (w (Fin.rev m))) := by
    intro m
    have hm := m.isLt
    have hl := hP.llen; have hr := hP.rlen
    have e1 := flipB_left_get φ P n hP.rlen m.val hm
    have e2 := flipB_right_get φ P n hP.llen m.val hm
    have l1 : m.val < (flipB φ P).left.length := by rw [hw.llen]; exact hm
    have l2 : m.val < (flipB φ P).right.length := by rw [hw.rlen]; exact hm
    rw [List.getElem?_eq_getElem l1] at e1
    rw [List.getElem?_eq_getElem l2] at e2
    rw [Option.some.inj e1, Option.some.inj e2]
    have hy' := h (Fin.rev m)
    have ea : P.left[(Fin.rev m).val]'(by simp only [Fin.val_rev]; omega) = P.left[n - 1 - m.val]'(by omega) := by
      congr 1; simp only [Fin.val_rev]; omega
    have eb : P.right[(Fin.rev m).val]'(by simp only [Fin.val_rev]; omega) = P.right[n - 1 - m.val]'(by omega) := by
      congr 1; simp only [Fin.val_rev]; omega
    rw [ea, eb] at hy'
    exact ⟨hφ _ _ hy'.2, hφ _ _ hy'.1⟩
  have key := (Sel.valid hw _ hs).reindex Fin.revPerm
  simp only [Fin.revPerm_apply, Fin.rev_rev] at key
  exact key

/-- shifting every bound and every outcome by the same constant keeps validity -/
theorem Valid.add_const {n : Nat} {R : PB} {z : Fin n → Rat} (h : Valid n R z) (c : Rat) :
    Valid n (mapB (· + c) R) (fun m => z m + c) := by
  intro i l r hl hr
  simp only [mapB, List.getElem?_map, Option.map_eq_some_iff] at hl hr
  obtain ⟨l0, hl0, rfl⟩ := hl
  obtain ⟨r0, hr0, rfl⟩ := hr
  have := h i l0 r0 hl0 hr0
  simpa using this

/-- the entrywise intersection of two valid boxes is valid -/
theorem Valid.imp {n : Nat} {P Q : PB} {z : Fin n → Rat} (hP : Valid n P z) (hQ : Valid n Q z) :
    Valid n (EnvImp.impSpec P Q) z := by
  intro i l r hl hr
  simp only [EnvImp.impSpec, List.getElem?_zipWith] at hl hr
  cases h1 : P.left[i.val]? with
  | none => simp [h1] at hl
  | some l1 =>
  cases h2 : Q.left[i.val]? with
  | none => simp [h1, h2] at hl
  | some l2 =>
  cases h3 : P.right[i.val]? with
  | none => simp [h3] at hr
  | some r1 =>
  cases h4 : Q.right[i.val]? with
  | none => simp [h3, h4] at hr
  | some r2 =>
    simp only [h1, h2, h3, h4, Option.some.injEq] at hl hr
    subst hl hr
    obtain ⟨a1, a2⟩ := hP i l1 r1 h1 h3
    obtain ⟨b1, b2⟩ := hQ i l2 r2 h2 h4
    constructor
    · rcases max_choice l1 l2 with e | e <;> rw [e] <;> assumption
    · rcases min_choice r1 r2 with e | e <;> rw [e] <;> assumption

/-! ## the naive rule (`new_vectorised_naive_frechet_op`): valid for every coupling -/

theorem zip4_length (f : Rat → Rat → Rat → Rat → Rat) (a b c d : List Rat) (n : Nat)
    (ha : a.length = n) (hb : b.length = n) (hc : c.length = n) (hd : d.length = n) :
    (zip4 f a b c d).length = n := by
  induction a generalizing b c d n with
  | nil => simp at ha; subst ha; simp [zip4]
  | cons x t ih =>
    cases b with
    | nil => simp at hb; subst hb; simp at ha
    | cons x2 t2 =>
    cases c with
    | nil => simp at hc; subst hc; simp at ha
    | cons x3 t3 =>
    cases d with
    | nil => simp at hd; subst hd; simp at ha
    | cons x4 t4 =>
      cases n with
      | zero => simp at ha
      | succ k =>
        simp only [zip4, List.length_cons, Nat.add_right_cancel_iff] at *
        exact ih t2 t3 t4 k ha hb hc hd

theorem min4_le_max4 (a b c d : Rat) : min4 a b c d ≤ max4 a b c d := by
  unfold min4 max4
  exact le_trans (le_trans (min_le_left _ _) (le_trans (min_le_left _ _) (min_le_left _ _)))
    (le_trans (le_max_left _ _) (le_trans (le_max_left _ _) (le_max_left _ _)))

theorem zip4_min_le_max (a b c d : List Rat) :
    List.Forall₂ (· ≤ ·) (zip4 min4 a b c d) (zip4 max4 a b c d) := by
  induction a generalizing b c d with
  | nil => simp [zip4]
  | cons x t ih =>
    cases b with
    | nil => simp [zip4]
    | cons x2 t2 =>
    cases c with
    | nil => simp [zip4]
    | cons x3 t3 =>
    cases d with
    | nil => simp [zip4]
    | cons x4 t4 =>
      simp only [zip4]
      exact List.Forall₂.cons (min4_le_max4 _ _ _ _) (ih t2 t3 t4)


theorem zip4_getElem? (f : Rat → Rat → Rat → Rat → Rat) (a b c d : List Rat) (j : Nat)
    (ha : j < a.length) (hb : j < b.length) (hc : j < c.length) (hd : j < d.length) :
    (zip4 f a b c d)[j]? = some (f a[j] b[j] c[j] d[j]) := by
  induction a generalizing b c d j with
  | nil => simp at ha
  | cons x t ih =>
    cases b with
    | nil => simp at hb
    | cons x2 t2 =>
    cases c with
    | nil => simp at hc
    | cons x3 t3 =>
    cases d with
    | nil => simp at hd
    | cons x4 t4 =>
      cases j with
      | zero => simp [zip4]
      | succ k =>
        simp only [zip4, List.getElem?_cons_succ, List.getElem_cons_succ]
        exact ih t2 t3 t4 k (by simpa using ha) (by simpa using hb) (by simpa using hc) (by simpa using hd)

/-- one row of the corner grid: `x`-step `[a, b]` against every `y`-step -/
def cornerRow (f : Rat → Rat → Rat → Rat → Rat) (op : Rat → Rat → Rat) (a b : Rat) (yl yr : List Rat) : List Rat :=
  zip4 f (yl.map (fun y => op a y)) (yr.map (fun y => op a y)) (yl.map (fun y => op b y)) (yr.map (fun y => op b y))

/-- the `n²` corner minima / maxima -/
def cornerGrid (f : Rat → Rat → Rat → Rat → Rat) (op : Rat → Rat → Rat) (xl xr yl yr : List Rat) : List Rat :=
  zip4 f (cartesian op xl yl) (cartesian op xl yr) (cartesian op xr yl) (cartesian op xr yr)

theorem cornerGrid_cons (f : Rat → Rat → Rat → Rat → Rat) (op : Rat → Rat → Rat) (a b : Rat)
    (ta tb yl yr : List Rat) (hlen : yl.length = yr.length) :
    cornerGrid f op (a :: ta) (b :: tb) yl yr = cornerRow f op a b yl yr ++ cornerGrid f op ta tb yl yr := by
  simp only [cornerGrid, cornerRow, cartesian_cons]
  rw [zip4_append _ _ _ _ _ _ _ _ _ (by simp [hlen]) (by simp) (by simp [hlen])]

theorem cornerGrid_length (f : Rat → Rat → Rat → Rat → Rat) (op : Rat → Rat → Rat) (xl xr yl yr : List Rat) (n : Nat)
    (h1 : xl.length = n) (h2 : xr.length = n) (h3 : yl.length = n) (h4 : yr.length = n) :
    (cornerGrid f op xl xr yl yr).length = n * n := by
  unfold cornerGrid
  apply zip4_length <;> simp [cartesian_length, h1, h2, h3, h4]

theorem cornerRow_getElem? (f : Rat → Rat → Rat → Rat → Rat) (op : Rat → Rat → Rat) (a b : Rat) (yl yr : List Rat)
    (j : Nat) (hl : j < yl.length) (hr : j < yr.length) :
    (cornerRow f op a b yl yr)[j]? = some (f (op a yl[j]) (op a yr[j]) (op b yl[j]) (op b yr[j])) := by
  unfold cornerRow
  rw [zip4_getElem? f _ _ _ _ j (by simpa using hl) (by simpa using hr) (by simpa using hl) (by simpa using hr)]
  simp

/-- any choice of one cell per row of the grid: the cells hit by the predicate are at most the entries
of the whole grid hit by it (no permutation needed) -/
theorem card_le_countP_grid (f : Rat → Rat → Rat → Rat → Rat) (op : Rat → Rat → Rat) (P : Rat → Bool)
    (yl yr : List Rat) (N : Nat) (hyl : yl.length = N) (hyr : yr.length = N) :
    ∀ (k : Nat) (xl xr : List Rat) (hxl : xl.length = k) (hxr : xr.length = k) (s : Fin k → Fin N),
      (univ.filter (fun m : Fin k =>
        P (f (op (xl[m.val]'(by omega)) (yl[(s m).val]'(by omega))) (op (xl[m.val]'(by omega)) (yr[(s m).val]'(by omega)))
             (op (xr[m.val]'(by omega)) (yl[(s m).val]'(by omega))) (op (xr[m.val]'(by omega)) (yr[(s m).val]'(by omega)))) = true)).card
        ≤ (cornerGrid f op xl xr yl yr).countP P := by
  intro k
  induction k with
  | zero => intro xl xr hxl hxr s; simp
  | succ k ih =>
    intro xl xr hxl hxr s
    cases xl with
    | nil => simp at hxl
    | cons a ta =>
    cases xr with
    | nil => simp at hxr
    | cons b tb =>
      rw [cornerGrid_cons f op a b ta tb yl yr (by rw [hyl, hyr]), List.countP_append, Fin.card_filter_univ_succ']
      have h1 := ih ta tb (by simpa using hxl) (by simpa using hxr) (fun m => s m.succ)
      have h0 : (if P (f (op a (yl[(s 0).val]'(by omega))) (op a (yr[(s 0).val]'(by omega)))
          (op b (yl[(s 0).val]'(by omega))) (op b (yr[(s 0).val]'(by omega)))) = true then 1 else 0) ≤
          (cornerRow f op a b yl yr).countP P := by
        split
        · rename_i hp
          have hmem := List.mem_of_getElem? (cornerRow_getElem? f op a b yl yr (s 0).val (by omega) (by omega))
          exact List.countP_pos_iff.mpr ⟨_, hmem, hp⟩
        · exact Nat.zero_le _
      simp only [Fin.val_zero, List.getElem_cons_zero, Fin.val_succ, List.getElem_cons_succ] at h0 h1 ⊢
      exact Nat.add_le_add h0 h1

theorem min4_assoc_arith (a b c d : Rat) : min4 a b c d = Arith.min4 a b c d := by
  unfold min4 Arith.min4; rw [min_assoc (min a b) c d]

theorem max4_assoc_arith (a b c d : Rat) : max4 a b c d = Arith.max4 a b c d := by
  unfold max4 Arith.max4; rw [max_assoc (max a b) c d]

theorem mul_corner_hull (a b c d x y : Rat) (hx1 : a ≤ x) (hx2 : x ≤ b) (hy1 : c ≤ y) (hy2 : y ≤ d) :
    min4 (a*c) (a*d) (b*c) (b*d) ≤ x*y ∧ x*y ≤ max4 (a*c) (a*d) (b*c) (b*d) := by
  rw [min4_assoc_arith, max4_assoc_arith]
  exact Arith.mul_hull a b c d x y hx1 hx2 hy1 hy2

/-- the naive bounds as a box -/
def naiveB (X Y : PB) : PB := ⟨(naiveOp (· * ·) X Y).1, (naiveOp (· * ·) X Y).2⟩

theorem naiveB_eq (n : Nat) (X Y : PB) (hX : X.left.length = n) :
    naiveB X Y = ⟨(sortR (cornerGrid min4 (· * ·) X.left X.right Y.left Y.right)).take n,
      (sortR (cornerGrid max4 (· * ·) X.left X.right Y.left Y.right)).drop (n * n - n)⟩ := by
  subst hX
  rfl

/-- **the naive rule is valid for every selection and every coupling** (indeed for every assignment
`σ` of a `y`-step to each `x`-step): the `i`-th smallest of `n` cell minima taken from `n` distinct rows
is at least the `i`-th smallest of all `n²` cell minima, dually for the maxima -/
theorem naive_allValid (n : Nat) (X Y : PB) (hX : WF n X) (hY : WF n Y) :
    AllValid n (· * ·) X Y (naiveB X Y) hX.toWFS hY.toWFS := by
  intro x y hx hy σ i l r hl hr
  have hi := i.isLt
  rw [naiveB_eq n X Y hX.llen] at hl hr
  simp only at hl hr
  have hxl := hX.llen; have hxr := hX.rlen; have hyl := hY.llen; have hyr := hY.rlen
  have hnn : n ≤ n * n := Nat.le_mul_self n
  set GL := cornerGrid min4 (· * ·) X.left X.right Y.left Y.right with hGL
  set GR := cornerGrid max4 (· * ·) X.left X.right Y.left Y.right with hGR
  have lGL : (sortR GL).length = n * n := by rw [sortR_length]; exact cornerGrid_length _ _ _ _ _ _ n hxl hxr hyl hyr
  have lGR : (sortR GR).length = n * n := by rw [sortR_length]; exact cornerGrid_length _ _ _ _ _ _ n hxl hxr hyl hyr
  have hull : ∀ m : Fin n,
      min4 (X.left[m.val] * Y.left[(σ m).val]) (X.left[m.val] * Y.right[(σ m).val])
        (X.right[m.val] * Y.left[(σ m).val]) (X.right[m.val] * Y.right[(σ m).val]) ≤ x m * y (σ m) ∧
      x m * y (σ m) ≤ max4 (X.left[m.val] * Y.left[(σ m).val]) (X.left[m.val] * Y.right[(σ m).val])
        (X.right[m.val] * Y.left[(σ m).val]) (X.right[m.val] * Y.right[(σ m).val]) := fun m =>
    mul_corner_hull _ _ _ _ _ _ (hx m).1 (hx m).2 (hy (σ m)).1 (hy (σ m)).2
  constructor
  · rw [List.getElem?_take_of_lt hi, List.getElem?_eq_getElem (by omega)] at hl
    have el := Option.some.inj hl
    subst el
    have c1 : (univ.filter (fun m : Fin n => x m * y (σ m) < (sortR GL)[i.val])).card ≤
        (univ.filter (fun m : Fin n => decide (min4 (X.left[m.val] * Y.left[(σ m).val]) (X.left[m.val] * Y.right[(σ m).val])
          (X.right[m.val] * Y.left[(σ m).val]) (X.right[m.val] * Y.right[(σ m).val]) < (sortR GL)[i.val]) = true)).card := by
      apply card_le_card
      intro m hm
      rw [Finset.mem_filter] at hm ⊢
      refine ⟨hm.1, ?_⟩
      simp only [decide_eq_true_eq]
      exact lt_of_le_of_lt (hull m).1 hm.2
    have c2 := card_le_countP_grid min4 (· * ·) (fun z => decide (z < (sortR GL)[i.val])) Y.left Y.right n hyl hyr
      n X.left X.right hxl hxr σ
    have c3 : GL.countP (fun z => decide (z < (sortR GL)[i.val])) ≤ i.val := by
      rw [← (sortR_perm GL).countP_eq]
      have := countP_map_le_of_tail id (fun z => decide (z < (sortR GL)[i.val])) (sortR GL) i.val (by
        intro j hj hij
        simp only [id, decide_eq_false_iff_not, not_lt]
        exact sorted_get_le _ (sortR_sorted GL) i.val j (by omega) hj hij)
      simpa using this
    exact le_trans c1 (le_trans c2 c3)
  · rw [List.getElem?_drop, List.getElem?_eq_getElem (by omega)] at hr
    have er := Option.some.inj hr
    subst er
    have c1 : (univ.filter (fun m : Fin n => (sortR GR)[n * n - n + i.val] < x m * y (σ m))).card ≤
        (univ.filter (fun m : Fin n => decide ((sortR GR)[n * n - n + i.val] <
          max4 (X.left[m.val] * Y.left[(σ m).val]) (X.left[m.val] * Y.right[(σ m).val])
          (X.right[m.val] * Y.left[(σ m).val]) (X.right[m.val] * Y.right[(σ m).val])) = true)).card := by
      apply card_le_card
      intro m hm
      rw [Finset.mem_filter] at hm ⊢
      refine ⟨hm.1, ?_⟩
      simp only [decide_eq_true_eq]
      exact lt_of_lt_of_le hm.2 (hull m).2
    have c2 := card_le_countP_grid max4 (· * ·) (fun z => decide ((sortR GR)[n * n - n + i.val] < z)) Y.left Y.right n hyl hyr
      n X.left X.right hxl hxr σ
    have c3 : GR.countP (fun z => decide ((sortR GR)[n * n - n + i.val] < z)) ≤ n - 1 - i.val := by
      rw [← (sortR_perm GR).countP_eq]
      have := countP_map_le_of_head id (fun z => decide ((sortR GR)[n * n - n + i.val] < z)) (sortR GR)
        (n * n - n + i.val + 1) (by
        intro j hj hij
        simp only [id, decide_eq_false_iff_not, not_lt]
        exact sorted_get_le _ (sortR_sorted GR) j (n * n - n + i.val) hj (by omega) (by omega))
      have e : (sortR GR).length - (n * n - n + i.val + 1) = n - 1 - i.val := by rw [lGR]; omega
      rw [List.map_id] at this
      exact le_trans this (le_of_eq e)
    exact le_trans c1 (le_trans c2 c3)

/-- the constructor accepts the naive bounds unchanged -/
theorem naive_mk_ok (n : Nat) (X Y : PB) (hX : WF n X) (hY : WF n Y) :
    mk n false (naiveOp (· * ·) X Y).1 (naiveOp (· * ·) X Y).2 = .ok (naiveB X Y) ∧ WF n (naiveB X Y) := by
  have hxl := hX.llen; have hxr := hX.rlen; have hyl := hY.llen; have hyr := hY.rlen
  have hnn : n ≤ n * n := Nat.le_mul_self n
  have e := naiveB_eq n X Y hX.llen
  set GL := cornerGrid min4 (· * ·) X.left X.right Y.left Y.right with hGL
  set GR := cornerGrid max4 (· * ·) X.left X.right Y.left Y.right with hGR
  have lGL : (sortR GL).length = n * n := by rw [sortR_length]; exact cornerGrid_length _ _ _ _ _ _ n hxl hxr hyl hyr
  have lGR : (sortR GR).length = n * n := by rw [sortR_length]; exact cornerGrid_length _ _ _ _ _ _ n hxl hxr hyl hyr
  have hle : List.Forall₂ (· ≤ ·) (sortR GL) (sortR GR) := sortR_forall₂ _ _ (zip4_min_le_max _ _ _ _)
  have ll : ((sortR GL).take n).length = n := by simp [lGL]; exact hnn
  have lr : ((sortR GR).drop (n * n - n)).length = n := by simp [lGR]; omega
  have sl : ((sortR GL).take n).Pairwise (· ≤ ·) := (sortR_sorted GL).sublist (List.take_sublist _ _)
  have sr : ((sortR GR).drop (n * n - n)).Pairwise (· ≤ ·) := (sortR_sorted GR).sublist (List.drop_sublist _ _)
  have hh : ∀ i (h : i < ((sortR GL).take n).length), ((sortR GL).take n)[i] ≤
      ((sortR GR).drop (n * n - n))[i]'(by rw [lr]; rw [ll] at h; exact h) := by
    intro i h
    rw [ll] at h
    simp only [List.getElem_take, List.getElem_drop]
    exact le_trans (forall₂_getElem _ _ hle i (by omega))
      (sorted_get_le _ (sortR_sorted GR) i (n * n - n + i) (by omega) (by omega) (by omega))
  have w : WF n ⟨(sortR GL).take n, (sortR GR).drop (n * n - n)⟩ :=
    ⟨⟨ll, lr, sl, sr⟩, fun i h => hh i (by rw [ll]; exact h)⟩
  have e1 : (naiveOp (· * ·) X Y).1 = (sortR GL).take n := congrArg PB.left e
  have e2 : (naiveOp (· * ·) X Y).2 = (sortR GR).drop (n * n - n) := congrArg PB.right e
  rw [e, e1, e2]
  exact ⟨mk_arr_ok n _ _ ll lr sl sr hh, w⟩

/-! ## the straddling product: naive ∩ Balch -/

theorem mul_f_eq_noStraddle (n : Nat) (X Y : PB) (sX : straddlesZero X = false) (sY : straddlesZero Y = false) :
    mul n .f X Y = frechetMulNoStraddle n X Y := by
  simp [mul, frechetMul, sX, sY]

theorem mulNoStraddle_good (n : Nat) (X Y : PB) (hX : WF n X) (hY : WF n Y) (sX : OneSign X) (sY : OneSign Y) :
    ∃ R, frechetMulNoStraddle n X Y = .ok R ∧ WF n R ∧ Good n (· * ·) X Y R hX.toWFS hY.toWFS := by
  rw [← mul_f_eq_noStraddle n X Y (not_straddles_of_oneSign X sX) (not_straddles_of_oneSign Y sY)]
  exact mul_f_onesign_good n X Y hX hY sX sY

theorem lo_le (n : Nat) (Y : PB) (hY : WF n Y) : ∀ v ∈ Y.left, lo Y ≤ v := by
  intro v hv
  unfold lo
  cases h : Y.left with
  | nil => rw [h] at hv; simp at hv
  | cons a t =>
    rw [h] at hv
    simp only [List.headD_cons]
    rcases List.mem_cons.mp hv with e | e
    · rw [e]
    · have := hY.lsorted
      rw [h, List.pairwise_cons] at this
      exact this.1 v e

theorem lo_neg_of_straddles (n : Nat) (Y : PB) (hY : WF n Y) (s : straddlesZero Y = true) : lo Y < 0 := by
  unfold straddlesZero at s
  simp only [Bool.and_eq_true, decide_eq_true_eq] at s
  have ne : Y.left ≠ [] := by
    intro e
    rw [e] at s
    simp [minL] at s
  exact lt_of_le_of_lt (lo_le n Y hY _ (minL_spec 0 Y.left ne).1) s.1

theorem nonneg_shift_lo (n : Nat) (Y : PB) (hY : WF n Y) : NonNeg (mapB (fun v => v - lo Y) Y) := by
  have hl := hY.llen; have hr := hY.rlen
  constructor
  · intro v hv
    simp only [mapB, List.mem_map] at hv
    obtain ⟨a, ha, rfl⟩ := hv
    linarith [lo_le n Y hY a ha]
  · intro v hv
    simp only [mapB, List.mem_map] at hv
    obtain ⟨a, ha, rfl⟩ := hv
    obtain ⟨i, hi', rfl⟩ := List.getElem_of_mem ha
    have h1 := hY.le i (by omega)
    have h2 := lo_le n Y hY _ (List.getElem_mem (l := Y.left) (n := i) (by omega))
    linarith

theorem sub_const_mono (c : Rat) : ∀ x y : Rat, x ≤ y → (fun a b => a - b) x c ≤ (fun a b => a - b) y c :=
  fun x y h => by simp only; linarith

theorem add_const_mono (c : Rat) : ∀ x y : Rat, x ≤ y → (fun a b => a + b) x c ≤ (fun a b => a + b) y c :=
  fun x y h => by simp only; linarith

theorem mul_neg_anti (c : Rat) (hc : c < 0) :
    ∀ x y : Rat, x ≤ y → (fun a b => a * b) y c ≤ (fun a b => a * b) x c :=
  fun x y h => by simp only; exact mul_le_mul_of_nonpos_right h (le_of_lt hc)

/-- **`x.balchprod(y)`** (`y` straddles zero; `x` may or may not): every step of the decomposition
`xy = (x−x₀)(y−y₀) + y₀(x−x₀) + x₀(y−y₀) + x₀y₀` (resp. `xy = x(y−y₀) + x y₀`) returns a well-formed
p-box, and the result is valid for every selection and every coupling — the summands are valid
outcome families of their boxes and validity composes through the Frechet sums (`AllValid.comp`). -/
theorem balchprod_allValid (n : Nat) (X Y : PB) (hX : WF n X) (hY : WF n Y) (sY : straddlesZero Y = true) :
    ∃ B, balchprod n X Y = .ok B ∧ WF n B ∧ AllValid n (· * ·) X Y B hX.toWFS hY.toWFS := by
  have hy0 := lo_neg_of_straddles n Y hY sY
  obtain ⟨e2, w2⟩ := numberOp_shift n (fun a b => a - b) (lo Y) Y hY (sub_const_mono _)
  have p2 := nonneg_shift_lo n Y hY
  by_cases sX : straddlesZero X = true
  · have hx0 := lo_neg_of_straddles n X hX sX
    obtain ⟨e1, w1⟩ := numberOp_shift n (fun a b => a - b) (lo X) X hX (sub_const_mono _)
    have p1 := nonneg_shift_lo n X hX
    obtain ⟨A, eA, wA, gA⟩ := mulNoStraddle_good n _ _ w1 w2 (Or.inl p1) (Or.inl p2)
    obtain ⟨e3, w3⟩ := numberOp_flip n (fun a b => a * b) (lo Y) _ w1 (mul_neg_anti _ hy0)
    obtain ⟨e4, w4⟩ := numberOp_flip n (fun a b => a * b) (lo X) _ w2 (mul_neg_anti _ hx0)
    obtain ⟨e5, w5, g5⟩ := good_frechet (fun a b => a + b) add_mono2 n _ _ w3 w4
    obtain ⟨e6, w6, g6⟩ := good_frechet (fun a b => a + b) add_mono2 n _ _ wA w5
    obtain ⟨e7, w7⟩ := numberOp_shift n (fun a b => a + b) (lo X * lo Y) _ w6 (add_const_mono _)
    refine ⟨_, ?_, w7, ?_⟩
    · simp only [balchprod, sX, sY, Bool.and_self, if_true, e1, e2, eA, e3, e4, e5, e6, e7, bind, Except.bind]
    · intro x y hx hy σ
      have selx := sel_mapB (fun v => v - lo X) (fun a b h => by linarith) n X hX.toWFS w1.toWFS x hx
      have sely := sel_mapB (fun v => v - lo Y) (fun a b h => by linarith) n Y hY.toWFS w2.toWFS y hy
      have hu := gA.valid _ _ selx sely σ
      have hv1 := valid_flipB (fun v => v * lo Y) (fun a b h => mul_le_mul_of_nonpos_right h (le_of_lt hy0))
        n _ w1.toWFS w3.toWFS _ selx
      have hv2 := (valid_flipB (fun v => v * lo X) (fun a b h => mul_le_mul_of_nonpos_right h (le_of_lt hx0))
        n _ w2.toWFS w4.toWFS _ sely).reindex σ
      have hv := g5.allValid.comp _ _ hv1 hv2
      have hs := g6.allValid.comp _ _ hu hv
      have hfin := hs.add_const (lo X * lo Y)
      have e : (fun m => x m * y (σ m)) = (fun m => (x m - lo X) * (y (σ m) - lo Y) +
          ((x m - lo X) * lo Y + (y (σ m) - lo Y) * lo X) + lo X * lo Y) := by
        funext m; ring
      rw [e]
      exact hfin
  · have sX' : straddlesZero X = false := by simpa using sX
    have oX := oneSign_of_not_straddles n X hX sX'
    obtain ⟨A, eA, wA, gA⟩ := mulNoStraddle_good n X _ hX w2 oX (Or.inl p2)
    obtain ⟨e3, w3⟩ := numberOp_flip n (fun a b => a * b) (lo Y) X hX (mul_neg_anti _ hy0)
    obtain ⟨e6, w6, g6⟩ := good_frechet (fun a b => a + b) add_mono2 n _ _ wA w3
    refine ⟨_, ?_, w6, ?_⟩
    · simp only [balchprod, sX', sY, Bool.false_and, Bool.false_eq_true, if_false, if_true, e2, eA, e3, e6, bind,
        Except.bind]
    · intro x y hx hy σ
      have sely := sel_mapB (fun v => v - lo Y) (fun a b h => by linarith) n Y hY.toWFS w2.toWFS y hy
      have hu := gA.valid _ _ hx sely σ
      have hv := valid_flipB (fun v => v * lo Y) (fun a b h => mul_le_mul_of_nonpos_right h (le_of_lt hy0))
        n X hX.toWFS w3.toWFS x hx
      have hs := g6.allValid.comp _ _ hu hv
      have e : (fun m => x m * y (σ m)) = (fun m => x m * (y (σ m) - lo Y) + x m * lo Y) := by
        funext m; ring
      rw [e]
      exact hs

theorem straddleFrechet_eq (n : Nat) (X Y : PB) :
    straddleFrechet n X Y =
      (mk n false (naiveOp (· * ·) X Y).1 (naiveOp (· * ·) X Y).2 >>= fun nv =>
        balchprod n X Y >>= fun bl => imp n nv bl) := rfl

theorem wf_of_envImp (n : Nat) (P : PB) (h : EnvImp.WF n P) : WF n P :=
  ⟨⟨h.llen, h.rlen, h.lsorted, h.rsorted⟩, fun i hi => forall₂_getElem _ _ h.le i (by rw [h.llen]; exact hi)⟩

/-- **`straddle_frechet_pbox(x, y)`** (`y` straddles zero): whatever it returns is the step-wise
intersection of the naive and the Balch bounds, well formed, and valid for every selection and coupling -/
theorem straddleFrechet_allValid (n : Nat) (X Y R : PB) (hX : WF n X) (hY : WF n Y)
    (sY : straddlesZero Y = true) (hR : straddleFrechet n X Y = .ok R) :
    WF n R ∧ AllValid n (· * ·) X Y R hX.toWFS hY.toWFS := by
  obtain ⟨eN, wN⟩ := naive_mk_ok n X Y hX hY
  obtain ⟨B, eB, wB, vB⟩ := balchprod_allValid n X Y hX hY sY
  rw [straddleFrechet_eq] at hR
  simp only [eN, eB, bind, Except.bind] at hR
  by_cases hc : EnvImp.Compat (naiveB X Y) B
  · rw [EnvImp.imp_ok (wf_envImp n _ wN) (wf_envImp n _ wB) hc] at hR
    have e := Except.ok.inj hR
    subst e
    refine ⟨wf_of_envImp n _ (EnvImp.impSpec_wf (wf_envImp n _ wN) (wf_envImp n _ wB) hc), ?_⟩
    intro x y hx hy σ
    exact (naive_allValid n X Y hX hY x y hx hy σ).imp (vB x y hx hy σ)
  · rw [EnvImp.imp_err (wf_envImp n _ wN) (wf_envImp n _ wB) hc] at hR
    cases hR

/-- **`X.mul(Y, 'f')` is valid for ALL well-formed operands** — one-signed operands through the sign
routing, zero-straddling operands through naive ∩ Balch (with the operands exchanged when only the
first one straddles) -/
theorem mul_f_allValid (n : Nat) (X Y R : PB) (hX : WF n X) (hY : WF n Y) (hR : mul n .f X Y = .ok R) :
    WF n R ∧ AllValid n (· * ·) X Y R hX.toWFS hY.toWFS := by
  by_cases sY : straddlesZero Y = true
  · have e : mul n .f X Y = straddleFrechet n X Y := by simp [mul, frechetMul, sY]
    rw [e] at hR
    exact straddleFrechet_allValid n X Y R hX hY sY hR
  · have sY' : straddlesZero Y = false := by simpa using sY
    by_cases sX : straddlesZero X = true
    · have e : mul n .f X Y = straddleFrechet n Y X := by simp [mul, frechetMul, sX, sY']
      rw [e] at hR
      obtain ⟨w, v⟩ := straddleFrechet_allValid n Y X R hY hX sX hR
      exact ⟨w, v.swap.congr (fun a b => mul_comm b a)⟩
    · have sX' : straddlesZero X = false := by simpa using sX
      obtain ⟨R', e, w, g⟩ := mul_f_onesign_good n X Y hX hY (oneSign_of_not_straddles n X hX sX')
        (oneSign_of_not_straddles n Y hY sY')
      rw [e] at hR
      have e' := Except.ok.inj hR
      subst e'
      exact ⟨w, g.allValid⟩

/-- two well-formed boxes that are valid for one common outcome family meet at every step -/
theorem compat_of_common_valid (n : Nat) (P Q : PB) (hP : WF n P) (hQ : WF n Q) (z : Fin n → Rat)
    (vP : Valid n P z) (vQ : Valid n Q z) : EnvImp.Compat P Q := by
  have sP := Valid.sel_of_monotone hP.toWFS (fun m => z (Tuple.sort z m)) (Tuple.monotone_sort z)
    (vP.reindex (Tuple.sort z))
  have sQ := Valid.sel_of_monotone hQ.toWFS (fun m => z (Tuple.sort z m)) (Tuple.monotone_sort z)
    (vQ.reindex (Tuple.sort z))
  unfold EnvImp.Compat EnvImp.PLe
  rw [List.forall₂_iff_get]
  refine ⟨by simp [hP.llen, hQ.llen, hP.rlen, hQ.rlen], fun i h1 h2 => ?_⟩
  simp only [List.length_zipWith, hP.llen, hQ.llen, min_self] at h1
  simp only [List.get_eq_getElem, List.getElem_zipWith]
  have a := sP ⟨i, h1⟩
  have b := sQ ⟨i, h1⟩
  exact le_trans (max_le a.1 b.1) (le_min a.2 b.2)

/-- the straddling product never fails on well-formed operands: the naive and the Balch bounds are
both valid for the outcomes of the lower bounds, hence they meet -/
theorem straddleFrechet_total (n : Nat) (X Y : PB) (hX : WF n X) (hY : WF n Y) (sY : straddlesZero Y = true) :
    ∃ R, straddleFrechet n X Y = .ok R := by
  obtain ⟨eN, wN⟩ := naive_mk_ok n X Y hX hY
  obtain ⟨B, eB, wB, vB⟩ := balchprod_allValid n X Y hX hY sY
  have hc := compat_of_common_valid n _ _ wN wB _
    (naive_allValid n X Y hX hY _ _ (sel_left n X hX) (sel_left n Y hY) (Equiv.refl _))
    (vB _ _ (sel_left n X hX) (sel_left n Y hY) (Equiv.refl _))
  refine ⟨EnvImp.impSpec (naiveB X Y) B, ?_⟩
  rw [straddleFrechet_eq]
  simp only [eN, eB, bind, Except.bind]
  exact EnvImp.imp_ok (wf_envImp n _ wN) (wf_envImp n _ wB) hc

/-- **`X.mul(Y, 'f')` returns a well-formed p-box for ALL well-formed operands** -/
theorem mul_f_total (n : Nat) (X Y : PB) (hX : WF n X) (hY : WF n Y) :
    ∃ R, mul n .f X Y = .ok R ∧ WF n R := by
  have key : ∃ R, mul n .f X Y = .ok R := by
    by_cases sY : straddlesZero Y = true
    · have e : mul n .f X Y = straddleFrechet n X Y := by simp [mul, frechetMul, sY]
      rw [e]; exact straddleFrechet_total n X Y hX hY sY
    · have sY' : straddlesZero Y = false := by simpa using sY
      by_cases sX : straddlesZero X = true
      · have e : mul n .f X Y = straddleFrechet n Y X := by simp [mul, frechetMul, sX, sY']
        rw [e]; exact straddleFrechet_total n Y X hY hX sX
      · have sX' : straddlesZero X = false := by simpa using sX
        obtain ⟨R', e, -, -⟩ := mul_f_onesign_good n X Y hX hY (oneSign_of_not_straddles n X hX sX')
          (oneSign_of_not_straddles n Y hY sY')
        exact ⟨R', e⟩
  obtain ⟨R, e⟩ := key
  exact ⟨R, e, (mul_f_allValid n X Y R hX hY e).1⟩

/-! ## any valid box encloses the perfect / opposite result of ANY operands (four-corner rule) -/

/-- any focal pairing goes through the constructor: sorted lower endpoints, sorted upper endpoints -/
theorem mk_cornerPair_ok (op : Rat → Rat → Rat) (n : Nat) (xl xr yl yr : List Rat)
    (h1 : xl.length = n) (h2 : xr.length = n) (h3 : yl.length = n) (h4 : yr.length = n) :
    mk n false (sortR (cornerPair op xl xr yl yr).1) (sortR (cornerPair op xl xr yl yr).2) =
      .ok ⟨sortR (cornerPair op xl xr yl yr).1, sortR (cornerPair op xl xr yl yr).2⟩ := by
  refine (mk_sorted_ok n _ _ ?_ ?_ ?_).1
  · simp only [cornerPair]; apply zip4_length <;> simp [h1, h2, h3, h4]
  · simp only [cornerPair]; apply zip4_length <;> simp [h1, h2, h3, h4]
  · simp only [cornerPair]; exact zip4_min_le_max _ _ _ _


theorem min4_mem (p q r s : Rat) : min4 p q r s = p ∨ min4 p q r s = q ∨ min4 p q r s = r ∨ min4 p q r s = s := by
  unfold min4
  rcases min_choice (min (min p q) r) s with h1 | h1
  · rcases min_choice (min p q) r with h2 | h2
    · rcases min_choice p q with h3 | h3
      · left; rw [h1, h2, h3]
      · right; left; rw [h1, h2, h3]
    · right; right; left; rw [h1, h2]
  · right; right; right; rw [h1]

theorem max4_mem (p q r s : Rat) : max4 p q r s = p ∨ max4 p q r s = q ∨ max4 p q r s = r ∨ max4 p q r s = s := by
  unfold max4
  rcases max_choice (max (max p q) r) s with h1 | h1
  · rcases max_choice (max p q) r with h2 | h2
    · rcases max_choice p q with h3 | h3
      · left; rw [h1, h2, h3]
      · right; left; rw [h1, h2, h3]
    · right; right; left; rw [h1, h2]
  · right; right; right; rw [h1]

/-- the corner minimum and maximum of a focal pair are values of `op` at points of the two intervals -/
theorem corner_attained (op : Rat → Rat → Rat) (a b c d : Rat) (hab : a ≤ b) (hcd : c ≤ d) :
    (∃ x y, (a ≤ x ∧ x ≤ b) ∧ (c ≤ y ∧ y ≤ d) ∧ op x y = min4 (op a c) (op a d) (op b c) (op b d)) ∧
    (∃ x y, (a ≤ x ∧ x ≤ b) ∧ (c ≤ y ∧ y ≤ d) ∧ op x y = max4 (op a c) (op a d) (op b c) (op b d)) := by
  constructor
  · rcases min4_mem (op a c) (op a d) (op b c) (op b d) with h | h | h | h
    · exact ⟨a, c, ⟨le_refl _, hab⟩, ⟨le_refl _, hcd⟩, h.symm⟩
    · exact ⟨a, d, ⟨le_refl _, hab⟩, ⟨hcd, le_refl _⟩, h.symm⟩
    · exact ⟨b, c, ⟨hab, le_refl _⟩, ⟨le_refl _, hcd⟩, h.symm⟩
    · exact ⟨b, d, ⟨hab, le_refl _⟩, ⟨hcd, le_refl _⟩, h.symm⟩
  · rcases max4_mem (op a c) (op a d) (op b c) (op b d) with h | h | h | h
    · exact ⟨a, c, ⟨le_refl _, hab⟩, ⟨le_refl _, hcd⟩, h.symm⟩
    · exact ⟨a, d, ⟨le_refl _, hab⟩, ⟨hcd, le_refl _⟩, h.symm⟩
    · exact ⟨b, c, ⟨hab, le_refl _⟩, ⟨le_refl _, hcd⟩, h.symm⟩
    · exact ⟨b, d, ⟨hab, le_refl _⟩, ⟨hcd, le_refl _⟩, h.symm⟩

/-- corner minimum of step `m` of `X` against step `τ m` of `Y` -/
def cminF (op : Rat → Rat → Rat) (n : Nat) (X Y : PB) (hX : WFS n X) (hY : WFS n Y) (τ : Equiv.Perm (Fin n))
    (m : Fin n) : Rat :=
  min4 (op (X.left[m.val]'(by have := hX.llen; omega)) (Y.left[(τ m).val]'(by have := hY.llen; omega)))
    (op (X.left[m.val]'(by have := hX.llen; omega)) (Y.right[(τ m).val]'(by have := hY.rlen; omega)))
    (op (X.right[m.val]'(by have := hX.rlen; omega)) (Y.left[(τ m).val]'(by have := hY.llen; omega)))
    (op (X.right[m.val]'(by have := hX.rlen; omega)) (Y.right[(τ m).val]'(by have := hY.rlen; omega)))

def cmaxF (op : Rat → Rat → Rat) (n : Nat) (X Y : PB) (hX : WFS n X) (hY : WFS n Y) (τ : Equiv.Perm (Fin n))
    (m : Fin n) : Rat :=
  max4 (op (X.left[m.val]'(by have := hX.llen; omega)) (Y.left[(τ m).val]'(by have := hY.llen; omega)))
    (op (X.left[m.val]'(by have := hX.llen; omega)) (Y.right[(τ m).val]'(by have := hY.rlen; omega)))
    (op (X.right[m.val]'(by have := hX.rlen; omega)) (Y.left[(τ m).val]'(by have := hY.llen; omega)))
    (op (X.right[m.val]'(by have := hX.rlen; omega)) (Y.right[(τ m).val]'(by have := hY.rlen; omega)))

/-- under ANY pairing `τ` of the steps, the corner minima are outcomes of a selection and coupling, and so
are the corner maxima: a valid box counts them like any other outcome family -/
theorem corner_counts (op : Rat → Rat → Rat) (n : Nat) (X Y F : PB) (hX : WF n X) (hY : WF n Y)
    (v : AllValid n op X Y F hX.toWFS hY.toWFS) (τ : Equiv.Perm (Fin n)) (i : Fin n) (l r : Rat)
    (hl : F.left[i.val]? = some l) (hr : F.right[i.val]? = some r) :
    (univ.filter (fun m : Fin n => cminF op n X Y hX.toWFS hY.toWFS τ m < l)).card ≤ i.val ∧
    (univ.filter (fun m : Fin n => r < cmaxF op n X Y hX.toWFS hY.toWFS τ m)).card ≤ n - 1 - i.val := by
  have hxl := hX.llen; have hxr := hX.rlen; have hyl := hY.llen; have hyr := hY.rlen
  have att := fun m : Fin n => corner_attained op (X.left[m.val]'(by omega)) (X.right[m.val]'(by omega))
    (Y.left[(τ m).val]'(by omega)) (Y.right[(τ m).val]'(by omega)) (hX.le m.val m.isLt) (hY.le (τ m).val (τ m).isLt)
  choose xs ys hxs hys hmin using fun m => (att m).1
  choose xs' ys' hxs' hys' hmax using fun m => (att m).2
  have selY : ∀ (w : Fin n → Rat), (∀ m, Y.left[(τ m).val]'(by omega) ≤ w m ∧ w m ≤ Y.right[(τ m).val]'(by omega)) →
      Sel n Y hY.toWFS (fun j => w (τ.symm j)) := by
    intro w hw j
    have := hw (τ.symm j)
    simp only [Equiv.apply_symm_apply] at this
    exact this
  constructor
  · have key := (v xs (fun j => ys (τ.symm j)) hxs (selY ys hys) τ i l r hl hr).1
    simp only [Equiv.symm_apply_apply, hmin] at key
    exact key
  · have key := (v xs' (fun j => ys' (τ.symm j)) hxs' (selY ys' hys') τ i l r hl hr).2
    simp only [Equiv.symm_apply_apply, hmax] at key
    exact key

theorem le_sorted_of_count {n : Nat} (z : Fin n → Rat) (s : List Rat) (hs : s.Pairwise (· ≤ ·))
    (hp : s.Perm (List.ofFn z)) (k : Nat) (hk : k < s.length) (l : Rat)
    (h : (univ.filter (fun m : Fin n => z m < l)).card ≤ k) : l ≤ s[k] := by
  by_contra hlt
  rw [not_le] at hlt
  have h1 : k < s.countP (fun x => decide (x ≤ s[k])) :=
    (sorted_getElem_le_iff s hs _ k hk).mp (le_refl _)
  rw [hp.countP_eq, countP_ofFn z (fun v => v ≤ s[k])] at h1
  have hsub : (univ.filter (fun m : Fin n => z m ≤ s[k])) ⊆ (univ.filter (fun m : Fin n => z m < l)) := by
    intro m hm
    rw [Finset.mem_filter] at hm ⊢
    exact ⟨hm.1, lt_of_le_of_lt hm.2 hlt⟩
  have := Finset.card_le_card hsub
  omega

theorem sorted_le_of_count {n : Nat} (z : Fin n → Rat) (s : List Rat) (hs : s.Pairwise (· ≤ ·))
    (hp : s.Perm (List.ofFn z)) (k : Nat) (hk : k < s.length) (hkn : k < n) (r : Rat)
    (h : (univ.filter (fun m : Fin n => r < z m)).card ≤ n - 1 - k) : s[k] ≤ r := by
  rw [sorted_getElem_le_iff s hs r k hk, hp.countP_eq, countP_ofFn z (fun v => v ≤ r)]
  have := card_le_add_card_gt z r
  omega

/-- **every box that is valid for `op X Y` under all couplings encloses the result of the four-corner
rule under any pairing `τ` of the steps** (`τ = id`: perfect, `τ = rev`: opposite) — for ALL operands,
no sign or monotonicity hypothesis -/
theorem allValid_encloses_paired (op : Rat → Rat → Rat) (n : Nat) (X Y F : PB) (hX : WF n X) (hY : WF n Y)
    (hlen : F.left.length = n ∧ F.right.length = n)
    (v : AllValid n op X Y F hX.toWFS hY.toWFS) (τ : Equiv.Perm (Fin n)) (D : PB)
    (sl : D.left.Pairwise (· ≤ ·)) (sr : D.right.Pairwise (· ≤ ·))
    (pl : D.left.Perm (List.ofFn (cminF op n X Y hX.toWFS hY.toWFS τ)))
    (pr : D.right.Perm (List.ofFn (cmaxF op n X Y hX.toWFS hY.toWFS τ))) : Encloses F D := by
  intro k l r dl dr hl hr hdl hdr
  have hk : k < n := by
    have := (List.getElem?_eq_some_iff.mp hl).1
    rw [hlen.1] at this; exact this
  obtain ⟨c1, c2⟩ := corner_counts op n X Y F hX hY v τ ⟨k, hk⟩ l r hl hr
  obtain ⟨h1, e1⟩ := List.getElem?_eq_some_iff.mp hdl
  obtain ⟨h2, e2⟩ := List.getElem?_eq_some_iff.mp hdr
  rw [← e1, ← e2]
  exact ⟨le_sorted_of_count _ D.left sl pl k h1 l c1, sorted_le_of_count _ D.right sr pr k h2 hk r c2⟩

theorem cornerPair_eq_ofFn (op : Rat → Rat → Rat) (n : Nat) (X Y : PB) (hX : WFS n X) (hY : WFS n Y)
    (τ : Equiv.Perm (Fin n)) (yl yr : List Rat) (h1 : yl.length = n) (h2 : yr.length = n)
    (e1 : ∀ m : Fin n, yl[m.val]'(by omega) = Y.left[(τ m).val]'(by have := hY.llen; omega))
    (e2 : ∀ m : Fin n, yr[m.val]'(by omega) = Y.right[(τ m).val]'(by have := hY.rlen; omega)) :
    (cornerPair op X.left X.right yl yr).1 = List.ofFn (cminF op n X Y hX hY τ) ∧
    (cornerPair op X.left X.right yl yr).2 = List.ofFn (cmaxF op n X Y hX hY τ) := by
  have hxl := hX.llen; have hxr := hX.rlen
  have len : ∀ f, (zip4 f (List.zipWith op X.left yl) (List.zipWith op X.left yr) (List.zipWith op X.right yl)
      (List.zipWith op X.right yr)).length = n := fun f => by
    apply zip4_length <;> simp [hxl, hxr, h1, h2]
  constructor
  · apply List.ext_getElem
    · simp only [cornerPair, len, List.length_ofFn]
    · intro k hk1 hk2
      simp only [cornerPair, len] at hk1
      have := zip4_getElem? min4 (List.zipWith op X.left yl) (List.zipWith op X.left yr) (List.zipWith op X.right yl)
        (List.zipWith op X.right yr) k (by simp; omega) (by simp; omega) (by simp; omega) (by simp; omega)
      simp only [cornerPair]
      rw [List.getElem?_eq_getElem (by rw [len]; exact hk1)] at this
      rw [Option.some.inj this]
      simp only [List.getElem_zipWith, List.getElem_ofFn, cminF, e1 ⟨k, hk1⟩, e2 ⟨k, hk1⟩]
  · apply List.ext_getElem
    · simp only [cornerPair, len, List.length_ofFn]
    · intro k hk1 hk2
      simp only [cornerPair, len] at hk1
      have := zip4_getElem? max4 (List.zipWith op X.left yl) (List.zipWith op X.left yr) (List.zipWith op X.right yl)
        (List.zipWith op X.right yr) k (by simp; omega) (by simp; omega) (by simp; omega) (by simp; omega)
      simp only [cornerPair]
      rw [List.getElem?_eq_getElem (by rw [len]; exact hk1)] at this
      rw [Option.some.inj this]
      simp only [List.getElem_zipWith, List.getElem_ofFn, cmaxF, e1 ⟨k, hk1⟩, e2 ⟨k, hk1⟩]

/-- the perfect and the opposite result of the public methods, for any operation and ANY well-formed
operands: the constructor returns the sorted corner minima / maxima, and every valid box encloses them -/
theorem perfect_enclosed (op : Rat → Rat → Rat) (n : Nat) (X Y F : PB) (hX : WF n X) (hY : WF n Y)
    (hlen : F.left.length = n ∧ F.right.length = n) (v : AllValid n op X Y F hX.toWFS hY.toWFS) :
    ∃ D, mk n false (perfectOp op X Y).1 (perfectOp op X Y).2 = .ok D ∧ Encloses F D := by
  obtain ⟨e1, e2⟩ := cornerPair_eq_ofFn op n X Y hX.toWFS hY.toWFS (Equiv.refl _) Y.left Y.right hY.llen hY.rlen
    (fun m => rfl) (fun m => rfl)
  refine ⟨_, mk_cornerPair_ok op n _ _ _ _ hX.llen hX.rlen hY.llen hY.rlen, ?_⟩
  refine allValid_encloses_paired op n X Y F hX hY hlen v (Equiv.refl _) _ (sortR_sorted _) (sortR_sorted _) ?_ ?_
  · simp only; rw [← e1]; exact sortR_perm _
  · simp only; rw [← e2]; exact sortR_perm _

theorem opposite_enclosed (op : Rat → Rat → Rat) (n : Nat) (X Y F : PB) (hX : WF n X) (hY : WF n Y)
    (hlen : F.left.length = n ∧ F.right.length = n) (v : AllValid n op X Y F hX.toWFS hY.toWFS) :
    ∃ D, mk n false (oppositeOp op X Y).1 (oppositeOp op X Y).2 = .ok D ∧ Encloses F D := by
  have hyl := hY.llen; have hyr := hY.rlen
  obtain ⟨e1, e2⟩ := cornerPair_eq_ofFn op n X Y hX.toWFS hY.toWFS Fin.revPerm Y.left.reverse Y.right.reverse
    (by simp [hyl]) (by simp [hyr])
    (fun m => by
      simp only [List.getElem_reverse, Fin.revPerm_apply, Fin.val_rev]
      congr 1; have := m.isLt; omega)
    (fun m => by
      simp only [List.getElem_reverse, Fin.revPerm_apply, Fin.val_rev]
      congr 1; have := m.isLt; omega)
  refine ⟨_, mk_cornerPair_ok op n _ _ _ _ hX.llen hX.rlen (by simp [hyl]) (by simp [hyr]), ?_⟩
  refine allValid_encloses_paired op n X Y F hX hY hlen v Fin.revPerm _ (sortR_sorted _) (sortR_sorted _) ?_ ?_
  · simp only; rw [← e1]; exact sortR_perm _
  · simp only; rw [← e2]; exact sortR_perm _

/-! ## … and the independent result of ANY operands: the `n × n` grid is `n` shifted couplings -/

theorem cornerRow_eq_ofFn (f : Rat → Rat → Rat → Rat → Rat) (op : Rat → Rat → Rat) (a b : Rat) (yl yr : List Rat)
    (N : Nat) (hyl : yl.length = N) (hyr : yr.length = N) :
    cornerRow f op a b yl yr = List.ofFn (fun j : Fin N =>
      f (op a (yl[j.val]'(by omega))) (op a (yr[j.val]'(by omega))) (op b (yl[j.val]'(by omega))) (op b (yr[j.val]'(by omega)))) := by
  have len : (cornerRow f op a b yl yr).length = N := by
    unfold cornerRow; apply zip4_length <;> simp [hyl, hyr]
  apply List.ext_getElem
  · rw [len, List.length_ofFn]
  · intro k h1 h2
    rw [len] at h1
    have := cornerRow_getElem? f op a b yl yr k (by omega) (by omega)
    rw [List.getElem?_eq_getElem (by rw [len]; exact h1)] at this
    rw [Option.some.inj this]
    simp

/-- the number of grid entries hit by a predicate, row by row -/
theorem countP_cornerGrid_eq_sum (f : Rat → Rat → Rat → Rat → Rat) (op : Rat → Rat → Rat) (P : Rat → Prop)
    [DecidablePred P] (yl yr : List Rat) (N : Nat) (hyl : yl.length = N) (hyr : yr.length = N) :
    ∀ (k : Nat) (xl xr : List Rat) (hxl : xl.length = k) (hxr : xr.length = k),
      (cornerGrid f op xl xr yl yr).countP (fun v => decide (P v)) =
        ∑ i : Fin k, (univ.filter (fun j : Fin N =>
          P (f (op (xl[i.val]'(by omega)) (yl[j.val]'(by omega))) (op (xl[i.val]'(by omega)) (yr[j.val]'(by omega)))
               (op (xr[i.val]'(by omega)) (yl[j.val]'(by omega))) (op (xr[i.val]'(by omega)) (yr[j.val]'(by omega)))))).card := by
  intro k
  induction k with
  | zero =>
    intro xl xr hxl hxr
    have e1 := List.eq_nil_of_length_eq_zero hxl
    have e2 := List.eq_nil_of_length_eq_zero hxr
    subst e1 e2
    simp [cornerGrid, cartesian, zip4]
  | succ k ih =>
    intro xl xr hxl hxr
    cases xl with
    | nil => simp at hxl
    | cons a ta =>
    cases xr with
    | nil => simp at hxr
    | cons b tb =>
      rw [cornerGrid_cons f op a b ta tb yl yr (by rw [hyl, hyr]), List.countP_append, Fin.sum_univ_succ,
        ih ta tb (by simpa using hxl) (by simpa using hxr), cornerRow_eq_ofFn f op a b yl yr N hyl hyr, countP_ofFn]
      simp only [Fin.val_zero, List.getElem_cons_zero, Fin.val_succ, List.getElem_cons_succ]
      rfl

/-- double counting over the cyclic shifts `i ↦ i + s` -/
theorem sum_card_rows_le_shifts {n : Nat} [NeZero n] (Q : Fin n → Fin n → Prop) [∀ i j, Decidable (Q i j)] (c : Nat)
    (h : ∀ s : Fin n, (univ.filter (fun i : Fin n => Q i (i + s))).card ≤ c) :
    ∑ i : Fin n, (univ.filter (fun j : Fin n => Q i j)).card ≤ n * c := by
  have e : ∀ i : Fin n, (univ.filter (fun j : Fin n => Q i j)).card =
      (univ.filter (fun s : Fin n => Q i (i + s))).card := fun i => by
    have := card_filter_perm (Equiv.addLeft i) (fun j => Q i j)
    simp only [Equiv.coe_addLeft] at this
    exact this.symm
  calc ∑ i : Fin n, (univ.filter (fun j : Fin n => Q i j)).card
      = ∑ i : Fin n, (univ.filter (fun s : Fin n => Q i (i + s))).card := Finset.sum_congr rfl (fun i _ => e i)
    _ = ∑ i : Fin n, ∑ s : Fin n, (if Q i (i + s) then 1 else 0) := by simp_rw [Finset.card_filter]
    _ = ∑ s : Fin n, ∑ i : Fin n, (if Q i (i + s) then 1 else 0) := Finset.sum_comm
    _ = ∑ s : Fin n, (univ.filter (fun i : Fin n => Q i (i + s))).card := by simp_rw [Finset.card_filter]
    _ ≤ ∑ _s : Fin n, c := Finset.sum_le_sum (fun s _ => h s)
    _ = n * c := by simp

/-- **every box that is valid for `op X Y` under all couplings encloses the independent result** (sorted
corner minima / maxima of all `n²` step pairs, condensed by the constructor) — for ALL operands: the grid
is the union of the `n` shifted couplings, each of which contributes at most `k` values below `F.left[k]` -/
theorem independent_enclosed (op : Rat → Rat → Rat) (n : Nat) (X Y F : PB) (hX : WF n X) (hY : WF n Y)
    (hlen : F.left.length = n ∧ F.right.length = n) (v : AllValid n op X Y F hX.toWFS hY.toWFS) :
    ∃ D, mk n false (independentOp op X Y).1 (independentOp op X Y).2 = .ok D ∧ Encloses F D := by
  have hxl := hX.llen; have hxr := hX.rlen; have hyl := hY.llen; have hyr := hY.rlen
  have eI : independentOp op X Y = (sortR (cornerGrid min4 op X.left X.right Y.left Y.right),
      sortR (cornerGrid max4 op X.left X.right Y.left Y.right)) := rfl
  rw [eI]
  set GL := cornerGrid min4 op X.left X.right Y.left Y.right with hGL
  set GR := cornerGrid max4 op X.left X.right Y.left Y.right with hGR
  have lGL : (sortR GL).length = n * n := by rw [sortR_length]; exact cornerGrid_length _ _ _ _ _ _ n hxl hxr hyl hyr
  have lGR : (sortR GR).length = n * n := by rw [sortR_length]; exact cornerGrid_length _ _ _ _ _ _ n hxl hxr hyl hyr
  obtain ⟨D, hD, wD, hidx⟩ := mk_indep_ok n _ _ lGL lGR (sortR_sorted _) (sortR_sorted _)
    (sortR_forall₂ _ _ (zip4_min_le_max _ _ _ _))
  refine ⟨D, hD, ?_⟩
  intro k l r dl dr hl hr hdl hdr
  have hk : k < n := by
    have := (List.getElem?_eq_some_iff.mp hl).1
    rw [hlen.1] at this; exact this
  have : NeZero n := ⟨by omega⟩
  obtain ⟨idx, hlt, b1, b2, eL, eR⟩ := hidx k hk
  rw [eL, List.getElem?_eq_getElem (by rw [lGL]; exact hlt)] at hdl
  rw [eR, List.getElem?_eq_getElem (by rw [lGR]; exact hlt)] at hdr
  rw [← Option.some.inj hdl, ← Option.some.inj hdr]
  have cnt := fun s : Fin n => corner_counts op n X Y F hX hY v (Equiv.addRight s) ⟨k, hk⟩ l r hl hr
  constructor
  · by_contra hcon
    rw [not_le] at hcon
    have c1 : idx < (sortR GL).countP (fun x => decide (x ≤ (sortR GL)[idx])) :=
      (sorted_getElem_le_iff _ (sortR_sorted _) _ idx (by rw [lGL]; exact hlt)).mp (le_refl _)
    rw [(sortR_perm _).countP_eq] at c1
    have c2 : GL.countP (fun x => decide (x ≤ (sortR GL)[idx])) ≤ GL.countP (fun x => decide (x < l)) := by
      apply List.countP_mono_left
      intro x _ hx
      simp only [decide_eq_true_eq] at hx ⊢
      exact lt_of_le_of_lt hx hcon
    rw [countP_cornerGrid_eq_sum min4 op (fun x => x < l) Y.left Y.right n hyl hyr n X.left X.right hxl hxr] at c2
    have c3 := sum_card_rows_le_shifts (fun i j : Fin n =>
      min4 (op (X.left[i.val]'(by omega)) (Y.left[j.val]'(by omega))) (op (X.left[i.val]'(by omega)) (Y.right[j.val]'(by omega)))
        (op (X.right[i.val]'(by omega)) (Y.left[j.val]'(by omega))) (op (X.right[i.val]'(by omega)) (Y.right[j.val]'(by omega))) < l) k
      (fun s => by
        have := (cnt s).1
        simp only [cminF, Equiv.coe_addRight] at this
        exact this)
    omega
  · rw [sorted_getElem_le_iff _ (sortR_sorted _) r idx (by rw [lGR]; exact hlt), (sortR_perm _).countP_eq]
    have tot := List.length_eq_countP_add_countP (fun x => decide (x ≤ r)) (l := GR)
    rw [cornerGrid_length _ _ _ _ _ _ n hxl hxr hyl hyr] at tot
    have c2 : GR.countP (fun a => decide ¬(decide (a ≤ r)) = true) = GR.countP (fun z => decide (r < z)) := by
      congr 1
      funext a
      simp
    rw [c2, countP_cornerGrid_eq_sum max4 op (fun x => r < x) Y.left Y.right n hyl hyr n X.left X.right hxl hxr] at tot
    have c3 := sum_card_rows_le_shifts (fun i j : Fin n =>
      r < max4 (op (X.left[i.val]'(by omega)) (Y.left[j.val]'(by omega))) (op (X.left[i.val]'(by omega)) (Y.right[j.val]'(by omega)))
        (op (X.right[i.val]'(by omega)) (Y.left[j.val]'(by omega))) (op (X.right[i.val]'(by omega)) (Y.right[j.val]'(by omega)))) (n - 1 - k)
      (fun s => by
        have := (cnt s).2
        simp only [cmaxF, Equiv.coe_addRight] at this
        exact this)
    have e : n * n = n * (n - 1 - k) + n * k + n := by
      have : n = (n - 1 - k) + k + 1 := by omega
      calc n * n = n * ((n - 1 - k) + k + 1) := by rw [← this]
        _ = n * (n - 1 - k) + n * k + n := by ring
    omega

end Pun.PBox
