import Pun.Model.KS
import Mathlib.Tactic.Linarith
import Mathlib.Tactic.Ring
import Mathlib.Algebra.Order.Field.Rat
import Mathlib.Algebra.Order.Field.Basic
import Mathlib.Data.List.Sort
import Mathlib.Data.List.Forall2
import Mathlib.Tactic.Positivity
/-!
# C17 helper lemmas about the model `Pun.KS`

* `clip` (= `logical_bounding`) is monotone, has values in `[0,1]`, is the identity on `[0,1]`;
* the grid of `get_ecdf`: `pFrom`/`ecdfP` sorted, in `[0,1]`, last entry `n/n`; `ecdfQ` sorted;
* the step function drawn by the ecdf bundle is `t ↦ #{i | s_i ≤ t}/n` (`eval_ecdf`), by the
  bundles of the band `clip (F_n(t) ± D)` from the first sample point on (`eval_upper`, `eval_lower`);
* counting: moving sample points to the right lowers `#{≤ t}` (`countLE_anti`);
* `'next'` lookup (`interp1d(kind="next")`): antitone in the cdf (`nextLookup_dom`,
  `nextLookup_dom_append`), what `extend_ecdf` does to the three bundles, and `pbox_core`;
* P8 of DESIGN-proofs.md verbatim (`nextQ`, `massLE`, `nextQ_is_geninv`) and its bridge to the model
  (`nextLookup_pFrom_eq_nextQ`, `massLE_unifW`).
-/
set_option linter.unusedSimpArgs false
set_option linter.unusedVariables false
namespace Pun.KS

theorem clip_nonneg (a : ℚ) : 0 ≤ clip a := by
  simp only [clip]; split_ifs <;> linarith
theorem clip_le_one (a : ℚ) : clip a ≤ 1 := by
  simp only [clip]; split_ifs <;> linarith
theorem clip_mono {a b : ℚ} (h : a ≤ b) : clip a ≤ clip b := by
  simp only [clip]; split_ifs <;> linarith
theorem clip_of_mem {a : ℚ} (h0 : 0 ≤ a) (h1 : a ≤ 1) : clip a = a := by
  simp only [clip]; split_ifs <;> linarith
theorem le_clip_add {p D : ℚ} (hp0 : 0 ≤ p) (hp1 : p ≤ 1) (hD : 0 ≤ D) : p ≤ clip (p + D) := by
  simp only [clip]; split_ifs <;> linarith
theorem clip_sub_le {p D : ℚ} (hp0 : 0 ≤ p) (hp1 : p ≤ 1) (hD : 0 ≤ D) : clip (p - D) ≤ p := by
  simp only [clip]; split_ifs <;> linarith
theorem lt_clip_add {p D : ℚ} (hp0 : 0 ≤ p) (hp1 : p < 1) (hD : 0 < D) : p < clip (p + D) := by
  simp only [clip]; split_ifs <;> linarith
theorem clip_sub_lt {p D : ℚ} (hp0 : 0 < p) (hp1 : p ≤ 1) (hD : 0 < D) : clip (p - D) < p := by
  simp only [clip]; split_ifs <;> linarith

/-! pFrom -/
theorem pFrom_length (n k m : ℕ) : (pFrom n k m).length = m := by
  induction m generalizing k with
  | zero => rfl
  | succ m ih => simp [pFrom, ih]

theorem pFrom_mem {n k m : ℕ} {x : ℚ} (h : x ∈ pFrom n k m) : ∃ j, k ≤ j ∧ j < k + m ∧ x = (j : ℚ) / n := by
  induction m generalizing k with
  | zero => simp [pFrom] at h
  | succ m ih =>
    simp only [pFrom, List.mem_cons] at h
    rcases h with rfl | h
    · exact ⟨k, le_refl _, by omega, rfl⟩
    · obtain ⟨j, h1, h2, h3⟩ := ih h
      exact ⟨j, by omega, by omega, h3⟩

theorem pFrom_sorted (n k m : ℕ) : (pFrom n k m).Pairwise (· ≤ ·) := by
  induction m generalizing k with
  | zero => simp [pFrom]
  | succ m ih =>
    simp only [pFrom, List.pairwise_cons]
    refine ⟨?_, ih _⟩
    intro x hx
    obtain ⟨j, h1, _, rfl⟩ := pFrom_mem hx
    have : (k : ℚ) ≤ j := by exact_mod_cast (by omega : k ≤ j)
    exact div_le_div_of_nonneg_right this (Nat.cast_nonneg n)

theorem ecdfP_mem_unit {n : ℕ} (hn : 0 < n) {x : ℚ} (h : x ∈ ecdfP n) : 0 ≤ x ∧ x ≤ 1 := by
  obtain ⟨j, _, h2, rfl⟩ := pFrom_mem h
  have hn' : (0 : ℚ) < n := by exact_mod_cast hn
  constructor
  · exact div_nonneg (Nat.cast_nonneg _) (Nat.cast_nonneg _)
  · rw [div_le_one hn']; exact_mod_cast (by omega : j ≤ n)

theorem sortR_perm (l : List ℚ) : (sortR l).Perm l := List.mergeSort_perm _ _
theorem sortR_length (l : List ℚ) : (sortR l).length = l.length := (sortR_perm l).length_eq
theorem sortR_sorted (l : List ℚ) : (sortR l).Pairwise (· ≤ ·) := by
  have h := List.pairwise_mergeSort (le := fun a b : ℚ => decide (a ≤ b))
    (fun a b c hab hbc => by simp at *; exact le_trans hab hbc)
    (fun a b => by simp; exact le_total a b) l
  exact h.imp (by intro a b hab; simpa using hab)
theorem sortR_ne_nil {l : List ℚ} (h : l ≠ []) : sortR l ≠ [] := by
  intro h'
  have := sortR_length l
  rw [h'] at this
  exact h (List.length_eq_zero_iff.mp this.symm)

theorem countLE_perm {l l' : List ℚ} (h : l.Perm l') (t : ℚ) : countLE l t = countLE l' t :=
  h.countP_eq _

theorem dupHead_sorted {l : List ℚ} (h : l.Pairwise (· ≤ ·)) : (dupHead l).Pairwise (· ≤ ·) := by
  cases l with
  | nil => simp [dupHead]
  | cons x xs =>
    simp only [dupHead, List.pairwise_cons] at *
    refine ⟨?_, h⟩
    intro y hy
    rcases List.mem_cons.mp hy with rfl | hy
    · exact le_refl _
    · exact h.1 y hy

theorem ecdfQ_sorted (s : List ℚ) : (ecdfQ s).Pairwise (· ≤ ·) := dupHead_sorted (sortR_sorted s)

theorem ecdfQ_length {s : List ℚ} (h : s ≠ []) : (ecdfQ s).length = s.length + 1 := by
  unfold ecdfQ
  have hl := sortR_length s
  cases hs : sortR s with
  | nil => exact absurd hs (sortR_ne_nil h)
  | cons x xs => rw [hs] at hl; simp [dupHead] at *; omega

/-- on a sorted grid with probabilities `(k+1)/n, (k+2)/n, …` and `k/n` to its left, the step function is `(k + #{≤ t})/n` -/
theorem evalStep_pFrom (n : ℕ) (l : List ℚ) (hl : l.Pairwise (· ≤ ·)) (k : ℕ) (t : ℚ) :
    evalStep l (pFrom n (k + 1) l.length) ((k : ℚ) / n) t = ((k + countLE l t : ℕ) : ℚ) / n := by
  induction l generalizing k with
  | nil => simp [evalStep, countLE, pFrom]
  | cons x xs ih =>
    rw [List.pairwise_cons] at hl
    simp only [List.length_cons, pFrom, evalStep]
    by_cases hx : x ≤ t
    · simp only [hx, if_true]
      have := ih hl.2 (k + 1)
      rw [this]
      simp only [countLE, List.countP_cons, hx, decide_true, if_true]
      congr 2; omega
    · simp only [hx, if_false]
      have h0 : countLE (x :: xs) t = 0 := by
        simp only [countLE, List.countP_eq_zero, decide_eq_true_eq]
        intro y hy
        rcases List.mem_cons.mp hy with rfl | hy
        · exact hx
        · exact fun h => hx (le_trans (hl.1 y hy) h)
      rw [h0]; simp

/-- the bundle of `get_ecdf` draws `t ↦ #{i | s_i ≤ t} / n` -/
theorem eval_ecdf (s : List ℚ) (t : ℚ) : (ecdf s).eval t = (countLE s t : ℚ) / s.length := by
  unfold Bundle.eval ecdf ecdfQ ecdfP
  have hl := sortR_length s
  have hsrt := sortR_sorted s
  rw [countLE_perm (sortR_perm s).symm t]
  cases hs : sortR s with
  | nil =>
    rw [hs] at hl
    simp [dupHead, evalStep, countLE]
  | cons x xs =>
    rw [hs] at hl hsrt
    simp only [dupHead]
    have hlen : s.length = (x :: xs).length := hl.symm
    rw [hlen]
    have step : pFrom (xs.length + 1) 0 (xs.length + 1 + 1)
        = ((0 : ℕ) : ℚ) / ((xs.length + 1 : ℕ) : ℚ) :: pFrom (xs.length + 1) (0 + 1) (xs.length + 1) := rfl
    simp only [List.length_cons]
    rw [step]
    have key := evalStep_pFrom (xs.length + 1) (x :: xs) hsrt 0 t
    simp only [List.length_cons] at key
    rw [evalStep]
    by_cases hx : x ≤ t
    · simp only [hx, if_true]
      rw [key]; simp
    · simp only [hx, if_false]
      have h0 : countLE (x :: xs) t = 0 := by
        simp only [countLE, List.countP_eq_zero, decide_eq_true_eq]
        intro y hy
        rcases List.mem_cons.mp hy with rfl | hy
        · exact hx
        · exact fun h => hx (le_trans ((List.pairwise_cons.mp hsrt).1 y hy) h)
      rw [h0]; simp


theorem evalStep_map (f : ℚ → ℚ) (q ps : List ℚ) (acc t : ℚ) :
    evalStep q (ps.map f) (f acc) t = f (evalStep q ps acc t) := by
  induction q generalizing ps acc with
  | nil => cases ps <;> simp [evalStep]
  | cons x xs ih =>
    cases ps with
    | nil => simp [evalStep]
    | cons p ps =>
      simp only [List.map_cons, evalStep]
      split_ifs
      · exact ih ps p
      · rfl

theorem upper_eq_map (D : ℚ) (p : List ℚ) : upper D p = p.map (fun x => clip (x + D)) := by
  simp [upper, shiftUp, List.map_map, Function.comp_def]
theorem lower_eq_map (D : ℚ) (p : List ℚ) : lower D p = p.map (fun x => clip (x - D)) := by
  simp [lower, shiftDn, List.map_map, Function.comp_def]

theorem countLE_pos_iff_head {x : ℚ} {xs : List ℚ} (h : (x :: xs).Pairwise (· ≤ ·)) (t : ℚ) :
    0 < countLE (x :: xs) t ↔ x ≤ t := by
  simp only [countLE, List.countP_pos_iff, decide_eq_true_eq]
  constructor
  · rintro ⟨y, hy, hyt⟩
    rcases List.mem_cons.mp hy with rfl | hy
    · exact hyt
    · exact le_trans ((List.pairwise_cons.mp h).1 y hy) hyt
  · intro hx; exact ⟨x, by simp, hx⟩

/-- a bundle whose probabilities are `f ∘ (ecdf probabilities)` draws `f ∘ F_n` from the first sample point on, `0` before -/
theorem eval_mapped (f : ℚ → ℚ) (s : List ℚ) (t : ℚ) :
    (Bundle.mk (ecdfQ s) ((ecdfP s.length).map f)).eval t
      = if 0 < countLE s t then f ((countLE s t : ℚ) / s.length) else 0 := by
  rw [← eval_ecdf]
  unfold Bundle.eval ecdf ecdfQ ecdfP
  have hsrt := sortR_sorted s
  rw [countLE_perm (sortR_perm s).symm t]
  cases hs : sortR s with
  | nil => simp [dupHead, evalStep, countLE]
  | cons x xs =>
    rw [hs] at hsrt
    have hiff := countLE_pos_iff_head hsrt t
    simp only [dupHead]
    have step : pFrom s.length 0 (s.length + 1)
        = ((0 : ℕ) : ℚ) / ((s.length : ℕ) : ℚ) :: pFrom s.length (0 + 1) s.length := rfl
    rw [step, List.map_cons, evalStep, evalStep]
    by_cases hx : x ≤ t
    · simp only [hx, if_true, hiff.mpr hx]
      exact evalStep_map f _ _ _ _
    · have : ¬ 0 < countLE (x :: xs) t := fun h => hx (hiff.mp h)
      simp only [hx, if_false, this]

theorem eval_upper (s : List ℚ) (D t : ℚ) :
    (band s D).1.eval t = if 0 < countLE s t then clip ((countLE s t : ℚ) / s.length + D) else 0 := by
  have := eval_mapped (fun x => clip (x + D)) s t
  simpa [band, upper_eq_map] using this

theorem eval_lower (s : List ℚ) (D t : ℚ) :
    (band s D).2.eval t = if 0 < countLE s t then clip ((countLE s t : ℚ) / s.length - D) else 0 := by
  have := eval_mapped (fun x => clip (x - D)) s t
  simpa [band, lower_eq_map] using this

theorem eval_iupper (lo hi : List ℚ) (D t : ℚ) :
    (iband lo hi D).1.eval t = if 0 < countLE lo t then clip ((countLE lo t : ℚ) / lo.length + D) else 0 := by
  have := eval_mapped (fun x => clip (x + D)) lo t
  simpa [iband, upper_eq_map] using this

theorem eval_ilower (lo hi : List ℚ) (D t : ℚ) :
    (iband lo hi D).2.eval t = if 0 < countLE hi t then clip ((countLE hi t : ℚ) / hi.length - D) else 0 := by
  have := eval_mapped (fun x => clip (x - D)) hi t
  simpa [iband, lower_eq_map] using this

/-- counting: moving every point to the right can only lower the number of points `≤ t` -/
theorem countLE_anti {a b : List ℚ} (h : List.Forall₂ (· ≤ ·) a b) (t : ℚ) : countLE b t ≤ countLE a t := by
  induction h with
  | nil => simp [countLE]
  | cons hab _ ih =>
    simp only [countLE, List.countP_cons] at *
    split_ifs with h1 h2 h2
    · omega
    · exact absurd (le_trans hab (by simpa using h1)) (by simpa using h2)
    · omega
    · omega

theorem nextLookup_mem {p q : List ℚ} {x b : ℚ} (h : nextLookup p q x = some b) : b ∈ q := by
  induction p generalizing q with
  | nil => simp [nextLookup] at h
  | cons p0 ps ih =>
    cases q with
    | nil => simp [nextLookup] at h
    | cons q0 qs =>
      simp only [nextLookup] at h
      split_ifs at h with hx
      · simp at h; simp [h]
      · exact List.mem_cons_of_mem _ (ih h)

/-- antitone generalised inverse: a pointwise larger cdf on the same sorted grid has the smaller 'next' quantile -/
theorem nextLookup_dom {p1 p2 : List ℚ} (h : List.Forall₂ (fun a b => b ≤ a) p1 p2) {q : List ℚ}
    (hq : q.Pairwise (· ≤ ·)) {x b : ℚ} (hb : nextLookup p2 q x = some b) :
    ∃ a, nextLookup p1 q x = some a ∧ a ≤ b := by
  induction h generalizing q with
  | nil => simp [nextLookup] at hb
  | @cons a0 b0 l1 l2 hab _ ih =>
    cases q with
    | nil => simp [nextLookup] at hb
    | cons q0 qs =>
      rw [List.pairwise_cons] at hq
      simp only [nextLookup] at hb ⊢
      by_cases hx2 : x ≤ b0
      · simp only [hx2, if_true, Option.some.injEq] at hb
        have hx1 : x ≤ a0 := le_trans hx2 hab
        exact ⟨q0, by simp [hx1], hb ▸ le_refl _⟩
      · simp only [hx2, if_false] at hb
        by_cases hx1 : x ≤ a0
        · exact ⟨q0, by simp [hx1], hq.1 b (nextLookup_mem hb)⟩
        · simp only [hx1, if_false]
          exact ih hq.2 hb

theorem nextLookup_append_total (p q : List ℚ) (hlen : q.length = p.length) (ql x : ℚ) (hx : x ≤ 1) :
    ∃ b, nextLookup (p ++ [1]) (q ++ [ql]) x = some b := by
  induction p generalizing q with
  | nil =>
    cases q with
    | nil => exact ⟨ql, by simp [nextLookup, hx]⟩
    | cons _ _ => simp at hlen
  | cons p0 ps ih =>
    cases q with
    | nil => simp at hlen
    | cons q0 qs =>
      simp only [List.cons_append, nextLookup]
      by_cases h : x ≤ p0
      · exact ⟨q0, by simp [h]⟩
      · simp only [h, if_false]
        exact ih qs (by simpa using hlen)

/-- dual form, with the closing point `(1, q_last)` that `extend_ecdf` appends -/
theorem nextLookup_dom_append {pL pE : List ℚ} (h : List.Forall₂ (fun a b => a ≤ b) pL pE) {q : List ℚ}
    (hq : q.Pairwise (· ≤ ·)) (hlen : q.length = pL.length) {ql : ℚ} (hql : ∀ y ∈ q, y ≤ ql)
    {x e : ℚ} (hx : x ≤ 1) (he : nextLookup pE q x = some e) :
    ∃ b, nextLookup (pL ++ [1]) (q ++ [ql]) x = some b ∧ e ≤ b := by
  induction h generalizing q with
  | nil => simp [nextLookup] at he
  | @cons l0 e0 lt et hle _ ih =>
    cases q with
    | nil => simp [nextLookup] at he
    | cons q0 qs =>
      rw [List.pairwise_cons] at hq
      have hlen' : qs.length = lt.length := by simpa using hlen
      simp only [nextLookup] at he
      simp only [List.cons_append, nextLookup]
      by_cases hxe : x ≤ e0
      · simp only [hxe, if_true, Option.some.injEq] at he
        subst he
        by_cases hxl : x ≤ l0
        · exact ⟨q0, by simp [hxl], le_refl _⟩
        · simp only [hxl, if_false]
          obtain ⟨b, hb⟩ := nextLookup_append_total lt qs hlen' ql x hx
          refine ⟨b, hb, ?_⟩
          have hmem := nextLookup_mem hb
          rcases List.mem_append.mp hmem with hm | hm
          · exact hq.1 b hm
          · simp at hm; rw [hm]; exact hql q0 (by simp)
      · simp only [hxe, if_false] at he
        have hxl : ¬ x ≤ l0 := fun h' => hxe (le_trans h' hle)
        simp only [hxl, if_false]
        exact ih hq.2 hlen' (fun y hy => hql y (List.mem_cons_of_mem _ hy)) he


theorem pFrom_getLast? (n k m : ℕ) : (pFrom n k (m + 1)).getLast? = some (((k + m : ℕ) : ℚ) / n) := by
  induction m generalizing k with
  | zero => simp [pFrom]
  | succ m ih =>
    have : pFrom n k (m + 1 + 1) = ((k : ℚ) / n) :: pFrom n (k + 1) (m + 1) := rfl
    rw [this]
    have h2 : pFrom n (k + 1) (m + 1) = (((k + 1 : ℕ) : ℚ) / n) :: pFrom n (k + 1 + 1) m := rfl
    rw [h2, List.getLast?_cons_cons, ← h2, ih]
    congr 3; omega

theorem extend_prepend {q0 p0 : ℚ} {Qt Pt : List ℚ} (hp0 : p0 ≠ 0) (hlast : (p0 :: Pt).getLast? = some 1) :
    extend ⟨q0 :: Qt, p0 :: Pt⟩ = ⟨q0 :: q0 :: Qt, 0 :: p0 :: Pt⟩ := by
  obtain ⟨ql, hql⟩ : ∃ ql, (q0 :: q0 :: Qt).getLast? = some ql :=
    Option.isSome_iff_exists.mp (by simp)
  simp only [extend, hp0, ne_eq, not_false_eq_true, if_true, List.getLast?_cons_cons, hlast, hql,
    not_true_eq_false, if_false]

theorem extend_append {q0 ql pl : ℚ} {Qt Pt : List ℚ} (hql : (q0 :: Qt).getLast? = some ql)
    (hpl : ((0 : ℚ) :: Pt).getLast? = some pl) (h1 : pl ≠ 1) :
    extend ⟨q0 :: Qt, 0 :: Pt⟩ = ⟨(q0 :: Qt) ++ [ql], (0 :: Pt) ++ [1]⟩ := by
  simp only [extend, ne_eq, not_true_eq_false, if_false, hql, hpl, h1, not_false_eq_true, if_true]

theorem extend_id {q0 ql : ℚ} {Qt Pt : List ℚ} (hql : (q0 :: Qt).getLast? = some ql)
    (hpl : ((0 : ℚ) :: Pt).getLast? = some 1) :
    extend ⟨q0 :: Qt, 0 :: Pt⟩ = ⟨q0 :: Qt, 0 :: Pt⟩ := by
  simp only [extend, ne_eq, not_true_eq_false, if_false, hql, hpl]


theorem nextLookup_total {p q : List ℚ} (hlen : q.length = p.length) {pl x : ℚ}
    (hl : p.getLast? = some pl) (hx : x ≤ pl) : ∃ e, nextLookup p q x = some e := by
  induction p generalizing q with
  | nil => simp at hl
  | cons p0 ps ih =>
    cases q with
    | nil => simp at hlen
    | cons q0 qs =>
      simp only [nextLookup]
      by_cases h : x ≤ p0
      · exact ⟨q0, by simp [h]⟩
      · simp only [h, if_false]
        cases ps with
        | nil => simp at hl; subst hl; exact absurd hx h
        | cons p1 pt =>
          rw [List.getLast?_cons_cons] at hl
          exact ih (by simpa using hlen) hl

theorem le_getLast_of_sorted {l : List ℚ} (h : l.Pairwise (· ≤ ·)) {ql : ℚ} (hl : l.getLast? = some ql) :
    ∀ y ∈ l, y ≤ ql := by
  induction l with
  | nil => simp
  | cons a t ih =>
    rw [List.pairwise_cons] at h
    cases t with
    | nil => simp at hl; subst hl; simp
    | cons b t' =>
      rw [List.getLast?_cons_cons] at hl
      intro y hy
      rcases List.mem_cons.mp hy with rfl | hy
      · have hmem : ql ∈ b :: t' := List.mem_of_getLast? hl
        exact h.1 ql hmem
      · exact ih h.2 hl y hy

theorem interpNext_eq {Q P : List ℚ} {p0 pl qh ql x : ℚ} (hh : P.head? = some p0) (hl : P.getLast? = some pl)
    (hqh : Q.head? = some qh) (hql : Q.getLast? = some ql)
    (h0 : p0 ≤ x) (h1 : x ≤ pl) : interpNext ⟨Q, P⟩ x = nextLookup P Q x := by
  simp only [interpNext, hh, hl, hqh, hql, not_lt.mpr h0, not_lt.mpr h1, if_false]

/-- core of C17's p-box statement on an abstract grid -/
theorem pbox_core {Q pE Qt Pt : List ℚ} {q0 : ℚ} (hQ : Q = q0 :: Qt) (hP : pE = 0 :: Pt)
    (hlen : Q.length = pE.length) (hQs : Q.Pairwise (· ≤ ·)) (hlast : pE.getLast? = some 1)
    (hunit : ∀ p ∈ pE, 0 ≤ p ∧ p ≤ 1) {D : ℚ} (hD : 0 < D) {x : ℚ} (hx0 : 0 < x) (hx1 : x ≤ 1) :
    ∃ a e b, interpNext (extend ⟨Q, upper D pE⟩) x = some a ∧ interpNext (extend ⟨Q, pE⟩) x = some e ∧
      interpNext (extend ⟨Q, lower D pE⟩) x = some b ∧ a ≤ e ∧ e ≤ b := by
  obtain ⟨ql, hql⟩ : ∃ ql, Q.getLast? = some ql := Option.isSome_iff_exists.mp (by simp [hQ])
  -- the empirical bundle
  have hE : extend ⟨Q, pE⟩ = ⟨Q, pE⟩ := by
    subst hQ hP; exact extend_id hql hlast
  have hEi : interpNext ⟨Q, pE⟩ x = nextLookup pE Q x :=
    interpNext_eq (p0 := 0) (qh := q0) (by simp [hP]) hlast (by simp [hQ]) hql (le_of_lt hx0) hx1
  obtain ⟨e, he⟩ := nextLookup_total hlen hlast hx1
  -- the upper bound
  have hUmap := upper_eq_map D pE
  have hU0 : clip (0 + D) ≠ 0 := by
    have := lt_clip_add (p := 0) (le_refl _) (by norm_num) hD
    exact ne_of_gt this
  have hUl : (upper D pE).getLast? = some 1 := by
    rw [hUmap, List.getLast?_map, hlast]
    simp only [Option.map_some, Option.some.injEq]
    have h1 := le_clip_add (p := 1) (by norm_num) (le_refl _) (le_of_lt hD)
    exact le_antisymm (clip_le_one _) h1
  have hUx : extend ⟨Q, upper D pE⟩ = ⟨q0 :: Q, 0 :: upper D pE⟩ := by
    have hUc : upper D pE = clip (0 + D) :: Pt.map (fun y => clip (y + D)) := by rw [hUmap, hP]; rfl
    rw [hUc] at hUl ⊢
    subst hQ
    exact extend_prepend hU0 hUl
  have hUi : interpNext ⟨q0 :: Q, 0 :: upper D pE⟩ x = nextLookup (upper D pE) Q x := by
    have hl' : ((0 : ℚ) :: upper D pE).getLast? = some 1 := by
      have hUc : upper D pE = clip (0 + D) :: Pt.map (fun y => clip (y + D)) := by rw [hUmap, hP]; rfl
      rw [hUc] at hUl ⊢
      rw [List.getLast?_cons_cons]; exact hUl
    have hql' : (q0 :: Q).getLast? = some ql := by
      rw [hQ, List.getLast?_cons_cons, ← hQ]; exact hql
    rw [interpNext_eq (p0 := 0) (qh := q0) (by simp) hl' (by simp) hql' (le_of_lt hx0) hx1]
    simp only [nextLookup, not_le.mpr hx0, if_false]
  have hUdom : List.Forall₂ (fun a b => b ≤ a) (upper D pE) pE := by
    rw [hUmap, List.forall₂_map_left_iff, List.forall₂_same]
    intro p hp
    exact le_clip_add (hunit p hp).1 (hunit p hp).2 (le_of_lt hD)
  obtain ⟨a, ha, hae⟩ := nextLookup_dom hUdom hQs he
  -- the lower bound
  have hLmap := lower_eq_map D pE
  have hL0 : clip (0 - D) = 0 := by
    have h := clip_sub_le (p := 0) (le_refl _) (by norm_num) (le_of_lt hD)
    exact le_antisymm h (clip_nonneg _)
  have hLc : lower D pE = 0 :: Pt.map (fun y => clip (y - D)) := by
    rw [hLmap, hP, List.map_cons, hL0]
  have hLl : (lower D pE).getLast? = some (clip (1 - D)) := by
    rw [hLmap, List.getLast?_map, hlast]; rfl
  have hLne : clip (1 - D) ≠ 1 := ne_of_lt (clip_sub_lt (by norm_num) (le_refl _) hD)
  have hLx : extend ⟨Q, lower D pE⟩ = ⟨Q ++ [ql], lower D pE ++ [1]⟩ := by
    rw [hLc] at hLl ⊢
    subst hQ
    exact extend_append hql hLl hLne
  have hLi : interpNext ⟨Q ++ [ql], lower D pE ++ [1]⟩ x = nextLookup (lower D pE ++ [1]) (Q ++ [ql]) x := by
    apply interpNext_eq (p0 := 0) (pl := 1) (qh := q0) (ql := ql) _ _ _ _ (le_of_lt hx0) hx1
    · rw [hLc]; simp
    · simp
    · simp [hQ]
    · simp
  have hLdom : List.Forall₂ (fun a b => a ≤ b) (lower D pE) pE := by
    rw [hLmap, List.forall₂_map_left_iff, List.forall₂_same]
    intro p hp
    exact clip_sub_le (hunit p hp).1 (hunit p hp).2 (le_of_lt hD)
  have hLlen : Q.length = (lower D pE).length := by rw [hLmap, List.length_map]; exact hlen
  obtain ⟨b, hb, heb⟩ := nextLookup_dom_append hLdom hQs hLlen (le_getLast_of_sorted hQs hql) hx1 he
  exact ⟨a, e, b, by rw [hUx, hUi]; exact ha, by rw [hE, hEi]; exact he, by rw [hLx, hLi]; exact hb, hae, heb⟩

/-! ### P8 (DESIGN-proofs.md): 'next'-kind lookup is the generalised inverse of cumulated mass -/

/-- 'next'-kind lookup on a weighted, value-sorted sample: first value whose cumulated mass reaches `x` -/
def nextQ : List (ℚ × ℚ) → ℚ → ℚ → Option ℚ
  | [], _, _ => none
  | (s, w) :: rest, acc, x => if x ≤ acc + w then some s else nextQ rest (acc + w) x

/-- total mass of focal endpoints `≤ t` -/
def massLE : List (ℚ × ℚ) → ℚ → ℚ
  | [], _ => 0
  | (s, w) :: rest, t => (if s ≤ t then w else 0) + massLE rest t

theorem massLE_nonneg (l : List (ℚ × ℚ)) (hw : ∀ p ∈ l, 0 ≤ p.2) (t : ℚ) : 0 ≤ massLE l t := by
  induction l with
  | nil => simp [massLE]
  | cons p rest ih =>
    obtain ⟨s, w⟩ := p
    have h1 : 0 ≤ w := hw (s, w) (by simp)
    have h2 := ih (fun q hq => hw q (List.mem_cons_of_mem _ hq))
    simp only [massLE]; split <;> linarith

theorem massLE_zero_of_lt (l : List (ℚ × ℚ)) (t : ℚ) (h : ∀ p ∈ l, t < p.1) : massLE l t = 0 := by
  induction l with
  | nil => simp [massLE]
  | cons p rest ih =>
    obtain ⟨s, w⟩ := p
    have h1 : t < s := h (s, w) (by simp)
    have h2 := ih (fun q hq => h q (List.mem_cons_of_mem _ hq))
    simp [massLE, not_le.mpr h1, h2]

theorem nextQ_mem (l : List (ℚ × ℚ)) (acc x s : ℚ) (h : nextQ l acc x = some s) : ∃ p ∈ l, p.1 = s := by
  induction l generalizing acc with
  | nil => simp [nextQ] at h
  | cons p rest ih =>
    obtain ⟨s0, w0⟩ := p
    simp only [nextQ] at h
    by_cases hx : x ≤ acc + w0
    · simp only [hx, if_true, Option.some.injEq] at h
      exact ⟨(s0, w0), by simp, h⟩
    · simp only [hx, if_false] at h
      obtain ⟨p, hp, hps⟩ := ih _ h
      exact ⟨p, List.mem_cons_of_mem _ hp, hps⟩

/-- the value returned is the generalised inverse of the cumulated-mass function at level `x` -/
theorem nextQ_is_geninv (l : List (ℚ × ℚ)) (hs : l.Pairwise (fun a b => a.1 ≤ b.1))
    (hw : ∀ p ∈ l, 0 ≤ p.2) (acc x s : ℚ) (hacc : acc < x) (h : nextQ l acc x = some s) :
    x ≤ acc + massLE l s ∧ ∀ t, t < s → acc + massLE l t < x := by
  induction l generalizing acc with
  | nil => simp [nextQ] at h
  | cons p rest ih =>
    obtain ⟨s0, w0⟩ := p
    rw [List.pairwise_cons] at hs
    obtain ⟨hhead, hrest⟩ := hs
    have hw0 : 0 ≤ w0 := hw (s0, w0) (by simp)
    have hwr : ∀ q ∈ rest, 0 ≤ q.2 := fun q hq => hw q (List.mem_cons_of_mem _ hq)
    simp only [nextQ] at h
    by_cases hx : x ≤ acc + w0
    · simp only [hx, if_true, Option.some.injEq] at h
      subst h
      constructor
      · simp only [massLE, le_refl, if_true]
        have := massLE_nonneg rest hwr s0
        linarith
      · intro t ht
        have hz : massLE ((s0, w0) :: rest) t = 0 := by
          apply massLE_zero_of_lt
          intro q hq
          rcases List.mem_cons.mp hq with rfl | hq
          · exact ht
          · exact lt_of_lt_of_le ht (hhead q hq)
        rw [hz]; linarith
    · simp only [hx, if_false] at h
      have hacc' : acc + w0 < x := not_le.mp hx
      obtain ⟨h1, h2⟩ := ih hrest hwr (acc + w0) hacc' h
      obtain ⟨q, hq, hqs⟩ := nextQ_mem rest _ _ _ h
      have hs0 : s0 ≤ s := hqs ▸ hhead q hq
      constructor
      · simp only [massLE, hs0, if_true]; linarith
      · intro t ht
        have := h2 t ht
        simp only [massLE]
        split <;> linarith

/-! bridge to the model: the ecdf bundle is the weighted sample with weights `1/n` -/

def unifW (n : ℕ) (l : List ℚ) : List (ℚ × ℚ) := l.map (fun q => (q, 1 / (n : ℚ)))

theorem nextLookup_pFrom_eq_nextQ (n : ℕ) (l : List ℚ) (k : ℕ) (x : ℚ) :
    nextLookup (pFrom n (k + 1) l.length) l x = nextQ (unifW n l) ((k : ℚ) / n) x := by
  induction l generalizing k with
  | nil => simp [nextLookup, nextQ, unifW, pFrom]
  | cons q qs ih =>
    have e : ((k : ℚ) / n) + 1 / n = ((k + 1 : ℕ) : ℚ) / n := by push_cast; ring
    simp only [List.length_cons, pFrom, nextLookup, unifW, List.map_cons, nextQ]
    rw [e]
    split_ifs
    · rfl
    · have := ih (k + 1)
      simp only [unifW] at this
      rw [this]

theorem massLE_unifW (n : ℕ) (l : List ℚ) (t : ℚ) : massLE (unifW n l) t = (countLE l t : ℚ) / n := by
  induction l with
  | nil => simp [massLE, unifW, countLE]
  | cons q qs ih =>
    simp only [unifW, List.map_cons, massLE, countLE, List.countP_cons] at *
    rw [ih]
    split_ifs with h1 h2 h2
    · push_cast; ring
    · exact absurd (by simpa using h1) h2
    · exact absurd (by simpa using h2) h1
    · simp

end Pun.KS
