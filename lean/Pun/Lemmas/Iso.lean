import Pun.Model.Iso
import Pun.Lemmas.Hull
import Pun.Lemmas.PBoxFrechet
import Mathlib.Data.List.Sort
import Mathlib.Data.List.Perm.Basic
import Mathlib.Tactic.Linarith
import Mathlib.Algebra.Order.Field.Rat
import Mathlib.Data.List.Forall2
import Mathlib.Tactic.Ring
/-!
# Lemmas for C12 (inclusion isotonicity)

* `sorted_get_le_iff`, `sort_mono` — rank characterisation of a sorted list; pointwise-smaller list has
  pointwise-smaller sort (the kernel-checked proofs of DESIGN.md Appendix A.2); `sortR_mono` for `Pun.sortR`;
* `LE` (pointwise `≤` of lists) and its closure under `map`, `zipWith`, `reverse`, `take`, `drop`, `append`,
  `maxL`, `minL`;
* `PSub` (`P ⊑ Q`), `PairSub`; the combination rules of `operation.py` are isotone:
  `iso_frechetOp` (any operation monotone in both arguments, no well-formedness needed),
  `iso_perfectOp`, `iso_oppositeOp`, `iso_independentOp`, `iso_naiveOp` (any operation with the corner-hull
  property `Hull`: `+`, `−`, `×`);
* `WF`; the constructor on well-formed bounds: `mk_ok`, `mk_ok_switched`, `mk_ok_condense`; `condense_mono`;
  `frechet_valid` (Frechet left bound ≤ right bound); `add_iso` (public `add` under every dependency);
* `levelValue_mono`, `stackBound_mono` — the generalised inverse of the cumulated mass (`stacking`) is monotone
  in the values (`geninv_antitone` of the design).
-/
set_option linter.unusedSimpArgs false
set_option linter.unusedVariables false
namespace Pun.Iso
open Pun List Pun.PBox

/-- in a sorted list, the prefix of elements `≤ c` is exactly `takeWhile`; rank characterisation -/
theorem sorted_get_le_iff (s : List ℚ) (hs : s.Pairwise (· ≤ ·)) (c : ℚ) (i : ℕ) (hi : i < s.length) :
    s[i] ≤ c ↔ i < s.countP (fun x => decide (x ≤ c)) := by
  induction s generalizing i with
  | nil => simp at hi
  | cons a t ih =>
    rw [List.pairwise_cons] at hs
    obtain ⟨hat, ht⟩ := hs
    cases i with
    | zero =>
      simp only [List.getElem_cons_zero, List.countP_cons]
      by_cases h : a ≤ c
      · simp [h]
      · simp only [h, decide_false, Bool.false_eq_true, if_false, add_zero, false_iff, not_lt, Nat.le_zero]
        rw [List.countP_eq_zero]
        intro x hx
        have := hat x hx
        simp only [decide_eq_true_eq, not_le]
        exact lt_of_lt_of_le (not_le.mp h) this
    | succ j =>
      simp only [List.getElem_cons_succ, List.countP_cons]
      have hj : j < t.length := by simpa using hi
      rw [ih ht j hj]
      by_cases h : a ≤ c
      · simp [h]
      · simp only [h, decide_false, Bool.false_eq_true, if_false, add_zero]
        have hz : t.countP (fun x => decide (x ≤ c)) = 0 := by
          rw [List.countP_eq_zero]
          intro x hx
          have := hat x hx
          simp only [decide_eq_true_eq, not_le]
          exact lt_of_lt_of_le (not_le.mp h) this
        simp [hz]

/-- order statistics are monotone: pointwise-smaller list has pointwise-smaller sort -/
theorem sort_mono (l l' s s' : List ℚ) (hlen : l.length = l'.length)
    (hle : ∀ i (h : i < l.length), l[i] ≤ l'[i]'(hlen ▸ h))
    (hp : s ~ l) (hp' : s' ~ l') (hs : s.Pairwise (· ≤ ·)) (hs' : s'.Pairwise (· ≤ ·))
    (i : ℕ) (hi : i < s.length) (hi' : i < s'.length) : s[i] ≤ s'[i] := by
  rw [sorted_get_le_iff s hs _ i hi]
  have h1 : i < s'.countP (fun x => decide (x ≤ s'[i])) := by
    rw [← sorted_get_le_iff s' hs' _ i hi']
  have h2 : s'.countP (fun x => decide (x ≤ s'[i])) = l'.countP (fun x => decide (x ≤ s'[i])) := hp'.countP_eq _
  have h3 : s.countP (fun x => decide (x ≤ s'[i])) = l.countP (fun x => decide (x ≤ s'[i])) := hp.countP_eq _
  have h4 : l'.countP (fun x => decide (x ≤ s'[i])) ≤ l.countP (fun x => decide (x ≤ s'[i])) := by
    clear h1 h2 h3 hp hp' hs hs' hi
    induction l generalizing l' with
    | nil =>
      cases l' with
      | nil => simp
      | cons _ _ => simp at hlen
    | cons a t ih =>
      cases l' with
      | nil => simp at hlen
      | cons a' t' =>
        simp only [List.countP_cons]
        have hh := hle 0 (by simp)
        simp only [List.getElem_cons_zero] at hh
        have ht := ih t' (by simpa using hlen) (fun j hj => by
          have := hle (j+1) (by simpa using hj)
          simpa using this)
        by_cases h : a' ≤ s'[i]
        · have : a ≤ s'[i] := le_trans hh h
          simp [h, this]; exact ht
        · simp only [h, decide_false, Bool.false_eq_true, if_false, add_zero]
          exact le_trans ht (Nat.le_add_right _ _)
  omega

/-! ## pointwise order of lists -/

/-- pointwise `≤` of two lists (same length) -/
abbrev LE (l l' : List Rat) : Prop := List.Forall₂ (· ≤ ·) l l'

theorem LE.refl (l : List Rat) : LE l l := List.forall₂_refl l

theorem LE.trans {a b c : List Rat} (h1 : LE a b) (h2 : LE b c) : LE a c := by
  induction h1 generalizing c with
  | nil => cases h2; exact List.Forall₂.nil
  | cons hab _ ih =>
    cases h2 with
    | cons hbc htl => exact List.Forall₂.cons (le_trans hab hbc) (ih htl)

theorem LE_iff_get {l l' : List Rat} :
    LE l l' ↔ l.length = l'.length ∧ ∀ i (h : i < l.length) (h' : i < l'.length), l[i] ≤ l'[i] := by
  unfold LE
  rw [List.forall₂_iff_get]
  simp

theorem leL_iff (l l' : List Rat) : leL l l' = true ↔ LE l l' := by
  induction l generalizing l' with
  | nil => cases l' <;> simp [leL, LE]
  | cons a s ih =>
    cases l' with
    | nil => simp [leL, LE]
    | cons b t => simp [leL, LE, ih t]

theorem sortR_perm (l : List Rat) : (sortR l).Perm l := List.mergeSort_perm l _

theorem sortR_sorted (l : List Rat) : (sortR l).Pairwise (· ≤ ·) := by
  have := List.pairwise_mergeSort (le := fun a b : Rat => decide (a ≤ b))
    (fun a b c h1 h2 => by simp at h1 h2 ⊢; exact le_trans h1 h2)
    (fun a b => by simp; exact le_total a b) l
  exact this.imp (fun h => by simpa using h)

theorem sortR_length (l : List Rat) : (sortR l).length = l.length := (sortR_perm l).length_eq

/-- **sorting is monotone**: pointwise-smaller list has pointwise-smaller sort -/
theorem sortR_mono {l l' : List Rat} (h : LE l l') : LE (sortR l) (sortR l') := by
  rw [LE_iff_get] at h ⊢
  obtain ⟨hlen, hle⟩ := h
  refine ⟨by rw [sortR_length, sortR_length, hlen], fun i hi hi' => ?_⟩
  exact sort_mono l l' (sortR l) (sortR l') hlen (fun j hj => hle j hj (hlen ▸ hj))
    (sortR_perm l) (sortR_perm l') (sortR_sorted l) (sortR_sorted l') i hi hi'

theorem LE.map {f : Rat → Rat} (hf : ∀ x y, x ≤ y → f x ≤ f y) {l l' : List Rat} (h : LE l l') :
    LE (l.map f) (l'.map f) := by
  induction h with
  | nil => exact List.Forall₂.nil
  | cons hab _ ih => exact List.Forall₂.cons (hf _ _ hab) ih

theorem LE.map_anti {f : Rat → Rat} (hf : ∀ x y, x ≤ y → f y ≤ f x) {l l' : List Rat} (h : LE l l') :
    LE (l'.map f) (l.map f) := by
  induction h with
  | nil => exact List.Forall₂.nil
  | cons hab _ ih => exact List.Forall₂.cons (hf _ _ hab) ih

theorem LE.reverse {l l' : List Rat} (h : LE l l') : LE l.reverse l'.reverse :=
  List.forall₂_reverse_iff.mpr h

theorem LE.take {l l' : List Rat} (h : LE l l') (n : Nat) : LE (l.take n) (l'.take n) := List.forall₂_take n h
theorem LE.drop {l l' : List Rat} (h : LE l l') (n : Nat) : LE (l.drop n) (l'.drop n) := List.forall₂_drop n h

theorem LE.zipWith {f : Rat → Rat → Rat} (hf : ∀ p p' q q', p ≤ p' → q ≤ q' → f p q ≤ f p' q')
    {a a' b b' : List Rat} (ha : LE a a') (hb : LE b b') : LE (List.zipWith f a b) (List.zipWith f a' b') := by
  induction ha generalizing b b' with
  | nil => simp
  | cons hxy _ ih =>
    cases hb with
    | nil => simp
    | cons hcd htl => simp only [List.zipWith_cons_cons]; exact List.Forall₂.cons (hf _ _ _ _ hxy hcd) (ih htl)

theorem foldl_max_mono {l l' : List Rat} (h : LE l l') (x x' : Rat) (hx : x ≤ x') :
    l.foldl max x ≤ l'.foldl max x' := by
  induction h generalizing x x' with
  | nil => simpa using hx
  | cons hab _ ih => simp only [List.foldl_cons]; exact ih _ _ (max_le_max hx hab)

theorem foldl_min_mono {l l' : List Rat} (h : LE l l') (x x' : Rat) (hx : x ≤ x') :
    l.foldl min x ≤ l'.foldl min x' := by
  induction h generalizing x x' with
  | nil => simpa using hx
  | cons hab _ ih => simp only [List.foldl_cons]; exact ih _ _ (min_le_min hx hab)

theorem maxL_mono {l l' : List Rat} (h : LE l l') (d : Rat) : maxL d l ≤ maxL d l' := by
  cases h with
  | nil => simp [maxL]
  | cons hab htl => exact foldl_max_mono htl _ _ hab

theorem minL_mono {l l' : List Rat} (h : LE l l') (d : Rat) : minL d l ≤ minL d l' := by
  cases h with
  | nil => simp [minL]
  | cons hab htl => exact foldl_min_mono htl _ _ hab

/-! ## containment of p-boxes; the combination rules of `operation.py` are isotone -/

/-- `P ⊑ Q`: `Q` contains `P` (lower left bound, higher right bound, step by step) -/
def PSub (P Q : PB) : Prop := LE Q.left P.left ∧ LE P.right Q.right

theorem pbSub_iff (P Q : PB) : pbSub P Q = true ↔ PSub P Q := by
  simp [pbSub, PSub, leL_iff]

theorem PSub.refl (P : PB) : PSub P P := ⟨LE.refl _, LE.refl _⟩
theorem PSub.trans {P Q R : PB} (h1 : PSub P Q) (h2 : PSub Q R) : PSub P R :=
  ⟨LE.trans h2.1 h1.1, LE.trans h1.2 h2.2⟩

/-- the same for the raw `(left, right)` pairs returned by the combination rules -/
def PairSub (p q : List Rat × List Rat) : Prop := LE q.1 p.1 ∧ LE p.2 q.2

theorem LE_map_of_le {α : Type} (l : List α) (f g : α → Rat) (h : ∀ x ∈ l, f x ≤ g x) :
    LE (l.map f) (l.map g) := by
  induction l with
  | nil => exact List.Forall₂.nil
  | cons a t ih =>
    exact List.Forall₂.cons (h a (by simp)) (ih (fun x hx => h x (by simp [hx])))

/-- an operation monotone in both arguments -/
def Mono2 (op : Rat → Rat → Rat) : Prop := ∀ p p' q q', p ≤ p' → q ≤ q' → op p q ≤ op p' q'

theorem frechetLeftRaw_mono (op : Rat → Rat → Rat) (hop : Mono2 op) {a a' b b' : List Rat}
    (ha : LE a a') (hb : LE b b') : LE (frechetLeftRaw op a b) (frechetLeftRaw op a' b') := by
  unfold frechetLeftRaw
  rw [← ha.length_eq]
  apply LE_map_of_le
  intro i _
  exact maxL_mono (LE.zipWith hop (ha.take _) (hb.take _).reverse) 0

theorem frechetRightRaw_mono (op : Rat → Rat → Rat) (hop : Mono2 op) {a a' b b' : List Rat}
    (ha : LE a a') (hb : LE b b') : LE (frechetRightRaw op a b) (frechetRightRaw op a' b') := by
  unfold frechetRightRaw
  rw [← ha.length_eq]
  apply LE_map_of_le
  intro i _
  exact minL_mono (LE.zipWith hop (ha.drop _) (hb.drop _).reverse) 0

/-- **Frechet rule is isotone** for every operation monotone in both arguments (no well-formedness needed) -/
theorem iso_frechetOp (op : Rat → Rat → Rat) (hop : Mono2 op) {X X' Y Y' : PB}
    (hX : PSub X X') (hY : PSub Y Y') : PairSub (frechetOp op X Y) (frechetOp op X' Y') :=
  ⟨sortR_mono (frechetLeftRaw_mono op hop hX.1 hY.1), sortR_mono (frechetRightRaw_mono op hop hX.2 hY.2)⟩

/-! ### four-corner rules -/

/-- the corner hull of `op` on two intervals encloses every pointwise value: the property of an interval operation -/
def Hull (op : Rat → Rat → Rat) : Prop :=
  ∀ a b c d x y, a ≤ x → x ≤ b → c ≤ y → y ≤ d →
    min4 (op a c) (op a d) (op b c) (op b d) ≤ op x y ∧ op x y ≤ max4 (op a c) (op a d) (op b c) (op b d)

theorem min4_eq_arith (a b c d : Rat) : min4 a b c d = Arith.min4 a b c d := by
  unfold min4 Arith.min4; rw [min_assoc (min a b) c d]

theorem max4_eq_arith (a b c d : Rat) : max4 a b c d = Arith.max4 a b c d := by
  unfold max4 Arith.max4; rw [max_assoc (max a b) c d]

theorem hull_mul : Hull (· * ·) := by
  intro a b c d x y h1 h2 h3 h4
  rw [min4_eq_arith, max4_eq_arith]
  exact Arith.mul_hull a b c d x y h1 h2 h3 h4

theorem hull_add : Hull (· + ·) := by
  intro a b c d x y h1 h2 h3 h4
  simp only [min4, max4, min_le_iff, le_max_iff]
  exact ⟨Or.inl (Or.inl (Or.inl (by linarith))), Or.inr (by linarith)⟩

theorem hull_sub : Hull (· - ·) := by
  intro a b c d x y h1 h2 h3 h4
  simp only [min4, max4, min_le_iff, le_max_iff]
  exact ⟨Or.inl (Or.inl (Or.inr (by linarith))), Or.inl (Or.inr (by linarith))⟩

/-- one focal pair: the corner hull of nested operands is nested -/
theorem corner_iso (op : Rat → Rat → Rat) (hop : Hull op) (a b c d a' b' c' d' : Rat)
    (hab : a ≤ b) (hcd : c ≤ d) (ha : a' ≤ a) (hb : b ≤ b') (hc : c' ≤ c) (hd : d ≤ d') :
    min4 (op a' c') (op a' d') (op b' c') (op b' d') ≤ min4 (op a c) (op a d) (op b c) (op b d) ∧
    max4 (op a c) (op a d) (op b c) (op b d) ≤ max4 (op a' c') (op a' d') (op b' c') (op b' d') := by
  have k : ∀ x y, a ≤ x → x ≤ b → c ≤ y → y ≤ d → _ := fun x y h1 h2 h3 h4 =>
    hop a' b' c' d' x y (le_trans ha h1) (le_trans h2 hb) (le_trans hc h3) (le_trans h4 hd)
  have ll := k a c (le_refl _) hab (le_refl _) hcd
  have lh := k a d (le_refl _) hab hcd (le_refl _)
  have hl := k b c hab (le_refl _) (le_refl _) hcd
  have hh := k b d hab (le_refl _) hcd (le_refl _)
  constructor
  · simp only [min4, le_min_iff] at *; exact ⟨⟨⟨ll.1, lh.1⟩, hl.1⟩, hh.1⟩
  · simp only [max4, max_le_iff] at *; exact ⟨⟨⟨ll.2, lh.2⟩, hl.2⟩, hh.2⟩

theorem corner_valid (op : Rat → Rat → Rat) (a b c d : Rat) :
    min4 (op a c) (op a d) (op b c) (op b d) ≤ max4 (op a c) (op a d) (op b c) (op b d) := by
  simp only [min4, max4]
  exact le_trans (min_le_left _ _) (le_trans (min_le_left _ _) (le_trans (min_le_left _ _)
    (le_trans (le_max_left _ _) (le_trans (le_max_left _ _) (le_max_left _ _)))))

/-- `cornerPair` on nested operands (the inner ones valid: `left ≤ right` step by step) -/
theorem cornerPair_iso (op : Rat → Rat → Rat) (hop : Hull op)
    {xl xr yl yr xl' xr' yl' yr' : List Rat}
    (hx : LE xl xr) (hy : LE yl yr) (hxl : LE xl' xl) (hxr : LE xr xr') (hyl : LE yl' yl) (hyr : LE yr yr') :
    PairSub (cornerPair op xl xr yl yr) (cornerPair op xl' xr' yl' yr') := by
  induction hx generalizing yl yr xl' xr' yl' yr' with
  | nil =>
    cases hxl; cases hxr
    simp [cornerPair, zip4, PairSub]
  | @cons a b ta tb hab _ ih =>
    cases hxl with
    | @cons a' _ ta' _ haa hta =>
    cases hxr with
    | @cons _ b' _ tb' hbb htb =>
    cases hy with
    | nil =>
      cases hyl; cases hyr
      simp [cornerPair, zip4, PairSub]
    | @cons c d tc td hcd htcd =>
      cases hyl with
      | @cons c' _ tc' _ hcc htc =>
      cases hyr with
      | @cons _ d' _ td' hdd htd =>
      have := ih htcd hta htb htc htd
      obtain ⟨k1, k2⟩ := corner_iso op hop a b c d a' b' c' d' hab hcd haa hbb hcc hdd
      simp only [cornerPair, PairSub, List.zipWith_cons_cons, zip4] at this ⊢
      exact ⟨List.Forall₂.cons k1 this.1, List.Forall₂.cons k2 this.2⟩

/-- the two lists of `cornerPair` are ordered step by step -/
theorem cornerPair_valid (op : Rat → Rat → Rat) (xl xr yl yr : List Rat) :
    LE (cornerPair op xl xr yl yr).1 (cornerPair op xl xr yl yr).2 := by
  induction xl generalizing xr yl yr with
  | nil => simp [cornerPair, zip4]
  | cons a ta ih =>
    cases xr with
    | nil => simp [cornerPair, zip4]
    | cons b tb =>
      cases yl with
      | nil => simp [cornerPair, zip4]
      | cons c tc =>
        cases yr with
        | nil => simp [cornerPair, zip4]
        | cons d td =>
          have := ih tb tc td
          simp only [cornerPair, List.zipWith_cons_cons, zip4] at this ⊢
          exact List.Forall₂.cons (corner_valid op a b c d) this

/-- **perfect rule is isotone** -/
theorem iso_perfectOp (op : Rat → Rat → Rat) (hop : Hull op) {X X' Y Y' : PB}
    (vX : LE X.left X.right) (vY : LE Y.left Y.right) (hX : PSub X X') (hY : PSub Y Y') :
    PairSub (perfectOp op X Y) (perfectOp op X' Y') := by
  have := cornerPair_iso op hop vX vY hX.1 hX.2 hY.1 hY.2
  exact ⟨sortR_mono this.1, sortR_mono this.2⟩

/-- **opposite rule is isotone** -/
theorem iso_oppositeOp (op : Rat → Rat → Rat) (hop : Hull op) {X X' Y Y' : PB}
    (vX : LE X.left X.right) (vY : LE Y.left Y.right) (hX : PSub X X') (hY : PSub Y Y') :
    PairSub (oppositeOp op X Y) (oppositeOp op X' Y') := by
  have := cornerPair_iso op hop vX vY.reverse hX.1 hX.2 hY.1.reverse hY.2.reverse
  exact ⟨sortR_mono this.1, sortR_mono this.2⟩

theorem zip4_append (f : Rat → Rat → Rat → Rat → Rat) (a1 a2 a3 a4 b1 b2 b3 b4 : List Rat)
    (h2 : a1.length = a2.length) (h3 : a1.length = a3.length) (h4 : a1.length = a4.length) :
    zip4 f (a1 ++ b1) (a2 ++ b2) (a3 ++ b3) (a4 ++ b4) = zip4 f a1 a2 a3 a4 ++ zip4 f b1 b2 b3 b4 := by
  induction a1 generalizing a2 a3 a4 with
  | nil =>
    have e2 : a2 = [] := List.length_eq_zero_iff.mp h2.symm
    have e3 : a3 = [] := List.length_eq_zero_iff.mp h3.symm
    have e4 : a4 = [] := List.length_eq_zero_iff.mp h4.symm
    subst e2; subst e3; subst e4
    simp [zip4]
  | cons x t ih =>
    cases a2 with
    | nil => simp at h2
    | cons x2 t2 =>
    cases a3 with
    | nil => simp at h3
    | cons x3 t3 =>
    cases a4 with
    | nil => simp at h4
    | cons x4 t4 =>
      simp only [List.cons_append, zip4]
      rw [ih t2 t3 t4 (by simpa using h2) (by simpa using h3) (by simpa using h4)]

/-- one row of the `n × n` grid: the focal interval `[a,b]` of `x` against every focal interval of `y` -/
theorem row_iso (op : Rat → Rat → Rat) (hop : Hull op) (a b a' b' : Rat) (hab : a ≤ b) (ha : a' ≤ a) (hb : b ≤ b')
    {yl yr yl' yr' : List Rat} (hy : LE yl yr) (hyl : LE yl' yl) (hyr : LE yr yr') :
    LE (zip4 min4 (yl'.map (op a')) (yr'.map (op a')) (yl'.map (op b')) (yr'.map (op b')))
       (zip4 min4 (yl.map (op a)) (yr.map (op a)) (yl.map (op b)) (yr.map (op b))) ∧
    LE (zip4 max4 (yl.map (op a)) (yr.map (op a)) (yl.map (op b)) (yr.map (op b)))
       (zip4 max4 (yl'.map (op a')) (yr'.map (op a')) (yl'.map (op b')) (yr'.map (op b'))) := by
  induction hy generalizing yl' yr' with
  | nil =>
    cases hyl; cases hyr
    simp [zip4]
  | @cons c d tc td hcd _ ih =>
    cases hyl with
    | @cons c' _ tc' _ hcc htc =>
    cases hyr with
    | @cons _ d' _ td' hdd htd =>
      obtain ⟨i1, i2⟩ := ih htc htd
      obtain ⟨k1, k2⟩ := corner_iso op hop a b c d a' b' c' d' hab hcd ha hb hcc hdd
      simp only [List.map_cons, zip4]
      exact ⟨List.Forall₂.cons k1 i1, List.Forall₂.cons k2 i2⟩

theorem row_valid (op : Rat → Rat → Rat) (a b : Rat) (yl yr : List Rat) :
    LE (zip4 min4 (yl.map (op a)) (yr.map (op a)) (yl.map (op b)) (yr.map (op b)))
       (zip4 max4 (yl.map (op a)) (yr.map (op a)) (yl.map (op b)) (yr.map (op b))) := by
  induction yl generalizing yr with
  | nil => simp [zip4]
  | cons c tc ih =>
    cases yr with
    | nil => simp [zip4]
    | cons d td =>
      simp only [List.map_cons, zip4]
      exact List.Forall₂.cons (corner_valid op a b c d) (ih td)

/-- unsorted corner minima / maxima over the `n²` grid -/
def gridPair (op : Rat → Rat → Rat) (xl xr yl yr : List Rat) : List Rat × List Rat :=
  (zip4 min4 (cartesian op xl yl) (cartesian op xl yr) (cartesian op xr yl) (cartesian op xr yr),
   zip4 max4 (cartesian op xl yl) (cartesian op xl yr) (cartesian op xr yl) (cartesian op xr yr))

theorem cartesian_cons (op : Rat → Rat → Rat) (a : Rat) (t b : List Rat) :
    cartesian op (a :: t) b = b.map (op a) ++ cartesian op t b := by
  simp [cartesian]

theorem gridPair_cons (op : Rat → Rat → Rat) (a b : Rat) (ta tb yl yr : List Rat) (hlen : yl.length = yr.length) :
    gridPair op (a :: ta) (b :: tb) yl yr =
      ((zip4 min4 (yl.map (op a)) (yr.map (op a)) (yl.map (op b)) (yr.map (op b))) ++ (gridPair op ta tb yl yr).1,
       (zip4 max4 (yl.map (op a)) (yr.map (op a)) (yl.map (op b)) (yr.map (op b))) ++ (gridPair op ta tb yl yr).2) := by
  simp only [gridPair, cartesian_cons]
  rw [zip4_append _ _ _ _ _ _ _ _ _ (by simp [hlen]) (by simp) (by simp [hlen]),
      zip4_append _ _ _ _ _ _ _ _ _ (by simp [hlen]) (by simp) (by simp [hlen])]

theorem LE.append {a a' b b' : List Rat} (h1 : LE a a') (h2 : LE b b') : LE (a ++ b) (a' ++ b') := by
  induction h1 with
  | nil => simpa using h2
  | cons h _ ih => exact List.Forall₂.cons h ih

theorem gridPair_iso (op : Rat → Rat → Rat) (hop : Hull op)
    {xl xr yl yr xl' xr' yl' yr' : List Rat}
    (hx : LE xl xr) (hy : LE yl yr) (hxl : LE xl' xl) (hxr : LE xr xr') (hyl : LE yl' yl) (hyr : LE yr yr') :
    PairSub (gridPair op xl xr yl yr) (gridPair op xl' xr' yl' yr') := by
  have hlen : yl.length = yr.length := hy.length_eq
  have hlen' : yl'.length = yr'.length := by rw [hyl.length_eq, hlen, hyr.length_eq]
  induction hx generalizing xl' xr' with
  | nil =>
    cases hxl; cases hxr
    simp [gridPair, cartesian, zip4, PairSub]
  | @cons a b ta tb hab _ ih =>
    cases hxl with
    | @cons a' _ ta' _ haa hta =>
    cases hxr with
    | @cons _ b' _ tb' hbb htb =>
      obtain ⟨i1, i2⟩ := ih hta htb
      obtain ⟨r1, r2⟩ := row_iso op hop a b a' b' hab haa hbb hy hyl hyr
      rw [gridPair_cons op a b ta tb yl yr hlen, gridPair_cons op a' b' ta' tb' yl' yr' hlen']
      exact ⟨LE.append r1 i1, LE.append r2 i2⟩

theorem gridPair_valid (op : Rat → Rat → Rat) (xl xr yl yr : List Rat) (hlen : yl.length = yr.length) :
    LE (gridPair op xl xr yl yr).1 (gridPair op xl xr yl yr).2 := by
  induction xl generalizing xr with
  | nil => simp [gridPair, cartesian, zip4]
  | cons a ta ih =>
    cases xr with
    | nil => simp [gridPair, cartesian, zip4]
    | cons b tb =>
      rw [gridPair_cons op a b ta tb yl yr hlen]
      exact LE.append (row_valid op a b yl yr) (ih tb)

theorem cornersSorted_eq (op : Rat → Rat → Rat) (x y : PB) :
    cornersSorted op x y = (sortR (gridPair op x.left x.right y.left y.right).1,
                            sortR (gridPair op x.left x.right y.left y.right).2) := rfl

/-- **independent rule is isotone** (the `n²` sorted endpoints) -/
theorem iso_independentOp (op : Rat → Rat → Rat) (hop : Hull op) {X X' Y Y' : PB}
    (vX : LE X.left X.right) (vY : LE Y.left Y.right) (hX : PSub X X') (hY : PSub Y Y') :
    PairSub (independentOp op X Y) (independentOp op X' Y') := by
  have := gridPair_iso op hop vX vY hX.1 hX.2 hY.1 hY.2
  exact ⟨sortR_mono this.1, sortR_mono this.2⟩

/-- **naive rule is isotone**: first `n` sorted minima, last `n` sorted maxima -/
theorem iso_naiveOp (op : Rat → Rat → Rat) (hop : Hull op) {X X' Y Y' : PB}
    (vX : LE X.left X.right) (vY : LE Y.left Y.right) (hX : PSub X X') (hY : PSub Y Y') :
    PairSub (naiveOp op X Y) (naiveOp op X' Y') := by
  obtain ⟨h1, h2⟩ := iso_independentOp op hop vX vY hX hY
  have hn : X'.left.length = X.left.length := hX.1.length_eq
  simp only [naiveOp, independentOp, PairSub] at *
  rw [hn]
  exact ⟨h1.take _, h2.drop _⟩

/-! ## the constructor on well-formed bounds -/

/-- well-formed p-box with `n` steps: lengths, both bounds sorted, `left ≤ right` step by step -/
structure WF (n : Nat) (P : PB) : Prop where
  llen : P.left.length = n
  rlen : P.right.length = n
  lsorted : P.left.Pairwise (· ≤ ·)
  rsorted : P.right.Pairwise (· ≤ ·)
  valid : LE P.left P.right

theorem isIncreasing_of_sorted (l : List Rat) (h : l.Pairwise (· ≤ ·)) : isIncreasing l = true := by
  induction l with
  | nil => rfl
  | cons a t ih =>
    cases t with
    | nil => rfl
    | cons b u =>
      rw [List.pairwise_cons] at h
      simp only [isIncreasing, Bool.and_eq_true, decide_eq_true_eq]
      exact ⟨h.1 b (by simp), ih h.2⟩

theorem allGe_eq_of_LE {l r : List Rat} (h : LE l r) (hg : allGe l r = true) : l = r := by
  induction h with
  | nil => rfl
  | @cons a b s t hab _ ih =>
    simp only [allGe, List.zip_cons_cons, List.all_cons, Bool.and_eq_true, decide_eq_true_eq, ge_iff_le] at hg
    have e : a = b := le_antisymm hab hg.1
    subst e
    rw [ih (by simpa [allGe] using hg.2)]

theorem lexGe_eq_of_LE {l r : List Rat} (h : LE l r) (hg : lexGe l r = true) : l = r := by
  induction h with
  | nil => rfl
  | @cons a b s t hab _ ih =>
    unfold lexGe at hg
    have h1 : ¬ a > b := not_lt.mpr hab
    simp only [h1, if_false] at hg
    by_cases h2 : a < b
    · simp [h2] at hg
    · simp only [h2, if_false] at hg
      have e : a = b := le_antisymm hab (not_lt.mp h2)
      subst e
      rw [ih hg]

theorem lexGe_of_LE {l r : List Rat} (h : LE r l) : lexGe l r = true := by
  induction h with
  | nil => rfl
  | @cons b a t s hba _ ih =>
    unfold lexGe
    by_cases h1 : a > b
    · simp [h1]
    · have h2 : ¬ a < b := not_lt.mpr hba
      simp [h1, h2, ih]

theorem boundSteps_eq (n : Nat) (b : List Rat) (h : b.length = n) : boundSteps n b = .ok b := by
  simp [boundSteps, h]

/-- bounds ordered step by step do not cross (the constructor's last check) -/
theorem noCross_of_LE {l r : List Rat} (h : LE l r) : (l.zip r).any (fun p => decide (p.1 > p.2)) = false := by
  induction h with
  | nil => rfl
  | @cons a b s t hab _ ih =>
    simp only [List.zip_cons_cons, List.any_cons, ih, Bool.or_false, decide_eq_false_iff_not, not_lt]
    exact hab

/-- on well-formed bounds the constructor stores them unchanged (arrays or lists) -/
theorem mk_ok (n : Nat) (lists : Bool) (l r : List Rat) (hl : l.length = n) (hr : r.length = n)
    (sl : l.Pairwise (· ≤ ·)) (sr : r.Pairwise (· ≤ ·)) (hle : LE l r) : mk n lists l r = .ok ⟨l, r⟩ := by
  have il := isIncreasing_of_sorted l sl
  have ir := isIncreasing_of_sorted r sr
  have bl := boundSteps_eq n l hl
  have br := boundSteps_eq n r hr
  have hlr : l.length = r.length := by rw [hl, hr]
  have nc := noCross_of_LE hle
  cases lists with
  | true =>
    by_cases h : lexGe l r = true
    · have e : l = r := lexGe_eq_of_LE hle h
      subst e
      simp only [mk, h, if_true, bl, bind, Except.bind, ne_eq, not_true_eq_false, if_false, il, Bool.not_true,
        Bool.or_self, Bool.false_eq_true, nc]
    · simp only [Bool.not_eq_true] at h
      simp only [mk, h, if_true, bl, br, bind, Except.bind, ne_eq, hlr, not_true_eq_false, if_false, il, ir, Bool.not_true,
        Bool.or_self, Bool.false_eq_true, nc]
  | false =>
    by_cases h : allGe l r = true
    · have e : l = r := allGe_eq_of_LE hle h
      subst e
      simp only [mk, h, if_true, bl, bind, Except.bind, ne_eq, not_true_eq_false, if_false, il, Bool.not_true,
        Bool.or_self, Bool.false_eq_true, nc]
    · simp only [Bool.not_eq_true] at h
      simp only [mk, h, hlr, if_true, bl, br, bind, Except.bind, ne_eq, not_true_eq_false, if_false, il, ir, Bool.not_true,
        Bool.or_self, Bool.false_eq_true, nc]

/-- bounds handed over in the wrong order as Python lists (`left ≥ right` step by step) are switched -/
theorem mk_ok_switched (n : Nat) (l r : List Rat) (hl : l.length = n) (hr : r.length = n)
    (sl : l.Pairwise (· ≤ ·)) (sr : r.Pairwise (· ≤ ·)) (hge : LE r l) : mk n true l r = .ok ⟨r, l⟩ := by
  unfold mk
  have nc := noCross_of_LE hge
  simp [lexGe_of_LE hge, boundSteps_eq n l hl, boundSteps_eq n r hr, isIncreasing_of_sorted l sl,
    isIncreasing_of_sorted r sr, bind, Except.bind, hl, hr]
  simpa using nc

theorem WF.of_mk {n : Nat} {l r : List Rat} (hl : l.length = n) (hr : r.length = n)
    (sl : l.Pairwise (· ≤ ·)) (sr : r.Pairwise (· ≤ ·)) (hle : LE l r) : WF n ⟨l, r⟩ :=
  ⟨hl, hr, sl, sr, hle⟩

theorem LE.getElem {l l' : List Rat} (h : LE l l') (i : Nat) (hi : i < l.length) (hi' : i < l'.length) :
    l[i] ≤ l'[i] := (LE_iff_get.mp h).2 i hi hi'

/-- Frechet: the raw left bound is below the raw right bound at every step (well-formed operands) -/
theorem frechet_valid (op : Rat → Rat → Rat) (hop : Mono2 op) (a b A B : List Rat) (n : Nat)
    (ha : a.length = n) (hb : b.length = n) (hA : A.length = n) (hB : B.length = n)
    (sA : A.Pairwise (· ≤ ·)) (sB : B.Pairwise (· ≤ ·)) (haA : LE a A) (hbB : LE b B) :
    LE (frechetLeftRaw op a b) (frechetRightRaw op A B) := by
  rw [LE_iff_get]
  refine ⟨by rw [frechetLeftRaw_length, frechetRightRaw_length, ha, hA], fun i hi hi' => ?_⟩
  rw [frechetLeftRaw_length] at hi
  obtain ⟨v, hv, -, j, hj, hatt⟩ := frechetLeftRaw_spec op a b (by omega) i hi
  obtain ⟨w, hw, -, t, ht, hatt'⟩ := frechetRightRaw_spec op A B n hA hB i (by omega)
  have e1 : (frechetLeftRaw op a b)[i] = v := by
    have := List.getElem?_eq_getElem (l := frechetLeftRaw op a b) (i := i) (by rw [frechetLeftRaw_length]; exact hi)
    rw [this] at hv; exact Option.some.inj hv
  have e2 : (frechetRightRaw op A B)[i] = w := by
    have := List.getElem?_eq_getElem (l := frechetRightRaw op A B) (i := i) hi'
    rw [this] at hw; exact Option.some.inj hw
  rw [e1, e2, hatt, hatt']
  apply hop
  · have h1 : a[j] ≤ A[j]'(by omega) := haA.getElem j (by omega) (by omega)
    refine le_trans h1 ?_
    rcases Nat.lt_or_ge j (i + t) with h | h
    · exact (List.pairwise_iff_getElem.mp sA) j (i + t) (by omega) (by omega) h
    · have : j = i + t := by omega
      subst this; exact le_refl _
  · have h1 : b[i - j] ≤ B[i - j]'(by omega) := hbB.getElem (i - j) (by omega) (by omega)
    refine le_trans h1 ?_
    rcases Nat.lt_or_ge (i - j) (n - 1 - t) with h | h
    · exact (List.pairwise_iff_getElem.mp sB) (i - j) (n - 1 - t) (by omega) (by omega) h
    · have : i - j = n - 1 - t := by omega
      simp [this]

/-! ### condensation (`n²` values of the independent rule down to `n`) -/

theorem getD_of_lt (l : List Rat) (i : Nat) (d : Rat) (h : i < l.length) : l.getD i d = l[i] :=
  (List.getElem_eq_getD d).symm

theorem getD_of_ge (l : List Rat) (i : Nat) (d : Rat) (h : l.length ≤ i) : l.getD i d = d := by
  simp [List.getD, List.getElem?_eq_none h]

theorem condense_length (n : Nat) (b : List Rat) : (condense n b).length = n := by simp [condense]

theorem condenseIdx_lt (len n k : Nat) (hlen : 0 < len) (hk : k < n) : condenseIdx len n k < len := by
  unfold condenseIdx
  split
  · exact hlen
  · rename_i h
    have hn : 0 < n - 1 := by omega
    have : k * (len - 1) / (n - 1) ≤ len - 1 := by
      apply Nat.div_le_of_le_mul
      have : k ≤ n - 1 := by omega
      exact Nat.mul_le_mul_right _ this
    omega

theorem condenseIdx_mono (len n k k' : Nat) (h : k ≤ k') : condenseIdx len n k ≤ condenseIdx len n k' := by
  unfold condenseIdx
  split
  · exact le_refl _
  · exact Nat.div_le_div_right (Nat.mul_le_mul_right _ h)

theorem condense_mono (n : Nat) {b b' : List Rat} (h : LE b b') : LE (condense n b) (condense n b') := by
  unfold condense
  rw [← h.length_eq]
  apply LE_map_of_le
  intro k _
  rcases Nat.lt_or_ge (condenseIdx b.length n k) b.length with hi | hi
  · have hi' : condenseIdx b.length n k < b'.length := by rw [← h.length_eq]; exact hi
    rw [getD_of_lt _ _ _ hi, getD_of_lt _ _ _ hi']
    exact h.getElem _ hi hi'
  · have hi' : b'.length ≤ condenseIdx b.length n k := by rw [← h.length_eq]; exact hi
    rw [getD_of_ge _ _ _ hi, getD_of_ge _ _ _ hi']

theorem condense_sorted (n : Nat) (b : List Rat) (hb : 0 < b.length) (s : b.Pairwise (· ≤ ·)) :
    (condense n b).Pairwise (· ≤ ·) := by
  unfold condense
  rw [List.pairwise_map]
  have hr : (List.range n).Pairwise (· < ·) := List.pairwise_lt_range
  have hmem : ∀ k ∈ List.range n, k < n := fun k hk => List.mem_range.mp hk
  refine (List.Pairwise.and_mem.mp hr).imp ?_
  intro k k' ⟨hk, hk', hlt⟩
  have i1 := condenseIdx_lt b.length n k hb (hmem k hk)
  have i2 := condenseIdx_lt b.length n k' hb (hmem k' hk')
  rw [getD_of_lt _ _ _ i1, getD_of_lt _ _ _ i2]
  rcases Nat.lt_or_ge (condenseIdx b.length n k) (condenseIdx b.length n k') with h | h
  · exact (List.pairwise_iff_getElem.mp s) _ _ i1 i2 h
  · have : condenseIdx b.length n k = condenseIdx b.length n k' :=
      le_antisymm (condenseIdx_mono _ _ _ _ (le_of_lt hlt)) h
    simp [this]

/-- longer well-formed bounds are condensed by the constructor -/
theorem mk_ok_condense (n m : Nat) (l r : List Rat) (hl : l.length = m) (hr : r.length = m) (hm : n < m)
    (sl : l.Pairwise (· ≤ ·)) (sr : r.Pairwise (· ≤ ·)) (hle : LE l r) :
    mk n false l r = .ok ⟨condense n l, condense n r⟩ ∧ WF n ⟨condense n l, condense n r⟩ := by
  have hlp : 0 < l.length := by omega
  have hrp : 0 < r.length := by omega
  have il := isIncreasing_of_sorted _ (condense_sorted n l hlp sl)
  have ir := isIncreasing_of_sorted _ (condense_sorted n r hrp sr)
  have bl : boundSteps n l = .ok (condense n l) := by simp [boundSteps, hl, hm]
  have br : boundSteps n r = .ok (condense n r) := by simp [boundSteps, hr, hm]
  have hlr : l.length = r.length := by rw [hl, hr]
  refine ⟨?_, ⟨condense_length n l, condense_length n r, condense_sorted n l hlp sl, condense_sorted n r hrp sr,
    condense_mono n hle⟩⟩
  have nc := noCross_of_LE (condense_mono n hle)
  by_cases h : allGe l r = true
  · have e : l = r := allGe_eq_of_LE hle h
    subst e
    simp [mk, h, bl, il, bind, Except.bind, condense_length]
    simpa using nc
  · simp only [Bool.not_eq_true] at h
    simp [mk, h, bl, br, il, ir, bind, Except.bind, hlr, condense_length]
    simpa using nc

/-! ### lengths of the raw results -/

theorem zip4_length (f : Rat → Rat → Rat → Rat → Rat) (a b c d : List Rat) (n : Nat)
    (ha : a.length = n) (hb : b.length = n) (hc : c.length = n) (hd : d.length = n) :
    (zip4 f a b c d).length = n := by
  induction a generalizing b c d n with
  | nil => simp at ha; subst ha; simp [zip4]
  | cons x t ih =>
    cases b with
    | nil => simp at hb; subst hb; simp at ha
    | cons x2 t2 =>
    cases c with
    | nil => simp at hc; subst hc; simp at ha
    | cons x3 t3 =>
    cases d with
    | nil => simp at hd; subst hd; simp at ha
    | cons x4 t4 =>
      cases n with
      | zero => simp at ha
      | succ k =>
        simp only [zip4, List.length_cons, Nat.add_right_cancel_iff] at *
        exact ih t2 t3 t4 k ha hb hc hd

theorem cornerPair_length (op : Rat → Rat → Rat) (xl xr yl yr : List Rat) (n : Nat)
    (h1 : xl.length = n) (h2 : xr.length = n) (h3 : yl.length = n) (h4 : yr.length = n) :
    (cornerPair op xl xr yl yr).1.length = n ∧ (cornerPair op xl xr yl yr).2.length = n := by
  simp only [cornerPair]
  constructor <;> apply zip4_length <;> simp [List.length_zipWith, h1, h2, h3, h4]

theorem cartesian_length (op : Rat → Rat → Rat) (a b : List Rat) :
    (cartesian op a b).length = a.length * b.length := by
  induction a with
  | nil => simp [cartesian]
  | cons x t ih => rw [cartesian_cons, List.length_append, ih]; simp [Nat.succ_mul, Nat.add_comm]

theorem gridPair_length (op : Rat → Rat → Rat) (xl xr yl yr : List Rat) (n : Nat)
    (h1 : xl.length = n) (h2 : xr.length = n) (h3 : yl.length = n) (h4 : yr.length = n) :
    (gridPair op xl xr yl yr).1.length = n * n ∧ (gridPair op xl xr yl yr).2.length = n * n := by
  simp only [gridPair]
  constructor <;> apply zip4_length <;> simp [cartesian_length, h1, h2, h3, h4]

/-- a raw result of length `n` (or longer, then condensed) through the constructor, for a nested pair -/
theorem rule_public (n m : Nat) (hm : m = n ∨ n < m) (p p' : List Rat × List Rat) (h : PairSub p p')
    (l1 : p.1.length = m) (l2 : p.2.length = m) (l1' : p'.1.length = m) (l2' : p'.2.length = m)
    (s1 : p.1.Pairwise (· ≤ ·)) (s2 : p.2.Pairwise (· ≤ ·)) (s1' : p'.1.Pairwise (· ≤ ·)) (s2' : p'.2.Pairwise (· ≤ ·))
    (v : LE p.1 p.2) (v' : LE p'.1 p'.2) :
    ∃ R R', mk n false p.1 p.2 = .ok R ∧ mk n false p'.1 p'.2 = .ok R' ∧ PSub R R' ∧ WF n R ∧ WF n R' := by
  rcases hm with hm | hm
  · subst hm
    exact ⟨⟨p.1, p.2⟩, ⟨p'.1, p'.2⟩, mk_ok _ false _ _ l1 l2 s1 s2 v, mk_ok _ false _ _ l1' l2' s1' s2' v', h,
      ⟨l1, l2, s1, s2, v⟩, ⟨l1', l2', s1', s2', v'⟩⟩
  · obtain ⟨e, w⟩ := mk_ok_condense n m p.1 p.2 l1 l2 hm s1 s2 v
    obtain ⟨e', w'⟩ := mk_ok_condense n m p'.1 p'.2 l1' l2' hm s1' s2' v'
    exact ⟨_, _, e, e', ⟨condense_mono n h.1, condense_mono n h.2⟩, w, w'⟩

/-- facts about one raw rule on well-formed operands -/
structure RuleFacts (n m : Nat) (p : List Rat × List Rat) : Prop where
  l1 : p.1.length = m
  l2 : p.2.length = m
  s1 : p.1.Pairwise (· ≤ ·)
  s2 : p.2.Pairwise (· ≤ ·)
  v : LE p.1 p.2

theorem frechetOp_facts (op : Rat → Rat → Rat) (hop : Mono2 op) (n : Nat) {X Y : PB} (wX : WF n X) (wY : WF n Y) :
    RuleFacts n n (frechetOp op X Y) :=
  ⟨by simp [frechetOp, sortR_length, frechetLeftRaw_length, wX.llen],
   by simp [frechetOp, sortR_length, frechetRightRaw_length, wX.rlen],
   sortR_sorted _, sortR_sorted _,
   sortR_mono (frechet_valid op hop X.left Y.left X.right Y.right n wX.llen wY.llen wX.rlen wY.rlen
     wX.rsorted wY.rsorted wX.valid wY.valid)⟩

theorem perfectOp_facts (op : Rat → Rat → Rat) (n : Nat) {X Y : PB} (wX : WF n X) (wY : WF n Y) :
    RuleFacts n n (perfectOp op X Y) := by
  obtain ⟨h1, h2⟩ := cornerPair_length op X.left X.right Y.left Y.right n wX.llen wX.rlen wY.llen wY.rlen
  exact ⟨by simp [perfectOp, sortR_length, h1], by simp [perfectOp, sortR_length, h2], sortR_sorted _, sortR_sorted _,
    sortR_mono (cornerPair_valid op _ _ _ _)⟩

theorem oppositeOp_facts (op : Rat → Rat → Rat) (n : Nat) {X Y : PB} (wX : WF n X) (wY : WF n Y) :
    RuleFacts n n (oppositeOp op X Y) := by
  obtain ⟨h1, h2⟩ := cornerPair_length op X.left X.right Y.left.reverse Y.right.reverse n wX.llen wX.rlen
    (by simp [wY.llen]) (by simp [wY.rlen])
  exact ⟨by simp [oppositeOp, sortR_length, h1], by simp [oppositeOp, sortR_length, h2], sortR_sorted _, sortR_sorted _,
    sortR_mono (cornerPair_valid op _ _ _ _)⟩

theorem independentOp_facts (op : Rat → Rat → Rat) (n : Nat) {X Y : PB} (wX : WF n X) (wY : WF n Y) :
    RuleFacts n (n * n) (independentOp op X Y) := by
  obtain ⟨h1, h2⟩ := gridPair_length op X.left X.right Y.left Y.right n wX.llen wX.rlen wY.llen wY.rlen
  have hlen : Y.left.length = Y.right.length := by rw [wY.llen, wY.rlen]
  exact ⟨by simp [independentOp, cornersSorted_eq, sortR_length, h1], by simp [independentOp, cornersSorted_eq, sortR_length, h2],
    sortR_sorted _, sortR_sorted _, sortR_mono (gridPair_valid op _ _ _ _ hlen)⟩

theorem sq_cases (n : Nat) : n * n = n ∨ n < n * n := by
  match n with
  | 0 => exact Or.inl rfl
  | 1 => exact Or.inl rfl
  | k + 2 => right; nlinarith

/-- one step from a raw rule to the public method -/
theorem public_of_facts (n m : Nat) (hm : m = n ∨ n < m) {p p' : List Rat × List Rat}
    (f : RuleFacts n m p) (f' : RuleFacts n m p') (h : PairSub p p') :
    ∃ R R', mk n false p.1 p.2 = .ok R ∧ mk n false p'.1 p'.2 = .ok R' ∧ PSub R R' ∧ WF n R ∧ WF n R' :=
  rule_public n m hm p p' h f.l1 f.l2 f'.l1 f'.l2 f.s1 f.s2 f'.s1 f'.s2 f.v f'.v

/-- **`X.add(Y, dependency)` is isotone** under every dependency, for all well-formed operands of any size:
both runs return, the results are well formed and nested -/
theorem add_iso (n : Nat) (d : Dep) (hd : d ≠ .unknown) {X X' Y Y' : PB}
    (wX : WF n X) (wX' : WF n X') (wY : WF n Y) (wY' : WF n Y') (hX : PSub X X') (hY : PSub Y Y') :
    ∃ R R', add n d X Y = .ok R ∧ add n d X' Y' = .ok R' ∧ PSub R R' ∧ WF n R ∧ WF n R' := by
  cases d with
  | f =>
    exact public_of_facts n n (Or.inl rfl) (frechetOp_facts _ add_mono2 n wX wY) (frechetOp_facts _ add_mono2 n wX' wY')
      (iso_frechetOp _ add_mono2 hX hY)
  | p =>
    exact public_of_facts n n (Or.inl rfl) (perfectOp_facts _ n wX wY) (perfectOp_facts _ n wX' wY')
      (iso_perfectOp _ hull_add wX.valid wY.valid hX hY)
  | o =>
    exact public_of_facts n n (Or.inl rfl) (oppositeOp_facts _ n wX wY) (oppositeOp_facts _ n wX' wY')
      (iso_oppositeOp _ hull_add wX.valid wY.valid hX hY)
  | i =>
    exact public_of_facts n (n * n) (sq_cases n) (independentOp_facts _ n wX wY) (independentOp_facts _ n wX' wY')
      (iso_independentOp _ hull_add wX.valid wY.valid hX hY)
  | unknown => exact absurd rfl hd

/-! ## stacking: the generalised inverse of the cumulated mass is monotone in the focal endpoints -/

/-- mass of the rows whose value is `≤ c` -/
def massLE : List (Rat × Rat) → Rat → Rat
  | [], _ => 0
  | (v, w) :: r, c => (if v ≤ c then w else 0) + massLE r c

def total : List (Rat × Rat) → Rat
  | [] => 0
  | (_, w) :: r => w + total r

def NonNegW (l : List (Rat × Rat)) : Prop := ∀ x ∈ l, 0 ≤ x.2

theorem massLE_nonneg {l : List (Rat × Rat)} (h : NonNegW l) (c : Rat) : 0 ≤ massLE l c := by
  induction l with
  | nil => simp [massLE]
  | cons x r ih =>
    obtain ⟨v, w⟩ := x
    have hw : 0 ≤ w := h (v, w) (by simp)
    have := ih (fun y hy => h y (by simp [hy]))
    simp only [massLE]
    split <;> linarith

theorem massLE_le_total {l : List (Rat × Rat)} (h : NonNegW l) (c : Rat) : massLE l c ≤ total l := by
  induction l with
  | nil => simp [massLE, total]
  | cons x r ih =>
    obtain ⟨v, w⟩ := x
    have hw : 0 ≤ w := h (v, w) (by simp)
    have := ih (fun y hy => h y (by simp [hy]))
    simp only [massLE, total]
    split <;> linarith

theorem massLE_perm {l l' : List (Rat × Rat)} (h : l.Perm l') (c : Rat) : massLE l c = massLE l' c := by
  induction h with
  | nil => rfl
  | cons x _ ih => obtain ⟨v, w⟩ := x; simp only [massLE, ih]
  | swap x y l => obtain ⟨v, w⟩ := x; obtain ⟨v2, w2⟩ := y; simp only [massLE]; ring
  | trans _ _ ih1 ih2 => rw [ih1, ih2]

theorem total_perm {l l' : List (Rat × Rat)} (h : l.Perm l') : total l = total l' := by
  induction h with
  | nil => rfl
  | cons x _ ih => obtain ⟨v, w⟩ := x; simp only [total, ih]
  | swap x y l => obtain ⟨v, w⟩ := x; obtain ⟨v2, w2⟩ := y; simp only [total]; ring
  | trans _ _ ih1 ih2 => rw [ih1, ih2]

/-- rows sorted by value -/
def SortedV (l : List (Rat × Rat)) : Prop := l.Pairwise (fun a b => a.1 ≤ b.1)

theorem sortPairs_perm (l : List (Rat × Rat)) : (sortPairs l).Perm l := List.mergeSort_perm l _

theorem sortPairs_sorted (l : List (Rat × Rat)) : SortedV (sortPairs l) := by
  have := List.pairwise_mergeSort (le := fun a b : Rat × Rat => decide (a.1 ≤ b.1))
    (fun a b c h1 h2 => by simp at h1 h2 ⊢; exact le_trans h1 h2)
    (fun a b => by simp; exact le_total a.1 b.1) l
  exact this.imp (fun h => by simpa using h)

theorem firstReach_mem (l : List (Rat × Rat)) (acc p v : Rat) (h : firstReach (cumul l acc) p = some v) :
    ∃ x ∈ l, x.1 = v := by
  induction l generalizing acc with
  | nil => simp [cumul, firstReach] at h
  | cons x r ih =>
    obtain ⟨v0, w0⟩ := x
    simp only [cumul, firstReach] at h
    split at h
    · exact ⟨(v0, w0), by simp, by simpa using h⟩
    · obtain ⟨y, hy, e⟩ := ih _ h
      exact ⟨y, by simp [hy], e⟩

/-- (A) the mass up to the returned value reaches the level -/
theorem firstReach_reaches {l : List (Rat × Rat)} (hs : SortedV l) (hw : NonNegW l) (acc p v : Rat)
    (h : firstReach (cumul l acc) p = some v) : p ≤ acc + massLE l v := by
  induction l generalizing acc with
  | nil => simp [cumul, firstReach] at h
  | cons x r ih =>
    obtain ⟨v0, w0⟩ := x
    have hw0 : 0 ≤ w0 := hw (v0, w0) (by simp)
    have hwr : NonNegW r := fun y hy => hw y (by simp [hy])
    rw [SortedV, List.pairwise_cons] at hs
    simp only [cumul, firstReach] at h
    split at h
    · rename_i hp
      have e : v0 = v := by simpa using h
      subst e
      have := massLE_nonneg hwr v0
      simp only [massLE, le_refl, if_true]
      linarith
    · have := ih hs.2 hwr _ h
      obtain ⟨y, hy, e⟩ := firstReach_mem r _ p v h
      have hv : v0 ≤ v := by rw [← e]; exact hs.1 y hy
      simp only [massLE, hv, if_true]
      linarith

theorem massLE_zero_of_lt {l : List (Rat × Rat)} (c : Rat) (h : ∀ x ∈ l, c < x.1) : massLE l c = 0 := by
  induction l with
  | nil => rfl
  | cons x r ih =>
    obtain ⟨v, w⟩ := x
    have hv : ¬ v ≤ c := not_le.mpr (h (v, w) (by simp))
    simp only [massLE, hv, if_false, zero_add]
    exact ih (fun y hy => h y (by simp [hy]))

/-- (B) below the returned value the mass stays under the level -/
theorem firstReach_minimal {l : List (Rat × Rat)} (hs : SortedV l) (hw : NonNegW l) (acc p v : Rat)
    (hacc : acc < p) (h : firstReach (cumul l acc) p = some v) (c : Rat) (hc : c < v) : acc + massLE l c < p := by
  induction l generalizing acc with
  | nil => simp [cumul, firstReach] at h
  | cons x r ih =>
    obtain ⟨v0, w0⟩ := x
    have hw0 : 0 ≤ w0 := hw (v0, w0) (by simp)
    have hwr : NonNegW r := fun y hy => hw y (by simp [hy])
    rw [SortedV, List.pairwise_cons] at hs
    simp only [cumul, firstReach] at h
    split at h
    · have e : v0 = v := by simpa using h
      subst e
      have hz : massLE ((v0, w0) :: r) c = 0 := by
        apply massLE_zero_of_lt
        intro y hy
        rcases List.mem_cons.mp hy with e | hy'
        · subst e; exact hc
        · exact lt_of_lt_of_le hc (hs.1 y hy')
      rw [hz]; linarith
    · rename_i hp
      have := ih hs.2 hwr (acc + w0) (not_le.mp hp) h
      simp only [massLE]
      split <;> linarith

/-- (C) no row reaches the level only if the whole mass stays below it, and conversely -/
theorem firstReach_none {l : List (Rat × Rat)} (acc p : Rat) (h : firstReach (cumul l acc) p = none) :
    acc + total l < p ∨ l = [] := by
  induction l generalizing acc with
  | nil => exact Or.inr rfl
  | cons x r ih =>
    obtain ⟨v0, w0⟩ := x
    simp only [cumul, firstReach] at h
    split at h
    · simp at h
    · rename_i hp
      left
      rcases ih _ h with h' | h'
      · simp only [total]; linarith
      · subst h'; simp only [total]; linarith [not_le.mp hp]

theorem firstReach_none_of_total {l : List (Rat × Rat)} (hw : NonNegW l) (acc p : Rat) (h : acc + total l < p) :
    firstReach (cumul l acc) p = none := by
  induction l generalizing acc with
  | nil => simp [cumul, firstReach]
  | cons x r ih =>
    obtain ⟨v0, w0⟩ := x
    have hw0 : 0 ≤ w0 := hw (v0, w0) (by simp)
    have hwr : NonNegW r := fun y hy => hw y (by simp [hy])
    simp only [total] at h
    have ht : 0 ≤ total r := by
      have := massLE_le_total hwr 0; have := massLE_nonneg hwr 0; linarith
    have hp : ¬ p ≤ acc + w0 := by linarith
    simp only [cumul, firstReach, hp, if_false]
    exact ih hwr _ (by linarith)

/-! ### the rows `(value, weight)` of two nested lists of values with the same weights -/

theorem massLE_zip_mono {vals vals' wts : List Rat} (h : LE vals vals') (hw : ∀ w ∈ wts, 0 ≤ w) (c : Rat) :
    massLE (vals'.zip wts) c ≤ massLE (vals.zip wts) c := by
  induction h generalizing wts with
  | nil => simp [massLE]
  | @cons a b s t hab _ ih =>
    cases wts with
    | nil => simp [massLE]
    | cons w ws =>
      have hw0 : 0 ≤ w := hw w (by simp)
      have := ih (wts := ws) (fun x hx => hw x (List.mem_cons_of_mem _ hx))
      simp only [List.zip_cons_cons, massLE]
      by_cases hb : b ≤ c
      · have ha : a ≤ c := le_trans hab hb
        simp only [ha, hb, if_true]; linarith
      · simp only [hb, if_false]
        split <;> linarith

theorem total_zip_eq {vals vals' wts : List Rat} (h : LE vals vals') : total (vals'.zip wts) = total (vals.zip wts) := by
  induction h generalizing wts with
  | nil => simp [total]
  | cons _ _ ih =>
    cases wts with
    | nil => simp [total]
    | cons w ws => simp only [List.zip_cons_cons, total, ih]

theorem nonNegW_zip {vals wts : List Rat} (hw : ∀ w ∈ wts, 0 ≤ w) : NonNegW (vals.zip wts) := by
  intro x hx
  exact hw x.2 (List.of_mem_zip hx).2

theorem lastVal_cumul (l : List (Rat × Rat)) (acc : Rat) : lastVal (cumul l acc) = lastVal l := by
  induction l generalizing acc with
  | nil => rfl
  | cons x r ih =>
    obtain ⟨v0, w0⟩ := x
    cases r with
    | nil => simp [cumul, lastVal]
    | cons y r' =>
      obtain ⟨v1, w1⟩ := y
      have := ih (acc + w0)
      simp only [cumul, lastVal] at this ⊢
      exact this

theorem lastVal_ge {l : List (Rat × Rat)} (hs : SortedV l) : ∀ x ∈ l, x.1 ≤ lastVal l := by
  induction l with
  | nil => simp
  | cons x r ih =>
    rw [SortedV, List.pairwise_cons] at hs
    cases r with
    | nil => intro y hy; simp at hy; subst hy; simp [lastVal]
    | cons z r' =>
      intro y hy
      have hz := ih hs.2
      simp only [lastVal]
      rcases List.mem_cons.mp hy with e | hy'
      · subst e; exact le_trans (hs.1 z (by simp)) (hz z (by simp))
      · exact hz y hy'

theorem lastVal_mem {l : List (Rat × Rat)} (hne : l ≠ []) : ∃ x ∈ l, x.1 = lastVal l := by
  induction l with
  | nil => exact absurd rfl hne
  | cons x r ih =>
    cases r with
    | nil => exact ⟨x, by simp, by simp [lastVal]⟩
    | cons z r' =>
      obtain ⟨y, hy, e⟩ := ih (by simp)
      exact ⟨y, by simp [hy], by simpa [lastVal] using e⟩

/-- every row of the narrower list has a row of the wider list with a value at least as large -/
theorem zip_value_dominated {vals vals' wts : List Rat} (h : LE vals vals') :
    ∀ x ∈ vals.zip wts, ∃ y ∈ vals'.zip wts, x.1 ≤ y.1 := by
  induction h generalizing wts with
  | nil => simp
  | @cons a b s t hab _ ih =>
    cases wts with
    | nil => simp
    | cons w ws =>
      intro x hx
      simp only [List.zip_cons_cons, List.mem_cons] at hx
      rcases hx with e | hx
      · subst e; exact ⟨(b, w), by simp, hab⟩
      · obtain ⟨y, hy, hle⟩ := ih x hx
        exact ⟨y, by simp [hy], hle⟩

/-- one level of `stacking` -/
def levelValue (vals wts : List Rat) (p : Rat) : Rat :=
  let sc := cumul (sortPairs (vals.zip wts)) 0
  match firstReach sc p with | some v => v | none => lastVal sc

theorem stackBound_eq (g vals wts : List Rat) : stackBound g vals wts = g.map (levelValue vals wts) := rfl

/-- **the generalised inverse is monotone in the values** (`geninv_antitone` of the design): same weights `≥ 0`,
pointwise larger values, any level `p > 0` -/
theorem levelValue_mono {vals vals' wts : List Rat} (h : LE vals vals') (hw : ∀ w ∈ wts, 0 ≤ w) (p : Rat) (hp : 0 < p) :
    levelValue vals wts p ≤ levelValue vals' wts p := by
  have hs := sortPairs_sorted (vals.zip wts)
  have hs' := sortPairs_sorted (vals'.zip wts)
  have hpm := sortPairs_perm (vals.zip wts)
  have hpm' := sortPairs_perm (vals'.zip wts)
  have nn : NonNegW (sortPairs (vals.zip wts)) := fun x hx => nonNegW_zip hw x (hpm.mem_iff.mp hx)
  have nn' : NonNegW (sortPairs (vals'.zip wts)) := fun x hx => nonNegW_zip hw x (hpm'.mem_iff.mp hx)
  have htot : total (sortPairs (vals'.zip wts)) = total (sortPairs (vals.zip wts)) := by
    rw [total_perm hpm', total_perm hpm, total_zip_eq h]
  unfold levelValue
  simp only
  cases h' : firstReach (cumul (sortPairs (vals'.zip wts)) 0) p with
  | some v' =>
    have hA := firstReach_reaches hs' nn' 0 p v' h'
    rw [massLE_perm hpm'] at hA
    have hA2 : p ≤ massLE (sortPairs (vals.zip wts)) v' := by
      rw [massLE_perm hpm]; have := massLE_zip_mono h hw v'; linarith
    cases h0 : firstReach (cumul (sortPairs (vals.zip wts)) 0) p with
    | some v =>
      simp only
      by_contra hlt
      have := firstReach_minimal hs nn 0 p v hp h0 v' (not_le.mp hlt)
      linarith
    | none =>
      exfalso
      rcases firstReach_none 0 p h0 with hn | hn
      · have := massLE_le_total nn v'; linarith
      · rw [hn] at hA2; simp [massLE] at hA2; linarith
  | none =>
    have h0 : firstReach (cumul (sortPairs (vals.zip wts)) 0) p = none := by
      rcases firstReach_none 0 p h' with hn | hn
      · exact firstReach_none_of_total nn 0 p (by rw [← htot]; exact hn)
      · have : total (sortPairs (vals.zip wts)) = 0 := by rw [← htot, hn]; rfl
        exact firstReach_none_of_total nn 0 p (by rw [this]; simpa using hp)
    simp only [h0, lastVal_cumul]
    by_cases hne : sortPairs (vals.zip wts) = []
    · have e1 : vals.zip wts = [] := by
        have := hpm.length_eq; rw [hne] at this; exact List.length_eq_zero_iff.mp this.symm
      have e2 : vals'.zip wts = [] := by
        have hl : (vals'.zip wts).length = (vals.zip wts).length := by
          simp [List.length_zip, h.length_eq]
        rw [e1] at hl; exact List.length_eq_zero_iff.mp hl
      have e3 : sortPairs (vals'.zip wts) = [] := by
        have hl' : (sortPairs (vals'.zip wts)).length = 0 := by rw [hpm'.length_eq, e2]; rfl
        exact List.length_eq_zero_iff.mp hl'
      rw [hne, e3]
    · obtain ⟨x, hx, ex⟩ := lastVal_mem hne
      obtain ⟨y, hy, hle⟩ := zip_value_dominated (wts := wts) h x (hpm.mem_iff.mp hx)
      rw [← ex]
      exact le_trans hle (lastVal_ge hs' y (hpm'.mem_iff.mpr hy))

theorem stackBound_mono {g vals vals' wts : List Rat} (h : LE vals vals') (hw : ∀ w ∈ wts, 0 ≤ w)
    (hg : ∀ p ∈ g, 0 < p) : LE (stackBound g vals wts) (stackBound g vals' wts) := by
  rw [stackBound_eq, stackBound_eq]
  exact LE_map_of_le g _ _ (fun p hp => levelValue_mono h hw p (hg p hp))

end Pun.Iso
