import Pun.Model.Iso
import Mathlib.Data.List.Sort
import Mathlib.Data.List.Perm.Basic
import Mathlib.Tactic.Linarith
import Mathlib.Algebra.Order.Field.Rat
/-!
# Lemmas for C12: order statistics are monotone

`sorted_get_le_iff` (rank characterisation of a sorted list) and `sort_mono` (pointwise-smaller list
has pointwise-smaller sort) are the kernel-checked proofs of DESIGN.md Appendix A.2.
-/
set_option linter.unusedSimpArgs false
set_option linter.unusedVariables false
namespace Pun.Iso
open Pun List

/-- in a sorted list, the prefix of elements `≤ c` is exactly `takeWhile`; rank characterisation -/
theorem sorted_get_le_iff (s : List ℚ) (hs : s.Pairwise (· ≤ ·)) (c : ℚ) (i : ℕ) (hi : i < s.length) :
    s[i] ≤ c ↔ i < s.countP (fun x => decide (x ≤ c)) := by
  induction s generalizing i with
  | nil => simp at hi
  | cons a t ih =>
    rw [List.pairwise_cons] at hs
    obtain ⟨hat, ht⟩ := hs
    cases i with
    | zero =>
      simp only [List.getElem_cons_zero, List.countP_cons]
      by_cases h : a ≤ c
      · simp [h]
      · simp only [h, decide_false, Bool.false_eq_true, if_false, add_zero, false_iff, not_lt, Nat.le_zero]
        rw [List.countP_eq_zero]
        intro x hx
        have := hat x hx
        simp only [decide_eq_true_eq, not_le]
        exact lt_of_lt_of_le (not_le.mp h) this
    | succ j =>
      simp only [List.getElem_cons_succ, List.countP_cons]
      have hj : j < t.length := by simpa using hi
      rw [ih ht j hj]
      by_cases h : a ≤ c
      · simp [h]
      · simp only [h, decide_false, Bool.false_eq_true, if_false, add_zero]
        have hz : t.countP (fun x => decide (x ≤ c)) = 0 := by
          rw [List.countP_eq_zero]
          intro x hx
          have := hat x hx
          simp only [decide_eq_true_eq, not_le]
          exact lt_of_lt_of_le (not_le.mp h) this
        simp [hz]

/-- order statistics are monotone: pointwise-smaller list has pointwise-smaller sort -/
theorem sort_mono (l l' s s' : List ℚ) (hlen : l.length = l'.length)
    (hle : ∀ i (h : i < l.length), l[i] ≤ l'[i]'(hlen ▸ h))
    (hp : s ~ l) (hp' : s' ~ l') (hs : s.Pairwise (· ≤ ·)) (hs' : s'.Pairwise (· ≤ ·))
    (i : ℕ) (hi : i < s.length) (hi' : i < s'.length) : s[i] ≤ s'[i] := by
  rw [sorted_get_le_iff s hs _ i hi]
  have h1 : i < s'.countP (fun x => decide (x ≤ s'[i])) := by
    rw [← sorted_get_le_iff s' hs' _ i hi']
  have h2 : s'.countP (fun x => decide (x ≤ s'[i])) = l'.countP (fun x => decide (x ≤ s'[i])) := hp'.countP_eq _
  have h3 : s.countP (fun x => decide (x ≤ s'[i])) = l.countP (fun x => decide (x ≤ s'[i])) := hp.countP_eq _
  have h4 : l'.countP (fun x => decide (x ≤ s'[i])) ≤ l.countP (fun x => decide (x ≤ s'[i])) := by
    clear h1 h2 h3 hp hp' hs hs' hi
    induction l generalizing l' with
    | nil =>
      cases l' with
      | nil => simp
      | cons _ _ => simp at hlen
    | cons a t ih =>
      cases l' with
      | nil => simp at hlen
      | cons a' t' =>
        simp only [List.countP_cons]
        have hh := hle 0 (by simp)
        simp only [List.getElem_cons_zero] at hh
        have ht := ih t' (by simpa using hlen) (fun j hj => by
          have := hle (j+1) (by simpa using hj)
          simpa using this)
        by_cases h : a' ≤ s'[i]
        · have : a ≤ s'[i] := le_trans hh h
          simp [h, this]; exact ht
        · simp only [h, decide_false, Bool.false_eq_true, if_false, add_zero]
          exact le_trans ht (Nat.le_add_right _ _)
  omega

end Pun.Iso
