import Mathlib.Tactic.Linarith
import Mathlib.Tactic.Ring
import Mathlib.Algebra.Order.Field.Rat
import Mathlib.Data.List.Sort
import Pun.Model.Dss
/-!
# Lemmas for C08 / C18: the 'next' lookup on a weighted ecdf is the generalised inverse of the
cumulated mass (proofs P8 of DESIGN-proofs.md), and the executable model `Pun.Grid.bound`
computes exactly that lookup on valid input.
-/
set_option linter.unusedSimpArgs false
set_option linter.unusedVariables false
namespace Pun.Grid

/-- 'next'-kind lookup on a weighted, value-sorted sample: first value whose cumulated mass reaches `x` -/
def nextQ : List (ℚ × ℚ) → ℚ → ℚ → Option ℚ
  | [], _, _ => none
  | (s, w) :: rest, acc, x => if x ≤ acc + w then some s else nextQ rest (acc + w) x

/-- total mass of focal endpoints `≤ t` (the plausibility cdf for lower endpoints, belief cdf for upper) -/
def massLE : List (ℚ × ℚ) → ℚ → ℚ
  | [], _ => 0
  | (s, w) :: rest, t => (if s ≤ t then w else 0) + massLE rest t

/-- `s` is the generalised inverse of the non-decreasing `F` at level `x` -/
def IsGenInv (F : ℚ → ℚ) (x s : ℚ) : Prop := x ≤ F s ∧ ∀ t, t < s → F t < x

theorem IsGenInv.unique {F : ℚ → ℚ} {x s s' : ℚ} (h : IsGenInv F x s) (h' : IsGenInv F x s') : s = s' := by
  rcases lt_trichotomy s s' with hlt | heq | hgt
  · exact absurd h.1 (not_le.mpr (h'.2 s hlt))
  · exact heq
  · exact absurd h'.1 (not_le.mpr (h.2 s' hgt))

theorem massLE_nonneg (l : List (ℚ × ℚ)) (hw : ∀ p ∈ l, 0 ≤ p.2) (t : ℚ) : 0 ≤ massLE l t := by
  induction l with
  | nil => simp [massLE]
  | cons p rest ih =>
    obtain ⟨s, w⟩ := p
    have h1 : 0 ≤ w := hw (s, w) (by simp)
    have h2 := ih (fun q hq => hw q (List.mem_cons_of_mem _ hq))
    simp only [massLE]; split <;> linarith

theorem massLE_zero_of_lt (l : List (ℚ × ℚ)) (t : ℚ) (h : ∀ p ∈ l, t < p.1) : massLE l t = 0 := by
  induction l with
  | nil => simp [massLE]
  | cons p rest ih =>
    obtain ⟨s, w⟩ := p
    have h1 : t < s := h (s, w) (by simp)
    have h2 := ih (fun q hq => h q (List.mem_cons_of_mem _ hq))
    simp [massLE, not_le.mpr h1, h2]

theorem nextQ_mem (l : List (ℚ × ℚ)) (acc x s : ℚ) (h : nextQ l acc x = some s) : ∃ p ∈ l, p.1 = s := by
  induction l generalizing acc with
  | nil => simp [nextQ] at h
  | cons p rest ih =>
    obtain ⟨s0, w0⟩ := p
    simp only [nextQ] at h
    by_cases hx : x ≤ acc + w0
    · simp only [hx, if_true, Option.some.injEq] at h
      exact ⟨(s0, w0), by simp, h⟩
    · simp only [hx, if_false] at h
      obtain ⟨p, hp, hps⟩ := ih _ h
      exact ⟨p, List.mem_cons_of_mem _ hp, hps⟩

/-- the value returned is the generalised inverse of the cumulated-mass function at level `x`:
its own cumulated mass reaches `x`, and no strictly smaller point does -/
theorem nextQ_is_geninv (l : List (ℚ × ℚ)) (hs : l.Pairwise (fun a b => a.1 ≤ b.1))
    (hw : ∀ p ∈ l, 0 ≤ p.2) (acc x s : ℚ) (hacc : acc < x) (h : nextQ l acc x = some s) :
    x ≤ acc + massLE l s ∧ ∀ t, t < s → acc + massLE l t < x := by
  induction l generalizing acc with
  | nil => simp [nextQ] at h
  | cons p rest ih =>
    obtain ⟨s0, w0⟩ := p
    rw [List.pairwise_cons] at hs
    obtain ⟨hhead, hrest⟩ := hs
    have hw0 : 0 ≤ w0 := hw (s0, w0) (by simp)
    have hwr : ∀ q ∈ rest, 0 ≤ q.2 := fun q hq => hw q (List.mem_cons_of_mem _ hq)
    simp only [nextQ] at h
    by_cases hx : x ≤ acc + w0
    · simp only [hx, if_true, Option.some.injEq] at h
      subst h
      constructor
      · simp only [massLE, le_refl, if_true]
        have := massLE_nonneg rest hwr s0
        linarith
      · intro t ht
        have hz : massLE ((s0, w0) :: rest) t = 0 := by
          apply massLE_zero_of_lt
          intro q hq
          rcases List.mem_cons.mp hq with rfl | hq
          · exact ht
          · exact lt_of_lt_of_le ht (hhead q hq)
        rw [hz]; linarith
    · simp only [hx, if_false] at h
      have hacc' : acc + w0 < x := not_le.mp hx
      obtain ⟨h1, h2⟩ := ih hrest hwr (acc + w0) hacc' h
      obtain ⟨q, hq, hqs⟩ := nextQ_mem rest _ _ _ h
      have hs0 : s0 ≤ s := hqs ▸ hhead q hq
      constructor
      · simp only [massLE, hs0, if_true]; linarith
      · intro t ht
        have := h2 t ht
        simp only [massLE]
        split <;> linarith

/-- a level not exceeding the total mass always gets an answer -/
theorem nextQ_total (l : List (ℚ × ℚ)) (acc x : ℚ) (hx : x ≤ acc + (l.map (·.2)).sum) (hne : l ≠ []) :
    ∃ s, nextQ l acc x = some s := by
  induction l generalizing acc with
  | nil => exact absurd rfl hne
  | cons p rest ih =>
    obtain ⟨s0, w0⟩ := p
    simp only [nextQ]
    by_cases h : x ≤ acc + w0
    · exact ⟨s0, by simp [h]⟩
    · simp only [h, if_false]
      have hne' : rest ≠ [] := by
        rintro rfl
        simp at hx; exact h hx
      apply ih _ _ hne'
      simp only [List.map_cons, List.sum_cons] at hx
      linarith

example : nextQ [(1, 1/5), (2, 3/10), (3, 1/2)] 0 (1/2) = some 2 := by decide +kernel

/-! ## the cumulated mass depends on the focal elements only as a multiset, and splitting keeps it -/

theorem massLE_perm {l l' : List (ℚ × ℚ)} (h : l.Perm l') (t : ℚ) : massLE l t = massLE l' t := by
  induction h with
  | nil => rfl
  | cons x _ ih => obtain ⟨s, w⟩ := x; simp only [massLE, ih]
  | swap x y l => obtain ⟨s, w⟩ := x; obtain ⟨s', w'⟩ := y; simp only [massLE]; ring
  | trans _ _ ih1 ih2 => exact ih1.trans ih2

theorem massLE_split (s w1 w2 : ℚ) (l : List (ℚ × ℚ)) (t : ℚ) :
    massLE ((s, w1) :: (s, w2) :: l) t = massLE ((s, w1 + w2) :: l) t := by
  simp only [massLE]; split <;> ring

theorem massLE_append (l l' : List (ℚ × ℚ)) (t : ℚ) : massLE (l ++ l') t = massLE l t + massLE l' t := by
  induction l with
  | nil => simp [massLE]
  | cons p r ih => obtain ⟨s, w⟩ := p; simp only [List.cons_append, massLE, ih]; ring

/-! ## the executable model computes `nextQ` -/

theorem firstGE_cumW (L : List (ℚ × ℚ)) (acc x : ℚ) :
    firstGE ((cumW L acc).map swap) x = nextQ L acc x := by
  induction L generalizing acc with
  | nil => simp [cumW, firstGE, nextQ]
  | cons p r ih =>
    obtain ⟨s, w⟩ := p
    simp only [cumW, List.map_cons, swap, firstGE, nextQ, ih]

theorem cumW_ge (L : List (ℚ × ℚ)) (acc : ℚ) (hw : ∀ p ∈ L, 0 ≤ p.2) :
    ∀ p ∈ (cumW L acc).map swap, acc ≤ p.1 := by
  induction L generalizing acc with
  | nil => simp [cumW]
  | cons p r ih =>
    obtain ⟨s, w⟩ := p
    have hw0 : 0 ≤ w := hw (s, w) (by simp)
    intro p hp
    simp only [cumW, List.map_cons, swap, List.mem_cons] at hp
    rcases hp with rfl | hp
    · simp; linarith
    · have := ih (acc + w) (fun q hq => hw q (List.mem_cons_of_mem _ hq)) p hp
      linarith

theorem cumW_sorted (L : List (ℚ × ℚ)) (acc : ℚ) (hw : ∀ p ∈ L, 0 ≤ p.2) :
    ((cumW L acc).map swap).Pairwise (fun a b => a.1 ≤ b.1) := by
  induction L generalizing acc with
  | nil => simp [cumW]
  | cons p r ih =>
    obtain ⟨s, w⟩ := p
    have hwr : ∀ q ∈ r, 0 ≤ q.2 := fun q hq => hw q (List.mem_cons_of_mem _ hq)
    simp only [cumW, List.map_cons, swap, List.pairwise_cons]
    exact ⟨fun q hq => cumW_ge r (acc + w) hwr q hq, ih (acc + w) hwr⟩

theorem lastPt_cons_ne (a : ℚ × ℚ) (e : List (ℚ × ℚ)) (h : e ≠ []) : lastPt (a :: e) = lastPt e := by
  cases e with
  | nil => exact absurd rfl h
  | cons b r => rfl

theorem lastPt_cumW (L : List (ℚ × ℚ)) (acc : ℚ) (hne : L ≠ []) :
    ∃ v, lastPt ((cumW L acc).map swap) = some (acc + (L.map (·.2)).sum, v) := by
  induction L generalizing acc with
  | nil => exact absurd rfl hne
  | cons p r ih =>
    obtain ⟨s, w⟩ := p
    cases r with
    | nil => exact ⟨s, by simp [cumW, swap, lastPt]⟩
    | cons y r' =>
      obtain ⟨v, hv⟩ := ih (acc + w) (by simp)
      refine ⟨v, ?_⟩
      have hne' : (cumW (y :: r') (acc + w)).map swap ≠ [] := by
        obtain ⟨s', w'⟩ := y; simp [cumW]
      simp only [cumW, List.map_cons] at hne' ⊢
      rw [lastPt_cons_ne _ _ (by simp [cumW])]
      simp only [cumW, List.map_cons] at hv
      rw [hv]; simp; ring

theorem sortByFst_of_sorted (e : List (ℚ × ℚ)) (h : e.Pairwise (fun a b => a.1 ≤ b.1)) : sortByFst e = e := by
  unfold sortByFst
  apply List.mergeSort_of_pairwise
  exact h.imp (fun hab => by simpa using hab)

theorem sortByFst_sorted (l : List (ℚ × ℚ)) : (sortByFst l).Pairwise (fun a b => a.1 ≤ b.1) := by
  have := List.pairwise_mergeSort (le := fun a b : ℚ × ℚ => decide (a.1 ≤ b.1))
    (fun a b c hab hbc => by simp only [decide_eq_true_eq] at *; exact le_trans hab hbc)
    (fun a b => by simp only [Bool.or_eq_true, decide_eq_true_eq]; exact le_total _ _) l
  exact this.imp (fun hab => by simpa using hab)

theorem sortByFst_perm (l : List (ℚ × ℚ)) : (sortByFst l).Perm l := List.mergeSort_perm _ _

theorem sum_perm {l l' : List ℚ} (h : l.Perm l') : l.sum = l'.sum := by
  induction h with
  | nil => rfl
  | cons x _ ih => simp only [List.sum_cons, ih]
  | swap x y l => simp only [List.sum_cons]; ring
  | trans _ _ ih1 ih2 => exact ih1.trans ih2

/-- a valid weighted sample: as many weights as values, at least one, non-negative, summing to one -/
structure ValidW (s w : List ℚ) : Prop where
  len : s.length = w.length
  ne : s ≠ []
  nonneg : ∀ x ∈ w, 0 ≤ x
  sum1 : w.sum = 1

theorem sorted_zip_facts (s w : List ℚ) (hv : ValidW s w) :
    sortByFst (s.zip w) ≠ [] ∧ (∀ p ∈ sortByFst (s.zip w), 0 ≤ p.2) ∧
    ((sortByFst (s.zip w)).map (·.2)).sum = 1 := by
  have hperm := sortByFst_perm (s.zip w)
  refine ⟨?_, ?_, ?_⟩
  · intro h
    have hl := hperm.length_eq
    rw [h] at hl
    simp only [List.length_nil, List.length_zip] at hl
    have : 0 < s.length := List.length_pos_iff.mpr hv.ne
    have := hv.len
    omega
  · intro p hp
    have hp' : p ∈ s.zip w := hperm.mem_iff.mp hp
    obtain ⟨a, b⟩ := p
    exact hv.nonneg b (List.of_mem_zip hp').2
  · have h1 : ((sortByFst (s.zip w)).map (·.2)).sum = ((s.zip w).map (·.2)).sum := sum_perm (hperm.map _)
    rw [h1]
    have h2 : (s.zip w).map (·.2) = w := by
      have := List.map_snd_zip (l₁ := s) (l₂ := w) (le_of_eq hv.len.symm)
      simpa using this
    rw [h2, hv.sum1]

/-- on a valid sample the executable model (ecdf, extension, sort by level, 'next' lookup) is `nextQ` on the
value-sorted focal endpoints -/
theorem model_eq_nextQ (s w : List ℚ) (hv : ValidW s w) (x : ℚ) (h0 : 0 < x) (h1 : x ≤ 1) :
    ∃ e, getEcdf s w = some e ∧ interpNext (extendEcdf e) x = nextQ (sortByFst (s.zip w)) 0 x := by
  obtain ⟨hne, hnn, hsum⟩ := sorted_zip_facts s w hv
  generalize hL : sortByFst (s.zip w) = L at hne hnn hsum
  cases L with
  | nil => exact absurd rfl hne
  | cons p0 r =>
    obtain ⟨s0, w0⟩ := p0
    refine ⟨(0, s0) :: (cumW ((s0, w0) :: r) 0).map swap, by simp only [getEcdf, hL], ?_⟩
    obtain ⟨v, hv'⟩ := lastPt_cumW ((s0, w0) :: r) 0 (by simp)
    rw [hsum] at hv'
    have hCne : (cumW ((s0, w0) :: r) 0).map swap ≠ [] := by simp [cumW]
    have hlast : lastPt ((0, s0) :: (cumW ((s0, w0) :: r) 0).map swap) = some (1, v) := by
      rw [lastPt_cons_ne _ _ hCne, hv']; simp
    have hext : extendEcdf ((0, s0) :: (cumW ((s0, w0) :: r) 0).map swap)
        = (0, s0) :: (cumW ((s0, w0) :: r) 0).map swap := by
      simp only [extendEcdf, ne_eq, not_true_eq_false, if_false, hlast]
    have hsorted : ((0, s0) :: (cumW ((s0, w0) :: r) 0).map swap).Pairwise (fun a b => a.1 ≤ b.1) := by
      rw [List.pairwise_cons]
      exact ⟨fun q hq => cumW_ge _ 0 hnn q hq, cumW_sorted _ 0 hnn⟩
    rw [hext]
    have hx0 : ¬ x ≤ 0 := not_le.mpr h0
    have hx0' : ¬ x < 0 := not_lt.mpr (le_of_lt h0)
    have hx1 : ¬ (1 : ℚ) < x := not_lt.mpr h1
    simp only [interpNext, hlast, sortByFst_of_sorted _ hsorted, hx0', hx1, if_false, firstGE, hx0]
    exact firstGE_cumW _ _ _

/-- ★ the bound computed by the model at a level `0 < x ≤ 1` is the generalised inverse of the cumulated mass
of the listed endpoints -/
theorem model_geninv (s w : List ℚ) (hv : ValidW s w) (x : ℚ) (h0 : 0 < x) (h1 : x ≤ 1) :
    ∃ e v, getEcdf s w = some e ∧ interpNext (extendEcdf e) x = some v ∧ IsGenInv (massLE (s.zip w)) x v := by
  obtain ⟨e, he, hq⟩ := model_eq_nextQ s w hv x h0 h1
  obtain ⟨hne, hnn, hsum⟩ := sorted_zip_facts s w hv
  obtain ⟨v, hv'⟩ := nextQ_total (sortByFst (s.zip w)) 0 x (by rw [hsum]; linarith) hne
  refine ⟨e, v, he, hq.trans hv', ?_⟩
  obtain ⟨g1, g2⟩ := nextQ_is_geninv _ (sortByFst_sorted _) hnn 0 x v h0 hv'
  have hp : ∀ t, massLE (sortByFst (s.zip w)) t = massLE (s.zip w) t := fun t => massLE_perm (sortByFst_perm _) t
  constructor
  · rw [← hp]; linarith
  · intro t ht; rw [← hp]; have := g2 t ht; linarith

/-! ## the masses enter only through the comparisons "level ≤ cumulated mass"

`SameCmp x M acc acc'`: along the value-sorted focal endpoints `M` (each carrying two masses `w`, `w'`) the two
running sums compare the same way against the level `x`.  `nextQ_congr`: then the two lookups agree.
`model_eq_nextQ_pos`: the executable model is `nextQ` also for a mass vector that does not sum to one exactly
(binary64 cumsum ends at 1 ± a few ulp): positive masses, every cumulated sum but the last below one. -/

abbrev T3 := ℚ × ℚ × ℚ

def sort3 (l : List T3) : List T3 := l.mergeSort (fun a b => decide (a.1 ≤ b.1))
def zip3 (s w w' : List ℚ) : List T3 := s.zip (w.zip w')
def pi1 (t : T3) : ℚ × ℚ := (t.1, t.2.1)
def pi2 (t : T3) : ℚ × ℚ := (t.1, t.2.2)

def SameCmp (x : ℚ) : List T3 → ℚ → ℚ → Prop
  | [], _, _ => True
  | (_, w, w') :: r, acc, acc' => (x ≤ acc + w ↔ x ≤ acc' + w') ∧ SameCmp x r (acc + w) (acc' + w')

theorem nextQ_congr (x : ℚ) (M : List T3) (acc acc' : ℚ) (h : SameCmp x M acc acc') :
    nextQ (M.map pi1) acc x = nextQ (M.map pi2) acc' x := by
  induction M generalizing acc acc' with
  | nil => rfl
  | cons t r ih =>
    obtain ⟨s, w, w'⟩ := t
    simp only [SameCmp] at h
    simp only [List.map_cons, pi1, pi2, nextQ]
    by_cases hx : x ≤ acc + w
    · simp only [hx, h.1.mp hx, if_true]
    · have hx' : ¬ x ≤ acc' + w' := fun c => hx (h.1.mpr c)
      simp only [hx, hx', if_false]
      exact ih _ _ h.2

theorem zip3_pi1 (s w w' : List ℚ) (h : w.length = w'.length) : (zip3 s w w').map pi1 = s.zip w := by
  induction s generalizing w w' with
  | nil => simp [zip3]
  | cons a s ih =>
    cases w with
    | nil => simp [zip3]
    | cons b w =>
      cases w' with
      | nil => simp at h
      | cons c w' =>
        have := ih w w' (by simpa using h)
        simp only [zip3, List.zip_cons_cons, List.map_cons, pi1] at this ⊢
        rw [this]

theorem zip3_pi2 (s w w' : List ℚ) (h : w.length = w'.length) : (zip3 s w w').map pi2 = s.zip w' := by
  induction s generalizing w w' with
  | nil => simp [zip3]
  | cons a s ih =>
    cases w with
    | nil => cases w' with
      | nil => simp [zip3]
      | cons c w' => simp at h
    | cons b w =>
      cases w' with
      | nil => simp at h
      | cons c w' =>
        have := ih w w' (by simpa using h)
        simp only [zip3, List.zip_cons_cons, List.map_cons, pi2] at this ⊢
        rw [this]

theorem sort3_pi1 (s w w' : List ℚ) (h : w.length = w'.length) :
    (sort3 (zip3 s w w')).map pi1 = sortByFst (s.zip w) := by
  unfold sort3 sortByFst
  have := List.map_mergeSort (r := fun a b : T3 => decide (a.1 ≤ b.1)) (s := fun a b : ℚ × ℚ => decide (a.1 ≤ b.1))
    (f := pi1) (l := zip3 s w w') (fun a _ b _ => rfl)
  rw [this, zip3_pi1 s w w' h]

theorem sort3_pi2 (s w w' : List ℚ) (h : w.length = w'.length) :
    (sort3 (zip3 s w w')).map pi2 = sortByFst (s.zip w') := by
  unfold sort3 sortByFst
  have := List.map_mergeSort (r := fun a b : T3 => decide (a.1 ≤ b.1)) (s := fun a b : ℚ × ℚ => decide (a.1 ≤ b.1))
    (f := pi2) (l := zip3 s w w') (fun a _ b _ => rfl)
  rw [this, zip3_pi2 s w w' h]

/-! ### the executable model on masses that do not sum to one exactly -/

/-- every cumulated sum except the last is below one -/
def NonLastBelow : List (ℚ × ℚ) → ℚ → Prop
  | [], _ => True
  | [_], _ => True
  | (_, w) :: y :: r, acc => acc + w < 1 ∧ NonLastBelow (y :: r) (acc + w)

theorem firstGE_of_min (se : List (ℚ × ℚ)) (hs : se.Pairwise (fun a b => a.1 ≤ b.1)) (x ps qs : ℚ)
    (hmem : (ps, qs) ∈ se) (hx : x ≤ ps) (hmin : ∀ e ∈ se, x ≤ e.1 → ps ≤ e.1)
    (huniq : ∀ e ∈ se, x ≤ e.1 → e.1 ≤ ps → e.2 = qs) : firstGE se x = some qs := by
  induction se with
  | nil => simp at hmem
  | cons a r ih =>
    obtain ⟨p, q⟩ := a
    rw [List.pairwise_cons] at hs
    simp only [firstGE]
    by_cases hxp : x ≤ p
    · simp only [hxp, if_true, Option.some.injEq]
      have h1 : ps ≤ p := hmin (p, q) (by simp) hxp
      have h2 : p ≤ ps := by
        rcases List.mem_cons.mp hmem with he | he
        · simp only [Prod.mk.injEq] at he; rw [he.1]
        · exact hs.1 _ he
      exact huniq (p, q) (by simp) hxp h2
    · simp only [hxp, if_false]
      have hm : (ps, qs) ∈ r := by
        rcases List.mem_cons.mp hmem with he | he
        · simp only [Prod.mk.injEq] at he; rw [he.1] at hx; exact absurd hx hxp
        · exact he
      exact ih hs.2 hm (fun e he => hmin e (List.mem_cons_of_mem _ he))
        (fun e he => huniq e (List.mem_cons_of_mem _ he))

theorem cumW_gt (L : List (ℚ × ℚ)) (acc : ℚ) (hpos : ∀ p ∈ L, 0 < p.2) :
    ∀ e ∈ (cumW L acc).map swap, acc < e.1 := by
  induction L generalizing acc with
  | nil => simp [cumW]
  | cons p r ih =>
    obtain ⟨s, w⟩ := p
    have hw0 : 0 < w := hpos (s, w) (by simp)
    intro e he
    simp only [cumW, List.map_cons, swap, List.mem_cons] at he
    rcases he with rfl | he
    · simp; linarith
    · have := ih (acc + w) (fun q hq => hpos q (List.mem_cons_of_mem _ hq)) e he
      linarith

theorem nextQ_min (L : List (ℚ × ℚ)) (acc x v : ℚ) (hpos : ∀ p ∈ L, 0 < p.2) (h : nextQ L acc x = some v) :
    ∃ ps, (ps, v) ∈ (cumW L acc).map swap ∧ x ≤ ps ∧
      (∀ e ∈ (cumW L acc).map swap, x ≤ e.1 → ps ≤ e.1) ∧
      (∀ e ∈ (cumW L acc).map swap, x ≤ e.1 → e.1 ≤ ps → e.2 = v) := by
  induction L generalizing acc with
  | nil => simp [nextQ] at h
  | cons p r ih =>
    obtain ⟨s, w⟩ := p
    have hposr : ∀ q ∈ r, 0 < q.2 := fun q hq => hpos q (List.mem_cons_of_mem _ hq)
    simp only [nextQ] at h
    by_cases hx : x ≤ acc + w
    · simp only [hx, if_true, Option.some.injEq] at h
      subst h
      refine ⟨acc + w, by simp [cumW, swap], hx, ?_, ?_⟩
      · intro e he _
        simp only [cumW, List.map_cons, swap, List.mem_cons] at he
        rcases he with rfl | he
        · simp
        · exact le_of_lt (cumW_gt r (acc + w) hposr e he)
      · intro e he _ hle
        simp only [cumW, List.map_cons, swap, List.mem_cons] at he
        rcases he with rfl | he
        · rfl
        · exact absurd hle (not_le.mpr (cumW_gt r (acc + w) hposr e he))
    · simp only [hx, if_false] at h
      obtain ⟨ps, hm, hxp, hmin, huniq⟩ := ih (acc + w) hposr h
      refine ⟨ps, by simp only [cumW, List.map_cons, List.mem_cons]; exact Or.inr hm, hxp, ?_, ?_⟩
      · intro e he hxe
        simp only [cumW, List.map_cons, swap, List.mem_cons] at he
        rcases he with rfl | he
        · exact absurd hxe hx
        · exact hmin e he hxe
      · intro e he hxe hle
        simp only [cumW, List.map_cons, swap, List.mem_cons] at he
        rcases he with rfl | he
        · exact absurd hxe hx
        · exact huniq e he hxe hle

theorem nonlast_last (L : List (ℚ × ℚ)) (acc : ℚ) (h : NonLastBelow L acc) :
    ∀ e ∈ (cumW L acc).map swap, ¬ e.1 < 1 → lastPt ((cumW L acc).map swap) = some e := by
  induction L generalizing acc with
  | nil => simp [cumW]
  | cons p r ih =>
    obtain ⟨s, w⟩ := p
    cases r with
    | nil =>
      intro e he _
      simp only [cumW, List.map_cons, List.map_nil, List.mem_singleton] at he
      subst he; rfl
    | cons y r' =>
      simp only [NonLastBelow] at h
      intro e he hge
      obtain ⟨s', w'⟩ := y
      simp only [cumW, List.map_cons, swap, List.mem_cons] at he
      rcases he with rfl | he
      · exact absurd h.1 hge
      · have := ih (acc + w) h.2 e (by simpa [cumW, swap] using he) hge
        simp only [cumW, List.map_cons] at this ⊢
        rw [lastPt_cons_ne _ _ (by simp)]
        exact this

theorem lastPt_mem : ∀ (l : List (ℚ × ℚ)) (z : ℚ × ℚ), lastPt l = some z → z ∈ l
  | [], z, h => by simp [lastPt] at h
  | [a], z, h => by simp only [lastPt, Option.some.injEq] at h; subst h; simp
  | a :: b :: r, z, h => by
    have : lastPt (a :: b :: r) = lastPt (b :: r) := rfl
    rw [this] at h
    exact List.mem_cons_of_mem _ (lastPt_mem (b :: r) z h)

theorem lastPt_some : ∀ (l : List (ℚ × ℚ)), l ≠ [] → ∃ z, lastPt l = some z
  | [], h => absurd rfl h
  | [a], _ => ⟨a, rfl⟩
  | a :: b :: r, _ => by
    have : lastPt (a :: b :: r) = lastPt (b :: r) := rfl
    rw [this]; exact lastPt_some (b :: r) (by simp)

theorem lastPt_ge : ∀ (l : List (ℚ × ℚ)) (z : ℚ × ℚ), l.Pairwise (fun a b => a.1 ≤ b.1) → lastPt l = some z →
    ∀ e ∈ l, e.1 ≤ z.1
  | [], z, _, h => by simp [lastPt] at h
  | [a], z, _, h => by
    simp only [lastPt, Option.some.injEq] at h; subst h
    intro e he; simp at he; subst he; exact le_refl _
  | a :: b :: r, z, hs, h => by
    have : lastPt (a :: b :: r) = lastPt (b :: r) := rfl
    rw [this] at h
    rw [List.pairwise_cons] at hs
    intro e he
    rcases List.mem_cons.mp he with rfl | he
    · exact hs.1 z (lastPt_mem _ _ h)
    · exact lastPt_ge (b :: r) z hs.2 h e he

theorem lastPt_append (l : List (ℚ × ℚ)) (z : ℚ × ℚ) : lastPt (l ++ [z]) = some z := by
  induction l with
  | nil => rfl
  | cons a r ih =>
    cases r with
    | nil => rfl
    | cons b r' =>
      have : lastPt (a :: (b :: r') ++ [z]) = lastPt ((b :: r') ++ [z]) := rfl
      rw [this]; exact ih

/-- the lookup on any list of ecdf points with non-negative levels containing level 0: it returns the quantile
of the unique point of smallest level `≥ x` -/
theorem interpNext_of_min (E : List (ℚ × ℚ)) (x ps qs q0 : ℚ) (h0 : 0 < x)
    (hz : (0, q0) ∈ E) (hmem : (ps, qs) ∈ E) (hx : x ≤ ps)
    (hmin : ∀ e ∈ E, x ≤ e.1 → ps ≤ e.1) (huniq : ∀ e ∈ E, x ≤ e.1 → e.1 ≤ ps → e.2 = qs) :
    interpNext E x = some qs := by
  have hne : E ≠ [] := List.ne_nil_of_mem hz
  have hperm := sortByFst_perm E
  have hsorted := sortByFst_sorted E
  have hsne : sortByFst E ≠ [] := by
    intro h; have := hperm.length_eq; rw [h] at this
    exact hne (List.eq_nil_of_length_eq_zero this.symm)
  obtain ⟨zE, hzE⟩ := lastPt_some E hne
  obtain ⟨zS, hzS⟩ := lastPt_some _ hsne
  cases hE : E with
  | nil => exact absurd hE hne
  | cons a rE =>
    cases hS : sortByFst E with
    | nil => exact absurd hS hsne
    | cons b rS =>
      have hlo : b.1 ≤ 0 := by
        have hb : (0, q0) ∈ sortByFst E := hperm.mem_iff.mpr hz
        rw [hS] at hb hsorted
        rw [List.pairwise_cons] at hsorted
        rcases List.mem_cons.mp hb with he | he
        · rw [← he]
        · exact hsorted.1 _ he
      have hhi : ps ≤ zS.1 := lastPt_ge _ zS hsorted hzS (ps, qs) (hperm.mem_iff.mpr hmem)
      have hfirst : firstGE (sortByFst E) x = some qs :=
        firstGE_of_min _ hsorted x ps qs (hperm.mem_iff.mpr hmem) hx
          (fun e he => hmin e (hperm.mem_iff.mp he)) (fun e he => huniq e (hperm.mem_iff.mp he))
      rw [hE] at hzE hzS hS hfirst
      obtain ⟨ap, aq⟩ := a
      obtain ⟨zEp, zEq⟩ := zE
      obtain ⟨bp, bq⟩ := b
      obtain ⟨zSp, zSq⟩ := zS
      have c1 : ¬ x < bp := not_lt.mpr (by simp at hlo; linarith)
      have c2 : ¬ zSp < x := not_lt.mpr (by simp at hhi; linarith)
      rw [hS] at hzS hfirst
      simp only [interpNext, hzE, hS, hzS, c1, c2, if_false]
      exact hfirst

theorem mem_ext3 (e a z : ℚ × ℚ) (C : List (ℚ × ℚ)) : e ∈ (a :: C) ++ [z] ↔ e = a ∨ e ∈ C ∨ e = z := by
  simp

/-- the executable model is `nextQ` on the value-sorted endpoints also when the masses do not sum to one
exactly: positive masses, every cumulated sum but the last below one (the binary64 cumsum of masses that sum
to one ends at `1 ± a few ulp`; `extend_ecdf` then appends level 1 with the last quantile) -/
theorem model_eq_nextQ_pos (s w : List ℚ) (hpos : ∀ x ∈ w, 0 < x)
    (hnl : NonLastBelow (sortByFst (s.zip w)) 0) (x v : ℚ) (h0 : 0 < x) (h1 : x ≤ 1)
    (hq : nextQ (sortByFst (s.zip w)) 0 x = some v) :
    ∃ e, getEcdf s w = some e ∧ interpNext (extendEcdf e) x = some v := by
  have hposL : ∀ p ∈ sortByFst (s.zip w), 0 < p.2 := by
    intro p hp
    have hp' : p ∈ s.zip w := (sortByFst_perm _).mem_iff.mp hp
    obtain ⟨a, b⟩ := p
    exact hpos b (List.of_mem_zip hp').2
  generalize hL : sortByFst (s.zip w) = L at hq hnl hposL
  cases L with
  | nil => simp [nextQ] at hq
  | cons p0 r =>
    obtain ⟨s0, w0⟩ := p0
    refine ⟨(0, s0) :: (cumW ((s0, w0) :: r) 0).map swap, by simp only [getEcdf, hL], ?_⟩
    set C := (cumW ((s0, w0) :: r) 0).map swap with hC
    have hCne : C ≠ [] := by simp [hC, cumW]
    obtain ⟨ps, hm, hxp, hmin, huniq⟩ := nextQ_min _ 0 x v hposL hq
    obtain ⟨zl, hzl⟩ := lastPt_some C hCne
    obtain ⟨T, ql⟩ := zl
    have hlast : lastPt ((0, s0) :: C) = some (T, ql) := by rw [lastPt_cons_ne _ _ hCne, hzl]
    have hCpos : ∀ e ∈ C, 0 < e.1 := cumW_gt _ 0 hposL
    by_cases hT : T = 1
    · -- no level appended
      have hext : extendEcdf ((0, s0) :: C) = (0, s0) :: C := by
        simp only [extendEcdf, ne_eq, not_true_eq_false, if_false, hlast, hT]
      rw [hext]
      apply interpNext_of_min _ x ps v s0 h0 (by simp) (List.mem_cons_of_mem _ hm) hxp
      · intro e he hxe
        rcases List.mem_cons.mp he with rfl | he
        · simp at hxe; linarith
        · exact hmin e he hxe
      · intro e he hxe hle
        rcases List.mem_cons.mp he with rfl | he
        · simp at hxe; linarith
        · exact huniq e he hxe hle
    · have hext : extendEcdf ((0, s0) :: C) = ((0, s0) :: C) ++ [(1, ql)] := by
        simp only [extendEcdf, ne_eq, not_true_eq_false, if_false, hlast, hT, not_false_eq_true, if_true]
      rw [hext]
      by_cases hps : ps ≤ 1
      · -- the point found lies at or below level one: the appended level 1 comes later
        have hps1 : ps < 1 := by
          rcases lt_or_eq_of_le hps with h | h
          · exact h
          · exfalso
            have := nonlast_last _ 0 hnl (ps, v) hm (by simp [h])
            rw [← hC, hzl, Option.some.injEq, Prod.mk.injEq] at this
            exact hT (this.1.trans h)
        apply interpNext_of_min _ x ps v s0 h0 (by simp) ((mem_ext3 _ _ _ _).mpr (Or.inr (Or.inl hm))) hxp
        · intro e he hxe
          rw [mem_ext3] at he
          rcases he with rfl | he | rfl
          · simp at hxe; linarith
          · exact hmin e he hxe
          · simp; linarith
        · intro e he hxe hle
          rw [mem_ext3] at he
          rcases he with rfl | he | rfl
          · simp at hxe; linarith
          · exact huniq e he hxe hle
          · simp at hle; linarith
      · -- the only cumulated sum reaching x overshoots one: it is the last, and level 1 carries its quantile
        have hps1 : 1 < ps := not_le.mp hps
        have hl := nonlast_last _ 0 hnl (ps, v) hm (by simp; linarith)
        rw [← hC, hzl, Option.some.injEq, Prod.mk.injEq] at hl
        obtain ⟨rfl, rfl⟩ := hl
        apply interpNext_of_min _ x 1 ql s0 h0 (by simp) (by simp) h1
        · intro e he hxe
          rw [mem_ext3] at he
          rcases he with rfl | he | rfl
          · simp at hxe; linarith
          · have := hmin e he hxe; linarith
          · simp
        · intro e he hxe hle
          rw [mem_ext3] at he
          rcases he with rfl | he | rfl
          · simp at hxe; linarith
          · have := hmin e he hxe; linarith
          · rfl

end Pun.Grid
