import Mathlib.Tactic.Linarith
import Mathlib.Tactic.Ring
import Mathlib.Algebra.Order.Field.Rat
import Mathlib.Data.List.Sort
import Pun.Model.Dss
/-!
# Lemmas for C08 / C18: the 'next' lookup on a weighted ecdf is the generalised inverse of the
cumulated mass (proofs P8 of DESIGN-proofs.md), and the executable model `Pun.Grid.bound`
computes exactly that lookup on valid input.
-/
set_option linter.unusedSimpArgs false
set_option linter.unusedVariables false
namespace Pun.Grid

/-- 'next'-kind lookup on a weighted, value-sorted sample: first value whose cumulated mass reaches `x` -/
def nextQ : List (ℚ × ℚ) → ℚ → ℚ → Option ℚ
  | [], _, _ => none
  | (s, w) :: rest, acc, x => if x ≤ acc + w then some s else nextQ rest (acc + w) x

/-- total mass of focal endpoints `≤ t` (the plausibility cdf for lower endpoints, belief cdf for upper) -/
def massLE : List (ℚ × ℚ) → ℚ → ℚ
  | [], _ => 0
  | (s, w) :: rest, t => (if s ≤ t then w else 0) + massLE rest t

/-- `s` is the generalised inverse of the non-decreasing `F` at level `x` -/
def IsGenInv (F : ℚ → ℚ) (x s : ℚ) : Prop := x ≤ F s ∧ ∀ t, t < s → F t < x

theorem IsGenInv.unique {F : ℚ → ℚ} {x s s' : ℚ} (h : IsGenInv F x s) (h' : IsGenInv F x s') : s = s' := by
  rcases lt_trichotomy s s' with hlt | heq | hgt
  · exact absurd h.1 (not_le.mpr (h'.2 s hlt))
  · exact heq
  · exact absurd h'.1 (not_le.mpr (h.2 s' hgt))

theorem massLE_nonneg (l : List (ℚ × ℚ)) (hw : ∀ p ∈ l, 0 ≤ p.2) (t : ℚ) : 0 ≤ massLE l t := by
  induction l with
  | nil => simp [massLE]
  | cons p rest ih =>
    obtain ⟨s, w⟩ := p
    have h1 : 0 ≤ w := hw (s, w) (by simp)
    have h2 := ih (fun q hq => hw q (List.mem_cons_of_mem _ hq))
    simp only [massLE]; split <;> linarith

theorem massLE_zero_of_lt (l : List (ℚ × ℚ)) (t : ℚ) (h : ∀ p ∈ l, t < p.1) : massLE l t = 0 := by
  induction l with
  | nil => simp [massLE]
  | cons p rest ih =>
    obtain ⟨s, w⟩ := p
    have h1 : t < s := h (s, w) (by simp)
    have h2 := ih (fun q hq => h q (List.mem_cons_of_mem _ hq))
    simp [massLE, not_le.mpr h1, h2]

theorem nextQ_mem (l : List (ℚ × ℚ)) (acc x s : ℚ) (h : nextQ l acc x = some s) : ∃ p ∈ l, p.1 = s := by
  induction l generalizing acc with
  | nil => simp [nextQ] at h
  | cons p rest ih =>
    obtain ⟨s0, w0⟩ := p
    simp only [nextQ] at h
    by_cases hx : x ≤ acc + w0
    · simp only [hx, if_true, Option.some.injEq] at h
      exact ⟨(s0, w0), by simp, h⟩
    · simp only [hx, if_false] at h
      obtain ⟨p, hp, hps⟩ := ih _ h
      exact ⟨p, List.mem_cons_of_mem _ hp, hps⟩

/-- the value returned is the generalised inverse of the cumulated-mass function at level `x`:
its own cumulated mass reaches `x`, and no strictly smaller point does -/
theorem nextQ_is_geninv (l : List (ℚ × ℚ)) (hs : l.Pairwise (fun a b => a.1 ≤ b.1))
    (hw : ∀ p ∈ l, 0 ≤ p.2) (acc x s : ℚ) (hacc : acc < x) (h : nextQ l acc x = some s) :
    x ≤ acc + massLE l s ∧ ∀ t, t < s → acc + massLE l t < x := by
  induction l generalizing acc with
  | nil => simp [nextQ] at h
  | cons p rest ih =>
    obtain ⟨s0, w0⟩ := p
    rw [List.pairwise_cons] at hs
    obtain ⟨hhead, hrest⟩ := hs
    have hw0 : 0 ≤ w0 := hw (s0, w0) (by simp)
    have hwr : ∀ q ∈ rest, 0 ≤ q.2 := fun q hq => hw q (List.mem_cons_of_mem _ hq)
    simp only [nextQ] at h
    by_cases hx : x ≤ acc + w0
    · simp only [hx, if_true, Option.some.injEq] at h
      subst h
      constructor
      · simp only [massLE, le_refl, if_true]
        have := massLE_nonneg rest hwr s0
        linarith
      · intro t ht
        have hz : massLE ((s0, w0) :: rest) t = 0 := by
          apply massLE_zero_of_lt
          intro q hq
          rcases List.mem_cons.mp hq with rfl | hq
          · exact ht
          · exact lt_of_lt_of_le ht (hhead q hq)
        rw [hz]; linarith
    · simp only [hx, if_false] at h
      have hacc' : acc + w0 < x := not_le.mp hx
      obtain ⟨h1, h2⟩ := ih hrest hwr (acc + w0) hacc' h
      obtain ⟨q, hq, hqs⟩ := nextQ_mem rest _ _ _ h
      have hs0 : s0 ≤ s := hqs ▸ hhead q hq
      constructor
      · simp only [massLE, hs0, if_true]; linarith
      · intro t ht
        have := h2 t ht
        simp only [massLE]
        split <;> linarith

/-- a level not exceeding the total mass always gets an answer -/
theorem nextQ_total (l : List (ℚ × ℚ)) (acc x : ℚ) (hx : x ≤ acc + (l.map (·.2)).sum) (hne : l ≠ []) :
    ∃ s, nextQ l acc x = some s := by
  induction l generalizing acc with
  | nil => exact absurd rfl hne
  | cons p rest ih =>
    obtain ⟨s0, w0⟩ := p
    simp only [nextQ]
    by_cases h : x ≤ acc + w0
    · exact ⟨s0, by simp [h]⟩
    · simp only [h, if_false]
      have hne' : rest ≠ [] := by
        rintro rfl
        simp at hx; exact h hx
      apply ih _ _ hne'
      simp only [List.map_cons, List.sum_cons] at hx
      linarith

example : nextQ [(1, 1/5), (2, 3/10), (3, 1/2)] 0 (1/2) = some 2 := by decide +kernel

/-! ## the cumulated mass depends on the focal elements only as a multiset, and splitting keeps it -/

theorem massLE_perm {l l' : List (ℚ × ℚ)} (h : l.Perm l') (t : ℚ) : massLE l t = massLE l' t := by
  induction h with
  | nil => rfl
  | cons x _ ih => obtain ⟨s, w⟩ := x; simp only [massLE, ih]
  | swap x y l => obtain ⟨s, w⟩ := x; obtain ⟨s', w'⟩ := y; simp only [massLE]; ring
  | trans _ _ ih1 ih2 => exact ih1.trans ih2

theorem massLE_split (s w1 w2 : ℚ) (l : List (ℚ × ℚ)) (t : ℚ) :
    massLE ((s, w1) :: (s, w2) :: l) t = massLE ((s, w1 + w2) :: l) t := by
  simp only [massLE]; split <;> ring

theorem massLE_append (l l' : List (ℚ × ℚ)) (t : ℚ) : massLE (l ++ l') t = massLE l t + massLE l' t := by
  induction l with
  | nil => simp [massLE]
  | cons p r ih => obtain ⟨s, w⟩ := p; simp only [List.cons_append, massLE, ih]; ring

/-! ## the executable model computes `nextQ` -/

theorem firstGE_cumW (L : List (ℚ × ℚ)) (acc x : ℚ) :
    firstGE ((cumW L acc).map swap) x = nextQ L acc x := by
  induction L generalizing acc with
  | nil => simp [cumW, firstGE, nextQ]
  | cons p r ih =>
    obtain ⟨s, w⟩ := p
    simp only [cumW, List.map_cons, swap, firstGE, nextQ, ih]

theorem cumW_ge (L : List (ℚ × ℚ)) (acc : ℚ) (hw : ∀ p ∈ L, 0 ≤ p.2) :
    ∀ p ∈ (cumW L acc).map swap, acc ≤ p.1 := by
  induction L generalizing acc with
  | nil => simp [cumW]
  | cons p r ih =>
    obtain ⟨s, w⟩ := p
    have hw0 : 0 ≤ w := hw (s, w) (by simp)
    intro p hp
    simp only [cumW, List.map_cons, swap, List.mem_cons] at hp
    rcases hp with rfl | hp
    · simp; linarith
    · have := ih (acc + w) (fun q hq => hw q (List.mem_cons_of_mem _ hq)) p hp
      linarith

theorem cumW_sorted (L : List (ℚ × ℚ)) (acc : ℚ) (hw : ∀ p ∈ L, 0 ≤ p.2) :
    ((cumW L acc).map swap).Pairwise (fun a b => a.1 ≤ b.1) := by
  induction L generalizing acc with
  | nil => simp [cumW]
  | cons p r ih =>
    obtain ⟨s, w⟩ := p
    have hwr : ∀ q ∈ r, 0 ≤ q.2 := fun q hq => hw q (List.mem_cons_of_mem _ hq)
    simp only [cumW, List.map_cons, swap, List.pairwise_cons]
    exact ⟨fun q hq => cumW_ge r (acc + w) hwr q hq, ih (acc + w) hwr⟩

theorem lastPt_cons_ne (a : ℚ × ℚ) (e : List (ℚ × ℚ)) (h : e ≠ []) : lastPt (a :: e) = lastPt e := by
  cases e with
  | nil => exact absurd rfl h
  | cons b r => rfl

theorem lastPt_cumW (L : List (ℚ × ℚ)) (acc : ℚ) (hne : L ≠ []) :
    ∃ v, lastPt ((cumW L acc).map swap) = some (acc + (L.map (·.2)).sum, v) := by
  induction L generalizing acc with
  | nil => exact absurd rfl hne
  | cons p r ih =>
    obtain ⟨s, w⟩ := p
    cases r with
    | nil => exact ⟨s, by simp [cumW, swap, lastPt]⟩
    | cons y r' =>
      obtain ⟨v, hv⟩ := ih (acc + w) (by simp)
      refine ⟨v, ?_⟩
      have hne' : (cumW (y :: r') (acc + w)).map swap ≠ [] := by
        obtain ⟨s', w'⟩ := y; simp [cumW]
      simp only [cumW, List.map_cons] at hne' ⊢
      rw [lastPt_cons_ne _ _ (by simp [cumW])]
      simp only [cumW, List.map_cons] at hv
      rw [hv]; simp; ring

theorem sortByFst_of_sorted (e : List (ℚ × ℚ)) (h : e.Pairwise (fun a b => a.1 ≤ b.1)) : sortByFst e = e := by
  unfold sortByFst
  apply List.mergeSort_of_pairwise
  exact h.imp (fun hab => by simpa using hab)

theorem sortByFst_sorted (l : List (ℚ × ℚ)) : (sortByFst l).Pairwise (fun a b => a.1 ≤ b.1) := by
  have := List.pairwise_mergeSort (le := fun a b : ℚ × ℚ => decide (a.1 ≤ b.1))
    (fun a b c hab hbc => by simp only [decide_eq_true_eq] at *; exact le_trans hab hbc)
    (fun a b => by simp only [Bool.or_eq_true, decide_eq_true_eq]; exact le_total _ _) l
  exact this.imp (fun hab => by simpa using hab)

theorem sortByFst_perm (l : List (ℚ × ℚ)) : (sortByFst l).Perm l := List.mergeSort_perm _ _

theorem sum_perm {l l' : List ℚ} (h : l.Perm l') : l.sum = l'.sum := by
  induction h with
  | nil => rfl
  | cons x _ ih => simp only [List.sum_cons, ih]
  | swap x y l => simp only [List.sum_cons]; ring
  | trans _ _ ih1 ih2 => exact ih1.trans ih2

/-- a valid weighted sample: as many weights as values, at least one, non-negative, summing to one -/
structure ValidW (s w : List ℚ) : Prop where
  len : s.length = w.length
  ne : s ≠ []
  nonneg : ∀ x ∈ w, 0 ≤ x
  sum1 : w.sum = 1

theorem sorted_zip_facts (s w : List ℚ) (hv : ValidW s w) :
    sortByFst (s.zip w) ≠ [] ∧ (∀ p ∈ sortByFst (s.zip w), 0 ≤ p.2) ∧
    ((sortByFst (s.zip w)).map (·.2)).sum = 1 := by
  have hperm := sortByFst_perm (s.zip w)
  refine ⟨?_, ?_, ?_⟩
  · intro h
    have hl := hperm.length_eq
    rw [h] at hl
    simp only [List.length_nil, List.length_zip] at hl
    have : 0 < s.length := List.length_pos_iff.mpr hv.ne
    have := hv.len
    omega
  · intro p hp
    have hp' : p ∈ s.zip w := hperm.mem_iff.mp hp
    obtain ⟨a, b⟩ := p
    exact hv.nonneg b (List.of_mem_zip hp').2
  · have h1 : ((sortByFst (s.zip w)).map (·.2)).sum = ((s.zip w).map (·.2)).sum := sum_perm (hperm.map _)
    rw [h1]
    have h2 : (s.zip w).map (·.2) = w := by
      have := List.map_snd_zip (l₁ := s) (l₂ := w) (le_of_eq hv.len.symm)
      simpa using this
    rw [h2, hv.sum1]

/-- on a valid sample the executable model (ecdf, extension, sort by level, 'next' lookup) is `nextQ` on the
value-sorted focal endpoints -/
theorem model_eq_nextQ (s w : List ℚ) (hv : ValidW s w) (x : ℚ) (h0 : 0 < x) (h1 : x ≤ 1) :
    ∃ e, getEcdf s w = some e ∧ interpNext (extendEcdf e) x = nextQ (sortByFst (s.zip w)) 0 x := by
  obtain ⟨hne, hnn, hsum⟩ := sorted_zip_facts s w hv
  generalize hL : sortByFst (s.zip w) = L at hne hnn hsum
  cases L with
  | nil => exact absurd rfl hne
  | cons p0 r =>
    obtain ⟨s0, w0⟩ := p0
    refine ⟨(0, s0) :: (cumW ((s0, w0) :: r) 0).map swap, by simp only [getEcdf, hL], ?_⟩
    obtain ⟨v, hv'⟩ := lastPt_cumW ((s0, w0) :: r) 0 (by simp)
    rw [hsum] at hv'
    have hCne : (cumW ((s0, w0) :: r) 0).map swap ≠ [] := by simp [cumW]
    have hlast : lastPt ((0, s0) :: (cumW ((s0, w0) :: r) 0).map swap) = some (1, v) := by
      rw [lastPt_cons_ne _ _ hCne, hv']; simp
    have hext : extendEcdf ((0, s0) :: (cumW ((s0, w0) :: r) 0).map swap)
        = (0, s0) :: (cumW ((s0, w0) :: r) 0).map swap := by
      simp only [extendEcdf, ne_eq, not_true_eq_false, if_false, hlast]
    have hsorted : ((0, s0) :: (cumW ((s0, w0) :: r) 0).map swap).Pairwise (fun a b => a.1 ≤ b.1) := by
      rw [List.pairwise_cons]
      exact ⟨fun q hq => cumW_ge _ 0 hnn q hq, cumW_sorted _ 0 hnn⟩
    rw [hext]
    have hx0 : ¬ x ≤ 0 := not_le.mpr h0
    have hx0' : ¬ x < 0 := not_lt.mpr (le_of_lt h0)
    have hx1 : ¬ (1 : ℚ) < x := not_lt.mpr h1
    simp only [interpNext, hlast, sortByFst_of_sorted _ hsorted, hx0', hx1, if_false, firstGE, hx0]
    exact firstGE_cumW _ _ _

/-- ★ the bound computed by the model at a level `0 < x ≤ 1` is the generalised inverse of the cumulated mass
of the listed endpoints -/
theorem model_geninv (s w : List ℚ) (hv : ValidW s w) (x : ℚ) (h0 : 0 < x) (h1 : x ≤ 1) :
    ∃ e v, getEcdf s w = some e ∧ interpNext (extendEcdf e) x = some v ∧ IsGenInv (massLE (s.zip w)) x v := by
  obtain ⟨e, he, hq⟩ := model_eq_nextQ s w hv x h0 h1
  obtain ⟨hne, hnn, hsum⟩ := sorted_zip_facts s w hv
  obtain ⟨v, hv'⟩ := nextQ_total (sortByFst (s.zip w)) 0 x (by rw [hsum]; linarith) hne
  refine ⟨e, v, he, hq.trans hv', ?_⟩
  obtain ⟨g1, g2⟩ := nextQ_is_geninv _ (sortByFst_sorted _) hnn 0 x v h0 hv'
  have hp : ∀ t, massLE (sortByFst (s.zip w)) t = massLE (s.zip w) t := fun t => massLE_perm (sortByFst_perm _) t
  constructor
  · rw [← hp]; linarith
  · intro t ht; rw [← hp]; have := g2 t ht; linarith

end Pun.Grid
