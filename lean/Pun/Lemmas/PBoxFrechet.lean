import Pun.Lemmas.PBoxList
set_option linter.unusedSimpArgs false
set_option linter.unusedVariables false
namespace Pun.PBox
open Pun Finset

theorem frechetLeftRaw_length (op : Rat → Rat → Rat) (a b : List Rat) :
    (frechetLeftRaw op a b).length = a.length := by simp [frechetLeftRaw]

theorem frechetRightRaw_length (op : Rat → Rat → Rat) (a b : List Rat) :
    (frechetRightRaw op a b).length = a.length := by simp [frechetRightRaw]

/-- `left[i]` dominates its anti-diagonal `{op a[j] b[i-j] | j ≤ i}` and is attained on it -/
theorem frechetLeftRaw_spec (op : Rat → Rat → Rat) (a b : List Rat) (hlen : a.length = b.length)
    (i : Nat) (hi : i < a.length) :
    ∃ v, (frechetLeftRaw op a b)[i]? = some v ∧
      (∀ j (hj : j ≤ i), op (a[j]'(by omega)) (b[i - j]'(by omega)) ≤ v) ∧
      (∃ j, ∃ hj : j ≤ i, v = op (a[j]'(by omega)) (b[i - j]'(by omega))) := by
  have hi' : i < b.length := by omega
  set L := List.zipWith op (a.take (i + 1)) ((b.take (i + 1)).reverse) with hL
  have hLlen : L.length = i + 1 := by simp [hL]; omega
  have hne : L ≠ [] := by intro h; rw [h] at hLlen; simp at hLlen
  obtain ⟨hmem, hub⟩ := maxL_spec 0 L hne
  refine ⟨maxL 0 L, ?_, ?_, ?_⟩
  · simp [frechetLeftRaw, hi, hL]
  · intro j hj
    apply hub
    have := antidiag_getElem? op a b i j hi hi' hj
    exact List.mem_of_getElem? this
  · obtain ⟨j, hjlt, hj⟩ := List.getElem_of_mem hmem
    have hj' : j ≤ i := by omega
    refine ⟨j, hj', ?_⟩
    have h1 := antidiag_getElem? op a b i j hi hi' hj'
    have h2 : L[j]? = some L[j] := List.getElem?_eq_getElem hjlt
    rw [← hL] at h1
    rw [h2] at h1
    rw [← hj]; exact Option.some.inj h1


/-- monotone index function of a sorted list -/
theorem sorted_getElem_mono (a : List Rat) (sa : a.Pairwise (· ≤ ·)) (n : Nat) (ha : a.length = n) :
    Monotone (fun m : Fin n => a[m.val]'(by omega)) := by
  intro p q hpq
  rcases Nat.lt_or_ge p.val q.val with h | h
  · exact (List.pairwise_iff_getElem.mp sa) p.val q.val (by omega) (by omega) h
  · have : p = q := le_antisymm hpq (Fin.le_def.mpr h)
    subst this; exact le_refl _

/-- **Frechet left validity on the model.** For `op` monotone in both arguments, sorted left bounds
`a`, `b`, any selections above them and ANY coupling `σ`, at most `i` outcomes fall strictly below
the `i`-th raw left bound. -/
theorem frechetLeft_valid (op : Rat → Rat → Rat)
    (hop : ∀ p p' q q', p ≤ p' → q ≤ q' → op p q ≤ op p' q')
    (a b : List Rat) (n : Nat) (ha : a.length = n) (hb : b.length = n)
    (sa : a.Pairwise (· ≤ ·)) (sb : b.Pairwise (· ≤ ·))
    (x y : Fin n → Rat) (hx : ∀ m : Fin n, a[m.val]'(by omega) ≤ x m)
    (hy : ∀ m : Fin n, b[m.val]'(by omega) ≤ y m)
    (σ : Equiv.Perm (Fin n)) (i : Fin n) (v : Rat)
    (hv : (frechetLeftRaw op a b)[i.val]? = some v) :
    (univ.filter (fun m : Fin n => op (x m) (y (σ m)) < v)).card ≤ i.val := by
  obtain ⟨v', hv', -, j, hj, hatt⟩ := frechetLeftRaw_spec op a b (by omega) i.val (by omega)
  rw [hv] at hv'
  have hvv : v = v' := Option.some.inj hv'
  subst hvv
  have key := Frechet.frechet_left_valid op hop (fun m : Fin n => a[m.val]'(by omega))
    (fun m : Fin n => b[m.val]'(by omega)) x y (sorted_getElem_mono a sa n ha)
    (sorted_getElem_mono b sb n hb) hx hy σ ⟨j, by omega⟩ ⟨i.val - j, by omega⟩
  simp only at key
  rw [hatt]
  calc _ ≤ j + (i.val - j) := key
    _ = i.val := by omega

/-- the raw left bound is already non-decreasing, so the final `sort` is the identity -/
theorem frechetLeftRaw_sorted (op : Rat → Rat → Rat)
    (hop : ∀ p p' q q', p ≤ p' → q ≤ q' → op p q ≤ op p' q')
    (a b : List Rat) (hlen : a.length = b.length) (sb : b.Pairwise (· ≤ ·)) :
    (frechetLeftRaw op a b).Pairwise (· ≤ ·) := by
  rw [List.pairwise_iff_getElem]
  intro i k hi hk hik
  rw [frechetLeftRaw_length] at hi hk
  obtain ⟨v, hv, -, j, hj, hatt⟩ := frechetLeftRaw_spec op a b hlen i hi
  obtain ⟨w, hw, hub, -⟩ := frechetLeftRaw_spec op a b hlen k hk
  have e1 : (frechetLeftRaw op a b)[i] = v := by
    have := List.getElem?_eq_getElem (l := frechetLeftRaw op a b) (i := i) (by rw [frechetLeftRaw_length]; exact hi)
    rw [this] at hv; exact Option.some.inj hv
  have e2 : (frechetLeftRaw op a b)[k] = w := by
    have := List.getElem?_eq_getElem (l := frechetLeftRaw op a b) (i := k) (by rw [frechetLeftRaw_length]; exact hk)
    rw [this] at hw; exact Option.some.inj hw
  rw [e1, e2, hatt]
  refine le_trans ?_ (hub j (by omega))
  apply hop _ _ _ _ (le_refl _)
  rcases Nat.lt_or_ge (i - j) (k - j) with h | h
  · exact (List.pairwise_iff_getElem.mp sb) (i - j) (k - j) (by omega) (by omega) h
  · have : i - j = k - j := by omega
    simp [this]

theorem sortR_of_sorted (l : List Rat) (h : l.Pairwise (· ≤ ·)) : sortR l = l := by
  unfold sortR
  apply List.mergeSort_of_pairwise
  exact h.imp (fun hab => by simpa using hab)


/-- entry `t` of the anti-diagonal list used for `right[i]` -/
theorem antidiagR_getElem? (op : Rat → Rat → Rat) (A B : List Rat) (n i t : Nat)
    (hA : A.length = n) (hB : B.length = n) (hi : i < n) (ht : t < n - i) :
    (List.zipWith op (A.drop i) ((B.drop i).reverse))[t]? =
      some (op (A[i + t]'(by omega)) (B[n - 1 - t]'(by omega))) := by
  rw [List.getElem?_zipWith]
  have h1 : (A.drop i)[t]? = some (A[i + t]'(by omega)) := by
    rw [List.getElem?_drop]; exact List.getElem?_eq_getElem (by omega)
  have hlen : (B.drop i).length = n - i := by simp [hB]
  have h2 : ((B.drop i).reverse)[t]? = some (B[n - 1 - t]'(by omega)) := by
    rw [List.getElem?_reverse (by rw [hlen]; omega), hlen, List.getElem?_drop]
    have : i + (n - i - 1 - t) = n - 1 - t := by omega
    rw [this]; exact List.getElem?_eq_getElem (by omega)
  rw [h1, h2]

/-- `right[i]` is dominated by its anti-diagonal `{op A[j] B[n-1+i-j] | i ≤ j < n}` and attained on it -/
theorem frechetRightRaw_spec (op : Rat → Rat → Rat) (A B : List Rat) (n : Nat)
    (hA : A.length = n) (hB : B.length = n) (i : Nat) (hi : i < n) :
    ∃ v, (frechetRightRaw op A B)[i]? = some v ∧
      (∀ t (ht : t < n - i), v ≤ op (A[i + t]'(by omega)) (B[n - 1 - t]'(by omega))) ∧
      (∃ t, ∃ ht : t < n - i, v = op (A[i + t]'(by omega)) (B[n - 1 - t]'(by omega))) := by
  set L := List.zipWith op (A.drop i) ((B.drop i).reverse) with hL
  have hLlen : L.length = n - i := by simp [hL, hA, hB]
  have hne : L ≠ [] := by intro h; rw [h] at hLlen; simp at hLlen; omega
  obtain ⟨hmem, hlb⟩ := minL_spec 0 L hne
  refine ⟨minL 0 L, ?_, ?_, ?_⟩
  · simp [frechetRightRaw, hA, hi, hL]
  · intro t ht
    apply hlb
    exact List.mem_of_getElem? (antidiagR_getElem? op A B n i t hA hB hi ht)
  · obtain ⟨t, htlt, ht⟩ := List.getElem_of_mem hmem
    have ht' : t < n - i := by omega
    refine ⟨t, ht', ?_⟩
    have h1 := antidiagR_getElem? op A B n i t hA hB hi ht'
    have h2 : L[t]? = some L[t] := List.getElem?_eq_getElem htlt
    rw [← hL] at h1
    rw [h2] at h1
    rw [← ht]; exact Option.some.inj h1

/-- **Frechet right validity on the model.** At most `n-1-i` outcomes exceed the `i`-th raw right
bound, for any selections below the sorted right bounds and ANY coupling. -/
theorem frechetRight_valid (op : Rat → Rat → Rat)
    (hop : ∀ p p' q q', p ≤ p' → q ≤ q' → op p q ≤ op p' q')
    (A B : List Rat) (n : Nat) (hA : A.length = n) (hB : B.length = n)
    (sA : A.Pairwise (· ≤ ·)) (sB : B.Pairwise (· ≤ ·))
    (x y : Fin n → Rat) (hx : ∀ m : Fin n, x m ≤ A[m.val]'(by omega))
    (hy : ∀ m : Fin n, y m ≤ B[m.val]'(by omega))
    (σ : Equiv.Perm (Fin n)) (i : Fin n) (v : Rat)
    (hv : (frechetRightRaw op A B)[i.val]? = some v) :
    (univ.filter (fun m : Fin n => v < op (x m) (y (σ m)))).card ≤ n - 1 - i.val := by
  obtain ⟨v', hv', -, t, ht, hatt⟩ := frechetRightRaw_spec op A B n hA hB i.val i.isLt
  rw [hv] at hv'
  have hvv : v = v' := Option.some.inj hv'
  subst hvv
  have key := Frechet.frechet_right_valid op hop (fun m : Fin n => A[m.val]'(by omega))
    (fun m : Fin n => B[m.val]'(by omega)) x y (sorted_getElem_mono A sA n hA)
    (sorted_getElem_mono B sB n hB) hx hy σ ⟨i.val + t, by omega⟩ ⟨n - 1 - t, by omega⟩
  simp only at key
  rw [hatt]
  calc _ ≤ (n - 1 - (i.val + t)) + (n - 1 - (n - 1 - t)) := key
    _ = n - 1 - i.val := by omega

/-- the raw right bound is already non-decreasing -/
theorem frechetRightRaw_sorted (op : Rat → Rat → Rat)
    (hop : ∀ p p' q q', p ≤ p' → q ≤ q' → op p q ≤ op p' q')
    (A B : List Rat) (hlen : A.length = B.length) (sA : A.Pairwise (· ≤ ·)) :
    (frechetRightRaw op A B).Pairwise (· ≤ ·) := by
  rw [List.pairwise_iff_getElem]
  intro i k hi hk hik
  rw [frechetRightRaw_length] at hi hk
  obtain ⟨v, hv, hlb, -⟩ := frechetRightRaw_spec op A B A.length rfl hlen.symm i hi
  obtain ⟨w, hw, -, t, ht, hatt⟩ := frechetRightRaw_spec op A B A.length rfl hlen.symm k hk
  have e1 : (frechetRightRaw op A B)[i] = v := by
    have := List.getElem?_eq_getElem (l := frechetRightRaw op A B) (i := i) (by rw [frechetRightRaw_length]; exact hi)
    rw [this] at hv; exact Option.some.inj hv
  have e2 : (frechetRightRaw op A B)[k] = w := by
    have := List.getElem?_eq_getElem (l := frechetRightRaw op A B) (i := k) (by rw [frechetRightRaw_length]; exact hk)
    rw [this] at hw; exact Option.some.inj hw
  rw [e1, e2, hatt]
  refine le_trans (hlb t (by omega)) ?_
  apply hop _ _ _ _ _ (le_refl _)
  exact (List.pairwise_iff_getElem.mp sA) (i + t) (k + t) (by omega) (by omega) (by omega)

/-- `frechet_op` returns the raw bounds themselves: its two `sort` calls are identities on
well-formed operands with a monotone `op` -/
theorem frechetOp_eq_raw (op : Rat → Rat → Rat)
    (hop : ∀ p p' q q', p ≤ p' → q ≤ q' → op p q ≤ op p' q')
    (x y : PB) (hl : x.left.length = y.left.length) (hr : x.right.length = y.right.length)
    (syl : y.left.Pairwise (· ≤ ·)) (sxr : x.right.Pairwise (· ≤ ·)) :
    frechetOp op x y = (frechetLeftRaw op x.left y.left, frechetRightRaw op x.right y.right) := by
  unfold frechetOp
  rw [sortR_of_sorted _ (frechetLeftRaw_sorted op hop _ _ hl syl),
      sortR_of_sorted _ (frechetRightRaw_sorted op hop _ _ hr sxr)]


/-- **Frechet left bound is best possible on the model**: for every rank `i` the anti-diagonal
coupling of the bounding selections `a`, `b` makes the `i`-th smallest outcome equal to `left[i]`
(at most `i` outcomes strictly below it, at least `i+1` outcomes at or below it). -/
theorem frechetLeft_tight (op : Rat → Rat → Rat)
    (hop : ∀ p p' q q', p ≤ p' → q ≤ q' → op p q ≤ op p' q')
    (a b : List Rat) (n : Nat) (ha : a.length = n) (hb : b.length = n)
    (sa : a.Pairwise (· ≤ ·)) (sb : b.Pairwise (· ≤ ·)) (i : Fin n) (v : Rat)
    (hv : (frechetLeftRaw op a b)[i.val]? = some v) :
    ∃ σ : Equiv.Perm (Fin n),
      (univ.filter (fun m : Fin n => op (a[m.val]'(by omega)) (b[(σ m).val]'(by omega)) < v)).card ≤ i.val ∧
      i.val + 1 ≤ (univ.filter (fun m : Fin n => op (a[m.val]'(by omega)) (b[(σ m).val]'(by omega)) ≤ v)).card := by
  obtain ⟨v', hv', hub, j, hj, hatt⟩ := frechetLeftRaw_spec op a b (by omega) i.val (by omega)
  rw [hv] at hv'
  have hvv : v = v' := Option.some.inj hv'
  subst hvv
  have key := Frechet.frechet_left_tight op hop (fun m : Fin n => a[m.val]'(by omega))
    (fun m : Fin n => b[m.val]'(by omega)) (sorted_getElem_mono a sa n ha)
    (sorted_getElem_mono b sb n hb) i v
    (by
      intro j' k' hjk
      have h1 := hub j'.val (by omega)
      have : i.val - j'.val = k'.val := by omega
      simp only [this] at h1
      exact h1)
    ⟨⟨j, by omega⟩, ⟨i.val - j, by omega⟩, by simp; omega, by simp [hatt]⟩
  exact key

/-- **Frechet right bound is best possible on the model**: the dual extremal coupling of the
bounding selections `A`, `B` makes the `i`-th smallest outcome equal to `right[i]`. -/
theorem frechetRight_tight (op : Rat → Rat → Rat)
    (hop : ∀ p p' q q', p ≤ p' → q ≤ q' → op p q ≤ op p' q')
    (A B : List Rat) (n : Nat) (hA : A.length = n) (hB : B.length = n)
    (sA : A.Pairwise (· ≤ ·)) (sB : B.Pairwise (· ≤ ·)) (i : Fin n) (v : Rat)
    (hv : (frechetRightRaw op A B)[i.val]? = some v) :
    ∃ σ : Equiv.Perm (Fin n),
      (univ.filter (fun m : Fin n => v < op (A[m.val]'(by omega)) (B[(σ m).val]'(by omega)))).card ≤ n - 1 - i.val ∧
      n - i.val ≤ (univ.filter (fun m : Fin n => v ≤ op (A[m.val]'(by omega)) (B[(σ m).val]'(by omega)))).card := by
  obtain ⟨v', hv', hlb, t, ht, hatt⟩ := frechetRightRaw_spec op A B n hA hB i.val i.isLt
  rw [hv] at hv'
  have hvv : v = v' := Option.some.inj hv'
  subst hvv
  have key := Frechet.frechet_right_tight op hop (fun m : Fin n => A[m.val]'(by omega))
    (fun m : Fin n => B[m.val]'(by omega)) (sorted_getElem_mono A sA n hA)
    (sorted_getElem_mono B sB n hB) i v
    (by
      intro j' k' hjk
      have hj' := j'.isLt; have hk' := k'.isLt
      have h1 := hlb (j'.val - i.val) (by omega)
      have e1 : i.val + (j'.val - i.val) = j'.val := by omega
      have e2 : n - 1 - (j'.val - i.val) = k'.val := by omega
      simp only [e1, e2] at h1
      exact h1)
    ⟨⟨i.val + t, by omega⟩, ⟨n - 1 - t, by omega⟩, by simp; omega, by simp [hatt]⟩
  exact key

/-! ### the two monotone operations the library feeds to `frechet_op` -/

theorem add_mono2 : ∀ p p' q q' : Rat, p ≤ p' → q ≤ q' → p + q ≤ p' + q' :=
  fun _ _ _ _ h1 h2 => add_le_add h1 h2

/-- multiplication clamped to the non-negative quadrant: monotone everywhere, equal to `*` on `≥ 0` -/
def mulPos (p q : Rat) : Rat := max p 0 * max q 0

theorem mulPos_mono2 : ∀ p p' q q' : Rat, p ≤ p' → q ≤ q' → mulPos p q ≤ mulPos p' q' := by
  intro p p' q q' h1 h2
  unfold mulPos
  exact mul_le_mul (max_le_max h1 (le_refl _)) (max_le_max h2 (le_refl _)) (le_max_right _ _)
    (le_max_right _ _)

theorem mulPos_eq (p q : Rat) (hp : 0 ≤ p) (hq : 0 ≤ q) : mulPos p q = p * q := by
  simp [mulPos, max_eq_left hp, max_eq_left hq]

theorem zipWith_congr_mem (f g : Rat → Rat → Rat) (l1 l2 : List Rat)
    (h : ∀ x ∈ l1, ∀ y ∈ l2, f x y = g x y) : List.zipWith f l1 l2 = List.zipWith g l1 l2 := by
  induction l1 generalizing l2 with
  | nil => simp
  | cons a t ih =>
    cases l2 with
    | nil => simp
    | cons b u =>
      simp only [List.zipWith_cons_cons]
      rw [h a (by simp) b (by simp), ih u (fun x hx y hy => h x (by simp [hx]) y (by simp [hy]))]

/-- on non-negative bound lists the product rule is the clamped (monotone) one -/
theorem frechetLeftRaw_mul_eq (a b : List Rat) (ha : ∀ x ∈ a, 0 ≤ x) (hb : ∀ x ∈ b, 0 ≤ x) :
    frechetLeftRaw (· * ·) a b = frechetLeftRaw mulPos a b := by
  unfold frechetLeftRaw
  apply List.map_congr_left
  intro i _
  congr 1
  apply zipWith_congr_mem
  intro x hx y hy
  rw [mulPos_eq x y (ha x (List.mem_of_mem_take hx)) (hb y (List.mem_of_mem_take (List.mem_reverse.mp hy)))]

theorem frechetRightRaw_mul_eq (a b : List Rat) (ha : ∀ x ∈ a, 0 ≤ x) (hb : ∀ x ∈ b, 0 ≤ x) :
    frechetRightRaw (· * ·) a b = frechetRightRaw mulPos a b := by
  unfold frechetRightRaw
  apply List.map_congr_left
  intro i _
  congr 1
  apply zipWith_congr_mem
  intro x hx y hy
  rw [mulPos_eq x y (ha x (List.mem_of_mem_drop hx)) (hb y (List.mem_of_mem_drop (List.mem_reverse.mp hy)))]

end Pun.PBox
