import Pun.Model.Arith
import Mathlib.Tactic.Linarith
import Mathlib.Tactic.Positivity
import Mathlib.Tactic.FieldSimp
import Mathlib.Algebra.Order.Field.Rat
import Mathlib.Algebra.Order.Field.Basic
import Mathlib.Order.Lattice
/-! helper lemmas for the corner hull (`min4`/`max4`) and signed division -/
namespace Pun.Arith

theorem min4_eq {p q r s l : Rat} (hmem : l = p ∨ l = q ∨ l = r ∨ l = s)
    (h1 : l ≤ p) (h2 : l ≤ q) (h3 : l ≤ r) (h4 : l ≤ s) : min4 p q r s = l := by
  unfold min4
  apply le_antisymm
  · rcases hmem with h | h | h | h <;> subst h <;> simp
  · simp [*]

theorem max4_eq {p q r s l : Rat} (hmem : l = p ∨ l = q ∨ l = r ∨ l = s)
    (h1 : p ≤ l) (h2 : q ≤ l) (h3 : r ≤ l) (h4 : s ≤ l) : max4 p q r s = l := by
  unfold max4
  apply le_antisymm
  · simp [*]
  · rcases hmem with h | h | h | h <;> subst h <;> simp

theorem div_le_div_iff_neg {p q r t : Rat} (hq : q < 0) (ht : t < 0) : p / q ≤ r / t ↔ p * t ≤ r * q := by
  have h1 : p / q = (-p) / (-q) := by rw [neg_div_neg_eq]
  have h2 : r / t = (-r) / (-t) := by rw [neg_div_neg_eq]
  rw [h1, h2, div_le_div_iff₀ (by linarith) (by linarith)]
  constructor <;> intro h <;> nlinarith

theorem mul_hull (a b c d x y : Rat) (hx1 : a ≤ x) (hx2 : x ≤ b) (hy1 : c ≤ y) (hy2 : y ≤ d) :
    min4 (a*c) (a*d) (b*c) (b*d) ≤ x*y ∧ x*y ≤ max4 (a*c) (a*d) (b*c) (b*d) := by
  unfold min4 max4
  simp only [min_le_iff, le_max_iff]
  constructor
  · rcases le_total 0 y with h | h
    · rcases le_total 0 a with h' | h'
      · left; left; nlinarith
      · left; right; nlinarith
    · rcases le_total 0 b with h' | h'
      · right; left; nlinarith
      · right; right; nlinarith
  · rcases le_total 0 y with h | h
    · rcases le_total 0 b with h' | h'
      · right; right; nlinarith
      · right; left; nlinarith
    · rcases le_total 0 a with h' | h'
      · left; right; nlinarith
      · left; left; nlinarith

end Pun.Arith
