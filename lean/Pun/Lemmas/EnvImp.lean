import Pun.Model.EnvImp
import Mathlib.Data.List.Sort
import Mathlib.Algebra.Order.Field.Rat
set_option linter.unusedSimpArgs false
set_option linter.unusedVariables false
namespace Pun.EnvImp
open Pun Pun.PBox

end Pun.EnvImp
