import Pun.Model.EnvImp
import Mathlib.Data.List.Sort
import Mathlib.Data.List.Forall2
import Mathlib.Data.List.Perm.Basic
import Mathlib.Algebra.Order.Field.Rat
set_option linter.unusedSimpArgs false
set_option linter.unusedVariables false
namespace Pun.EnvImp
open Pun Pun.PBox

/-- pointwise order on bound lists (same length, entry by entry) -/
abbrev PLe (a b : List Rat) : Prop := List.Forall₂ (· ≤ ·) a b

theorem PLe.rfl (a : List Rat) : PLe a a := by
  induction a with
  | nil => exact .nil
  | cons x t ih => exact .cons (le_refl x) ih

theorem PLe.trans {a b c : List Rat} (h1 : PLe a b) (h2 : PLe b c) : PLe a c := by
  induction h1 generalizing c with
  | nil => cases h2; exact .nil
  | cons hab _ ih =>
    cases h2 with
    | cons hbc htl => exact .cons (le_trans hab hbc) (ih htl)

theorem PLe.antisymm {a b : List Rat} (h1 : PLe a b) (h2 : PLe b a) : a = b := by
  induction h1 with
  | nil => rfl
  | cons hab _ ih =>
    cases h2 with
    | cons hba htl => rw [le_antisymm hab hba, ih htl]

theorem zipWith_min_le_left (a b : List Rat) (h : a.length = b.length) : PLe (List.zipWith min a b) a := by
  induction a generalizing b with
  | nil => simp
  | cons x t ih =>
    cases b with
    | nil => simp at h
    | cons y u => exact .cons (min_le_left x y) (ih u (by simpa using h))

theorem zipWith_min_le_right (a b : List Rat) (h : a.length = b.length) : PLe (List.zipWith min a b) b := by
  induction a generalizing b with
  | nil => cases b with
    | nil => simp
    | cons _ _ => simp at h
  | cons x t ih =>
    cases b with
    | nil => simp at h
    | cons y u => exact .cons (min_le_right x y) (ih u (by simpa using h))

theorem le_zipWith_min {c a b : List Rat} (h1 : PLe c a) (h2 : PLe c b) : PLe c (List.zipWith min a b) := by
  induction h1 generalizing b with
  | nil => cases h2; exact .nil
  | cons hca _ ih =>
    cases h2 with
    | cons hcb htl => exact .cons (le_min hca hcb) (ih htl)

theorem left_le_zipWith_max (a b : List Rat) (h : a.length = b.length) : PLe a (List.zipWith max a b) := by
  induction a generalizing b with
  | nil => simp
  | cons x t ih =>
    cases b with
    | nil => simp at h
    | cons y u => exact .cons (le_max_left x y) (ih u (by simpa using h))

theorem right_le_zipWith_max (a b : List Rat) (h : a.length = b.length) : PLe b (List.zipWith max a b) := by
  induction a generalizing b with
  | nil => cases b with
    | nil => simp
    | cons _ _ => simp at h
  | cons x t ih =>
    cases b with
    | nil => simp at h
    | cons y u => exact .cons (le_max_right x y) (ih u (by simpa using h))

theorem zipWith_max_le {a b c : List Rat} (h1 : PLe a c) (h2 : PLe b c) : PLe (List.zipWith max a b) c := by
  induction h1 generalizing b with
  | nil => cases h2; exact .nil
  | cons hac _ ih =>
    cases h2 with
    | cons hbc htl => exact .cons (max_le hac hbc) (ih htl)

theorem zipWith_min_sorted (a b : List Rat) (sa : a.Pairwise (· ≤ ·)) (sb : b.Pairwise (· ≤ ·)) :
    (List.zipWith min a b).Pairwise (· ≤ ·) := by
  rw [List.pairwise_iff_getElem]
  intro i j hi hj hij
  simp only [List.length_zipWith, lt_min_iff] at hi hj
  simp only [List.getElem_zipWith]
  exact min_le_min ((List.pairwise_iff_getElem.mp sa) i j hi.1 hj.1 hij)
    ((List.pairwise_iff_getElem.mp sb) i j hi.2 hj.2 hij)

theorem zipWith_max_sorted (a b : List Rat) (sa : a.Pairwise (· ≤ ·)) (sb : b.Pairwise (· ≤ ·)) :
    (List.zipWith max a b).Pairwise (· ≤ ·) := by
  rw [List.pairwise_iff_getElem]
  intro i j hi hj hij
  simp only [List.length_zipWith, lt_min_iff] at hi hj
  simp only [List.getElem_zipWith]
  exact max_le_max ((List.pairwise_iff_getElem.mp sa) i j hi.1 hj.1 hij)
    ((List.pairwise_iff_getElem.mp sb) i j hi.2 hj.2 hij)

theorem zipWith_min_self (a : List Rat) : List.zipWith min a a = a := by
  induction a with
  | nil => rfl
  | cons x t ih => simp [ih]

theorem zipWith_max_self (a : List Rat) : List.zipWith max a a = a := by
  induction a with
  | nil => rfl
  | cons x t ih => simp [ih]

/-! ## the constructor accepts well-formed bounds unchanged -/

theorem isIncreasing_of_sorted (l : List Rat) (h : l.Pairwise (· ≤ ·)) : isIncreasing l = true := by
  induction l with
  | nil => rfl
  | cons a t ih =>
    cases t with
    | nil => rfl
    | cons b u =>
      rw [List.pairwise_cons] at h
      simp only [isIncreasing, Bool.and_eq_true, decide_eq_true_eq]
      exact ⟨h.1 b (by simp), ih h.2⟩

theorem allGe_eq {l r : List Rat} (hle : PLe l r) (hge : allGe l r = true) : l = r := by
  induction hle with
  | nil => rfl
  | @cons a b ta tb hab _ ih =>
    simp only [allGe, List.zip_cons_cons, List.all_cons, Bool.and_eq_true, decide_eq_true_eq] at hge
    rw [le_antisymm hab hge.1, ih (by simpa [allGe] using hge.2)]

theorem lexGe_eq {l r : List Rat} (hle : PLe l r) (hge : lexGe l r = true) : l = r := by
  induction hle with
  | nil => rfl
  | @cons a b ta tb hab _ ih =>
    unfold lexGe at hge
    have h1 : ¬ a > b := not_lt.mpr hab
    simp only [h1, if_false] at hge
    by_cases h2 : a < b
    · simp [h2] at hge
    · simp only [h2, if_false] at hge
      rw [le_antisymm hab (not_lt.mp h2), ih hge]

/-- pointwise `l ≤ r`: the crossing test of the constructor does not fire -/
theorem no_cross_of_PLe {l r : List Rat} (h : PLe l r) :
    (l.zip r).any (fun p => decide (p.1 > p.2)) = false := by
  induction h with
  | nil => simp
  | @cons a b s t hab _ ih =>
    simp only [List.zip_cons_cons, List.any_cons, Bool.or_eq_false_iff, decide_eq_false_iff_not, not_lt]
    exact ⟨hab, ih⟩

theorem mk_ok (n : Nat) (lists : Bool) (l r : List Rat) (hl : l.length = n) (hr : r.length = n)
    (sl : l.Pairwise (· ≤ ·)) (sr : r.Pairwise (· ≤ ·)) (hle : PLe l r) :
    mk n lists l r = .ok ⟨l, r⟩ := by
  have hlen : l.length = r.length := by omega
  have il := isIncreasing_of_sorted l sl
  have ir := isIncreasing_of_sorted r sr
  have nc := no_cross_of_PLe hle
  cases lists with
  | true =>
    by_cases hge : lexGe l r = true
    · have e := lexGe_eq hle hge
      subst e
      simp [mk, hge, boundSteps, hl, il, nc, bind, Except.bind]
    · simp [mk, hge, boundSteps, hl, hr, il, ir, nc, bind, Except.bind]
  | false =>
    by_cases hge : allGe l r = true
    · have e := allGe_eq hle hge
      subst e
      simp [mk, hge, boundSteps, hl, il, nc, bind, Except.bind]
    · simp [mk, hlen, hge, boundSteps, hl, hr, il, ir, nc, bind, Except.bind]

/-- well-formed p-box with `n` steps: both bounds sorted, `left ≤ right` at every step -/
structure WF (n : Nat) (p : PB) : Prop where
  llen : p.left.length = n
  rlen : p.right.length = n
  lsorted : p.left.Pairwise (· ≤ ·)
  rsorted : p.right.Pairwise (· ≤ ·)
  le : PLe p.left p.right

/-- `Sub P Q` : `Q` contains `P` (`P ⊑ Q`): `Q.left ≤ P.left` and `P.right ≤ Q.right` at every step -/
def Sub (P Q : PB) : Prop := PLe Q.left P.left ∧ PLe P.right Q.right

theorem Sub.rfl (P : PB) : Sub P P := ⟨PLe.rfl _, PLe.rfl _⟩
theorem Sub.trans {P Q R : PB} (h1 : Sub P Q) (h2 : Sub Q R) : Sub P R :=
  ⟨PLe.trans h2.1 h1.1, PLe.trans h1.2 h2.2⟩
theorem Sub.antisymm {P Q : PB} (h1 : Sub P Q) (h2 : Sub Q P) : P = Q := by
  cases P; cases Q
  simp only [Sub] at h1 h2
  rw [PLe.antisymm h2.1 h1.1, PLe.antisymm h1.2 h2.2]

/-- a selection: one value per step, inside the step -/
def Sel (P : PB) (z : List Rat) : Prop := PLe P.left z ∧ PLe z P.right

/-- pointwise minimum of the left bounds, maximum of the right bounds -/
def envSpec (X Y : PB) : PB := ⟨List.zipWith min X.left Y.left, List.zipWith max X.right Y.right⟩
/-- pointwise maximum of the left bounds, minimum of the right bounds -/
def impSpec (X Y : PB) : PB := ⟨List.zipWith max X.left Y.left, List.zipWith min X.right Y.right⟩
/-- every step of `X` meets the same step of `Y` -/
def Compat (X Y : PB) : Prop := PLe (List.zipWith max X.left Y.left) (List.zipWith min X.right Y.right)

theorem envSpec_wf {n : Nat} {X Y : PB} (hX : WF n X) (hY : WF n Y) : WF n (envSpec X Y) where
  llen := by simp [envSpec, hX.llen, hY.llen]
  rlen := by simp [envSpec, hX.rlen, hY.rlen]
  lsorted := zipWith_min_sorted _ _ hX.lsorted hY.lsorted
  rsorted := zipWith_max_sorted _ _ hX.rsorted hY.rsorted
  le := PLe.trans (zipWith_min_le_left _ _ (by rw [hX.llen, hY.llen]))
    (PLe.trans hX.le (left_le_zipWith_max _ _ (by rw [hX.rlen, hY.rlen])))

theorem env_ok {n : Nat} {X Y : PB} (hX : WF n X) (hY : WF n Y) : env n X Y = .ok (envSpec X Y) := by
  have h := envSpec_wf hX hY
  exact mk_ok n false _ _ h.llen h.rlen h.lsorted h.rsorted h.le

theorem impSpec_wf {n : Nat} {X Y : PB} (hX : WF n X) (hY : WF n Y) (hc : Compat X Y) : WF n (impSpec X Y) where
  llen := by simp [impSpec, hX.llen, hY.llen]
  rlen := by simp [impSpec, hX.rlen, hY.rlen]
  lsorted := zipWith_max_sorted _ _ hX.lsorted hY.lsorted
  rsorted := zipWith_min_sorted _ _ hX.rsorted hY.rsorted
  le := hc

theorem any_gt_false_iff (u d : List Rat) (h : u.length = d.length) :
    (u.zip d).any (fun p => decide (p.1 > p.2)) = false ↔ PLe u d := by
  induction u generalizing d with
  | nil => cases d with
    | nil => simp
    | cons _ _ => simp at h
  | cons x t ih =>
    cases d with
    | nil => simp at h
    | cons y v =>
      have := ih v (by simpa using h)
      simp only [List.zip_cons_cons, List.any_cons, Bool.or_eq_false_iff, decide_eq_false_iff_not, not_lt] at this ⊢
      rw [this]
      constructor
      · rintro ⟨h1, h2⟩; exact .cons h1 h2
      · intro h; cases h with
        | cons h1 h2 => exact ⟨h1, h2⟩

theorem imp_ok {n : Nat} {X Y : PB} (hX : WF n X) (hY : WF n Y) (hc : Compat X Y) :
    imp n X Y = .ok (impSpec X Y) := by
  have h := impSpec_wf hX hY hc
  have hlen : (List.zipWith max X.left Y.left).length = (List.zipWith min X.right Y.right).length := by
    simp [hX.llen, hY.llen, hX.rlen, hY.rlen]
  have hg := (any_gt_false_iff _ _ hlen).mpr hc
  unfold imp
  simp only [hg]
  exact mk_ok n true _ _ h.llen h.rlen h.lsorted h.rsorted h.le

theorem imp_err {n : Nat} {X Y : PB} (hX : WF n X) (hY : WF n Y) (hc : ¬ Compat X Y) :
    imp n X Y = .error .Other := by
  have hlen : (List.zipWith max X.left Y.left).length = (List.zipWith min X.right Y.right).length := by
    simp [hX.llen, hY.llen, hX.rlen, hY.rlen]
  have hg : (((List.zipWith max X.left Y.left).zip (List.zipWith min X.right Y.right)).any
      (fun p => decide (p.1 > p.2))) = true := by
    by_contra hh
    exact hc ((any_gt_false_iff _ _ hlen).mp (by simpa using hh))
  unfold imp
  simp only [hg, if_true]

/-- the steps meet pairwise iff there is a common selection; then there is a sorted one -/
theorem compat_iff_common {n : Nat} {X Y : PB} (hX : WF n X) (hY : WF n Y) :
    Compat X Y ↔ ∃ z, Sel X z ∧ Sel Y z := by
  constructor
  · intro hc
    refine ⟨List.zipWith max X.left Y.left, ⟨left_le_zipWith_max _ _ (by rw [hX.llen, hY.llen]), ?_⟩,
      ⟨right_le_zipWith_max _ _ (by rw [hX.llen, hY.llen]), ?_⟩⟩
    · exact PLe.trans hc (zipWith_min_le_left _ _ (by rw [hX.rlen, hY.rlen]))
    · exact PLe.trans hc (zipWith_min_le_right _ _ (by rw [hX.rlen, hY.rlen]))
  · rintro ⟨z, ⟨h1, h2⟩, ⟨h3, h4⟩⟩
    exact PLe.trans (zipWith_max_le h1 h3) (le_zipWith_min h2 h4)

theorem sub_envSpec_left {n : Nat} {X Y : PB} (hX : WF n X) (hY : WF n Y) : Sub X (envSpec X Y) :=
  ⟨zipWith_min_le_left _ _ (by rw [hX.llen, hY.llen]), left_le_zipWith_max _ _ (by rw [hX.rlen, hY.rlen])⟩
theorem sub_envSpec_right {n : Nat} {X Y : PB} (hX : WF n X) (hY : WF n Y) : Sub Y (envSpec X Y) :=
  ⟨zipWith_min_le_right _ _ (by rw [hX.llen, hY.llen]), right_le_zipWith_max _ _ (by rw [hX.rlen, hY.rlen])⟩
theorem envSpec_sub {X Y Q : PB} (h1 : Sub X Q) (h2 : Sub Y Q) : Sub (envSpec X Y) Q :=
  ⟨le_zipWith_min h1.1 h2.1, zipWith_max_le h1.2 h2.2⟩
theorem impSpec_sub_left {n : Nat} {X Y : PB} (hX : WF n X) (hY : WF n Y) : Sub (impSpec X Y) X :=
  ⟨left_le_zipWith_max _ _ (by rw [hX.llen, hY.llen]), zipWith_min_le_left _ _ (by rw [hX.rlen, hY.rlen])⟩
theorem impSpec_sub_right {n : Nat} {X Y : PB} (hX : WF n X) (hY : WF n Y) : Sub (impSpec X Y) Y :=
  ⟨right_le_zipWith_max _ _ (by rw [hX.llen, hY.llen]), zipWith_min_le_right _ _ (by rw [hX.rlen, hY.rlen])⟩
theorem sub_impSpec {X Y Q : PB} (h1 : Sub Q X) (h2 : Sub Q Y) : Sub Q (impSpec X Y) :=
  ⟨zipWith_max_le h1.1 h2.1, le_zipWith_min h1.2 h2.2⟩

/-- a selection of a box inside both operands is a common selection -/
theorem sel_of_sub {P Q : PB} {z : List Rat} (h : Sub P Q) (hz : Sel P z) : Sel Q z :=
  ⟨PLe.trans h.1 hz.1, PLe.trans hz.2 h.2⟩

theorem sel_impSpec {X Y : PB} {z : List Rat} (h1 : Sel X z) (h2 : Sel Y z) : Sel (impSpec X Y) z :=
  ⟨zipWith_max_le h1.1 h2.1, le_zipWith_min h1.2 h2.2⟩

/-! ## folds -/

theorem foldlM_env_eq {n : Nat} (ps : List PB) (p : PB) (hp : WF n p) (hps : ∀ P ∈ ps, WF n P) :
    ps.foldlM (env n) p = .ok (ps.foldl envSpec p) ∧ WF n (ps.foldl envSpec p) := by
  induction ps generalizing p with
  | nil => exact ⟨rfl, hp⟩
  | cons q qs ih =>
    have hq := hps q (by simp)
    have h := ih (envSpec p q) (envSpec_wf hp hq) (fun P hP => hps P (by simp [hP]))
    simp only [List.foldlM_cons, List.foldl_cons, env_ok hp hq]
    exact h

/-- the fold of `env` over a non-empty family of well-formed boxes is their least upper bound -/
theorem foldl_envSpec_lub {n : Nat} (ps : List PB) (p : PB) (hp : WF n p) (hps : ∀ P ∈ ps, WF n P) :
    (∀ P ∈ p :: ps, Sub P (ps.foldl envSpec p)) ∧
    (∀ Q, (∀ P ∈ p :: ps, Sub P Q) → Sub (ps.foldl envSpec p) Q) := by
  induction ps generalizing p with
  | nil =>
    refine ⟨fun P hP => ?_, fun Q hQ => hQ p (by simp)⟩
    simp at hP; subst hP; exact Sub.rfl _
  | cons q qs ih =>
    have hq := hps q (by simp)
    obtain ⟨h1, h2⟩ := ih (envSpec p q) (envSpec_wf hp hq) (fun P hP => hps P (by simp [hP]))
    simp only [List.foldl_cons]
    constructor
    · intro P hP
      rcases List.mem_cons.mp hP with rfl | hP
      · exact Sub.trans (sub_envSpec_left hp hq) (h1 _ (by simp))
      · rcases List.mem_cons.mp hP with rfl | hP
        · exact Sub.trans (sub_envSpec_right hp hq) (h1 _ (by simp))
        · exact h1 _ (by simp [hP])
    · intro Q hQ
      apply h2
      intro P hP
      rcases List.mem_cons.mp hP with rfl | hP
      · exact envSpec_sub (hQ _ (by simp)) (hQ _ (by simp))
      · exact hQ _ (by simp [hP])

/-- common selection of a family -/
def CommonSel (l : List PB) (z : List Rat) : Prop := ∀ P ∈ l, Sel P z

theorem foldlM_imp_ok {n : Nat} (ps : List PB) (p : PB) (hp : WF n p) (hps : ∀ P ∈ ps, WF n P)
    (z : List Rat) (hz : CommonSel (p :: ps) z) :
    ∃ E, ps.foldlM (imp n) p = .ok E ∧ WF n E ∧ Sel E z ∧ (∀ P ∈ p :: ps, Sub E P) ∧
      (∀ Q, (∀ P ∈ p :: ps, Sub Q P) → Sub Q E) ∧ E = ps.foldl impSpec p := by
  induction ps generalizing p with
  | nil =>
    refine ⟨p, rfl, hp, hz p (by simp), fun P hP => ?_, fun Q hQ => hQ p (by simp), rfl⟩
    simp at hP; subst hP; exact Sub.rfl _
  | cons q qs ih =>
    have hq := hps q (by simp)
    have hzp := hz p (by simp)
    have hzq := hz q (by simp)
    have hc : Compat p q := (compat_iff_common hp hq).mpr ⟨z, hzp, hzq⟩
    have hw := impSpec_wf hp hq hc
    obtain ⟨E, hE, hwE, hsel, h1, h2, hfold⟩ := ih (impSpec p q) hw (fun P hP => hps P (by simp [hP]))
      (by
        intro P hP
        rcases List.mem_cons.mp hP with rfl | hP
        · exact sel_impSpec hzp hzq
        · exact hz P (by simp [hP]))
    refine ⟨E, ?_, hwE, hsel, ?_, ?_, by rw [hfold, List.foldl_cons]⟩
    · simp only [List.foldlM_cons, imp_ok hp hq hc]
      exact hE
    · intro P hP
      rcases List.mem_cons.mp hP with rfl | hP
      · exact Sub.trans (h1 _ (by simp)) (impSpec_sub_left hp hq)
      · rcases List.mem_cons.mp hP with rfl | hP
        · exact Sub.trans (h1 _ (by simp)) (impSpec_sub_right hp hq)
        · exact h1 _ (by simp [hP])
    · intro Q hQ
      apply h2
      intro P hP
      rcases List.mem_cons.mp hP with rfl | hP
      · exact sub_impSpec (hQ _ (by simp)) (hQ _ (by simp))
      · exact hQ _ (by simp [hP])

theorem foldlM_imp_err {n : Nat} (ps : List PB) (p : PB) (hp : WF n p) (hps : ∀ P ∈ ps, WF n P)
    (hno : ¬ ∃ z, CommonSel (p :: ps) z) :
    ps.foldlM (imp n) p = .error .Other := by
  induction ps generalizing p with
  | nil =>
    exfalso; apply hno
    refine ⟨p.left, fun P hP => ?_⟩
    simp at hP; subst hP; exact ⟨PLe.rfl _, hp.le⟩
  | cons q qs ih =>
    have hq := hps q (by simp)
    by_cases hc : Compat p q
    · have hw := impSpec_wf hp hq hc
      simp only [List.foldlM_cons, imp_ok hp hq hc]
      apply ih (impSpec p q) hw (fun P hP => hps P (by simp [hP]))
      rintro ⟨z, hz⟩
      apply hno
      refine ⟨z, fun P hP => ?_⟩
      rcases List.mem_cons.mp hP with rfl | hP
      · exact sel_of_sub (impSpec_sub_left hp hq) (hz _ (by simp))
      · rcases List.mem_cons.mp hP with rfl | hP
        · exact sel_of_sub (impSpec_sub_right hp hq) (hz _ (by simp))
        · exact hz P (by simp [hP])
    · simp only [List.foldlM_cons, imp_err hp hq hc]
      rfl

theorem foldEnv_spec {n : Nat} (l : List PB) (hne : l ≠ []) (hl : ∀ P ∈ l, WF n P) :
    ∃ E, foldEnv n l = .ok E ∧ WF n E ∧ (∀ P ∈ l, Sub P E) ∧ (∀ Q, (∀ P ∈ l, Sub P Q) → Sub E Q) := by
  cases l with
  | nil => exact absurd rfl hne
  | cons p ps =>
    have hp := hl p (by simp)
    have hps : ∀ P ∈ ps, WF n P := fun P hP => hl P (by simp [hP])
    obtain ⟨h1, h2⟩ := foldlM_env_eq ps p hp hps
    obtain ⟨h3, h4⟩ := foldl_envSpec_lub ps p hp hps
    exact ⟨_, h1, h2, h3, h4⟩

theorem foldEnv_perm {n : Nat} {l₁ l₂ : List PB} (hp : l₁.Perm l₂) (hl : ∀ P ∈ l₁, WF n P) :
    foldEnv n l₁ = foldEnv n l₂ := by
  by_cases hne : l₁ = []
  · subst hne; rw [List.nil_perm.mp hp]
  · have hne2 : l₂ ≠ [] := fun h => hne (by subst h; exact List.perm_nil.mp hp)
    have hl2 : ∀ P ∈ l₂, WF n P := fun P hP => hl P (hp.mem_iff.mpr hP)
    obtain ⟨E₁, e1, -, u1, m1⟩ := foldEnv_spec l₁ hne hl
    obtain ⟨E₂, e2, -, u2, m2⟩ := foldEnv_spec l₂ hne2 hl2
    have : E₁ = E₂ := Sub.antisymm (m1 E₂ (fun P hP => u2 P (hp.mem_iff.mp hP)))
      (m2 E₁ (fun P hP => u1 P (hp.mem_iff.mpr hP)))
    rw [e1, e2, this]

theorem foldImp_ok {n : Nat} (l : List PB) (hne : l ≠ []) (hl : ∀ P ∈ l, WF n P)
    (z : List Rat) (hz : CommonSel l z) :
    ∃ E, foldImp n l = .ok E ∧ WF n E ∧ Sel E z ∧ (∀ P ∈ l, Sub E P) ∧
      (∀ Q, (∀ P ∈ l, Sub Q P) → Sub Q E) := by
  cases l with
  | nil => exact absurd rfl hne
  | cons p ps =>
    obtain ⟨E, h1, h2, h3, h4, h5, -⟩ :=
      foldlM_imp_ok ps p (hl p (by simp)) (fun P hP => hl P (by simp [hP])) z hz
    exact ⟨E, h1, h2, h3, h4, h5⟩

theorem foldImp_err {n : Nat} (l : List PB) (hne : l ≠ []) (hl : ∀ P ∈ l, WF n P)
    (hno : ¬ ∃ z, CommonSel l z) : foldImp n l = .error .Other := by
  cases l with
  | nil => exact absurd rfl hne
  | cons p ps => exact foldlM_imp_err ps p (hl p (by simp)) (fun P hP => hl P (by simp [hP])) hno

theorem foldImp_perm {n : Nat} {l₁ l₂ : List PB} (hp : l₁.Perm l₂) (hl : ∀ P ∈ l₁, WF n P) :
    foldImp n l₁ = foldImp n l₂ := by
  by_cases hne : l₁ = []
  · subst hne; rw [List.nil_perm.mp hp]
  · have hne2 : l₂ ≠ [] := fun h => hne (by subst h; exact List.perm_nil.mp hp)
    have hl2 : ∀ P ∈ l₂, WF n P := fun P hP => hl P (hp.mem_iff.mpr hP)
    by_cases hc : ∃ z, CommonSel l₁ z
    · obtain ⟨z, hz⟩ := hc
      have hz2 : CommonSel l₂ z := fun P hP => hz P (hp.mem_iff.mpr hP)
      obtain ⟨E₁, e1, -, -, u1, m1⟩ := foldImp_ok l₁ hne hl z hz
      obtain ⟨E₂, e2, -, -, u2, m2⟩ := foldImp_ok l₂ hne2 hl2 z hz2
      have : E₁ = E₂ := Sub.antisymm (m2 E₁ (fun P hP => u1 P (hp.mem_iff.mpr hP)))
        (m1 E₂ (fun P hP => u2 P (hp.mem_iff.mp hP)))
      rw [e1, e2, this]
    · have hc2 : ¬ ∃ z, CommonSel l₂ z := by
        rintro ⟨z, hz⟩; exact hc ⟨z, fun P hP => hz P (hp.mem_iff.mp hP)⟩
      rw [foldImp_err l₁ hne hl hc, foldImp_err l₂ hne2 hl2 hc2]

/-! ## interval hull -/

theorem hull2_ok (x y : Rat × Rat) (hx : x.1 ≤ x.2) :
    hull2 x y = .ok (min x.1 y.1, max x.2 y.2) := by
  unfold hull2
  have : min x.1 y.1 ≤ max x.2 y.2 := le_trans (min_le_left _ _) (le_trans hx (le_max_left _ _))
  simp [this]

theorem foldlM_hull_spec (xs : List (Rat × Rat)) (x : Rat × Rat) (hx : x.1 ≤ x.2) :
    ∃ a b, xs.foldlM hull2 x = .ok (a, b) ∧ a ≤ b ∧ (∀ y ∈ x :: xs, a ≤ y.1 ∧ y.2 ≤ b) ∧
      (∃ y ∈ x :: xs, y.1 = a) ∧ (∃ y ∈ x :: xs, y.2 = b) := by
  induction xs generalizing x with
  | nil => exact ⟨x.1, x.2, rfl, hx, by simp, ⟨x, by simp, rfl⟩, ⟨x, by simp, rfl⟩⟩
  | cons q qs ih =>
    have hx' : (min x.1 q.1, max x.2 q.2).1 ≤ (min x.1 q.1, max x.2 q.2).2 :=
      le_trans (min_le_left _ _) (le_trans hx (le_max_left _ _))
    obtain ⟨a, b, e, hab, hall, ⟨ya, hya, ea⟩, ⟨yb, hyb, eb⟩⟩ := ih _ hx'
    refine ⟨a, b, ?_, hab, ?_, ?_, ?_⟩
    · simp only [List.foldlM_cons, hull2_ok x q hx]; exact e
    · intro y hy
      have h0 := hall _ (List.mem_cons_self)
      simp only at h0
      rcases List.mem_cons.mp hy with rfl | hy
      · exact ⟨le_trans h0.1 (min_le_left _ _), le_trans (le_max_left _ _) h0.2⟩
      · rcases List.mem_cons.mp hy with rfl | hy
        · exact ⟨le_trans h0.1 (min_le_right _ _), le_trans (le_max_right _ _) h0.2⟩
        · exact hall y (by simp [hy])
    · rcases List.mem_cons.mp hya with rfl | h
      · simp only at ea
        rcases min_choice x.1 q.1 with hc | hc
        · exact ⟨x, by simp, by rw [← ea, hc]⟩
        · exact ⟨q, by simp, by rw [← ea, hc]⟩
      · exact ⟨ya, by simp [h], ea⟩
    · rcases List.mem_cons.mp hyb with rfl | h
      · simp only at eb
        rcases max_choice x.2 q.2 with hc | hc
        · exact ⟨x, by simp, by rw [← eb, hc]⟩
        · exact ⟨q, by simp, by rw [← eb, hc]⟩
      · exact ⟨yb, by simp [h], eb⟩

/-- the hull of a non-empty family of proper intervals: least lower end, greatest upper end, both attained -/
theorem hull_spec (l : List (Rat × Rat)) (hne : l ≠ []) (hl : ∀ y ∈ l, y.1 ≤ y.2) :
    ∃ a b, reduceM hull2 l = .ok (a, b) ∧ a ≤ b ∧ (∀ y ∈ l, a ≤ y.1 ∧ y.2 ≤ b) ∧
      (∃ y ∈ l, y.1 = a) ∧ (∃ y ∈ l, y.2 = b) := by
  cases l with
  | nil => exact absurd rfl hne
  | cons x xs => exact foldlM_hull_spec xs x (hl x (by simp))

theorem hull_perm {l₁ l₂ : List (Rat × Rat)} (hp : l₁.Perm l₂) (hl : ∀ y ∈ l₁, y.1 ≤ y.2) :
    reduceM hull2 l₁ = reduceM hull2 l₂ := by
  by_cases hne : l₁ = []
  · subst hne; rw [List.nil_perm.mp hp]
  · have hne2 : l₂ ≠ [] := fun h => hne (by subst h; exact List.perm_nil.mp hp)
    have hl2 : ∀ y ∈ l₂, y.1 ≤ y.2 := fun y hy => hl y (hp.mem_iff.mpr hy)
    obtain ⟨a₁, b₁, e1, -, u1, ⟨ya1, hya1, ea1⟩, ⟨yb1, hyb1, eb1⟩⟩ := hull_spec l₁ hne hl
    obtain ⟨a₂, b₂, e2, -, u2, ⟨ya2, hya2, ea2⟩, ⟨yb2, hyb2, eb2⟩⟩ := hull_spec l₂ hne2 hl2
    have ha : a₁ = a₂ := le_antisymm
      (by rw [← ea2]; exact (u1 ya2 (hp.mem_iff.mpr hya2)).1)
      (by rw [← ea1]; exact (u2 ya1 (hp.mem_iff.mp hya1)).1)
    have hb : b₁ = b₂ := le_antisymm
      (by rw [← eb1]; exact (u2 yb1 (hp.mem_iff.mp hyb1)).2)
      (by rw [← eb2]; exact (u1 yb2 (hp.mem_iff.mpr hyb2)).2)
    rw [e1, e2, ha, hb]

/-! ## conversion -/

/-- operands inside the quantifier of the property -/
def Valid (n : Nat) : Opnd → Prop
  | .ivl lo hi => lo ≤ hi
  | .num _ => True
  | .box p => WF n p
  | .nonfinite => False
  | .other => False

/-- the p-box a valid operand stands for (`lo` / `hi` repeated for an interval, the value repeated
for a number); only used under `Valid` -/
def conv (n : Nat) : Opnd → PB
  | .ivl lo hi => ⟨List.replicate n lo, List.replicate n hi⟩
  | .num c => ⟨List.replicate n c, List.replicate n c⟩
  | .box p => p
  | .nonfinite => ⟨[], []⟩
  | .other => ⟨[], []⟩

theorem ple_replicate (n : Nat) {a b : Rat} (h : a ≤ b) : PLe (List.replicate n a) (List.replicate n b) := by
  induction n with
  | zero => exact .nil
  | succ k ih => exact .cons h ih

theorem replicate_sorted (n : Nat) (a : Rat) : (List.replicate n a).Pairwise (· ≤ ·) := by
  rw [List.pairwise_replicate]; exact Or.inr (le_refl a)

theorem const_wf (n : Nat) {a b : Rat} (h : a ≤ b) : WF n ⟨List.replicate n a, List.replicate n b⟩ :=
  ⟨by simp, by simp, replicate_sorted n a, replicate_sorted n b, ple_replicate n h⟩

theorem ivlToPbox_ok (n : Nat) {a b : Rat} (h : a ≤ b) :
    ivlToPbox n a b = .ok ⟨List.replicate n a, List.replicate n b⟩ := by
  have w := const_wf n h
  exact mk_ok n false _ _ w.llen w.rlen w.lsorted w.rsorted w.le

theorem convert_ok {n : Nat} {x : Opnd} (hv : Valid n x) : convert n x = .ok (conv n x) ∧ WF n (conv n x) := by
  cases x with
  | ivl lo hi => exact ⟨ivlToPbox_ok n hv, const_wf n hv⟩
  | num c => exact ⟨ivlToPbox_ok n (le_refl c), const_wf n (le_refl c)⟩
  | box p => exact ⟨rfl, hv⟩
  | nonfinite => exact absurd hv id
  | other => exact absurd hv id

theorem convertAll_ok {n : Nat} (l : List Opnd) (hv : ∀ x ∈ l, Valid n x) :
    convertAll n l = .ok (l.map (conv n)) := by
  induction l with
  | nil => rfl
  | cons x xs ih =>
    have h1 := (convert_ok (hv x (by simp))).1
    have h2 := ih (fun y hy => hv y (by simp [hy]))
    simp only [convertAll, h1, h2, List.map_cons, bind, Except.bind]

theorem conv_wf {n : Nat} (l : List Opnd) (hv : ∀ x ∈ l, Valid n x) : ∀ P ∈ l.map (conv n), WF n P := by
  intro P hP
  obtain ⟨x, hx, rfl⟩ := List.mem_map.mp hP
  exact (convert_ok (hv x hx)).2

theorem all_isIvl_perm {l₁ l₂ : List Opnd} (hp : l₁.Perm l₂) : l₁.all Opnd.isIvl = l₂.all Opnd.isIvl := by
  rw [Bool.eq_iff_iff, List.all_eq_true, List.all_eq_true]
  exact ⟨fun h x hx => h x (hp.mem_iff.mpr hx), fun h x hx => h x (hp.mem_iff.mp hx)⟩

theorem mem_ivlEnds {l : List Opnd} {y : Rat × Rat} : y ∈ ivlEnds l ↔ Opnd.ivl y.1 y.2 ∈ l := by
  unfold ivlEnds
  rw [List.mem_filterMap]
  constructor
  · rintro ⟨x, hx, e⟩
    cases x <;> simp [Opnd.ends?] at e
    subst e; exact hx
  · intro h; exact ⟨_, h, rfl⟩

theorem ivlEnds_valid {n : Nat} {l : List Opnd} (hv : ∀ x ∈ l, Valid n x) : ∀ y ∈ ivlEnds l, y.1 ≤ y.2 :=
  fun y hy => hv _ (mem_ivlEnds.mp hy)

theorem ivlEnds_ne_nil {l : List Opnd} (hne : l ≠ []) (hall : l.all Opnd.isIvl = true) : ivlEnds l ≠ [] := by
  cases l with
  | nil => exact absurd rfl hne
  | cons x xs =>
    rw [List.all_eq_true] at hall
    have hx := hall x (by simp)
    cases x <;> simp [Opnd.isIvl] at hx
    simp [ivlEnds, Opnd.ends?]

end Pun.EnvImp
