import Pun.Lemmas.HierScale
/-!
# When the converted-first expression answers

On well-formed operands the sum, the difference, the perfect / opposite / independent product and
quotient always answer (reusing `Pun.Iso.add_iso`, `Pun.Iso.*_facts` of C12 and the non-negativity
lemmas of C04); the Frechet product / quotient answers when neither operand straddles zero, or when one
operand is an embedded number.  (For two zero-straddling operands the Frechet product answers iff the
imposition of the naive and the Balch bounds is not empty — their soundness is not proved here.)
-/
set_option linter.unusedSimpArgs false
set_option linter.unusedVariables false
namespace Pun.Hier
open Pun Pun.PBox

theorem wf_iso {n : Nat} {p : PB} (h : WF n p) : Pun.Iso.WF n p := ⟨h.llen, h.rlen, h.lsorted, h.rsorted, h.le⟩
theorem wf_of_iso {n : Nat} {p : PB} (h : Pun.Iso.WF n p) : WF n p := ⟨h.llen, h.rlen, h.lsorted, h.rsorted, h.valid⟩
theorem wf_c04 {n : Nat} {p : PB} (h : WF n p) : Pun.WF.WF n p := ⟨h.llen, h.rlen, h.lsorted, h.rsorted, h.le⟩
theorem wf_of_c04 {n : Nat} {p : PB} (h : Pun.WF.WF n p) : WF n p := ⟨h.llen, h.rlen, h.lsorted, h.rsorted, h.le⟩

/-! ## the converted-first expression answers -/

/-- a raw rule result with the facts of `Pun.Iso.RuleFacts` passes the constructor -/
theorem rule_total (n m : Nat) (hm : m = n ∨ n < m) (p : List Rat × List Rat) (f : Iso.RuleFacts n m p) :
    ∃ R, mk n false p.1 p.2 = .ok R ∧ WF n R := by
  obtain ⟨R, R', h1, -, -, w, -⟩ := Iso.public_of_facts n m hm f f ⟨Iso.LE.refl _, Iso.LE.refl _⟩
  exact ⟨R, h1, wf_of_iso w⟩

theorem add_total (n : Nat) (d : Dep) (hd : d ≠ .unknown) (X Y : PB) (hX : WF n X) (hY : WF n Y) :
    ∃ R, add n d X Y = .ok R ∧ WF n R := by
  obtain ⟨R, R', h1, -, -, w, -⟩ := Iso.add_iso n d hd (wf_iso hX) (wf_iso hX) (wf_iso hY) (wf_iso hY)
    (Iso.PSub.refl X) (Iso.PSub.refl Y)
  exact ⟨R, h1, wf_of_iso w⟩

theorem sub_total (n : Nat) (d : Dep) (hd : d ≠ .unknown) (X Y : PB) (hX : WF n X) (hY : WF n Y) :
    ∃ R, sub n d X Y = .ok R ∧ WF n R := by
  obtain ⟨hneg, hwn⟩ := neg_wf n Y hY
  unfold sub
  rw [hneg, ok_bind]
  exact add_total n _ (swapPO_ne_unknown d hd) X _ hX hwn

theorem mul_poi_total (n : Nat) (d : Dep) (hd : d = .p ∨ d = .o ∨ d = .i) (X Y : PB) (hX : WF n X) (hY : WF n Y) :
    ∃ R, mul n d X Y = .ok R ∧ WF n R := by
  rcases hd with h | h | h <;> subst h
  · exact rule_total n n (Or.inl rfl) _ (Iso.perfectOp_facts (· * ·) n (wf_iso hX) (wf_iso hY))
  · exact rule_total n n (Or.inl rfl) _ (Iso.oppositeOp_facts (· * ·) n (wf_iso hX) (wf_iso hY))
  · exact rule_total n (n * n) (Iso.sq_cases n) _ (Iso.independentOp_facts (· * ·) n (wf_iso hX) (wf_iso hY))

/-- Frank–Nelson–Sklar product of two non-negative well-formed boxes answers -/
theorem classic_mul_total (n : Nat) (X Y : PB) (hX : WF n X) (hY : WF n Y)
    (pX : Pun.WF.NonNeg X) (pY : Pun.WF.NonNeg Y) :
    ∃ R, classicFrechet n (· * ·) X Y = .ok R ∧ WF n R := by
  unfold classicFrechet
  rw [Pun.WF.frechetOp_mul_eq' X Y pX pY]
  exact rule_total n n (Or.inl rfl) _ (Iso.frechetOp_facts mulPos mulPos_mono2 n (wf_iso hX) (wf_iso hY))


/-- `frechet_pbox_mul`'s sign routing on two boxes that do not straddle zero answers -/
theorem noStraddle_total (n : Nat) (X Y : PB) (hX : WF n X) (hY : WF n Y)
    (sX : straddlesZero X = false) (sY : straddlesZero Y = false) :
    ∃ R, frechetMulNoStraddle n X Y = .ok R ∧ WF n R := by
  obtain ⟨hnX, wnX⟩ := neg_wf n X hX
  obtain ⟨hnY, wnY⟩ := neg_wf n Y hY
  unfold frechetMulNoStraddle negativeFrechet
  by_cases qx : hi X ≤ 0 <;> by_cases qy : hi Y ≤ 0 <;>
    simp only [qx, qy, decide_true, decide_false, Bool.or_self, Bool.or_true, Bool.true_or, Bool.or_false, Bool.false_or,
      if_true, if_false, Bool.xor_self, Bool.true_xor, Bool.xor_true, Bool.false_xor, Bool.xor_false, Bool.not_true,
      Bool.not_false, Bool.false_eq_true, pure, Except.pure, ok_bind]
  · rw [hnX, ok_bind, hnY, ok_bind]
    obtain ⟨R, hR, wR⟩ := classic_mul_total n _ _ wnX wnY (Pun.WF.neg_nonneg (wf_c04 hX) qx hnX)
      (Pun.WF.neg_nonneg (wf_c04 hY) qy hnY)
    rw [hR, ok_bind]; exact ⟨R, rfl, wR⟩
  · rw [hnX, ok_bind]
    obtain ⟨R, hR, wR⟩ := classic_mul_total n _ _ wnX hY (Pun.WF.neg_nonneg (wf_c04 hX) qx hnX)
      (Pun.WF.nonneg_of_not_straddle (wf_c04 hY) qy sY)
    rw [hR, ok_bind]; exact ⟨_, (neg_wf n R wR).1, (neg_wf n R wR).2⟩
  · rw [hnY, ok_bind]
    obtain ⟨R, hR, wR⟩ := classic_mul_total n _ _ hX wnY (Pun.WF.nonneg_of_not_straddle (wf_c04 hX) qx sX)
      (Pun.WF.neg_nonneg (wf_c04 hY) qy hnY)
    rw [hR, ok_bind]; exact ⟨_, (neg_wf n R wR).1, (neg_wf n R wR).2⟩
  · exact classic_mul_total n X Y hX hY (Pun.WF.nonneg_of_not_straddle (wf_c04 hX) qx sX)
      (Pun.WF.nonneg_of_not_straddle (wf_c04 hY) qy sY)

/-- the product answers: perfect / opposite / independent always; Frechet when neither operand straddles
zero, or when one operand is an embedded number -/
theorem mul_total (n : Nat) (hn : 0 < n) (d : Dep) (hd : d ≠ .unknown) (X Y : PB) (hX : WF n X) (hY : WF n Y)
    (hf : d = .f → (straddlesZero X = false ∧ straddlesZero Y = false) ∨
      (∃ c, X = ofIvl n c c) ∨ (∃ c, Y = ofIvl n c c)) :
    ∃ R, mul n d X Y = .ok R ∧ WF n R := by
  cases d with
  | f =>
    rcases hf rfl with ⟨sX, sY⟩ | ⟨c, hc⟩ | ⟨c, hc⟩
    · simp only [mul, frechetMul, sX, sY, Bool.or_self, Bool.false_eq_true, if_false]
      exact noStraddle_total n X Y hX hY sX sY
    · subst hc
      have h1 : mul n .f Y (ofIvl n c c) = .ok (scaleP Y c) := by
        rw [mul_const_all n hn .f (by decide) Y hY c]; exact numberOp_mul_wf n Y hY c
      exact ⟨_, mul_comm_ok n .f _ _ _ hY.len (len_ofIvl n c c) h1, wf_scaleP n Y hY c⟩
    · subst hc
      refine ⟨scaleP X c, ?_, wf_scaleP n X hX c⟩
      rw [mul_const_all n hn .f (by decide) X hX c]; exact numberOp_mul_wf n X hX c
  | p => exact mul_poi_total n .p (Or.inl rfl) X Y hX hY
  | o => exact mul_poi_total n .o (Or.inr (Or.inl rfl)) X Y hX hY
  | i => exact mul_poi_total n .i (Or.inr (Or.inr rfl)) X Y hX hY
  | unknown => exact absurd rfl hd


/-! ## reciprocal and quotient -/

/-- all entries of the box have one sign -/
def SameSign (Y : PB) : Prop :=
  ((∀ v ∈ Y.left, 0 < v) ∧ (∀ v ∈ Y.right, 0 < v)) ∨ ((∀ v ∈ Y.left, v < 0) ∧ (∀ v ∈ Y.right, v < 0))

theorem sameSign_of (n : Nat) (Y : PB) (hY : WF n Y) (h : (∀ v ∈ Y.left, 0 < v) ∨ (∀ v ∈ Y.right, v < 0)) :
    SameSign Y := by
  rcases h with h | h
  · left; refine ⟨h, ?_⟩
    intro v hv
    obtain ⟨i, hi, rfl⟩ := List.getElem_of_mem hv
    have h2 : i < Y.left.length := by rw [hY.llen, ← hY.rlen]; exact hi
    exact lt_of_lt_of_le (h _ (List.getElem_mem h2)) (Pun.WF.forall₂_le_get hY.le i h2 hi)
  · right; refine ⟨?_, h⟩
    intro v hv
    obtain ⟨i, hi, rfl⟩ := List.getElem_of_mem hv
    have h2 : i < Y.right.length := by rw [hY.rlen, ← hY.llen]; exact hi
    exact lt_of_le_of_lt (Pun.WF.forall₂_le_get hY.le i hi h2) (h _ (List.getElem_mem h2))

theorem forall₂_imp_mem {R S : Rat → Rat → Prop} : ∀ {l r : List Rat}, List.Forall₂ R l r →
    (∀ a b, a ∈ l → b ∈ r → R a b → S a b) → List.Forall₂ S l r
  | _, _, .nil, _ => List.Forall₂.nil
  | _, _, .cons h t, hi =>
    List.Forall₂.cons (hi _ _ (by simp) (by simp) h)
      (forall₂_imp_mem t (fun a b ha hb => hi a b (by simp [ha]) (by simp [hb])))

theorem sorted_recip_rev (L : List Rat) (hs : L.Pairwise (· ≤ ·)) (hsign : (∀ v ∈ L, 0 < v) ∨ (∀ v ∈ L, v < 0)) :
    (L.reverse.map (1 / ·)).Pairwise (· ≤ ·) := by
  rw [List.pairwise_map, List.pairwise_reverse]
  refine List.Pairwise.imp_of_mem ?_ hs
  intro a b ha hb hab
  apply one_div_anti a b hab
  rcases hsign with h | h
  · exact Or.inl (h a ha)
  · exact Or.inr (h b hb)

/-- **the reciprocal of a well-formed box without zero answers**, with a well-formed box of one sign on
which multiplication by `1` is the identity -/
theorem recip_total (n : Nat) (Y : PB) (hY : WF n Y) (hs : SameSign Y) :
    ∃ R, recip n Y = .ok R ∧ WF n R ∧ SameSign R := by
  have hl : (∀ v ∈ Y.left, 0 < v) ∨ (∀ v ∈ Y.left, v < 0) := by rcases hs with h | h; exact Or.inl h.1; exact Or.inr h.1
  have hr : (∀ v ∈ Y.right, 0 < v) ∨ (∀ v ∈ Y.right, v < 0) := by rcases hs with h | h; exact Or.inl h.2; exact Or.inr h.2
  have nzl : hasZero Y.left = false := by
    unfold hasZero; rw [List.any_eq_false]; intro v hv
    have : v ≠ 0 := by rcases hl with h | h <;> intro e <;> have := h v hv <;> linarith
    simpa using this
  have nzr : hasZero Y.right = false := by
    unfold hasZero; rw [List.any_eq_false]; intro v hv
    have : v ≠ 0 := by rcases hr with h | h <;> intro e <;> have := h v hv <;> linarith
    simpa using this
  have hw : WF n ⟨Y.right.reverse.map (1 / ·), Y.left.reverse.map (1 / ·)⟩ := by
    refine ⟨by simp [hY.rlen], by simp [hY.llen], sorted_recip_rev _ hY.rsorted hr, sorted_recip_rev _ hY.lsorted hl, ?_⟩
    show List.Forall₂ (· ≤ ·) (Y.right.reverse.map (1 / ·)) (Y.left.reverse.map (1 / ·))
    rw [List.forall₂_map_left_iff, List.forall₂_map_right_iff, List.forall₂_reverse_iff]
    apply List.Forall₂.flip
    refine forall₂_imp_mem hY.le ?_
    intro a b ha hb hab
    apply one_div_anti a b hab
    rcases hs with h | h
    · exact Or.inl (h.1 a ha)
    · exact Or.inr (h.2 b hb)
  refine ⟨_, ?_, hw, ?_⟩
  · have nst : straddlesZero Y = false := by
      rcases hs with h | h
      · exact straddlesZero_false_pos Y h.1 h.2
      · exact straddlesZero_false_neg Y h.1 h.2
    unfold recip
    simp only [nst, nzl, nzr, Bool.or_self, Bool.false_eq_true, if_false]
    exact mk_wf n false _ _ hw
  · have key : ∀ (L : List Rat), ((∀ v ∈ L, 0 < v) → ∀ w ∈ L.reverse.map (1 / ·), 0 < w) ∧
        ((∀ v ∈ L, v < 0) → ∀ w ∈ L.reverse.map (1 / ·), w < 0) := by
      intro L
      constructor
      · intro h w hw'
        obtain ⟨v, hv, rfl⟩ := List.mem_map.mp hw'
        exact one_div_pos.mpr (h v (List.mem_reverse.mp hv))
      · intro h w hw'
        obtain ⟨v, hv, rfl⟩ := List.mem_map.mp hw'
        exact one_div_neg.mpr (h v (List.mem_reverse.mp hv))
    rcases hs with h | h
    · exact Or.inl ⟨(key Y.right).1 h.2, (key Y.left).1 h.1⟩
    · exact Or.inr ⟨(key Y.right).2 h.2, (key Y.left).2 h.1⟩

theorem not_straddle_of_sameSign (n : Nat) (hn : 0 < n) (R : PB) (hR : WF n R) (hs : SameSign R) :
    straddlesZero R = false := by
  have hl : R.left ≠ [] := by intro e; have := hR.llen; rw [e] at this; simp at this; omega
  have hr : R.right ≠ [] := by intro e; have := hR.rlen; rw [e] at this; simp at this; omega
  unfold straddlesZero
  rcases hs with h | h
  · have := h.1 _ (minL_spec 0 R.left hl).1
    simp [not_lt.mpr (le_of_lt this)]
  · have := h.2 _ (maxL_spec 0 R.right hr).1
    simp [not_lt.mpr (le_of_lt this)]

theorem scaleP_mul_one (R : PB) : scaleP R 1 = R := by
  unfold scaleP; simp

/-- the quotient answers under the same conditions as the product (divisor of one sign) -/
theorem div_total (n : Nat) (hn : 0 < n) (d : Dep) (hd : d ≠ .unknown) (X Y : PB) (hX : WF n X) (hY : WF n Y)
    (hs : SameSign Y)
    (hf : d = .f → straddlesZero X = false ∨ (∃ c, X = ofIvl n c c) ∨ (∃ c, Y = ofIvl n c c)) :
    ∃ R, div n d X Y = .ok R ∧ WF n R := by
  obtain ⟨R, hR, wR, sR⟩ := recip_total n Y hY hs
  unfold div
  rw [hR, ok_bind, numberOp_mul_wf n R wR 1, scaleP_mul_one]
  simp only
  apply mul_total n hn _ (swapPO_ne_unknown d hd) X R hX wR
  intro hsw
  have hdf : d = .f := by cases d <;> simp [swapPO] at hsw ⊢
  rcases hf hdf with h | h | ⟨c, hc⟩
  · exact Or.inl ⟨h, not_straddle_of_sameSign n hn R wR sR⟩
  · exact Or.inr (Or.inl h)
  · subst hc
    have hcm : c ∈ (ofIvl n c c).left := by
      simp only [ofIvl, List.mem_replicate]; exact ⟨by omega, trivial⟩
    have h0 : 0 < c ∨ c < 0 := by
      rcases hs with h | h
      · exact Or.inl (h.1 c hcm)
      · exact Or.inr (h.1 c hcm)
    rw [recip_ofIvl n c c hn (le_refl c) h0] at hR
    injection hR with e
    exact Or.inr (Or.inr ⟨1 / c, e.symm⟩)

/-- **the p-box operation answers** on well-formed operands: always for sum and difference and for
perfect / opposite / independent product and quotient (divisor of one sign); for the Frechet product and
quotient when neither operand straddles zero or one of them is an embedded number -/
theorem binop_total (n : Nat) (hn : 0 < n) (o : Op) (d : Dep) (hd : d ≠ .unknown) (X Y : PB) (hX : WF n X) (hY : WF n Y)
    (hs : o = .div → SameSign Y)
    (hf : d = .f → (o = .mul ∨ o = .div) → (straddlesZero X = false ∧ straddlesZero Y = false) ∨
      (∃ c, X = ofIvl n c c) ∨ (∃ c, Y = ofIvl n c c)) :
    ∃ R, binop n o d X Y = .ok R ∧ WF n R := by
  cases o with
  | add => exact add_total n d hd X Y hX hY
  | sub => exact sub_total n d hd X Y hX hY
  | mul => exact mul_total n hn d hd X Y hX hY (fun h => hf h (Or.inl rfl))
  | div =>
    apply div_total n hn d hd X Y hX hY (hs rfl)
    intro h
    rcases hf h (Or.inr rfl) with h' | h' | h'
    · exact Or.inl h'.1
    · exact Or.inr (Or.inl h')
    · exact Or.inr (Or.inr h')

end Pun.Hier
