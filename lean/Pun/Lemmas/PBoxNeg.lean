import Pun.Lemmas.PBoxMk
set_option linter.unusedSimpArgs false
set_option linter.unusedVariables false
namespace Pun.PBox
open Pun

theorem lexGe_antisymm (l r : List Rat) (hlen : l.length = r.length)
    (hle : ∀ i (h : i < l.length), l[i] ≤ r[i]'(by omega)) (hge : lexGe l r = true) : l = r := by
  induction l generalizing r with
  | nil => cases r with
    | nil => rfl
    | cons _ _ => simp at hlen
  | cons a t ih =>
    cases r with
    | nil => simp at hlen
    | cons b u =>
      have h0 := hle 0 (by simp)
      simp only [List.getElem_cons_zero] at h0
      unfold lexGe at hge
      have hnot : ¬ a > b := not_lt.mpr h0
      simp only [hnot, if_false] at hge
      by_cases hlt : a < b
      · simp [hlt] at hge
      · simp only [hlt, if_false] at hge
        have hab : a = b := le_antisymm h0 (not_lt.mp hlt)
        have := ih u (by simpa using hlen) (fun i h => by
          have := hle (i + 1) (by simpa using h)
          simpa using this) hge
        rw [hab, this]

/-- the list-form constructor accepts a well-formed pair unchanged -/
theorem mk_list_ok (n : Nat) (l r : List Rat) (hl : l.length = n) (hr : r.length = n)
    (sl : l.Pairwise (· ≤ ·)) (sr : r.Pairwise (· ≤ ·))
    (hle : ∀ i (h : i < l.length), l[i] ≤ r[i]'(by omega)) :
    mk n true l r = .ok ⟨l, r⟩ := by
  have hlen : l.length = r.length := by omega
  have il := isIncreasing_of_sorted l sl
  have ir := isIncreasing_of_sorted r sr
  have nc := no_cross l r hlen hle
  by_cases hge : lexGe l r = true
  · have e := lexGe_antisymm l r hlen hle hge
    subst e
    simp [mk, hge, boundSteps, hl, il, nc, bind, Except.bind]
  · simp [mk, hlen, hge, boundSteps, hl, hr, il, ir, nc, bind, Except.bind]

theorem neg_rev_sorted (l : List Rat) (s : l.Pairwise (· ≤ ·)) :
    (l.reverse.map (- ·)).Pairwise (· ≤ ·) := by
  rw [List.pairwise_map, List.pairwise_reverse]
  exact s.imp (fun h => by linarith)

/-- `-P` on a well-formed p-box: steps negated and listed in reverse order, bounds exchanged -/
theorem neg_ok (n : Nat) (p : PB) (hl : p.left.length = n) (hr : p.right.length = n)
    (sl : p.left.Pairwise (· ≤ ·)) (sr : p.right.Pairwise (· ≤ ·))
    (hle : ∀ i (h : i < n), p.left[i]'(by omega) ≤ p.right[i]'(by omega)) :
    neg n p = .ok ⟨p.right.reverse.map (- ·), p.left.reverse.map (- ·)⟩ := by
  unfold neg
  rw [sortR_of_sorted _ (neg_rev_sorted _ sr), sortR_of_sorted _ (neg_rev_sorted _ sl)]
  apply mk_list_ok n _ _ (by simp [hr]) (by simp [hl]) (neg_rev_sorted _ sr) (neg_rev_sorted _ sl)
  intro i h
  simp only [List.length_map, List.length_reverse] at h
  simp only [List.getElem_map, List.getElem_reverse]
  have := hle (n - 1 - i) (by omega)
  simp only [hl, hr]
  linarith

end Pun.PBox
