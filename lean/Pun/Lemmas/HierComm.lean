import Pun.Lemmas.Hier
import Pun.Lemmas.WellFormed
import Pun.Lemmas.Iso
import Mathlib.Data.List.Perm.Basic
/-!
# The combination rules of `operation.py` are symmetric in their operands

For a commutative `op` and operands with the same number of steps: `frechet_op`, `perfect_op`,
`opposite_op`, `independent_op` and the naive rule return the same bounds for `(x, y)` and `(y, x)`.
-/
set_option linter.unusedSimpArgs false
set_option linter.unusedVariables false
namespace Pun.Hier
open Pun Pun.PBox

theorem bind_ok {α β : Type} {x : Except Err α} {f : α → Except Err β} {b : β}
    (h : (x >>= f) = .ok b) : ∃ a, x = .ok a ∧ f a = .ok b := by
  cases x with
  | error e => cases h
  | ok a => exact ⟨a, rfl, h⟩

theorem sortR_congr {X Y : List Rat} (hp : X.Perm Y) : sortR X = sortR Y :=
  sortR_eq_of_perm X (sortR Y) (hp.trans (sortR_perm Y).symm) (sortR_sorted Y)

theorem maxL_perm (d : Rat) {l l' : List Rat} (hp : l.Perm l') : maxL d l = maxL d l' := by
  by_cases hne : l = []
  · subst hne; rw [List.Perm.nil_eq hp]
  · have hne' : l' ≠ [] := fun h => hne (by subst h; exact List.Perm.eq_nil hp)
    obtain ⟨m1, u1⟩ := maxL_spec d l hne
    obtain ⟨m2, u2⟩ := maxL_spec d l' hne'
    exact le_antisymm (u2 _ (hp.subset m1)) (u1 _ (hp.symm.subset m2))

theorem minL_perm (d : Rat) {l l' : List Rat} (hp : l.Perm l') : minL d l = minL d l' := by
  by_cases hne : l = []
  · subst hne; rw [List.Perm.nil_eq hp]
  · have hne' : l' ≠ [] := fun h => hne (by subst h; exact List.Perm.eq_nil hp)
    obtain ⟨m1, u1⟩ := minL_spec d l hne
    obtain ⟨m2, u2⟩ := minL_spec d l' hne'
    exact le_antisymm (u1 _ (hp.symm.subset m2)) (u2 _ (hp.subset m1))

/-- anti-diagonal lists of `(a,b)` and `(b,a)` are reverses of each other -/
theorem zipWith_rev_comm (op : Rat → Rat → Rat) (hc : ∀ x y, op x y = op y x) (A B : List Rat)
    (h : A.length = B.length) :
    List.zipWith op B A.reverse = (List.zipWith op A B.reverse).reverse := by
  rw [List.reverse_zipWith (by simp [h]), List.reverse_reverse, List.zipWith_comm]
  congr 1
  funext x y; exact hc y x

theorem frechetLeftRaw_comm (op : Rat → Rat → Rat) (hc : ∀ x y, op x y = op y x) (a b : List Rat)
    (h : a.length = b.length) : frechetLeftRaw op a b = frechetLeftRaw op b a := by
  unfold frechetLeftRaw
  rw [h]
  apply List.map_congr_left
  intro i _
  rw [zipWith_rev_comm op hc (a.take (i+1)) (b.take (i+1)) (by simp [h])]
  exact (maxL_perm 0 (List.reverse_perm _)).symm

theorem frechetRightRaw_comm (op : Rat → Rat → Rat) (hc : ∀ x y, op x y = op y x) (a b : List Rat)
    (h : a.length = b.length) : frechetRightRaw op a b = frechetRightRaw op b a := by
  unfold frechetRightRaw
  rw [h]
  apply List.map_congr_left
  intro i _
  rw [zipWith_rev_comm op hc (a.drop i) (b.drop i) (by simp [h])]
  exact (minL_perm 0 (List.reverse_perm _)).symm

/-- **`frechet_op` is symmetric** -/
theorem frechetOp_comm (op : Rat → Rat → Rat) (hc : ∀ x y, op x y = op y x) (x y : PB)
    (hl : x.left.length = y.left.length) (hr : x.right.length = y.right.length) :
    frechetOp op x y = frechetOp op y x := by
  unfold frechetOp
  rw [frechetLeftRaw_comm op hc _ _ hl, frechetRightRaw_comm op hc _ _ hr]

theorem zip4_swap_mid (f : Rat → Rat → Rat → Rat → Rat) (hf : ∀ p q r s, f p q r s = f p r q s) :
    ∀ (a b c d : List Rat), zip4 f a b c d = zip4 f a c b d
  | [], _, _, _ => by simp [zip4]
  | _ :: _, [], [], _ => by simp [zip4]
  | _ :: _, [], _ :: _, _ => by simp [zip4]
  | _ :: _, _ :: _, [], _ => by simp [zip4]
  | _ :: _, _ :: _, _ :: _, [] => by simp [zip4]
  | p :: a, q :: b, r :: c, s :: d => by
    simp only [zip4]; rw [hf p q r s, zip4_swap_mid f hf a b c d]

theorem min4_swap_mid (p q r s : Rat) : min4 p q r s = min4 p r q s := by
  unfold min4; rw [min_assoc p q r, min_comm q r, ← min_assoc]

theorem max4_swap_mid (p q r s : Rat) : max4 p q r s = max4 p r q s := by
  unfold max4; rw [max_assoc p q r, max_comm q r, ← max_assoc]

theorem zipWith_comm' (op : Rat → Rat → Rat) (hc : ∀ x y, op x y = op y x) (a b : List Rat) :
    List.zipWith op a b = List.zipWith op b a := by
  rw [List.zipWith_comm]; congr 1; funext x y; exact hc y x

/-- the focal four-corner combination is symmetric -/
theorem cornerPair_comm (op : Rat → Rat → Rat) (hc : ∀ x y, op x y = op y x) (xl xr yl yr : List Rat) :
    cornerPair op xl xr yl yr = cornerPair op yl yr xl xr := by
  unfold cornerPair
  simp only
  rw [zipWith_comm' op hc yl xl, zipWith_comm' op hc yl xr, zipWith_comm' op hc yr xl, zipWith_comm' op hc yr xr,
    zip4_swap_mid min4 min4_swap_mid, zip4_swap_mid max4 max4_swap_mid]

/-- **`perfect_op` is symmetric** -/
theorem perfectOp_comm (op : Rat → Rat → Rat) (hc : ∀ x y, op x y = op y x) (x y : PB) :
    perfectOp op x y = perfectOp op y x := by
  unfold perfectOp; rw [cornerPair_comm op hc]


/-- `zip4` as a `zipWith` of two zips -/
theorem zip4_eq_zipWith (f : Rat → Rat → Rat → Rat → Rat) : ∀ (a b c d : List Rat),
    zip4 f a b c d = List.zipWith (fun (p q : Rat × Rat) => f p.1 p.2 q.1 q.2) (a.zip b) (c.zip d)
  | [], _, _, _ => by simp [zip4]
  | _ :: _, [], _, _ => by simp [zip4]
  | _ :: _, _ :: _, [], _ => by simp [zip4]
  | _ :: _, _ :: _, _ :: _, [] => by simp [zip4]
  | p :: a, q :: b, r :: c, s :: d => by
    simp only [zip4, List.zip_cons_cons, List.zipWith_cons_cons, zip4_eq_zipWith f a b c d]

theorem zip4_reverse (f : Rat → Rat → Rat → Rat → Rat) (a b c d : List Rat)
    (h2 : a.length = b.length) (h3 : a.length = c.length) (h4 : a.length = d.length) :
    zip4 f a.reverse b.reverse c.reverse d.reverse = (zip4 f a b c d).reverse := by
  have z1 : a.reverse.zip b.reverse = (a.zip b).reverse := by
    rw [List.zip_eq_zipWith, List.zip_eq_zipWith, List.reverse_zipWith h2]
  have z2 : c.reverse.zip d.reverse = (c.zip d).reverse := by
    rw [List.zip_eq_zipWith, List.zip_eq_zipWith, List.reverse_zipWith (by omega)]
  rw [zip4_eq_zipWith, zip4_eq_zipWith, z1, z2, List.reverse_zipWith (by simp; omega)]

/-- **`opposite_op` is symmetric** (operands with the same number of steps) -/
theorem oppositeOp_comm (op : Rat → Rat → Rat) (hc : ∀ x y, op x y = op y x) (x y : PB) (n : Nat)
    (hxl : x.left.length = n) (hxr : x.right.length = n) (hyl : y.left.length = n) (hyr : y.right.length = n) :
    oppositeOp op x y = oppositeOp op y x := by
  unfold oppositeOp
  rw [cornerPair_comm op hc y.left y.right x.left.reverse x.right.reverse]
  have key : cornerPair op x.left.reverse x.right.reverse y.left y.right =
      ((cornerPair op x.left x.right y.left.reverse y.right.reverse).1.reverse,
       (cornerPair op x.left x.right y.left.reverse y.right.reverse).2.reverse) := by
    unfold cornerPair
    simp only
    have e : ∀ (u v : List Rat), u.length = n → v.length = n →
        List.zipWith op u.reverse v = (List.zipWith op u v.reverse).reverse := by
      intro u v hu hv
      rw [List.reverse_zipWith (by simp [hu, hv]), List.reverse_reverse]
    rw [e _ _ hxl hyl, e _ _ hxl hyr, e _ _ hxr hyl, e _ _ hxr hyr,
      zip4_reverse _ _ _ _ _ (by simp [hxl, hyl, hyr]) (by simp [hxl, hxr, hyl]) (by simp [hxl, hxr, hyl, hyr]),
      zip4_reverse _ _ _ _ _ (by simp [hxl, hyl, hyr]) (by simp [hxl, hxr, hyl]) (by simp [hxl, hxr, hyl, hyr])]
  rw [key]
  simp only
  rw [sortR_congr (List.reverse_perm _), sortR_congr (List.reverse_perm _)]



theorem zip4_nil3 (f : Rat → Rat → Rat → Rat → Rat) (a b d : List Rat) : zip4 f a b [] d = [] := by
  cases a <;> cases b <;> simp [zip4]

theorem zip4_map2 (f : Rat → Rat → Rat → Rat → Rat) (g1 g2 g3 g4 : Rat → Rat) : ∀ (yl yr : List Rat),
    zip4 f (yl.map g1) (yr.map g2) (yl.map g3) (yr.map g4) =
      (yl.zip yr).map (fun p => f (g1 p.1) (g2 p.2) (g3 p.1) (g4 p.2))
  | [], _ => by simp [zip4]
  | _ :: _, [] => by simp [zip4]
  | y :: tl, y' :: tr => by simp [zip4, zip4_map2 f g1 g2 g3 g4 tl tr]

/-- the `n²` grid of focal combinations, row by row -/
theorem grid_eq (f : Rat → Rat → Rat → Rat → Rat) (op : Rat → Rat → Rat) (yl yr : List Rat) (hy : yl.length = yr.length) :
    ∀ (xl xr : List Rat),
    zip4 f (cartesian op xl yl) (cartesian op xl yr) (cartesian op xr yl) (cartesian op xr yr) =
      (xl.zip xr).flatMap (fun px => (yl.zip yr).map
        (fun py => f (op px.1 py.1) (op px.1 py.2) (op px.2 py.1) (op px.2 py.2)))
  | [], _ => by simp [cartesian, zip4]
  | _ :: _, [] => by simp [cartesian, zip4_nil3]
  | a :: ta, b :: tb => by
    simp only [Iso.cartesian_cons, List.zip_cons_cons, List.flatMap_cons]
    rw [Iso.zip4_append _ _ _ _ _ _ _ _ _ (by simp [hy]) (by simp) (by simp [hy]), zip4_map2, grid_eq f op yl yr hy ta tb]

theorem flatMap_nil_const {α β : Type} (l : List α) : l.flatMap (fun _ => ([] : List β)) = [] := by
  induction l with
  | nil => rfl
  | cons a t ih => simp [ih]

theorem map_eq_flatMap_single {β γ : Type} (h : β → γ) (B : List β) : B.map h = B.flatMap (fun b => [h b]) := by
  induction B with
  | nil => rfl
  | cons b tb ihb => simp [ihb]

/-- flattening a matrix by rows or by columns gives the same multiset -/
theorem flatMap_map_transpose {α β γ : Type} (g : α → β → γ) : ∀ (A : List α) (B : List β),
    (A.flatMap (fun a => B.map (g a))).Perm (B.flatMap (fun b => A.map (fun a => g a b)))
  | [], B => by simp [flatMap_nil_const]
  | a :: t, B => by
    simp only [List.flatMap_cons, List.map_cons]
    have ih := flatMap_map_transpose g t B
    have h1 : (B.map (g a) ++ t.flatMap (fun a => B.map (g a))).Perm
        (B.flatMap (fun b => [g a b]) ++ B.flatMap (fun b => t.map (fun a => g a b))) := by
      have : B.map (g a) = B.flatMap (fun b => [g a b]) := map_eq_flatMap_single (g a) B
      rw [this]
      exact List.Perm.append_left _ ih
    refine h1.trans ?_
    have := List.flatMap_append_perm B (fun b => [g a b]) (fun b => t.map (fun a => g a b))
    simpa using this

/-- **the `n²` corner minima / maxima are symmetric** (as sorted lists) -/
theorem cornersSorted_comm (op : Rat → Rat → Rat) (hc : ∀ x y, op x y = op y x) (x y : PB)
    (hx : x.left.length = x.right.length) (hy : y.left.length = y.right.length) :
    cornersSorted op x y = cornersSorted op y x := by
  unfold cornersSorted
  simp only
  rw [grid_eq min4 op y.left y.right hy, grid_eq max4 op y.left y.right hy,
    grid_eq min4 op x.left x.right hx, grid_eq max4 op x.left x.right hx]
  have e1 : (fun (py : Rat × Rat) => (x.left.zip x.right).map
      (fun px => min4 (op py.1 px.1) (op py.1 px.2) (op py.2 px.1) (op py.2 px.2))) =
      (fun py => (x.left.zip x.right).map
        (fun px => min4 (op px.1 py.1) (op px.1 py.2) (op px.2 py.1) (op px.2 py.2))) := by
    funext py; apply List.map_congr_left; intro px _
    rw [hc py.1 px.1, hc py.1 px.2, hc py.2 px.1, hc py.2 px.2, min4_swap_mid]
  have e2 : (fun (py : Rat × Rat) => (x.left.zip x.right).map
      (fun px => max4 (op py.1 px.1) (op py.1 px.2) (op py.2 px.1) (op py.2 px.2))) =
      (fun py => (x.left.zip x.right).map
        (fun px => max4 (op px.1 py.1) (op px.1 py.2) (op px.2 py.1) (op px.2 py.2))) := by
    funext py; apply List.map_congr_left; intro px _
    rw [hc py.1 px.1, hc py.1 px.2, hc py.2 px.1, hc py.2 px.2, max4_swap_mid]
  rw [e1, e2]
  rw [sortR_congr (flatMap_map_transpose
      (fun (px py : Rat × Rat) => min4 (op px.1 py.1) (op px.1 py.2) (op px.2 py.1) (op px.2 py.2)) _ _),
    sortR_congr (flatMap_map_transpose
      (fun (px py : Rat × Rat) => max4 (op px.1 py.1) (op px.1 py.2) (op px.2 py.1) (op px.2 py.2)) _ _)]

theorem independentOp_comm (op : Rat → Rat → Rat) (hc : ∀ x y, op x y = op y x) (x y : PB)
    (hx : x.left.length = x.right.length) (hy : y.left.length = y.right.length) :
    independentOp op x y = independentOp op y x := cornersSorted_comm op hc x y hx hy

theorem naiveOp_comm (op : Rat → Rat → Rat) (hc : ∀ x y, op x y = op y x) (x y : PB)
    (hx : x.left.length = x.right.length) (hy : y.left.length = y.right.length) (hxy : x.left.length = y.left.length) :
    naiveOp op x y = naiveOp op y x := by
  unfold naiveOp
  rw [cornersSorted_comm op hc x y hx hy, hxy]



/-- operand with `n` steps on both bounds -/
structure Len (n : Nat) (p : PB) : Prop where
  l : p.left.length = n
  r : p.right.length = n

theorem WF.len {n : Nat} {p : PB} (h : WF n p) : Len n p := ⟨h.llen, h.rlen⟩

theorem len_of_mk {n : Nat} {lists : Bool} {l r : List Rat} {P : PB} (h : mk n lists l r = .ok P) : Len n P :=
  let w := Pun.WF.mk_wfs h; ⟨w.llen, w.rlen⟩

theorem len_of_neg {n : Nat} {x P : PB} (h : neg n x = .ok P) : Len n P := len_of_mk h
theorem len_of_numberOp {n : Nat} {f : Rat → Rat → Rat} {x P : PB} {c : Rat} (h : numberOp n f x c = .ok P) : Len n P :=
  len_of_mk h
theorem len_of_classic {n : Nat} {op : Rat → Rat → Rat} {x y P : PB} (h : classicFrechet n op x y = .ok P) : Len n P := by
  unfold classicFrechet at h; exact len_of_mk h

theorem mul_c : ∀ x y : Rat, x * y = y * x := mul_comm
theorem add_c : ∀ x y : Rat, x + y = y + x := add_comm

/-! ## the public sum and product are symmetric -/

/-- **`X.add(Y, d) = Y.add(X, d)`** for every dependency -/
theorem add_comm_pb (n : Nat) (d : Dep) (x y : PB) (hx : Len n x) (hy : Len n y) :
    add n d x y = add n d y x := by
  cases d with
  | f => simp only [add]; rw [frechetOp_comm _ add_c x y (by rw [hx.l, hy.l]) (by rw [hx.r, hy.r])]
  | p => simp only [add]; rw [perfectOp_comm _ add_c x y]
  | o => simp only [add]; rw [oppositeOp_comm _ add_c x y n hx.l hx.r hy.l hy.r]
  | i => simp only [add]; rw [independentOp_comm _ add_c x y (by rw [hx.l, hx.r]) (by rw [hy.l, hy.r])]
  | unknown => rfl

theorem classicFrechet_comm (n : Nat) (op : Rat → Rat → Rat) (hc : ∀ x y, op x y = op y x) (x y : PB)
    (hx : Len n x) (hy : Len n y) : classicFrechet n op x y = classicFrechet n op y x := by
  unfold classicFrechet
  rw [frechetOp_comm op hc x y (by rw [hx.l, hy.l]) (by rw [hx.r, hy.r])]

theorem negativeFrechet_comm_ok (n : Nat) (x y z : PB) (hx : Len n x) (hy : Len n y)
    (h : negativeFrechet n x y = .ok z) : negativeFrechet n y x = .ok z := by
  unfold negativeFrechet at h ⊢
  by_cases qx : hi x ≤ 0 <;> by_cases qy : hi y ≤ 0 <;>
    simp only [qx, qy, decide_true, decide_false, Bool.or_self, Bool.or_true, Bool.true_or, Bool.or_false, Bool.false_or,
      if_true, if_false, Bool.xor_self, Bool.true_xor, Bool.xor_true, Bool.false_xor, Bool.xor_false, Bool.not_true,
      Bool.not_false, Bool.false_eq_true, pure, Except.pure, ok_bind] at h ⊢
  · obtain ⟨a, ha, h⟩ := bind_ok h
    obtain ⟨b, hb, h⟩ := bind_ok h
    rw [hb, ok_bind, ha, ok_bind, classicFrechet_comm n _ mul_c b a (len_of_neg hb) (len_of_neg ha)]
    exact h
  · obtain ⟨a, ha, h⟩ := bind_ok h
    rw [ha, ok_bind, classicFrechet_comm n _ mul_c y a hy (len_of_neg ha)]
    exact h
  · obtain ⟨b, hb, h⟩ := bind_ok h
    rw [hb, ok_bind, classicFrechet_comm n _ mul_c b x (len_of_neg hb) hx]
    exact h
  · exact h

theorem frechetMulNoStraddle_comm_ok (n : Nat) (x y z : PB) (hx : Len n x) (hy : Len n y)
    (h : frechetMulNoStraddle n x y = .ok z) : frechetMulNoStraddle n y x = .ok z := by
  unfold frechetMulNoStraddle at h ⊢
  by_cases c : (decide (hi x ≤ 0) || decide (hi y ≤ 0)) = true
  · have c' : (decide (hi y ≤ 0) || decide (hi x ≤ 0)) = true := by rw [Bool.or_comm]; exact c
    simp only [c, c', if_true] at h ⊢
    exact negativeFrechet_comm_ok n x y z hx hy h
  · have c' : ¬ (decide (hi y ≤ 0) || decide (hi x ≤ 0)) = true := by rw [Bool.or_comm]; exact c
    simp only [c, c', if_false] at h ⊢
    rw [classicFrechet_comm n _ mul_c y x hy hx]; exact h

theorem balchprod_comm_ok (n : Nat) (x y z : PB) (hx : Len n x) (hy : Len n y)
    (sx : straddlesZero x = true) (sy : straddlesZero y = true)
    (h : balchprod n x y = .ok z) : balchprod n y x = .ok z := by
  unfold balchprod at h ⊢
  simp only [sx, sy, Bool.and_self, if_true] at h ⊢
  obtain ⟨xx0, h1, h⟩ := bind_ok h
  obtain ⟨yy0, h2, h⟩ := bind_ok h
  obtain ⟨a, h3, h⟩ := bind_ok h
  obtain ⟨b1, h4, h⟩ := bind_ok h
  obtain ⟨b2, h5, h⟩ := bind_ok h
  obtain ⟨b, h6, h⟩ := bind_ok h
  obtain ⟨s, h7, h⟩ := bind_ok h
  rw [h2, ok_bind, h1, ok_bind,
    frechetMulNoStraddle_comm_ok n xx0 yy0 a (len_of_numberOp h1) (len_of_numberOp h2) h3, ok_bind,
    h5, ok_bind, h4, ok_bind,
    classicFrechet_comm n _ add_c b2 b1 (len_of_numberOp h5) (len_of_numberOp h4), h6, ok_bind, h7, ok_bind,
    mul_comm (lo y) (lo x)]
  exact h

theorem straddleFrechet_comm_ok (n : Nat) (x y z : PB) (hx : Len n x) (hy : Len n y)
    (sx : straddlesZero x = true) (sy : straddlesZero y = true)
    (h : straddleFrechet n x y = .ok z) : straddleFrechet n y x = .ok z := by
  unfold straddleFrechet at h ⊢
  have e : naiveOp (· * ·) y x = naiveOp (· * ·) x y :=
    naiveOp_comm (· * ·) mul_c y x (by rw [hy.l, hy.r]) (by rw [hx.l, hx.r]) (by rw [hy.l, hx.l])
  rw [e]
  generalize naiveOp (· * ·) x y = pr at h ⊢
  obtain ⟨zu, zd⟩ := pr
  simp only at h ⊢
  obtain ⟨nv, h1, h⟩ := bind_ok h
  obtain ⟨bl, h2, h⟩ := bind_ok h
  rw [h1, ok_bind, balchprod_comm_ok n x y bl hx hy sx sy h2, ok_bind]
  exact h

/-- **the Frechet product is symmetric**: if `x * y` answers `z`, so does `y * x` -/
theorem frechetMul_comm_ok (n : Nat) (x y z : PB) (hx : Len n x) (hy : Len n y)
    (h : frechetMul n x y = .ok z) : frechetMul n y x = .ok z := by
  unfold frechetMul at h ⊢
  cases sx : straddlesZero x <;> cases sy : straddlesZero y <;>
    simp only [sx, sy, Bool.or_self, Bool.or_true, Bool.true_or, Bool.or_false, Bool.false_or, if_true, if_false,
      Bool.false_eq_true] at h ⊢
  · exact frechetMulNoStraddle_comm_ok n x y z hx hy h
  · exact h
  · exact h
  · exact straddleFrechet_comm_ok n x y z hx hy sx sy h

/-- **`X.mul(Y, d)` is symmetric** for every dependency: if it answers `z`, so does `Y.mul(X, d)` -/
theorem mul_comm_ok (n : Nat) (d : Dep) (x y z : PB) (hx : Len n x) (hy : Len n y)
    (h : mul n d x y = .ok z) : mul n d y x = .ok z := by
  cases d with
  | f => exact frechetMul_comm_ok n x y z hx hy h
  | p => simp only [mul] at h ⊢; rw [perfectOp_comm _ mul_c y x]; exact h
  | o => simp only [mul] at h ⊢; rw [oppositeOp_comm _ mul_c y x n hy.l hy.r hx.l hx.r]; exact h
  | i => simp only [mul] at h ⊢; rw [independentOp_comm _ mul_c y x (by rw [hy.l, hy.r]) (by rw [hx.l, hx.r])]; exact h
  | unknown => exact h

end Pun.Hier
