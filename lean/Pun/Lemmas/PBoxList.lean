import Pun.Model.PBox
import Pun.Lemmas.Frechet
import Mathlib.Data.List.Sort
import Mathlib.Algebra.Order.Field.Rat
set_option linter.unusedSimpArgs false
set_option linter.unusedVariables false
namespace Pun.PBox
open Pun

theorem foldl_max_spec (x : Rat) (xs : List Rat) :
    xs.foldl max x ∈ x :: xs ∧ ∀ z ∈ x :: xs, z ≤ xs.foldl max x := by
  induction xs generalizing x with
  | nil => simp
  | cons y ys ih =>
    simp only [List.foldl_cons]
    obtain ⟨h1, h2⟩ := ih (max x y)
    constructor
    · rcases List.mem_cons.mp h1 with h | h
      · rcases max_choice x y with hc | hc
        · rw [h, hc]; simp
        · rw [h, hc]; simp
      · simp [h]
    · intro z hz
      rcases List.mem_cons.mp hz with h | h
      · subst h; exact le_trans (le_max_left z y) (h2 _ List.mem_cons_self)
      · rcases List.mem_cons.mp h with h' | h'
        · subst h'; exact le_trans (le_max_right x z) (h2 _ List.mem_cons_self)
        · exact h2 _ (by simp [h'])

theorem maxL_spec (d : Rat) (l : List Rat) (hne : l ≠ []) :
    maxL d l ∈ l ∧ ∀ z ∈ l, z ≤ maxL d l := by
  cases l with
  | nil => exact absurd rfl hne
  | cons x xs => exact foldl_max_spec x xs

theorem foldl_min_spec (x : Rat) (xs : List Rat) :
    xs.foldl min x ∈ x :: xs ∧ ∀ z ∈ x :: xs, xs.foldl min x ≤ z := by
  induction xs generalizing x with
  | nil => simp
  | cons y ys ih =>
    simp only [List.foldl_cons]
    obtain ⟨h1, h2⟩ := ih (min x y)
    constructor
    · rcases List.mem_cons.mp h1 with h | h
      · rcases min_choice x y with hc | hc
        · rw [h, hc]; simp
        · rw [h, hc]; simp
      · simp [h]
    · intro z hz
      rcases List.mem_cons.mp hz with h | h
      · subst h; exact le_trans (h2 _ List.mem_cons_self) (min_le_left z y)
      · rcases List.mem_cons.mp h with h' | h'
        · subst h'; exact le_trans (h2 _ List.mem_cons_self) (min_le_right x z)
        · exact h2 _ (by simp [h'])

theorem minL_spec (d : Rat) (l : List Rat) (hne : l ≠ []) :
    minL d l ∈ l ∧ ∀ z ∈ l, minL d l ≤ z := by
  cases l with
  | nil => exact absurd rfl hne
  | cons x xs => exact foldl_min_spec x xs

/-- entry `j` of the anti-diagonal list used for `left[i]` -/
theorem antidiag_getElem? (op : Rat → Rat → Rat) (a b : List Rat) (i j : Nat)
    (hi : i < a.length) (hi' : i < b.length) (hj : j ≤ i) :
    (List.zipWith op (a.take (i + 1)) ((b.take (i + 1)).reverse))[j]? =
      some (op (a[j]'(by omega)) (b[i - j]'(by omega))) := by
  rw [List.getElem?_zipWith]
  have h1 : (a.take (i+1))[j]? = some (a[j]'(by omega)) := by
    rw [List.getElem?_take]; simp [show j < i + 1 by omega, show j < a.length by omega]
  have hlen : (b.take (i+1)).length = i + 1 := by simp; omega
  have h2 : ((b.take (i+1)).reverse)[j]? = some (b[i - j]'(by omega)) := by
    rw [List.getElem?_reverse (by rw [hlen]; omega), hlen, List.getElem?_take]
    simp [show i + 1 - 1 - j < i + 1 by omega, show i + 1 - 1 - j = i - j by omega, show i - j < b.length by omega]
    omega
  rw [h1, h2]

end Pun.PBox
