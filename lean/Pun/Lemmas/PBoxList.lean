import Pun.Model.PBox
import Pun.Lemmas.Frechet
import Mathlib.Data.List.Sort
import Mathlib.Algebra.Order.Field.Rat
import Mathlib.Algebra.Order.Field.Basic
set_option linter.unusedSimpArgs false
set_option linter.unusedVariables false
namespace Pun.PBox
open Pun

theorem foldl_max_spec (x : Rat) (xs : List Rat) :
    xs.foldl max x ∈ x :: xs ∧ ∀ z ∈ x :: xs, z ≤ xs.foldl max x := by
  induction xs generalizing x with
  | nil => simp
  | cons y ys ih =>
    simp only [List.foldl_cons]
    obtain ⟨h1, h2⟩ := ih (max x y)
    constructor
    · rcases List.mem_cons.mp h1 with h | h
      · rcases max_choice x y with hc | hc
        · rw [h, hc]; simp
        · rw [h, hc]; simp
      · simp [h]
    · intro z hz
      rcases List.mem_cons.mp hz with h | h
      · subst h; exact le_trans (le_max_left z y) (h2 _ List.mem_cons_self)
      · rcases List.mem_cons.mp h with h' | h'
        · subst h'; exact le_trans (le_max_right x z) (h2 _ List.mem_cons_self)
        · exact h2 _ (by simp [h'])

theorem maxL_spec (d : Rat) (l : List Rat) (hne : l ≠ []) :
    maxL d l ∈ l ∧ ∀ z ∈ l, z ≤ maxL d l := by
  cases l with
  | nil => exact absurd rfl hne
  | cons x xs => exact foldl_max_spec x xs

theorem foldl_min_spec (x : Rat) (xs : List Rat) :
    xs.foldl min x ∈ x :: xs ∧ ∀ z ∈ x :: xs, xs.foldl min x ≤ z := by
  induction xs generalizing x with
  | nil => simp
  | cons y ys ih =>
    simp only [List.foldl_cons]
    obtain ⟨h1, h2⟩ := ih (min x y)
    constructor
    · rcases List.mem_cons.mp h1 with h | h
      · rcases min_choice x y with hc | hc
        · rw [h, hc]; simp
        · rw [h, hc]; simp
      · simp [h]
    · intro z hz
      rcases List.mem_cons.mp hz with h | h
      · subst h; exact le_trans (h2 _ List.mem_cons_self) (min_le_left z y)
      · rcases List.mem_cons.mp h with h' | h'
        · subst h'; exact le_trans (h2 _ List.mem_cons_self) (min_le_right x z)
        · exact h2 _ (by simp [h'])

theorem minL_spec (d : Rat) (l : List Rat) (hne : l ≠ []) :
    minL d l ∈ l ∧ ∀ z ∈ l, minL d l ≤ z := by
  cases l with
  | nil => exact absurd rfl hne
  | cons x xs => exact foldl_min_spec x xs

/-- a p-box all of whose values lie in a set on which `1/x` is antitone (all positive, or all negative)
does not straddle zero, so `reciprocal` passes its guard -/
theorem straddlesZero_false_of_anti (P : PB) (p : Rat → Prop)
    (hpl : ∀ x ∈ P.left, p x) (hpr : ∀ x ∈ P.right, p x)
    (hg : ∀ x y : Rat, p x → p y → x ≤ y → 1 / y ≤ 1 / x) : straddlesZero P = false := by
  rw [Bool.eq_false_iff]
  intro hs
  unfold straddlesZero at hs
  simp only [Bool.and_eq_true, decide_eq_true_eq] at hs
  obtain ⟨h1, h2⟩ := hs
  have hl : P.left ≠ [] := by
    intro e; rw [e] at h1; simp [minL] at h1
  have hr : P.right ≠ [] := by
    intro e; rw [e] at h2; simp [maxL] at h2
  obtain ⟨m1, _⟩ := minL_spec 0 _ hl
  obtain ⟨m2, _⟩ := maxL_spec 0 _ hr
  have h3 := hg _ _ (hpl _ m1) (hpr _ m2) (le_of_lt (lt_trans h1 h2))
  have a : 0 < 1 / maxL 0 P.right := one_div_pos.mpr h2
  have b : 1 / minL 0 P.left < 0 := one_div_neg.mpr h1
  exact absurd (lt_of_lt_of_le a h3) (not_lt.mpr (le_of_lt b))

theorem straddlesZero_false_pos (P : PB) (hl : ∀ x ∈ P.left, 0 < x) (hr : ∀ x ∈ P.right, 0 < x) :
    straddlesZero P = false :=
  straddlesZero_false_of_anti P (fun x => 0 < x) hl hr
    (fun _ _ hx _ hxy => one_div_le_one_div_of_le hx hxy)

theorem straddlesZero_false_neg (P : PB) (hl : ∀ x ∈ P.left, x < 0) (hr : ∀ x ∈ P.right, x < 0) :
    straddlesZero P = false :=
  straddlesZero_false_of_anti P (fun x => x < 0) hl hr
    (fun _ _ hx hy hxy => (one_div_le_one_div_of_neg hy hx).mpr hxy)

/-- entry `j` of the anti-diagonal list used for `left[i]` -/
theorem antidiag_getElem? (op : Rat → Rat → Rat) (a b : List Rat) (i j : Nat)
    (hi : i < a.length) (hi' : i < b.length) (hj : j ≤ i) :
    (List.zipWith op (a.take (i + 1)) ((b.take (i + 1)).reverse))[j]? =
      some (op (a[j]'(by omega)) (b[i - j]'(by omega))) := by
  rw [List.getElem?_zipWith]
  have h1 : (a.take (i+1))[j]? = some (a[j]'(by omega)) := by
    rw [List.getElem?_take]; simp [show j < i + 1 by omega, show j < a.length by omega]
  have hlen : (b.take (i+1)).length = i + 1 := by simp; omega
  have h2 : ((b.take (i+1)).reverse)[j]? = some (b[i - j]'(by omega)) := by
    rw [List.getElem?_reverse (by rw [hlen]; omega), hlen, List.getElem?_take]
    simp [show i + 1 - 1 - j < i + 1 by omega, show i + 1 - 1 - j = i - j by omega, show i - j < b.length by omega]
    omega
  rw [h1, h2]

end Pun.PBox
