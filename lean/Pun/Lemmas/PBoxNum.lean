import Pun.Model.PBoxNum
import Pun.Lemmas.PBoxFrechet
namespace Pun.PBox.Num
end Pun.PBox.Num
