import Pun.Model.PBoxNum
import Pun.Lemmas.PBoxFrechet
import Mathlib.Data.List.Forall2
import Mathlib.Data.List.Sort
import Mathlib.Tactic.Linarith
import Mathlib.Tactic.Ring
import Mathlib.Algebra.Order.Field.Basic
/-!
# Lemmas for C06: the list-form and array-form constructor on ordered bound lists, sorting the
image of a sorted list under a monotone / antitone map, and the generic "steps are images"
statements for `numberOp`, `numberOpW`, `unaryTemplate`, `neg`, `recip`.

Everything is in the namespace `Pun.PBox.Num` (own copies of the few sorting facts proved in other
properties' files, so that no other property's module is imported).
-/
set_option linter.unusedSimpArgs false
set_option linter.unusedVariables false
namespace Pun.PBox.Num
open Pun Pun.PBox List

/-- well-formed p-box with `n` steps: both bounds sorted, `left ≤ right` step by step -/
structure WF (n : Nat) (P : PB) : Prop where
  lenL : P.left.length = n
  lenR : P.right.length = n
  sortedL : P.left.Pairwise (· ≤ ·)
  sortedR : P.right.Pairwise (· ≤ ·)
  le : Forall₂ (· ≤ ·) P.left P.right

/-! ## sorting -/

theorem sortR_perm (l : List Rat) : (sortR l).Perm l := List.mergeSort_perm l _

theorem sortR_sorted (l : List Rat) : (sortR l).Pairwise (· ≤ ·) := by
  have := List.pairwise_mergeSort (le := fun a b : Rat => decide (a ≤ b))
    (fun a b c h1 h2 => by simp at h1 h2 ⊢; exact le_trans h1 h2)
    (fun a b => by simp; exact le_total a b) l
  exact this.imp (fun h => by simpa using h)

/-- the sorted rearrangement of a list is unique -/
theorem sortR_eq (l m : List Rat) (hp : m.Perm l) (hs : m.Pairwise (· ≤ ·)) : sortR l = m :=
  ((sortR_perm l).trans hp.symm).eq_of_pairwise' (sortR_sorted l) hs

theorem map_sorted_of_mono (g : Rat → Rat) (p : Rat → Prop) (l : List Rat) (hp : ∀ x ∈ l, p x)
    (hg : ∀ x y, p x → p y → x ≤ y → g x ≤ g y) (s : l.Pairwise (· ≤ ·)) :
    (l.map g).Pairwise (· ≤ ·) := by
  rw [List.pairwise_map]
  exact s.imp_of_mem (fun ha hb h => hg _ _ (hp _ ha) (hp _ hb) h)

theorem map_rev_sorted_of_anti (g : Rat → Rat) (p : Rat → Prop) (l : List Rat) (hp : ∀ x ∈ l, p x)
    (hg : ∀ x y, p x → p y → x ≤ y → g y ≤ g x) (s : l.Pairwise (· ≤ ·)) :
    (l.reverse.map g).Pairwise (· ≤ ·) := by
  rw [List.pairwise_map, List.pairwise_reverse]
  exact s.imp_of_mem (fun ha hb h => hg _ _ (hp _ ha) (hp _ hb) h)

/-- sorting the image of a sorted list under a monotone map changes nothing -/
theorem sortR_map_mono (g : Rat → Rat) (p : Rat → Prop) (l : List Rat) (hp : ∀ x ∈ l, p x)
    (hg : ∀ x y, p x → p y → x ≤ y → g x ≤ g y) (s : l.Pairwise (· ≤ ·)) :
    sortR (l.map g) = l.map g :=
  sortR_of_sorted _ (map_sorted_of_mono g p l hp hg s)

/-- sorting the image of a sorted list under an antitone map reverses it -/
theorem sortR_map_anti (g : Rat → Rat) (p : Rat → Prop) (l : List Rat) (hp : ∀ x ∈ l, p x)
    (hg : ∀ x y, p x → p y → x ≤ y → g y ≤ g x) (s : l.Pairwise (· ≤ ·)) :
    sortR (l.map g) = l.reverse.map g :=
  sortR_eq _ _ ((List.reverse_perm l).map g) (map_rev_sorted_of_anti g p l hp hg s)

/-! ## ordered pairs of lists -/

theorem forall₂_map_mono (g : Rat → Rat) (p : Rat → Prop)
    (hg : ∀ x y, p x → p y → x ≤ y → g x ≤ g y) {l r : List Rat} (h : Forall₂ (· ≤ ·) l r)
    (hl : ∀ x ∈ l, p x) (hr : ∀ x ∈ r, p x) : Forall₂ (· ≤ ·) (l.map g) (r.map g) := by
  induction h with
  | nil => exact Forall₂.nil
  | @cons a b s t hab _ ih =>
    simp only [List.map_cons]
    exact Forall₂.cons (hg a b (hl a (by simp)) (hr b (by simp)) hab)
      (ih (fun x hx => hl x (by simp [hx])) (fun x hx => hr x (by simp [hx])))

theorem forall₂_map_anti (g : Rat → Rat) (p : Rat → Prop)
    (hg : ∀ x y, p x → p y → x ≤ y → g y ≤ g x) {l r : List Rat} (h : Forall₂ (· ≤ ·) l r)
    (hl : ∀ x ∈ l, p x) (hr : ∀ x ∈ r, p x) : Forall₂ (· ≤ ·) (r.map g) (l.map g) := by
  induction h with
  | nil => exact Forall₂.nil
  | @cons a b s t hab _ ih =>
    simp only [List.map_cons]
    exact Forall₂.cons (hg a b (hl a (by simp)) (hr b (by simp)) hab)
      (ih (fun x hx => hl x (by simp [hx])) (fun x hx => hr x (by simp [hx])))

theorem forall₂_reverse {l r : List Rat} (h : Forall₂ (· ≤ ·) l r) :
    Forall₂ (· ≤ ·) l.reverse r.reverse := forall₂_reverse_iff.mpr h

/-- a lower bound of `left` is a lower bound of `right` -/
theorem forall₂_lb {l r : List Rat} (h : Forall₂ (· ≤ ·) l r) (a : Rat) (hl : ∀ x ∈ l, a < x) :
    ∀ y ∈ r, a < y := by
  induction h with
  | nil => intro y hy; simp at hy
  | @cons u v s t huv _ ih =>
    intro y hy
    rcases List.mem_cons.mp hy with e | e
    · subst e; exact lt_of_lt_of_le (hl u (by simp)) huv
    · exact ih (fun x hx => hl x (by simp [hx])) y e

theorem forall₂_ub {l r : List Rat} (h : Forall₂ (· ≤ ·) l r) (a : Rat) (hr : ∀ y ∈ r, y < a) :
    ∀ x ∈ l, x < a := by
  induction h with
  | nil => intro y hy; simp at hy
  | @cons u v s t huv _ ih =>
    intro y hy
    rcases List.mem_cons.mp hy with e | e
    · subst e; exact lt_of_le_of_lt huv (hr v (by simp))
    · exact ih (fun x hx => hr x (by simp [hx])) y e

theorem forall₂_lb' {l r : List Rat} (h : Forall₂ (· ≤ ·) l r) (a : Rat) (hl : ∀ x ∈ l, a ≤ x) :
    ∀ y ∈ r, a ≤ y := by
  induction h with
  | nil => intro y hy; simp at hy
  | @cons u v s t huv _ ih =>
    intro y hy
    rcases List.mem_cons.mp hy with e | e
    · subst e; exact le_trans (hl u (by simp)) huv
    · exact ih (fun x hx => hl x (by simp [hx])) y e

theorem forall₂_ub' {l r : List Rat} (h : Forall₂ (· ≤ ·) l r) (a : Rat) (hr : ∀ y ∈ r, y ≤ a) :
    ∀ x ∈ l, x ≤ a := by
  induction h with
  | nil => intro y hy; simp at hy
  | @cons u v s t huv _ ih =>
    intro y hy
    rcases List.mem_cons.mp hy with e | e
    · subst e; exact le_trans huv (hr v (by simp))
    · exact ih (fun x hx => hr x (by simp [hx])) y e

/-! ## the constructor's left/right switch -/

theorem isIncreasing_of_sorted (l : List Rat) (h : l.Pairwise (· ≤ ·)) : isIncreasing l = true := by
  induction l with
  | nil => rfl
  | cons a t ih =>
    cases t with
    | nil => rfl
    | cons b u =>
      rw [List.pairwise_cons] at h
      simp only [isIncreasing, Bool.and_eq_true, decide_eq_true_eq]
      exact ⟨h.1 b (by simp), ih h.2⟩

/-- lexicographic `>=` of Python lists holds whenever `>=` holds entry by entry -/
theorem lexGe_of_ge {l r : List Rat} (h : Forall₂ (· ≤ ·) r l) : lexGe l r = true := by
  induction h with
  | nil => rfl
  | @cons b a t s hba _ ih =>
    unfold lexGe
    by_cases h1 : a > b
    · simp [h1]
    · have : ¬ a < b := not_lt.mpr hba
      simp [h1, this, ih]

/-- … and when `<=` holds entry by entry it can only hold for equal lists -/
theorem eq_of_lexGe_of_le {l r : List Rat} (h : Forall₂ (· ≤ ·) l r) (hge : lexGe l r = true) :
    l = r := by
  induction h with
  | nil => rfl
  | @cons a b s t hab _ ih =>
    unfold lexGe at hge
    have hnot : ¬ a > b := not_lt.mpr hab
    simp only [hnot, if_false] at hge
    by_cases hlt : a < b
    · simp [hlt] at hge
    · simp only [hlt, if_false] at hge
      rw [le_antisymm hab (not_lt.mp hlt), ih hge]

theorem eq_of_allGe_of_le {l r : List Rat} (h : Forall₂ (· ≤ ·) l r) (hge : allGe l r = true) :
    l = r := by
  induction h with
  | nil => rfl
  | @cons a b s t hab _ ih =>
    simp only [allGe, List.zip_cons_cons, List.all_cons, Bool.and_eq_true, decide_eq_true_eq] at hge
    have : allGe s t = true := by simpa [allGe] using hge.2
    rw [le_antisymm hab hge.1, ih this]

/-- pointwise `l ≤ r`: the crossing test of the constructor does not fire -/
theorem no_cross_of_le {l r : List Rat} (h : Forall₂ (· ≤ ·) l r) :
    (l.zip r).any (fun p => decide (p.1 > p.2)) = false := by
  induction h with
  | nil => simp
  | @cons a b s t hab _ ih =>
    simp only [List.zip_cons_cons, List.any_cons, Bool.or_eq_false_iff, decide_eq_false_iff_not, not_lt]
    exact ⟨hab, ih⟩

/-- list-form constructor, bounds in the right order: accepted unchanged -/
theorem mk_list_le (n : Nat) (l r : List Rat) (hl : l.length = n) (hr : r.length = n)
    (sl : l.Pairwise (· ≤ ·)) (sr : r.Pairwise (· ≤ ·)) (h : Forall₂ (· ≤ ·) l r) :
    mk n true l r = .ok ⟨l, r⟩ := by
  have il := isIncreasing_of_sorted l sl
  have ir := isIncreasing_of_sorted r sr
  have nc := no_cross_of_le h
  by_cases hge : lexGe l r = true
  · have e := eq_of_lexGe_of_le h hge
    subst e
    simp [mk, hge, boundSteps, hl, il, nc, bind, Except.bind]
  · simp [mk, hge, boundSteps, hl, hr, il, ir, nc, bind, Except.bind]

/-- list-form constructor, bounds handed over in the wrong order: exchanged -/
theorem mk_list_ge (n : Nat) (l r : List Rat) (hl : l.length = n) (hr : r.length = n)
    (sl : l.Pairwise (· ≤ ·)) (sr : r.Pairwise (· ≤ ·)) (h : Forall₂ (· ≤ ·) r l) :
    mk n true l r = .ok ⟨r, l⟩ := by
  have il := isIncreasing_of_sorted l sl
  have ir := isIncreasing_of_sorted r sr
  have hge := lexGe_of_ge h
  have nc := no_cross_of_le h
  simp [mk, hge, boundSteps, hl, hr, il, ir, nc, bind, Except.bind]

/-- array-form constructor, bounds in the right order: accepted unchanged -/
theorem mk_arr_le (n : Nat) (l r : List Rat) (hl : l.length = n) (hr : r.length = n)
    (sl : l.Pairwise (· ≤ ·)) (sr : r.Pairwise (· ≤ ·)) (h : Forall₂ (· ≤ ·) l r) :
    mk n false l r = .ok ⟨l, r⟩ := by
  have il := isIncreasing_of_sorted l sl
  have ir := isIncreasing_of_sorted r sr
  have hlen : l.length = r.length := by omega
  have nc := no_cross_of_le h
  by_cases hge : allGe l r = true
  · have e := eq_of_allGe_of_le h hge
    subst e
    simp [mk, hge, boundSteps, hl, il, nc, bind, Except.bind]
  · simp [mk, hlen, hge, boundSteps, hl, hr, il, ir, nc, bind, Except.bind]

/-! ## images of a well-formed p-box -/

theorem wf_map_mono (n : Nat) (P : PB) (h : WF n P) (g : Rat → Rat) (p : Rat → Prop)
    (hpl : ∀ x ∈ P.left, p x) (hpr : ∀ x ∈ P.right, p x)
    (hg : ∀ x y, p x → p y → x ≤ y → g x ≤ g y) : WF n ⟨P.left.map g, P.right.map g⟩ :=
  ⟨by simp [h.lenL], by simp [h.lenR], map_sorted_of_mono g p _ hpl hg h.sortedL,
    map_sorted_of_mono g p _ hpr hg h.sortedR, forall₂_map_mono g p hg h.le hpl hpr⟩

theorem wf_map_anti (n : Nat) (P : PB) (h : WF n P) (g : Rat → Rat) (p : Rat → Prop)
    (hpl : ∀ x ∈ P.left, p x) (hpr : ∀ x ∈ P.right, p x)
    (hg : ∀ x y, p x → p y → x ≤ y → g y ≤ g x) :
    WF n ⟨P.right.reverse.map g, P.left.reverse.map g⟩ :=
  ⟨by simp [h.lenR], by simp [h.lenL], map_rev_sorted_of_anti g p _ hpr hg h.sortedR,
    map_rev_sorted_of_anti g p _ hpl hg h.sortedL,
    forall₂_map_anti g p hg (forall₂_reverse h.le) (fun x hx => hpl x (by simpa using hx))
      (fun x hx => hpr x (by simpa using hx))⟩

/-- `pbox_number_ops` with supplied values of an increasing map -/
theorem numberOpW_mono (n : Nat) (P : PB) (h : WF n P) (g : Rat → Rat) (p : Rat → Prop)
    (hpl : ∀ x ∈ P.left, p x) (hpr : ∀ x ∈ P.right, p x)
    (hg : ∀ x y, p x → p y → x ≤ y → g x ≤ g y) :
    numberOpW n (P.left.map g) (P.right.map g) = .ok ⟨P.left.map g, P.right.map g⟩ := by
  unfold numberOpW
  rw [sortR_map_mono g p _ hpl hg h.sortedL, sortR_map_mono g p _ hpr hg h.sortedR]
  have w := wf_map_mono n P h g p hpl hpr hg
  exact mk_list_le n _ _ w.lenL w.lenR w.sortedL w.sortedR w.le

/-- `pbox_number_ops` with supplied values of a decreasing map: bounds exchanged, order reversed -/
theorem numberOpW_anti (n : Nat) (P : PB) (h : WF n P) (g : Rat → Rat) (p : Rat → Prop)
    (hpl : ∀ x ∈ P.left, p x) (hpr : ∀ x ∈ P.right, p x)
    (hg : ∀ x y, p x → p y → x ≤ y → g y ≤ g x) :
    numberOpW n (P.left.map g) (P.right.map g) =
      .ok ⟨P.right.reverse.map g, P.left.reverse.map g⟩ := by
  unfold numberOpW
  rw [sortR_map_anti g p _ hpl hg h.sortedL, sortR_map_anti g p _ hpr hg h.sortedR]
  have w := wf_map_anti n P h g p hpl hpr hg
  exact mk_list_ge n _ _ w.lenR w.lenL w.sortedR w.sortedL w.le

theorem numberOp_eq_W (n : Nat) (f : Rat → Rat → Rat) (P : PB) (c : Rat) :
    numberOp n f P c = numberOpW n (P.left.map (f · c)) (P.right.map (f · c)) := rfl

theorem numberOp_mono (n : Nat) (f : Rat → Rat → Rat) (P : PB) (c : Rat) (h : WF n P)
    (p : Rat → Prop) (hpl : ∀ x ∈ P.left, p x) (hpr : ∀ x ∈ P.right, p x)
    (hg : ∀ x y, p x → p y → x ≤ y → f x c ≤ f y c) :
    numberOp n f P c = .ok ⟨P.left.map (f · c), P.right.map (f · c)⟩ :=
  numberOpW_mono n P h (f · c) p hpl hpr hg

theorem numberOp_anti (n : Nat) (f : Rat → Rat → Rat) (P : PB) (c : Rat) (h : WF n P)
    (p : Rat → Prop) (hpl : ∀ x ∈ P.left, p x) (hpr : ∀ x ∈ P.right, p x)
    (hg : ∀ x y, p x → p y → x ≤ y → f y c ≤ f x c) :
    numberOp n f P c = .ok ⟨P.right.reverse.map (f · c), P.left.reverse.map (f · c)⟩ :=
  numberOpW_anti n P h (f · c) p hpl hpr hg

/-- `_unary_template` with the values of an increasing map -/
theorem unaryTemplate_mono (n : Nat) (P : PB) (h : WF n P) (g : Rat → Rat) (p : Rat → Prop)
    (hpl : ∀ x ∈ P.left, p x) (hpr : ∀ x ∈ P.right, p x)
    (hg : ∀ x y, p x → p y → x ≤ y → g x ≤ g y) :
    unaryTemplate n (P.left.map g) (P.right.map g) = .ok ⟨P.left.map g, P.right.map g⟩ := by
  have w := wf_map_mono n P h g p hpl hpr hg
  exact mk_arr_le n _ _ w.lenL w.lenR w.sortedL w.sortedR w.le

/-- `-P`: steps negated, listed in reverse order, bounds exchanged -/
theorem neg_ok (n : Nat) (P : PB) (h : WF n P) :
    neg n P = .ok ⟨P.right.reverse.map (- ·), P.left.reverse.map (- ·)⟩ := by
  have hg : ∀ x y : Rat, True → True → x ≤ y → -y ≤ -x := fun x y _ _ hxy => by linarith
  have w := wf_map_anti n P h (- ·) (fun _ => True) (fun _ _ => trivial) (fun _ _ => trivial) hg
  unfold neg
  rw [sortR_of_sorted _ w.sortedL, sortR_of_sorted _ w.sortedR]
  exact mk_list_le n _ _ w.lenL w.lenR w.sortedL w.sortedR w.le

theorem neg_wf (n : Nat) (P : PB) (h : WF n P) :
    WF n ⟨P.right.reverse.map (- ·), P.left.reverse.map (- ·)⟩ :=
  wf_map_anti n P h (- ·) (fun _ => True) (fun _ _ => trivial) (fun _ _ => trivial)
    (fun x y _ _ hxy => by linarith)

theorem hasZero_false (l : List Rat) (h : ∀ x ∈ l, x ≠ 0) : hasZero l = false := by
  unfold hasZero
  rw [List.any_eq_false]
  intro x hx
  simpa using h x hx

/-- `P.reciprocal()` when `1/x` is antitone on the values of `P` (all positive or all negative) -/
theorem recip_ok (n : Nat) (P : PB) (h : WF n P) (p : Rat → Prop)
    (hpl : ∀ x ∈ P.left, p x) (hpr : ∀ x ∈ P.right, p x) (hne : ∀ x, p x → x ≠ 0)
    (hg : ∀ x y : Rat, p x → p y → x ≤ y → 1 / y ≤ 1 / x) :
    recip n P = .ok ⟨P.right.reverse.map (1 / ·), P.left.reverse.map (1 / ·)⟩ := by
  have w := wf_map_anti n P h (1 / ·) p hpl hpr hg
  unfold recip
  rw [straddlesZero_false_of_anti P p hpl hpr hg,
    hasZero_false _ (fun x hx => hne x (hpl x hx)), hasZero_false _ (fun x hx => hne x (hpr x hx))]
  simp only [Bool.or_self, Bool.false_eq_true, if_false]
  exact mk_arr_le n _ _ w.lenL w.lenR w.sortedL w.sortedR w.le

theorem recip_anti_pos : ∀ x y : Rat, 0 < x → 0 < y → x ≤ y → 1 / y ≤ 1 / x :=
  fun x y hx _ hxy => one_div_le_one_div_of_le hx hxy

theorem recip_anti_neg : ∀ x y : Rat, x < 0 → y < 0 → x ≤ y → 1 / y ≤ 1 / x :=
  fun x y hx hy hxy => (one_div_le_one_div_of_neg hy hx).mpr hxy

end Pun.PBox.Num
