import Pun.Model.FrechetInterp
import Mathlib.Tactic.Linarith
import Mathlib.Tactic.Ring
import Mathlib.Data.List.Basic
namespace Pun.FrechetInterp
open Pun Pun.PBox

/-- reading `a` at a non-negative index -/
theorem pick_nonneg (a : List Rat) (k : Nat) (h : k < a.length) :
    (if 0 ≤ (k : Int) then a.getD (k : Int).toNat 0 else a.getD (a.length - (-(k : Int)).toNat) 0) = a[k] := by
  simp [List.getD_eq_getElem?_getD, h]

theorem gather_up (a : List Rat) (i : Nat) (hi : i ≤ a.length) :
    gather a (arange (i : Int) (a.length : Int) 1) = a.drop i := by
  unfold gather arange
  simp only [if_true, List.map_map]
  apply List.ext_getElem
  · simp
  · intro t h1 h2
    simp only [List.length_drop] at h2
    simp only [List.getElem_map, List.getElem_range, Function.comp]
    have e : (i : Int) + Int.ofNat t = ((i + t : Nat) : Int) := by simp
    rw [e, pick_nonneg a (i + t) (by omega), List.getElem_drop]

theorem gather_down (b : List Rat) (i : Nat) (hi : i ≤ b.length) :
    gather b (arange ((b.length : Int) - 1) ((i : Int) - 1) (-1)) = (b.drop i).reverse := by
  unfold gather arange
  simp only [show ((-1 : Int) = 1) = False by simp, if_false, if_true, List.map_map]
  apply List.ext_getElem
  · simp
  · intro t h1 h2
    simp only [List.length_reverse, List.length_drop] at h2
    simp only [List.getElem_map, List.getElem_range, Function.comp]
    have e : (b.length : Int) - 1 - Int.ofNat t = ((b.length - 1 - t : Nat) : Int) := by
      simp; omega
    rw [e, pick_nonneg b (b.length - 1 - t) (by omega), List.getElem_reverse, List.getElem_drop]
    congr 1
    simp only [List.length_drop]; omega

theorem gather_take (a : List Rat) (i : Nat) (hi : i < a.length) :
    gather a (arange 0 ((i : Int) + 1) 1) = a.take (i + 1) := by
  unfold gather arange
  simp only [if_true, List.map_map]
  apply List.ext_getElem
  · simp; omega
  · intro t h1 h2
    simp only [List.length_take] at h2
    simp only [List.getElem_map, List.getElem_range, Function.comp]
    have e : (0 : Int) + Int.ofNat t = ((t : Nat) : Int) := by simp
    rw [e, pick_nonneg a t (by omega), List.getElem_take]

theorem gather_take_rev (b : List Rat) (i : Nat) (hi : i < b.length) :
    gather b (arange (i : Int) (-1) (-1)) = (b.take (i + 1)).reverse := by
  unfold gather arange
  simp only [show ((-1 : Int) = 1) = False by simp, if_false, if_true, List.map_map]
  apply List.ext_getElem
  · simp; omega
  · intro t h1 h2
    simp only [List.length_reverse, List.length_take] at h2
    simp only [List.getElem_map, List.getElem_range, Function.comp]
    have ht : t ≤ i := by omega
    have e : (i : Int) - Int.ofNat t = ((i - t : Nat) : Int) := by
      simp; omega
    rw [e, pick_nonneg b (i - t) (by omega), List.getElem_reverse, List.getElem_take]
    congr 1
    simp only [List.length_take]; omega
end Pun.FrechetInterp
