import Pun.Model.Hier
import Pun.Lemmas.PBoxFrechet
namespace Pun.Hier
end Pun.Hier
