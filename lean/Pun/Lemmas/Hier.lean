import Pun.Model.Hier
import Pun.Lemmas.PBoxFrechet
import Pun.Lemmas.Hull
import Mathlib.Data.List.Forall2
import Mathlib.Tactic.Linarith
import Mathlib.Tactic.Ring
import Mathlib.Algebra.Order.Field.Basic
/-!
# Constant p-boxes (embedded intervals) are closed under every primitive of the p-box model

`ofIvl n a b = ⟨replicate n a, replicate n b⟩`.  Each primitive of `Pun.PBox` maps constant
p-boxes to constant p-boxes; the lemmas here compute the constants.
-/
set_option linter.unusedSimpArgs false
set_option linter.unusedVariables false
namespace Pun.Hier
open Pun Pun.PBox

@[simp] theorem ok_bind {α β : Type} (a : α) (f : α → Except Err β) :
    ((Except.ok a : Except Err α) >>= f) = f a := rfl

@[simp] theorem error_bind {α β : Type} (e : Err) (f : α → Except Err β) :
    ((Except.error e : Except Err α) >>= f) = Except.error e := rfl

/-! ## lists of one repeated value -/

theorem sortR_replicate (n : Nat) (v : Rat) : sortR (List.replicate n v) = List.replicate n v :=
  sortR_of_sorted _ (List.pairwise_replicate.mpr (Or.inr (le_refl v)))

theorem isIncreasing_of_pairwise : ∀ (l : List Rat), l.Pairwise (· ≤ ·) → isIncreasing l = true
  | [], _ => rfl
  | [_], _ => rfl
  | a :: b :: t, h => by
    have h1 : a ≤ b := (List.pairwise_cons.mp h).1 b (by simp)
    have h2 := isIncreasing_of_pairwise (b :: t) (List.pairwise_cons.mp h).2
    simp [isIncreasing, h1, h2]

theorem isIncreasing_replicate (n : Nat) (v : Rat) : isIncreasing (List.replicate n v) = true :=
  isIncreasing_of_pairwise _ (List.pairwise_replicate.mpr (Or.inr (le_refl v)))

theorem maxL_replicate (d : Rat) (n : Nat) (v : Rat) (hn : 0 < n) : maxL d (List.replicate n v) = v := by
  have hne : List.replicate n v ≠ [] := by
    intro h; have := congrArg List.length h; simp at this; omega
  obtain ⟨hm, -⟩ := maxL_spec d _ hne
  exact List.eq_of_mem_replicate hm

theorem minL_replicate (d : Rat) (n : Nat) (v : Rat) (hn : 0 < n) : minL d (List.replicate n v) = v := by
  have hne : List.replicate n v ≠ [] := by
    intro h; have := congrArg List.length h; simp at this; omega
  obtain ⟨hm, -⟩ := minL_spec d _ hne
  exact List.eq_of_mem_replicate hm

theorem lexGe_replicate (n : Nat) (u v : Rat) (hn : 0 < n) :
    lexGe (List.replicate n u) (List.replicate n v) = decide (u ≥ v) := by
  induction n with
  | zero => omega
  | succ k ih =>
    simp only [List.replicate_succ, lexGe]
    rcases lt_trichotomy u v with h | h | h
    · simp [h, not_lt.mpr (le_of_lt h), not_le.mpr h]
    · subst h
      simp only [lt_irrefl, if_false, ge_iff_le, le_refl, decide_true]
      cases k with
      | zero => simp [lexGe]
      | succ m => simpa using ih (by omega)
    · simp [h, le_of_lt h]

theorem allGe_replicate (n : Nat) (u v : Rat) (hn : 0 < n) :
    allGe (List.replicate n u) (List.replicate n v) = decide (u ≥ v) := by
  unfold allGe
  rw [List.zip_replicate', List.all_replicate]
  simp [Nat.pos_iff_ne_zero.mp hn]

theorem condenseIdx_lt (len n k : Nat) (hlen : 0 < len) (hk : k < n) : condenseIdx len n k < len := by
  unfold condenseIdx
  split
  · exact hlen
  · rename_i h
    have h1 : k ≤ n - 1 := by omega
    have h2 : k * (len - 1) ≤ (n - 1) * (len - 1) := Nat.mul_le_mul_right _ h1
    have h3 : k * (len - 1) / (n - 1) ≤ len - 1 := by
      calc k * (len - 1) / (n - 1) ≤ (n - 1) * (len - 1) / (n - 1) := Nat.div_le_div_right h2
        _ = len - 1 := Nat.mul_div_cancel_left _ (by omega)
    omega

theorem condense_replicate (n m : Nat) (v : Rat) (hm : 0 < m) :
    condense n (List.replicate m v) = List.replicate n v := by
  unfold condense
  apply List.ext_getElem
  · simp
  · intro i h1 h2
    simp only [List.length_map, List.length_range] at h1
    have := condenseIdx_lt m n i hm h1
    simp [List.getD_eq_getElem?_getD, List.getElem?_replicate, this]

theorem boundSteps_replicate (n m : Nat) (v : Rat) (hm : 0 < m) (hnm : n ≤ m) :
    boundSteps n (List.replicate m v) = .ok (List.replicate n v) := by
  unfold boundSteps
  simp only [List.length_replicate]
  by_cases h : m > n
  · simp [h, condense_replicate n m v hm]
  · have : m = n := by omega
    subst this; simp

/-- the constructor's crossing test passes when `left ≤ right` step by step -/
theorem no_cross_of_le : ∀ (l r : List Rat), List.Forall₂ (· ≤ ·) l r →
    (l.zip r).any (fun p => decide (p.1 > p.2)) = false
  | _, _, .nil => rfl
  | _, _, .cons (a := a) (b := b) hab htl => by
    simp only [List.zip_cons_cons, List.any_cons, gt_iff_lt, not_lt.mpr hab, decide_false, Bool.false_or]
    exact no_cross_of_le _ _ htl

theorem no_cross_replicate (n : Nat) (u v : Rat) (h : u ≤ v) :
    ((List.replicate n u).zip (List.replicate n v)).any (fun p => decide (p.1 > p.2)) = false := by
  rw [List.zip_replicate', List.any_replicate]
  simp [not_lt.mpr h]

/-- the constructor on two constant lists (possibly longer than `steps`): the constant p-box with
the two values in order (the `left ≥ right` switch of either form exchanges them) -/
theorem mk_replicate (n m : Nat) (lists : Bool) (u v : Rat) (hn : 0 < n) (hnm : n ≤ m) :
    mk n lists (List.replicate m u) (List.replicate m v) = .ok (ofIvl n (min u v) (max u v)) := by
  have hm : 0 < m := by omega
  have hsw : (if lists then lexGe (List.replicate m u) (List.replicate m v)
      else (if (List.replicate m u).length = (List.replicate m v).length
        then allGe (List.replicate m u) (List.replicate m v) else false)) = decide (u ≥ v) := by
    cases lists <;> simp [lexGe_replicate m u v hm, allGe_replicate m u v hm]
  unfold mk
  simp only [hsw]
  by_cases h : u ≥ v
  · simp only [h, decide_true, if_true]
    show (boundSteps n (List.replicate m v) >>= fun l => boundSteps n (List.replicate m u) >>= fun r => _) = _
    rw [boundSteps_replicate n m v hm hnm]; simp only [ok_bind]
    rw [boundSteps_replicate n m u hm hnm]; simp only [ok_bind]
    simp [isIncreasing_replicate, ofIvl, min_eq_right h, max_eq_left h]
    exact fun _ => h
  · simp only [h, decide_false, if_false, Bool.false_eq_true]
    show (boundSteps n (List.replicate m u) >>= fun l => boundSteps n (List.replicate m v) >>= fun r => _) = _
    rw [boundSteps_replicate n m u hm hnm]; simp only [ok_bind]
    rw [boundSteps_replicate n m v hm hnm]; simp only [ok_bind]
    have h' : u ≤ v := le_of_lt (not_le.mp h)
    simp [isIncreasing_replicate, ofIvl, min_eq_left h', max_eq_right h']
    exact fun _ => h'

/-! ## the combination rules on constant lists -/

theorem frechetLeftRaw_replicate (op : Rat → Rat → Rat) (n : Nat) (a c : Rat) :
    frechetLeftRaw op (List.replicate n a) (List.replicate n c) = List.replicate n (op a c) := by
  unfold frechetLeftRaw
  apply List.ext_getElem
  · simp
  · intro i h1 h2
    simp only [List.length_map, List.length_range, List.length_replicate] at h1
    simp only [List.getElem_map, List.getElem_range, List.take_replicate, List.reverse_replicate,
      List.zipWith_replicate, List.getElem_replicate]
    exact maxL_replicate 0 _ _ (by omega)

theorem frechetRightRaw_replicate (op : Rat → Rat → Rat) (n : Nat) (b d : Rat) :
    frechetRightRaw op (List.replicate n b) (List.replicate n d) = List.replicate n (op b d) := by
  unfold frechetRightRaw
  apply List.ext_getElem
  · simp
  · intro i h1 h2
    simp only [List.length_map, List.length_range, List.length_replicate] at h1
    simp only [List.getElem_map, List.getElem_range, List.drop_replicate, List.reverse_replicate,
      List.zipWith_replicate, List.getElem_replicate]
    exact minL_replicate 0 _ _ (by omega)

theorem frechetOp_ofIvl (op : Rat → Rat → Rat) (n : Nat) (a b c d : Rat) :
    frechetOp op (ofIvl n a b) (ofIvl n c d) = (List.replicate n (op a c), List.replicate n (op b d)) := by
  simp [frechetOp, ofIvl, frechetLeftRaw_replicate, frechetRightRaw_replicate, sortR_replicate]

theorem zip4_replicate (f : Rat → Rat → Rat → Rat → Rat) (n : Nat) (p q r s : Rat) :
    zip4 f (List.replicate n p) (List.replicate n q) (List.replicate n r) (List.replicate n s) =
      List.replicate n (f p q r s) := by
  induction n with
  | zero => simp [zip4]
  | succ k ih => simp [List.replicate_succ, zip4, ih]

theorem cornerPair_replicate (op : Rat → Rat → Rat) (n : Nat) (a b c d : Rat) :
    cornerPair op (List.replicate n a) (List.replicate n b) (List.replicate n c) (List.replicate n d) =
      (List.replicate n (min4 (op a c) (op a d) (op b c) (op b d)),
       List.replicate n (max4 (op a c) (op a d) (op b c) (op b d))) := by
  simp [cornerPair, List.zipWith_replicate, zip4_replicate]

theorem perfectOp_ofIvl (op : Rat → Rat → Rat) (n : Nat) (a b c d : Rat) :
    perfectOp op (ofIvl n a b) (ofIvl n c d) =
      (List.replicate n (min4 (op a c) (op a d) (op b c) (op b d)),
       List.replicate n (max4 (op a c) (op a d) (op b c) (op b d))) := by
  simp [perfectOp, ofIvl, cornerPair_replicate, sortR_replicate]

theorem oppositeOp_ofIvl (op : Rat → Rat → Rat) (n : Nat) (a b c d : Rat) :
    oppositeOp op (ofIvl n a b) (ofIvl n c d) =
      (List.replicate n (min4 (op a c) (op a d) (op b c) (op b d)),
       List.replicate n (max4 (op a c) (op a d) (op b c) (op b d))) := by
  simp [oppositeOp, ofIvl, List.reverse_replicate, cornerPair_replicate, sortR_replicate]

theorem cartesian_replicate (op : Rat → Rat → Rat) (n m : Nat) (a c : Rat) :
    cartesian op (List.replicate n a) (List.replicate m c) = List.replicate (n * m) (op a c) := by
  unfold cartesian
  rw [List.flatMap_replicate, List.map_replicate]
  induction n with
  | zero => simp
  | succ k ih => rw [List.replicate_succ, List.flatten_cons, ih, Nat.succ_mul, Nat.add_comm,
      List.replicate_add]

theorem cornersSorted_ofIvl (op : Rat → Rat → Rat) (n : Nat) (a b c d : Rat) :
    cornersSorted op (ofIvl n a b) (ofIvl n c d) =
      (List.replicate (n * n) (min4 (op a c) (op a d) (op b c) (op b d)),
       List.replicate (n * n) (max4 (op a c) (op a d) (op b c) (op b d))) := by
  simp [cornersSorted, ofIvl, cartesian_replicate, zip4_replicate, sortR_replicate]

theorem min4_le_max4 (p q r s : Rat) : min4 p q r s ≤ max4 p q r s := by
  unfold min4 max4
  exact le_trans (min_le_left _ _) (le_trans (min_le_left _ _) (le_trans (min_le_left _ _)
    (le_trans (le_max_left p q) (le_trans (le_max_left _ r) (le_max_left _ s)))))

/-! ## hull of the four corners (model's association) and the C01 association -/

theorem min4_arith (p q r s : Rat) : min4 p q r s = Arith.min4 p q r s := by
  unfold min4 Arith.min4; rw [min_assoc (min p q) r s]

theorem max4_arith (p q r s : Rat) : max4 p q r s = Arith.max4 p q r s := by
  unfold max4 Arith.max4; rw [max_assoc (max p q) r s]

/-! ## public methods on constant p-boxes -/

theorem mk_ofIvl (n : Nat) (lists : Bool) (u v : Rat) (hn : 0 < n) (h : u ≤ v) :
    mk n lists (List.replicate n u) (List.replicate n v) = .ok (ofIvl n u v) := by
  rw [mk_replicate n n lists u v hn (le_refl n), min_eq_left h, max_eq_right h]

theorem mk_ofIvl_sq (n : Nat) (lists : Bool) (u v : Rat) (hn : 0 < n) (h : u ≤ v) :
    mk n lists (List.replicate (n * n) u) (List.replicate (n * n) v) = .ok (ofIvl n u v) := by
  rw [mk_replicate n (n * n) lists u v hn (Nat.le_mul_of_pos_left n hn), min_eq_left h, max_eq_right h]

/-- `Interval(a,b).to_pbox()` -/
theorem ivlToPbox_eq (n : Nat) (a b : Rat) (hn : 0 < n) (h : a ≤ b) :
    ivlToPbox n a b = .ok (ofIvl n a b) := mk_ofIvl n false a b hn h

/-- sum of two embedded intervals under any of the four dependencies -/
theorem add_ofIvl (n : Nat) (dep : Dep) (hd : dep ≠ .unknown) (a b c d : Rat) (hn : 0 < n)
    (hab : a ≤ b) (hcd : c ≤ d) :
    add n dep (ofIvl n a b) (ofIvl n c d) = .ok (ofIvl n (a + c) (b + d)) := by
  have e1 : min4 (a + c) (a + d) (b + c) (b + d) = a + c := by
    unfold min4
    rw [min_eq_left (by linarith : a + c ≤ a + d), min_eq_left (by linarith : a + c ≤ b + c),
      min_eq_left (by linarith : a + c ≤ b + d)]
  have e2 : max4 (a + c) (a + d) (b + c) (b + d) = b + d := by
    unfold max4
    exact max_eq_right (max_le (max_le (by linarith) (by linarith)) (by linarith))
  have hle : a + c ≤ b + d := by linarith
  cases dep with
  | f => simp only [add, frechetOp_ofIvl]; exact mk_ofIvl n false _ _ hn hle
  | p => simp only [add, perfectOp_ofIvl, e1, e2]; exact mk_ofIvl n false _ _ hn hle
  | o => simp only [add, oppositeOp_ofIvl, e1, e2]; exact mk_ofIvl n false _ _ hn hle
  | i => simp only [add, independentOp, cornersSorted_ofIvl, e1, e2]; exact mk_ofIvl_sq n false _ _ hn hle
  | unknown => exact absurd rfl hd

theorem neg_ofIvl (n : Nat) (a b : Rat) (hn : 0 < n) (hab : a ≤ b) :
    neg n (ofIvl n a b) = .ok (ofIvl n (-b) (-a)) := by
  unfold neg
  simp only [ofIvl, List.reverse_replicate, List.map_replicate, sortR_replicate]
  exact mk_ofIvl n true _ _ hn (by linarith)

theorem swapPO_ne_unknown (d : Dep) (hd : d ≠ .unknown) : swapPO d ≠ .unknown := by
  cases d <;> simp [swapPO] at hd ⊢

/-- difference of two embedded intervals under any dependency -/
theorem sub_ofIvl (n : Nat) (dep : Dep) (hd : dep ≠ .unknown) (a b c d : Rat) (hn : 0 < n)
    (hab : a ≤ b) (hcd : c ≤ d) :
    sub n dep (ofIvl n a b) (ofIvl n c d) = .ok (ofIvl n (a - d) (b - c)) := by
  unfold sub
  show (neg n (ofIvl n c d) >>= fun ny => add n (swapPO dep) (ofIvl n a b) ny) = _
  rw [neg_ofIvl n c d hn hcd, ok_bind,
    add_ofIvl n (swapPO dep) (swapPO_ne_unknown dep hd) a b (-d) (-c) hn hab (by linarith)]
  simp [sub_eq_add_neg]

/-- product of two embedded intervals under perfect / opposite / independent dependence:
the four-corner hull for every sign -/
theorem mul_ofIvl_poi (n : Nat) (dep : Dep) (hd : dep = .p ∨ dep = .o ∨ dep = .i) (a b c d : Rat)
    (hn : 0 < n) :
    mul n dep (ofIvl n a b) (ofIvl n c d) =
      .ok (ofIvl n (min4 (a*c) (a*d) (b*c) (b*d)) (max4 (a*c) (a*d) (b*c) (b*d))) := by
  rcases hd with h | h | h <;> subst h
  · simp only [mul, perfectOp_ofIvl]; exact mk_ofIvl n false _ _ hn (min4_le_max4 _ _ _ _)
  · simp only [mul, oppositeOp_ofIvl]; exact mk_ofIvl n false _ _ hn (min4_le_max4 _ _ _ _)
  · simp only [mul, independentOp, cornersSorted_ofIvl]; exact mk_ofIvl_sq n false _ _ hn (min4_le_max4 _ _ _ _)

theorem hasZero_replicate (n : Nat) (v : Rat) (hn : 0 < n) : hasZero (List.replicate n v) = decide (v = 0) := by
  unfold hasZero
  rw [List.any_replicate]
  simp only [Nat.pos_iff_ne_zero.mp hn, if_false]
  rw [Bool.eq_iff_iff]; simp

theorem one_div_anti (c d : Rat) (hcd : c ≤ d) (h0 : 0 < c ∨ d < 0) : 1 / d ≤ 1 / c := by
  rcases h0 with h | h
  · exact one_div_le_one_div_of_le h hcd
  · rw [one_div, one_div]; exact (inv_le_inv_of_neg h (lt_of_le_of_lt hcd h)).mpr hcd

/-- reciprocal of an embedded interval not containing zero -/
theorem recip_ofIvl (n : Nat) (c d : Rat) (hn : 0 < n) (hcd : c ≤ d) (h0 : 0 < c ∨ d < 0) :
    recip n (ofIvl n c d) = .ok (ofIvl n (1 / d) (1 / c)) := by
  have hc : c ≠ 0 := by rcases h0 with h | h <;> intro e <;> linarith
  have hd : d ≠ 0 := by rcases h0 with h | h <;> intro e <;> linarith
  have hle : 1 / d ≤ 1 / c := one_div_anti c d hcd h0
  have hs : straddlesZero (ofIvl n c d) = false := by
    rcases h0 with h | h
    · exact straddlesZero_false_pos _ (fun x hx => by
        simp only [ofIvl] at hx; rw [List.eq_of_mem_replicate hx]; exact h)
        (fun x hx => by simp only [ofIvl] at hx; rw [List.eq_of_mem_replicate hx]; exact lt_of_lt_of_le h hcd)
    · exact straddlesZero_false_neg _ (fun x hx => by
        simp only [ofIvl] at hx; rw [List.eq_of_mem_replicate hx]; exact lt_of_le_of_lt hcd h)
        (fun x hx => by simp only [ofIvl] at hx; rw [List.eq_of_mem_replicate hx]; exact h)
  unfold recip
  rw [hs]
  simp only [ofIvl, hasZero_replicate n _ hn, hc, hd, decide_false, Bool.or_self, Bool.false_eq_true,
    if_false, List.reverse_replicate, List.map_replicate]
  exact mk_ofIvl n false _ _ hn hle

/-- number operation on an embedded interval (`pbox_number_ops`) -/
theorem numberOp_ofIvl (n : Nat) (f : Rat → Rat → Rat) (a b c : Rat) (hn : 0 < n) :
    numberOp n f (ofIvl n a b) c = .ok (ofIvl n (min (f a c) (f b c)) (max (f a c) (f b c))) := by
  unfold numberOp
  simp only [ofIvl, List.map_replicate, sortR_replicate]
  exact mk_replicate n n true _ _ hn (le_refl n)

/-- `1 / other` for an embedded interval: `1 * other.reciprocal()` -/
theorem recipOne_ofIvl (n : Nat) (c d : Rat) (hn : 0 < n) (hcd : c ≤ d) (h0 : 0 < c ∨ d < 0) :
    (recip n (ofIvl n c d) >>= fun r => numberOp n (· * ·) r 1) = .ok (ofIvl n (1 / d) (1 / c)) := by
  have hle : 1 / d ≤ 1 / c := one_div_anti c d hcd h0
  rw [recip_ofIvl n c d hn hcd h0, ok_bind, numberOp_ofIvl n _ _ _ _ hn]
  simp only [mul_one, min_eq_left hle, max_eq_right hle]

/-- quotient of two embedded intervals under perfect / opposite / independent dependence -/
theorem div_ofIvl_poi (n : Nat) (dep : Dep) (hd : dep = .p ∨ dep = .o ∨ dep = .i) (a b c d : Rat)
    (hn : 0 < n) (hcd : c ≤ d) (h0 : 0 < c ∨ d < 0) :
    div n dep (ofIvl n a b) (ofIvl n c d) =
      .ok (ofIvl n (min4 (a*(1/d)) (a*(1/c)) (b*(1/d)) (b*(1/c))) (max4 (a*(1/d)) (a*(1/c)) (b*(1/d)) (b*(1/c)))) := by
  unfold div
  rw [recipOne_ofIvl n c d hn hcd h0]
  simp only
  apply mul_ofIvl_poi n (swapPO dep) _ a b _ _ hn
  rcases hd with h | h | h <;> subst h <;> simp [swapPO]

/-! ## the Frechet product of constant p-boxes -/

theorem hi_ofIvl (n : Nat) (a b : Rat) (hn : 0 < n) : hi (ofIvl n a b) = b := by
  obtain ⟨k, rfl⟩ : ∃ k, n = k + 1 := ⟨n - 1, by omega⟩
  simp [hi, ofIvl, List.replicate_succ', List.getLastD_eq_getLast?]

theorem lo_ofIvl (n : Nat) (a b : Rat) (hn : 0 < n) : lo (ofIvl n a b) = a := by
  obtain ⟨k, rfl⟩ : ∃ k, n = k + 1 := ⟨n - 1, by omega⟩
  simp [lo, ofIvl, List.replicate_succ]

theorem straddlesZero_ofIvl (n : Nat) (a b : Rat) (hn : 0 < n) :
    straddlesZero (ofIvl n a b) = (decide (a < 0) && decide (b > 0)) := by
  simp [straddlesZero, ofIvl, minL_replicate 0 n a hn, maxL_replicate 0 n b hn]

theorem classicFrechet_ofIvl (n : Nat) (op : Rat → Rat → Rat) (a b c d : Rat) (hn : 0 < n) :
    classicFrechet n op (ofIvl n a b) (ofIvl n c d) =
      .ok (ofIvl n (min (op a c) (op b d)) (max (op a c) (op b d))) := by
  simp only [classicFrechet, frechetOp_ofIvl]
  exact mk_replicate n n false _ _ hn (le_refl n)

/-- a constant p-box `[L,U]` whose endpoints are the extreme corner products is the corner hull -/
theorem ofIvl_hull (n : Nat) (p q r s L U : Rat)
    (hL : L = p ∨ L = q ∨ L = r ∨ L = s) (hU : U = p ∨ U = q ∨ U = r ∨ U = s)
    (l1 : L ≤ p) (l2 : L ≤ q) (l3 : L ≤ r) (l4 : L ≤ s)
    (u1 : p ≤ U) (u2 : q ≤ U) (u3 : r ≤ U) (u4 : s ≤ U) :
    ofIvl n L U = ofIvl n (min4 p q r s) (max4 p q r s) := by
  rw [min4_arith, max4_arith, Arith.min4_eq hL l1 l2 l3 l4, Arith.max4_eq hU u1 u2 u3 u4]

/-- Frechet product of two embedded intervals neither of which straddles zero -/
theorem frechetMulNoStraddle_ofIvl (n : Nat) (a b c d : Rat) (hn : 0 < n) (hab : a ≤ b) (hcd : c ≤ d)
    (hx : b ≤ 0 ∨ 0 ≤ a) (hy : d ≤ 0 ∨ 0 ≤ c) :
    frechetMulNoStraddle n (ofIvl n a b) (ofIvl n c d) =
      .ok (ofIvl n (min4 (a*c) (a*d) (b*c) (b*d)) (max4 (a*c) (a*d) (b*c) (b*d))) := by
  unfold frechetMulNoStraddle negativeFrechet
  simp only [hi_ofIvl n _ _ hn]
  by_cases hb : b ≤ 0 <;> by_cases hd : d ≤ 0
  · -- both non-positive
    simp only [hb, hd, decide_true, Bool.or_self, if_true, Bool.xor_self, Bool.false_eq_true, if_false]
    show (neg n (ofIvl n a b) >>= fun x => neg n (ofIvl n c d) >>= fun y => classicFrechet n (· * ·) x y >>= fun r => pure r) = _
    rw [neg_ofIvl n a b hn hab, ok_bind, neg_ofIvl n c d hn hcd, ok_bind, classicFrechet_ofIvl n _ _ _ _ _ hn, ok_bind]
    have h1 : -b * -d ≤ -a * -c := by nlinarith
    rw [min_eq_left h1, max_eq_right h1]
    show Except.ok (ofIvl n _ _) = _
    congr 1
    apply ofIvl_hull
    · right; right; right; ring
    · left; ring
    all_goals nlinarith
  · -- x non-positive, y non-negative
    have hc : 0 ≤ c := by rcases hy with h | h; exact absurd h hd; exact h
    have hd' : 0 < d := not_le.mp hd
    simp only [hb, hd, decide_true, decide_false, Bool.true_or, if_true, Bool.false_eq_true, if_false, Bool.true_xor, Bool.not_false]
    show (neg n (ofIvl n a b) >>= fun x => pure (ofIvl n c d) >>= fun y => classicFrechet n (· * ·) x y >>= fun r => neg n r) = _
    rw [neg_ofIvl n a b hn hab, ok_bind]
    show (classicFrechet n (· * ·) (ofIvl n (-b) (-a)) (ofIvl n c d) >>= fun r => neg n r) = _
    rw [classicFrechet_ofIvl n _ _ _ _ _ hn, ok_bind]
    have h1 : -b * c ≤ -a * d := by nlinarith
    rw [min_eq_left h1, max_eq_right h1, neg_ofIvl n _ _ hn h1]
    congr 1
    apply ofIvl_hull
    · right; left; ring
    · right; right; left; ring
    all_goals nlinarith
  · -- x non-negative, y non-positive
    have ha : 0 ≤ a := by rcases hx with h | h; exact absurd h hb; exact h
    have hb' : 0 < b := not_le.mp hb
    simp only [hb, hd, decide_true, decide_false, Bool.or_true, if_true, Bool.false_eq_true, if_false, Bool.false_xor]
    show (pure (ofIvl n a b) >>= fun x => neg n (ofIvl n c d) >>= fun y => classicFrechet n (· * ·) x y >>= fun r => neg n r) = _
    show (neg n (ofIvl n c d) >>= fun y => classicFrechet n (· * ·) (ofIvl n a b) y >>= fun r => neg n r) = _
    rw [neg_ofIvl n c d hn hcd, ok_bind, classicFrechet_ofIvl n _ _ _ _ _ hn, ok_bind]
    have h1 : a * -d ≤ b * -c := by nlinarith
    rw [min_eq_left h1, max_eq_right h1, neg_ofIvl n _ _ hn h1]
    congr 1
    apply ofIvl_hull
    · right; right; left; ring
    · right; left; ring
    all_goals nlinarith
  · -- both non-negative
    have ha : 0 ≤ a := by rcases hx with h | h; exact absurd h hb; exact h
    have hc : 0 ≤ c := by rcases hy with h | h; exact absurd h hd; exact h
    simp only [hb, hd, decide_false, Bool.or_self, Bool.false_eq_true, if_false]
    rw [classicFrechet_ofIvl n _ _ _ _ _ hn]
    have h1 : a * c ≤ b * d := by nlinarith
    rw [min_eq_left h1, max_eq_right h1]
    congr 1
    apply ofIvl_hull
    · left; rfl
    · right; right; right; rfl
    all_goals nlinarith


theorem naiveOp_ofIvl (op : Rat → Rat → Rat) (n : Nat) (a b c d : Rat) :
    naiveOp op (ofIvl n a b) (ofIvl n c d) =
      (List.replicate n (min4 (op a c) (op a d) (op b c) (op b d)),
       List.replicate n (max4 (op a c) (op a d) (op b c) (op b d))) := by
  unfold naiveOp
  simp only [cornersSorted_ofIvl]
  have h1 : (ofIvl n a b).left.length = n := by simp [ofIvl]
  simp only [h1, List.take_replicate, List.drop_replicate]
  have h2 : min n (n * n) = n := by
    rcases Nat.eq_zero_or_pos n with h | h
    · subst h; simp
    · exact Nat.min_eq_left (Nat.le_mul_of_pos_left n h)
  have h3 : n * n - (n * n - n) = n := by
    rcases Nat.eq_zero_or_pos n with h | h
    · subst h; simp
    · have := Nat.le_mul_of_pos_left n h; omega
  rw [h2, h3]

/-- imposition (intersection) of two constant p-boxes that overlap -/
theorem imp_ofIvl (n : Nat) (a b c d : Rat) (hn : 0 < n) (h : max a c ≤ min b d) :
    imp n (ofIvl n a b) (ofIvl n c d) = .ok (ofIvl n (max a c) (min b d)) := by
  unfold imp
  simp only [ofIvl, List.zipWith_replicate, Nat.min_self, List.zip_replicate', List.any_replicate,
    Nat.pos_iff_ne_zero.mp hn, if_false, gt_iff_lt, not_lt.mpr h, decide_false, Bool.false_eq_true]
  exact mk_ofIvl n true _ _ hn h

/-- `x.balchprod(y)` for embedded intervals, `y` straddling zero: a constant p-box that encloses the corner hull -/
theorem balchprod_ofIvl (n : Nat) (a b c d : Rat) (hn : 0 < n) (hab : a ≤ b) (hcd : c ≤ d)
    (hy : c < 0 ∧ 0 < d) :
    ∃ L U, balchprod n (ofIvl n a b) (ofIvl n c d) = .ok (ofIvl n L U) ∧
      L ≤ min4 (a*c) (a*d) (b*c) (b*d) ∧ max4 (a*c) (a*d) (b*c) (b*d) ≤ U := by
  have hm4 : ∀ L, L ≤ a*c → L ≤ a*d → L ≤ b*c → L ≤ b*d → L ≤ min4 (a*c) (a*d) (b*c) (b*d) := by
    intro L h1 h2 h3 h4; unfold min4; exact le_min (le_min (le_min h1 h2) h3) h4
  have hM4 : ∀ U, a*c ≤ U → a*d ≤ U → b*c ≤ U → b*d ≤ U → max4 (a*c) (a*d) (b*c) (b*d) ≤ U := by
    intro U h1 h2 h3 h4; unfold max4; exact max_le (max_le (max_le h1 h2) h3) h4
  have hdc : (0:Rat) ≤ d - c := by linarith
  unfold balchprod
  simp only [straddlesZero_ofIvl n _ _ hn, lo_ofIvl n _ _ hn, hy.1, hy.2, gt_iff_lt, decide_true, Bool.and_true, Bool.true_and]
  by_cases hx : a < 0 ∧ 0 < b
  · -- both straddle
    simp only [hx.1, hx.2, decide_true, Bool.and_self, if_true]
    have hba : (0:Rat) ≤ b - a := by linarith
    have e1 : numberOp n (· - ·) (ofIvl n a b) a = .ok (ofIvl n 0 (b - a)) := by
      rw [numberOp_ofIvl n _ _ _ _ hn]; simp only [sub_self, min_eq_left hba, max_eq_right hba]
    have e2 : numberOp n (· - ·) (ofIvl n c d) c = .ok (ofIvl n 0 (d - c)) := by
      rw [numberOp_ofIvl n _ _ _ _ hn]; simp only [sub_self, min_eq_left hdc, max_eq_right hdc]
    have e3 := frechetMulNoStraddle_ofIvl n 0 (b - a) 0 (d - c) hn hba hdc (Or.inr (le_refl 0)) (Or.inr (le_refl 0))
    have e4 := numberOp_ofIvl n (· * ·) 0 (b - a) c hn
    have e5 := numberOp_ofIvl n (· * ·) 0 (d - c) a hn
    rw [e1, ok_bind, e2, ok_bind, e3, ok_bind, e4, ok_bind, e5, ok_bind, classicFrechet_ofIvl n _ _ _ _ _ hn, ok_bind,
      classicFrechet_ofIvl n _ _ _ _ _ hn, ok_bind, numberOp_ofIvl n _ _ _ _ hn]
    refine ⟨_, _, rfl, ?_, ?_⟩
    · -- lower
      set A := min4 (0 * 0) (0 * (d - c)) ((b - a) * 0) ((b - a) * (d - c)) with hA
      have A1 : A ≤ 0 * 0 := by rw [hA, min4_arith]; unfold Arith.min4; exact le_trans (min_le_left _ _) (min_le_left _ _)
      have A2 : A ≤ 0 * (d - c) := by rw [hA, min4_arith]; unfold Arith.min4; exact le_trans (min_le_left _ _) (min_le_right _ _)
      have A3 : A ≤ (b - a) * 0 := by rw [hA, min4_arith]; unfold Arith.min4; exact le_trans (min_le_right _ _) (min_le_left _ _)
      have A4 : A ≤ (b - a) * (d - c) := by rw [hA, min4_arith]; unfold Arith.min4; exact le_trans (min_le_right _ _) (min_le_right _ _)
      set p1 := min (0 * c) ((b - a) * c) with hp1
      set p2 := min (0 * a) ((d - c) * a) with hp2
      have P11 : p1 ≤ 0 * c := min_le_left _ _
      have P12 : p1 ≤ (b - a) * c := min_le_right _ _
      have P21 : p2 ≤ 0 * a := min_le_left _ _
      have P22 : p2 ≤ (d - c) * a := min_le_right _ _
      have hB : min (p1 + p2) (max (0 * c) ((b - a) * c) + max (0 * a) ((d - c) * a)) ≤ p1 + p2 := min_le_left _ _
      have hS := min_le_left (A + min (p1 + p2) (max (0 * c) ((b - a) * c) + max (0 * a) ((d - c) * a)))
        (max4 (0 * 0) (0 * (d - c)) ((b - a) * 0) ((b - a) * (d - c)) + max (p1 + p2) (max (0 * c) ((b - a) * c) + max (0 * a) ((d - c) * a)))
      apply hm4 <;> refine le_trans (min_le_left _ _) ?_ <;> nlinarith
    · set A := max4 (0 * 0) (0 * (d - c)) ((b - a) * 0) ((b - a) * (d - c)) with hA
      have A1 : 0 * 0 ≤ A := by rw [hA, max4_arith]; unfold Arith.max4; exact le_trans (le_max_left _ _) (le_max_left _ _)
      have A2 : 0 * (d - c) ≤ A := by rw [hA, max4_arith]; unfold Arith.max4; exact le_trans (le_max_right _ _) (le_max_left _ _)
      have A3 : (b - a) * 0 ≤ A := by rw [hA, max4_arith]; unfold Arith.max4; exact le_trans (le_max_left _ _) (le_max_right _ _)
      have A4 : (b - a) * (d - c) ≤ A := by rw [hA, max4_arith]; unfold Arith.max4; exact le_trans (le_max_right _ _) (le_max_right _ _)
      set p1 := max (0 * c) ((b - a) * c) with hp1
      set p2 := max (0 * a) ((d - c) * a) with hp2
      have P11 : 0 * c ≤ p1 := le_max_left _ _
      have P12 : (b - a) * c ≤ p1 := le_max_right _ _
      have P21 : 0 * a ≤ p2 := le_max_left _ _
      have P22 : (d - c) * a ≤ p2 := le_max_right _ _
      have hB : p1 + p2 ≤ max (min (0 * c) ((b - a) * c) + min (0 * a) ((d - c) * a)) (p1 + p2) := le_max_right _ _
      have hS := le_max_right (min4 (0 * 0) (0 * (d - c)) ((b - a) * 0) ((b - a) * (d - c)) + min (min (0 * c) ((b - a) * c) + min (0 * a) ((d - c) * a)) (p1 + p2))
        (A + max (min (0 * c) ((b - a) * c) + min (0 * a) ((d - c) * a)) (p1 + p2))
      apply hM4 <;> refine le_trans ?_ (le_max_right _ _) <;> nlinarith
  · -- only `y` straddles
    have hx' : b ≤ 0 ∨ 0 ≤ a := by
      by_cases h : a < 0
      · left; by_contra hb; exact hx ⟨h, not_le.mp hb⟩
      · right; exact not_lt.mp h
    have hxs : (decide (a < 0) && decide (0 < b)) = false := by
      rcases hx' with h | h
      · simp [not_lt.mpr h]
      · simp [not_lt.mpr h]
    simp only [hxs, Bool.false_eq_true, if_false, if_true]
    have e2 : numberOp n (· - ·) (ofIvl n c d) c = .ok (ofIvl n 0 (d - c)) := by
      rw [numberOp_ofIvl n _ _ _ _ hn]; simp only [sub_self, min_eq_left hdc, max_eq_right hdc]
    have e3 := frechetMulNoStraddle_ofIvl n a b 0 (d - c) hn hab hdc hx' (Or.inr (le_refl 0))
    rw [e2, ok_bind, e3, ok_bind, numberOp_ofIvl n _ _ _ _ hn, ok_bind, classicFrechet_ofIvl n _ _ _ _ _ hn]
    refine ⟨_, _, rfl, ?_, ?_⟩
    · set A := min4 (a * 0) (a * (d - c)) (b * 0) (b * (d - c)) with hA
      have A1 : A ≤ a * 0 := by rw [hA, min4_arith]; unfold Arith.min4; exact le_trans (min_le_left _ _) (min_le_left _ _)
      have A2 : A ≤ a * (d - c) := by rw [hA, min4_arith]; unfold Arith.min4; exact le_trans (min_le_left _ _) (min_le_right _ _)
      have A3 : A ≤ b * 0 := by rw [hA, min4_arith]; unfold Arith.min4; exact le_trans (min_le_right _ _) (min_le_left _ _)
      have A4 : A ≤ b * (d - c) := by rw [hA, min4_arith]; unfold Arith.min4; exact le_trans (min_le_right _ _) (min_le_right _ _)
      set p1 := min (a * c) (b * c) with hp1
      have P11 : p1 ≤ a * c := min_le_left _ _
      have P12 : p1 ≤ b * c := min_le_right _ _
      apply hm4 <;> refine le_trans (min_le_left _ _) ?_ <;> nlinarith
    · set A := max4 (a * 0) (a * (d - c)) (b * 0) (b * (d - c)) with hA
      have A1 : a * 0 ≤ A := by rw [hA, max4_arith]; unfold Arith.max4; exact le_trans (le_max_left _ _) (le_max_left _ _)
      have A2 : a * (d - c) ≤ A := by rw [hA, max4_arith]; unfold Arith.max4; exact le_trans (le_max_right _ _) (le_max_left _ _)
      have A3 : b * 0 ≤ A := by rw [hA, max4_arith]; unfold Arith.max4; exact le_trans (le_max_left _ _) (le_max_right _ _)
      have A4 : b * (d - c) ≤ A := by rw [hA, max4_arith]; unfold Arith.max4; exact le_trans (le_max_right _ _) (le_max_right _ _)
      set p1 := max (a * c) (b * c) with hp1
      have P11 : a * c ≤ p1 := le_max_left _ _
      have P12 : b * c ≤ p1 := le_max_right _ _
      apply hM4 <;> refine le_trans ?_ (le_max_right _ _) <;> nlinarith

/-- `straddle_frechet_pbox(x, y)` on embedded intervals: naive ∩ Balch = the corner hull -/
theorem straddleFrechet_ofIvl (n : Nat) (a b c d : Rat) (hn : 0 < n) (hab : a ≤ b) (hcd : c ≤ d)
    (hy : c < 0 ∧ 0 < d) :
    straddleFrechet n (ofIvl n a b) (ofIvl n c d) =
      .ok (ofIvl n (min4 (a*c) (a*d) (b*c) (b*d)) (max4 (a*c) (a*d) (b*c) (b*d))) := by
  obtain ⟨L, U, hB, hL, hU⟩ := balchprod_ofIvl n a b c d hn hab hcd hy
  unfold straddleFrechet
  simp only [naiveOp_ofIvl]
  rw [mk_ofIvl n false _ _ hn (min4_le_max4 _ _ _ _), ok_bind, hB, ok_bind]
  have h1 : max (min4 (a*c) (a*d) (b*c) (b*d)) L = min4 (a*c) (a*d) (b*c) (b*d) := max_eq_left hL
  have h2 : min (max4 (a*c) (a*d) (b*c) (b*d)) U = max4 (a*c) (a*d) (b*c) (b*d) := min_eq_left hU
  rw [imp_ofIvl n _ _ _ _ hn (by rw [h1, h2]; exact min4_le_max4 _ _ _ _), h1, h2]

theorem min4_swap (a b c d : Rat) : min4 (c*a) (c*b) (d*a) (d*b) = min4 (a*c) (a*d) (b*c) (b*d) := by
  unfold min4
  rw [mul_comm c a, mul_comm c b, mul_comm d a, mul_comm d b, min_assoc (min (a*c) (b*c)), min_assoc (min (a*c) (a*d)),
    min_assoc (a*c), min_assoc (a*c), min_left_comm (b*c)]

theorem max4_swap (a b c d : Rat) : max4 (c*a) (c*b) (d*a) (d*b) = max4 (a*c) (a*d) (b*c) (b*d) := by
  unfold max4
  rw [mul_comm c a, mul_comm c b, mul_comm d a, mul_comm d b, max_assoc (max (a*c) (b*c)), max_assoc (max (a*c) (a*d)),
    max_assoc (a*c), max_assoc (a*c), max_left_comm (b*c)]

/-- **Frechet product of two embedded intervals, every sign case**: the corner hull -/
theorem frechetMul_ofIvl (n : Nat) (a b c d : Rat) (hn : 0 < n) (hab : a ≤ b) (hcd : c ≤ d) :
    frechetMul n (ofIvl n a b) (ofIvl n c d) =
      .ok (ofIvl n (min4 (a*c) (a*d) (b*c) (b*d)) (max4 (a*c) (a*d) (b*c) (b*d))) := by
  unfold frechetMul
  simp only [straddlesZero_ofIvl n _ _ hn]
  by_cases hy : c < 0 ∧ 0 < d
  · simp only [hy.1, hy.2, gt_iff_lt, decide_true, Bool.and_self, Bool.or_true, if_true]
    exact straddleFrechet_ofIvl n a b c d hn hab hcd hy
  · have hys : (decide (c < 0) && decide (d > 0)) = false := by
      by_cases h : c < 0
      · have : ¬ 0 < d := fun h' => hy ⟨h, h'⟩
        simp [this]
      · simp [h]
    by_cases hx : a < 0 ∧ 0 < b
    · simp only [hys, hx.1, hx.2, gt_iff_lt, decide_true, Bool.and_self, Bool.true_or, if_true, Bool.false_eq_true, if_false]
      rw [straddleFrechet_ofIvl n c d a b hn hcd hab hx, min4_swap, max4_swap]
    · have hxs : (decide (a < 0) && decide (b > 0)) = false := by
        by_cases h : a < 0
        · have : ¬ 0 < b := fun h' => hx ⟨h, h'⟩
          simp [this]
        · simp [h]
      simp only [hys, hxs, Bool.or_self, Bool.false_eq_true, if_false]
      apply frechetMulNoStraddle_ofIvl n a b c d hn hab hcd
      · by_cases h : a < 0
        · left; by_contra hb; exact hx ⟨h, not_le.mp hb⟩
        · right; exact not_lt.mp h
      · by_cases h : c < 0
        · left; by_contra hb; exact hy ⟨h, not_le.mp hb⟩
        · right; exact not_lt.mp h


/-- product of two embedded intervals under any dependency -/
theorem mul_ofIvl (n : Nat) (dep : Dep) (hd : dep ≠ .unknown) (a b c d : Rat) (hn : 0 < n)
    (hab : a ≤ b) (hcd : c ≤ d) :
    mul n dep (ofIvl n a b) (ofIvl n c d) =
      .ok (ofIvl n (min4 (a*c) (a*d) (b*c) (b*d)) (max4 (a*c) (a*d) (b*c) (b*d))) := by
  cases dep with
  | f => exact frechetMul_ofIvl n a b c d hn hab hcd
  | p => exact mul_ofIvl_poi n .p (Or.inl rfl) a b c d hn
  | o => exact mul_ofIvl_poi n .o (Or.inr (Or.inl rfl)) a b c d hn
  | i => exact mul_ofIvl_poi n .i (Or.inr (Or.inr rfl)) a b c d hn
  | unknown => exact absurd rfl hd

/-- quotient of two embedded intervals (divisor without zero) under any dependency -/
theorem div_ofIvl (n : Nat) (dep : Dep) (hd : dep ≠ .unknown) (a b c d : Rat) (hn : 0 < n)
    (hab : a ≤ b) (hcd : c ≤ d) (h0 : 0 < c ∨ d < 0) :
    div n dep (ofIvl n a b) (ofIvl n c d) =
      .ok (ofIvl n (min4 (a*(1/d)) (a*(1/c)) (b*(1/d)) (b*(1/c))) (max4 (a*(1/d)) (a*(1/c)) (b*(1/d)) (b*(1/c)))) := by
  unfold div
  have hle := one_div_anti c d hcd h0
  rw [recipOne_ofIvl n c d hn hcd h0]
  simp only
  exact mul_ofIvl n (swapPO dep) (swapPO_ne_unknown dep hd) a b _ _ hn hab hle

/-! ## the constructor on well-formed bounds -/

theorem lexGe_eq_of_le : ∀ (l r : List Rat), List.Forall₂ (· ≤ ·) l r → lexGe l r = true → l = r
  | [], [], _, _ => rfl
  | a :: s, b :: t, h, hg => by
    cases h with
    | cons hab htl =>
      simp only [lexGe] at hg
      have h1 : ¬ a > b := not_lt.mpr hab
      simp only [h1, if_false] at hg
      by_cases h2 : a < b
      · simp [h2] at hg
      · simp only [h2, if_false] at hg
        have : a = b := le_antisymm hab (not_lt.mp h2)
        rw [this, lexGe_eq_of_le s t htl hg]

theorem allGe_eq_of_le : ∀ (l r : List Rat), List.Forall₂ (· ≤ ·) l r → allGe l r = true → l = r
  | [], [], _, _ => rfl
  | a :: s, b :: t, h, hg => by
    cases h with
    | cons hab htl =>
      simp only [allGe, List.zip_cons_cons, List.all_cons, Bool.and_eq_true, decide_eq_true_eq] at hg
      have : a = b := le_antisymm hab hg.1
      rw [this, allGe_eq_of_le s t htl (by simpa [allGe] using hg.2)]

/-- well-formed bounds: `n` steps, both sorted, `left ≤ right` step by step -/
structure WF (n : Nat) (p : PB) : Prop where
  llen : p.left.length = n
  rlen : p.right.length = n
  lsorted : p.left.Pairwise (· ≤ ·)
  rsorted : p.right.Pairwise (· ≤ ·)
  le : List.Forall₂ (· ≤ ·) p.left p.right

/-- the constructor returns well-formed bounds unchanged (the `left ≥ right` switch, in either
form, can only fire when the two bounds coincide) -/
theorem mk_wf (n : Nat) (lists : Bool) (l r : List Rat) (h : WF n ⟨l, r⟩) : mk n lists l r = .ok ⟨l, r⟩ := by
  have hll : l.length = n := h.llen
  have hrl : r.length = n := h.rlen
  have hsw : ∀ (sw : Bool), (sw = true → l = r) →
      ((if sw then (r, l) else (l, r)) : List Rat × List Rat) = (l, r) := by
    intro sw hs; cases sw
    · rfl
    · rw [hs rfl]; rfl
  unfold mk
  have key : ((if (if lists then lexGe l r else (if l.length = r.length then allGe l r else false)) then (r, l) else (l, r)) :
      List Rat × List Rat) = (l, r) := by
    apply hsw
    cases lists
    · simp only [Bool.false_eq_true, if_false, hll, hrl, if_true]; exact allGe_eq_of_le l r h.le
    · simp only [if_true]; exact lexGe_eq_of_le l r h.le
  simp only [key]
  simp [boundSteps, hll, hrl, isIncreasing_of_pairwise l h.lsorted, isIncreasing_of_pairwise r h.rsorted, no_cross_of_le l r h.le]

theorem wf_ofIvl (n : Nat) (a b : Rat) (hab : a ≤ b) : WF n (ofIvl n a b) where
  llen := by simp [ofIvl]
  rlen := by simp [ofIvl]
  lsorted := List.pairwise_replicate.mpr (Or.inr (le_refl a))
  rsorted := List.pairwise_replicate.mpr (Or.inr (le_refl b))
  le := by
    simp only [ofIvl]
    induction n with
    | zero => exact List.Forall₂.nil
    | succ k ih => exact List.Forall₂.cons hab ih

theorem forall₂_le_refl : ∀ (q : List Rat), List.Forall₂ (· ≤ ·) q q
  | [] => List.Forall₂.nil
  | a :: t => List.Forall₂.cons (le_refl a) (forall₂_le_refl t)

theorem wf_ofDist (q : List Rat) (hs : q.Pairwise (· ≤ ·)) : WF q.length (ofDist q) :=
  ⟨rfl, rfl, hs, hs, forall₂_le_refl q⟩


/-! ## a constant operand combined with sorted bounds: shift / scale -/

theorem sorted_get_le (q : List Rat) (hq : q.Pairwise (· ≤ ·)) (i j : Nat) (hij : i ≤ j) (hj : j < q.length) :
    q[i]'(by omega) ≤ q[j] := by
  rcases Nat.lt_or_ge i j with h | h
  · exact (List.pairwise_iff_getElem.mp hq) i j (by omega) hj h
  · have : i = j := by omega
    subst this; exact le_refl _

theorem frechetLeftRaw_constL (op : Rat → Rat → Rat) (a : Rat) (q : List Rat) (hq : q.Pairwise (· ≤ ·))
    (hm : ∀ x y, x ≤ y → op a x ≤ op a y) :
    frechetLeftRaw op (List.replicate q.length a) q = q.map (op a) := by
  apply List.ext_getElem
  · simp [frechetLeftRaw_length]
  · intro i h1 h2
    have hi : i < q.length := by simpa using h2
    obtain ⟨v, hv, hub, j, hj, hatt⟩ := frechetLeftRaw_spec op (List.replicate q.length a) q (by simp) i (by simpa using hi)
    rw [List.getElem?_eq_getElem h1] at hv
    rw [Option.some.inj hv, List.getElem_map]
    apply le_antisymm
    · rw [hatt]; simp only [List.getElem_replicate]
      exact hm _ _ (sorted_get_le q hq (i - j) i (by omega) hi)
    · have := hub 0 (Nat.zero_le i)
      simpa using this

theorem frechetLeftRaw_constR (op : Rat → Rat → Rat) (a : Rat) (q : List Rat) (hq : q.Pairwise (· ≤ ·))
    (hm : ∀ x y, x ≤ y → op x a ≤ op y a) :
    frechetLeftRaw op q (List.replicate q.length a) = q.map (op · a) := by
  apply List.ext_getElem
  · simp [frechetLeftRaw_length]
  · intro i h1 h2
    have hi : i < q.length := by simpa using h2
    obtain ⟨v, hv, hub, j, hj, hatt⟩ := frechetLeftRaw_spec op q (List.replicate q.length a) (by simp) i hi
    rw [List.getElem?_eq_getElem h1] at hv
    rw [Option.some.inj hv, List.getElem_map]
    apply le_antisymm
    · rw [hatt]; simp only [List.getElem_replicate]
      exact hm _ _ (sorted_get_le q hq j i hj hi)
    · have := hub i (le_refl i)
      simpa using this

theorem frechetRightRaw_constL (op : Rat → Rat → Rat) (b : Rat) (q : List Rat) (hq : q.Pairwise (· ≤ ·))
    (hm : ∀ x y, x ≤ y → op b x ≤ op b y) :
    frechetRightRaw op (List.replicate q.length b) q = q.map (op b) := by
  apply List.ext_getElem
  · simp [frechetRightRaw_length]
  · intro i h1 h2
    have hi : i < q.length := by simpa using h2
    obtain ⟨v, hv, hlb, t, ht, hatt⟩ := frechetRightRaw_spec op (List.replicate q.length b) q q.length (by simp) rfl i hi
    rw [List.getElem?_eq_getElem h1] at hv
    rw [Option.some.inj hv, List.getElem_map]
    apply le_antisymm
    · have := hlb (q.length - 1 - i) (by omega)
      simp only [List.getElem_replicate] at this
      have e : q.length - 1 - (q.length - 1 - i) = i := by omega
      simpa [e] using this
    · rw [hatt]; simp only [List.getElem_replicate]
      exact hm _ _ (sorted_get_le q hq i (q.length - 1 - t) (by omega) (by omega))

theorem frechetRightRaw_constR (op : Rat → Rat → Rat) (b : Rat) (q : List Rat) (hq : q.Pairwise (· ≤ ·))
    (hm : ∀ x y, x ≤ y → op x b ≤ op y b) :
    frechetRightRaw op q (List.replicate q.length b) = q.map (op · b) := by
  apply List.ext_getElem
  · simp [frechetRightRaw_length]
  · intro i h1 h2
    have hi : i < q.length := by simpa using h2
    obtain ⟨v, hv, hlb, t, ht, hatt⟩ := frechetRightRaw_spec op q (List.replicate q.length b) q.length rfl (by simp) i hi
    rw [List.getElem?_eq_getElem h1] at hv
    rw [Option.some.inj hv, List.getElem_map]
    apply le_antisymm
    · have := hlb 0 (by omega)
      simpa using this
    · rw [hatt]; simp only [List.getElem_replicate]
      exact hm _ _ (sorted_get_le q hq i (i + t) (by omega) (by omega))


theorem sortR_perm (l : List Rat) : (sortR l).Perm l := List.mergeSort_perm l _

theorem sortR_sorted (l : List Rat) : (sortR l).Pairwise (· ≤ ·) := by
  have := List.pairwise_mergeSort (le := fun a b : Rat => decide (a ≤ b))
    (fun a b c h1 h2 => by simp at h1 h2 ⊢; exact le_trans h1 h2)
    (fun a b => by simp; exact le_total a b) l
  exact this.imp (fun h => by simpa using h)

/-- sorting any rearrangement of a sorted list gives that list -/
theorem sortR_eq_of_perm (X L : List Rat) (hp : X.Perm L) (hs : L.Pairwise (· ≤ ·)) : sortR X = L :=
  List.Perm.eq_of_pairwise (fun a b _ _ h1 h2 => le_antisymm h1 h2) (sortR_sorted X) hs ((sortR_perm X).trans hp)

theorem focal_add_exact (a b c d : Rat) (hab : a ≤ b) (hcd : c ≤ d) :
    min4 (a+c) (a+d) (b+c) (b+d) = a + c ∧ max4 (a+c) (a+d) (b+c) (b+d) = b + d := by
  unfold min4 max4
  constructor
  · rw [min_eq_left (by linarith : a + c ≤ a + d), min_eq_left (by linarith : a + c ≤ b + c),
      min_eq_left (by linarith : a + c ≤ b + d)]
  · exact max_eq_right (max_le (max_le (by linarith) (by linarith)) (by linarith))

/-- focal sums: with `left ≤ right` step by step the four-corner rule is `left+left`, `right+right` -/
theorem cornerPair_add (xl xr yl yr : List Rat) (hx : List.Forall₂ (· ≤ ·) xl xr)
    (hy : List.Forall₂ (· ≤ ·) yl yr) :
    cornerPair (· + ·) xl xr yl yr = (List.zipWith (· + ·) xl yl, List.zipWith (· + ·) xr yr) := by
  induction hx generalizing yl yr with
  | nil => simp [cornerPair, zip4]
  | @cons a b ta tb hab _ ih =>
    cases hy with
    | nil => simp [cornerPair, zip4]
    | @cons c d tc td hcd htl =>
      have := ih tc td htl
      simp only [cornerPair, List.zipWith_cons_cons, zip4, Prod.mk.injEq] at this ⊢
      obtain ⟨e1, e2⟩ := focal_add_exact a b c d hab hcd
      rw [e1, e2, this.1, this.2]
      exact ⟨rfl, rfl⟩

theorem zipWith_replicate_left (f : Rat → Rat → Rat) (a : Rat) : ∀ (q : List Rat),
    List.zipWith f (List.replicate q.length a) q = q.map (f a)
  | [] => rfl
  | x :: t => by simp [List.replicate_succ, zipWith_replicate_left f a t]

theorem zipWith_replicate_right (f : Rat → Rat → Rat) (a : Rat) : ∀ (q : List Rat),
    List.zipWith f q (List.replicate q.length a) = q.map (f · a)
  | [] => rfl
  | x :: t => by simp [List.replicate_succ, zipWith_replicate_right f a t]

theorem forall₂_replicate (n : Nat) (a b : Rat) (hab : a ≤ b) :
    List.Forall₂ (· ≤ ·) (List.replicate n a) (List.replicate n b) := by
  induction n with
  | zero => exact List.Forall₂.nil
  | succ k ih => exact List.Forall₂.cons hab ih

theorem forall₂_map_add (a b : Rat) (hab : a ≤ b) : ∀ (l r : List Rat), List.Forall₂ (· ≤ ·) l r →
    List.Forall₂ (· ≤ ·) (l.map (a + ·)) (r.map (b + ·))
  | _, _, .nil => List.Forall₂.nil
  | _, _, .cons h t => List.Forall₂.cons (by show a + _ ≤ b + _; linarith) (forall₂_map_add a b hab _ _ t)

theorem pairwise_map_add (a : Rat) (l : List Rat) (h : l.Pairwise (· ≤ ·)) : (l.map (a + ·)).Pairwise (· ≤ ·) :=
  List.Pairwise.map _ (fun x y hxy => by show a + x ≤ a + y; linarith) h

/-- the shifted box is well formed -/
theorem wf_shift (n : Nat) (Q : PB) (hQ : WF n Q) (a b : Rat) (hab : a ≤ b) :
    WF n ⟨Q.left.map (a + ·), Q.right.map (b + ·)⟩ where
  llen := by simp [hQ.llen]
  rlen := by simp [hQ.rlen]
  lsorted := pairwise_map_add a _ hQ.lsorted
  rsorted := pairwise_map_add b _ hQ.rsorted
  le := forall₂_map_add a b hab _ _ hQ.le

/-- **interval + anything (constant on the left)** under Frechet / perfect / opposite: every step of
`Q` is shifted by the interval -/
theorem add_const_left (n : Nat) (dep : Dep) (hd : dep = .f ∨ dep = .p ∨ dep = .o) (a b : Rat) (hab : a ≤ b)
    (Q : PB) (hQ : WF n Q) :
    add n dep (ofIvl n a b) Q = .ok ⟨Q.left.map (a + ·), Q.right.map (b + ·)⟩ := by
  have hw := wf_shift n Q hQ a b hab
  have hl : List.replicate n a = List.replicate Q.left.length a := by rw [hQ.llen]
  have hr : List.replicate n b = List.replicate Q.right.length b := by rw [hQ.rlen]
  rcases hd with h | h | h <;> subst h
  · -- Frechet
    simp only [add, frechetOp, ofIvl]
    rw [hl, hr, frechetLeftRaw_constL (· + ·) a Q.left hQ.lsorted (fun x y h => by linarith),
      frechetRightRaw_constL (· + ·) b Q.right hQ.rsorted (fun x y h => by linarith),
      sortR_of_sorted _ hw.lsorted, sortR_of_sorted _ hw.rsorted]
    exact mk_wf n false _ _ hw
  · -- perfect
    simp only [add, perfectOp, ofIvl]
    rw [cornerPair_add _ _ _ _ (forall₂_replicate n a b hab) hQ.le]
    simp only
    rw [hl, hr, zipWith_replicate_left, zipWith_replicate_left, sortR_of_sorted _ hw.lsorted, sortR_of_sorted _ hw.rsorted]
    exact mk_wf n false _ _ hw
  · -- opposite
    simp only [add, oppositeOp, ofIvl]
    rw [cornerPair_add _ _ _ _ (forall₂_replicate n a b hab) (List.forall₂_reverse_iff.mpr hQ.le)]
    simp only
    have hl' : List.replicate n a = List.replicate Q.left.reverse.length a := by simp [hQ.llen]
    have hr' : List.replicate n b = List.replicate Q.right.reverse.length b := by simp [hQ.rlen]
    rw [hl', hr', zipWith_replicate_left, zipWith_replicate_left,
      sortR_eq_of_perm _ (Q.left.map (a + ·)) ((List.reverse_perm _).map _) hw.lsorted,
      sortR_eq_of_perm _ (Q.right.map (b + ·)) ((List.reverse_perm _).map _) hw.rsorted]
    exact mk_wf n false _ _ hw

theorem map_add_comm (a : Rat) (l : List Rat) : l.map (· + a) = l.map (a + ·) :=
  List.map_congr_left (fun x _ => add_comm x a)

/-- **anything + interval (constant on the right)** under Frechet / perfect / opposite -/
theorem add_const_right (n : Nat) (dep : Dep) (hd : dep = .f ∨ dep = .p ∨ dep = .o) (a b : Rat) (hab : a ≤ b)
    (Q : PB) (hQ : WF n Q) :
    add n dep Q (ofIvl n a b) = .ok ⟨Q.left.map (a + ·), Q.right.map (b + ·)⟩ := by
  have hw := wf_shift n Q hQ a b hab
  have hl : List.replicate n a = List.replicate Q.left.length a := by rw [hQ.llen]
  have hr : List.replicate n b = List.replicate Q.right.length b := by rw [hQ.rlen]
  rcases hd with h | h | h <;> subst h
  · simp only [add, frechetOp, ofIvl]
    rw [hl, hr, frechetLeftRaw_constR (· + ·) a Q.left hQ.lsorted (fun x y h => by linarith),
      frechetRightRaw_constR (· + ·) b Q.right hQ.rsorted (fun x y h => by linarith),
      map_add_comm, map_add_comm, sortR_of_sorted _ hw.lsorted, sortR_of_sorted _ hw.rsorted]
    exact mk_wf n false _ _ hw
  · simp only [add, perfectOp, ofIvl]
    rw [cornerPair_add _ _ _ _ hQ.le (forall₂_replicate n a b hab)]
    simp only
    rw [hl, hr, zipWith_replicate_right, zipWith_replicate_right, map_add_comm, map_add_comm,
      sortR_of_sorted _ hw.lsorted, sortR_of_sorted _ hw.rsorted]
    exact mk_wf n false _ _ hw
  · simp only [add, oppositeOp, ofIvl, List.reverse_replicate]
    rw [cornerPair_add _ _ _ _ hQ.le (forall₂_replicate n a b hab)]
    simp only
    rw [hl, hr, zipWith_replicate_right, zipWith_replicate_right, map_add_comm, map_add_comm,
      sortR_of_sorted _ hw.lsorted, sortR_of_sorted _ hw.rsorted]
    exact mk_wf n false _ _ hw

/-- negation of a well-formed box: bounds exchanged, negated and reversed -/
theorem neg_wf (n : Nat) (Q : PB) (hQ : WF n Q) :
    neg n Q = .ok ⟨(Q.right.map (- ·)).reverse, (Q.left.map (- ·)).reverse⟩ ∧
    WF n ⟨(Q.right.map (- ·)).reverse, (Q.left.map (- ·)).reverse⟩ := by
  have hs : ∀ l : List Rat, l.Pairwise (· ≤ ·) → ((l.map (- ·)).reverse).Pairwise (· ≤ ·) := by
    intro l hl
    rw [List.pairwise_reverse]
    exact List.Pairwise.map _ (fun x y hxy => by show -y ≤ -x; linarith) hl
  have hle : List.Forall₂ (· ≤ ·) ((Q.right.map (- ·)).reverse) ((Q.left.map (- ·)).reverse) := by
    rw [List.forall₂_reverse_iff, List.forall₂_map_left_iff, List.forall₂_map_right_iff]
    exact (List.Forall₂.flip hQ.le).imp (fun x y h => by show -x ≤ -y; linarith)
  have hw : WF n ⟨(Q.right.map (- ·)).reverse, (Q.left.map (- ·)).reverse⟩ :=
    ⟨by simp [hQ.rlen], by simp [hQ.llen], hs _ hQ.rsorted, hs _ hQ.lsorted, hle⟩
  refine ⟨?_, hw⟩
  unfold neg
  rw [← List.map_reverse, ← List.map_reverse] at hw ⊢
  rw [sortR_of_sorted _ hw.lsorted, sortR_of_sorted _ hw.rsorted]
  exact mk_wf n true _ _ hw


/-! ## independence with a constant operand on the right -/

theorem cartesian_const_right (op : Rat → Rat → Rat) (n : Nat) (a : Rat) (q : List Rat) :
    cartesian op q (List.replicate n a) = q.flatMap (fun x => List.replicate n (op x a)) := by
  unfold cartesian
  simp only [List.map_replicate]

theorem zip4_replicate_append (f : Rat → Rat → Rat → Rat → Rat) (n : Nat) (p q r s : Rat) (T1 T2 T3 T4 : List Rat) :
    zip4 f (List.replicate n p ++ T1) (List.replicate n q ++ T2) (List.replicate n r ++ T3) (List.replicate n s ++ T4) =
      List.replicate n (f p q r s) ++ zip4 f T1 T2 T3 T4 := by
  induction n with
  | zero => simp
  | succ k ih => simp only [List.replicate_succ, List.cons_append, zip4, ih]

/-- focal sums of every step of `Q` with the constant interval, `n` copies each, already in order -/
theorem corners_const_right (n : Nat) (a b : Rat) (hab : a ≤ b) : ∀ (ql qr : List Rat), List.Forall₂ (· ≤ ·) ql qr →
    zip4 min4 (ql.flatMap (fun x => List.replicate n (x + a))) (ql.flatMap (fun x => List.replicate n (x + b)))
      (qr.flatMap (fun x => List.replicate n (x + a))) (qr.flatMap (fun x => List.replicate n (x + b))) =
      ql.flatMap (fun x => List.replicate n (x + a)) ∧
    zip4 max4 (ql.flatMap (fun x => List.replicate n (x + a))) (ql.flatMap (fun x => List.replicate n (x + b)))
      (qr.flatMap (fun x => List.replicate n (x + a))) (qr.flatMap (fun x => List.replicate n (x + b))) =
      qr.flatMap (fun x => List.replicate n (x + b))
  | _, _, .nil => by simp [zip4]
  | _, _, .cons (a := x) (b := y) hxy htl => by
    obtain ⟨ih1, ih2⟩ := corners_const_right n a b hab _ _ htl
    obtain ⟨e1, e2⟩ := focal_add_exact x y a b hxy hab
    simp only [List.flatMap_cons, zip4_replicate_append, ih1, ih2]
    have m1 : min4 (x + a) (x + b) (y + a) (y + b) = x + a := by
      unfold min4
      rw [min_eq_left (by linarith : x + a ≤ x + b), min_eq_left (by linarith : x + a ≤ y + a),
        min_eq_left (by linarith : x + a ≤ y + b)]
    have m2 : max4 (x + a) (x + b) (y + a) (y + b) = y + b := by
      unfold max4
      exact max_eq_right (max_le (max_le (by linarith) (by linarith)) (by linarith))
    rw [m1, m2]; exact ⟨rfl, rfl⟩

theorem pairwise_blocks (n : Nat) (c : Rat) (q : List Rat) (hq : q.Pairwise (· ≤ ·)) :
    (q.flatMap (fun x => List.replicate n (x + c))).Pairwise (· ≤ ·) := by
  rw [List.pairwise_flatMap]
  refine ⟨fun x _ => List.pairwise_replicate.mpr (Or.inr (le_refl _)), ?_⟩
  refine hq.imp ?_
  intro x y hxy u hu v hv
  rw [List.eq_of_mem_replicate hu, List.eq_of_mem_replicate hv]; linarith

theorem forall₂_blocks (n : Nat) (a b : Rat) (hab : a ≤ b) : ∀ (ql qr : List Rat), List.Forall₂ (· ≤ ·) ql qr →
    List.Forall₂ (· ≤ ·) (ql.flatMap (fun x => List.replicate n (x + a))) (qr.flatMap (fun x => List.replicate n (x + b)))
  | _, _, .nil => List.Forall₂.nil
  | _, _, .cons (a := x) (b := y) hxy htl => by
    simp only [List.flatMap_cons]
    exact List.rel_append (forall₂_replicate n _ _ (by linarith)) (forall₂_blocks n a b hab _ _ htl)

theorem blocks_getElem? (n : Nat) (f : Rat → Rat) : ∀ (q : List Rat) (k r : Nat) (hk : k < q.length) (hr : r < n),
    (q.flatMap (fun x => List.replicate n (f x)))[k * n + r]? = some (f q[k])
  | x :: t, 0, r, _, hr => by
    simp only [List.flatMap_cons, Nat.zero_mul, Nat.zero_add, List.getElem_cons_zero]
    rw [List.getElem?_append_left (by simpa using hr)]
    simp [List.getElem?_replicate, hr]
  | x :: t, k + 1, r, hk, hr => by
    simp only [List.flatMap_cons, List.getElem_cons_succ]
    have e : (k + 1) * n + r = n + (k * n + r) := by ring
    rw [e, List.getElem?_append_right (by simp)]
    simp only [List.length_replicate, Nat.add_sub_cancel_left]
    exact blocks_getElem? n f t k r (by simpa using hk) hr

theorem blocks_length (n : Nat) (f : Rat → Rat) : ∀ (q : List Rat),
    (q.flatMap (fun x => List.replicate n (f x))).length = q.length * n
  | [] => by simp
  | x :: t => by simp [List.flatMap_cons, blocks_length n f t, Nat.succ_mul, Nat.add_comm]

theorem condenseIdx_sq (n k : Nat) (hn : 2 ≤ n) : condenseIdx (n * n) n k = k * n + k := by
  unfold condenseIdx
  have h1 : ¬ n ≤ 1 := by omega
  simp only [h1, if_false]
  have h2 : n * n - 1 = (n + 1) * (n - 1) := by
    obtain ⟨m, rfl⟩ : ∃ m, n = m + 2 := ⟨n - 2, by omega⟩
    have e1 : m + 2 - 1 = m + 1 := by omega
    have e2 : (m + 2) * (m + 2) = (m + 2 + 1) * (m + 1) + 1 := by ring
    rw [e1, e2]; omega
  rw [h2, ← Nat.mul_assoc, Nat.mul_div_cancel _ (by omega : 0 < n - 1)]
  ring

/-- condensing `n` blocks of `n` equal values back to `n` steps returns one value per block -/
theorem boundSteps_blocks (f : Rat → Rat) (q : List Rat) (hn : 0 < q.length) :
    boundSteps q.length (q.flatMap (fun x => List.replicate q.length (f x))) = .ok (q.map f) := by
  set n := q.length with hnq
  unfold boundSteps
  rw [blocks_length]
  by_cases h2 : 2 ≤ n
  · have hgt : n * n > n := by nlinarith
    simp only [← hnq, hgt, if_true]
    congr 1
    unfold condense
    apply List.ext_getElem
    · simp [hnq]
    · intro k h1 h2'
      have hk : k < n := by simpa using h1
      simp only [List.getElem_map, List.getElem_range, blocks_length, ← hnq, condenseIdx_sq n k h2]
      rw [List.getD_eq_getElem?_getD, blocks_getElem? n f q k k (by omega) hk]
      rfl
  · have h1 : n = 1 := by omega
    simp only [← hnq, h1, Nat.mul_one, gt_iff_lt, lt_irrefl, if_false]
    obtain ⟨x, hx⟩ : ∃ x, q = [x] := List.length_eq_one_iff.mp (by omega)
    subst hx; simp

/-- **anything + interval under independence**: the `n²` focal sums condense back to `Q` shifted -/
theorem add_const_right_i (Q : PB) (hn : 0 < Q.left.length) (hQ : WF Q.left.length Q) (a b : Rat) (hab : a ≤ b) :
    add Q.left.length .i Q (ofIvl Q.left.length a b) = .ok ⟨Q.left.map (a + ·), Q.right.map (b + ·)⟩ := by
  set n := Q.left.length with hnq
  have hrl : Q.right.length = n := hQ.rlen
  obtain ⟨c1, c2⟩ := corners_const_right n a b hab Q.left Q.right hQ.le
  simp only [add, independentOp, cornersSorted, ofIvl, cartesian_const_right, c1, c2]
  rw [sortR_of_sorted _ (pairwise_blocks n a Q.left hQ.lsorted), sortR_of_sorted _ (pairwise_blocks n b Q.right hQ.rsorted)]
  have hle := forall₂_blocks n a b hab Q.left Q.right hQ.le
  have hw := wf_shift n Q hQ a b hab
  have hsw : ∀ (sw : Bool) (l r : List Rat), (sw = true → l = r) →
      ((if sw then (r, l) else (l, r)) : List Rat × List Rat) = (l, r) := by
    intro sw l r hs; cases sw
    · rfl
    · rw [hs rfl]; rfl
  unfold mk
  simp only [Bool.false_eq_true, if_false]
  rw [hsw _ _ _ (by
    intro h
    split at h
    · exact allGe_eq_of_le _ _ hle h
    · cases h)]
  simp only
  have b1 := boundSteps_blocks (· + a) Q.left hn
  have b2 : boundSteps n (Q.right.flatMap (fun x => List.replicate n (x + b))) = .ok (Q.right.map (· + b)) := by
    have := boundSteps_blocks (· + b) Q.right (by omega)
    rwa [hrl] at this
  rw [← hnq] at b1
  rw [b1, ok_bind, b2, ok_bind, map_add_comm, map_add_comm]
  simp [hw.llen, hw.rlen, isIncreasing_of_pairwise _ hw.lsorted, isIncreasing_of_pairwise _ hw.rsorted, hQ.llen, hQ.rlen,
    no_cross_of_le _ _ hw.le]


end Pun.Hier
