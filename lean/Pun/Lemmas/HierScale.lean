import Pun.Lemmas.HierComm
/-!
# A constant operand (embedded number / interval) against a general well-formed p-box

* with a constant right operand the independent and the opposite rule coincide with the perfect rule;
* the sum with an embedded interval is the shift, under every dependency and in either order;
* the product with an embedded NUMBER is `pbox_number_ops(·, c, mul)`, under every dependency
  (Frechet included: sign routing, and naive ∩ Balch when the p-box straddles zero).
-/
set_option linter.unusedSimpArgs false
set_option linter.unusedVariables false
namespace Pun.Hier
open Pun Pun.PBox

/-- every entry repeated `n` times, in order -/
def blocks (n : Nat) (l : List Rat) : List Rat := l.flatMap (fun x => List.replicate n x)

theorem blocks_eq (n : Nat) (f : Rat → Rat) (q : List Rat) :
    q.flatMap (fun x => List.replicate n (f x)) = blocks n (q.map f) := by
  unfold blocks; rw [List.flatMap_map]

theorem blocks_len (n : Nat) (l : List Rat) : (blocks n l).length = l.length * n := by
  have := blocks_length n id l; simpa [blocks] using this

theorem blocks_perm {n : Nat} {l l' : List Rat} (h : l.Perm l') : (blocks n l).Perm (blocks n l') :=
  List.Perm.flatMap_right _ h

theorem blocks_sorted (n : Nat) (l : List Rat) (h : l.Pairwise (· ≤ ·)) : (blocks n l).Pairwise (· ≤ ·) := by
  have := pairwise_blocks n 0 l h
  simpa [blocks] using this

theorem sortR_blocks (n : Nat) (l : List Rat) : sortR (blocks n l) = blocks n (sortR l) :=
  sortR_eq_of_perm _ _ (blocks_perm (sortR_perm l).symm) (blocks_sorted n _ (sortR_sorted l))

theorem allGe_blocks (n : Nat) (hn : 0 < n) : ∀ (l r : List Rat), l.length = r.length →
    allGe (blocks n l) (blocks n r) = allGe l r
  | [], [], _ => rfl
  | [], _ :: _, h => by simp at h
  | _ :: _, [], h => by simp at h
  | a :: s, b :: t, h => by
    have ih := allGe_blocks n hn s t (by simpa using h)
    unfold allGe at ih ⊢
    simp only [blocks, List.flatMap_cons] at ih ⊢
    rw [List.zip_append (by simp), List.all_append, ih, List.zip_replicate', List.all_replicate]
    simp [Nat.pos_iff_ne_zero.mp hn]

theorem boundSteps_blocks' (n : Nat) (hn : 0 < n) (l : List Rat) (hl : l.length = n) :
    boundSteps n (blocks n l) = .ok l := by
  have := boundSteps_blocks id l (by omega)
  rw [hl] at this
  simpa [blocks] using this

/-- **the constructor on `n` blocks of `n` equal values is the constructor on the values** (condensation
picks one entry of every block) -/
theorem mk_blocks (n : Nat) (hn : 0 < n) (l r : List Rat) (hl : l.length = n) (hr : r.length = n) :
    mk n false (blocks n l) (blocks n r) = mk n false l r := by
  unfold mk
  simp only [Bool.false_eq_true, if_false, blocks_len, hl, hr, if_true, allGe_blocks n hn l r (by rw [hl, hr])]
  by_cases h : allGe l r = true
  · simp only [h, if_true, boundSteps_blocks' n hn r hr, boundSteps_blocks' n hn l hl, ok_bind,
      Iso.boundSteps_eq n r hr, Iso.boundSteps_eq n l hl]
  · simp only [h, if_false, Bool.false_eq_true, boundSteps_blocks' n hn r hr, boundSteps_blocks' n hn l hl, ok_bind,
      Iso.boundSteps_eq n r hr, Iso.boundSteps_eq n l hl]

theorem zip4_blocks (f : Rat → Rat → Rat → Rat → Rat) (n : Nat) : ∀ (a b c d : List Rat),
    a.length = b.length → a.length = c.length → a.length = d.length →
    zip4 f (blocks n a) (blocks n b) (blocks n c) (blocks n d) = blocks n (zip4 f a b c d)
  | [], [], [], [], _, _, _ => by simp [blocks, zip4]
  | p :: a, q :: b, r :: c, s :: d, h2, h3, h4 => by
    have ih := zip4_blocks f n a b c d (by simpa using h2) (by simpa using h3) (by simpa using h4)
    simp only [blocks, List.flatMap_cons, zip4] at ih ⊢
    rw [zip4_replicate_append, ih]
  | [], _ :: _, _, _, h, _, _ => by simp at h
  | [], [], _ :: _, _, _, h, _ => by simp at h
  | [], [], [], _ :: _, _, _, h => by simp at h
  | _ :: _, [], _, _, h, _, _ => by simp at h
  | _ :: _, _ :: _, [], _, _, h, _ => by simp at h
  | _ :: _, _ :: _, _ :: _, [], _, _, h => by simp at h

theorem zipWith_rep_right (f : Rat → Rat → Rat) (a : Rat) (q : List Rat) (n : Nat) (h : q.length = n) :
    List.zipWith f q (List.replicate n a) = q.map (f · a) := by
  subst h; exact zipWith_replicate_right f a q

theorem zipWith_rep_left (f : Rat → Rat → Rat) (a : Rat) (q : List Rat) (n : Nat) (h : q.length = n) :
    List.zipWith f (List.replicate n a) q = q.map (f a) := by
  subst h; exact zipWith_replicate_left f a q

/-- **independence with a constant right operand is the perfect rule** (every focal element of `x`
meets the same interval `n` times): the `n²` sorted corners are the `n` sorted corners in blocks -/
theorem cornersSorted_const_right (op : Rat → Rat → Rat) (n : Nat) (x : PB) (hx : Len n x) (a b : Rat) :
    cornersSorted op x (ofIvl n a b) =
      (blocks n (perfectOp op x (ofIvl n a b)).1, blocks n (perfectOp op x (ofIvl n a b)).2) := by
  unfold cornersSorted perfectOp cornerPair
  simp only [ofIvl, cartesian_const_right, zipWith_rep_right _ _ _ n hx.l, zipWith_rep_right _ _ _ n hx.r]
  rw [blocks_eq n (op · a) x.left, blocks_eq n (op · b) x.left, blocks_eq n (op · a) x.right, blocks_eq n (op · b) x.right,
    zip4_blocks _ _ _ _ _ _ (by simp) (by simp [hx.l, hx.r]) (by simp [hx.l, hx.r]),
    zip4_blocks _ _ _ _ _ _ (by simp) (by simp [hx.l, hx.r]) (by simp [hx.l, hx.r]),
    sortR_blocks, sortR_blocks]

theorem perfectOp_len (op : Rat → Rat → Rat) (n : Nat) (x y : PB) (hx : Len n x) (hy : Len n y) :
    (perfectOp op x y).1.length = n ∧ (perfectOp op x y).2.length = n := by
  obtain ⟨h1, h2⟩ := Iso.cornerPair_length op x.left x.right y.left y.right n hx.l hx.r hy.l hy.r
  unfold perfectOp
  exact ⟨by simp [Iso.sortR_length, h1], by simp [Iso.sortR_length, h2]⟩

theorem len_ofIvl (n : Nat) (a b : Rat) : Len n (ofIvl n a b) := ⟨by simp [ofIvl], by simp [ofIvl]⟩

/-- with a constant right operand the independent sum / product is the perfect one -/
theorem indep_const_right (op : Rat → Rat → Rat) (n : Nat) (hn : 0 < n) (x : PB) (hx : Len n x) (a b : Rat) :
    (let (l, r) := independentOp op x (ofIvl n a b); mk n false l r) =
    (let (l, r) := perfectOp op x (ofIvl n a b); mk n false l r) := by
  obtain ⟨h1, h2⟩ := perfectOp_len op n x (ofIvl n a b) hx (len_ofIvl n a b)
  simp only [independentOp, cornersSorted_const_right op n x hx a b]
  exact mk_blocks n hn _ _ h1 h2

theorem add_i_const_right (n : Nat) (hn : 0 < n) (x : PB) (hx : Len n x) (a b : Rat) :
    add n .i x (ofIvl n a b) = add n .p x (ofIvl n a b) := indep_const_right (· + ·) n hn x hx a b

theorem mul_i_const_right (n : Nat) (hn : 0 < n) (x : PB) (hx : Len n x) (a b : Rat) :
    mul n .i x (ofIvl n a b) = mul n .p x (ofIvl n a b) := indep_const_right (· * ·) n hn x hx a b

theorem add_o_const_right (n : Nat) (x : PB) (a b : Rat) :
    add n .o x (ofIvl n a b) = add n .p x (ofIvl n a b) := by
  simp [add, oppositeOp, perfectOp, ofIvl, List.reverse_replicate]

theorem mul_o_const_right (n : Nat) (x : PB) (a b : Rat) :
    mul n .o x (ofIvl n a b) = mul n .p x (ofIvl n a b) := by
  simp [mul, oppositeOp, perfectOp, ofIvl, List.reverse_replicate]

/-- exchanging `p` and `o` is immaterial when the right operand is constant -/
theorem mul_swapPO_const_right (n : Nat) (d : Dep) (x : PB) (a b : Rat) :
    mul n (swapPO d) x (ofIvl n a b) = mul n d x (ofIvl n a b) := by
  cases d <;> simp only [swapPO, mul_o_const_right]

theorem add_swapPO_const_right (n : Nat) (d : Dep) (x : PB) (a b : Rat) :
    add n (swapPO d) x (ofIvl n a b) = add n d x (ofIvl n a b) := by
  cases d <;> simp only [swapPO, add_o_const_right]

/-! ## sum with an embedded interval: every dependency, either order -/

theorem add_const_right_all (n : Nat) (hn : 0 < n) (d : Dep) (hd : d ≠ .unknown) (a b : Rat) (hab : a ≤ b)
    (Q : PB) (hQ : WF n Q) :
    add n d Q (ofIvl n a b) = .ok ⟨Q.left.map (a + ·), Q.right.map (b + ·)⟩ := by
  cases d with
  | f => exact add_const_right n .f (Or.inl rfl) a b hab Q hQ
  | p => exact add_const_right n .p (Or.inr (Or.inl rfl)) a b hab Q hQ
  | o => exact add_const_right n .o (Or.inr (Or.inr rfl)) a b hab Q hQ
  | i => rw [add_i_const_right n hn Q hQ.len a b]; exact add_const_right n .p (Or.inr (Or.inl rfl)) a b hab Q hQ
  | unknown => exact absurd rfl hd

theorem add_const_left_all (n : Nat) (hn : 0 < n) (d : Dep) (hd : d ≠ .unknown) (a b : Rat) (hab : a ≤ b)
    (Q : PB) (hQ : WF n Q) :
    add n d (ofIvl n a b) Q = .ok ⟨Q.left.map (a + ·), Q.right.map (b + ·)⟩ := by
  rw [add_comm_pb n d _ _ (len_ofIvl n a b) hQ.len]
  exact add_const_right_all n hn d hd a b hab Q hQ

/-! ## `pbox_number_ops(P, c, mul)` -/

/-- the scaled box: for `c > 0` every step scaled, for `c ≤ 0` scaled, bounds exchanged and order reversed -/
def scaleP (P : PB) (c : Rat) : PB :=
  if 0 < c then ⟨P.left.map (· * c), P.right.map (· * c)⟩
  else ⟨(P.right.map (· * c)).reverse, (P.left.map (· * c)).reverse⟩

theorem wf_scale_pos (n : Nat) (P : PB) (hP : WF n P) (c : Rat) (hc : 0 ≤ c) :
    WF n ⟨P.left.map (· * c), P.right.map (· * c)⟩ where
  llen := by simp [hP.llen]
  rlen := by simp [hP.rlen]
  lsorted := List.Pairwise.map _ (fun x y h => mul_le_mul_of_nonneg_right h hc) hP.lsorted
  rsorted := List.Pairwise.map _ (fun x y h => mul_le_mul_of_nonneg_right h hc) hP.rsorted
  le := by
    rw [List.forall₂_map_left_iff, List.forall₂_map_right_iff]
    exact hP.le.imp (fun x y h => mul_le_mul_of_nonneg_right h hc)

theorem wf_scale_neg (n : Nat) (P : PB) (hP : WF n P) (c : Rat) (hc : c ≤ 0) :
    WF n ⟨(P.right.map (· * c)).reverse, (P.left.map (· * c)).reverse⟩ where
  llen := by simp [hP.rlen]
  rlen := by simp [hP.llen]
  lsorted := by
    rw [List.pairwise_reverse]
    exact List.Pairwise.map _ (fun x y h => mul_le_mul_of_nonpos_right h hc) hP.rsorted
  rsorted := by
    rw [List.pairwise_reverse]
    exact List.Pairwise.map _ (fun x y h => mul_le_mul_of_nonpos_right h hc) hP.lsorted
  le := by
    rw [List.forall₂_reverse_iff, List.forall₂_map_left_iff, List.forall₂_map_right_iff]
    exact (List.Forall₂.flip hP.le).imp (fun x y h => mul_le_mul_of_nonpos_right h hc)

theorem wf_scaleP (n : Nat) (P : PB) (hP : WF n P) (c : Rat) : WF n (scaleP P c) := by
  unfold scaleP
  by_cases h : 0 < c
  · simp only [h, if_true]; exact wf_scale_pos n P hP c (le_of_lt h)
  · simp only [h, if_false]; exact wf_scale_neg n P hP c (not_lt.mp h)

/-- for `c = 0` the two forms coincide (all zeros) -/
theorem scale_zero_forms (n : Nat) (P : PB) (hP : Len n P) :
    (⟨P.left.map (· * 0), P.right.map (· * 0)⟩ : PB) = ⟨(P.right.map (· * 0)).reverse, (P.left.map (· * 0)).reverse⟩ := by
  have e : ∀ l : List Rat, l.map (· * 0) = List.replicate l.length 0 := by
    intro l; induction l with
    | nil => rfl
    | cons x t ih => simp [List.replicate_succ, ih]
  rw [e, e, hP.l, hP.r, List.reverse_replicate]

theorem scaleP_nonneg (n : Nat) (P : PB) (hP : Len n P) (c : Rat) (hc : 0 ≤ c) :
    scaleP P c = ⟨P.left.map (· * c), P.right.map (· * c)⟩ := by
  unfold scaleP
  by_cases h : 0 < c
  · simp [h]
  · have : c = 0 := le_antisymm (not_lt.mp h) hc
    subst this; simp only [lt_irrefl, if_false]; exact (scale_zero_forms n P hP).symm

theorem scaleP_nonpos (P : PB) (c : Rat) (hc : c ≤ 0) :
    scaleP P c = ⟨(P.right.map (· * c)).reverse, (P.left.map (· * c)).reverse⟩ := by
  unfold scaleP; simp [not_lt.mpr hc]

/-- sorting a list scaled by a non-positive factor reverses it -/
theorem sortR_scale_neg (l : List Rat) (hl : l.Pairwise (· ≤ ·)) (c : Rat) (hc : c ≤ 0) :
    sortR (l.map (· * c)) = (l.map (· * c)).reverse :=
  sortR_eq_of_perm _ _ (List.reverse_perm _).symm (by
    rw [List.pairwise_reverse]
    exact List.Pairwise.map _ (fun x y h => mul_le_mul_of_nonpos_right h hc) hl)

/-- **`pbox_number_ops(P, c, mul)`** on a well-formed box -/
theorem numberOp_mul_wf (n : Nat) (P : PB) (hP : WF n P) (c : Rat) :
    numberOp n (· * ·) P c = .ok (scaleP P c) := by
  unfold numberOp
  by_cases hc : 0 ≤ c
  · have hw := wf_scale_pos n P hP c hc
    rw [scaleP_nonneg n P hP.len c hc, sortR_of_sorted _ hw.lsorted, sortR_of_sorted _ hw.rsorted]
    exact mk_wf n true _ _ hw
  · have hc' : c ≤ 0 := le_of_lt (not_le.mp hc)
    have hw := wf_scale_neg n P hP c hc'
    rw [scaleP_nonpos P c hc', sortR_scale_neg _ hP.lsorted c hc', sortR_scale_neg _ hP.rsorted c hc']
    exact Iso.mk_ok_switched n _ _ hw.rlen hw.llen hw.rsorted hw.lsorted hw.le


/-! ## product with an embedded number: perfect / opposite / independent -/

theorem corners_scale (c : Rat) : ∀ (l r : List Rat), List.Forall₂ (· ≤ ·) l r →
    (0 ≤ c → zip4 min4 (l.map (· * c)) (l.map (· * c)) (r.map (· * c)) (r.map (· * c)) = l.map (· * c) ∧
             zip4 max4 (l.map (· * c)) (l.map (· * c)) (r.map (· * c)) (r.map (· * c)) = r.map (· * c)) ∧
    (c ≤ 0 → zip4 min4 (l.map (· * c)) (l.map (· * c)) (r.map (· * c)) (r.map (· * c)) = r.map (· * c) ∧
             zip4 max4 (l.map (· * c)) (l.map (· * c)) (r.map (· * c)) (r.map (· * c)) = l.map (· * c))
  | _, _, .nil => by simp [zip4]
  | _, _, .cons (a := x) (b := y) hxy htl => by
    obtain ⟨ih1, ih2⟩ := corners_scale c _ _ htl
    constructor
    · intro hc
      obtain ⟨e1, e2⟩ := ih1 hc
      have h : x * c ≤ y * c := mul_le_mul_of_nonneg_right hxy hc
      simp only [List.map_cons, zip4, e1, e2]
      simp [min4, max4, h]
    · intro hc
      obtain ⟨e1, e2⟩ := ih2 hc
      have h : y * c ≤ x * c := mul_le_mul_of_nonpos_right hxy hc
      simp only [List.map_cons, zip4, e1, e2]
      simp [min4, max4, h]

/-- **`P.mul(c as p-box, 'p')` is the number route** -/
theorem mul_p_const (n : Nat) (P : PB) (hP : WF n P) (c : Rat) :
    mul n .p P (ofIvl n c c) = .ok (scaleP P c) := by
  simp only [mul, perfectOp, cornerPair, ofIvl, zipWith_rep_right _ _ _ n hP.llen, zipWith_rep_right _ _ _ n hP.rlen]
  obtain ⟨k1, k2⟩ := corners_scale c _ _ hP.le
  by_cases hc : 0 ≤ c
  · obtain ⟨e1, e2⟩ := k1 hc
    have hw := wf_scale_pos n P hP c hc
    rw [e1, e2, scaleP_nonneg n P hP.len c hc, sortR_of_sorted _ hw.lsorted, sortR_of_sorted _ hw.rsorted]
    exact mk_wf n false _ _ hw
  · have hc' : c ≤ 0 := le_of_lt (not_le.mp hc)
    obtain ⟨e1, e2⟩ := k2 hc'
    have hw := wf_scale_neg n P hP c hc'
    rw [e1, e2, scaleP_nonpos P c hc', sortR_scale_neg _ hP.rsorted c hc', sortR_scale_neg _ hP.lsorted c hc']
    exact mk_wf n false _ _ hw

theorem mul_poi_const (n : Nat) (hn : 0 < n) (d : Dep) (hd : d = .p ∨ d = .o ∨ d = .i) (P : PB) (hP : WF n P) (c : Rat) :
    mul n d P (ofIvl n c c) = .ok (scaleP P c) := by
  rcases hd with h | h | h <;> subst h
  · exact mul_p_const n P hP c
  · rw [mul_o_const_right]; exact mul_p_const n P hP c
  · rw [mul_i_const_right n hn P hP.len]; exact mul_p_const n P hP c


/-! ## product with an embedded number: Frechet -/

theorem frechetLeftRaw_constR' (op : Rat → Rat → Rat) (a : Rat) (q : List Rat) (n : Nat) (hn : q.length = n)
    (hq : q.Pairwise (· ≤ ·)) (hm : ∀ x y, x ≤ y → op x a ≤ op y a) :
    frechetLeftRaw op q (List.replicate n a) = q.map (op · a) := by
  subst hn; exact frechetLeftRaw_constR op a q hq hm

theorem frechetRightRaw_constR' (op : Rat → Rat → Rat) (a : Rat) (q : List Rat) (n : Nat) (hn : q.length = n)
    (hq : q.Pairwise (· ≤ ·)) (hm : ∀ x y, x ≤ y → op x a ≤ op y a) :
    frechetRightRaw op q (List.replicate n a) = q.map (op · a) := by
  subst hn; exact frechetRightRaw_constR op a q hq hm

/-- Frank–Nelson–Sklar product with a constant non-negative factor: every step scaled -/
theorem classic_mul_const (n : Nat) (A : PB) (hA : WF n A) (k : Rat) (hk : 0 ≤ k) :
    classicFrechet n (· * ·) A (ofIvl n k k) = .ok ⟨A.left.map (· * k), A.right.map (· * k)⟩ := by
  have hw := wf_scale_pos n A hA k hk
  simp only [classicFrechet, frechetOp, ofIvl]
  rw [frechetLeftRaw_constR' (· * ·) k A.left n hA.llen hA.lsorted (fun x y h => mul_le_mul_of_nonneg_right h hk),
    frechetRightRaw_constR' (· * ·) k A.right n hA.rlen hA.rsorted (fun x y h => mul_le_mul_of_nonneg_right h hk),
    sortR_of_sorted _ hw.lsorted, sortR_of_sorted _ hw.rsorted]
  exact mk_wf n false _ _ hw

theorem map_neg_scale_a (l : List Rat) (c : Rat) :
    ((l.map (- ·)).reverse).map (· * (-c)) = (l.map (· * c)).reverse := by
  rw [List.map_reverse, List.map_map]
  congr 1; apply List.map_congr_left; intro x _; simp

theorem map_neg_scale_b (l : List Rat) (c : Rat) :
    ((((l.map (- ·)).reverse).map (· * c)).map (- ·)).reverse = l.map (· * c) := by
  rw [List.map_reverse, List.map_reverse, List.reverse_reverse, List.map_map, List.map_map]
  apply List.map_congr_left; intro x _; simp

theorem map_neg_scale_c (l : List Rat) (c : Rat) :
    ((l.map (· * (-c))).map (- ·)).reverse = (l.map (· * c)).reverse := by
  rw [List.map_map]
  congr 1; apply List.map_congr_left; intro x _; simp

/-- `frechet_pbox_mul`'s sign routing (no straddle branch) with a constant right operand is the exact scaling,
whatever the sign of the p-box -/
theorem noStraddle_const (n : Nat) (hn : 0 < n) (P : PB) (hP : WF n P) (c : Rat) :
    frechetMulNoStraddle n P (ofIvl n c c) = .ok (scaleP P c) := by
  obtain ⟨hneg, hwn⟩ := neg_wf n P hP
  unfold frechetMulNoStraddle negativeFrechet
  simp only [hi_ofIvl n _ _ hn]
  by_cases qx : hi P ≤ 0 <;> by_cases qc : c ≤ 0 <;>
    simp only [qx, qc, decide_true, decide_false, Bool.or_self, Bool.or_true, Bool.true_or, Bool.or_false, Bool.false_or,
      if_true, if_false, Bool.xor_self, Bool.true_xor, Bool.xor_true, Bool.false_xor, Bool.xor_false, Bool.not_true,
      Bool.not_false, Bool.false_eq_true, pure, Except.pure, ok_bind]
  · rw [hneg, ok_bind, neg_ofIvl n c c hn (le_refl c), ok_bind, classic_mul_const n _ hwn (-c) (by linarith), ok_bind,
      scaleP_nonpos P c qc]
    simp only [map_neg_scale_a]
  · have hc : 0 ≤ c := le_of_lt (not_le.mp qc)
    rw [hneg, ok_bind, classic_mul_const n _ hwn c hc, ok_bind,
      (neg_wf n _ (wf_scale_pos n _ hwn c hc)).1, scaleP_nonneg n P hP.len c hc]
    simp only [map_neg_scale_b]
  · rw [neg_ofIvl n c c hn (le_refl c), ok_bind, classic_mul_const n P hP (-c) (by linarith), ok_bind,
      (neg_wf n _ (wf_scale_pos n P hP (-c) (by linarith))).1, scaleP_nonpos P c qc]
    simp only [map_neg_scale_c]
  · have hc : 0 ≤ c := le_of_lt (not_le.mp qc)
    rw [classic_mul_const n P hP c hc, scaleP_nonneg n P hP.len c hc]


theorem numberOp_sub_wf (n : Nat) (P : PB) (hP : WF n P) (c : Rat) :
    numberOp n (· - ·) P c = .ok ⟨P.left.map (-c + ·), P.right.map (-c + ·)⟩ := by
  have hw := wf_shift n P hP (-c) (-c) (le_refl _)
  have e : ∀ l : List Rat, l.map (· - c) = l.map (-c + ·) :=
    fun l => List.map_congr_left (fun x _ => by ring)
  unfold numberOp
  rw [e, e, sortR_of_sorted _ hw.lsorted, sortR_of_sorted _ hw.rsorted]
  exact mk_wf n true _ _ hw

/-- the perfect rule against an embedded number: the scaled bounds -/
theorem perfectOp_const (n : Nat) (P : PB) (hP : WF n P) (c : Rat) :
    perfectOp (· * ·) P (ofIvl n c c) = ((scaleP P c).left, (scaleP P c).right) := by
  simp only [perfectOp, cornerPair, ofIvl, zipWith_rep_right _ _ _ n hP.llen, zipWith_rep_right _ _ _ n hP.rlen]
  obtain ⟨k1, k2⟩ := corners_scale c _ _ hP.le
  by_cases hc : 0 ≤ c
  · obtain ⟨e1, e2⟩ := k1 hc
    have hw := wf_scale_pos n P hP c hc
    rw [e1, e2, scaleP_nonneg n P hP.len c hc, sortR_of_sorted _ hw.lsorted, sortR_of_sorted _ hw.rsorted]
  · have hc' : c ≤ 0 := le_of_lt (not_le.mp hc)
    obtain ⟨e1, e2⟩ := k2 hc'
    rw [e1, e2, scaleP_nonpos P c hc', sortR_scale_neg _ hP.rsorted c hc', sortR_scale_neg _ hP.lsorted c hc']

theorem take_blocks (n : Nat) (x : Rat) (t : List Rat) : (blocks n (x :: t)).take n = List.replicate n x := by
  simp only [blocks, List.flatMap_cons]
  rw [List.take_left' (by simp)]

theorem drop_blocks (n : Nat) (t : List Rat) (y : Rat) :
    (blocks n (t ++ [y])).drop (t.length * n) = List.replicate n y := by
  simp only [blocks, List.flatMap_append, List.flatMap_cons, List.flatMap_nil, List.append_nil]
  rw [List.drop_left' (by simpa [blocks] using blocks_len n t)]

theorem zipWith_max_rep (m : Rat) : ∀ (L : List Rat), (∀ v ∈ L, m ≤ v) → List.zipWith max (List.replicate L.length m) L = L
  | [], _ => rfl
  | x :: t, h => by
    simp only [List.length_cons, List.replicate_succ, List.zipWith_cons_cons]
    rw [max_eq_right (h x (by simp)), zipWith_max_rep m t (fun v hv => h v (by simp [hv]))]

theorem zipWith_min_rep (m : Rat) : ∀ (L : List Rat), (∀ v ∈ L, v ≤ m) → List.zipWith min (List.replicate L.length m) L = L
  | [], _ => rfl
  | x :: t, h => by
    simp only [List.length_cons, List.replicate_succ, List.zipWith_cons_cons]
    rw [min_eq_right (h x (by simp)), zipWith_min_rep m t (fun v hv => h v (by simp [hv]))]

/-- the naive rule against a constant operand, intersected with any well-formed box `S` whose bounds are the
sorted corner minima / maxima: `S` itself -/
theorem imp_naive_blocks (n : Nat) (hn : 0 < n) (S : PB) (hS : WF n S) :
    (mk n false ((blocks n S.left).take n) ((blocks n S.right).drop (n * n - n)) >>= fun nv => imp n nv S) = .ok S := by
  obtain ⟨x, t, hx⟩ : ∃ x t, S.left = x :: t := by
    cases h : S.left with
    | nil => have := hS.llen; rw [h] at this; simp at this; omega
    | cons x t => exact ⟨x, t, rfl⟩
  obtain ⟨t', y, hy⟩ : ∃ t' y, S.right = t' ++ [y] := by
    have hne : S.right ≠ [] := by intro h; have := hS.rlen; rw [h] at this; simp at this; omega
    exact ⟨S.right.dropLast, S.right.getLast hne, (List.dropLast_append_getLast hne).symm⟩
  have ht' : t'.length = n - 1 := by have := hS.rlen; rw [hy] at this; simp at this; omega
  have hidx : n * n - n = t'.length * n := by
    rw [ht']; obtain ⟨k, rfl⟩ : ∃ k, n = k + 1 := ⟨n - 1, by omega⟩
    simp only [Nat.add_sub_cancel]; rw [Nat.add_mul, Nat.one_mul, Nat.add_sub_cancel]
  have hxmin : ∀ v ∈ S.left, x ≤ v := by
    intro v hv; rw [hx] at hv
    rcases List.mem_cons.mp hv with h | h
    · rw [h]
    · have := hS.lsorted; rw [hx] at this; exact (List.pairwise_cons.mp this).1 v h
  have hymax : ∀ v ∈ S.right, v ≤ y := by
    intro v hv; rw [hy] at hv
    rcases List.mem_append.mp hv with h | h
    · have := hS.rsorted; rw [hy] at this
      exact (List.pairwise_append.mp this).2.2 v h y (by simp)
    · simp at h; rw [h]
  have hxy : x ≤ y := by
    have h1 : x ∈ S.left := by rw [hx]; simp
    -- x ≤ its partner on the right ≤ y
    have := hS.le
    rw [hx] at this
    cases hr : S.right with
    | nil => rw [hr] at this; cases this
    | cons r0 rt =>
      rw [hr] at this
      cases this with
      | cons h0 _ => exact le_trans h0 (hymax r0 (by rw [hr]; simp))
  rw [hx, take_blocks, hy, hidx, drop_blocks, mk_ofIvl n false x y hn hxy, ok_bind]
  unfold imp
  have eL : List.zipWith max (ofIvl n x y).left S.left = S.left := by
    have := zipWith_max_rep x S.left hxmin
    rwa [hS.llen] at this
  have eR : List.zipWith min (ofIvl n x y).right S.right = S.right := by
    have := zipWith_min_rep y S.right hymax
    rwa [hS.rlen] at this
  simp only [eL, eR, no_cross_of_le _ _ hS.le, Bool.false_eq_true, if_false]
  exact mk_wf n true _ _ hS


theorem scale_shift_pos (l : List Rat) (c y0 : Rat) :
    ((l.map (-y0 + ·)).map (· * c)).map (c * y0 + ·) = l.map (· * c) := by
  rw [List.map_map, List.map_map]; apply List.map_congr_left; intro x _; simp only [Function.comp]; ring

theorem scale_shift_neg (l : List Rat) (c y0 : Rat) :
    (((l.map (-y0 + ·)).map (· * c)).reverse).map (c * y0 + ·) = (l.map (· * c)).reverse := by
  rw [List.map_reverse, List.map_map, List.map_map]; congr 1
  apply List.map_congr_left; intro x _; simp only [Function.comp]; ring

/-- Balch's product of an embedded number with a zero-straddling box: the exact scaling -/
theorem balch_const (n : Nat) (hn : 0 < n) (P : PB) (hP : WF n P) (sP : straddlesZero P = true) (c : Rat) :
    balchprod n (ofIvl n c c) P = .ok (scaleP P c) := by
  have sC : straddlesZero (ofIvl n c c) = false := by
    rw [straddlesZero_ofIvl n c c hn]
    by_cases h : c < 0
    · simp [h, not_lt.mpr (le_of_lt h)]
    · simp [h]
  set y0 := lo P with hy0
  have hyy := numberOp_sub_wf n P hP y0
  have hwy : WF n ⟨P.left.map (-y0 + ·), P.right.map (-y0 + ·)⟩ := wf_shift n P hP (-y0) (-y0) (le_refl _)
  have ha : frechetMulNoStraddle n (ofIvl n c c) ⟨P.left.map (-y0 + ·), P.right.map (-y0 + ·)⟩ =
      .ok (scaleP ⟨P.left.map (-y0 + ·), P.right.map (-y0 + ·)⟩ c) :=
    frechetMulNoStraddle_comm_ok n _ _ _ hwy.len (len_ofIvl n c c) (noStraddle_const n hn _ hwy c)
  have hb : numberOp n (· * ·) (ofIvl n c c) y0 = .ok (ofIvl n (c * y0) (c * y0)) := by
    rw [numberOp_ofIvl n _ _ _ _ hn]; simp
  have hws := wf_scaleP n _ hwy c
  unfold balchprod
  simp only [sC, sP, Bool.false_and, Bool.false_eq_true, if_false, if_true, ← hy0]
  rw [hyy, ok_bind, ha, ok_bind, hb, ok_bind]
  show add n .f _ _ = _
  rw [add_const_right n .f (Or.inl rfl) (c * y0) (c * y0) (le_refl _) _ hws]
  congr 1
  by_cases hc : 0 ≤ c
  · rw [scaleP_nonneg n _ hwy.len c hc, scaleP_nonneg n P hP.len c hc]
    simp only [scale_shift_pos]
  · have hc' : c ≤ 0 := le_of_lt (not_le.mp hc)
    rw [scaleP_nonpos _ c hc', scaleP_nonpos P c hc']
    simp only [scale_shift_neg]

/-- **Frechet product of a zero-straddling box with an embedded number** (`straddle_frechet_pbox`:
naive ∩ Balch): the exact scaling -/
theorem straddle_const (n : Nat) (hn : 0 < n) (P : PB) (hP : WF n P) (sP : straddlesZero P = true) (c : Rat) :
    straddleFrechet n (ofIvl n c c) P = .ok (scaleP P c) := by
  have hS := wf_scaleP n P hP c
  unfold straddleFrechet
  have e : naiveOp (· * ·) (ofIvl n c c) P = naiveOp (· * ·) P (ofIvl n c c) :=
    naiveOp_comm (· * ·) mul_c _ _ (by simp [ofIvl]) (by rw [hP.llen, hP.rlen]) (by simp [ofIvl, hP.llen])
  rw [e]
  simp only [naiveOp, cornersSorted_const_right (· * ·) n P hP.len c c, perfectOp_const n P hP c, hP.llen,
    balch_const n hn P hP sP c]
  have := imp_naive_blocks n hn (scaleP P c) hS
  simpa using this

/-- **`P.mul(c as p-box, 'f') = pbox_number_ops(P, c, mul)`** for every well-formed `P` -/
theorem frechetMul_const (n : Nat) (hn : 0 < n) (P : PB) (hP : WF n P) (c : Rat) :
    frechetMul n P (ofIvl n c c) = .ok (scaleP P c) := by
  have sC : straddlesZero (ofIvl n c c) = false := by
    rw [straddlesZero_ofIvl n c c hn]
    by_cases h : c < 0
    · simp [h, not_lt.mpr (le_of_lt h)]
    · simp [h]
  unfold frechetMul
  cases sP : straddlesZero P <;> simp only [sP, sC, Bool.or_self, Bool.or_false, Bool.false_eq_true, if_false, if_true]
  · exact noStraddle_const n hn P hP c
  · exact straddle_const n hn P hP sP c

/-- **product of a well-formed p-box with an embedded number, every dependency: the number route** -/
theorem mul_const_all (n : Nat) (hn : 0 < n) (d : Dep) (hd : d ≠ .unknown) (P : PB) (hP : WF n P) (c : Rat) :
    mul n d P (ofIvl n c c) = numberOp n (· * ·) P c := by
  rw [numberOp_mul_wf n P hP c]
  cases d with
  | f => exact frechetMul_const n hn P hP c
  | p => exact mul_poi_const n hn .p (Or.inl rfl) P hP c
  | o => exact mul_poi_const n hn .o (Or.inr (Or.inl rfl)) P hP c
  | i => exact mul_poi_const n hn .i (Or.inr (Or.inr rfl)) P hP c
  | unknown => exact absurd rfl hd


end Pun.Hier
