import Pun.Lemmas.PBoxFrechet2
import Mathlib.Algebra.Order.Field.Basic
/-!
# Reciprocal of a p-box and the public Frechet quotient

* `recip_ok` — for a well-formed p-box of one sign with no zero bound, `reciprocal` returns
  `⟨1/flip(right), 1/flip(left)⟩` (`recipB`), well formed;
* `numberOp_mul_one` — `1 * P` (`pbox_number_ops(P, 1, mul)`) is the identity on well-formed boxes;
* `div_f_onesign_good` — `X.div(Y, 'f') = X.mul(1/Y, 'f')` for a one-signed dividend and a
  zero-free divisor: well formed, valid for every selection and coupling, attained entry by entry
  (selections `y ↦ (1/y)∘rev`, couplings `σ ↦ rev∘σ`).
-/
set_option linter.unusedSimpArgs false
set_option linter.unusedVariables false
namespace Pun.PBox
open Pun Finset

/-- divisor support excludes zero -/
def ZeroFree (p : PB) : Prop := (∀ v ∈ p.left, 0 < v) ∨ (∀ v ∈ p.right, v < 0)

theorem antiInv_recip_pos : AntiInv (fun v : Rat => 1 / v) (fun v => 0 < v) :=
  ⟨fun a ha => one_div_pos.mpr ha,
   fun a b ha _ hab => one_div_le_one_div_of_le ha hab,
   fun a _ => one_div_one_div a,
   fun a b c ha _ hab _ => lt_of_lt_of_le ha hab⟩

theorem antiInv_recip_neg : AntiInv (fun v : Rat => 1 / v) (fun v => v < 0) :=
  ⟨fun a ha => one_div_neg.mpr ha,
   fun a b ha hb hab => (one_div_le_one_div_of_neg hb ha).mpr hab,
   fun a _ => one_div_one_div a,
   fun a b c _ hc _ hbc => lt_of_le_of_lt hbc hc⟩

/-- a well-formed zero-free p-box lies entirely in the positive or entirely in the negative reals -/
theorem zeroFree_inS (n : Nat) (Y : PB) (hY : WF n Y) (z : ZeroFree Y) :
    InS (fun v => 0 < v) Y ∨ InS (fun v => v < 0) Y := by
  have hl := hY.llen; have hr := hY.rlen
  rcases z with z | z
  · left
    refine ⟨z, ?_⟩
    intro v hv
    obtain ⟨i, hi', rfl⟩ := List.getElem_of_mem hv
    exact lt_of_lt_of_le (z _ (List.getElem_mem _)) (hY.le i (by omega))
  · right
    refine ⟨?_, z⟩
    intro v hv
    obtain ⟨i, hi', rfl⟩ := List.getElem_of_mem hv
    exact lt_of_le_of_lt (hY.le i (by omega)) (z _ (List.getElem_mem _))

theorem hasZero_false (l : List Rat) (h : ∀ v ∈ l, v ≠ 0) : hasZero l = false := by
  unfold hasZero
  rw [List.any_eq_false]
  intro v hv
  simpa using h v hv

/-- **`Y.reciprocal()`** on a well-formed p-box of one sign without a zero bound: reciprocals of the
bounds, exchanged and listed in reverse order; the constructor accepts them unchanged -/
theorem recip_ok (n : Nat) (Y : PB) (hY : WF n Y) (z : ZeroFree Y) :
    recip n Y = .ok (recipB Y) ∧ WF n (recipB Y) ∧ ZeroFree (recipB Y) ∧ OneSign (recipB Y) := by
  rcases zeroFree_inS n Y hY z with hS | hS
  · obtain ⟨w, hS'⟩ := flipB_wf _ _ antiInv_recip_pos n Y hY hS
    refine ⟨?_, w, Or.inl hS'.1, Or.inl ⟨fun v hv => le_of_lt (hS'.1 v hv), fun v hv => le_of_lt (hS'.2 v hv)⟩⟩
    unfold recip
    rw [straddlesZero_false_pos Y hS.1 hS.2,
      hasZero_false _ (fun v hv => ne_of_gt (hS.1 v hv)), hasZero_false _ (fun v hv => ne_of_gt (hS.2 v hv))]
    simp only [Bool.or_self, Bool.false_eq_true, if_false]
    exact mk_arr_ok n _ _ w.llen w.rlen w.lsorted w.rsorted (fun i h => w.le i (lt_of_lt_of_eq h w.llen))
  · obtain ⟨w, hS'⟩ := flipB_wf _ _ antiInv_recip_neg n Y hY hS
    refine ⟨?_, w, Or.inr hS'.2, Or.inr ⟨fun v hv => le_of_lt (hS'.1 v hv), fun v hv => le_of_lt (hS'.2 v hv)⟩⟩
    unfold recip
    rw [straddlesZero_false_neg Y hS.1 hS.2,
      hasZero_false _ (fun v hv => ne_of_lt (hS.1 v hv)), hasZero_false _ (fun v hv => ne_of_lt (hS.2 v hv))]
    simp only [Bool.or_self, Bool.false_eq_true, if_false]
    exact mk_arr_ok n _ _ w.llen w.rlen w.lsorted w.rsorted (fun i h => w.le i (lt_of_lt_of_eq h w.llen))

/-- a zero bound makes `reciprocal` fail (`ZeroDivisionError` when the support straddles zero;
otherwise numpy would produce `inf`, not representable) -/
theorem recip_zero_raises (n : Nat) (Y : PB) (h : (0 : Rat) ∈ Y.left ∨ (0 : Rat) ∈ Y.right) :
    ∃ e, recip n Y = .error e := by
  unfold recip
  by_cases hs : straddlesZero Y = true
  · exact ⟨.ZeroDivision, by simp [hs]⟩
  refine ⟨.Value, ?_⟩
  simp only [hs, Bool.false_eq_true, if_false]
  have : (hasZero Y.left || hasZero Y.right) = true := by
    rcases h with h | h
    · have : hasZero Y.left = true := by
        unfold hasZero; rw [List.any_eq_true]; exact ⟨0, h, by simp⟩
      simp [this]
    · have : hasZero Y.right = true := by
        unfold hasZero; rw [List.any_eq_true]; exact ⟨0, h, by simp⟩
      simp [this]
  simp [this]

/-- **`1 * P`** (`pbox_number_ops(P, 1, mul)`) is the identity on well-formed p-boxes -/
theorem numberOp_mul_one (n : Nat) (P : PB) (hP : WF n P) : numberOp n (· * ·) P 1 = .ok P := by
  unfold numberOp
  have e1 : P.left.map (fun x => x * 1) = P.left := by simp
  have e2 : P.right.map (fun x => x * 1) = P.right := by simp
  rw [e1, e2, sortR_of_sorted _ hP.lsorted, sortR_of_sorted _ hP.rsorted]
  exact mk_list_ok n _ _ hP.llen hP.rlen hP.lsorted hP.rsorted (fun i h => hP.le i (by have := hP.llen; omega))

/-- the public `div` with any dependency is the public `mul` with the reciprocal and the swapped
dependency, whenever the divisor is well formed and zero free -/
theorem div_eq_mul_recip (n : Nat) (d : Dep) (X Y : PB) (hY : WF n Y) (z : ZeroFree Y) :
    div n d X Y = mul n (swapPO d) X (recipB Y) := by
  obtain ⟨e, w, -, -⟩ := recip_ok n Y hY z
  unfold div
  simp only [e, bind, Except.bind, numberOp_mul_one n _ w]

/-- **`X.div(Y, 'f')`** for a dividend of one sign and a zero-free divisor -/
theorem div_f_onesign_good (n : Nat) (X Y : PB) (hX : WF n X) (hY : WF n Y)
    (sX : OneSign X) (z : ZeroFree Y) :
    ∃ R, div n .f X Y = .ok R ∧ WF n R ∧ Good n (· / ·) X Y R hX.toWFS hY.toWFS := by
  obtain ⟨e, w, -, sR⟩ := recip_ok n Y hY z
  obtain ⟨R, eR, wR, g⟩ := mul_f_onesign_good n X (recipB Y) hX w sX sR
  refine ⟨R, ?_, wR, ?_⟩
  · rw [div_eq_mul_recip n .f X Y hY z]; exact eR
  · rcases zeroFree_inS n Y hY z with hS | hS
    · exact (g.flipY _ _ antiInv_recip_pos hY.toWFS hS w.toWFS).congr (fun a b => mul_one_div a b)
    · exact (g.flipY _ _ antiInv_recip_neg hY.toWFS hS w.toWFS).congr (fun a b => mul_one_div a b)

/-- **`X.div(Y, 'f')` for ANY well-formed dividend (zero-straddling included) and a zero-free divisor**:
whatever it returns is well formed and valid for every selection and coupling -/
theorem div_f_allValid (n : Nat) (X Y R : PB) (hX : WF n X) (hY : WF n Y) (z : ZeroFree Y)
    (hR : div n .f X Y = .ok R) : WF n R ∧ AllValid n (· / ·) X Y R hX.toWFS hY.toWFS := by
  obtain ⟨-, w, -, -⟩ := recip_ok n Y hY z
  rw [div_eq_mul_recip n .f X Y hY z] at hR
  obtain ⟨wR, v⟩ := mul_f_allValid n X (recipB Y) R hX w hR
  refine ⟨wR, ?_⟩
  rcases zeroFree_inS n Y hY z with hS | hS
  · exact (v.flipY _ _ antiInv_recip_pos hY.toWFS hS w.toWFS).congr (fun a b => mul_one_div a b)
  · exact (v.flipY _ _ antiInv_recip_neg hY.toWFS hS w.toWFS).congr (fun a b => mul_one_div a b)

/-- … and it does return -/
theorem div_f_total (n : Nat) (X Y : PB) (hX : WF n X) (hY : WF n Y) (z : ZeroFree Y) :
    ∃ R, div n .f X Y = .ok R ∧ WF n R := by
  obtain ⟨-, w, -, -⟩ := recip_ok n Y hY z
  rw [div_eq_mul_recip n .f X Y hY z]
  exact mul_f_total n X (recipB Y) hX w

end Pun.PBox
