import Pun.Model.Elem
import Mathlib.Tactic.Linarith
import Mathlib.Tactic.Ring
import Mathlib.Tactic.Positivity
import Mathlib.Algebra.Order.Field.Rat
import Mathlib.Algebra.Order.Floor.Ring
import Mathlib.Data.Rat.Floor
import Mathlib.Order.Lattice
/-!
# Helper lemmas for C05: reduction modulo the period (integer bookkeeping done once)
-/
set_option linter.unusedSimpArgs false
set_option linter.unusedVariables false
namespace Pun.Elem

/-- where a point of `[lo,hi]` can land after reduction, given width `< T` -/
theorem reduced_range (T : ℚ) (hT : 0 < T)
    (lo hi x yl yh yx : ℚ) (kl kh kx : ℤ)
    (hlo : lo = yl + kl * T) (hyl0 : 0 ≤ yl) (hylT : yl < T)
    (hhi : hi = yh + kh * T) (hyh0 : 0 ≤ yh) (hyhT : yh < T)
    (hx : x = yx + kx * T) (hyx0 : 0 ≤ yx) (hyxT : yx < T)
    (h1 : lo ≤ x) (h2 : x ≤ hi) (hw : hi - lo < T) :
    (yl ≤ yx ∧ yx ≤ yh) ∨ (yh < yl ∧ (yl ≤ yx ∨ yx ≤ yh)) := by
  have hk1 : kl ≤ kx := by
    by_contra hcon
    have : kx + 1 ≤ kl := by omega
    have hc : ((kx : ℚ) + 1) ≤ (kl : ℚ) := by exact_mod_cast this
    nlinarith
  have hk2 : kx ≤ kh := by
    by_contra hcon
    have : kh + 1 ≤ kx := by omega
    have hc : ((kh : ℚ) + 1) ≤ (kx : ℚ) := by exact_mod_cast this
    nlinarith
  have hk3 : kh ≤ kl + 1 := by
    by_contra hcon
    have : kl + 2 ≤ kh := by omega
    have hc : ((kl : ℚ) + 2) ≤ (kh : ℚ) := by exact_mod_cast this
    nlinarith
  rcases (by omega : kh = kl ∨ kh = kl + 1) with h | h
  · left
    have hkx : kx = kl := by omega
    subst h; subst hkx
    constructor <;> nlinarith
  · right
    have hq : (kh : ℚ) = kl + 1 := by exact_mod_cast h
    refine ⟨by nlinarith, ?_⟩
    rcases (by omega : kx = kl ∨ kx = kh) with h' | h'
    · left; subst h'; nlinarith
    · right; subst h'; nlinarith


/-- what `%` computes is such a decomposition (Mathlib floor on ℚ) -/
theorem fmod_decomp (x T : ℚ) (hT : 0 < T) :
    x = (x - T * ⌊x / T⌋) + (⌊x / T⌋ : ℤ) * T ∧ 0 ≤ x - T * ⌊x / T⌋ ∧ x - T * ⌊x / T⌋ < T := by
  refine ⟨by ring, ?_, ?_⟩
  · have := Int.floor_le (x / T)
    have h2 : (⌊x / T⌋ : ℚ) * T ≤ x := by
      rw [← le_div_iff₀ hT]; exact this
    linarith
  · have := Int.lt_floor_add_one (x / T)
    have h2 : x < ((⌊x / T⌋ : ℚ) + 1) * T := by
      rw [← div_lt_iff₀ hT]; exact this
    linarith


end Pun.Elem
