import Pun.Model.Param
import Mathlib.Tactic.Linarith
import Mathlib.Tactic.Positivity
import Mathlib.Algebra.Order.Field.Rat
import Mathlib.Algebra.Order.Field.Basic
import Mathlib.Order.Lattice
import Mathlib.Data.List.Forall2
/-! helper lemmas for C09: membership in a box, coordinatewise monotonicity, corner
extremes, column min/max of the corner rows, `pboxInit`. -/
set_option linter.unusedSimpArgs false
set_option linter.unusedVariables false
namespace Pun.Param
open Pun

/-- `θ` lies in the parameter box (same number of coordinates, each inside its interval) -/
def InBox : List (Rat × Rat) → List Rat → Prop
  | [], [] => True
  | (lo, hi) :: b, x :: xs => lo ≤ x ∧ x ≤ hi ∧ InBox b xs
  | _, _ => False

/-- `Q` is monotone — increasing or decreasing, the direction may differ per coordinate —
    in each coordinate separately, on the box -/
def CoordMono : List (Rat × Rat) → (List Rat → Rat) → Prop
  | [], _ => True
  | (lo, hi) :: b, Q =>
    ((∀ ys, InBox b ys → ∀ x y, lo ≤ x → x ≤ y → y ≤ hi → Q (x :: ys) ≤ Q (y :: ys)) ∨
     (∀ ys, InBox b ys → ∀ x y, lo ≤ x → x ≤ y → y ≤ hi → Q (y :: ys) ≤ Q (x :: ys))) ∧
    ∀ x, lo ≤ x → x ≤ hi → CoordMono b (fun ys => Q (x :: ys))

theorem inBox_nil_iff (ys : List Rat) : InBox [] ys ↔ ys = [] := by
  cases ys <;> simp [InBox]

theorem inBox_cons_iff (lo hi : Rat) (b : List (Rat × Rat)) (ys : List Rat) :
    InBox ((lo, hi) :: b) ys ↔ ∃ x xs, ys = x :: xs ∧ lo ≤ x ∧ x ≤ hi ∧ InBox b xs := by
  cases ys with
  | nil => simp [InBox]
  | cons y t => simp [InBox]

theorem corners_ne_nil : ∀ b : List (Rat × Rat), corners b ≠ []
  | [] => by simp [corners]
  | (lo, hi) :: b => by
    have := corners_ne_nil b
    simp [corners, this]

/-- some corner is below `Q θ` -/
theorem corner_below : ∀ (b : List (Rat × Rat)) (Q : List Rat → Rat) (θ : List Rat),
    InBox b θ → CoordMono b Q → ∃ c ∈ corners b, Q c ≤ Q θ
  | [], Q, θ, hθ, _ => by
    rw [inBox_nil_iff] at hθ; subst hθ
    exact ⟨[], by simp [corners], le_refl _⟩
  | (lo, hi) :: b, Q, θ, hθ, hm => by
    rw [inBox_cons_iff] at hθ
    obtain ⟨x, xs, rfl, h1, h2, hxs⟩ := hθ
    obtain ⟨hdir, hrest⟩ := hm
    have hlh : lo ≤ hi := le_trans h1 h2
    rcases hdir with hinc | hdec
    · obtain ⟨c, hc, hle⟩ := corner_below b (fun ys => Q (lo :: ys)) xs hxs (hrest lo (le_refl _) hlh)
      refine ⟨lo :: c, ?_, le_trans hle (hinc xs hxs lo x (le_refl _) h1 h2)⟩
      simp only [corners, List.mem_append, List.mem_map]
      exact Or.inl ⟨c, hc, rfl⟩
    · obtain ⟨c, hc, hle⟩ := corner_below b (fun ys => Q (hi :: ys)) xs hxs (hrest hi hlh (le_refl _))
      refine ⟨hi :: c, ?_, le_trans hle (hdec xs hxs x hi h1 h2 (le_refl _))⟩
      simp only [corners, List.mem_append, List.mem_map]
      exact Or.inr ⟨c, hc, rfl⟩

/-- some corner is above `Q θ` -/
theorem corner_above : ∀ (b : List (Rat × Rat)) (Q : List Rat → Rat) (θ : List Rat),
    InBox b θ → CoordMono b Q → ∃ c ∈ corners b, Q θ ≤ Q c
  | [], Q, θ, hθ, _ => by
    rw [inBox_nil_iff] at hθ; subst hθ
    exact ⟨[], by simp [corners], le_refl _⟩
  | (lo, hi) :: b, Q, θ, hθ, hm => by
    rw [inBox_cons_iff] at hθ
    obtain ⟨x, xs, rfl, h1, h2, hxs⟩ := hθ
    obtain ⟨hdir, hrest⟩ := hm
    have hlh : lo ≤ hi := le_trans h1 h2
    rcases hdir with hinc | hdec
    · obtain ⟨c, hc, hle⟩ := corner_above b (fun ys => Q (hi :: ys)) xs hxs (hrest hi hlh (le_refl _))
      refine ⟨hi :: c, ?_, le_trans (hinc xs hxs x hi h1 h2 (le_refl _)) hle⟩
      simp only [corners, List.mem_append, List.mem_map]
      exact Or.inr ⟨c, hc, rfl⟩
    · obtain ⟨c, hc, hle⟩ := corner_above b (fun ys => Q (lo :: ys)) xs hxs (hrest lo (le_refl _) hlh)
      refine ⟨lo :: c, ?_, le_trans (hdec xs hxs lo x (le_refl _) h1 h2) hle⟩
      simp only [corners, List.mem_append, List.mem_map]
      exact Or.inl ⟨c, hc, rfl⟩

/-- every corner lies in the box (when the box is ordered) -/
theorem corner_inBox : ∀ (b : List (Rat × Rat)), (∀ p ∈ b, p.1 ≤ p.2) → ∀ c ∈ corners b, InBox b c
  | [], _, c, hc => by
    simp [corners] at hc; subst hc; trivial
  | (lo, hi) :: b, hb, c, hc => by
    have hlh : lo ≤ hi := hb (lo, hi) (by simp)
    have hb' : ∀ p ∈ b, p.1 ≤ p.2 := fun p hp => hb p (by simp [hp])
    simp only [corners, List.mem_append, List.mem_map] at hc
    rcases hc with ⟨c', hc', rfl⟩ | ⟨c', hc', rfl⟩
    · exact ⟨le_refl _, hlh, corner_inBox b hb' c' hc'⟩
    · exact ⟨hlh, le_refl _, corner_inBox b hb' c' hc'⟩

/-- the corners of a point box are all the point itself -/
theorem corners_point : ∀ (b : List (Rat × Rat)), (∀ p ∈ b, p.1 = p.2) → ∀ c ∈ corners b, c = b.map Prod.fst
  | [], _, c, hc => by simp [corners] at hc; simp [hc]
  | (lo, hi) :: b, hb, c, hc => by
    have hlh : lo = hi := hb (lo, hi) (by simp)
    have hb' : ∀ p ∈ b, p.1 = p.2 := fun p hp => hb p (by simp [hp])
    simp only [corners, List.mem_append, List.mem_map] at hc
    rcases hc with ⟨c', hc', rfl⟩ | ⟨c', hc', rfl⟩
    · simp [corners_point b hb' c' hc']
    · simp [corners_point b hb' c' hc', hlh]

/-! ### fold of `min` / `max` -/

theorem foldl_min_le {β : Type} (f : β → Rat) : ∀ (cs : List β) (m : Rat),
    cs.foldl (fun m c => min m (f c)) m ≤ m ∧ ∀ c ∈ cs, cs.foldl (fun m c => min m (f c)) m ≤ f c
  | [], m => by simp
  | c :: cs, m => by
    obtain ⟨h1, h2⟩ := foldl_min_le f cs (min m (f c))
    refine ⟨le_trans h1 (min_le_left _ _), ?_⟩
    intro c' hc'
    simp only [List.mem_cons] at hc'
    rcases hc' with rfl | h
    · exact le_trans h1 (min_le_right _ _)
    · exact h2 c' h

theorem le_foldl_max {β : Type} (f : β → Rat) : ∀ (cs : List β) (m : Rat),
    m ≤ cs.foldl (fun m c => max m (f c)) m ∧ ∀ c ∈ cs, f c ≤ cs.foldl (fun m c => max m (f c)) m
  | [], m => by simp
  | c :: cs, m => by
    obtain ⟨h1, h2⟩ := le_foldl_max f cs (max m (f c))
    refine ⟨le_trans (le_max_left _ _) h1, ?_⟩
    intro c' hc'
    simp only [List.mem_cons] at hc'
    rcases hc' with rfl | h
    · exact le_trans (le_max_right _ _) h1
    · exact h2 c' h

/-- the fold of `min` is attained: it is the start value or one of the `f c` -/
theorem foldl_min_mem {β : Type} (f : β → Rat) : ∀ (cs : List β) (m : Rat),
    cs.foldl (fun m c => min m (f c)) m = m ∨ ∃ c ∈ cs, cs.foldl (fun m c => min m (f c)) m = f c
  | [], m => by simp
  | c :: cs, m => by
    rcases foldl_min_mem f cs (min m (f c)) with h | ⟨c', hc', h⟩
    · rcases min_choice m (f c) with h' | h'
      · left; simp only [List.foldl_cons]; rw [h, h']
      · right; exact ⟨c, by simp, by simp only [List.foldl_cons]; rw [h, h']⟩
    · right; exact ⟨c', by simp [hc'], by simpa using h⟩

theorem foldl_max_mem {β : Type} (f : β → Rat) : ∀ (cs : List β) (m : Rat),
    cs.foldl (fun m c => max m (f c)) m = m ∨ ∃ c ∈ cs, cs.foldl (fun m c => max m (f c)) m = f c
  | [], m => by simp
  | c :: cs, m => by
    rcases foldl_max_mem f cs (max m (f c)) with h | ⟨c', hc', h⟩
    · rcases max_choice m (f c) with h' | h'
      · left; simp only [List.foldl_cons]; rw [h, h']
      · right; exact ⟨c, by simp, by simp only [List.foldl_cons]; rw [h, h']⟩
    · right; exact ⟨c', by simp [hc'], by simpa using h⟩

theorem foldl_min_const {β : Type} (f : β → Rat) (v : Rat) : ∀ (cs : List β), (∀ c ∈ cs, f c = v) →
    cs.foldl (fun m c => min m (f c)) v = v
  | [], _ => rfl
  | c :: cs, h => by
    simp only [List.foldl_cons, h c (by simp), min_self]
    exact foldl_min_const f v cs (fun c' hc' => h c' (by simp [hc']))

theorem foldl_max_const {β : Type} (f : β → Rat) (v : Rat) : ∀ (cs : List β), (∀ c ∈ cs, f c = v) →
    cs.foldl (fun m c => max m (f c)) v = v
  | [], _ => rfl
  | c :: cs, h => by
    simp only [List.foldl_cons, h c (by simp), max_self]
    exact foldl_max_const f v cs (fun c' hc' => h c' (by simp [hc']))

/-- `minL` of a mapped non-empty list as a fold -/
theorem minL_map_cons {β : Type} (f : β → Rat) (d : Rat) (c0 : β) (cs : List β) :
    minL d ((c0 :: cs).map f) = cs.foldl (fun m c => min m (f c)) (f c0) := by
  simp [minL, List.foldl_map]

theorem maxL_map_cons {β : Type} (f : β → Rat) (d : Rat) (c0 : β) (cs : List β) :
    maxL d ((c0 :: cs).map f) = cs.foldl (fun m c => max m (f c)) (f c0) := by
  simp [maxL, List.foldl_map]

/-! ### column min / max of the corner rows -/

/-- the row scipy returns at corner `c` when `Qs` lists the quantile functions of the grid levels -/
def rowOf (Qs : List (List Rat → Rat)) (c : List Rat) : List Rat := Qs.map (fun Q => Q c)

theorem zipWith_min_map (Qs : List (List Rat → Rat)) (g : (List Rat → Rat) → Rat) (c : List Rat) :
    List.zipWith min (Qs.map g) (rowOf Qs c) = Qs.map (fun Q => min (g Q) (Q c)) := by
  induction Qs with
  | nil => rfl
  | cons Q Qs ih => simp only [rowOf] at ih; simp [rowOf, ih]

theorem zipWith_max_map (Qs : List (List Rat → Rat)) (g : (List Rat → Rat) → Rat) (c : List Rat) :
    List.zipWith max (Qs.map g) (rowOf Qs c) = Qs.map (fun Q => max (g Q) (Q c)) := by
  induction Qs with
  | nil => rfl
  | cons Q Qs ih => simp only [rowOf] at ih; simp [rowOf, ih]

theorem foldl_zipWith_min (Qs : List (List Rat → Rat)) : ∀ (cs : List (List Rat)) (g : (List Rat → Rat) → Rat),
    (cs.map (rowOf Qs)).foldl (fun acc s => List.zipWith min acc s) (Qs.map g)
      = Qs.map (fun Q => cs.foldl (fun m c => min m (Q c)) (g Q))
  | [], g => rfl
  | c :: cs, g => by
    simp only [List.map_cons, List.foldl_cons, zipWith_min_map]
    exact foldl_zipWith_min Qs cs (fun Q => min (g Q) (Q c))

theorem foldl_zipWith_max (Qs : List (List Rat → Rat)) : ∀ (cs : List (List Rat)) (g : (List Rat → Rat) → Rat),
    (cs.map (rowOf Qs)).foldl (fun acc s => List.zipWith max acc s) (Qs.map g)
      = Qs.map (fun Q => cs.foldl (fun m c => max m (Q c)) (g Q))
  | [], g => rfl
  | c :: cs, g => by
    simp only [List.map_cons, List.foldl_cons, zipWith_max_map]
    exact foldl_zipWith_max Qs cs (fun Q => max (g Q) (Q c))

/-- `np.min(rows, axis=0)` of the corner rows = per level, the minimum over the corners -/
theorem colMin_rows (Qs : List (List Rat → Rat)) (c0 : List Rat) (cs : List (List Rat)) :
    colMin ((c0 :: cs).map (rowOf Qs)) = Qs.map (fun Q => cs.foldl (fun m c => min m (Q c)) (Q c0)) := by
  simp only [List.map_cons, colMin]
  exact foldl_zipWith_min Qs cs (fun Q => Q c0)

theorem colMax_rows (Qs : List (List Rat → Rat)) (c0 : List Rat) (cs : List (List Rat)) :
    colMax ((c0 :: cs).map (rowOf Qs)) = Qs.map (fun Q => cs.foldl (fun m c => max m (Q c)) (Q c0)) := by
  simp only [List.map_cons, colMax]
  exact foldl_zipWith_max Qs cs (fun Q => Q c0)

/-! ### `Forall₂` helpers and `pboxInit` -/

theorem forall2_map_map {β : Type} (l : List β) (f g : β → Rat) (h : ∀ x ∈ l, f x ≤ g x) :
    List.Forall₂ (· ≤ ·) (l.map f) (l.map g) := by
  induction l with
  | nil => exact List.Forall₂.nil
  | cons x t ih =>
    exact List.Forall₂.cons (h x (by simp)) (ih (fun y hy => h y (by simp [hy])))

theorem forall2_le_trans : ∀ {a b c : List Rat}, List.Forall₂ (· ≤ ·) a b → List.Forall₂ (· ≤ ·) b c →
    List.Forall₂ (· ≤ ·) a c
  | _, _, _, .nil, .nil => .nil
  | _, _, _, .cons h1 t1, .cons h2 t2 => .cons (le_trans h1 h2) (forall2_le_trans t1 t2)

theorem allGe_forall2 : ∀ (l r : List Rat), l.length = r.length → allGe l r = true → List.Forall₂ (· ≤ ·) r l
  | [], [], _, _ => .nil
  | [], _ :: _, h, _ => by simp at h
  | _ :: _, [], h, _ => by simp at h
  | a :: l, b :: r, h, hg => by
    simp only [allGe, List.zipWith_cons_cons, List.all_cons, Bool.and_eq_true, id, decide_eq_true_eq] at hg
    exact .cons hg.1 (allGe_forall2 l r (by simpa using h) (by simpa [allGe] using hg.2))

theorem allGe_of_forall2 : ∀ {l r : List Rat}, List.Forall₂ (· ≤ ·) r l → allGe l r = true
  | _, _, .nil => rfl
  | _, _, .cons h t => by
    have := allGe_of_forall2 t
    simp only [allGe] at this
    simp [allGe, h, this]

theorem allGe_self (l : List Rat) : allGe l l = true := by
  induction l with
  | nil => rfl
  | cons a t ih => simp only [allGe] at ih; simp [allGe, ih]

theorem pboxCheck_ok {l r l' r' : List Rat} (h : pboxCheck l r = .ok (l', r')) :
    l' = l ∧ r' = r ∧ l.length = r.length ∧ isIncreasing l = true ∧ isIncreasing r = true ∧ anyGt l r = false := by
  unfold pboxCheck at h
  by_cases hlen : l.length ≠ r.length
  · rw [if_pos hlen] at h; cases h
  · rw [if_neg hlen] at h
    by_cases hinc : (!(isIncreasing l && isIncreasing r)) = true
    · rw [if_pos hinc] at h; cases h
    · rw [if_neg hinc] at h
      by_cases hx : anyGt l r = true
      · rw [if_pos hx] at h; cases h
      · rw [if_neg hx] at h
        simp only [Bool.not_eq_true', Bool.not_eq_false, Bool.and_eq_true] at hinc
        injection h with h; injection h with h1 h2
        exact ⟨h1.symm, h2.symm, not_not.mp hlen, hinc.1, hinc.2, by simpa using hx⟩

/-- a returned p-box does not cross: `left ≤ right` at every step -/
theorem anyGt_false_forall2 : ∀ (l r : List Rat), l.length = r.length → anyGt l r = false → List.Forall₂ (· ≤ ·) l r
  | [], [], _, _ => .nil
  | [], _ :: _, h, _ => by simp at h
  | _ :: _, [], h, _ => by simp at h
  | a :: l, b :: r, h, hg => by
    simp only [anyGt, List.zipWith_cons_cons, List.any_cons, Bool.or_eq_false_iff, id, decide_eq_false_iff_not, not_lt] at hg
    exact .cons hg.1 (anyGt_false_forall2 l r (by simpa using h) (by simpa [anyGt] using hg.2))

/-- the components `pboxInit` returns are its two arguments, possibly exchanged -/
theorem pboxInit_cases {L R l r : List Rat} (h : pboxInit L R = .ok (l, r)) :
    (l = L ∧ r = R) ∨ (l = R ∧ r = L ∧ allGe L R = true) := by
  unfold pboxInit at h
  by_cases hg : allGe L R = true
  · rw [if_pos hg] at h
    obtain ⟨h1, h2, _⟩ := pboxCheck_ok h
    exact Or.inr ⟨h1, h2, hg⟩
  · rw [if_neg hg] at h
    obtain ⟨h1, h2, _⟩ := pboxCheck_ok h
    exact Or.inl ⟨h1, h2⟩

/-- a returned p-box has increasing bounds of equal length that do not cross -/
theorem pboxInit_wf {L R l r : List Rat} (h : pboxInit L R = .ok (l, r)) :
    l.length = r.length ∧ isIncreasing l = true ∧ isIncreasing r = true ∧ List.Forall₂ (· ≤ ·) l r := by
  unfold pboxInit at h
  by_cases hg : allGe L R = true
  · rw [if_pos hg] at h
    obtain ⟨h1, h2, h3, h4, h5, h6⟩ := pboxCheck_ok h
    rw [h1, h2]; exact ⟨h3, h4, h5, anyGt_false_forall2 _ _ h3 h6⟩
  · rw [if_neg hg] at h
    obtain ⟨h1, h2, h3, h4, h5, h6⟩ := pboxCheck_ok h
    rw [h1, h2]; exact ⟨h3, h4, h5, anyGt_false_forall2 _ _ h3 h6⟩

/-- whatever `pboxInit` returns still brackets every row bracketed by its arguments -/
theorem pboxInit_brackets {L R l r X : List Rat} (h : pboxInit L R = .ok (l, r))
    (hL : List.Forall₂ (· ≤ ·) L X) (hR : List.Forall₂ (· ≤ ·) X R) :
    List.Forall₂ (· ≤ ·) l X ∧ List.Forall₂ (· ≤ ·) X r := by
  rcases pboxInit_cases h with ⟨h1, h2⟩ | ⟨h1, h2, hg⟩
  · rw [h1, h2]; exact ⟨hL, hR⟩
  · rw [h1, h2]
    have hlen : L.length = R.length := by rw [hL.length_eq, hR.length_eq]
    have hRL := allGe_forall2 L R hlen hg
    exact ⟨forall2_le_trans hRL hL, forall2_le_trans hR hRL⟩

/-! ### table lookups -/

theorem lookupAll_of (t : Table) (E : List Rat → Entry) : ∀ (cs : List (List Rat)),
    (∀ c ∈ cs, lookup t c = some (some (E c))) → lookupAll t cs = some (cs.map (fun c => some (E c)))
  | [], _ => rfl
  | c :: cs, h => by
    simp only [lookupAll, h c (by simp), lookupAll_of t E cs (fun c' hc' => h c' (by simp [hc'])), List.map_cons]

theorem allSome_map (E : List Rat → Entry) : ∀ (cs : List (List Rat)),
    allSome (cs.map (fun c => some (E c))) = some (cs.map E)
  | [] => rfl
  | c :: cs => by simp [allSome, allSome_map E cs]

end Pun.Param
