import Pun.Model.WellFormed
import Pun.Lemmas.PBoxFrechet
import Mathlib.Data.List.Sort
import Mathlib.Data.List.Forall2
import Mathlib.Data.List.Perm.Basic
import Mathlib.Algebra.Order.Field.Rat
import Mathlib.Algebra.Order.Field.Basic
import Mathlib.Tactic.Linarith
/-!
# Lemmas for C04 (well-formed p-boxes)

`WF n p` : both bounds have `n` entries, are non-decreasing, and `left ≤ right` at every step.
Everything is about the executable definitions of `Pun.PBox` / `Pun.WF`.
-/
set_option linter.unusedSimpArgs false
set_option linter.unusedVariables false
set_option linter.dupNamespace false
namespace Pun.WF
open Pun Pun.PBox List

/-- well-formed p-box with `n` steps -/
structure WF (n : Nat) (p : PB) : Prop where
  llen : p.left.length = n
  rlen : p.right.length = n
  lsorted : p.left.Pairwise (· ≤ ·)
  rsorted : p.right.Pairwise (· ≤ ·)
  le : Forall₂ (· ≤ ·) p.left p.right

/-- the part of `WF` that the constructor's length / monotonicity tests give on their own -/
structure WFS (n : Nat) (p : PB) : Prop where
  llen : p.left.length = n
  rlen : p.right.length = n
  lsorted : p.left.Pairwise (· ≤ ·)
  rsorted : p.right.Pairwise (· ≤ ·)

theorem WF.toWFS {n : Nat} {p : PB} (h : WF n p) : WFS n p := ⟨h.llen, h.rlen, h.lsorted, h.rsorted⟩

/-! ## `is_increasing` -/

theorem isIncreasing_iff (l : List Rat) : isIncreasing l = true ↔ l.Pairwise (· ≤ ·) := by
  induction l with
  | nil => simp [isIncreasing]
  | cons a t ih =>
    cases t with
    | nil => simp [isIncreasing]
    | cons b u =>
      simp only [isIncreasing, Bool.and_eq_true, decide_eq_true_eq]
      rw [ih]
      constructor
      · rintro ⟨hab, hp⟩
        rw [pairwise_cons]
        refine ⟨?_, hp⟩
        intro x hx
        rcases mem_cons.mp hx with rfl | hx
        · exact hab
        · exact le_trans hab ((pairwise_cons.mp hp).1 x hx)
      · intro hp
        rw [pairwise_cons] at hp
        exact ⟨hp.1 b (by simp), hp.2⟩

/-! ## pointwise order and the switch tests -/

theorem forall₂_le_get {l r : List Rat} (h : Forall₂ (· ≤ ·) l r) (i : Nat) (h1 : i < l.length) (h2 : i < r.length) :
    l[i] ≤ r[i] := by
  have := (forall₂_iff_get.mp h).2 i h1 h2
  simpa using this

theorem forall₂_le_of_get {l r : List Rat} (hlen : l.length = r.length)
    (h : ∀ i (h1 : i < l.length) (h2 : i < r.length), l[i] ≤ r[i]) : Forall₂ (· ≤ ·) l r := by
  rw [forall₂_iff_get]
  exact ⟨hlen, fun i h1 h2 => by simpa using h i h1 h2⟩

theorem allGe_of_ge {l r : List Rat} (h : Forall₂ (· ≤ ·) r l) : allGe l r = true := by
  induction h with
  | nil => rfl
  | cons hab _ ih =>
    simp only [allGe, zip_cons_cons, all_cons, Bool.and_eq_true, decide_eq_true_eq] at ih ⊢
    exact ⟨hab, ih⟩

theorem allGe_le_eq {l r : List Rat} (h : Forall₂ (· ≤ ·) l r) (hge : allGe l r = true) : l = r := by
  induction h with
  | nil => rfl
  | cons hab _ ih =>
    simp only [allGe, zip_cons_cons, all_cons, Bool.and_eq_true, decide_eq_true_eq] at hge ih
    rw [le_antisymm hab hge.1, ih hge.2]

theorem lexGe_of_ge {l r : List Rat} (h : Forall₂ (· ≤ ·) r l) : lexGe l r = true := by
  induction h with
  | nil => rfl
  | @cons b a u t hab _ ih =>
    unfold lexGe
    by_cases h1 : a > b
    · simp [h1]
    · have : ¬ a < b := not_lt.mpr hab
      simp [h1, this, ih]

theorem lexGe_le_eq {l r : List Rat} (h : Forall₂ (· ≤ ·) l r) (hge : lexGe l r = true) : l = r := by
  induction h with
  | nil => rfl
  | @cons a b t u hab _ ih =>
    unfold lexGe at hge
    have h1 : ¬ a > b := not_lt.mpr hab
    simp only [h1, if_false] at hge
    by_cases h2 : a < b
    · simp [h2] at hge
    · simp only [h2, if_false] at hge
      rw [le_antisymm hab (not_lt.mp h2), ih hge]

theorem anyGt_false_iff {l r : List Rat} (hlen : l.length = r.length) :
    anyGt l r = false ↔ Forall₂ (· ≤ ·) l r := by
  induction l generalizing r with
  | nil => cases r with
    | nil => simp [anyGt]
    | cons _ _ => simp at hlen
  | cons a t ih =>
    cases r with
    | nil => simp at hlen
    | cons b u =>
      have := ih (r := u) (by simpa using hlen)
      simp only [anyGt, zip_cons_cons, any_cons, Bool.or_eq_false_iff, decide_eq_false_iff_not, not_lt,
        forall₂_cons] at this ⊢
      rw [this]

/-! ## `bound_steps_check` (condensation direction) and the constructor of the shared model -/

theorem condense_length (n : Nat) (b : List Rat) : (condense n b).length = n := by simp [condense]

theorem condense_forall₂ (n : Nat) {l r : List Rat} (h : Forall₂ (· ≤ ·) l r) :
    Forall₂ (· ≤ ·) (condense n l) (condense n r) := by
  have hlen := h.length_eq
  apply forall₂_le_of_get (by simp [condense])
  intro i h1 h2
  simp only [condense, length_map, length_range] at h1
  simp only [condense, getElem_map, getElem_range, hlen]
  set k := condenseIdx r.length n i
  by_cases hk : k < r.length
  · have hk' : k < l.length := by omega
    simp only [getD_eq_getElem?_getD, getElem?_eq_getElem hk, getElem?_eq_getElem hk', Option.getD_some]
    exact forall₂_le_get h k hk' hk
  · have hk' : ¬ k < l.length := by omega
    simp [hk, hk']

theorem boundSteps_length {steps : Nat} {b b' : List Rat} (h : boundSteps steps b = .ok b') : b'.length = steps := by
  unfold boundSteps at h
  split at h
  · cases h; exact condense_length _ _
  · split at h
    · cases h
    · cases h; omega

theorem boundSteps_eq {steps : Nat} {b : List Rat} (h : b.length = steps) : boundSteps steps b = .ok b := by
  unfold boundSteps
  simp [h]

theorem boundSteps_forall₂ {steps : Nat} {l r l' r' : List Rat} (h : Forall₂ (· ≤ ·) l r)
    (hl : boundSteps steps l = .ok l') (hr : boundSteps steps r = .ok r') : Forall₂ (· ≤ ·) l' r' := by
  have hlen := h.length_eq
  unfold boundSteps at hl hr
  rw [hlen] at hl
  split at hr
  · rename_i hgt
    simp only [hgt, if_true] at hl
    cases hl; cases hr
    exact condense_forall₂ _ h
  · rename_i hgt
    simp only [hgt, if_false] at hl
    split at hr
    · cases hr
    · rename_i hlt
      simp only [hlt, if_false] at hl
      cases hl; cases hr; exact h

/-- the test of `left_right_switch` as the shared constructor evaluates it -/
def swOf (lists : Bool) (l r : List Rat) : Bool :=
  if lists then lexGe l r else (if l.length = r.length then allGe l r else false)

/-- what a successful constructor call of the shared model has established -/
theorem mk_inv {steps : Nat} {lists : Bool} {l r : List Rat} {P : PB} (h : mk steps lists l r = .ok P) :
    boundSteps steps (if swOf lists l r then r else l) = .ok P.left ∧
    boundSteps steps (if swOf lists l r then l else r) = .ok P.right ∧
    P.left.Pairwise (· ≤ ·) ∧ P.right.Pairwise (· ≤ ·) := by
  unfold mk at h
  simp only [bind, Except.bind] at h
  have e1 : ∀ (c : Bool), (if c = true then (r, l) else (l, r)).1 = (if c = true then r else l) := by
    intro c; cases c <;> rfl
  have e2 : ∀ (c : Bool), (if c = true then (r, l) else (l, r)).2 = (if c = true then l else r) := by
    intro c; cases c <;> rfl
  rw [e1, e2] at h
  unfold swOf
  split at h
  · cases h
  · rename_i l' h1
    split at h
    · cases h
    · rename_i r' h2
      split at h
      · cases h
      · split at h
        · cases h
        · rename_i hinc
          split at h
          · cases h
          · cases h
            simp only [Bool.or_eq_true, Bool.not_eq_true', not_or, Bool.not_eq_false] at hinc
            exact ⟨h1, h2, (isIncreasing_iff _).mp hinc.1, (isIncreasing_iff _).mp hinc.2⟩

theorem mk_wfs {steps : Nat} {lists : Bool} {l r : List Rat} {P : PB} (h : mk steps lists l r = .ok P) :
    WFS steps P := by
  obtain ⟨h1, h2, s1, s2⟩ := mk_inv h
  exact ⟨boundSteps_length h1, boundSteps_length h2, s1, s2⟩

/-- **the constructor on pointwise ordered input**: if the bounds are ordered one way or the other at every
step, whatever the constructor returns is well formed (the whole-array switch repairs the inverted case) -/
theorem mk_wf_of_le {steps : Nat} {lists : Bool} {l r : List Rat} {P : PB}
    (hle : Forall₂ (· ≤ ·) l r ∨ Forall₂ (· ≤ ·) r l) (h : mk steps lists l r = .ok P) : WF steps P := by
  obtain ⟨h1, h2, s1, s2⟩ := mk_inv h
  refine ⟨boundSteps_length h1, boundSteps_length h2, s1, s2, ?_⟩
  have key : Forall₂ (· ≤ ·) (if swOf lists l r then r else l) (if swOf lists l r then l else r) := by
    rcases hle with hle | hge
    · by_cases hs : swOf lists l r = true
      · have : l = r := by
          unfold swOf at hs
          by_cases hl : lists = true
          · simp only [hl, if_true] at hs; exact lexGe_le_eq hle hs
          · simp only [hl, hle.length_eq, if_true] at hs
            simp only [Bool.false_eq_true, if_false] at hs
            exact allGe_le_eq hle hs
        subst this
        simp [hs]
      · simpa [hs] using hle
    · have hs : swOf lists l r = true := by
        unfold swOf
        by_cases hl : lists = true
        · simp only [hl, if_true]; exact lexGe_of_ge hge
        · simp only [hl, hge.length_eq.symm, if_true]
          simp only [Bool.false_eq_true, if_false]
          exact allGe_of_ge hge
      simpa [hs] using hge
  exact boundSteps_forall₂ key h1 h2

/-! ## sorting keeps a pointwise order (order statistics are monotone) -/

theorem sortR_perm (l : List Rat) : (sortR l).Perm l := List.mergeSort_perm l _

theorem sortR_sorted (l : List Rat) : (sortR l).Pairwise (· ≤ ·) := by
  have := List.pairwise_mergeSort (le := fun a b : Rat => decide (a ≤ b))
    (fun a b c h1 h2 => by simp at h1 h2 ⊢; exact le_trans h1 h2)
    (fun a b => by simp; exact le_total a b) l
  exact this.imp (fun h => by simpa using h)

theorem sortR_length (l : List Rat) : (sortR l).length = l.length := (sortR_perm l).length_eq

/-- in a sorted list, `s[i] ≤ c` iff more than `i` entries are `≤ c` -/
theorem sorted_get_le_iff (s : List Rat) (hs : s.Pairwise (· ≤ ·)) (c : Rat) (i : Nat) (hi : i < s.length) :
    s[i] ≤ c ↔ i < s.countP (fun x => decide (x ≤ c)) := by
  induction s generalizing i with
  | nil => simp at hi
  | cons a t ih =>
    rw [List.pairwise_cons] at hs
    obtain ⟨hat, ht⟩ := hs
    cases i with
    | zero =>
      simp only [List.getElem_cons_zero, List.countP_cons]
      by_cases h : a ≤ c
      · simp [h]
      · simp only [h, decide_false, Bool.false_eq_true, if_false, add_zero, false_iff, not_lt, Nat.le_zero]
        rw [List.countP_eq_zero]
        intro x hx
        have := hat x hx
        simp only [decide_eq_true_eq, not_le]
        exact lt_of_lt_of_le (not_le.mp h) this
    | succ j =>
      simp only [List.getElem_cons_succ, List.countP_cons]
      have hj : j < t.length := by simpa using hi
      rw [ih ht j hj]
      by_cases h : a ≤ c
      · simp [h]
      · simp only [h, decide_false, Bool.false_eq_true, if_false, add_zero]
        have hz : t.countP (fun x => decide (x ≤ c)) = 0 := by
          rw [List.countP_eq_zero]
          intro x hx
          have := hat x hx
          simp only [decide_eq_true_eq, not_le]
          exact lt_of_lt_of_le (not_le.mp h) this
        simp [hz]

theorem countP_le_of_forall₂ {l l' : List Rat} (h : Forall₂ (· ≤ ·) l l') (c : Rat) :
    l'.countP (fun x => decide (x ≤ c)) ≤ l.countP (fun x => decide (x ≤ c)) := by
  induction h with
  | nil => simp
  | @cons a a' t t' hh _ ih =>
    simp only [List.countP_cons]
    by_cases h : a' ≤ c
    · have : a ≤ c := le_trans hh h
      simp [h, this]; exact ih
    · simp only [h, decide_false, Bool.false_eq_true, if_false, add_zero]
      exact le_trans ih (Nat.le_add_right _ _)

/-- sorted rearrangements of pointwise ordered lists are pointwise ordered -/
theorem sorted_perm_forall₂ {l l' s s' : List Rat} (hle : Forall₂ (· ≤ ·) l l')
    (hp : s.Perm l) (hp' : s'.Perm l') (hs : s.Pairwise (· ≤ ·)) (hs' : s'.Pairwise (· ≤ ·)) :
    Forall₂ (· ≤ ·) s s' := by
  have hlen : s.length = s'.length := by rw [hp.length_eq, hp'.length_eq, hle.length_eq]
  apply forall₂_le_of_get hlen
  intro i hi hi'
  rw [sorted_get_le_iff s hs _ i hi]
  have h1 : i < s'.countP (fun x => decide (x ≤ s'[i])) := by
    rw [← sorted_get_le_iff s' hs' _ i hi']
  have h2 : s'.countP (fun x => decide (x ≤ s'[i])) = l'.countP (fun x => decide (x ≤ s'[i])) := hp'.countP_eq _
  have h3 : s.countP (fun x => decide (x ≤ s'[i])) = l.countP (fun x => decide (x ≤ s'[i])) := hp.countP_eq _
  have h4 := countP_le_of_forall₂ hle s'[i]
  omega

theorem sortR_forall₂ {l l' : List Rat} (hle : Forall₂ (· ≤ ·) l l') : Forall₂ (· ≤ ·) (sortR l) (sortR l') :=
  sorted_perm_forall₂ hle (sortR_perm l) (sortR_perm l') (sortR_sorted l) (sortR_sorted l')

/-! ## the combination rules keep `left ≤ right` -/

theorem min4_le_max4 (a b c d : Rat) : min4 a b c d ≤ max4 a b c d := by
  unfold min4 max4
  exact le_trans (min_le_left _ _) (le_trans (min_le_left _ _) (le_trans (min_le_left _ _)
    (le_trans (le_max_left _ _) (le_trans (le_max_left _ _) (le_max_left _ _)))))

theorem zip4_min_le_max (c1 c2 c3 c4 : List Rat) :
    Forall₂ (· ≤ ·) (zip4 min4 c1 c2 c3 c4) (zip4 max4 c1 c2 c3 c4) := by
  induction c1 generalizing c2 c3 c4 with
  | nil => simp [zip4]
  | cons a t ih =>
    cases c2 with
    | nil => simp [zip4]
    | cons b t2 =>
      cases c3 with
      | nil => simp [zip4]
      | cons c t3 =>
        cases c4 with
        | nil => simp [zip4]
        | cons d t4 =>
          simp only [zip4]
          exact Forall₂.cons (min4_le_max4 a b c d) (ih t2 t3 t4)

/-- four-corner rules: whatever the operands, the sorted minima lie below the sorted maxima step by step -/
theorem perfectOp_le (op : Rat → Rat → Rat) (x y : PB) :
    Forall₂ (· ≤ ·) (perfectOp op x y).1 (perfectOp op x y).2 := by
  unfold perfectOp cornerPair
  exact sortR_forall₂ (zip4_min_le_max _ _ _ _)

theorem oppositeOp_le (op : Rat → Rat → Rat) (x y : PB) :
    Forall₂ (· ≤ ·) (oppositeOp op x y).1 (oppositeOp op x y).2 := by
  unfold oppositeOp cornerPair
  exact sortR_forall₂ (zip4_min_le_max _ _ _ _)

theorem independentOp_le (op : Rat → Rat → Rat) (x y : PB) :
    Forall₂ (· ≤ ·) (independentOp op x y).1 (independentOp op x y).2 := by
  unfold independentOp cornersSorted
  exact sortR_forall₂ (zip4_min_le_max _ _ _ _)

theorem sorted_get_mono {L : List Rat} (sL : L.Pairwise (· ≤ ·)) (p q : Nat) (hp : p < L.length) (hq : q < L.length)
    (hpq : p ≤ q) : L[p] ≤ L[q] := by
  rcases Nat.lt_or_ge p q with h | h
  · exact (List.pairwise_iff_getElem.mp sL) p q hp hq h
  · have : p = q := by omega
    subst this; exact le_refl _

/-- Frechet rule with an operation that is non-decreasing in both arguments, on well-formed operands:
`left[i]` (a maximum over the anti-diagonal through `i`) is below `right[i]` (a minimum over the complementary one) -/
theorem frechetRaw_le (op : Rat → Rat → Rat)
    (hop : ∀ p p' q q', p ≤ p' → q ≤ q' → op p q ≤ op p' q')
    (n : Nat) (x y : PB) (hx : WF n x) (hy : WF n y) :
    Forall₂ (· ≤ ·) (frechetLeftRaw op x.left y.left) (frechetRightRaw op x.right y.right) := by
  have ha := hx.llen; have hA := hx.rlen; have hb := hy.llen; have hB := hy.rlen
  apply forall₂_le_of_get (by rw [frechetLeftRaw_length, frechetRightRaw_length, ha, hA])
  intro i h1 h2
  rw [frechetLeftRaw_length] at h1
  have hi : i < n := by omega
  obtain ⟨v, hv, -, j, hj, hatt⟩ := frechetLeftRaw_spec op x.left y.left (by omega) i (by omega)
  obtain ⟨w, hw, -, t, ht, hattw⟩ := frechetRightRaw_spec op x.right y.right n hA hB i hi
  have e1 : (frechetLeftRaw op x.left y.left)[i]'(by rw [frechetLeftRaw_length]; omega) = v := by
    have := List.getElem?_eq_getElem (l := frechetLeftRaw op x.left y.left) (i := i) (by rw [frechetLeftRaw_length]; omega)
    rw [this] at hv; exact Option.some.inj hv
  have e2 : (frechetRightRaw op x.right y.right)[i]'(by rw [frechetRightRaw_length]; omega) = w := by
    have := List.getElem?_eq_getElem (l := frechetRightRaw op x.right y.right) (i := i) (by rw [frechetRightRaw_length]; omega)
    rw [this] at hw; exact Option.some.inj hw
  rw [e1, e2, hatt, hattw]
  apply hop
  · exact le_trans (forall₂_le_get hx.le j (by omega) (by omega))
      (sorted_get_mono hx.rsorted j (i + t) (by omega) (by omega) (by omega))
  · exact le_trans (forall₂_le_get hy.le (i - j) (by omega) (by omega))
      (sorted_get_mono hy.rsorted (i - j) (n - 1 - t) (by omega) (by omega) (by omega))

theorem frechetOp_le (op : Rat → Rat → Rat)
    (hop : ∀ p p' q q', p ≤ p' → q ≤ q' → op p q ≤ op p' q')
    (n : Nat) (x y : PB) (hx : WF n x) (hy : WF n y) :
    Forall₂ (· ≤ ·) (frechetOp op x y).1 (frechetOp op x y).2 := by
  unfold frechetOp
  exact sortR_forall₂ (frechetRaw_le op hop n x y hx hy)

/-! ## the operations of the shared model keep operands well formed -/

theorem mk_pair_wf {n : Nat} {lists : Bool} {pr : List Rat × List Rat} {P : PB}
    (hle : Forall₂ (· ≤ ·) pr.1 pr.2)
    (h : (match pr with | (l, r) => mk n lists l r) = .ok P) : WF n P := by
  obtain ⟨l, r⟩ := pr
  exact mk_wf_of_le (Or.inl hle) h

theorem add_mono2' : ∀ p p' q q' : Rat, p ≤ p' → q ≤ q' → p + q ≤ p' + q' :=
  fun _ _ _ _ h1 h2 => add_le_add h1 h2

/-- `Pbox.add(other, dependency)` -/
theorem add_wf (n : Nat) (d : Dep) (x y P : PB) (hx : WF n x) (hy : WF n y)
    (h : PBox.add n d x y = .ok P) : WF n P := by
  unfold PBox.add at h
  cases d with
  | f => exact mk_pair_wf (frechetOp_le _ add_mono2' n x y hx hy) h
  | p => exact mk_pair_wf (perfectOp_le _ x y) h
  | o => exact mk_pair_wf (oppositeOp_le _ x y) h
  | i => exact mk_pair_wf (independentOp_le _ x y) h
  | unknown => cases h

theorem forall₂_neg_map {l r : List Rat} (h : Forall₂ (· ≤ ·) l r) :
    Forall₂ (· ≤ ·) (r.map (- ·)) (l.map (- ·)) := by
  rw [forall₂_map_left_iff, forall₂_map_right_iff]
  exact h.flip.imp (fun _ _ hab => neg_le_neg hab)

/-- `-P` -/
theorem neg_wf (n : Nat) (x P : PB) (hx : WF n x) (h : PBox.neg n x = .ok P) : WF n P := by
  unfold PBox.neg at h
  refine mk_wf_of_le (Or.inl ?_) h
  refine sorted_perm_forall₂ (forall₂_neg_map hx.le) ?_ ?_ (sortR_sorted _) (sortR_sorted _)
  · exact (sortR_perm _).trans ((reverse_perm _).map _)
  · exact (sortR_perm _).trans ((reverse_perm _).map _)

/-- `pbox_number_ops` with a map that is monotone or antitone in the p-box argument -/
theorem numberOp_wf (n : Nat) (f : Rat → Rat → Rat) (c : Rat) (x P : PB) (hx : WF n x)
    (hg : (∀ a b, a ≤ b → f a c ≤ f b c) ∨ (∀ a b, a ≤ b → f b c ≤ f a c))
    (h : numberOp n f x c = .ok P) : WF n P := by
  unfold numberOp at h
  refine mk_wf_of_le ?_ h
  rcases hg with hg | hg
  · left
    apply sortR_forall₂
    rw [forall₂_map_left_iff, forall₂_map_right_iff]
    exact hx.le.imp (fun _ _ hab => hg _ _ hab)
  · right
    apply sortR_forall₂
    rw [forall₂_map_left_iff, forall₂_map_right_iff]
    exact hx.le.flip.imp (fun _ _ hab => hg _ _ hab)

theorem mul_const_mono (c : Rat) :
    (∀ a b : Rat, a ≤ b → a * c ≤ b * c) ∨ (∀ a b : Rat, a ≤ b → b * c ≤ a * c) := by
  rcases le_total 0 c with hc | hc
  · left; intro a b hab; exact mul_le_mul_of_nonneg_right hab hc
  · right; intro a b hab; exact mul_le_mul_of_nonpos_right hab hc

/-- `P op c` -/
theorem numRight_wf (n : Nat) (o : Op) (c : Rat) (x P : PB) (hx : WF n x)
    (h : numRight n o x c = .ok P) : WF n P := by
  unfold numRight at h
  cases o with
  | add => exact numberOp_wf n _ c x P hx (Or.inl (fun a b hab => by simpa using hab)) h
  | sub => exact numberOp_wf n _ (-c) x P hx (Or.inl (fun a b hab => by simpa using hab)) h
  | mul => exact numberOp_wf n _ c x P hx (mul_const_mono c) h
  | div =>
    simp only at h
    split at h
    · cases h
    · exact numberOp_wf n _ (1 / c) x P hx (mul_const_mono _) h

/-- `_unary_template(f)` with a non-decreasing `f` -/
theorem unaryTemplate_wf (n : Nat) (f : Rat → Rat) (hf : ∀ a b, a ≤ b → f a ≤ f b) (x P : PB) (hx : WF n x)
    (h : unaryTemplate n (x.left.map f) (x.right.map f) = .ok P) : WF n P := by
  unfold unaryTemplate at h
  refine mk_wf_of_le (Or.inl ?_) h
  rw [forall₂_map_left_iff, forall₂_map_right_iff]
  exact hx.le.imp (fun _ _ hab => hf _ _ hab)

/-- envelope -/
theorem env_wf (n : Nat) (x y P : PB) (hx : WF n x) (hy : WF n y) (h : PBox.env n x y = .ok P) : WF n P := by
  unfold PBox.env at h
  refine mk_wf_of_le (Or.inl ?_) h
  have h1 := hx.llen; have h2 := hx.rlen; have h3 := hy.llen; have h4 := hy.rlen
  apply forall₂_le_of_get (by simp [h1, h2, h3, h4])
  intro i hi hi'
  simp only [length_zipWith, h1, h3, h2, h4, min_self] at hi hi'
  simp only [getElem_zipWith]
  exact le_trans (min_le_left _ _) (le_trans (forall₂_le_get hx.le i (by omega) (by omega)) (le_max_left _ _))

/-- imposition: the test `max(left) > min(right)` is exactly the order check, so the result is well formed
whenever the operands have `n` steps (they need not even be well formed themselves) -/
theorem imp_wf (n : Nat) (x y P : PB) (hx : WFS n x) (hy : WFS n y) (h : PBox.imp n x y = .ok P) : WF n P := by
  unfold PBox.imp at h
  simp only at h
  split at h
  · cases h
  · rename_i hany
    refine mk_wf_of_le (Or.inl ?_) h
    have hlen : (zipWith max x.left y.left).length = (zipWith min x.right y.right).length := by
      simp [hx.llen, hx.rlen, hy.llen, hy.rlen]
    have : anyGt (zipWith max x.left y.left) (zipWith min x.right y.right) = false := by
      unfold anyGt
      simpa using hany
    exact (anyGt_false_iff hlen).mp this

/-! ## reciprocal -/

theorem hasZero_false {l : List Rat} (h : hasZero l = false) : ∀ v ∈ l, v ≠ 0 := by
  intro v hv h0
  unfold hasZero at h
  rw [any_eq_false] at h
  have := h v hv
  simp [h0] at this

/-- a sorted list whose reciprocals are sorted the other way round and that avoids zero has one sign -/
theorem one_sign {L : List Rat} (s : L.Pairwise (· ≤ ·)) (si : L.Pairwise (fun a b => 1 / b ≤ 1 / a))
    (nz : ∀ v ∈ L, v ≠ 0) : (∀ v ∈ L, 0 < v) ∨ (∀ v ∈ L, v < 0) := by
  cases L with
  | nil => left; intro v hv; cases hv
  | cons a t =>
    rw [pairwise_cons] at s si
    have ha : a ≠ 0 := nz a (by simp)
    rcases lt_or_gt_of_ne ha with hneg | hpos
    · right
      intro v hv
      rcases mem_cons.mp hv with rfl | hv
      · exact hneg
      · have h1 : 1 / v ≤ 1 / a := si.1 v hv
        have h2 : 1 / a < 0 := one_div_neg.mpr hneg
        exact one_div_neg.mp (lt_of_le_of_lt h1 h2)
    · left
      intro v hv
      rcases mem_cons.mp hv with rfl | hv
      · exact hpos
      · exact lt_of_lt_of_le hpos (s.1 v hv)

theorem sorted_recip_rev {L : List Rat} (h : (L.reverse.map (1 / ·)).Pairwise (· ≤ ·)) :
    L.Pairwise (fun a b => 1 / b ≤ 1 / a) := by
  rw [pairwise_map, pairwise_reverse] at h
  exact h

/-- `P.reciprocal()`: whenever the constructor accepts the reciprocal bounds the result is well formed -/
theorem recip_wf (n : Nat) (x P : PB) (hx : WF n x) (h : PBox.recip n x = .ok P) : WF n P := by
  unfold PBox.recip at h
  split at h
  · cases h
  split at h
  · cases h
  · rename_i _ hz
    simp only [Bool.or_eq_true, not_or, Bool.not_eq_true] at hz
    have nzl := hasZero_false hz.1
    have nzr := hasZero_false hz.2
    obtain ⟨h1, h2, s1, s2⟩ := mk_inv h
    have hl1 : (x.right.reverse.map (1 / ·)).length = n := by simp [hx.rlen]
    have hl2 : (x.left.reverse.map (1 / ·)).length = n := by simp [hx.llen]
    -- both reciprocal arrays passed the monotonicity test (each of them is one of the two returned bounds)
    have both : (x.right.reverse.map (1 / ·)).Pairwise (· ≤ ·) ∧ (x.left.reverse.map (1 / ·)).Pairwise (· ≤ ·) := by
      by_cases hs : swOf false (x.right.reverse.map (1 / ·)) (x.left.reverse.map (1 / ·)) = true
      · simp only [hs, if_true] at h1 h2
        rw [boundSteps_eq hl2] at h1; rw [boundSteps_eq hl1] at h2
        have e1 := Except.ok.inj h1; have e2 := Except.ok.inj h2
        rw [← e1] at s1; rw [← e2] at s2; exact ⟨s2, s1⟩
      · simp only [hs, if_false] at h1 h2
        simp only [Bool.false_eq_true, if_false] at h1 h2
        rw [boundSteps_eq hl1] at h1; rw [boundSteps_eq hl2] at h2
        have e1 := Except.ok.inj h1; have e2 := Except.ok.inj h2
        rw [← e1] at s1; rw [← e2] at s2; exact ⟨s1, s2⟩
    have sgr := one_sign hx.rsorted (sorted_recip_rev both.1) nzr
    have sgl := one_sign hx.lsorted (sorted_recip_rev both.2) nzl
    have hlen : (x.right.reverse.map (1 / ·)).length = (x.left.reverse.map (1 / ·)).length := by rw [hl1, hl2]
    have ll := hx.llen; have rl := hx.rlen
    refine mk_wf_of_le ?_ h
    rcases sgr with rpos | rneg
    · rcases sgl with lpos | lneg
      · -- 0 < left ≤ right
        left
        apply forall₂_le_of_get hlen
        intro i h1 h2
        simp only [length_map, length_reverse] at h1 h2
        simp only [getElem_map, getElem_reverse]
        have hle := forall₂_le_get hx.le (x.right.length - 1 - i) (by omega) (by omega)
        have e : x.left.length - 1 - i = x.right.length - 1 - i := by omega
        simp only [e]
        exact one_div_le_one_div_of_le (lpos _ (getElem_mem _)) hle
      · -- left < 0 < right : the arrays come out inverted everywhere, the switch repairs it
        right
        apply forall₂_le_of_get hlen.symm
        intro i h1 h2
        simp only [length_map, length_reverse] at h1 h2
        simp only [getElem_map, getElem_reverse]
        have a1 : 1 / x.left[x.left.length - 1 - i] < 0 := one_div_neg.mpr (lneg _ (getElem_mem _))
        have a2 : 0 < 1 / x.right[x.right.length - 1 - i] := one_div_pos.mpr (rpos _ (getElem_mem _))
        linarith
    · -- left ≤ right < 0
      left
      apply forall₂_le_of_get hlen
      intro i h1 h2
      simp only [length_map, length_reverse] at h1 h2
      simp only [getElem_map, getElem_reverse]
      have hle := forall₂_le_get hx.le (x.right.length - 1 - i) (by omega) (by omega)
      have e : x.left.length - 1 - i = x.right.length - 1 - i := by omega
      simp only [e]
      have hr := rneg _ (getElem_mem (l := x.right) (n := x.right.length - 1 - i) (by omega))
      have hl : x.left[x.right.length - 1 - i]'(by omega) < 0 := lt_of_le_of_lt hle hr
      exact (one_div_le_one_div_of_neg hr hl).mpr hle

/-! ## multiplication under the Frechet rule (sign routing, Balch product, imposition) -/

def NonNeg (p : PB) : Prop := (∀ v ∈ p.left, 0 ≤ v) ∧ (∀ v ∈ p.right, 0 ≤ v)

theorem bind_ok_inv {α β : Type} {x : Except Err α} {f : α → Except Err β} {b : β}
    (h : (x >>= f) = .ok b) : ∃ a, x = .ok a ∧ f a = .ok b := by
  cases x with
  | error e => cases h
  | ok a => exact ⟨a, rfl, h⟩

theorem mk_pair_wfs {n : Nat} {lists : Bool} {pr : List Rat × List Rat} {P : PB}
    (h : (match pr with | (l, r) => mk n lists l r) = .ok P) : WFS n P := by
  obtain ⟨l, r⟩ := pr
  exact mk_wfs h

theorem classicFrechet_wfs {n : Nat} {op : Rat → Rat → Rat} {x y P : PB}
    (h : classicFrechet n op x y = .ok P) : WFS n P := by
  unfold classicFrechet at h; exact mk_pair_wfs (pr := frechetOp op x y) (lists := false) h

theorem numberOp_wfs {n : Nat} {f : Rat → Rat → Rat} {x P : PB} {c : Rat}
    (h : numberOp n f x c = .ok P) : WFS n P := by
  unfold numberOp at h; exact mk_wfs h

theorem classicFrechet_add_wf (n : Nat) (x y P : PB) (hx : WF n x) (hy : WF n y)
    (h : classicFrechet n (· + ·) x y = .ok P) : WF n P := by
  unfold classicFrechet at h
  exact mk_pair_wf (frechetOp_le _ add_mono2' n x y hx hy) h

theorem frechetOp_mul_eq' (x y : PB) (hx : NonNeg x) (hy : NonNeg y) :
    frechetOp (· * ·) x y = frechetOp mulPos x y := by
  unfold frechetOp
  rw [frechetLeftRaw_mul_eq x.left y.left hx.1 hy.1, frechetRightRaw_mul_eq x.right y.right hx.2 hy.2]

/-- `classic_frechet_pbox(x, y, mul)` on non-negative operands -/
theorem classicFrechet_mul_wf (n : Nat) (x y P : PB) (hx : WF n x) (hy : WF n y)
    (px : NonNeg x) (py : NonNeg y) (h : classicFrechet n (· * ·) x y = .ok P) : WF n P := by
  unfold classicFrechet at h
  rw [frechetOp_mul_eq' x y px py] at h
  exact mk_pair_wf (frechetOp_le _ mulPos_mono2 n x y hx hy) h

theorem getLastD_eq {L : List Rat} (h : L ≠ []) :
    L.getLastD 0 = L[L.length - 1]'(by have := List.length_pos_iff.mpr h; omega) := by
  rw [List.getLastD_eq_getLast?, List.getLast?_eq_some_getLast h, Option.getD_some, List.getLast_eq_getElem]

theorem le_getLastD {L : List Rat} (s : L.Pairwise (· ≤ ·)) {v : Rat} (hv : v ∈ L) : v ≤ L.getLastD 0 := by
  have hne : L ≠ [] := ne_nil_of_mem hv
  rw [getLastD_eq hne]
  obtain ⟨i, hi, rfl⟩ := getElem_of_mem hv
  exact sorted_get_mono s i (L.length - 1) hi (by omega) (by omega)

/-- every entry of a well-formed box is at most `hi` -/
theorem le_hi {n : Nat} {x : PB} (hx : WF n x) {v : Rat} (hv : v ∈ x.left ∨ v ∈ x.right) : v ≤ PBox.hi x := by
  unfold PBox.hi
  rcases hv with hv | hv
  · obtain ⟨i, hi, rfl⟩ := getElem_of_mem hv
    have h2 : i < x.right.length := by rw [hx.rlen, ← hx.llen]; exact hi
    exact le_trans (forall₂_le_get hx.le i hi h2) (le_getLastD hx.rsorted (getElem_mem h2))
  · exact le_getLastD hx.rsorted hv

/-- the entries of `-P` are the negated entries of `P` -/
theorem neg_entries {n : Nat} {x a : PB} (hx : WFS n x) (h : PBox.neg n x = .ok a) {v : Rat}
    (hv : v ∈ a.left ∨ v ∈ a.right) : -v ∈ x.left ∨ -v ∈ x.right := by
  unfold PBox.neg at h
  obtain ⟨h1, h2, -, -⟩ := mk_inv h
  have hl1 : (sortR (x.right.reverse.map (- ·))).length = n := by rw [sortR_length]; simp [hx.rlen]
  have hl2 : (sortR (x.left.reverse.map (- ·))).length = n := by rw [sortR_length]; simp [hx.llen]
  have key : ∀ w, (w ∈ sortR (x.right.reverse.map (- ·)) ∨ w ∈ sortR (x.left.reverse.map (- ·))) →
      (-w ∈ x.left ∨ -w ∈ x.right) := by
    intro w hw
    rcases hw with hw | hw
    · rw [(sortR_perm _).mem_iff, mem_map] at hw
      obtain ⟨u, hu, rfl⟩ := hw
      right; simpa using hu
    · rw [(sortR_perm _).mem_iff, mem_map] at hw
      obtain ⟨u, hu, rfl⟩ := hw
      left; simpa using hu
  apply key
  by_cases hs : swOf true (sortR (x.right.reverse.map (- ·))) (sortR (x.left.reverse.map (- ·))) = true
  · simp only [hs, if_true] at h1 h2
    rw [boundSteps_eq hl2] at h1; rw [boundSteps_eq hl1] at h2
    have e1 := Except.ok.inj h1; have e2 := Except.ok.inj h2
    rw [← e1, ← e2] at hv
    exact hv.symm
  · simp only [hs, if_false] at h1 h2
    simp only [Bool.false_eq_true, if_false] at h1 h2
    rw [boundSteps_eq hl1] at h1; rw [boundSteps_eq hl2] at h2
    have e1 := Except.ok.inj h1; have e2 := Except.ok.inj h2
    rw [← e1, ← e2] at hv
    exact hv

/-- `-P` of a non-positive box is non-negative -/
theorem neg_nonneg {n : Nat} {x a : PB} (hx : WF n x) (h0 : PBox.hi x ≤ 0) (h : PBox.neg n x = .ok a) :
    NonNeg a := by
  constructor
  · intro v hv
    have := neg_entries hx.toWFS h (Or.inl hv)
    have := le_hi hx this
    linarith
  · intro v hv
    have := neg_entries hx.toWFS h (Or.inr hv)
    have := le_hi hx this
    linarith

/-- a box that does not straddle zero and whose upper end is positive is non-negative -/
theorem nonneg_of_not_straddle {n : Nat} {x : PB} (hx : WF n x) (h0 : ¬ PBox.hi x ≤ 0)
    (hs : straddlesZero x = false) : NonNeg x := by
  have hr : x.right ≠ [] := by
    intro he; apply h0; unfold PBox.hi; rw [he]; simp
  have hl : x.left ≠ [] := by
    intro he
    have h1 := hx.llen; have h2 := hx.rlen
    rw [he] at h1; simp at h1
    rw [← h1] at h2
    exact hr (length_eq_zero_iff.mp h2)
  have hmax : 0 < maxL 0 x.right := by
    have hlast : x.right.getLastD 0 ∈ x.right := by
      rw [getLastD_eq hr]; exact getElem_mem _
    have := (maxL_spec 0 x.right hr).2 _ hlast
    unfold PBox.hi at h0
    linarith [not_le.mp h0]
  have hmin : 0 ≤ minL 0 x.left := by
    unfold straddlesZero at hs
    simp only [Bool.and_eq_false_iff, decide_eq_false_iff_not, not_lt] at hs
    rcases hs with hs | hs
    · exact hs
    · exact absurd hmax (not_lt.mpr hs)
  have hleft : ∀ v ∈ x.left, 0 ≤ v := fun v hv => le_trans hmin ((minL_spec 0 x.left hl).2 v hv)
  refine ⟨hleft, ?_⟩
  intro v hv
  obtain ⟨i, hi, rfl⟩ := getElem_of_mem hv
  have h2 : i < x.left.length := by rw [hx.llen, ← hx.rlen]; exact hi
  exact le_trans (hleft _ (getElem_mem h2)) (forall₂_le_get hx.le i h2 hi)

/-- `nagative_frechet_pbox` on operands that do not straddle zero -/
theorem negativeFrechet_wf (n : Nat) (x y P : PB) (hx : WF n x) (hy : WF n y)
    (sx : straddlesZero x = false) (sy : straddlesZero y = false)
    (h : negativeFrechet n x y = .ok P) : WF n P := by
  unfold negativeFrechet at h
  split at h
  · rename_i hor
    by_cases hx0 : PBox.hi x ≤ 0
    · by_cases hy0 : PBox.hi y ≤ 0
      · simp only [hx0, hy0, if_true, decide_true, Bool.xor_self, Bool.false_eq_true, if_false] at h
        obtain ⟨a, ha, h⟩ := bind_ok_inv h
        obtain ⟨b, hb, h⟩ := bind_ok_inv h
        obtain ⟨r, hr, h⟩ := bind_ok_inv h
        have wr := classicFrechet_mul_wf n a b r (neg_wf n x a hx ha) (neg_wf n y b hy hb)
          (neg_nonneg hx hx0 ha) (neg_nonneg hy hy0 hb) hr
        cases h
        exact wr
      · simp only [hx0, hy0, if_true, if_false, decide_true, decide_false, Bool.xor_false, pure_bind] at h
        obtain ⟨a, ha, h⟩ := bind_ok_inv h
        obtain ⟨r, hr, h⟩ := bind_ok_inv h
        have wr := classicFrechet_mul_wf n a y r (neg_wf n x a hx ha) hy
          (neg_nonneg hx hx0 ha) (nonneg_of_not_straddle hy hy0 sy) hr
        exact neg_wf n r P wr h
    · have hy0 : PBox.hi y ≤ 0 := by
        simp only [Bool.or_eq_true, decide_eq_true_eq] at hor
        rcases hor with h1 | h1
        · exact absurd h1 hx0
        · exact h1
      simp only [hx0, hy0, if_true, if_false, decide_true, decide_false, Bool.false_xor, pure_bind] at h
      obtain ⟨b, hb, h⟩ := bind_ok_inv h
      obtain ⟨r, hr, h⟩ := bind_ok_inv h
      have wr := classicFrechet_mul_wf n x b r hx (neg_wf n y b hy hb)
        (nonneg_of_not_straddle hx hx0 sx) (neg_nonneg hy hy0 hb) hr
      exact neg_wf n r P wr h
  · cases h

theorem frechetMulNoStraddle_wf (n : Nat) (x y P : PB) (hx : WF n x) (hy : WF n y)
    (sx : straddlesZero x = false) (sy : straddlesZero y = false)
    (h : frechetMulNoStraddle n x y = .ok P) : WF n P := by
  unfold frechetMulNoStraddle at h
  split at h
  · exact negativeFrechet_wf n x y P hx hy sx sy h
  · rename_i hh
    simp only [Bool.or_eq_true, decide_eq_true_eq, not_or] at hh
    exact classicFrechet_mul_wf n x y P hx hy (nonneg_of_not_straddle hx hh.1 sx)
      (nonneg_of_not_straddle hy hh.2 sy) h

/-- the Balch product always ends in a constructor call: `n` steps, both bounds non-decreasing -/
theorem balchprod_wfs {n : Nat} {x y P : PB} (h : balchprod n x y = .ok P) : WFS n P := by
  unfold balchprod at h
  split at h
  · obtain ⟨_, _, h⟩ := bind_ok_inv h
    obtain ⟨_, _, h⟩ := bind_ok_inv h
    obtain ⟨_, _, h⟩ := bind_ok_inv h
    obtain ⟨_, _, h⟩ := bind_ok_inv h
    obtain ⟨_, _, h⟩ := bind_ok_inv h
    obtain ⟨_, _, h⟩ := bind_ok_inv h
    obtain ⟨_, _, h⟩ := bind_ok_inv h
    exact numberOp_wfs h
  · split at h
    · obtain ⟨_, _, h⟩ := bind_ok_inv h
      obtain ⟨_, _, h⟩ := bind_ok_inv h
      obtain ⟨_, _, h⟩ := bind_ok_inv h
      exact classicFrechet_wfs h
    · cases h

/-- `straddle_frechet_pbox`: naive bounds ∩ Balch product; the imposition re-establishes `left ≤ right` -/
theorem straddleFrechet_wf (n : Nat) (x y P : PB) (h : straddleFrechet n x y = .ok P) : WF n P := by
  unfold straddleFrechet at h
  obtain ⟨nv, hnv, h⟩ := bind_ok_inv h
  obtain ⟨bl, hbl, h⟩ := bind_ok_inv h
  exact imp_wf n nv bl P (mk_wfs hnv) (balchprod_wfs hbl) h

/-- `frechet_pbox_mul` -/
theorem frechetMul_wf (n : Nat) (x y P : PB) (hx : WF n x) (hy : WF n y)
    (h : frechetMul n x y = .ok P) : WF n P := by
  unfold frechetMul at h
  split at h
  · split at h
    · exact straddleFrechet_wf n x y P h
    · exact straddleFrechet_wf n y x P h
  · rename_i hh
    simp only [Bool.or_eq_true, not_or, Bool.not_eq_true] at hh
    exact frechetMulNoStraddle_wf n x y P hx hy hh.1 hh.2 h

/-- `Pbox.mul(other, dependency)` -/
theorem mul_wf (n : Nat) (d : Dep) (x y P : PB) (hx : WF n x) (hy : WF n y)
    (h : PBox.mul n d x y = .ok P) : WF n P := by
  unfold PBox.mul at h
  cases d with
  | f => exact frechetMul_wf n x y P hx hy h
  | p => exact mk_pair_wf (perfectOp_le _ x y) h
  | o => exact mk_pair_wf (oppositeOp_le _ x y) h
  | i => exact mk_pair_wf (independentOp_le _ x y) h
  | unknown => cases h

/-- `Pbox.sub` -/
theorem sub_wf (n : Nat) (d : Dep) (x y P : PB) (hx : WF n x) (hy : WF n y)
    (h : PBox.sub n d x y = .ok P) : WF n P := by
  unfold PBox.sub at h
  obtain ⟨ny, hny, h⟩ := bind_ok_inv h
  exact add_wf n _ x ny P hx (neg_wf n y ny hy hny) h

/-- `Pbox.div` through `1 / other` -/
theorem divC_wf (n : Nat) (d : Dep) (x y P : PB) (hx : WF n x) (hy : WF n y)
    (h : divC n d x y = .ok P) : WF n P := by
  unfold divC at h
  split at h
  · cases h
  · rename_i r1 hr1
    obtain ⟨r, hr, hr1⟩ := bind_ok_inv hr1
    have wr : WF n r := recip_wf n y r hy hr
    have wr1 : WF n r1 := numberOp_wf n _ 1 r r1 wr (mul_const_mono 1) hr1
    exact mul_wf n _ x r1 P hx wr1 h

/-- the four binary operations between two p-boxes, every dependency code -/
theorem binopC_wf (n : Nat) (o : Op) (d : Dep) (x y P : PB) (hx : WF n x) (hy : WF n y)
    (h : binopC n o d x y = .ok P) : WF n P := by
  unfold binopC at h
  cases o with
  | div => exact divC_wf n d x y P hx hy h
  | add => exact add_wf n d x y P hx hy h
  | sub => exact sub_wf n d x y P hx hy h
  | mul => exact mul_wf n d x y P hx hy h

/-- `c op P` -/
theorem numLeftC_wf (n : Nat) (o : Op) (c : Rat) (x P : PB) (hx : WF n x)
    (h : numLeftC n o c x = .ok P) : WF n P := by
  unfold numLeftC at h
  cases o with
  | div =>
    simp only at h
    split at h
    · cases h
    · rename_i q hq
      cases h
      obtain ⟨r, hr, hq⟩ := bind_ok_inv hq
      exact numberOp_wf n _ c r _ (recip_wf n x r hx hr) (mul_const_mono c) hq
  | add =>
    simp only [numLeft] at h
    exact numberOp_wf n _ c x P hx (Or.inl (fun a b hab => by simpa using hab)) h
  | sub =>
    simp only [numLeft] at h
    obtain ⟨np, hnp, h⟩ := bind_ok_inv h
    exact numberOp_wf n _ c np P (neg_wf n x np hx hnp) (Or.inl (fun a b hab => by simpa using hab)) h
  | mul =>
    simp only [numLeft] at h
    exact numberOp_wf n _ c x P hx (mul_const_mono c) h

/-! ## unary maps -/

theorem tabAp_mem (t : List (Rat × Rat)) (hne : t ≠ []) (x : Rat) : tabAp t x ∈ t.map Prod.snd := by
  induction t with
  | nil => exact absurd rfl hne
  | cons a u ih =>
    obtain ⟨k0, v0⟩ := a
    cases u with
    | nil => simp [tabAp]
    | cons b w =>
      obtain ⟨k1, v1⟩ := b
      unfold tabAp
      split
      · simp
      · have := ih (by simp)
        exact mem_cons_of_mem _ this

/-- the nearest-key lookup is non-decreasing when the tabulated values are -/
theorem tabAp_mono (t : List (Rat × Rat)) (hv : (t.map Prod.snd).Pairwise (· ≤ ·)) :
    ∀ x y : Rat, x ≤ y → tabAp t x ≤ tabAp t y := by
  induction t with
  | nil => intro x y _; simp [tabAp]
  | cons a u ih =>
    obtain ⟨k0, v0⟩ := a
    cases u with
    | nil => intro x y _; simp [tabAp]
    | cons b w =>
      obtain ⟨k1, v1⟩ := b
      intro x y hxy
      simp only [map_cons, pairwise_cons] at hv
      have hv' : (((k1, v1) :: w).map Prod.snd).Pairwise (· ≤ ·) := by
        simp only [map_cons, pairwise_cons]; exact hv.2
      unfold tabAp
      by_cases h2 : 2 * y ≤ k0 + k1
      · have h1 : 2 * x ≤ k0 + k1 := by linarith
        simp [h1, h2]
      · simp only [h2, if_false]
        by_cases h1 : 2 * x ≤ k0 + k1
        · simp only [h1, if_true]
          have := tabAp_mem ((k1, v1) :: w) (by simp) y
          simp only [map_cons] at this
          exact hv.1 _ this
        · simp only [h1, if_false]
          exact ih hv' x y hxy

/-- `exp()`, `sqrt()`, `log()` with a non-decreasing tabulated function -/
theorem unaryK_wf (n : Nat) (k : UKind) (t : List (Rat × Rat)) (hf : ∀ a b, a ≤ b → tabAp t a ≤ tabAp t b)
    (x P : PB) (hx : WF n x) (h : unaryK n k t x = .ok P) : WF n P := by
  unfold unaryK at h
  cases k with
  | exp => exact unaryTemplate_wf n _ hf x P hx h
  | sqrt =>
    simp only at h
    split at h
    · cases h
    · exact unaryTemplate_wf n _ hf x P hx h
  | log =>
    simp only at h
    split at h
    · cases h
    · split at h
      · cases h
      · exact unaryTemplate_wf n _ hf x P hx h

/-! ## the full constructor `mkN` (NaN-aware, both directions of `bound_steps_check`) -/

theorem unN_some {l : List NR} {l' : List Rat} (h : unN l = some l') : l = l'.map some := by
  induction l generalizing l' with
  | nil => simp [unN] at h; subst h; rfl
  | cons a t ih =>
    cases a with
    | none => simp [unN] at h
    | some x =>
      simp only [unN, Option.map_eq_some_iff] at h
      obtain ⟨u, hu, rfl⟩ := h
      rw [ih hu]; rfl

theorem isIncreasingN_map_some (l : List Rat) : isIncreasingN (l.map some) = isIncreasing l := by
  induction l with
  | nil => rfl
  | cons a t ih =>
    cases t with
    | nil => rfl
    | cons b u =>
      simp only [map_cons, isIncreasingN, isIncreasing, geN] at ih ⊢
      rw [ih]

/-- NaN anywhere in a bound of at least two entries fails `np.all(np.diff(arr) >= 0)` -/
theorem isIncreasingN_none {l : List NR} (hn : none ∈ l) (h2 : 2 ≤ l.length) : isIncreasingN l = false := by
  induction l with
  | nil => cases hn
  | cons a t ih =>
    cases t with
    | nil => simp at h2
    | cons b u =>
      simp only [isIncreasingN, Bool.and_eq_false_iff]
      rcases mem_cons.mp hn with ha | ht
      · left; subst ha; cases b <;> rfl
      · cases u with
        | nil =>
          simp only [mem_singleton] at ht
          left; subst ht; cases a <;> rfl
        | cons c w => right; exact ih ht (by simp)

theorem condenseN_length (n : Nat) (b : List NR) : (condenseN n b).length = n := by simp [condenseN]

/-- **exact number of steps**: whatever `bound_steps_check` returns has exactly `steps` entries -/
theorem boundStepsN_length {c : Cfg} {b b' : List NR} (h : boundStepsN c b = .ok b') : b'.length = c.steps := by
  unfold boundStepsN at h
  split at h
  · cases h; exact condenseN_length _ _
  · split at h
    · unfold stretchN at h
      split at h
      · cases h
      · cases h; simp
    · cases h; omega

/-- … and it returns for every non-empty bound -/
theorem boundStepsN_total (c : Cfg) {b : List NR} (hb : b ≠ []) : ∃ b', boundStepsN c b = .ok b' := by
  unfold boundStepsN
  split
  · exact ⟨_, rfl⟩
  · split
    · unfold stretchN
      have : b.length ≠ 0 := fun h => hb (length_eq_zero_iff.mp h)
      simp only [this, if_false]
      exact ⟨_, rfl⟩
    · exact ⟨_, rfl⟩

theorem boundStepsN_eq {c : Cfg} {b : List NR} (h : b.length = c.steps) : boundStepsN c b = .ok b := by
  unfold boundStepsN; simp [h]

/-- what a successful call of the constructor core has established -/
theorem mkCore_inv {c : Cfg} {l r : List NR} {P : PB} (h : mkCore c l r = .ok P) :
    boundStepsN c l = .ok (P.left.map some) ∧ boundStepsN c r = .ok (P.right.map some) ∧
    isIncreasing P.left = true ∧ isIncreasing P.right = true ∧ anyGt P.left P.right = false := by
  unfold mkCore at h
  obtain ⟨l2, hl2, h⟩ := bind_ok_inv h
  obtain ⟨r2, hr2, h⟩ := bind_ok_inv h
  split at h
  · cases h
  · split at h
    · cases h
    · rename_i hinc
      split at h
      · rename_i l' r' e1 e2
        unfold guardLE at h
        split at h
        · cases h
        · rename_i hg
          cases h
          have el := unN_some e1
          have er := unN_some e2
          subst el; subst er
          simp only [Bool.or_eq_true, Bool.not_eq_true', not_or, Bool.not_eq_false] at hinc
          rw [isIncreasingN_map_some, isIncreasingN_map_some] at hinc
          exact ⟨hl2, hr2, hinc.1, hinc.2, by simpa using hg⟩
      · cases h

theorem mkCore_wf {c : Cfg} {l r : List NR} {P : PB} (h : mkCore c l r = .ok P) : WF c.steps P := by
  obtain ⟨h1, h2, i1, i2, hg⟩ := mkCore_inv h
  have l1 : P.left.length = c.steps := by simpa using boundStepsN_length h1
  have l2 : P.right.length = c.steps := by simpa using boundStepsN_length h2
  exact ⟨l1, l2, (isIncreasing_iff _).mp i1, (isIncreasing_iff _).mp i2, (anyGt_false_iff (by omega)).mp hg⟩

/-- **the constructor only returns well-formed boxes**: exactly `steps` entries per bound, no NaN (the bounds
are lists of numbers), both non-decreasing, `left ≤ right` at every step — for ANY input arrays -/
theorem mkN_wf {c : Cfg} {lists : Bool} {l r : List NR} {P : PB} (h : mkN c lists l r = .ok P) : WF c.steps P := by
  unfold mkN at h
  obtain ⟨sw, -, h⟩ := bind_ok_inv h
  split at h
  · exact mkCore_wf h
  · exact mkCore_wf h

theorem mkCore_nan {c : Cfg} (h2 : 2 ≤ c.steps) {l r : List NR} (hl : l.length = c.steps) (hr : r.length = c.steps)
    (hn : none ∈ l ∨ none ∈ r) : mkCore c l r = .error .Other := by
  unfold mkCore
  rw [boundStepsN_eq hl, boundStepsN_eq hr]
  simp only [bind, Except.bind, hl, hr, ne_eq, not_true_eq_false, if_false]
  have : (!isIncreasingN l || !isIncreasingN r) = true := by
    rcases hn with hn | hn
    · rw [isIncreasingN_none hn (by omega)]; rfl
    · rw [isIncreasingN_none hn (by omega)]; simp
  simp [this]

end Pun.WF
