import Pun.Model.WellFormed
import Pun.Drv.PBoxCommon
/-!
C04 line protocol (after the case id):

* `mkn <steps> <lb> <hb> <lists 0|1> <left> <right>`     — the full constructor; list entries may be `nan`
* `bsc <steps> <lb> <hb> <bound>`                         — `bound_steps_check` alone
* `ev  <steps> <lb> <hb> <expr…>`                         — a history, prefix notation:
    `L <lists> <left> <right>` | `B <op> <dep> e e` | `N <op> <c> e` | `R <op> <c> e` | `G e` (negation)
    | `C e` (reciprocal) | `U <exp|sqrt|log> <keys> <values> e` | `E e e` (envelope) | `I e e` (imposition)
* `evng …`                                                 — the same through `evalNG`
* anything else: the shared p-box handler.
-/
namespace Pun.Drv.C04
open Pun Pun.PBox Pun.WF Pun.Drv.PBoxCommon

def parseNR (s : String) : Option NR :=
  if s == "nan" then some none else (parseRat s).map some

def parseNRList (s : String) : Option (List NR) := do
  let body ← unbracket s
  if body.isEmpty then some [] else (body.splitOn ",").mapM parseNR

def showNR : NR → String
  | some x => showRat x
  | none => "nan"

def showNRList (l : List NR) : String := "[" ++ ",".intercalate (l.map showNR) ++ "]"

def parseCfg (steps lb hb : String) : Option Cfg := do
  let n ← parseNat steps
  let a ← parseRat lb
  let b ← parseRat hb
  some ⟨n, a, b⟩

def parseKind : String → Option UKind
  | "exp" => some .exp | "sqrt" => some .sqrt | "log" => some .log | _ => none

def parseBool : String → Option Bool
  | "0" => some false | "1" => some true | _ => none

def parseTable (ks vs : String) : Option (List (Rat × Rat)) := do
  let k ← parseList ks
  let v ← parseList vs
  if k.length ≠ v.length ∨ k.isEmpty then none else some (k.zip v)

/-- prefix parser; `fuel` bounds the recursion depth (the token count is enough) -/
def parseExpr : Nat → List String → Option (Expr × List String)
  | 0, _ => none
  | fuel + 1, toks =>
    match toks with
    | "L" :: lists :: l :: r :: rest => do
      let b ← parseBool lists
      let l ← parseNRList l
      let r ← parseNRList r
      some (.leaf b l r, rest)
    | "B" :: op :: dep :: rest => do
      let o ← parseOp op
      let d ← parseDep dep
      let (a, rest) ← parseExpr fuel rest
      let (b, rest) ← parseExpr fuel rest
      some (.bin o d a b, rest)
    | "N" :: op :: c :: rest => do
      let o ← parseOp op
      let c ← parseRat c
      let (a, rest) ← parseExpr fuel rest
      some (.num o a c, rest)
    | "R" :: op :: c :: rest => do
      let o ← parseOp op
      let c ← parseRat c
      let (a, rest) ← parseExpr fuel rest
      some (.rnum o c a, rest)
    | "G" :: rest => do
      let (a, rest) ← parseExpr fuel rest
      some (.neg a, rest)
    | "C" :: rest => do
      let (a, rest) ← parseExpr fuel rest
      some (.recip a, rest)
    | "U" :: k :: ks :: vs :: rest => do
      let k ← parseKind k
      let t ← parseTable ks vs
      let (a, rest) ← parseExpr fuel rest
      some (.unary k t a, rest)
    | "E" :: rest => do
      let (a, rest) ← parseExpr fuel rest
      let (b, rest) ← parseExpr fuel rest
      some (.env a b, rest)
    | "I" :: rest => do
      let (a, rest) ← parseExpr fuel rest
      let (b, rest) ← parseExpr fuel rest
      some (.imp a b, rest)
    | _ => none

def handle : List String → String
  | ["mkn", steps, lb, hb, lists, l, r] =>
    match parseCfg steps lb hb, parseBool lists, parseNRList l, parseNRList r with
    | some c, some b, some l, some r => showPB (mkN c b l r)
    | _, _, _, _ => "bad-op"
  | ["bsc", steps, lb, hb, b] =>
    match parseCfg steps lb hb, parseNRList b with
    | some c, some b =>
      match boundStepsN c b with
      | .ok l => s!"ok {showNRList l}"
      | .error e => s!"err {e}"
    | _, _ => "bad-op"
  | "ev" :: steps :: lb :: hb :: toks =>
    match parseCfg steps lb hb, parseExpr (toks.length + 1) toks with
    | some c, some (e, []) => showPB (eval c e)
    | _, _ => "bad-op"
  | "evng" :: steps :: lb :: hb :: toks =>
    match parseCfg steps lb hb, parseExpr (toks.length + 1) toks with
    | some c, some (e, []) => showPB (evalNG c e)
    | _, _ => "bad-op"
  | toks => Pun.Drv.PBoxCommon.handle toks

end Pun.Drv.C04
