import Pun.Model.B2B
namespace Pun.Drv.C13
open Pun Pun.Arith Pun.Expr Pun.B2B

/-- prefix expression, tokens separated by `;` :
`v;i` `c;q` `add;A;B` `sub;A;B` `mul;A;B` `div;A;B` `pow;k;A` `exp;A` `sqrt;A` -/
def parseE : Nat → List String → Option (Expr × List String)
  | 0, _ => none
  | fuel + 1, toks =>
    match toks with
    | "v" :: i :: rest => do some (.var (← i.toNat?), rest)
    | "c" :: q :: rest => do some (.const (← parseRat q), rest)
    | "pow" :: k :: rest => do
        let k ← k.toNat?
        let (a, r) ← parseE fuel rest
        some (.pow a k, r)
    | "exp" :: rest => do let (a, r) ← parseE fuel rest; some (.un .exp a, r)
    | "sqrt" :: rest => do let (a, r) ← parseE fuel rest; some (.un .sqrt a, r)
    | op :: rest =>
      if op = "add" ∨ op = "sub" ∨ op = "mul" ∨ op = "div" then do
        let (a, r1) ← parseE fuel rest
        let (b, r2) ← parseE fuel r1
        match op with
        | "add" => some (.add a b, r2)
        | "sub" => some (.sub a b, r2)
        | "mul" => some (.mul a b, r2)
        | _ => some (.div a b, r2)
      else none
    | [] => none

def parseExpr (s : String) : Option Expr :=
  let toks := s.splitOn ";"
  match parseE (toks.length + 1) toks with
  | some (e, []) => some e
  | _ => none

def pairs : List Rat → Option (List (Rat × Rat))
  | [] => some []
  | a :: b :: rest => (pairs rest).map (fun t => (a, b) :: t)
  | _ => none

def parseBox (s : String) : Option Box := do pairs (← parseList s)

def ufunOf (r : Rat) : Option UFun := if r = 0 then some .exp else if r = 1 then some .sqrt else none
def ufunCode : UFun → Rat | .exp => 0 | .sqrt => 1

def triples : List Rat → Option (List (UFun × Rat × Rat))
  | [] => some []
  | f :: x :: v :: rest => do
      let f ← ufunOf f
      let t ← triples rest
      some ((f, x, v) :: t)
  | _ => none

def parseTable (s : String) : Option (List (UFun × Rat × Rat)) := do triples (← parseList s)

/-- the supplied values of exp / sqrt as a function (0 where nothing was supplied; the driver
refuses to answer when such a point is read, see `missing`) -/
def tableFun (t : List (UFun × Rat × Rat)) (f : UFun) (x : Rat) : Rat :=
  match t.find? (fun e => e.1 = f ∧ e.2.1 = x) with
  | some e => e.2.2
  | none => 0

def missing (t : List (UFun × Rat × Rat)) (qs : List (UFun × Rat)) : List (UFun × Rat) :=
  (qs.filter (fun q => !(t.any (fun e => e.1 = q.1 ∧ e.2.1 = q.2)))).eraseDups

def showNeed (qs : List (UFun × Rat)) : String :=
  "need " ++ showList (qs.flatMap (fun q => [ufunCode q.1, q.2]))

def showVal : Except Err Val → String
  | .ok (.num c) => s!"ok {showRat c} {showRat c}"
  | .ok (.ivl a b) => s!"ok {showRat a} {showRat b}"
  | .error e => s!"err {e}"

def parseStrategy : String → Strategy
  | "direct" => .direct | "endpoints" => .endpoints | "subinterval" => .subinterval | _ => .unknown

def parseStyle : String → Option (Option Style)
  | "direct" => some (some .direct) | "endpoints" => some (some .endpoints) | "none" => some none
  | _ => none

def parseNsub (s : String) : Option (Option Nat) :=
  if s = "none" then some none else s.toNat?.map some

def parseForm : String → Option Form
  | "L" => some .list | "V" => some .vec | "S" => some .scalar | _ => none

def flat (bs : List Box) : List Rat := bs.flatMap (fun b => b.flatMap (fun p => [p.1, p.2]))

def handle : List String → String
  | ["b2b", form, box, strat, style, nsub, expr, table] =>
    match parseForm form, parseBox box, parseStyle style, parseNsub nsub, parseExpr expr, parseTable table with
    | some form, some box, some style, some nsub, some e, some t =>
      let φ := tableFun t
      let s := parseStrategy strat
      match missing t (queries φ e box s style nsub) with
      | [] => showVal (b2b φ e form box s style nsub)
      | qs => showNeed qs
    | _, _, _, _, _, _ => "bad-op"
  | ["ep", method, box, style, nsub, expr, table] =>
    match parseBox box, parseStyle style, parseNsub nsub, parseExpr expr, parseTable table with
    | some box, some style, some nsub, some e, some t =>
      let φ := tableFun t
      match route method with
      | none => showVal (epRun φ e box method style nsub)
      | some s =>
        match missing t (queries φ e box s style nsub) with
        | [] => showVal (epRun φ e box method style nsub)
        | qs => showNeed qs
    | _, _, _, _, _ => "bad-op"
  | ["tiles", box, n] =>
    match parseBox box, n.toNat? with
    | some box, some n => let ts := tiles box n; s!"ok {ts.length} {showList (flat ts)}"
    | _, _ => "bad-op"
  | ["corners", box] =>
    match parseBox box with
    | some box => let cs := corners box; s!"ok {cs.length} {showList (cs.flatMap id)}"
    | none => "bad-op"
  | _ => "bad-op"

end Pun.Drv.C13
