import Pun.Model.Free
/-!
C10 line protocol (one request per line, reply `ok [left] [right]` | `ok parametric 0|1` | `err Kind`):

  minmax a b | minmean m mu | maxmean M mu | mmm a b mu | median a b med | mode a b M
  meanstd mu sigma [tL×199] [tR×199]
  meanvar mu v s [tL] [tR]
  mmms a b mu sigma smax slack [t1×201] [t2×201] [s5×201]
  mmmv a b mu v s smax slack [t1] [t2] [s5]
  kp maximum mean median minimum mode std var family(0|1) s smax slack [tL] [tR] [t1] [t2] [s5]   ("-" = None)

The lists carry the square roots computed by numpy/Python for the same call (see Model/Free).
-/
namespace Pun.Drv.C10
open Pun Pun.Free

def showRes : Except Err PB → String
  | .ok (l, r) => s!"ok {showList l} {showList r}"
  | .error e => s!"err {e}"

def tab (n : Nat) (s : String) : Option (Nat → Rat) := do
  let l ← parseList s
  if l.length = n then some (fun k => l.getD k 0) else none

def optRat (s : String) : Option (Option Rat) :=
  if s = "-" then some none else (parseRat s).map some

def roots (smax slack t1 t2 s5 : String) : Option Roots := do
  let sk ← parseRat slack
  if sk < 0 then none else
  some { smax := ← parseRat smax, t1 := ← tab 201 t1, t2 := ← tab 201 t2, s5 := ← tab 201 s5, slack := sk }

def handle : List String → String
  | ["minmax", a, b] =>
    match parseRat a, parseRat b with
    | some a, some b => showRes (minMax a b)
    | _, _ => "bad-op"
  | ["minmean", a, b] =>
    match parseRat a, parseRat b with
    | some a, some b => showRes (minMean a b)
    | _, _ => "bad-op"
  | ["maxmean", a, b] =>
    match parseRat a, parseRat b with
    | some a, some b => showRes (maxMean a b)
    | _, _ => "bad-op"
  | ["mmm", a, b, c] =>
    match parseRat a, parseRat b, parseRat c with
    | some a, some b, some c => showRes (minMaxMean a b c)
    | _, _, _ => "bad-op"
  | ["median", a, b, c] =>
    match parseRat a, parseRat b, parseRat c with
    | some a, some b, some c => showRes (minMaxMedian a b c)
    | _, _, _ => "bad-op"
  | ["mode", a, b, c] =>
    match parseRat a, parseRat b, parseRat c with
    | some a, some b, some c => showRes (minMaxMode a b c)
    | _, _, _ => "bad-op"
  | ["meanstd", mu, sg, tL, tR] =>
    match parseRat mu, parseRat sg, tab 199 tL, tab 199 tR with
    | some mu, some sg, some tL, some tR => showRes (meanStd tL tR mu sg)
    | _, _, _, _ => "bad-op"
  | ["meanvar", mu, v, s, tL, tR] =>
    match parseRat mu, parseRat v, parseRat s, tab 199 tL, tab 199 tR with
    | some mu, some v, some s, some tL, some tR => showRes (meanVar tL tR mu v s)
    | _, _, _, _, _ => "bad-op"
  | ["mmms", a, b, mu, sg, smax, slack, t1, t2, s5] =>
    match parseRat a, parseRat b, parseRat mu, parseRat sg, roots smax slack t1 t2 s5 with
    | some a, some b, some mu, some sg, some R => showRes (minMaxMeanStd R a b mu sg)
    | _, _, _, _, _ => "bad-op"
  | ["mmmv", a, b, mu, v, s, smax, slack, t1, t2, s5] =>
    match parseRat a, parseRat b, parseRat mu, parseRat v, parseRat s, roots smax slack t1 t2 s5 with
    | some a, some b, some mu, some v, some s, some R => showRes (minMaxMeanVar R a b mu v s)
    | _, _, _, _, _, _ => "bad-op"
  | ["kp", mx, me, md, mn, mo, sd, vr, fam, s, smax, slack, tL, tR, t1, t2, s5] =>
    match optRat mx, optRat me, optRat md, optRat mn, optRat mo, optRat sd, optRat vr with
    | some mx, some me, some md, some mn, some mo, some sd, some vr =>
      match parseRat s, roots smax slack t1 t2 s5, tab 199 tL, tab 199 tR with
      | some s, some R, some tL, some tR =>
        if fam ≠ "0" ∧ fam ≠ "1" then "bad-op" else
        let A : Args := { maximum := mx, mean := me, median := md, minimum := mn, mode := mo,
                          std := sd, var := vr, family := fam == "1" }
        match knownProperties { sv := s, tL := tL, tR := tR, roots := R } A with
        | .ok (.pbox p) => showRes (.ok p)
        | .ok (.parametric t) => s!"ok parametric {if t then 1 else 0}"
        | .error e => s!"err {e}"
      | _, _, _, _ => "bad-op"
    | _, _, _, _, _, _, _ => "bad-op"
  | _ => "bad-op"

end Pun.Drv.C10
