import Pun.Model.DepCtx
/-!
Protocol of C16
  `run <tid>:<ev> …`   events `E:<code> X R C N:<k> G F A:<op>[:<kinds>] Q:<op>:<code> T:<child> K:<child> B:<m>:<code> M:<m>`; codes `f p o i u<n>`
      → `ok <obs> …`   one per event: `<code>` | `<code>|<fam>,<a>,<b>,<branch>` | `<code>|!<Err>`
      → `err Other`    when a block is left that was never entered or a manager is entered that was never built
  `disp <op> <code>`   → `ok <fam>,<a>,<b>,<branch>` | `err <Kind>`
-/
namespace Pun.Drv.C16
open Pun Pun.DepCtx

def parseCode (s : String) : Option Code :=
  match s with
  | "f" => some .f | "p" => some .p | "o" => some .o | "i" => some .i
  | _ =>
    match s.toList with
    | 'u' :: ds => if ds.isEmpty then none else (String.ofList ds).toNat?.map Code.unk
    | _ => none

def showCode : Code → String
  | .f => "f" | .p => "p" | .o => "o" | .i => "i" | .unk n => s!"u{n}"

def parseOp : String → Option Op
  | "add" => some .add | "sub" => some .sub | "mul" => some .mul | "div" => some .div
  | "pow" => some .pow | "radd" => some .radd | "rsub" => some .rsub | "rmul" => some .rmul
  | "powD" => some .powD
  | _ => none

def showCall (c : Call) : String :=
  let fam := match c.fam with | .add => "add" | .mul => "mul" | .pow => "pow"
  let arg : Arg → String := fun a => match a with | .x => "x" | .y => "y" | .negY => "negY" | .recY => "recY"
  let br := match c.br with
    | .frechet => "frechet" | .perfect => "perfect" | .opposite => "opposite" | .independent => "independent"
  s!"{fam},{arg c.a},{arg c.b},{br}"

def parseEv : List String → Option Ev
  | ["E", c] => (parseCode c).map Ev.enter
  | ["X"] => some .exit
  | ["R"] => some .raise
  | ["C"] => some .genClose
  | ["N", k] => k.toNat?.map Ev.exitAt
  | ["G"] => some .get
  | ["F"] => some .closeOther
  | ["A", op] => (parseOp op).map Ev.arith
  | ["Q", op, c] => do some (Ev.call (← parseOp op) (← parseCode c))
  | ["T", ch] => ch.toNat?.map Ev.spawnThread
  | ["K", ch] => ch.toNat?.map Ev.spawnTask
  | _ => none

/-- `A:<op>:<kinds>`: the operand kinds (p = p-box, d = Dempster-Shafer, D = distribution, v = interval) do not
change what is called — every dependency-sensitive operand is converted to a p-box first -/
def parseEvM : List String → Option EvM
  | ["B", m, c] => do some (.build (← m.toNat?) (← parseCode c))
  | ["M", m] => m.toNat?.map EvM.enterM
  | ["A", op, kk] =>
    if kk.toList.length = 2 ∧ kk.toList.all (fun ch => ch = 'p' ∨ ch = 'd' ∨ ch = 'D' ∨ ch = 'v')
    then (parseOp op).map (fun o => EvM.base (Ev.arith o)) else none
  | toks => (parseEv toks).map EvM.base

def parseTEv (s : String) : Option (Nat × EvM) :=
  match s.splitOn ":" with
  | t :: rest => do
    let tid ← t.toNat?
    let e ← parseEvM rest
    some (tid, e)
  | _ => none

def showObs (o : Obs) : String :=
  match o.res with
  | none => showCode o.code
  | some (.ok c) => s!"{showCode o.code}|{showCall c}"
  | some (.error e) => s!"{showCode o.code}|!{e}"

def handle : List String → String
  | "run" :: evs =>
    match evs.mapM parseTEv with
    | none => "bad-op"
    | some es =>
      match traceWM World.init es with
      | none => "err Other"
      | some tr => "ok" ++ String.join (tr.map (fun p => " " ++ showObs p.2))
  | ["disp", op, c] =>
    match parseOp op, parseCode c with
    | some o, some d =>
      match method o d with
      | .ok c => s!"ok {showCall c}"
      | .error e => s!"err {e}"
    | _, _ => "bad-op"
  | _ => "bad-op"

end Pun.Drv.C16
