import Pun.Model.Iso
import Pun.Drv.PBoxCommon
import Pun.Drv.C01
/-! protocol handler of C12: nested interval / p-box expressions, stacking, alpha-cuts, slicing;
single p-box operations fall through to the shared p-box handler, single interval operations to
the C01 handler.  Trees are sent in prefix form. -/
namespace Pun.Drv.C12
open Pun Pun.Iso Pun.PBox

def parseIOp : String → Option Arith.BinOp
  | "add" => some .add | "sub" => some .sub | "mul" => some .mul | "div" => some .div | _ => none

/-- prefix form: `v i` | `n c` | `b op t t` | `g t`; `fuel` bounds the recursion -/
def parseITree : Nat → List String → Option (ITree × List String)
  | 0, _ => none
  | _ + 1, "v" :: i :: rest => do some (.var (← parseNat i), rest)
  | _ + 1, "n" :: c :: rest => do some (.num (← parseRat c), rest)
  | f + 1, "b" :: op :: rest => do
      let o ← parseIOp op
      let (a, r1) ← parseITree f rest
      let (b, r2) ← parseITree f r1
      some (.bin o a b, r2)
  | f + 1, "g" :: rest => do
      let (a, r1) ← parseITree f rest
      some (.neg a, r1)
  | _, _ => none

/-- prefix form: `v i` | `b op dep t t` | `r op t c` | `l op c t` | `g t` | `e t t` | `m t t` -/
def parsePTree : Nat → List String → Option (PTree × List String)
  | 0, _ => none
  | _ + 1, "v" :: i :: rest => do some (.var (← parseNat i), rest)
  | f + 1, "b" :: op :: dep :: rest => do
      let o ← PBoxCommon.parseOp op
      let d ← PBoxCommon.parseDep dep
      let (a, r1) ← parsePTree f rest
      let (b, r2) ← parsePTree f r1
      some (.bin o d a b, r2)
  | f + 1, "r" :: op :: rest => do
      let o ← PBoxCommon.parseOp op
      let (a, r1) ← parsePTree f rest
      match r1 with
      | c :: r2 => do some (.numR o a (← parseRat c), r2)
      | [] => none
  | f + 1, "l" :: op :: c :: rest => do
      let o ← PBoxCommon.parseOp op
      let cc ← parseRat c
      let (a, r1) ← parsePTree f rest
      some (.numL o cc a, r1)
  | f + 1, "g" :: rest => do
      let (a, r1) ← parsePTree f rest
      some (.neg a, r1)
  | f + 1, "e" :: rest => do
      let (a, r1) ← parsePTree f rest
      let (b, r2) ← parsePTree f r1
      some (.env a b, r2)
  | f + 1, "m" :: rest => do
      let (a, r1) ← parsePTree f rest
      let (b, r2) ← parsePTree f r1
      some (.imp a b, r2)
  | _, _ => none

def parsePBs : List String → Option (List PB)
  | [] => some []
  | l :: r :: rest => do
      let p ← PBoxCommon.parsePB l r
      let ps ← parsePBs rest
      some (p :: ps)
  | _ => none

def showOpd : Except Err Arith.Opd → String
  | .ok (.I a b) => s!"ok I {showRat a} {showRat b}"
  | .ok (.A l h) => s!"ok A {showList l} {showList h}"
  | .ok (.N c) => s!"ok N {showRat c}"
  | .ok _ => "bad-op"
  | .error e => s!"err {e}"

def handle : List String → String
  | "itree" :: rest =>
    match parseITree 64 rest with
    | some (t, [lo, hi]) =>
      match parseList lo, parseList hi with
      | some l, some h => if l.length = h.length then showOpd (t.eval (l.zip h)) else "bad-op"
      | _, _ => "bad-op"
    | _ => "bad-op"
  | "ptree" :: steps :: rest =>
    match parseNat steps, parsePTree 64 rest with
    | some n, some (t, more) =>
      match parsePBs more with
      | some vars => PBoxCommon.showPB (t.eval n vars)
      | none => "bad-op"
    | _, _ => "bad-op"
  | ["iun", a, b] =>
    match parseRat a, parseRat b with
    | some x, some y => showOpd (ivUnary x y)
    | _, _ => "bad-op"
  | ["stack", g, lo, hi, w] =>
    match parseList g, parseList lo, parseList hi, parseList w with
    | some g, some l, some h, some w => PBoxCommon.showPB (stacking g l h w)
    | _, _, _, _ => "bad-op"
  | ["cut", pv, l, r, a] =>
    match parseList pv, PBoxCommon.parsePB l r, parseRat a with
    | some pv, some p, some a =>
      match alphaCut pv p a with
      | .ok (x, y) => s!"ok {nearestIdx pv a} {showRat x} {showRat y}"
      | .error e => s!"err {e}"
    | _, _, _ => "bad-op"
  | "slice" :: pv :: levels :: w :: rest =>
    match parseList pv, parseList levels, parseRat w, parseITree 64 rest with
    | some pv, some lv, some w, some (t, more) =>
      match parsePBs more with
      | some vars => PBoxCommon.showPB (slicing pv lv t vars w)
      | none => "bad-op"
    | _, _, _, _ => "bad-op"
  | "imc" :: pv :: w :: nrows :: rest =>
    match parseList pv, parseRat w, parseNat nrows with
    | some pv, some w, some k =>
      match (rest.take k).mapM parseList, parseITree 64 (rest.drop k) with
      | some rows, some (t, more) =>
        if (rest.take k).length ≠ k then "bad-op" else
        match parsePBs more with
        | some vars => PBoxCommon.showPB (imc pv rows t vars w)
        | none => "bad-op"
      | _, _ => "bad-op"
    | _, _, _ => "bad-op"
  | toks =>
    match PBoxCommon.handle toks with
    | "bad-op" => C01.handle toks
    | r => r

end Pun.Drv.C12
