import Pun.Model.Param
/-!
C09 line protocol

* `par <sig 0|1> <k> <pspec>×k <m> <pspec>×m <t> <entry>×t`  — `_bound_pcdf` with k positional and
  m keyword parameters; entries `corner;row;mean;var` or `corner;nan`
* `uni <n> <pspec> <pspec>`                                   — bespoke `uniform`
* `ebl <pspec> <row|nan> <row|nan>`                           — `exponential_by_lambda`

pspec: `N:<x>` number, `L:[…]` list/tuple, `I:<lo>:<hi>` Interval object, `X` unsupported type.
Reply: `ok <left> <right> <meanLo> <meanHi> <varLo> <varHi>`, `ok <left> <right> none` (moments left to the
constructor) or `err <Kind>`.
-/
namespace Pun.Drv.C09
open Pun Pun.Param

def parseSpec (s : String) : Option PSpec :=
  if s == "X" then some .other else
  match s.splitOn ":" with
  | ["N", x] => (parseRat x).map .num
  | ["L", l] => (parseList l).map .seq
  | ["I", a, b] => do some (.ivl (← parseRat a) (← parseRat b))
  | _ => none

def takeSpecs : Nat → List String → Option (List PSpec × List String)
  | 0, rest => some ([], rest)
  | k + 1, s :: rest => do
      let p ← parseSpec s
      let (ps, rest') ← takeSpecs k rest
      some (p :: ps, rest')
  | _ + 1, [] => none

def parseRowO (s : String) : Option (Option (List Rat)) :=
  if s == "nan" then some none else (parseList s).map some

def parseEntry (s : String) : Option (List Rat × Option Entry) :=
  match s.splitOn ";" with
  | [c, "nan"] => do some (← parseList c, none)
  | [c, r, m, v] => do
      some (← parseList c, some ⟨← parseList r, ← parseRat m, ← parseRat v⟩)
  | _ => none

def showOut : Except Err Out → String
  | .ok o =>
    match o.mom with
    | some m => s!"ok {showList o.left} {showList o.right} {showRat m.meanLo} {showRat m.meanHi} {showRat m.varLo} {showRat m.varHi}"
    | none => s!"ok {showList o.left} {showList o.right} none"
  | .error e => s!"err {e}"

def handlePar (sig : String) (rest : List String) : Option String := do
  let sigOK ← (if sig == "1" then some true else if sig == "0" then some false else none)
  let (ks, rest1) ← (match rest with | k :: r => some (k, r) | [] => none)
  let k ← parseNat ks
  let (pos, rest2) ← takeSpecs k rest1
  let (ms, rest3) ← (match rest2 with | m :: r => some (m, r) | [] => none)
  let m ← parseNat ms
  let (kw, rest4) ← takeSpecs m rest3
  let (ts, ents) ← (match rest4 with | t :: r => some (t, r) | [] => none)
  let t ← parseNat ts
  if ents.length ≠ t then none else
  let tbl ← ents.mapM parseEntry
  let r ← parametric sigOK pos kw tbl
  some (showOut r)

def handle : List String → String
  | "par" :: sig :: rest => (handlePar sig rest).getD "bad-op"
  | ["uni", n, a, b] =>
    match parseNat n, parseSpec a, parseSpec b with
    | some n, some a, some b => if n < 2 then "bad-op" else showOut (uniform n a b)
    | _, _, _ => "bad-op"
  | ["ebl", p, ra, rb] =>
    match parseSpec p, parseRowO ra, parseRowO rb with
    | some p, some ra, some rb => showOut (exponentialByLambda p ra rb)
    | _, _, _ => "bad-op"
  | _ => "bad-op"

end Pun.Drv.C09
