import Pun.Drv.C01
import Pun.Drv.C02
import Pun.Drv.C03
import Pun.Drv.C04
import Pun.Drv.C05
import Pun.Drv.C06
import Pun.Drv.C07
import Pun.Drv.C08
import Pun.Drv.C09
import Pun.Drv.C10
import Pun.Drv.C11
import Pun.Drv.C12
import Pun.Drv.C13
import Pun.Drv.C14
import Pun.Drv.C15
import Pun.Drv.C16
import Pun.Drv.C17
import Pun.Drv.C18
import Pun.Drv.C19
import Pun.Drv.C20
namespace Pun.Drv

def dispatch (prop : String) (args : List String) : String :=
  match prop with
  | "C01" => C01.handle args
  | "C02" => C02.handle args
  | "C03" => C03.handle args
  | "C04" => C04.handle args
  | "C05" => C05.handle args
  | "C06" => C06.handle args
  | "C07" => C07.handle args
  | "C08" => C08.handle args
  | "C09" => C09.handle args
  | "C10" => C10.handle args
  | "C11" => C11.handle args
  | "C12" => C12.handle args
  | "C13" => C13.handle args
  | "C14" => C14.handle args
  | "C15" => C15.handle args
  | "C16" => C16.handle args
  | "C17" => C17.handle args
  | "C18" => C18.handle args
  | "C19" => C19.handle args
  | "C20" => C20.handle args
  | _ => "bad-op"

end Pun.Drv
