import Pun.Model.Dss
import Pun.Gen.GridGen
namespace Pun.Drv.C08
open Pun Pun.Dss

def showPB : Except Err PB → String
  | .ok P => s!"ok {showList P.left} {showList P.right}"
  | .error e => s!"err {e}"

def parseW (s : String) : Option (Option (List Rat)) :=
  if s == "none" then some none else (parseList s).map some

def handle : List String → String
  | ["stack", lo, hi, w] =>
    match parseList lo, parseList hi, parseW w with
    | some lo, some hi, some w => showPB (stacking Gen.pValues lo hi w)
    | _, _, _ => "bad-op"
  | ["stackg", g, lo, hi, w] =>      -- the same model on an explicit grid (Params.p_values set to another linspace)
    match parseList g, parseList lo, parseList hi, parseW w with
    | some g, some lo, some hi, some w => showPB (stacking g lo hi w)
    | _, _, _, _ => "bad-op"
  | ["rt", l, r] =>
    match parseList l, parseList r with
    | some l, some r => showPB (roundtrip Gen.pValues Gen.steps ⟨l, r⟩)
    | _, _ => "bad-op"
  | _ => "bad-op"

end Pun.Drv.C08
