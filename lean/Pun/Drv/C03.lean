import Pun.Drv.PBoxCommon
namespace Pun.Drv.C03
def handle : List String → String := Pun.Drv.PBoxCommon.handle
end Pun.Drv.C03
