import Pun.Model.PBox
/-! protocol handler shared by the p-box properties (C02, C03, C04, C06, C07, C11, C12) -/
namespace Pun.Drv.PBoxCommon
open Pun Pun.PBox

def parseOp : String → Option Op
  | "add" => some .add | "sub" => some .sub | "mul" => some .mul | "div" => some .div | _ => none

def parseDep : String → Option Dep
  | "f" => some .f | "p" => some .p | "o" => some .o | "i" => some .i | "u" => some .unknown | _ => none

def showPB : Except Err PB → String
  | .ok p => s!"ok {showList p.left} {showList p.right}"
  | .error e => s!"err {e}"

def showPair (p : List Rat × List Rat) : String := s!"ok {showList p.1} {showList p.2}"

def parsePB (l r : String) : Option PB := do
  let a ← parseList l
  let b ← parseList r
  some ⟨a, b⟩

def handle : List String → String
  | ["raw", rule, op, l1, r1, l2, r2] =>
    match parseOp op, parsePB l1 r1, parsePB l2 r2 with
    | some o, some x, some y =>
      match rule with
      | "frechet" => showPair (frechetOp o.ap x y)
      | "perfect" => showPair (perfectOp o.ap x y)
      | "opposite" => showPair (oppositeOp o.ap x y)
      | "independent" => showPair (independentOp o.ap x y)
      | "naive" => showPair (naiveOp o.ap x y)
      | _ => "bad-op"
    | _, _, _ => "bad-op"
  | ["bin", steps, op, dep, l1, r1, l2, r2] =>
    match parseNat steps, parseOp op, parseDep dep, parsePB l1 r1, parsePB l2 r2 with
    | some n, some o, some d, some x, some y => showPB (binop n o d x y)
    | _, _, _, _, _ => "bad-op"
  | ["neg", steps, l, r] =>
    match parseNat steps, parsePB l r with
    | some n, some x => showPB (neg n x)
    | _, _ => "bad-op"
  | ["recip", steps, l, r] =>
    match parseNat steps, parsePB l r with
    | some n, some x => showPB (recip n x)
    | _, _ => "bad-op"
  | ["num", steps, op, l, r, c] =>
    match parseNat steps, parseOp op, parsePB l r, parseRat c with
    | some n, some o, some x, some c => showPB (numRight n o x c)
    | _, _, _, _ => "bad-op"
  | ["rnum", steps, op, c, l, r] =>
    match parseNat steps, parseOp op, parseRat c, parsePB l r with
    | some n, some o, some c, some x => showPB (numLeft n o c x)
    | _, _, _, _ => "bad-op"
  | ["mk", steps, lists, l, r] =>
    match parseNat steps, parsePB l r with
    | some n, some x => showPB (mk n (lists == "1") x.left x.right)
    | _, _ => "bad-op"
  | ["unary", steps, fl, fr] =>
    match parseNat steps, parsePB fl fr with
    | some n, some x => showPB (unaryTemplate n x.left x.right)
    | _, _ => "bad-op"
  | ["env", steps, l1, r1, l2, r2] =>
    match parseNat steps, parsePB l1 r1, parsePB l2 r2 with
    | some n, some x, some y => showPB (env n x y)
    | _, _, _ => "bad-op"
  | ["imp", steps, l1, r1, l2, r2] =>
    match parseNat steps, parsePB l1 r1, parsePB l2 r2 with
    | some n, some x, some y => showPB (imp n x y)
    | _, _, _ => "bad-op"
  | _ => "bad-op"

end Pun.Drv.PBoxCommon
