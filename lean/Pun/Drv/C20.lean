import Pun.Model.Hedge
import Pun.Gen.HedgeGen
namespace Pun.Drv.C20
open Pun Pun.Hedge

def parseDigits (s : String) : Option (List Nat) :=
  if s == "-" then some [] else
  s.toList.mapM (fun c => if c.isDigit then some (c.toNat - '0'.toNat) else none)

/-- numeral on the wire: `<neg 0|1> <int digits|-> <frac digits|-> <hasDot 0|1> <exp|n>` -/
def parseNumeral : List String → Option (Numeral × List String)
  | n :: i :: f :: d :: e :: rest => do
    let neg ← if n == "1" then some true else if n == "0" then some false else none
    let dot ← if d == "1" then some true else if d == "0" then some false else none
    let ex ← if e == "n" then some none else (parseInt e).map some
    some (⟨neg, ← parseDigits i, ← parseDigits f, dot, ex⟩, rest)
  | _ => none

def showEB : EB → String
  | .ninf => "-inf" | .pinf => "inf" | .fin r => showRat r

def handle : List String → String
  | "sg" :: rest =>
    match parseNumeral rest with
    | some (ν, []) => let r := sgnumber ν; s!"ok {showRat r.1} {showRat r.2}"
    | _ => "bad-op"
  | "hedge" :: kw :: rest =>
    match parseNumeral rest with
    | some (ν, [sq]) =>
      match parseRat sq with
      | some sq =>
        match checked (hedge Pun.Gen.hedgeTable (kw.replace "_" " ") ν sq) with
        | .ok (some iv) => s!"ok {showEB iv.lo} {showEB iv.hi}"
        | .ok none => "none"
        | .error e => s!"err {e}"
      | none => "bad-op"
    | _ => "bad-op"
  | ["sgtext", txt] =>
    match parse txt.toList with
    | some ν => let r := sgnumber ν; s!"ok {showRat r.1} {showRat r.2}"
    | none => "err Value"
  | ["hedgetext", kw, txt, sq] =>
    match parse txt.toList, parseRat sq with
    | some ν, some sq =>
      match checked (hedge Pun.Gen.hedgeTable (kw.replace "_" " ") ν sq) with
      | .ok (some iv) => s!"ok {showEB iv.lo} {showEB iv.hi}"
      | .ok none => "none"
      | .error e => s!"err {e}"
    | none, some _ => "err Value"
    | _, none => "bad-op"
  | ["roundtrip", txt] =>
    match parse txt.toList with
    | some ν => String.ofList (render ν)
    | none => "err Value"
  | "val" :: rest =>
    match parseNumeral rest with
    | some (ν, []) => s!"ok {showRat ν.val} {decipherD ν}"
    | _ => "bad-op"
  | _ => "bad-op"

end Pun.Drv.C20
