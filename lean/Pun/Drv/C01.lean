import Pun.Model.Arith
namespace Pun.Drv.C01
open Pun Pun.Arith

def parseOpd : List String → Option (Opd × List String)
  | "I" :: a :: b :: rest => do some (.I (← parseRat a) (← parseRat b), rest)
  | "A" :: l :: h :: rest => do some (.A (← parseList l) (← parseList h), rest)
  | "N" :: x :: rest => do some (.N (← parseRat x), rest)
  | "S" :: x :: rest => do some (.S (← parseRat x), rest)
  | "V" :: l :: rest => do some (.V (← parseList l), rest)
  | "Z" :: x :: rest => do some (.Z (← parseRat x), rest)
  | "B" :: b :: rest => some (.B (b == "1"), rest)
  | _ => none

def showRes : Except Err Opd → String
  | .ok (.I a b) => s!"ok I {showRat a} {showRat b}"
  | .ok (.A l h) => s!"ok A {showList l} {showList h}"
  | .ok _ => "bad-op"
  | .error e => s!"err {e}"

def parseOp : String → Option BinOp
  | "add" => some .add | "sub" => some .sub | "mul" => some .mul | "div" => some .div | _ => none

def handle : List String → String
  | "bin" :: op :: rest =>
    match parseOp op, parseOpd rest with
    | some o, some (l, rest') =>
      match parseOpd rest' with
      | some (r, []) => showRes (binop o l r)
      | _ => "bad-op"
    | _, _ => "bad-op"
  | "neg" :: rest =>
    match parseOpd rest with
    | some (x, []) => showRes (neg x)
    | _ => "bad-op"
  | ["multab", a, b, c, d] =>
    match parseRat a, parseRat b, parseRat c, parseRat d with
    | some a, some b, some c, some d =>
      match mulTable a b c d with
      | some (l, h) => s!"ok {showRat l} {showRat h}"
      | none => "err Other"
    | _, _, _, _ => "bad-op"
  | ["divtab", a, b, c, d] =>
    match parseRat a, parseRat b, parseRat c, parseRat d with
    | some a, some b, some c, some d =>
      match divTable a b c d with
      | some (some (l, h)) => s!"ok {showRat l} {showRat h}"
      | some none => "err Other"
      | none => "err ZeroDivision"
    | _, _, _, _ => "bad-op"
  | _ => "bad-op"

end Pun.Drv.C01
