import Pun.Model.EnvImp
import Pun.Drv.PBoxCommon
/-!
protocol of C11 (after the case id):

* `envelope <steps> <perms> <opnd>…`, `imposition <steps> <perms> <opnd>…`
  operand tokens: `I:lo:hi` | `N:c` | `B:[left]:[right]` | `X` (non-finite number) | `O` (other object);
  `<perms>` is `-` or `i.j.k;…` (listing orders to evaluate besides the given one).
  reply: results separated by ` | ` — first the given order, then one per listed order, `=` when it
  equals the first.  A result is `ivl lo hi` | `ok [left] [right]` | `err Kind`.
* `contains [left] [right] <item>`  (`Pbox.__contains__`), item `N:c` | `J:lo:hi` | `A`
* `icontains lo hi <item>`          (`Interval.__contains__`), item `N:c` | `J:lo:hi`
* everything of `PBoxCommon` (`env`, `imp`, `mk`, …)
-/
namespace Pun.Drv.C11
open Pun Pun.PBox Pun.EnvImp

def parseOpnd (s : String) : Option Opnd :=
  match s.splitOn ":" with
  | ["I", a, b] => do some (.ivl (← parseRat a) (← parseRat b))
  | ["N", c] => do some (.num (← parseRat c))
  | ["B", l, r] => do some (.box ⟨← parseList l, ← parseList r⟩)
  | ["X"] => some .nonfinite
  | ["O"] => some .other
  | _ => none

def parseItem (s : String) : Option Item :=
  match s.splitOn ":" with
  | ["N", c] => do some (.num (← parseRat c))
  | ["J", a, b] => do some (.obj (← parseRat a) (← parseRat b))
  | ["A"] => some .noattr
  | _ => none

def parsePerm (s : String) : Option (List Nat) := (s.splitOn ".").mapM String.toNat?

def parsePerms (s : String) : Option (List (List Nat)) :=
  if s == "-" then some [] else (s.splitOn ";").mapM parsePerm

/-- reorder `l` by the index list (every index must be in range) -/
def pick {α : Type} (l : List α) (idx : List Nat) : Option (List α) := idx.mapM (fun i => l[i]?)

def showRes : Except Err Res → String
  | .ok (.ivl a b) => s!"ivl {showRat a} {showRat b}"
  | .ok (.pb p) => s!"ok {showList p.left} {showList p.right}"
  | .error e => s!"err {e}"

def showBool : Except Err Bool → String
  | .ok true => "ok true"
  | .ok false => "ok false"
  | .error e => s!"err {e}"

def runOrders (f : List Opnd → String) (ops : List Opnd) (perms : List (List Nat)) : Option String := do
  let r0 := f ops
  let rest ← perms.mapM (fun idx => do
    let l ← pick ops idx
    let r := f l
    some (if r == r0 then "=" else r))
  some (" | ".intercalate (r0 :: rest))

def handle : List String → String
  | "envelope" :: steps :: perms :: ops =>
    match parseNat steps, parsePerms perms, ops.mapM parseOpnd with
    | some n, some ps, some l => (runOrders (fun l => showRes (envelope n l)) l ps).getD "bad-op"
    | _, _, _ => "bad-op"
  | "imposition" :: steps :: perms :: ops =>
    match parseNat steps, parsePerms perms, ops.mapM parseOpnd with
    | some n, some ps, some l =>
      (runOrders (fun l => PBoxCommon.showPB (imposition n l)) l ps).getD "bad-op"
    | _, _, _ => "bad-op"
  | ["contains", l, r, item] =>
    match PBoxCommon.parsePB l r, parseItem item with
    | some p, some it => showBool (containsP p it)
    | _, _ => "bad-op"
  | ["icontains", lo, hi, item] =>
    match parseRat lo, parseRat hi, parseItem item with
    | some a, some b, some (.num c) => showBool (.ok (containsINum a b c))
    | some a, some b, some (.obj l h) => showBool (.ok (containsIIvl a b l h))
    | _, _, _ => "bad-op"
  | toks => PBoxCommon.handle toks

end Pun.Drv.C11
