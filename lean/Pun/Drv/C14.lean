import Pun.Model.MixedUp
import Pun.Drv.C13
namespace Pun.Drv.C14
open Pun Pun.Arith Pun.Expr Pun.B2B Pun.MixedUp Pun.Drv.C13

/-- `left1|right1|left2|right2|…` -/
def parseVars (s : String) : Option (List PB) :=
  let rec go : List String → Option (List PB)
    | [] => some []
    | l :: r :: rest => do
        let l ← parseList l
        let r ← parseList r
        let t ← go rest
        some (⟨l, r⟩ :: t)
    | _ => none
  go (s.splitOn "|")

def chunks (d : Nat) : Nat → List Rat → List (List Rat)
  | 0, _ => []
  | fuel + 1, l => if l.isEmpty ∨ d = 0 then [] else l.take d :: chunks d fuel (l.drop d)

/-- focal list, then the stacked p-box (or the error `stacking` raises) -/
def showVals (pv : List Rat) (r : Except Err (List Val)) : String :=
  match r with
  | .ok vs =>
    let st := match stackOut pv vs with
      | .ok P => s!"pbox {showList P.left} {showList P.right}"
      | .error e => s!"stackerr {e}"
    s!"ok {vs.length} {showList (vs.flatMap (fun v => [v.lo, v.hi]))} {st}"
  | .error e => s!"err {e}"

def handle : List String → String
  | ["mix", mode, pv, vars, lv, strat, style, nsub, expr, table] =>
    match parseList pv, parseVars vars, parseList lv, parseStyle style, parseNsub nsub, parseExpr expr,
          parseTable table with
    | some pv, some vars, some lv, some style, some nsub, some e, some t =>
      let φ := tableFun t
      let s := parseStrategy strat
      if mode = "slice" then
        match missing t (queriesMix φ e pv vars (levelTuples lv vars.length) s style nsub) with
        | [] => showVals pv (slicing φ e pv vars lv s style nsub)
        | qs => showNeed qs
      else if mode = "imc" then
        let levels := chunks vars.length (lv.length + 1) lv
        if vars.length = 0 ∨ levels.length * vars.length ≠ lv.length then "bad-op" else
        match missing t (queriesMix φ e pv vars levels s style nsub) with
        | [] => showVals pv (imc φ e pv vars levels s style nsub)
        | qs => showNeed qs
      else "bad-op"
    | _, _, _, _, _, _, _ => "bad-op"
  | ["grid", pl, ph, k] =>
    match parseRat pl, parseRat ph, k.toNat? with
    | some pl, some ph, some k => s!"ok {showList (gridLevels pl ph k)}"
    | _, _, _ => "bad-op"
  | ["levels", grid, d] =>
    match parseList grid, d.toNat? with
    | some g, some d => let ts := levelTuples g d; s!"ok {ts.length} {showList (ts.flatMap id)}"
    | _, _ => "bad-op"
  | ["cut", pv, l, r, a] =>
    match parseList pv, parseList l, parseList r, parseRat a with
    | some pv, some l, some r, some a =>
      match alphaCut pv ⟨l, r⟩ a with
      | .ok (x, y) => s!"ok {findNearest pv a} {showRat x} {showRat y}"
      | .error e => s!"err {e}"
    | _, _, _, _ => "bad-op"
  | _ => "bad-op"

end Pun.Drv.C14
