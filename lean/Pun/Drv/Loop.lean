/-! Line protocol loop: `<case-id> <op> <arg>…` → `<case-id> <reply>`; one line in, one line out. -/
namespace Pun.Drv

partial def loop (handle : List String → String) (hin hout : IO.FS.Stream) : IO Unit := do
  let line ← hin.getLine
  if line.isEmpty then return ()
  let toks := (line.trimAscii.toString.splitOn " ").filter (· ≠ "")
  match toks with
  | id :: args => hout.putStrLn (id ++ " " ++ handle args)
  | _ => hout.putStrLn "? bad-op"
  loop handle hin hout

def runLoop (handle : List String → String) : IO Unit := do
  let hin ← IO.getStdin
  let hout ← IO.getStdout
  loop handle hin hout
  hout.flush

end Pun.Drv
