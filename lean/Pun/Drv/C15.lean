import Pun.Model.UN
namespace Pun.Drv.C15
open Pun Pun.UN

def parseOp : String → Option Op
  | "add" => some .add | "sub" => some .sub | "mul" => some .mul | "div" => some .div
  | "pow" => some .pow | _ => none

def showOp : Op → String
  | .add => "add" | .sub => "sub" | .mul => "mul" | .div => "div" | .pow => "pow"

def parseEss : String → Option Ess
  | "I" => some .interval | "D" => some .dist | "P" => some .pbox | "S" => some .dss | _ => none

/-- operand: `U <ess> <nominal> <m> <s> <kg>` | `N <c>` | `C` | `X`; `t` is the name of the construct -/
def parseOpd (t : Term) : List String → Option (Opd Term × List String)
  | "U" :: e :: n :: m :: s :: k :: rest => do
      some (.un ⟨← parseEss e, t, ← parseRat n, ⟨← parseRat m, ← parseRat s, ← parseRat k⟩⟩, rest)
  | "N" :: c :: rest => do some (.num (← parseRat c), rest)
  | "C" :: rest => some (.cons, rest)
  | "X" :: rest => some (.other, rest)
  | _ => none

def showTerm : Term → String
  | .A => "A" | .B => "B"
  | .conv t => "conv(" ++ showTerm t ++ ")"
  | .cc op x y => "cc(" ++ showOp op ++ "," ++ showTerm x ++ "," ++ showTerm y ++ ")"
  | .cn op x c => "cn(" ++ showOp op ++ "," ++ showTerm x ++ "," ++ showRat c ++ ")"
  | .nc op c x => "nc(" ++ showOp op ++ "," ++ showRat c ++ "," ++ showTerm x ++ ")"
  | .neg x => "neg(" ++ showTerm x ++ ")"

def showEss : Ess → String
  | .interval => "I" | .dist => "D" | .pbox => "P" | .dss => "S"

def showRes : Except UErr (Res Term) → String
  | .ok r => s!"ok {showTerm r.cons} {showRat r.dim.m} {showRat r.dim.s} {showRat r.dim.kg} {showEss r.ess} {showRat r.nom}"
  | .error e => s!"err {e}"

def showPB : Option PBn → String
  | some p => s!"ok {showList p.left} {showList p.right}"
  | none => "err ZeroDivision"

/-- steps of a history: `R <op> <c>` (acc op c) | `L <op> <c>` (c op acc) | `S <op>` (acc op acc) | `G` (-acc) -/
def parseSteps : List String → Option (List (Step Term))
  | [] => some []
  | "R" :: op :: c :: rest => do
      let s ← parseSteps rest
      some (.opR (← parseOp op) (.num (← parseRat c)) :: s)
  | "L" :: op :: c :: rest => do
      let s ← parseSteps rest
      some (.opL (← parseOp op) (← parseRat c) :: s)
  | "S" :: op :: rest => do
      let s ← parseSteps rest
      some (.self (← parseOp op) :: s)
  | "G" :: rest => do
      let s ← parseSteps rest
      some (.neg :: s)
  | _ => none

def showUN : Except UErr (UNv Term) → String
  | .ok r => s!"ok {showTerm r.cons} {showRat r.dim.m} {showRat r.dim.s} {showRat r.dim.kg} {showEss r.ess} {showRat r.nom}"
  | .error e => s!"err {e}"

def handle : List String → String
  | "hist" :: which :: rest =>
    match parseOpd .A rest with
    | some (.un u, rest') =>
      match parseSteps rest' with
      | some steps =>
        if which == "code" then showUN (runHist (codeStep termAlg) u steps)
        else if which == "spec" then showUN (runHist (specStep termAlg) u steps)
        else "bad-op"
      | none => "bad-op"
    | _ => "bad-op"
  | "bin" :: which :: op :: rest =>
    match parseOp op, parseOpd .A rest with
    | some o, some (l, rest') =>
      match parseOpd .B rest' with
      | some (r, []) =>
        let r' := r
        if which == "code" then
          match pyBin termAlg o l r' with
          | some x => showRes x
          | none => "nomodel"
        else if which == "spec" then showRes (specBin termAlg o l r')
        else "bad-op"
      | _ => "bad-op"
    | _, _ => "bad-op"
  | "neg" :: rest =>
    match parseOpd .A rest with
    | some (.un u, []) => showRes (pyNeg termAlg u)
    | _ => "bad-op"
  | ["pbnum", op, l, r, c] =>
    match parseList l, parseList r, parseRat c with
    | some l, some r, some c =>
      let p : PBn := ⟨l, r⟩
      match op with
      | "add" => showPB (some (p.addN c))
      | "sub" => showPB (some (p.subN c))
      | "rsub" => showPB (some (PBn.rsubN c p))
      | "mul" => showPB (some (p.mulN c))
      | "div" => showPB (p.divN c)
      | "rdiv" => showPB (PBn.rdivN c p)
      | "neg" => showPB (some p.neg)
      | _ => "bad-op"
    | _, _, _ => "bad-op"
  | _ => "bad-op"

end Pun.Drv.C15
