import Pun.Model.Proto
namespace Pun.Drv.C06
open Pun

def handle : List String → String
  | _ => "bad-op"

end Pun.Drv.C06
