import Pun.Drv.PBoxCommon
import Pun.Model.PBoxNum
namespace Pun.Drv.C06
open Pun Pun.PBox Pun.Drv.PBoxCommon

def parseKind : String → Option CKind
  | "int" => some .pyInt | "float" => some .pyFloat | "npf" => some .npFloat | "npi" => some .npInt
  | _ => none

def showOpt : Option (Except Err PB) → String
  | some r => showPB r
  | none => "unmodelled"

def handle : List String → String
  | ["numk", steps, kind, op, l, r, c] =>
    match parseNat steps, parseKind kind, parseOp op, parsePB l r, parseRat c with
    | some n, some k, some o, some x, some c => showPB (numRightK n k o x c)
    | _, _, _, _, _ => "bad-op"
  | ["rnumk", steps, kind, op, c, l, r] =>
    match parseNat steps, parseKind kind, parseOp op, parseRat c, parsePB l r with
    | some n, some k, some o, some c, some x => showPB (numLeftK n k o c x)
    | _, _, _, _, _ => "bad-op"
  | ["un", steps, f, l, r, fl, fr] =>
    match parseNat steps, parsePB l r, parsePB fl fr with
    | some n, some x, some v =>
      match f with
      | "exp" => showPB (expP n x v.left v.right)
      | "log" => showPB (logP n x v.left v.right)
      | "sqrt" => showPB (sqrtP n x v.left v.right)
      | _ => "bad-op"
    | _, _, _ => "bad-op"
  | ["pown", steps, l, r, k] =>
    match parseNat steps, parsePB l r, parseNat k with
    | some n, some x, some k => showOpt (powNat n x k)
    | _, _, _ => "bad-op"
  | ["poww", steps, l, r, fl, fr] =>
    match parseNat steps, parsePB l r, parsePB fl fr with
    | some n, some x, some v => showOpt (powW n x v.left v.right)
    | _, _, _ => "bad-op"
  | args => Pun.Drv.PBoxCommon.handle args

end Pun.Drv.C06
