import Pun.Model.Tmcmc
namespace Pun.Drv.C19
open Pun Pun.Tmcmc

/-- token parser over the remaining tokens of the request line -/
abbrev P := StateT (List String) Option

def tok : P String := do
  match (← get) with
  | t :: rest => set rest; pure t
  | [] => failure

def pRat : P Rat := do let t ← tok; liftM (parseRat t)
def pNat : P Nat := do let t ← tok; liftM (parseNat t)
def pList : P (List Rat) := do let t ← tok; liftM (parseList t)
def pNatList : P (List Nat) := do let t ← tok; liftM (parseNatList t)

def parseEV (t : String) : Option EV :=
  if t = "nf" then some none else (parseRat t).map some
def pEV : P EV := do let t ← tok; liftM (parseEV t)

def rep {α} (p : P α) : Nat → P (List α)
  | 0 => pure []
  | n + 1 => do let a ← p; let as ← rep p n; pure (a :: as)

def showEV : EV → String
  | none => "nf"
  | some r => showRat r

def parseAns (t : String) : Option Ans :=
  if t = "nan" then some .nan else (parseRat t).map .val

def parseAnsList (s : String) : Option (List Ans) := do
  let body ← unbracket s
  if body.isEmpty then some [] else (body.splitOn ",").mapM parseAns

def pProposal : P Proposal := do
  let x ← pList; let pr ← pEV; let l ← pEV; pure ⟨x, pr, l⟩

def pParticle : P Particle := do
  let x ← pList; let l ← pEV; let po ← pEV; pure ⟨x, l, po⟩

def pMove : P Move := do
  let n ← pNat; let ps ← rep pProposal n; let lus ← pList; pure ⟨ps, lus⟩

def runP {α} (p : P α) (toks : List String) : Option α :=
  match p.run toks with
  | some (a, []) => some a
  | _ => none

def showBool (b : Bool) : String := if b then "1" else "0"

def hBisect : P String := do
  let old ← pRat; let prev ← pRat; let bs ← pList
  let t ← tok
  let es ← liftM (parseAnsList t)
  if bs.length ≠ es.length then failure
  match computeBeta consts (tableEss (bs.zip es)) old prev with
  | .need b => pure s!"need {showRat b}"
  | .raise e => pure s!"err {e}"
  | .done b e c => pure s!"ok {showRat b} {showRat e} {showBool c} {showRat (rN consts prev)}"

def hWeights : P String := do
  let w ← pList
  if w.isEmpty then pure "err Value"
  else if sumL w = 0 then failure
  else pure s!"ok {showList (weights w)} {showRat (evidenceArg w)}"

def hMh : P String := do
  let β ← pRat; let x ← pList; let l ← pEV; let po ← pEV; let acc ← pNat
  let m ← pMove
  match mhRun β ⟨x, l, po, acc⟩ m.props m.lus with
  | none => pure "err Other"
  | some (s, rest, cs) =>
    pure s!"ok {showList s.x} {showEV s.lik} {showEV s.post} {s.acc} {rest.length} {showNatList cs}"

def hStage : P String := do
  let β ← pRat; let β' ← pRat; let n ← pNat
  let ps ← rep pParticle n
  let ids ← pNatList
  let k ← pNat
  let ms ← rep pMove k
  match stage β β' ps ids ms with
  | none => pure "err Index"
  | some (cap, nxt) =>
    let a := " ".intercalate (nxt.map fun (p, acc) => s!"{showList p.x} {showEV p.lik} {showEV p.post} {acc}")
    let b := " ".intercalate (cap.map fun p => showEV p.post)
    pure s!"ok {nxt.length} {a} {b}"

def pAnsList : P (List Ans) := do let t ← tok; liftM (parseAnsList t)

def pStageEnv (δ : Rat) : P StageEnv := do
  let bs ← pList; let es ← pAnsList
  if bs.length ≠ es.length then failure
  let ids ← pNatList
  let k ← pNat
  let ms ← rep pMove k
  pure ⟨tableEssNear δ (bs.zip es), ids, ms⟩

/-- `run δ β prev N particles… nst (table ids moves)…` : the whole `while beta < 1` loop -/
def hRun : P String := do
  let δ ← pRat; let β ← pRat; let prev ← pRat; let n ← pNat
  let ps ← rep pParticle n
  let nst ← pNat
  let envs ← rep (pStageEnv δ) nst
  match runLoop consts envs β prev ps with
  | .need b => pure s!"need {showRat b}"
  | .raise e => pure s!"err {e}"
  | .ok tr fin =>
    let last := match tr.getLast? with | some e => e.2 | none => []
    let a := " ".intercalate (last.map fun p => s!"{showList p.x} {showEV p.lik} {showEV p.post}")
    pure s!"ok {showBool fin} {showList (tr.map (·.1))} {showNatList (tr.map (·.2.length))} {last.length} {a}"

def handle : List String → String
  | "bisect" :: rest => (runP hBisect rest).getD "bad-op"
  | "weights" :: rest => (runP hWeights rest).getD "bad-op"
  | "mh" :: rest => (runP hMh rest).getD "bad-op"
  | "stage" :: rest => (runP hStage rest).getD "bad-op"
  | "run" :: rest => (runP hRun rest).getD "bad-op"
  | _ => "bad-op"

end Pun.Drv.C19
