import Pun.Model.KS
namespace Pun.Drv.C17
open Pun Pun.KS

def showB (b : Bundle × Bundle) : String :=
  s!"ok {showList b.1.q} {showList b.1.p} {showList b.2.q} {showList b.2.p}"

def showLR : Except Err (List Rat × List Rat) → String
  | .ok (l, r) => s!"ok {showList l} {showList r}"
  | .error e => s!"err {e}"

/-- requests
* `dalpha n alpha r1 r2`              → `ok D` | `err K`
* `band s D`                          → `ok q_u p_u q_l p_l`     (`s = []` → `err ZeroDivision`: `1/len(s)`)
* `iband lo hi D`                     → `ok q_u p_u q_l p_l`
* `frombundles q_a p_a q_b p_b pv`    → `ok left right`
* `kspbox s D pv` / `ikspbox lo hi D pv` → `ok left right`
* `eval q p [t…]`                     → `ok [values]` -/
def handle : List String → String
  | ["dalpha", n, a, r1, r2] =>
    match parseNat n, parseRat a, parseRat r1, parseRat r2 with
    | some n, some a, some r1, some r2 =>
      match dAlpha n a r1 r2 with
      | .ok d => s!"ok {showRat d}"
      | .error e => s!"err {e}"
    | _, _, _, _ => "bad-op"
  | ["band", s, d] =>
    match parseList s, parseRat d with
    | some s, some d => if s = [] then "err ZeroDivision" else showB (band s d)
    | _, _ => "bad-op"
  | ["iband", lo, hi, d] =>
    match parseList lo, parseList hi, parseRat d with
    | some lo, some hi, some d =>
      if lo.length ≠ hi.length then "bad-op"
      else if lo = [] then "err ZeroDivision" else showB (iband lo hi d)
    | _, _, _ => "bad-op"
  | ["frombundles", qa, pa, qb, pb, pv] =>
    match parseList qa, parseList pa, parseList qb, parseList pb, parseList pv with
    | some qa, some pa, some qb, some pb, some pv =>
      if qa.length ≠ pa.length ∨ qb.length ≠ pb.length then "bad-op"
      else showLR (fromBundles ⟨qa, pa⟩ ⟨qb, pb⟩ pv)
    | _, _, _, _, _ => "bad-op"
  | ["kspbox", s, d, pv] =>
    match parseList s, parseRat d, parseList pv with
    | some s, some d, some pv => if s = [] then "err ZeroDivision" else showLR (ksPbox s d pv)
    | _, _, _ => "bad-op"
  | ["ikspbox", lo, hi, d, pv] =>
    match parseList lo, parseList hi, parseRat d, parseList pv with
    | some lo, some hi, some d, some pv =>
      if lo.length ≠ hi.length then "bad-op"
      else if lo = [] then "err ZeroDivision" else showLR (iksPbox lo hi d pv)
    | _, _, _, _ => "bad-op"
  | ["eval", q, p, ts] =>
    match parseList q, parseList p, parseList ts with
    | some q, some p, some ts => s!"ok {showList (ts.map (Bundle.eval ⟨q, p⟩))}"
    | _, _, _ => "bad-op"
  | _ => "bad-op"

end Pun.Drv.C17
