import Pun.Drv.PBoxCommon
import Pun.Model.Hier
/-! C07 protocol.  Operands: `N:<rat>`, `I:<a>:<b>`, `P:<left>:<right>`, `D:<quantiles>`, `S:<left>:<right>`.

* `expr <steps> <dep> <op> <l> <r>`   — Python expression `l op r` under the ambient dependency
* `meth <steps> <dep> <op> <l> <r>`   — `l.<op>(r, dependency=dep)`, `l` a p-box (or DS structure, delegated)
* `spec <steps> <dep> <op> <l> <r>`   — convert both operands first, then the p-box operation
* `chain <steps> <dep> <L|R|S> <op1> <op2> <a> <b> <c>` — `(a op1 b) op2 c`, `a op1 (b op2 c)`, `(a op1 b) op2 a`
* `schain …` — the same history with every operand converted first (`specChain`)
* `conv <steps> <which> <x>`          — `pbox_abc.convert_pbox` (`which = p`) / `operation.convert` (`which = o`)
anything else falls through to the shared p-box handler. -/
namespace Pun.Drv.C07
open Pun Pun.PBox Pun.Hier Pun.Drv.PBoxCommon

def parseOpd (s : String) : Option Opd :=
  match s.splitOn ":" with
  | ["N", c] => (parseRat c).map Opd.num
  | ["I", a, b] => do let a ← parseRat a; let b ← parseRat b; some (.ivl a b)
  | ["P", l, r] => (parsePB l r).map Opd.pbox
  | ["D", q] => (parseList q).map Opd.dist
  | ["S", l, r] => (parsePB l r).map Opd.dss
  | _ => none

def showRes : Except Err Res → String
  | .ok (.num c) => s!"ok N {showRat c}"
  | .ok (.ivl a b) => s!"ok I {showRat a} {showRat b}"
  | .ok (.pbox p) => s!"ok P {showList p.left} {showList p.right}"
  | .error e => s!"err {e}"

def showP (r : Except Err PB) : String := showRes (r.map Res.pbox)

def handle : List String → String
  | ["expr", steps, dep, op, l, r] =>
    match parseNat steps, parseDep dep, parseOp op, parseOpd l, parseOpd r with
    | some n, some d, some o, some x, some y => showRes (evalOp n d o x y)
    | _, _, _, _, _ => "bad-op"
  | ["meth", steps, dep, op, l, r] =>
    match parseNat steps, parseDep dep, parseOp op, parseOpd l, parseOpd r with
    | some n, some d, some o, some (.pbox p), some y => showP (method n o d p y)
    | some n, some d, some o, some (.dss p), some y => showP (method n o d p y)
    | _, _, _, _, _ => "bad-op"
  | ["spec", steps, dep, op, l, r] =>
    match parseNat steps, parseDep dep, parseOp op, parseOpd l, parseOpd r with
    | some n, some d, some o, some x, some y => showP (spec n d o x y)
    | _, _, _, _, _ => "bad-op"
  | ["chain", steps, dep, shape, op1, op2, a, b, c] =>
    match parseNat steps, parseDep dep, parseOp op1, parseOp op2, parseOpd a, parseOpd b, parseOpd c with
    | some n, some d, some o1, some o2, some x, some y, some z =>
      match shape with
      | "L" => showRes (evalChain n d .left o1 o2 x y z)
      | "R" => showRes (evalChain n d .right o1 o2 x y z)
      | "S" => showRes (evalChain n d .reuse o1 o2 x y z)
      | _ => "bad-op"
    | _, _, _, _, _, _, _ => "bad-op"
  | ["schain", steps, dep, shape, op1, op2, a, b, c] =>
    match parseNat steps, parseDep dep, parseOp op1, parseOp op2, parseOpd a, parseOpd b, parseOpd c with
    | some n, some d, some o1, some o2, some x, some y, some z =>
      match shape with
      | "L" => showP (specChain n d .left o1 o2 x y z)
      | "R" => showP (specChain n d .right o1 o2 x y z)
      | "S" => showP (specChain n d .reuse o1 o2 x y z)
      | _ => "bad-op"
    | _, _, _, _, _, _, _ => "bad-op"
  | ["conv", steps, which, x] =>
    match parseNat steps, parseOpd x with
    | some n, some x =>
      match which with
      | "p" => showP (convertPbox n x)
      | "o" => showP (convert n x)
      | _ => "bad-op"
    | _, _ => "bad-op"
  | toks => Pun.Drv.PBoxCommon.handle toks

end Pun.Drv.C07
