import Pun.Model.Query
import Pun.Gen.GridGen
import Pun.Gen.LevelsGen
namespace Pun.Drv.C18
open Pun Pun.Dss Pun.Query

def showIvl : Except Err Ivl → String
  | .ok c => s!"ok {showRat c.1} {showRat c.2}"
  | .error e => s!"err {e}"

def showIvls : Except Err (List Ivl) → String
  | .ok cs => s!"ok {showList (cs.map (·.1))} {showList (cs.map (·.2))}"
  | .error e => s!"err {e}"

def showPB : Except Err PB → String
  | .ok P => s!"ok {showList P.left} {showList P.right}"
  | .error e => s!"err {e}"

def parseN (s : String) : Option (Option Nat) :=
  if s == "none" then some none else s.toNat?.map some

def g := Gen.pValues

/-- the level table for `n` pieces: the regenerated `np.linspace(0.001, 0.999, n)` when `2 ≤ n ≤ steps`
(the tables the theorems are about), otherwise the table the harness sent -/
def lvOf (n : Nat) (wire : List Rat) : List Rat :=
  match Gen.levelTable n with
  | some t => t
  | none => wire

def handle : List String → String
  | [op, l, r, a] =>
    match parseList l, parseList r with
    | some l, some r =>
      let P : PB := ⟨l, r⟩
      match op with
      | "cut" => match parseRat a with | some a => showIvl (alphaCut g P a) | none => "bad-op"
      | "cuts" => match parseList a with | some a => showIvls (alphaCutArr g P a) | none => "bad-op"
      | "cdf" => match parseRat a with | some a => showIvl (cdf g P a) | none => "bad-op"
      | "cdfs" => match parseList a with | some a => showIvls (cdfArr g P a) | none => "bad-op"
      | _ => "bad-op"
    | _, _ => "bad-op"
  | ["disc", l, r, n, lv] =>
    match parseList l, parseList r, parseN n, parseList lv with
    | some l, some r, some n, some lv =>
      showIvls (discretise g Gen.steps ⟨l, r⟩ n (match n with | some m => lvOf m lv | none => lv))
    | _, _, _, _ => "bad-op"
  | ["outer", l, r, n, lv] =>
    match parseList l, parseList r, parseN n, parseList lv with
    | some l, some r, some n, some lv =>
      showIvls (outerDiscretisation g ⟨l, r⟩ (match n with | some m => lvOf m lv | none => g))
    | _, _, _, _ => "bad-op"
  | ["cond", l, r, n, lv] =>
    match parseList l, parseList r, parseN n, parseList lv with
    | some l, some r, some (some m), some lv => showPB (condensation g ⟨l, r⟩ (lvOf m lv))
    | _, _, _, _ => "bad-op"
  | ["pi", l, r, a, st] =>
    match parseList l, parseList r, parseRat a with
    | some l, some r, some a =>
      if st == "n" then showIvl (getPI g ⟨l, r⟩ a true)
      else if st == "w" then showIvl (getPI g ⟨l, r⟩ a false) else "bad-op"
    | _, _, _ => "bad-op"
  | _ => "bad-op"

end Pun.Drv.C18
