import Pun.Model.Elem
/-!
C05 line protocol.  `S` = scalar form, `A` = array form (lists of equal length).
Transcendental values and the rounded intermediates of the real code (`w = hi - lo`,
`yl = lo % T`, `yh = hi % T`) come on the wire; the handler checks the intermediates against
the exact rational computation (`wire-mismatch` if they differ by more than rounding) and the
model takes its decisions on the supplied values.
-/
namespace Pun.Drv.C05
open Pun Pun.Elem

def showPair (p : Rat × Rat) : String := s!"{showRat p.1} {showRat p.2}"

def showE : Except Err (Rat × Rat) → String
  | .ok p => "ok " ++ showPair p
  | .error e => s!"err {e}"

def showEA : Except Err (List (Rat × Rat)) → String
  | .ok l => s!"ok {showList (l.map (·.1))} {showList (l.map (·.2))}"
  | .error e => s!"err {e}"

def absQ (x : Rat) : Rat := if x < 0 then -x else x

/-- rounded width consistent with the exact one -/
def nearW (w lo hi : Rat) : Bool :=
  decide (absQ (w - (hi - lo)) ≤ (absQ lo + absQ hi + absQ w) * mkRat 1 4503599627370496)

/-- rounded `x % T` consistent with the exact one (absolute 2^-50) -/
def nearM (y x T : Rat) : Bool :=
  decide (absQ (y - fmodR x T) ≤ mkRat 1 1125899906842624)

def lists (ts : List String) : Option (List (List Rat)) := ts.mapM parseList

def sameLen (ls : List (List Rat)) : Bool :=
  match ls with
  | [] => true
  | l :: r => r.all (fun m => m.length == l.length)

def parseKind : String → Option ExpKind
  | "int" => some .int | "npint" => some .npint | "float" => some .float | "bool" => some .bool
  | _ => none

def zip7 : List Rat → List Rat → List Rat → List Rat → List Rat → List Rat → List Rat →
    List (Rat × Rat × TrigArg)
  | a :: as, b :: bs, c :: cs, d :: ds, e :: es, f :: fs, g :: gs =>
    (a, b, ⟨c, d, e, f, g⟩) :: zip7 as bs cs ds es fs gs
  | _, _, _, _, _, _, _ => []

def okArgs (T : Rat) (xs : List (Rat × Rat × TrigArg)) : Bool :=
  xs.all (fun (lo, hi, x) => nearW x.w lo hi && nearM x.yl lo T && nearM x.yh hi T)

def showTan : Except Err (Option (Rat × Rat)) → String
  | .ok none => "ok inf"
  | .ok (some p) => "ok " ++ showPair p
  | .error e => s!"err {e}"

def showTanA : Except Err (List (Option (Rat × Rat))) → String
  | .ok l =>
    let a := l.map (fun o => match o with | none => (0 : Rat) | some p => p.1)
    let b := l.map (fun o => match o with | none => (0 : Rat) | some p => p.2)
    let m := l.map (fun o => match o with | none => (1 : Nat) | some _ => 0)
    s!"ok {showList a} {showList b} {showNatList m}"
  | .error e => s!"err {e}"

def parseEV (s : String) : Option EV :=
  if s == "inf" then some .pinf else (parseRat s).map .fin

def showEV : EV → String
  | .fin r => showRat r
  | .pinf => "inf"

/-- list of extended values: `[1/2,inf,3]` -/
def parseEVList (s : String) : Option (List EV) := do
  let body ← unbracket s
  if body.isEmpty then some [] else (body.splitOn ",").mapM parseEV

def showEVE : Except Err (EV × EV) → String
  | .ok p => s!"ok {showEV p.1} {showEV p.2}"
  | .error e => s!"err {e}"

def showEVEA : Except Err (List (EV × EV)) → String
  | .ok l => "ok [" ++ ",".intercalate (l.map (fun p => showEV p.1)) ++ "] [" ++ ",".intercalate (l.map (fun p => showEV p.2)) ++ "]"
  | .error e => s!"err {e}"

def handle : List String → String
  | ["consts"] => s!"ok {showRat piD} {showRat twopiD}"
  | ["abs", "S", lo, hi] =>
    match parseRat lo, parseRat hi with
    | some lo, some hi => let p := absI lo hi; showE (mkI p.1 p.2)
    | _, _ => "bad-op"
  | ["abs", "A", lo, hi] =>
    match lists [lo, hi] with
    | some [lo, hi] => if lo.length == hi.length then showEA (mkA (absA lo hi)) else "bad-op"
    | _ => "bad-op"
  | ["pow", "S", kind, k, lo, hi] =>
    match parseKind kind, parseInt k, parseRat lo, parseRat hi with
    | some kind, some k, some lo, some hi => showE (powOp kind k lo hi)
    | _, _, _, _ => "bad-op"
  | ["pow", "A", kind, k, lo, hi] =>
    match parseKind kind, parseInt k, lists [lo, hi] with
    | some kind, some k, some [lo, hi] =>
      if lo.length == hi.length then showEA (powA kind k lo hi) else "bad-op"
    | _, _, _ => "bad-op"
  | ["exp", "S", _, _, flo, fhi] =>
    match parseEV flo, parseEV fhi with
    | some a, some b => showEVE (expIE a b)
    | _, _ => "bad-op"
  | ["exp", "A", _, _, flo, fhi] =>
    match parseEVList flo, parseEVList fhi with
    | some a, some b => if a.length == b.length then showEVEA (expAE (a.zip b)) else "bad-op"
    | _, _ => "bad-op"
  | [fn, "S", lo, hi, flo, fhi] =>
    match [lo, hi, flo, fhi].mapM parseRat with
    | some [lo, hi, flo, fhi] =>
      match fn with
      | "exp" => showE (expI flo fhi)
      | "sqrt" => showE (sqrtI lo hi flo fhi)
      | "log" => showE (logI lo flo fhi)
      | _ => "bad-op"
    | _ => "bad-op"
  | [fn, "A", lo, hi, flo, fhi] =>
    match lists [lo, hi, flo, fhi] with
    | some [lo, hi, flo, fhi] =>
      if !sameLen [lo, hi, flo, fhi] then "bad-op" else
      match fn with
      | "exp" => showEA (expA flo fhi)
      | "sqrt" => showEA (sqrtA lo hi flo fhi)
      | "log" => showEA (logA lo flo fhi)
      | _ => "bad-op"
    | _ => "bad-op"
  | ["sig", "S", enh, enl] =>
    match parseEV enh, parseEV enl with
    | some a, some b => showE (sigmoidIE a b)
    | _, _ => "bad-op"
  | ["sig", "A", enh, enl] =>
    match parseEVList enh, parseEVList enl with
    | some a, some b => if a.length == b.length then showEA (sigmoidAE (a.zip b)) else "bad-op"
    | _, _ => "bad-op"
  | ["atanh", "S", e2l, e2h] =>
    match parseEV e2l, parseEV e2h with
    | some a, some b => showE (atanhIE a b)
    | _, _ => "bad-op"
  | ["atanh", "A", e2l, e2h] =>
    match parseEVList e2l, parseEVList e2h with
    | some a, some b => if a.length == b.length then showEA (atanhAE (a.zip b)) else "bad-op"
    | _, _ => "bad-op"
  | ["tanh", "S", e2l, e2h] =>
    match parseEV e2l, parseEV e2h with
    | some a, some b => showE (tanhIE a b)
    | _, _ => "bad-op"
  | ["tanh", "A", e2l, e2h] =>
    match parseEVList e2l, parseEVList e2h with
    | some a, some b => if a.length == b.length then showEA (tanhAE (a.zip b)) else "bad-op"
    | _, _ => "bad-op"
  | [fn, "S", lo, hi, w, yl, yh, sl, sh] =>
    match [lo, hi, w, yl, yh, sl, sh].mapM parseRat with
    | some [lo, hi, w, yl, yh, sl, sh] =>
      let T := if fn == "tan" then piD else twopiD
      if !(nearW w lo hi && nearM yl lo T && nearM yh hi T) then "wire-mismatch" else
      match fn with
      | "sin" => showE (sinI T w yl yh sl sh)
      | "cos" => showE (cosI T w yl yh sl sh)
      | "tan" => showTan (tanI T w yl yh sl sh)
      | _ => "bad-op"
    | _ => "bad-op"
  | [fn, "A", lo, hi, w, yl, yh, sl, sh] =>
    match lists [lo, hi, w, yl, yh, sl, sh] with
    | some [lo, hi, w, yl, yh, sl, sh] =>
      if !sameLen [lo, hi, w, yl, yh, sl, sh] then "bad-op" else
      let T := if fn == "tan" then piD else twopiD
      let xs := zip7 lo hi w yl yh sl sh
      if !okArgs T xs then "wire-mismatch" else
      let args := xs.map (fun (_, _, x) => x)
      match fn with
      | "sin" => showEA (sinA T args)
      | "cos" => showEA (cosA T args)
      | "tan" => showTanA (tanA T args)
      | _ => "bad-op"
    | _ => "bad-op"
  | _ => "bad-op"

end Pun.Drv.C05
