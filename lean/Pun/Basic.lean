def hello := "world"
