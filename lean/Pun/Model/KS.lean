import Pun.Model.Proto
/-!
# C17 model: Kolmogorov–Smirnov confidence bands (`pba/pbox_free.py` 90–183,
`pba/imprecise.py` 24–52, `pba/ecdf.py get_ecdf`, `pba/utils.py extend_ecdf /
interpolate_p / left_right_switch`, `Staircase.from_CDFbundle`).

Exact rationals; rounding is not modelled.  The two transcendental values of
`d_alpha` (`sqrt(log(1/alpha)/(2n))` and `n**(-3/2)`) are parameters `r1 r2`
supplied by the harness.  The constants `c1`, `table`, `dflt` mirror the code
*after* the fix `7e9246c` (an unsupported level raises `ValueError`; before it
`A.get(alpha, 1000)` answered, which is `dflt = some 1000`); the translator
regenerates them from the source into `Pun/Gen/KSGen.lean` and
`Props/C17Gen.lean` proves the two copies equal.
-/
namespace Pun.KS
open Pun

/-! ## `d_alpha` -/

/-- `0.16693` -/
def c1 : Rat := 16693 / 100000

/-- the doubles `0.1`, `0.05`, `0.025` (dict keys are compared as doubles) -/
def k010 : Rat := 3602879701896397 / 36028797018963968
def k005 : Rat := 3602879701896397 / 72057594037927936
def k0025 : Rat := 3602879701896397 / 144115188075855872

/-- `A = {0.1: 0.00256, 0.05: 0.05256, 0.025: 0.11282}` (values as written) -/
def table : List (Rat × Rat) :=
  [(k010, 256 / 100000), (k005, 5256 / 100000), (k0025, 11282 / 100000)]

/-- what an `alpha` outside the table gets: `none` = `raise ValueError` (fixed code),
`some d` = `A.get(alpha, d)` (the code before the fix had `some 1000`) -/
def dflt : Option Rat := none

def lookup : List (Rat × Rat) → Rat → Option Rat
  | [], _ => none
  | (k, v) :: rest, a => if a = k then some v else lookup rest a

/-- `d_alpha(n, alpha)` with explicit constants; `r1 = sqrt(log(1/alpha)/(2n))`, `r2 = n**(-3/2)`.
Order of the source: the table test comes first, `1 / n` raises for `n = 0`. -/
def dAlphaWith (c1 : Rat) (tbl : List (Rat × Rat)) (dflt : Option Rat)
    (n : Nat) (alpha r1 r2 : Rat) : Except Err Rat :=
  match (match lookup tbl alpha with | some a => some a | none => dflt) with
  | none => .error .Value
  | some a => if n = 0 then .error .ZeroDivision else .ok (r1 - c1 * (1 / (n : Rat)) - a * r2)

def dAlpha (n : Nat) (alpha r1 r2 : Rat) : Except Err Rat := dAlphaWith c1 table dflt n alpha r1 r2

/-! ## the band -/

/-- `logical_bounding`: `where(a<0,0,a)` then `where(a<1,a,1)` -/
def clip (a : Rat) : Rat :=
  let a1 := if a < 0 then 0 else a
  if a1 < 1 then a1 else 1

/-- `k/n, (k+1)/n, …` (`m` entries): the cumulated weights `1/N` of `get_ecdf` -/
def pFrom (n : Nat) : Nat → Nat → List Rat
  | _, 0 => []
  | k, m + 1 => ((k : Rat) / (n : Rat)) :: pFrom n (k + 1) m

/-- probabilities of `get_ecdf`: `[0, 1/n, …, n/n]` -/
def ecdfP (n : Nat) : List Rat := pFrom n 0 (n + 1)

def dupHead : List Rat → List Rat
  | [] => []
  | x :: xs => x :: x :: xs

/-- quantiles of `get_ecdf`: the sorted sample with its first element inserted in front -/
def ecdfQ (s : List Rat) : List Rat := dupHead (sortR s)

structure Bundle where
  q : List Rat
  p : List Rat
  deriving Repr

/-- the empirical distribution as a bundle -/
def ecdf (s : List Rat) : Bundle := ⟨ecdfQ s, ecdfP s.length⟩

def shiftUp (D : Rat) (p : List Rat) : List Rat := p.map (fun x => x + D)
def shiftDn (D : Rat) (p : List Rat) : List Rat := p.map (fun x => x - D)

def upper (D : Rat) (p : List Rat) : List Rat := (shiftUp D p).map clip
def lower (D : Rat) (p : List Rat) : List Rat := (shiftDn D p).map clip

/-- precise data: `(b_l, b_r)` = (upper cdf bound, lower cdf bound) on the grid of the ecdf -/
def band (s : List Rat) (D : Rat) : Bundle × Bundle :=
  (⟨ecdfQ s, upper D (ecdfP s.length)⟩, ⟨ecdfQ s, lower D (ecdfP s.length)⟩)

/-- interval data: upper bound from the ecdf of the lower endpoints, lower bound from the upper endpoints -/
def iband (lo hi : List Rat) (D : Rat) : Bundle × Bundle :=
  (⟨ecdfQ lo, upper D (ecdfP lo.length)⟩, ⟨ecdfQ hi, lower D (ecdfP hi.length)⟩)

/-- value of the right-continuous step function drawn by a bundle (`steps-post`): the probability
at the last grid point `≤ t`; `acc` (0 from outside) left of the first grid point -/
def evalStep : List Rat → List Rat → Rat → Rat → Rat
  | q :: qs, p :: ps, acc, t => if q ≤ t then evalStep qs ps p t else acc
  | _, _, acc, _ => acc

def Bundle.eval (b : Bundle) (t : Rat) : Rat := evalStep b.q b.p 0 t

/-- number of sample points `≤ t` -/
def countLE (s : List Rat) (t : Rat) : Nat := s.countP (fun x => decide (x ≤ t))

/-! ## the p-box made from the band (`Staircase.from_CDFbundle`) -/

/-- `extend_ecdf` -/
def extend (b : Bundle) : Bundle :=
  let b1 : Bundle :=
    match b.q, b.p with
    | q0 :: _, p0 :: _ => if p0 ≠ 0 then ⟨q0 :: b.q, 0 :: b.p⟩ else b
    | _, _ => b
  match b1.q.getLast?, b1.p.getLast? with
  | some ql, some pl => if pl ≠ 1 then ⟨b1.q ++ [ql], b1.p ++ [1]⟩ else b1
  | _, _ => b1

/-- `interp1d(p, q, kind="next")` inside the range: the quantile at the first grid point whose
probability is `≥ x` (`searchsorted(nextafter(p, +inf), x, side="right")`) -/
def nextLookup : List Rat → List Rat → Rat → Option Rat
  | p :: ps, q :: qs, x => if x ≤ p then some q else nextLookup ps qs x
  | _, _, _ => none

/-- `interpolate_p` at one level: `fill_value=(q[0], q[-1])`, `bounds_error=False` (a1b7679: outside the
given levels the end *quantiles*; before that fix the end probabilities were filled in) -/
def interpNext (b : Bundle) (x : Rat) : Option Rat :=
  match b.p.head?, b.p.getLast?, b.q.head?, b.q.getLast? with
  | some p0, some pl, some q0, some ql =>
    if x < p0 then some q0 else if pl < x then some ql else nextLookup b.p b.q x
  | _, _, _, _ => none

def allGe : List Rat → List Rat → Bool
  | a :: as, b :: bs => decide (b ≤ a) && allGe as bs
  | _, _ => true

def isIncr : List Rat → Bool
  | a :: b :: rest => decide (a ≤ b) && isIncr (b :: rest)
  | _ => true

/-- is there a step with `left > right`? (`np.any(self.left > self.right)`, 1ca78ea) -/
def anyGt : List Rat → List Rat → Bool
  | a :: as, b :: bs => decide (b < a) || anyGt as bs
  | _, _ => false

/-- `Staircase.from_CDFbundle(a, b)` on the levels `pv` (= `Params.p_values`, 200 of them):
extend, look up, `left_right_switch`, `is_increasing` check, crossing check (1ca78ea) -/
def fromBundles (a b : Bundle) (pv : List Rat) : Except Err (List Rat × List Rat) :=
  if a.p = [] ∨ a.q = [] ∨ b.p = [] ∨ b.q = [] then .error .Index else
  match pv.mapM (interpNext (extend a)), pv.mapM (interpNext (extend b)) with
  | some l, some r =>
    let lr := if allGe l r then (r, l) else (l, r)
    if isIncr lr.1 && isIncr lr.2 then
      (if anyGt lr.1 lr.2 then .error .Other else .ok lr)
    else .error .Other
  | _, _ => .error .Value

def ksPbox (s : List Rat) (D : Rat) (pv : List Rat) : Except Err (List Rat × List Rat) :=
  fromBundles (band s D).1 (band s D).2 pv

def iksPbox (lo hi : List Rat) (D : Rat) (pv : List Rat) : Except Err (List Rat × List Rat) :=
  fromBundles (iband lo hi D).1 (iband lo hi D).2 pv

end Pun.KS
