import Pun.Model.Proto
/-!
# C05 model: interval elementary functions and integer powers

`pba/intervals/methods.py` (`abs sqrt exp log sin sin_vector cos cos_vector tan
tan_vector sigmoid tanh`), `pba/intervals/activation.py` (`sigmoid`) and
`Interval.__pow__` of `pba/intervals/number.py`, as they are after the `fix:`
commits of the C05 worktree.

Everything is over exact rationals.  Transcendental values never appear here:
the functions take the values `f(lo)`, `f(hi)` (what `numpy.exp/log/sqrt/sin/
cos/tan` returned) as arguments; the theorems of `Props/C05.lean` instantiate
them with an abstract function having the order properties used.

Trigonometric functions: `T` is the period constant the code uses (`twopiD`,
the exact rational of the double `2*numpy.pi`; `piD` for the tangent), the
quadrant boundaries are `T/4`, `3*(T/4)` (the doubles `pihalf`, `3*pihalf`
are exactly these rationals — checked by the `consts` request of the tie),
`w` is the width, `yl yh` the endpoints reduced modulo `T`, `sl sh` the values
of the function at `yl yh`.
-/
namespace Pun.Elem
open Pun

/-- exact rational of the double `numpy.pi` -/
def piD : Rat := mkRat 884279719003555 281474976710656
/-- `2 * numpy.pi` (exact in binary64) -/
def twopiD : Rat := 2 * piD

/-- `Interval(a, b)` with `run_heavy_checks`: asserts `a ≤ b` -/
def mkI (a b : Rat) : Except Err (Rat × Rat) :=
  if a ≤ b then .ok (a, b) else .error .Assertion

/-- `Interval(lo, hi)` of arrays: `numpy.all(lo <= hi)` -/
def mkA (l : List (Rat × Rat)) : Except Err (List (Rat × Rat)) :=
  if l.all (fun p => decide (p.1 ≤ p.2)) then .ok l else .error .Assertion

/-- the same with NaN endpoints (`none`): every comparison with NaN is false -/
def mkIo : Option Rat → Option Rat → Except Err (Rat × Rat)
  | some a, some b => mkI a b
  | _, _ => .error .Assertion

def absR (x : Rat) : Rat := if x < 0 then -x else x

/-! ## abs, exp, sqrt, log (methods.py 58-109) -/

/-- `methods.abs`: `[min(|lo|,|hi|), max(|lo|,|hi|)]`, lower bound 0 when `lo ≤ 0 ≤ hi` -/
def absI (lo hi : Rat) : Rat × Rat :=
  let a := if lo ≤ 0 ∧ hi ≥ 0 then 0 else min (absR lo) (absR hi)
  (a, max (absR lo) (absR hi))

/-- `methods.exp`: `Interval(exp(lo), exp(hi))`; `elo ehi` are the supplied values -/
def expI (elo ehi : Rat) : Except Err (Rat × Rat) := mkI elo ehi

/-- `methods.sqrt`: `Interval(sqrt(lo), sqrt(hi))`; `numpy.sqrt` of a negative number is NaN and
the constructor's assertion then fails -/
def sqrtI (lo hi slo shi : Rat) : Except Err (Rat × Rat) :=
  mkIo (if lo < 0 then none else some slo) (if hi < 0 then none else some shi)

/-- `methods.log`: `assert all(lo > 0)`, then `Interval(log(lo), log(hi))` -/
def logI (lo llo lhi : Rat) : Except Err (Rat × Rat) :=
  if lo > 0 then mkI llo lhi else .error .Assertion

/-! array forms: the functions above on every element; the assertions are `numpy.all` -/
def absA (los his : List Rat) : List (Rat × Rat) := (los.zip his).map (fun p => absI p.1 p.2)

def seqE {α : Type} : List (Except Err α) → Except Err (List α)
  | [] => .ok []
  | .ok x :: r => (match seqE r with | .ok l => .ok (x :: l) | .error e => .error e)
  | .error e :: _ => .error e

def expA (elos ehis : List Rat) : Except Err (List (Rat × Rat)) := mkA (elos.zip ehis)

def sqrtA (los his slos shis : List Rat) : Except Err (List (Rat × Rat)) :=
  seqE (((los.zip his).zip (slos.zip shis)).map (fun p => sqrtI p.1.1 p.1.2 p.2.1 p.2.2))

def logA (los llos lhis : List Rat) : Except Err (List (Rat × Rat)) :=
  if los.all (fun x => decide (x > 0)) then mkA (llos.zip lhis) else .error .Assertion

/-! ## integer powers (number.py `__pow__`) -/

/-- kind of the exponent object: only Python / numpy integers are accepted -/
inductive ExpKind where | int | npint | float | bool
  deriving DecidableEq, Repr

/-- non-negative exponent: parity logic.  Even: `lo = zeros; lo[self<0] = b; lo[self>0] = a`
(the second assignment overwrites the first), `hi = max(a,b)`.  Odd: `[min(a,b), max(a,b)]`. -/
def powNat (n : Nat) (lo hi : Rat) : Rat × Rat :=
  let a := lo ^ n
  let b := hi ^ n
  if n % 2 = 0 then ((if lo > 0 then a else if hi < 0 then b else 0), max a b)
  else (min a b, max a b)

/-- `1 / Interval(a,b)` (`__rtruediv__` with a positive number on the left) -/
def recipI (a b : Rat) : Except Err (Rat × Rat) :=
  if a ≤ 0 ∧ b ≥ 0 then .error .ZeroDivision else mkI (1 / b) (1 / a)

/-- `Interval.__pow__` with an integer exponent; negative: `(1 / x) ** (-k)` — the reciprocal first (it raises
`ZeroDivisionError` when 0 is in x), then the non-negative power of the reciprocal -/
def powI (k : Int) (lo hi : Rat) : Except Err (Rat × Rat) :=
  if k < 0 then
    match recipI lo hi with
    | .ok q =>
      let p := powNat k.natAbs q.1 q.2
      mkI p.1 p.2
    | .error e => .error e
  else
    let p := powNat k.natAbs lo hi
    mkI p.1 p.2

def powOp (kind : ExpKind) (k : Int) (lo hi : Rat) : Except Err (Rat × Rat) :=
  match kind with
  | .int | .npint => powI k lo hi
  | _ => .error .Other          -- NotImplementedError

/-- array form: elementwise; the zero test of the reciprocal is `numpy.any` over the array -/
def powA (kind : ExpKind) (k : Int) (los his : List Rat) : Except Err (List (Rat × Rat)) :=
  match kind with
  | .int | .npint =>
    if k < 0 then
      if (los.zip his).any (fun q => decide (q.1 ≤ 0 ∧ q.2 ≥ 0)) then .error .ZeroDivision
      else
        match mkA ((los.zip his).map (fun q => (1 / q.2, 1 / q.1))) with
        | .error e => .error e
        | .ok rs => mkA (rs.map (fun r => powNat k.natAbs r.1 r.2))
    else mkA ((los.zip his).map (fun p => powNat k.natAbs p.1 p.2))
  | _ => .error .Other

/-! ## logistic function and tanh (interval expressions built from C01 operators and `exp`) -/

/-- `1 / (1 + exp(-x))`: `enh = exp(-hi)`, `enl = exp(-lo)` are supplied -/
def sigmoidI (enh enl : Rat) : Except Err (Rat × Rat) :=
  match mkI enh enl with                    -- exp(-x) = Interval(exp(-hi), exp(-lo))
  | .error e => .error e
  | .ok e =>
    match mkI (1 + e.1) (1 + e.2) with       -- 1 + ·
    | .error e => .error e
    | .ok d => recipI d.1 d.2                -- 1 / ·

/-- `methods.tanh` (the second definition, `r=-1, s=t=u=1`):
`1 - 2 / (1 + exp(2x))`; `e2l = exp(2 lo)`, `e2h = exp(2 hi)` are supplied -/
def tanhI (e2l e2h : Rat) : Except Err (Rat × Rat) :=
  match mkI e2l e2h with
  | .error e => .error e
  | .ok e =>
    match mkI (1 + e.1) (1 + e.2) with
    | .error e => .error e
    | .ok d =>
      if d.1 ≤ 0 ∧ d.2 ≥ 0 then .error .ZeroDivision
      else
        match mkI (2 / d.2) (2 / d.1) with   -- 2 / · (left operand ≥ 0)
        | .error e => .error e
        | .ok q => mkI (1 - q.2) (1 - q.1)   -- 1 - ·

/-- array forms: the same expression on every element -/
def sigmoidA (enhs enls : List Rat) : Except Err (List (Rat × Rat)) :=
  seqE ((enhs.zip enls).map (fun p => sigmoidI p.1 p.2))
def tanhA (e2ls e2hs : List Rat) : Except Err (List (Rat × Rat)) :=
  seqE ((e2ls.zip e2hs).map (fun p => tanhI p.1 p.2))

/-! ## overflow of `numpy.exp`

Beyond 709.78 `numpy.exp` returns `inf` (and underflows to `0.0` below −745.13, which is an ordinary
rational here).  `EV` = a finite value or `+inf`; the extended forms below are what the driver
executes for `exp`, the logistic function and `tanh`.  On finite arguments they ARE the functions
above (`Props/C05.lean`: `expIE_fin`, `sigmoidIE_fin`, `tanhIE_fin`); with `inf` they follow IEEE:
`1 + inf = inf`, `c / inf = 0`, `x ≤ inf`. -/

inductive EV where
  | fin (r : Rat)
  | pinf
  deriving DecidableEq, Repr

def EV.le : EV → EV → Bool
  | .fin a, .fin b => decide (a ≤ b)
  | _, .pinf => true
  | .pinf, .fin _ => false

/-- `Interval(a, b)` with possibly infinite bounds -/
def mkIE (a b : EV) : Except Err (EV × EV) :=
  if EV.le a b then .ok (a, b) else .error .Assertion

def EV.add1 : EV → EV
  | .fin r => .fin (1 + r)
  | .pinf => .pinf

/-- `c / v` (finite: `c / inf = 0`) -/
def EV.rdiv (c : Rat) : EV → Rat
  | .fin r => c / r
  | .pinf => 0

def EV.le0 : EV → Bool
  | .fin r => decide (r ≤ 0)
  | .pinf => false

def EV.ge0 : EV → Bool
  | .fin r => decide (r ≥ 0)
  | .pinf => true

def expIE (elo ehi : EV) : Except Err (EV × EV) := mkIE elo ehi

def expAE (l : List (EV × EV)) : Except Err (List (EV × EV)) :=
  if l.all (fun p => EV.le p.1 p.2) then .ok l else .error .Assertion

def sigmoidIE (enh enl : EV) : Except Err (Rat × Rat) :=
  match mkIE enh enl with
  | .error e => .error e
  | .ok e =>
    match mkIE e.1.add1 e.2.add1 with
    | .error e => .error e
    | .ok d =>
      if d.1.le0 && d.2.ge0 then .error .ZeroDivision
      else mkI (EV.rdiv 1 d.2) (EV.rdiv 1 d.1)

def tanhIE (e2l e2h : EV) : Except Err (Rat × Rat) :=
  match mkIE e2l e2h with
  | .error e => .error e
  | .ok e =>
    match mkIE e.1.add1 e.2.add1 with
    | .error e => .error e
    | .ok d =>
      if d.1.le0 && d.2.ge0 then .error .ZeroDivision
      else
        match mkI (EV.rdiv 2 d.2) (EV.rdiv 2 d.1) with
        | .error e => .error e
        | .ok q => mkI (1 - q.2) (1 - q.1)

def sigmoidAE (l : List (EV × EV)) : Except Err (List (Rat × Rat)) :=
  seqE (l.map (fun p => sigmoidIE p.1 p.2))
def tanhAE (l : List (EV × EV)) : Except Err (List (Rat × Rat)) :=
  seqE (l.map (fun p => tanhIE p.1 p.2))

/-! ## `activation.tanh` = `1 - 2 / (1 + exp(2 * x))` (since `fa5d3fa`; before: the quotient form)

The operations the code performs, in order: `exp(2 * x)` (values supplied), `1 + ·` (`__radd__`),
`2 / ·` (`__rtruediv__`: zero test, left operand ≥ 0 so the bounds swap), `1 - ·` (`__rsub__`), each
through the Interval constructor.  With `inf` for an overflowed `exp`. -/
def atanhIE (e2l e2h : EV) : Except Err (Rat × Rat) :=
  match mkIE e2l e2h with                                 -- exp(2 * x)
  | .error e => .error e
  | .ok e =>
    match mkIE e.1.add1 e.2.add1 with                     -- 1 + ·
    | .error e => .error e
    | .ok d =>
      if d.1.le0 && d.2.ge0 then .error .ZeroDivision     -- 2 / · : 0 in the divisor
      else
        match mkI (EV.rdiv 2 d.2) (EV.rdiv 2 d.1) with
        | .error e => .error e
        | .ok q => mkI (1 - q.2) (1 - q.1)                -- 1 - ·

def atanhAE (l : List (EV × EV)) : Except Err (List (Rat × Rat)) :=
  seqE (l.map (fun p => atanhIE p.1 p.2))

/-! ## sin, cos (CORA case analysis on the reduced endpoints) -/

inductive Shape where
  | full | lh | hl | minTo1 | m1ToMax
  deriving DecidableEq, Repr

def Shape.toString : Shape → String
  | .full => "full" | .lh => "lh" | .hl => "hl" | .minTo1 => "minTo1" | .m1ToMax => "m1ToMax"

def bounds (sl sh : Rat) : Shape → Rat × Rat
  | .full => (-1, 1)
  | .lh => (sl, sh)
  | .hl => (sh, sl)
  | .minTo1 => (min sl sh, 1)
  | .m1ToMax => (-1, max sl sh)

/-- `x % T` for `T > 0`: `x - T * floor(x / T)` -/
def fmodR (x T : Rat) : Rat := x - T * ((x / T).floor : Int)

/-- scalar `methods.sin` in source order: width test, three early returns that use
`contain(domain, y) & (yl <= yh)`, then case1 … case5; `none` = falls off the end. `Q = T/4`. -/
def sinShape (w yl yh T : Rat) : Option Shape :=
  let Q := T / 4
  let d1 := fun x : Rat => 0 ≤ x ∧ x ≤ Q
  let d2 := fun x : Rat => Q ≤ x ∧ x ≤ 3 * Q
  let d3 := fun x : Rat => 3 * Q ≤ x ∧ x ≤ T
  if T ≤ w then some .full
  else if (0 ≤ yl ∧ yh ≤ Q) ∧ yl ≤ yh then some .lh
  else if (Q ≤ yl ∧ yh ≤ 3 * Q) ∧ yl ≤ yh then some .hl
  else if (3 * Q ≤ yl ∧ yh ≤ T) ∧ yl ≤ yh then some .lh
  else if (d1 yl ∧ d1 yh ∧ yh < yl) ∨ (d1 yl ∧ d3 yh) ∨ (d2 yl ∧ d2 yh ∧ yh < yl) ∨ (d3 yl ∧ d3 yh ∧ yh < yl)
    then some .full
  else if (d1 yl ∧ d1 yh ∧ yl ≤ yh) ∨ (d3 yl ∧ d1 yh) ∨ (d3 yl ∧ d3 yh ∧ yl ≤ yh) then some .lh
  else if (d1 yl ∧ d2 yh) ∨ (d3 yl ∧ d2 yh) then some .minTo1
  else if (d2 yl ∧ d1 yh) ∨ (d2 yl ∧ d3 yh) then some .m1ToMax
  else if d2 yl ∧ d2 yh ∧ yl ≤ yh then some .hl
  else none

/-- one masked assignment `a[mask] = …` : where the mask holds the new value overwrites -/
def ov (c : Prop) [Decidable c] (v r : Shape) : Shape := if c then v else r

/-- `methods.sin_vector`, one element: default `[l,h]`, then the masked assignments in source
order (each overwrites the previous ones; the outermost `ov` is the last assignment). -/
def sinVecShape (w yl yh T : Rat) : Shape :=
  let Q := T / 4
  let l1 := 0 ≤ yl ∧ yl ≤ Q
  let l2 := Q ≤ yl ∧ yl ≤ 3 * Q
  let l3 := 3 * Q ≤ yl ∧ yl ≤ T
  let h1 := 0 ≤ yh ∧ yh ≤ Q
  let h2 := Q ≤ yh ∧ yh ≤ 3 * Q
  let h3 := 3 * Q ≤ yh ∧ yh ≤ T
  let ordered := yl ≤ yh
  ov (T ≤ w) .full <|                                   -- mask1a
  ov (l1 ∧ h1 ∧ ordered) .lh <|                         -- mono1
  ov (l2 ∧ h2 ∧ ordered) .hl <|                         -- mono2
  ov (l3 ∧ h3 ∧ ordered) .lh <|                         -- mono3
  ov ((l1 ∧ h1 ∧ ¬ ordered) ∨ (l1 ∧ h3) ∨ (l2 ∧ h2 ∧ ¬ ordered) ∨ (l3 ∧ h3 ∧ ¬ ordered)) .full <|  -- case1
  ov (l3 ∧ h1) .lh <|                                   -- case2
  ov ((l1 ∧ h2) ∨ (l3 ∧ h2)) .minTo1 <|                 -- case3
  ov ((l2 ∧ h1) ∨ (l2 ∧ h3)) .m1ToMax <|                -- case4
  .lh

/-- scalar `methods.cos` in source order; `none` = falls off the end -/
def cosShape (w yl yh T : Rat) : Option Shape :=
  let H := T / 2
  let d1 := fun x : Rat => 0 ≤ x ∧ x ≤ H
  let d2 := fun x : Rat => H ≤ x ∧ x ≤ T
  if T ≤ w then some .full
  else if (yh < yl ∧ d1 yl ∧ d1 yh) ∨ (yh < yl ∧ d2 yl ∧ d2 yh) then some .full
  else if yl ≤ yh ∧ d2 yl ∧ d2 yh then some .lh
  else if d2 yl ∧ d1 yh then some .minTo1
  else if d1 yl ∧ d2 yh then some .m1ToMax
  else if yl ≤ yh ∧ d1 yl ∧ d1 yh then some .hl
  else none

/-- `methods.cos_vector`, one element (masked assignments, the outermost is the last one) -/
def cosVecShape (w yl yh T : Rat) : Shape :=
  let H := T / 2
  let d1 := fun x : Rat => 0 ≤ x ∧ x ≤ H
  let d2 := fun x : Rat => H ≤ x ∧ x ≤ T
  ov (T ≤ w ∨ (yh < yl ∧ d1 yl ∧ d1 yh) ∨ (yh < yl ∧ d2 yl ∧ d2 yh)) .full <|   -- case1
  ov (yl ≤ yh ∧ d2 yl ∧ d2 yh) .lh <|                                          -- case2
  ov (d2 yl ∧ d1 yh) .minTo1 <|                                                -- case3
  ov (d1 yl ∧ d2 yh) .m1ToMax <|                                               -- case4
  ov (yl ≤ yh ∧ d1 yl ∧ d1 yh) .hl <|                                          -- case5
  .lh

/-- the interval a scalar sin/cos returns: `none` shape = Python `None` (reported as `Other`) -/
def trigI (sh : Option Shape) (sl sh' : Rat) : Except Err (Rat × Rat) :=
  match sh with
  | none => .error .Other
  | some s => mkI (bounds sl sh' s).1 (bounds sl sh' s).2

def sinI (T w yl yh sl sh : Rat) : Except Err (Rat × Rat) := trigI (sinShape w yl yh T) sl sh
def cosI (T w yl yh sl sh : Rat) : Except Err (Rat × Rat) := trigI (cosShape w yl yh T) sl sh

/-- one element of the array forms -/
def sinVecEl (T w yl yh sl sh : Rat) : Rat × Rat := bounds sl sh (sinVecShape w yl yh T)
def cosVecEl (T w yl yh sl sh : Rat) : Rat × Rat := bounds sl sh (cosVecShape w yl yh T)

/-- array argument record: width, reduced endpoints, function values at them -/
structure TrigArg where
  w : Rat
  yl : Rat
  yh : Rat
  sl : Rat
  sh : Rat
  deriving Repr

def sinA (T : Rat) (xs : List TrigArg) : Except Err (List (Rat × Rat)) :=
  mkA (xs.map (fun x => sinVecEl T x.w x.yl x.yh x.sl x.sh))
def cosA (T : Rat) (xs : List TrigArg) : Except Err (List (Rat × Rat)) :=
  mkA (xs.map (fun x => cosVecEl T x.w x.yl x.yh x.sl x.sh))

/-! ## tan: period `P`, pole at `P/2` -/

/-- `true` = the result is `[-inf, inf]` (scalar and array variants take the same decision) -/
def tanInf (w zl zh P : Rat) : Bool :=
  let H := P / 2
  let d1 := fun x : Rat => 0 ≤ x ∧ x ≤ H
  let d2 := fun x : Rat => H ≤ x ∧ x ≤ P
  decide (P ≤ w ∨ (zh < zl ∧ d1 zl ∧ d1 zh) ∨ (zh < zl ∧ d2 zl ∧ d2 zh) ∨ (d1 zl ∧ d2 zh))

/-- `none` = `[-inf, inf]`; otherwise `Interval(tan(zl), tan(zh))` (constructor assertion) -/
def tanI (P w zl zh tl th : Rat) : Except Err (Option (Rat × Rat)) :=
  if tanInf w zl zh P then .ok none
  else match mkI tl th with
    | .ok p => .ok (some p)
    | .error e => .error e

/-- `tan_vector`: `a = tan_l, b = tan_h`, masked `±inf`, then the constructor's `numpy.all` check
(an infinite element always passes it) -/
def tanA (P : Rat) (xs : List TrigArg) : Except Err (List (Option (Rat × Rat))) :=
  let r := xs.map (fun x => if tanInf x.w x.yl x.yh P then none else some (x.sl, x.sh))
  if r.all (fun o => match o with | none => true | some p => decide (p.1 ≤ p.2)) then .ok r
  else .error .Assertion

end Pun.Elem
