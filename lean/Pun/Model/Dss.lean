import Pun.Model.Grid
/-!
# C08 model: focal intervals + masses → p-box

`stacking` mirrors `pba/aggregation.py stacking(..., return_type="pbox")`:
`make_vec_interval` (at least one interval, every `lo ≤ hi`), the weighted ecdf of the lower
and of the upper endpoints, `Staircase.from_CDFbundle` (extend, look up every grid level with
the 'next' rule) the `left_right_switch` of the `Pbox` constructor and its `post_init_check` (bounds non-decreasing and not crossing).
`DempsterShafer.to_pbox` is the same call; `Pbox.to_dss` lists the steps as focal intervals
with mass `1/steps` each.
-/
namespace Pun.Dss
open Pun Pun.Grid

structure PB where
  left : List Rat
  right : List Rat
  deriving Repr, DecidableEq

def allGE : List Rat → List Rat → Bool
  | a :: l, b :: r => decide (b ≤ a) && allGE l r
  | _, _ => true

/-- `left_right_switch` on arrays of equal length -/
def switch (l r : List Rat) : PB := if allGE l r then ⟨r, l⟩ else ⟨l, r⟩

def allLE : List Rat → List Rat → Bool
  | a :: l, b :: r => decide (a ≤ b) && allLE l r
  | _, _ => true

/-- `is_increasing` : `np.all(np.diff(arr) >= 0)` -/
def sortedB : List Rat → Bool
  | a :: b :: r => decide (a ≤ b) && sortedB (b :: r)
  | _ => true

/-- `Pbox.post_init_check`: both bounds non-decreasing, and (1ca78ea) the bounds do not cross -/
def wfB (P : PB) : Bool := sortedB P.left && sortedB P.right && allLE P.left P.right

/-- weights: `none` = `weights=None` (equal masses `1/N`) -/
def weightsOf (n : Nat) : Option (List Rat) → List Rat
  | none => equalW n
  | some w => w

/-- `stacking(intervals, weights=w)` on grid `g` -/
def stacking (g : List Rat) (lo hi : List Rat) (w : Option (List Rat)) : Except Err PB :=
  if lo.length ≠ hi.length then .error .Value
  else if lo.length < 1 then .error .Assertion            -- make_vec_interval: len(vec) >= 1
  else if !(allLE lo hi) then .error .Assertion            -- Interval heavy check lo ≤ hi
  else
    let ws := weightsOf lo.length w
    if ws.length ≠ lo.length then .error .Value            -- np.stack of unequal lengths
    else
      match getEcdf lo ws, getEcdf hi ws with
      | some e1, some e2 =>
        match bound g e1, bound g e2 with
        | some l, some r => if wfB (switch l r) then .ok (switch l r) else .error .Other
        | _, _ => .error .Other
      | _, _ => .error .Index

/-- `Pbox.to_dss()` : the steps as focal intervals, masses `np.repeat(1/steps, steps)` -/
def toDss (n : Nat) (P : PB) : List Rat × List Rat × List Rat :=
  (P.left, P.right, equalW n)

/-- `Pbox.to_dss().to_pbox()` -/
def roundtrip (g : List Rat) (n : Nat) (P : PB) : Except Err PB :=
  let d := toDss n P
  stacking g d.1 d.2.1 (some d.2.2)

end Pun.Dss
