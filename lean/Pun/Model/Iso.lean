import Pun.Model.Arith
import Pun.Model.PBox
/-!
# C12 model: pairs of executions

C12 relates two runs of the same operation on nested inputs, so the model is the models of the
operations themselves (`Pun.Arith`, `Pun.PBox`) plus the small wrappers that make *one* run of
each kind of operation named in the property executable:

* `ITree` / `ITree.eval` — a nested Python expression over scalar `Interval`s and numbers, every node
  dispatched to the C01 operators (`Pun.Arith.binop`, `Pun.Arith.neg`);
* `PTree` / `PTree.eval` — a nested expression over p-boxes: arithmetic under a dependency, number
  operands on either side, negation, `env`, `imp` (`Pun.PBox.binop` …);
* `ivUnary` / `PBox.unaryTemplate` — endpoint images of a unary map whose values the harness supplies;
* `stackBound` / `stacking` — `pba.stacking`: weighted ecdf of the lower / upper endpoints looked up
  at every grid level with the 'next' rule, then the constructor's `left_right_switch`;
* `nearestIdx` / `alphaCut` — `Pbox.alpha_cut`: the cut index depends on the level only;
* `slicing` — `propagation.mixed_up.slicing(..., interval_strategy="direct")`: meshgrid of levels,
  one alpha-cut per variable, the response expression in interval arithmetic, `stacking`;
* `imc` — `interval_monte_carlo` given the rows of levels its dependency object drew.

`ivSub`, `leL`, `pbSub` are the containment relations the theorems are about.
-/
namespace Pun.Iso
open Pun

/-! ## containment -/

/-- `[a,b] ⊆ [c,d]` -/
def ivSub (a b c d : Rat) : Bool := decide (c ≤ a) && decide (b ≤ d)

/-- pointwise `≤` of two lists of the same length -/
def leL : List Rat → List Rat → Bool
  | [], [] => true
  | a :: s, b :: t => decide (a ≤ b) && leL s t
  | _, _ => false

/-- `P ⊑ Q`: `Q` has the lower left bound and the higher right bound at every step -/
def pbSub (P Q : PBox.PB) : Bool := leL Q.left P.left && leL P.right Q.right

/-! ## nested interval expressions -/

inductive ITree where
  | var (i : Nat)
  | num (c : Rat)
  | bin (op : Arith.BinOp) (a b : ITree)
  | neg (a : ITree)
  deriving Repr, Inhabited

/-- Python `l op r` for two plain numbers -/
def numBin (op : Arith.BinOp) (x y : Rat) : Except Err Arith.Opd :=
  match op with
  | .add => .ok (.N (x + y))
  | .sub => .ok (.N (x - y))
  | .mul => .ok (.N (x * y))
  | .div => if y = 0 then .error .ZeroDivision else .ok (.N (x / y))

/-- one node: numbers stay numbers, anything involving an Interval goes to the C01 operators -/
def ibin (op : Arith.BinOp) (l r : Arith.Opd) : Except Err Arith.Opd :=
  match l, r with
  | .N x, .N y => numBin op x y
  | _, _ => Arith.binop op l r

def ineg (x : Arith.Opd) : Except Err Arith.Opd :=
  match x with
  | .N c => .ok (.N (-c))
  | _ => Arith.neg x

def ITree.eval (box : List (Rat × Rat)) : ITree → Except Err Arith.Opd
  | .var i => match box[i]? with | some p => .ok (.I p.1 p.2) | none => .error .Index
  | .num c => .ok (.N c)
  | .bin op a b => do
      let x ← ITree.eval box a
      let y ← ITree.eval box b
      ibin op x y
  | .neg a => do
      let x ← ITree.eval box a
      ineg x

def ITree.depth : ITree → Nat
  | .var _ => 0 | .num _ => 0
  | .bin _ a b => max a.depth b.depth + 1
  | .neg a => a.depth + 1

/-- `Interval(f(lo), f(hi))` for a unary map given by its two endpoint values -/
def ivUnary (flo fhi : Rat) : Except Err Arith.Opd := Arith.mkIV none [flo] [fhi]

/-! ## nested p-box expressions -/

inductive PTree where
  | var (i : Nat)
  | bin (op : PBox.Op) (d : PBox.Dep) (a b : PTree)
  | numR (op : PBox.Op) (a : PTree) (c : Rat)
  | numL (op : PBox.Op) (c : Rat) (a : PTree)
  | neg (a : PTree)
  | env (a b : PTree)
  | imp (a b : PTree)
  deriving Repr, Inhabited

def PTree.eval (steps : Nat) (vars : List PBox.PB) : PTree → Except Err PBox.PB
  | .var i => match vars[i]? with | some p => .ok p | none => .error .Index
  | .bin o d a b => do
      let x ← PTree.eval steps vars a
      let y ← PTree.eval steps vars b
      PBox.binop steps o d x y
  | .numR o a c => do
      let x ← PTree.eval steps vars a
      PBox.numRight steps o x c
  | .numL o c a => do
      let x ← PTree.eval steps vars a
      PBox.numLeft steps o c x
  | .neg a => do
      let x ← PTree.eval steps vars a
      PBox.neg steps x
  | .env a b => do
      let x ← PTree.eval steps vars a
      let y ← PTree.eval steps vars b
      PBox.env steps x y
  | .imp a b => do
      let x ← PTree.eval steps vars a
      let y ← PTree.eval steps vars b
      PBox.imp steps x y

def PTree.depth : PTree → Nat
  | .var _ => 0
  | .bin _ _ a b => max a.depth b.depth + 1
  | .numR _ a _ => a.depth + 1
  | .numL _ _ a => a.depth + 1
  | .neg a => a.depth + 1
  | .env a b => max a.depth b.depth + 1
  | .imp a b => max a.depth b.depth + 1

/-! ## stacking -/

/-- `arr[np.argsort(arr[:, 0])]`: rows `(value, weight)` in value order -/
def sortPairs (l : List (Rat × Rat)) : List (Rat × Rat) :=
  l.mergeSort (fun a b => decide (a.1 ≤ b.1))

/-- `(value, weight cumulated up to and including this row)` -/
def cumul : List (Rat × Rat) → Rat → List (Rat × Rat)
  | [], _ => []
  | (v, w) :: r, acc => (v, acc + w) :: cumul r (acc + w)

/-- 'next' lookup: the value of the first row whose cumulated weight reaches `p` -/
def firstReach : List (Rat × Rat) → Rat → Option Rat
  | [], _ => none
  | (v, c) :: r, p => if p ≤ c then some v else firstReach r p

def lastVal : List (Rat × Rat) → Rat
  | [] => 0
  | [x] => x.1
  | _ :: y :: r => lastVal (y :: r)

/-- one bound of `stacking`: the weighted ecdf of `vals` looked up at every grid level `p ∈ (0, 1]`
(`extend_ecdf` appends the last value at level 1 when the weights do not sum to exactly 1) -/
def stackBound (g vals wts : List Rat) : List Rat :=
  let sc := cumul (sortPairs (vals.zip wts)) 0
  g.map (fun p => match firstReach sc p with | some v => v | none => lastVal sc)

def allLE : List Rat → List Rat → Bool
  | a :: l, b :: r => decide (a ≤ b) && allLE l r
  | _, _ => true

/-- `stacking(intervals, weights=w)` on the grid `g` (both bounds have `g.length` entries, so the
constructor neither condenses nor interpolates); `left_right_switch` on arrays -/
def stacking (g lo hi wts : List Rat) : Except Err PBox.PB :=
  if lo.length ≠ hi.length then .error .Value
  else if lo.length < 1 then .error .Assertion
  else if !(allLE lo hi) then .error .Assertion
  else if wts.length ≠ lo.length then .error .Value
  else
    let l := stackBound g lo wts
    let r := stackBound g hi wts
    if PBox.allGe l r then .ok ⟨r, l⟩ else .ok ⟨l, r⟩

/-! ## alpha-cuts and slicing -/

def absR (x : Rat) : Rat := if x < 0 then -x else x

/-- `numpy.argmin`: index of the FIRST minimal entry, scanning from position `i` -/
def argminGo : List Rat → Nat → Rat → Nat → Nat
  | [], _, _, bi => bi
  | y :: ys, i, best, bi => if y < best then argminGo ys (i + 1) y i else argminGo ys (i + 1) best bi

def argminFirst : List Rat → Nat
  | [] => 0
  | x :: xs => argminGo xs 1 x 0

/-- `find_nearest(Params.p_values, alpha)`: depends on the grid and the level only -/
def nearestIdx (pv : List Rat) (a : Rat) : Nat := argminFirst (pv.map (fun p => absR (p - a)))

/-- `Pbox.alpha_cut(alpha)`: `Interval(left[ind], right[ind])` -/
def alphaCut (pv : List Rat) (P : PBox.PB) (a : Rat) : Except Err (Rat × Rat) :=
  let i := nearestIdx pv a
  match P.left[i]?, P.right[i]? with
  | some l, some r => if l ≤ r then .ok (l, r) else .error .Assertion
  | _, _ => .error .Index

/-- cartesian product, first factor slowest (`meshgrid(indexing="ij")` reshaped to rows) -/
def prodL {α : Type} : List (List α) → List (List α)
  | [] => [[]]
  | l :: ls => l.flatMap (fun a => (prodL ls).map (fun t => a :: t))

/-- the response of one row of levels as an interval (a constant response is a degenerate one) -/
def asIvl : Arith.Opd → Except Err (Rat × Rat)
  | .I a b => .ok (a, b)
  | .N c => .ok (c, c)
  | _ => .error .Other

def cutBox (pv : List Rat) (vars : List PBox.PB) (row : List Rat) : Except Err (List (Rat × Rat)) :=
  (vars.zip row).mapM (fun va => alphaCut pv va.1 va.2)

/-- one image interval per row of probability levels (the loop shared by `slicing` and `interval_monte_carlo`) -/
def rowImages (pv : List Rat) (rows : List (List Rat)) (t : ITree) (vars : List PBox.PB) :
    Except Err (List (Rat × Rat)) :=
  rows.mapM (fun row => do
    let box ← cutBox pv vars row
    let v ← t.eval box
    asIvl v)

/-- the focal intervals `slicing` hands to `stacking` -/
def sliceImages (pv levels : List Rat) (t : ITree) (vars : List PBox.PB) : Except Err (List (Rat × Rat)) :=
  rowImages pv (prodL (List.replicate vars.length levels)) t vars

/-- `slicing(vars, func, n_slices=levels.length, interval_strategy="direct")`; `w` is the float `1/N` -/
def slicing (pv levels : List Rat) (t : ITree) (vars : List PBox.PB) (w : Rat) : Except Err PBox.PB := do
  let im ← sliceImages pv levels t vars
  stacking pv (im.map Prod.fst) (im.map Prod.snd) (List.replicate im.length w)

/-- `interval_monte_carlo(vars, func, "direct", n_sam, dependency)` given the level rows the dependency object drew
(`dependency.u_sample(n_sam, random_state)`): the rows are an INPUT, the same for every run of a pair -/
def imc (pv : List Rat) (rows : List (List Rat)) (t : ITree) (vars : List PBox.PB) (w : Rat) : Except Err PBox.PB := do
  let im ← rowImages pv rows t vars
  stacking pv (im.map Prod.fst) (im.map Prod.snd) (List.replicate im.length w)

end Pun.Iso
