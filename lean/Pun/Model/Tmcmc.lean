import Pun.Model.Proto
/-!
# Model of `calibration/tmcmc.py` (C19)

* `loopO` / `computeBeta` : the bisection of `compute_beta_update_evidence` on the tempering
  exponent.  The effective sample size is an *oracle* `ess : Rat → Ans` queried at the exponent
  tried (its value needs `exp`, so it is supplied by the harness); the oracle may be partial
  (`need`) — the driver then asks the harness for that point — or undefined (`nan`, where
  `int(nan)` raises `ValueError`).
* `weights`, `evidenceArg` : `Wm / sum(Wm)` and the argument of the `log` of the evidence update.
* `mhStep` / `mhRun` : `MCMC_MH` over explicit proposal records and an explicit stream of
  log-uniforms.  Non-finite floats (`-inf`, `nan`, `+inf`) are collapsed to `none`
  (`np.isfinite` is the only test the code applies to them).
* `retemper`, `resample`, `stage`, `runStages` : skeleton of the stage loop of `run_tmcmc_updated`.
-/
namespace Pun.Tmcmc

/-- literal constants of `compute_beta_update_evidence` -/
structure Consts where
  maxBeta : Rat   -- `max_beta = 2.0`
  frac : Rat      -- `0.95 * prev_ESS`
  floor : Rat     -- `max(…, 50)`
  tol : Rat       -- `while max_beta - min_beta > 1e-8`
  deriving DecidableEq, Repr

def consts : Consts := ⟨2, 19/20, 50, 1/100000000⟩

/-- `rN = max(0.95 * prev_ESS, 50)` -/
def rN (c : Consts) (prev : Rat) : Rat := max (c.frac * prev) c.floor

/-- answer of the ESS oracle at one exponent -/
inductive Ans where
  | need            -- not known yet (driver asks the harness)
  | nan             -- `1/np.sum(Wm_n**2)` is NaN : `int(nan)` raises ValueError
  | val (e : Rat)   -- `ESS = int(1/np.sum(Wm_n**2))`
  deriving DecidableEq, Repr

/-- outcome of the `while` loop -/
inductive Out where
  | need (β : Rat)
  | raise
  | done (β : Rat) (e : Rat)
  deriving DecidableEq, Repr

/-- the `while max_beta - min_beta > tol` loop, with fuel; `(nb, e)` are the last `new_beta`, `ESS` -/
def loopO (ess : Rat → Ans) (rN tol : Rat) : Nat → Rat → Rat → Rat → Rat → Out
  | 0, _, _, nb, e => .done nb e
  | f + 1, mn, mx, nb, e =>
    if tol < mx - mn then
      let nb' := (mx + mn) / 2
      match ess nb' with
      | .need => .need nb'
      | .nan => .raise
      | .val e' =>
        if e' = rN then .done nb' e'
        else if e' < rN then loopO ess rN tol f mn nb' nb' e'
        else loopO ess rN tol f nb' mx nb' e'
    else .done nb e

def fuel : Nat := 64

/-- result of the bisection including the clamp `if new_beta >= 1: new_beta = 1` -/
inductive Res where
  | need (β : Rat)
  | raise (e : Err)
  | done (β : Rat) (ess : Rat) (clamped : Bool)
  deriving DecidableEq, Repr

/-- `compute_beta_update_evidence`, exponent part.  When the loop body never runs, `new_beta`
is unbound in the Python code (`UnboundLocalError`). -/
def computeBeta (c : Consts) (ess : Rat → Ans) (old prev : Rat) : Res :=
  if c.tol < c.maxBeta - old then
    match loopO ess (rN c prev) c.tol fuel old c.maxBeta old 0 with
    | .need b => .need b
    | .raise => .raise .Value
    | .done b e => if 1 ≤ b then .done 1 e true else .done b e false
  else .raise .Unbound

/-- oracle given by a finite table (the driver's instance) -/
def tableEss (tbl : List (Rat × Ans)) (b : Rat) : Ans :=
  match tbl.find? (fun p => p.1 = b) with
  | some p => p.2
  | none => .need

/-! ## weights and evidence -/

def sumL (l : List Rat) : Rat := l.foldr (· + ·) 0

/-- `Wm_n = Wm / sum(Wm)` -/
def weights (w : List Rat) : List Rat := w.map (· / sumL w)

/-- the argument of `np.log` in `log_evidence + np.log(sum(Wm) / N)` -/
def evidenceArg (w : List Rat) : Rat := sumL w / (w.length : Rat)

/-! ## Metropolis–Hastings kernel -/

/-- a float that is only ever tested with `np.isfinite`: `none` = `-inf`, `nan` or `+inf` -/
abbrev EV := Option Rat

def EV.add : EV → EV → EV
  | some a, some b => some (a + b)
  | _, _ => none

def EV.smul (β : Rat) : EV → EV
  | some a => some (a * β)
  | none => none

def EV.sub : EV → EV → EV
  | some a, some b => some (a - b)
  | _, _ => none

/-- one proposal as the code sees it: the point, its log-prior and — only read when the
log-prior is finite ("dont run the model") — its log-likelihood -/
structure Proposal where
  x : List Rat
  prior : EV
  lik : EV
  deriving DecidableEq, Repr

structure MState where
  x : List Rat
  lik : EV
  post : EV
  acc : Nat
  deriving DecidableEq, Repr

/-- `(likelihood_proposal, posterior_proposal)` -/
def propLP (β : Rat) (p : Proposal) : EV × EV :=
  match p.prior with
  | none => (none, none)
  | some pr => (p.lik, EV.add (some pr) (EV.smul β p.lik))

/-- `log_acceptance = posterior_proposal - posterior_current` -/
def logAcc (β : Rat) (s : MState) (p : Proposal) : EV := EV.sub (propLP β p).2 s.post

/-- the move made when the proposal is accepted -/
def accept (β : Rat) (s : MState) (p : Proposal) : MState :=
  { x := p.x, lik := (propLP β p).1, post := (propLP β p).2, acc := s.acc + 1 }

/-- one MH step; step code: 0 = log-prior not finite (likelihood not run), 1 = rejected,
2 = accepted.  `lus` is the stream of `np.log(np.random.uniform())` values; one is consumed
only when `log_acceptance` is finite (short-circuit `and`).  `none` = stream exhausted. -/
def mhStep (β : Rat) (s : MState) (p : Proposal) (lus : List Rat) : Option (MState × List Rat × Nat) :=
  match logAcc β s p with
  | none => some (s, lus, if p.prior.isSome then 1 else 0)
  | some la =>
    match lus with
    | [] => none
    | lu :: rest => if lu < la then some (accept β s p, rest, 2) else some (s, rest, 1)

/-- `Nm_steps` MH steps; returns final state, unused log-uniforms, step codes -/
def mhRun (β : Rat) : MState → List Proposal → List Rat → Option (MState × List Rat × List Nat)
  | s, [], lus => some (s, lus, [])
  | s, p :: ps, lus =>
    match mhStep β s p lus with
    | none => none
    | some (s', lus', c) =>
      match mhRun β s' ps lus' with
      | none => none
      | some (s'', lus'', cs) => some (s'', lus'', c :: cs)

/-! ## stage loop skeleton -/

structure Particle where
  x : List Rat
  lik : EV
  post : EV
  deriving DecidableEq, Repr

/-- `Postm = Postm + (beta - beta_old) * Lm` -/
def retemper (dβ : Rat) (p : Particle) : Particle :=
  { p with post := EV.add p.post (EV.smul dβ p.lik) }

/-- `Sm[SmcapIDs]`, `Lm[SmcapIDs]`, `Postm[SmcapIDs]` (an index out of range raises IndexError) -/
def resample (ps : List Particle) (ids : List Nat) : Option (List Particle) :=
  ids.mapM (fun i => ps[i]?)

structure Move where
  props : List Proposal
  lus : List Rat
  deriving DecidableEq, Repr

def mutate (β : Rat) (p : Particle) (m : Move) : Option (Particle × Nat) :=
  match mhRun β ⟨p.x, p.lik, p.post, 0⟩ m.props m.lus with
  | none => none
  | some (s, _, _) => some (⟨s.x, s.lik, s.post⟩, s.acc)

def mutateAll (β : Rat) : List Particle → List Move → Option (List (Particle × Nat))
  | [], [] => some []
  | p :: ps, m :: ms =>
    match mutate β p m, mutateAll β ps ms with
    | some r, some rs => some (r :: rs)
    | _, _ => none
  | _, _ => none

/-- what one pass of the `while beta < 1` body records and hands to the next pass:
`(Smcap-with-retempered-posteriors, Sm1)`; `N = ps.length` draws are required -/
def stage (β β' : Rat) (ps : List Particle) (ids : List Nat) (moves : List Move) :
    Option (List Particle × List (Particle × Nat)) :=
  if ids.length ≠ ps.length then none else
  match resample (ps.map (retemper (β' - β))) ids with
  | none => none
  | some cap =>
    match mutateAll β' cap moves with
    | none => none
    | some nxt => some (cap, nxt)

/-- input of one stage: the exponent chosen, the resampling indices and the MH streams -/
structure StageIn where
  beta : Rat
  ids : List Nat
  moves : List Move
  deriving DecidableEq, Repr

/-- the populations `Sm` recorded by successive stages (the trace), starting from `ps` at `β` -/
def runStages : Rat → List Particle → List StageIn → Option (List (List Particle))
  | _, ps, [] => some [ps]
  | β, ps, s :: ss =>
    match stage β s.beta ps s.ids s.moves with
    | none => none
    | some (_, nxt) =>
      match runStages s.beta (nxt.map (·.1)) ss with
      | none => none
      | some tr => some (ps :: tr)

/-! ## the whole `while beta < 1` loop: exponents chosen by the bisection -/

/-- oracle given by a finite table with keys matched up to `δ` (the harness's answers are keyed by
the exponents of a per-stage replay, which differ from the exponents of the whole-run replay by
binary64 rounding of the previous exponent) -/
def tableEssNear (δ : Rat) (tbl : List (Rat × Ans)) (b : Rat) : Ans :=
  match tbl.find? (fun p => decide (p.1 - b ≤ δ ∧ b - p.1 ≤ δ)) with
  | some p => p.2
  | none => .need

/-- what one pass of `while beta < 1` consumes: the ESS oracle of the stage's log-likelihoods, the
resampling indices, the MH streams -/
structure StageEnv where
  ess : Rat → Ans
  ids : List Nat
  moves : List Move

inductive RunRes where
  | need (β : Rat)
  | raise (e : Err)
  /-- the recorded `(beta, Sm)` of every stage; `finished` = the loop condition `beta < 1` became false
  (then the last entry is the terminal `Stage(beta=1.0, Sm)`), otherwise the stage inputs ran out -/
  | ok (trace : List (Rat × List Particle)) (finished : Bool)

/-- `run_tmcmc_updated`: `beta`, `ESS` start at `β`, `prev`; every pass computes the new exponent with
`computeBeta`, re-tempers, resamples, mutates and records -/
def runLoop (c : Consts) : List StageEnv → Rat → Rat → List Particle → RunRes
  | [], β, _, ps => if β < 1 then .ok [] false else .ok [(1, ps)] true
  | e :: es, β, prev, ps =>
    if β < 1 then
      match computeBeta c e.ess β prev with
      | .need b => .need b
      | .raise err => .raise err
      | .done b' ess' _ =>
        match stage β b' ps e.ids e.moves with
        | none => .raise .Index
        | some (_, nxt) =>
          match runLoop c es b' ess' (nxt.map (·.1)) with
          | .ok tr fin => .ok ((b', ps) :: tr) fin
          | r => r
    else .ok [(1, ps)] true

end Pun.Tmcmc
