import Pun.Model.PBox
/-!
# Envelope / imposition of uncertain numbers (`pba/aggregation.py`) and `Pbox.__contains__`

`envelope(*l_uns)` : when every operand is an `Interval` (class-name test) the interval hull is
folded with `intervals.methods.env` and an `Interval` is returned; otherwise every operand is
converted (`operation.convert`, all conversions before the first combination) and
`Pbox.env` is folded from the left.  `imposition(*l_uns)` has no interval shortcut: convert, then
fold `Pbox.imp` from the left.  `Pbox.env` / `Pbox.imp` themselves are `Pun.PBox.env` / `Pun.PBox.imp`
of the shared model.

Operands carry the Python kind: scalar `Interval`, `Number`, an object that already is (or, for
`Distribution` / `DempsterShafer`, whose `to_pbox()` is — bounds supplied by the harness) a p-box,
a non-finite number (the variance interval built by `Interval.to_pbox` asserts), anything else
(`TypeError` in `convert`).
-/
namespace Pun.EnvImp
open Pun Pun.PBox

inductive Opnd where
  /-- scalar `Interval(lo, hi)` -/
  | ivl (lo hi : Rat)
  /-- `int` / `float` / numpy scalar : `Interval(c, c).to_pbox()` -/
  | num (c : Rat)
  /-- `Pbox` (returned as is) or the `to_pbox()` of a `Distribution` / `DempsterShafer` -/
  | box (p : PB)
  /-- `nan` / `inf` -/
  | nonfinite
  /-- str, list, ndarray, `UncertainNumber`, … -/
  | other
  deriving Repr, DecidableEq

def Opnd.isIvl : Opnd → Bool
  | .ivl _ _ => true
  | _ => false

/-- `Interval.to_pbox`: `Staircase(left=np.repeat(lo, steps), right=np.repeat(hi, steps))` -/
def ivlToPbox (steps : Nat) (lo hi : Rat) : Except Err PB :=
  mk steps false (List.replicate steps lo) (List.replicate steps hi)

/-- `operation.convert` -/
def convert (steps : Nat) : Opnd → Except Err PB
  | .ivl lo hi => ivlToPbox steps lo hi
  | .num c => ivlToPbox steps c c
  | .box p => .ok p
  | .nonfinite => .error .Assertion
  | .other => .error .Type

/-- `[convert(x) for x in l_uns]` : the first failing conversion raises -/
def convertAll (steps : Nat) : List Opnd → Except Err (List PB)
  | [] => .ok []
  | x :: xs => do
    let p ← convert steps x
    let ps ← convertAll steps xs
    .ok (p :: ps)

/-- `functools.reduce(f, xs)` for a partial binary `f` (no initial value: empty raises `TypeError`) -/
def reduceM {α : Type} (f : α → α → Except Err α) : List α → Except Err α
  | [] => .error .Type
  | x :: xs => xs.foldlM f x

def foldEnv (steps : Nat) (xs : List PB) : Except Err PB := reduceM (env steps) xs
def foldImp (steps : Nat) (xs : List PB) : Except Err PB := reduceM (imp steps) xs

/-- `intervals.methods.env` on two scalar intervals: `Interval(min lo, max hi)`; the constructor
asserts `lo ≤ hi` -/
def hull2 (x y : Rat × Rat) : Except Err (Rat × Rat) :=
  let a := min x.1 y.1
  let b := max x.2 y.2
  if a ≤ b then .ok (a, b) else .error .Assertion

def Opnd.ends? : Opnd → Option (Rat × Rat)
  | .ivl lo hi => some (lo, hi)
  | _ => none

/-- `(lo, hi)` of the `Interval` operands, in listing order -/
def ivlEnds (l : List Opnd) : List (Rat × Rat) := l.filterMap Opnd.ends?

/-- result of `envelope`: an `Interval` from the shortcut, else a p-box -/
inductive Res where
  | ivl (lo hi : Rat)
  | pb (p : PB)
  deriving Repr, DecidableEq

/-- `aggregation.envelope(*l_uns)` (default `output_type`) -/
def envelope (steps : Nat) (l : List Opnd) : Except Err Res :=
  if l.all Opnd.isIvl then do
    let e ← reduceM hull2 (ivlEnds l)
    .ok (.ivl e.1 e.2)
  else do
    let xs ← convertAll steps l
    let e ← foldEnv steps xs
    .ok (.pb e)

/-- `aggregation.imposition(*l_uns)` (default `output_type`) -/
def imposition (steps : Nat) (l : List Opnd) : Except Err PB := do
  let xs ← convertAll steps l
  foldImp steps xs

/-! ## containment -/

inductive Item where
  /-- `isinstance(item, Number)` -/
  | num (c : Rat)
  /-- any object exposing `.lo` / `.hi` (p-box, Interval, Distribution, DS structure) -/
  | obj (lo hi : Rat)
  /-- an object without `.lo` (ndarray, str, …) -/
  | noattr
  deriving Repr, DecidableEq

/-- `Pbox.__contains__` : support test `self.lo ≤ · ≤ self.hi`, `lo = left[0]`, `hi = right[-1]` -/
def containsP (p : PB) : Item → Except Err Bool
  | .num c => .ok (decide (lo p ≤ c) && decide (c ≤ hi p))
  | .obj l h => .ok (decide (lo p ≤ l) && decide (h ≤ hi p))
  | .noattr => .error .Attribute

/-- `Interval.__contains__` for a real item: `np.all((item >= lo) & (item <= hi))` -/
def containsINum (lo hi c : Rat) : Bool := decide (c ≥ lo) && decide (c ≤ hi)

/-- `Interval.__contains__` for a scalar `Interval` item: `item >= lo` is `item.lo >= lo`,
`item <= hi` is `item.hi <= hi` -/
def containsIIvl (lo hi l h : Rat) : Bool := decide (l ≥ lo) && decide (h ≤ hi)

/-- `lo` / `hi` attributes of a converted operand -/
def itemOf (p : PB) : Item := .obj (lo p) (hi p)

end Pun.EnvImp
