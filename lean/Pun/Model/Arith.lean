import Pun.Model.Proto
/-!
# C01 model: `pba/intervals/arithmetic.py` and the operator overloads of
`pba/intervals/number.py` (`__neg__` … `__rtruediv__`).

Everything is over exact rationals (`Rat`); rounding is not modelled.
`mulTable`/`divTable` transcribe the *scalar* branch, with its overlapping,
overwriting `if`s in source order (innermost `step` = first `if`).  The three
masked branches are regenerated from the source by the translator
(`Pun/Gen/ArithGen.lean`) and proved exact in `Props/C01Gen.lean`; in this
hand model they are `map`/`zipWith` of the scalar table.
-/
namespace Pun.Arith
open Pun

/-- one overwriting `if` of the source: a later guard that fires overwrites -/
def step (c : Prop) [Decidable c] (v : Rat × Rat) (r : Option (Rat × Rat)) : Option (Rat × Rat) :=
  if c then some v else r

def min4 (p q r s : Rat) : Rat := min (min p q) (min r s)
def max4 (p q r s : Rat) : Rat := max (max p q) (max r s)

/-- scalar branch of `multiply` (source order = innermost first); `none` = no guard fired -/
def mulTable (a b c d : Rat) : Option (Rat × Rat) :=
  step (b ≤ 0 ∧ d ≤ 0) (b*d, a*c) <|
  step (b ≤ 0 ∧ (c < 0 ∧ d > 0)) (a*d, a*c) <|
  step (b ≤ 0 ∧ c ≥ 0) (a*d, b*c) <|
  step ((a < 0 ∧ b > 0) ∧ d ≤ 0) (b*c, a*c) <|
  step ((a < 0 ∧ b > 0) ∧ (c < 0 ∧ d > 0)) (min4 (a*d) (b*c) (a*c) (b*d), max4 (a*c) (b*d) (a*d) (b*c)) <|
  step ((a < 0 ∧ b > 0) ∧ c ≥ 0) (a*d, b*d) <|
  step (a ≥ 0 ∧ d ≤ 0) (b*c, a*d) <|
  step (a ≥ 0 ∧ (c < 0 ∧ d > 0)) (b*c, b*d) <|
  step (a ≥ 0 ∧ c ≥ 0) (a*c, b*d) none

/-- the six overwriting cases of the scalar branch of `divide` (after the zero-straddle guard) -/
def divCore (a b c d : Rat) : Option (Rat × Rat) :=
  step (b ≤ 0 ∧ d ≤ 0) (b/c, a/d) <|
  step ((a < 0 ∧ b > 0) ∧ d ≤ 0) (b/d, a/d) <|
  step (a ≥ 0 ∧ d ≤ 0) (b/d, a/c) <|
  step (b ≤ 0 ∧ c ≥ 0) (a/c, b/d) <|
  step ((a < 0 ∧ b > 0) ∧ c > 0) (a/c, b/c) <|
  step (a ≥ 0 ∧ c > 0) (a/d, b/c) none

/-- scalar branch of `divide`; outer `none` = `ZeroDivisionError` -/
def divTable (a b c d : Rat) : Option (Option (Rat × Rat)) :=
  if c ≤ 0 ∧ d ≥ 0 then none else some (divCore a b c d)

/-! ## operands and shapes -/

/-- operand kinds the operators distinguish -/
inductive Opd where
  | I (lo hi : Rat)          -- Interval of shape ()
  | A (lo hi : List Rat)     -- Interval of shape (n,), flattened
  | N (x : Rat)              -- Python int / float
  | S (x : Rat)              -- numpy scalar (float64, int64)
  | V (xs : List Rat)        -- ndarray of shape (n,)
  | Z (x : Rat)              -- ndarray of shape ()
  | B (b : Bool)             -- Python bool (class name not in NUMERIC_TYPES)
  deriving Repr, Inhabited

inductive BinOp where | add | sub | mul | div deriving DecidableEq, Repr

/-- shaped pair of bound arrays: `none` length = shape (), `some n` = shape (n,) -/
structure IV where
  sh : Option Nat
  lo : List Rat
  hi : List Rat
  deriving Repr

def IV.ofI (a b : Rat) : IV := ⟨none, [a], [b]⟩
def IV.ofA (l h : List Rat) : IV := ⟨some l.length, l, h⟩
def IV.scalar (x : IV) : Bool := x.sh == none || x.sh == some 1

/-- `Interval(lo, hi)` with `run_heavy_checks` -/
def mkIV (sh : Option Nat) (lo hi : List Rat) : Except Err Opd :=
  if (lo.zip hi).all (fun p => decide (p.1 ≤ p.2)) then
    match sh, lo, hi with
    | none, [a], [b] => .ok (.I a b)
    | _, _, _ => .ok (.A lo hi)
  else .error .Assertion

/-- numpy broadcasting of two 0/1-d shapes -/
def bshape : Option Nat → Option Nat → Except Err (Option Nat)
  | none, s => .ok s
  | s, none => .ok s
  | some n, some m => if n = m then .ok (some n) else if n = 1 then .ok (some m)
                      else if m = 1 then .ok (some n) else .error .Value

def bget (l : List Rat) (i : Nat) : Rat := if l.length = 1 then l.headD 0 else l.getD i 0

/-- elementwise binary numpy operation with broadcasting -/
def bzip (f : Rat → Rat → Rat) (sx : Option Nat) (x : List Rat) (sy : Option Nat) (y : List Rat) :
    Except Err (Option Nat × List Rat) := do
  let s ← bshape sx sy
  let n := s.getD 1
  return (s, (List.range n).map (fun i => f (bget x i) (bget y i)))

def opdIV : Opd → Option IV
  | .I a b => some (IV.ofI a b)
  | .A l h => some (IV.ofA l h)
  | _ => none

/-- `multiply(s, o)`: four shape branches, `Unbound` when none applies -/
def multiply (s o : IV) : Except Err (Option Nat × List (Option (Rat × Rat))) :=
  if s.scalar && o.scalar then do
    let sh ← bshape s.sh o.sh
    return (sh, [mulTable (s.lo.headD 0) (s.hi.headD 0) (o.lo.headD 0) (o.hi.headD 0)])
  else if s.sh == o.sh then
    .ok (s.sh, (List.range s.lo.length).map
      (fun i => mulTable (s.lo.getD i 0) (s.hi.getD i 0) (o.lo.getD i 0) (o.hi.getD i 0)))
  else if s.scalar then
    .ok (o.sh, (List.range o.lo.length).map
      (fun i => mulTable (s.lo.headD 0) (s.hi.headD 0) (o.lo.getD i 0) (o.hi.getD i 0)))
  else if o.scalar then
    .ok (s.sh, (List.range s.lo.length).map
      (fun i => mulTable (s.lo.getD i 0) (s.hi.getD i 0) (o.lo.headD 0) (o.hi.headD 0)))
  else .error .Unbound

def straddles (x : IV) : Bool := (x.lo.zip x.hi).any (fun p => decide (p.1 ≤ 0) && decide (p.2 ≥ 0))

def unopt : Option (Option (Rat × Rat)) → Option (Rat × Rat)
  | some r => r
  | none => none

/-- `divide(s, o)`: zero-straddle guard on the whole divisor first -/
def divide (s o : IV) : Except Err (Option Nat × List (Option (Rat × Rat))) :=
  if straddles o then .error .ZeroDivision else
  if s.scalar && o.scalar then do
    let sh ← bshape s.sh o.sh
    return (sh, [unopt (divTable (s.lo.headD 0) (s.hi.headD 0) (o.lo.headD 0) (o.hi.headD 0))])
  else if s.sh == o.sh then
    .ok (s.sh, (List.range s.lo.length).map
      (fun i => unopt (divTable (s.lo.getD i 0) (s.hi.getD i 0) (o.lo.getD i 0) (o.hi.getD i 0))))
  else if s.scalar then
    .ok (o.sh, (List.range o.lo.length).map
      (fun i => unopt (divTable (s.lo.headD 0) (s.hi.headD 0) (o.lo.getD i 0) (o.hi.getD i 0))))
  else if o.scalar then
    .ok (s.sh, (List.range s.lo.length).map
      (fun i => unopt (divTable (s.lo.getD i 0) (s.hi.getD i 0) (o.lo.headD 0) (o.hi.headD 0))))
  else .error .Unbound

def finishTable (r : Option Nat × List (Option (Rat × Rat))) : Except Err Opd :=
  match r.2.mapM id with
  | none => .error .Other          -- uninitialised `numpy.empty` cell / unbound local
  | some ps => mkIV r.1 (ps.map Prod.fst) (ps.map Prod.snd)

/-- number on the right of `*`: `other >= 0` keeps the order, else flips -/
def mulNum (s : IV) (x : Rat) : Except Err Opd :=
  if x ≥ 0 then mkIV s.sh (s.lo.map (· * x)) (s.hi.map (· * x))
  else mkIV s.sh (s.hi.map (· * x)) (s.lo.map (· * x))

/-- number on the right of `/` -/
def divNum (s : IV) (x : Rat) : Except Err Opd :=
  if x = 0 then .error .ZeroDivision
  else if x > 0 then mkIV s.sh (s.lo.map (· / x)) (s.hi.map (· / x))
  else mkIV s.sh (s.hi.map (· / x)) (s.lo.map (· / x))

/-- ndarray on the right of `*` or `/`: `numpy.where(other >= 0, …)` with broadcasting -/
def arrRight (isDiv : Bool) (s : IV) (vsh : Option Nat) (v : List Rat) : Except Err Opd :=
  if isDiv && v.any (· == 0) then .error .ZeroDivision else do
  let sh ← bshape s.sh vsh
  let n := sh.getD 1
  let cell := fun (i : Nat) =>
    let x := bget v i
    let q := fun (t : Rat) => if isDiv then t / x else t * x
    if (if isDiv then decide (x > 0) else decide (x ≥ 0)) then (q (bget s.lo i), q (bget s.hi i))
    else (q (bget s.hi i), q (bget s.lo i))
  let ps := (List.range n).map cell
  mkIV sh (ps.map Prod.fst) (ps.map Prod.snd)

/-- forward operator `self op other`, `self` an Interval -/
def forward (op : BinOp) (s : IV) (o : Opd) : Except Err Opd :=
  match op, o with
  | .add, .N x | .add, .S x | .add, .Z x => mkIV s.sh (s.lo.map (· + x)) (s.hi.map (· + x))
  | .sub, .N x | .sub, .S x | .sub, .Z x => mkIV s.sh (s.lo.map (· - x)) (s.hi.map (· - x))
  | .add, .V xs => do
      let (sh, lo) ← bzip (· + ·) s.sh s.lo (some xs.length) xs
      let (_, hi) ← bzip (· + ·) s.sh s.hi (some xs.length) xs
      mkIV sh lo hi
  | .sub, .V xs => do
      let (sh, lo) ← bzip (· - ·) s.sh s.lo (some xs.length) xs
      let (_, hi) ← bzip (· - ·) s.sh s.hi (some xs.length) xs
      mkIV sh lo hi
  | .add, .I a b => do
      let (sh, lo) ← bzip (· + ·) s.sh s.lo none [a]
      let (_, hi) ← bzip (· + ·) s.sh s.hi none [b]
      mkIV sh lo hi
  | .add, .A l h => do
      let (sh, lo) ← bzip (· + ·) s.sh s.lo (some l.length) l
      let (_, hi) ← bzip (· + ·) s.sh s.hi (some l.length) h
      mkIV sh lo hi
  | .sub, .I a b => do
      let (sh, lo) ← bzip (· - ·) s.sh s.lo none [b]
      let (_, hi) ← bzip (· - ·) s.sh s.hi none [a]
      mkIV sh lo hi
  | .sub, .A l h => do
      let (sh, lo) ← bzip (· - ·) s.sh s.lo (some l.length) h
      let (_, hi) ← bzip (· - ·) s.sh s.hi (some l.length) l
      mkIV sh lo hi
  | .add, .B _ => .error .Type
  | .sub, .B _ => .error .Type
  | .mul, .N x | .mul, .S x => mulNum s x
  | .mul, .Z x => arrRight false s none [x]
  | .mul, .V xs => arrRight false s (some xs.length) xs
  | .mul, .I a b => multiply s (IV.ofI a b) >>= finishTable
  | .mul, .A l h => multiply s (IV.ofA l h) >>= finishTable
  | .mul, .B _ => .error .Type
  | .div, .N x | .div, .S x => divNum s x
  | .div, .Z x => arrRight true s none [x]
  | .div, .V xs => arrRight true s (some xs.length) xs
  | .div, .I a b => divide s (IV.ofI a b) >>= finishTable
  | .div, .A l h => divide s (IV.ofA l h) >>= finishTable
  | .div, .B _ => .error .Type

/-- `x - self` for a scalar number `x` -/
def rsubNum (s : IV) (x : Rat) : Except Err Opd :=
  mkIV s.sh (s.hi.map (x - ·)) (s.lo.map (x - ·))

/-- `x / self` for a scalar number `x`: zero-straddle guard on `self`, sign of `x` picks the order -/
def rdivNum (s : IV) (x : Rat) : Except Err Opd :=
  if straddles s then .error .ZeroDivision
  else if x ≥ 0 then mkIV s.sh (s.hi.map (x / ·)) (s.lo.map (x / ·))
  else mkIV s.sh (s.lo.map (x / ·)) (s.hi.map (x / ·))

/-- reflected operator `left op self`, `left` not an Interval.  numpy scalars and
ndarrays reach the reflected methods through `__array_ufunc__`. -/
def reflected (op : BinOp) (l : Opd) (s : IV) : Except Err Opd :=
  match l with
  | .B _ => if op == .div && straddles s then .error .ZeroDivision else .error .Type
  | .I _ _ | .A _ _ => .error .Other
  | .N x | .S x | .Z x =>
    match op with
    | .add => forward .add s l
    | .mul => forward .mul s l
    | .sub => rsubNum s x
    | .div => rdivNum s x
  | .V v =>
    match op with
    | .add => forward .add s l
    | .mul => forward .mul s l
    | .sub => do
        let (sh, lo) ← bzip (· - ·) (some v.length) v s.sh s.hi
        let (_, hi) ← bzip (· - ·) (some v.length) v s.sh s.lo
        mkIV sh lo hi
    | .div =>
      if straddles s then .error .ZeroDivision else do
        let sh ← bshape (some v.length) s.sh
        let n := sh.getD 1
        let cell := fun (i : Nat) =>
          let x := bget v i
          if x ≥ 0 then (x / bget s.hi i, x / bget s.lo i) else (x / bget s.lo i, x / bget s.hi i)
        let ps := (List.range n).map cell
        mkIV sh (ps.map Prod.fst) (ps.map Prod.snd)

/-- the Python expression `l op r` where at least one side is an Interval -/
def binop (op : BinOp) (l r : Opd) : Except Err Opd :=
  match opdIV l, opdIV r with
  | some s, _ => forward op s r
  | none, some s => reflected op l s
  | none, none => .error .Other

def neg : Opd → Except Err Opd
  | .I a b => mkIV none [-b] [-a]
  | .A l h => mkIV (some l.length) (h.map (- ·)) (l.map (- ·))
  | _ => .error .Other

end Pun.Arith
