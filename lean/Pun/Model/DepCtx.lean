import Pun.Model.Proto
/-!
# C16 — the ambient dependency setting (`pba/context.py`, operators of `pba/pbox_abc.py`)

`_current_dependency = ContextVar("current_dependency", default="f")`,
`dependency(d)` = `token = set(d); try: yield; finally: reset(token)`.

A context (one thread, or one asyncio task) is its current value plus the
tokens of the blocks that are still open.  A token stores the value that was
in force when its block was entered (`contextvars` semantics: `reset(token)`
puts `token.old_value` back, whatever happened in between; an unset variable
reads as the default `"f"`, so "unset" and `"f"` are the same observation).
A new thread starts with an empty context (default `f`); an asyncio task (and
`asyncio.to_thread`) starts from a *copy* of the creating context.

The bare operators are `method ∘ get` (`__add__ = self.add(other,
dependency=get_current_dependency())`, …) and the methods dispatch on the
code with `match`: `add` has `case _: raise ValueError`, `mul` and `pow` have
no default case and fail with `UnboundLocalError` on `nleft`.
-/
namespace Pun.DepCtx
open Pun

/-- dependency codes: the four the dispatch knows, and anything else -/
inductive Code where
  | f | p | o | i
  | unk (tag : Nat)
  deriving DecidableEq, Repr, Inhabited

def Code.known : Code → Bool
  | .unk _ => false
  | _ => true

/-- operators: `x+y x-y x*y x/y x**y`, the reflected `y.__radd__(x) y.__rsub__(x) y.__rmul__(x)`, and `powD`:
`D ** y` with a `Distribution` on the left (`Distribution.__pow__`, pba/distributions.py) -/
inductive Op where
  | add | sub | mul | div | pow | radd | rsub | rmul | powD
  deriving DecidableEq, Repr

inductive Branch where
  | frechet | perfect | opposite | independent
  deriving DecidableEq, Repr

/-- family of low-level routine (`*_op(·,·,operator.add)` then sort; `frechet_pbox_mul` / `*_op(·,·,mul)`; `*_op(·,·,operator.pow)` then sort) -/
inductive Fam where
  | add | mul | pow
  deriving DecidableEq, Repr

/-- operand handed to the routine: `x`, `y`, `-y`, `1/y` -/
inductive Arg where
  | x | y | negY | recY
  deriving DecidableEq, Repr

/-- what an explicit method ends up calling -/
structure Call where
  fam : Fam
  a : Arg
  b : Arg
  br : Branch
  deriving DecidableEq, Repr

/-- `sub` and `div` exchange `p` and `o` before delegating to `add` / `mul` -/
def swapPO : Code → Code
  | .p => .o
  | .o => .p
  | c => c

/-- `match dependency` of `add` (pbox_abc.py:1403-1413): has `case _: raise ValueError` -/
def addDispatch : Code → Except Err Branch
  | .f => .ok .frechet
  | .p => .ok .perfect
  | .o => .ok .opposite
  | .i => .ok .independent
  | .unk _ => .error .Value

/-- `match dependency` of `mul` (pbox_abc.py:1440-1449): no default case, `nleft` is unbound afterwards -/
def mulDispatch : Code → Except Err Branch
  | .f => .ok .frechet
  | .p => .ok .perfect
  | .o => .ok .opposite
  | .i => .ok .independent
  | .unk _ => .error .Unbound

/-- `match dependency` of `pow` (the four `*_op(·,·,operator.pow)` routines, then sort): no default case either -/
def powDispatch : Code → Except Err Branch
  | .f => .ok .frechet
  | .p => .ok .perfect
  | .o => .ok .opposite
  | .i => .ok .independent
  | .unk _ => .error .Unbound

/-- the explicit methods `x.add(y,d) x.sub(y,d) x.mul(y,d) x.div(y,d) x.pow(y,d)` for p-box operands,
and the bodies of the reflected operators with the code they pass on -/
def method (op : Op) (d : Code) : Except Err Call :=
  match op with
  | .add => (addDispatch d).map (Call.mk .add .x .y)
  | .sub => (addDispatch (swapPO d)).map (Call.mk .add .x .negY)
  | .mul => (mulDispatch d).map (Call.mk .mul .x .y)
  | .div => (mulDispatch (swapPO d)).map (Call.mk .mul .x .recY)
  | .pow => (powDispatch d).map (Call.mk .pow .x .y)
  | .radd => (addDispatch d).map (Call.mk .add .y .x)
  | .rsub => (addDispatch d).map (Call.mk .add .negY .x)
  | .rmul => (mulDispatch d).map (Call.mk .mul .y .x)
  | .powD => (powDispatch d).map (Call.mk .pow .x .y)      -- the explicit method behind `D ** y` is `pow`

/-- events of one context -/
inductive Ev where
  | enter (d : Code)        -- `with dependency(d):`  → `token = set(d)`
  | exit                    -- block left normally / by `return`        → `finally: reset(token)`
  | raise                   -- an exception propagates through the block → `finally: reset(token)`
  | genClose                -- the generator suspended in the block is closed / returns / is thrown into
  | exitAt (k : Nat)        -- NOT nesting: the block `k` levels below the innermost one is left first
  | get                     -- `get_current_dependency()`
  | arith (op : Op)         -- a bare operator on two p-boxes
  | closeOther              -- closing a generator whose block was entered by ANOTHER context: `reset(token)` raises
                            -- ValueError there ("created in a different Context"); the closer's context is untouched
  | call (op : Op) (d : Code)   -- an EXPLICIT method `x.op(y, dependency=d)`: the ambient setting plays no role
  | spawnThread (child : Nat)   -- `threading.Thread(...).start()`
  | spawnTask (child : Nat)     -- `asyncio.create_task(...)` / `asyncio.to_thread(...)`
  deriving DecidableEq, Repr

/-- one context: current value and the tokens (values to restore) of the open blocks, innermost first -/
structure Ctx where
  cur : Code
  toks : List Code
  deriving DecidableEq, Repr

/-- the context of a fresh thread -/
def Ctx.init : Ctx := ⟨.f, []⟩

def get (c : Ctx) : Code := c.cur

/-- leave the block `k` levels below the innermost: its token's value comes back, the other tokens stay -/
def leaveAt (c : Ctx) (k : Nat) : Option Ctx :=
  match c.toks[k]? with
  | none => none
  | some t => some ⟨t, c.toks.eraseIdx k⟩

def leave (c : Ctx) : Option Ctx :=
  match c.toks with
  | [] => none
  | t :: ts => some ⟨t, ts⟩

def stepCtx (c : Ctx) : Ev → Option Ctx
  | .enter d => some ⟨d, c.cur :: c.toks⟩
  | .exit => leave c
  | .raise => leave c
  | .genClose => leave c
  | .exitAt k => leaveAt c k
  | .get => some c
  | .arith _ => some c
  | .call _ _ => some c
  | .closeOther => some c
  | .spawnThread _ => some c
  | .spawnTask _ => some c

/-- the context after a history (`none`: a block is left that was never entered — cannot be written in Python) -/
def run (c : Ctx) : List Ev → Option Ctx
  | [] => some c
  | e :: es => (stepCtx c e).bind (fun c' => run c' es)

/-- the operator is the method applied to the value read at call time.  Every operator of `Pbox`, `Distribution`
(incl. `Distribution.__pow__` since 449c733; it passed the literal `"f"` before) and of the Dempster-Shafer mixin
converts its operands to p-boxes and ends in the p-box method with `get_current_dependency()`, so the operand
kinds do not appear here. -/
def operator (op : Op) (c : Ctx) : Except Err Call := method op (get c)

/-- what the harness records after an event: `get_current_dependency()`, and for `arith` the outcome -/
structure Obs where
  code : Code
  res : Option (Except Err Call)

/-- observation made in context `c` (the context *after* the event `e`) -/
def obsOf (c : Ctx) : Ev → Obs
  | .arith op => ⟨get c, some (operator op c)⟩
  | .call op d => ⟨get c, some (method op d)⟩
  | _ => ⟨get c, none⟩

def trace (c : Ctx) : List Ev → Option (List Obs)
  | [] => some []
  | e :: es =>
    match stepCtx c e with
    | none => none
    | some c' => (trace c' es).map (fun r => obsOf c' e :: r)

/-! ### several threads / tasks: one context each -/

abbrev World := Nat → Ctx

def World.init : World := fun _ => Ctx.init

def upd (w : World) (t : Nat) (c : Ctx) : World := fun t' => if t' = t then c else w t'

def stepW (w : World) (t : Nat) : Ev → Option World
  | .spawnThread ch => if ch = t then none else some (upd w ch Ctx.init)
  | .spawnTask ch => if ch = t then none else some (upd w ch ⟨(w t).cur, []⟩)
  | e => (stepCtx (w t) e).map (upd w t)

def runW (w : World) : List (Nat × Ev) → Option World
  | [] => some w
  | (t, e) :: es => (stepW w t e).bind (fun w' => runW w' es)

/-- the observations of a schedule, tagged by the acting thread, in schedule order -/
def traceW (w : World) : List (Nat × Ev) → Option (List (Nat × Obs))
  | [] => some []
  | (t, e) :: es =>
    match stepW w t e with
    | none => none
    | some w' => (traceW w' es).map (fun r => (t, obsOf (w' t) e) :: r)

/-! ### manager objects that are built before they are entered

`mgr = dependency(d)` only creates an object (for `contextlib.contextmanager` the generator has not even
started): nothing happens to the context and nothing is read from it.  `set(d)` — and with it the capture of the
value to restore — happens when the manager is ENTERED: by `with mgr:`, by `mgr.__enter__()`, by
`ExitStack.enter_context(mgr)`, or by calling a function decorated with `@dependency(d)` (the decorator re-creates
the manager at each call).  Manager objects are ordinary Python objects: one built in one thread can be entered in
another, so the store of built managers belongs to the whole world, not to a context. -/

inductive EvM where
  | base (e : Ev)
  | build (m : Nat) (d : Code)   -- `mgr_m = dependency(d)`
  | enterM (m : Nat)             -- deferred entry of `mgr_m`
  deriving DecidableEq, Repr

abbrev Store := List (Nat × Code)

/-- a history with deferred entries is the history in which every `enterM m` is an `enter` with the code given when
`m` was built, and every `build` is an observation only (`none`: a manager is entered that was never built) -/
def resolveH (st : Store) : List EvM → Option (List Ev)
  | [] => some []
  | .base e :: es => (resolveH st es).map (fun r => e :: r)
  | .build m d :: es => (resolveH ((m, d) :: st) es).map (fun r => Ev.get :: r)
  | .enterM m :: es =>
    match st.lookup m with
    | none => none
    | some d => (resolveH st es).map (fun r => Ev.enter d :: r)

/-- the same on a schedule: the store is shared by all threads -/
def resolve (st : Store) : List (Nat × EvM) → Option (List (Nat × Ev))
  | [] => some []
  | (t, .base e) :: es => (resolve st es).map (fun r => (t, e) :: r)
  | (t, .build m d) :: es => (resolve ((m, d) :: st) es).map (fun r => (t, Ev.get) :: r)
  | (t, .enterM m) :: es =>
    match st.lookup m with
    | none => none
    | some d => (resolve st es).map (fun r => (t, Ev.enter d) :: r)

/-- what the driver executes -/
def traceWM (w : World) (es : List (Nat × EvM)) : Option (List (Nat × Obs)) :=
  (resolve [] es).bind (traceW w)

end Pun.DepCtx
