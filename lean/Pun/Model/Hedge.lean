import Pun.Model.Proto
/-!
# C20 — significant digits and hedged numerals (import-free)

Anchors: `characterisation/utils.py sgnumber`, `nlp/language_parsing.py hedge_interpret,
decipher_d`.  Numerals are modelled in *tokenised* form; splitting the string at `e` and `.`
(`str.split`, `strip`, `lower`, `float`, `int`, `Decimal`) is glue validated by the tie.
The square root of the `count` hedge is supplied by the harness.
-/
namespace Pun.Hedge

def pow10 (e : Int) : Rat :=
  if 0 ≤ e then ((10 ^ e.toNat : Nat) : Rat) else 1 / ((10 ^ (-e).toNat : Nat) : Rat)

/-- a decimal numeral as written: sign, integer digits, fraction digits (most significant
first), whether a decimal point is written, optional exponent -/
structure Numeral where
  neg : Bool
  int : List Nat
  frac : List Nat
  hasDot : Bool
  exp : Option Int
  deriving DecidableEq, Repr, Inhabited

def digitsVal (ds : List Nat) : Nat := ds.foldl (fun a d => 10 * a + d) 0

namespace Numeral
def e (ν : Numeral) : Int := ν.exp.getD 0
/-- magnitude: all digits read as a natural number, scaled -/
def mag (ν : Numeral) : Rat := (digitsVal (ν.int ++ ν.frac) : Rat) * pow10 (ν.e - ν.frac.length)
def val (ν : Numeral) : Rat := if ν.neg then - ν.mag else ν.mag
def negate (ν : Numeral) : Numeral := { ν with neg := !ν.neg }
/-- multiply by `10^n` by changing the exponent (the written digits stay) -/
def scale (ν : Numeral) (n : Int) : Numeral := { ν with exp := some (ν.e + n) }
/-- no fraction digits without a decimal point -/
def WF (ν : Numeral) : Prop := ν.hasDot = false → ν.frac = []
end Numeral

/-- `str.rstrip("0")` on the digit string -/
def rstrip0 (ds : List Nat) : List Nat := (ds.reverse.dropWhile (· == 0)).reverse

/-- `sgnumber`: `j` = number of fraction digits, or minus the number of trailing zeros of an
integer mantissa -/
def sgJ (ν : Numeral) : Int :=
  if ν.hasDot then (ν.frac.length : Int) else ((rstrip0 ν.int).length : Int) - (ν.int.length : Int)

/-- `pm = 10 ** (-j) * 10 ** int(tens) / 2` -/
def sgPm (ν : Numeral) : Rat := pow10 (-(sgJ ν)) * pow10 ν.e / 2

def sgnumber (ν : Numeral) : Rat × Rat := (ν.val - sgPm ν, ν.val + sgPm ν)

/-! ## hedges -/
inductive EB where | ninf | fin (r : Rat) | pinf
  deriving DecidableEq, Repr, Inhabited

structure Ivl where
  lo : EB
  hi : EB
  deriving DecidableEq, Repr, Inhabited

/-- the right-hand sides of the `match kwd` statement -/
inductive Form where
  | sym (k : Rat) (j : Nat)   -- I.from_meanform(x, k * 10 ** (-(d + j)))
  | left (k : Rat)            -- I(x - k * 10 ** (-d), x)
  | right (k : Rat)           -- I(x, x + k * 10 ** (-d))
  | atMost                    -- I(-inf, x)
  | atLeast                   -- I(x, inf)
  | count                     -- I.from_meanform(x, sqrt(|x|))
  | order (a b : Rat)         -- I(x / a, b * x)
  | text                      -- the branch returns a string, not an interval
  deriving DecidableEq, Repr, Inhabited

/-- `decipher_d` on the written numeral: minus the decimal exponent of the last written digit -/
def decipherD (ν : Numeral) : Int := (ν.frac.length : Int) - ν.e

def hedgeForm (f : Form) (ν : Numeral) (sq : Rat) : Option Ivl :=
  let x := ν.val
  let d := decipherD ν
  match f with
  | .sym k j => some ⟨.fin (x - k * pow10 (-(d + j))), .fin (x + k * pow10 (-(d + j)))⟩
  | .left k => some ⟨.fin (x - k * pow10 (-d)), .fin x⟩
  | .right k => some ⟨.fin x, .fin (x + k * pow10 (-d))⟩
  | .atMost => some ⟨.ninf, .fin x⟩
  | .atLeast => some ⟨.fin x, .pinf⟩
  | .count => some ⟨.fin (x - sq), .fin (x + sq)⟩
  | .order a b => if a = 0 then none else some ⟨.fin (x / a), .fin (b * x)⟩
  | .text => none

def lookup (tbl : List (String × Form)) (kw : String) : Option Form :=
  match tbl with
  | [] => none
  | (k, f) :: rest => if k = kw then some f else lookup rest kw

/-- `hedge_interpret` for a keyword of the table; `none` = not an interval (string result) -/
def hedge (tbl : List (String × Form)) (kw : String) (ν : Numeral) (sq : Rat) : Option Ivl :=
  match lookup tbl kw with
  | some f => hedgeForm f ν sq
  | none => none

/-- the `Interval` constructor asserts `lo ≤ hi` -/
def checked : Option Ivl → Except Err (Option Ivl)
  | some ⟨.fin a, .fin b⟩ => if a ≤ b then .ok (some ⟨.fin a, .fin b⟩) else .error .Assertion
  | o => .ok o

end Pun.Hedge
