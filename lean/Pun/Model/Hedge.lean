import Pun.Model.Proto
/-!
# C20 — significant digits and hedged numerals (import-free)

Anchors: `characterisation/utils.py sgnumber`, `nlp/language_parsing.py hedge_interpret,
decipher_d`.  Numerals are modelled in *tokenised* form; splitting the string at `e` and `.`
(`str.split`, `strip`, `lower`, `float`, `int`, `Decimal`) is glue validated by the tie.
The square root of the `count` hedge is supplied by the harness.
-/
namespace Pun.Hedge

def pow10 (e : Int) : Rat :=
  if 0 ≤ e then ((10 ^ e.toNat : Nat) : Rat) else 1 / ((10 ^ (-e).toNat : Nat) : Rat)

/-- a decimal numeral as written: sign, integer digits, fraction digits (most significant
first), whether a decimal point is written, optional exponent -/
structure Numeral where
  neg : Bool
  int : List Nat
  frac : List Nat
  hasDot : Bool
  exp : Option Int
  deriving DecidableEq, Repr, Inhabited

def digitsVal (ds : List Nat) : Nat := ds.foldl (fun a d => 10 * a + d) 0

namespace Numeral
def e (ν : Numeral) : Int := ν.exp.getD 0
/-- magnitude: all digits read as a natural number, scaled -/
def mag (ν : Numeral) : Rat := (digitsVal (ν.int ++ ν.frac) : Rat) * pow10 (ν.e - ν.frac.length)
def val (ν : Numeral) : Rat := if ν.neg then - ν.mag else ν.mag
def negate (ν : Numeral) : Numeral := { ν with neg := !ν.neg }
/-- multiply by `10^n` by changing the exponent (the written digits stay) -/
def scale (ν : Numeral) (n : Int) : Numeral := { ν with exp := some (ν.e + n) }
/-- no fraction digits without a decimal point -/
def WF (ν : Numeral) : Prop := ν.hasDot = false → ν.frac = []
end Numeral

/-! ## characters: how a numeral is written and read

`render` writes the tokenised numeral the way the harness hands it to Python (no `+`, lower-case
`e`); `parse` reads a string the way `sgnumber` / `Decimal` do after `strip().lower()`: split once
at `e`, optional sign, split once at `.`, decimal digits, optional signed exponent.
`Pun.Props.C20` proves `parse (render ν) = some ν`. -/

def digitChar (d : Nat) : Char := Char.ofNat (48 + d)

def natDigitsAux : Nat → Nat → List Nat → List Nat
  | 0, _, acc => acc
  | fuel + 1, n, acc => if n < 10 then n :: acc else natDigitsAux fuel (n / 10) (n % 10 :: acc)

/-- decimal digits of a natural number, most significant first -/
def natDigits (n : Nat) : List Nat := natDigitsAux (n + 1) n []

def renderInt (e : Int) : List Char :=
  (if e < 0 then ['-'] else []) ++ (natDigits e.natAbs).map digitChar

def render (ν : Numeral) : List Char :=
  (if ν.neg then ['-'] else []) ++ ν.int.map digitChar ++
  (if ν.hasDot then '.' :: ν.frac.map digitChar else []) ++
  (match ν.exp with | none => [] | some e => 'e' :: renderInt e)

/-- `str.split(c, 1)` -/
def splitOnce (c : Char) : List Char → List Char × Option (List Char)
  | [] => ([], none)
  | x :: xs => if x = c then ([], some xs) else
      let r := splitOnce c xs
      (x :: r.1, r.2)

def charDigit (c : Char) : Option Nat :=
  if '0' ≤ c ∧ c ≤ '9' then some (c.toNat - 48) else none

def parseDigits (s : List Char) : Option (List Nat) := s.mapM charDigit

/-- optional sign: (negative?, rest) -/
def parseSign : List Char → Bool × List Char
  | '-' :: r => (true, r)
  | '+' :: r => (false, r)
  | r => (false, r)

/-- `int(text)` for an optionally signed non-empty decimal digit string -/
def parseIntC (s : List Char) : Option Int :=
  let (ng, body) := parseSign s
  if body = [] then none else
  (parseDigits body).map (fun ds => if ng then - (digitsVal ds : Int) else (digitsVal ds : Int))

def parse (s : List Char) : Option Numeral :=
  let (mant, ex) := splitOnce 'e' (s.map Char.toLower)
  let (ng, body) := parseSign mant
  let (ip, fp) := splitOnce '.' body
  match parseDigits ip, (match fp with | none => some [] | some x => parseDigits x),
        (match ex with | none => some none | some x => (parseIntC x).map some) with
  | some i, some f, some e => if i = [] ∧ f = [] then none else some ⟨ng, i, f, fp.isSome, e⟩
  | _, _, _ => none

/-- `str.rstrip("0")` on the digit string -/
def rstrip0 (ds : List Nat) : List Nat := (ds.reverse.dropWhile (· == 0)).reverse

/-- `sgnumber`: `j` = number of fraction digits, or minus the number of trailing zeros of an
integer mantissa -/
def sgJ (ν : Numeral) : Int :=
  if ν.hasDot then (ν.frac.length : Int) else ((rstrip0 ν.int).length : Int) - (ν.int.length : Int)

/-- `pm = 10 ** (-j) * 10 ** int(tens) / 2` -/
def sgPm (ν : Numeral) : Rat := pow10 (-(sgJ ν)) * pow10 ν.e / 2

def sgnumber (ν : Numeral) : Rat × Rat := (ν.val - sgPm ν, ν.val + sgPm ν)

/-! ## hedges -/
inductive EB where | ninf | fin (r : Rat) | pinf
  deriving DecidableEq, Repr, Inhabited

structure Ivl where
  lo : EB
  hi : EB
  deriving DecidableEq, Repr, Inhabited

/-- the right-hand sides of the `match kwd` statement -/
inductive Form where
  | sym (k : Rat) (j : Nat)   -- I.from_meanform(x, k * 10 ** (-(d + j)))
  | left (k : Rat)            -- I(x - k * 10 ** (-d), x)
  | right (k : Rat)           -- I(x, x + k * 10 ** (-d))
  | atMost                    -- I(-inf, x)
  | atLeast                   -- I(x, inf)
  | count                     -- I.from_meanform(x, sqrt(|x|))
  | order (a b : Rat)         -- I(x / a, b * x)
  | text                      -- the branch returns a string, not an interval
  deriving DecidableEq, Repr, Inhabited

/-- `decipher_d` on the written numeral: minus the decimal exponent of the last written digit -/
def decipherD (ν : Numeral) : Int := (ν.frac.length : Int) - ν.e

def hedgeForm (f : Form) (ν : Numeral) (sq : Rat) : Option Ivl :=
  let x := ν.val
  let d := decipherD ν
  match f with
  | .sym k j => some ⟨.fin (x - k * pow10 (-(d + j))), .fin (x + k * pow10 (-(d + j)))⟩
  | .left k => some ⟨.fin (x - k * pow10 (-d)), .fin x⟩
  | .right k => some ⟨.fin x, .fin (x + k * pow10 (-d))⟩
  | .atMost => some ⟨.ninf, .fin x⟩
  | .atLeast => some ⟨.fin x, .pinf⟩
  | .count => some ⟨.fin (x - sq), .fin (x + sq)⟩
  | .order a b => if a = 0 then none else some ⟨.fin (x / a), .fin (b * x)⟩
  | .text => none

def lookup (tbl : List (String × Form)) (kw : String) : Option Form :=
  match tbl with
  | [] => none
  | (k, f) :: rest => if k = kw then some f else lookup rest kw

/-- `hedge_interpret` for a keyword of the table; `none` = not an interval (string result) -/
def hedge (tbl : List (String × Form)) (kw : String) (ν : Numeral) (sq : Rat) : Option Ivl :=
  match lookup tbl kw with
  | some f => hedgeForm f ν sq
  | none => none

/-- the `Interval` constructor asserts `lo ≤ hi` -/
def checked : Option Ivl → Except Err (Option Ivl)
  | some ⟨.fin a, .fin b⟩ => if a ≤ b then .ok (some ⟨.fin a, .fin b⟩) else .error .Assertion
  | o => .ok o

end Pun.Hedge
