import Pun.Model.Proto
/-!
# C09 model: parametric p-boxes (`pba/pbox_parametric.py`)

* `parseParam`   — `wc_scalar_interval` on a number / list / tuple / Interval
  (`Interval(*bound)`: one element = point, two = checked interval, three =
  the third is `do_heavy_checks`, anything else `TypeError`);
* `corners`      — `itertools.product` of the `[lo, hi]` pairs (first parameter slowest);
* `colMin/colMax`— `np.min(bounds, axis=0)`, `np.max(bounds, axis=0)`;
* `pboxInit`     — `Pbox.__init__` (`left_right_switch`, length assert, `is_increasing`);
* `parametric`   — `_parametric_bounds_array` + `Leaf(...)` (positional and keyword
  parameters, the latter after the `fix:` that keeps the positional ones);
* `uniform`, `exponentialByLambda` — the two bespoke constructors (with the
  analytic moment intervals of the `fix:` commits).

The values of scipy's `ppf`/`stats` at the corners are NOT computed here: they
arrive as a table `corner ↦ (row, mean, var)` (`none` = scipy answered NaN for
that corner, i.e. invalid parameters).  Rounding is not modelled.
-/
namespace Pun.Param
open Pun

/-- a parameter as handed to a constructor -/
inductive PSpec where
  | num (x : Rat)            -- int / float / numpy scalar / bool
  | seq (xs : List Rat)      -- list or tuple  ⇒ `Interval(*xs)`
  | ivl (lo hi : Rat)        -- a scalar `Interval` object
  | other                    -- None, ndarray, dict, … ⇒ `TypeError`
  deriving Repr, Inhabited

/-- an `Interval` object; `checked = false` when built with `do_heavy_checks` falsy
    (no `lo ≤ hi` assertion, and no `shape` attribute) -/
structure PIv where
  lo : Rat
  hi : Rat
  checked : Bool
  deriving Repr, Inhabited, DecidableEq

def mkInterval (a b : Rat) : Except Err PIv :=
  if a ≤ b then .ok ⟨a, b, true⟩ else .error .Assertion

/-- `wc_scalar_interval` -/
def parseParam : PSpec → Except Err PIv
  | .num x => .ok ⟨x, x, true⟩
  | .seq [] => .error .Type
  | .seq [x] => .ok ⟨x, x, true⟩
  | .seq [a, b] => mkInterval a b
  | .seq [a, b, c] => if c ≠ 0 then mkInterval a b else .ok ⟨a, b, false⟩
  | .seq _ => .error .Type
  | .ivl lo hi => .ok ⟨lo, hi, true⟩
  | .other => .error .Type

/-- list comprehension `[wc_scalar_interval(b) for b in args]`: first failure wins -/
def parseParams : List PSpec → Except Err (List PIv)
  | [] => .ok []
  | p :: ps =>
    match parseParam p with
    | .error e => .error e
    | .ok i =>
      match parseParams ps with
      | .error e => .error e
      | .ok is => .ok (i :: is)

/-- `[i.to_numpy() for i in …]`: an unchecked interval has no shape ⇒ `AttributeError` -/
def toNumpy : List PIv → Except Err (List (Rat × Rat))
  | [] => .ok []
  | i :: is =>
    if i.checked then
      match toNumpy is with
      | .error e => .error e
      | .ok r => .ok ((i.lo, i.hi) :: r)
    else .error .Attribute

/-- `itertools.product(*[[lo, hi] …])`, first factor slowest -/
def corners : List (Rat × Rat) → List (List Rat)
  | [] => [[]]
  | (lo, hi) :: rest => (corners rest).map (lo :: ·) ++ (corners rest).map (hi :: ·)

/-- what scipy returns at one corner: the quantile row at the grid levels, mean, variance -/
structure Entry where
  row : List Rat
  mean : Rat
  var : Rat
  deriving Repr, Inhabited

abbrev Table := List (List Rat × Option Entry)

def lookup (t : Table) (c : List Rat) : Option (Option Entry) :=
  match t.find? (fun kv => kv.1 == c) with
  | some kv => some kv.2
  | none => none

/-- all corners looked up; `none` = the table lacks a corner (protocol error) -/
def lookupAll (t : Table) : List (List Rat) → Option (List (Option Entry))
  | [] => some []
  | c :: cs =>
    match lookup t c, lookupAll t cs with
    | some e, some es => some (e :: es)
    | _, _ => none

/-- `np.min(rows, axis=0)` for rows of equal length -/
def colMin : List (List Rat) → List Rat
  | [] => []
  | r :: rs => rs.foldl (fun acc s => List.zipWith min acc s) r

def colMax : List (List Rat) → List Rat
  | [] => []
  | r :: rs => rs.foldl (fun acc s => List.zipWith max acc s) r

/-- `np.all(left >= right)` -/
def allGe (l r : List Rat) : Bool := (List.zipWith (fun a b => decide (b ≤ a)) l r).all id

/-- `np.all(np.diff(arr) >= 0)` -/
def isIncreasing : List Rat → Bool
  | [] => true
  | [_] => true
  | a :: b :: t => decide (a ≤ b) && isIncreasing (b :: t)

/-- `np.any(left > right)` -/
def anyGt (l r : List Rat) : Bool := (List.zipWith (fun a b => decide (b < a)) l r).any id

/-- `post_init_check`: equal lengths (assert), both bounds increasing, bounds do not cross -/
def pboxCheck (l r : List Rat) : Except Err (List Rat × List Rat) :=
  if l.length ≠ r.length then .error .Assertion
  else if !(isIncreasing l && isIncreasing r) then .error .Other
  else if anyGt l r then .error .Other
  else .ok (l, r)

/-- `Pbox.__init__`: `left_right_switch` (exchange when `left ≥ right` everywhere), then the checks -/
def pboxInit (l r : List Rat) : Except Err (List Rat × List Rat) :=
  if allGe l r then pboxCheck r l else pboxCheck l r

/-- mean and variance intervals -/
structure Mom where
  meanLo : Rat
  meanHi : Rat
  varLo : Rat
  varHi : Rat
  deriving Repr, Inhabited, DecidableEq

/-- `mom = none`: the constructor was handed `mean = var = None` and derives the moments from
    the bounds itself (LP / ECDF estimate — not modelled) -/
structure Out where
  left : List Rat
  right : List Rat
  mom : Option Mom
  deriving Repr, Inhabited, DecidableEq

/-- the family's moments are used only when compatible with the discretised support `[lo, hi]`:
    means inside it, largest variance at most a quarter of its squared width -/
def momentsFit (lo hi mlo mhi vhi : Rat) : Bool :=
  decide (lo ≤ mlo) && decide (mhi ≤ hi) && decide (vhi ≤ (hi - lo) * (hi - lo) / 4)

/-- finite path of `_parametric_bounds_array` + `Leaf`: envelope of the rows, hull of the moments
    (when they fit `[Left[0], Right[-1]]`) -/
def boundsFin (es : List Entry) : Except Err Out :=
  let means := es.map (·.mean)
  let vars := es.map (·.var)
  let rows := es.map (·.row)
  let L := colMin rows
  let R := colMax rows
  match L.head?, R.getLast? with
  | some lo, some hi =>
    let mom : Option Mom :=
      if momentsFit lo hi (minL 0 means) (maxL 0 means) (maxL 0 vars)
      then some ⟨minL 0 means, maxL 0 means, minL 0 vars, maxL 0 vars⟩ else none
    match pboxInit L R with
    | .error e => .error e
    | .ok (l, r) => .ok ⟨l, r, mom⟩
  | _, _ => .error .Index

def allSome : List (Option Entry) → Option (List Entry)
  | [] => some []
  | none :: _ => none
  | some e :: t => (allSome t).map (e :: ·)

def bounds (es : List (Option Entry)) : Except Err Out :=
  match allSome es with
  | some fs => boundsFin fs
  | none => .error .Other   -- a NaN corner: moments not finite ⇒ `None`; the NaN envelope is "not increasing"

/-- the parameter box of a call: positional parameters, then keyword parameters
    (`[wc_scalar_interval(b) for b in args]`, the same for `kwargs.values()`, then `to_numpy`) -/
def boxOf (pos kw : List PSpec) : Except Err (List (Rat × Rat)) :=
  match parseParams pos with
  | .error e => .error e
  | .ok ip =>
    match parseParams kw with
    | .error e => .error e
    | .ok ik => toNumpy (ip ++ ik)

/-- `_bound_pcdf(family, *pos, **kw)`.  `sigOK` = scipy accepts this many positional
    parameters together with these keyword names (supplied by the harness).
    Outer `none` = the table lacks a corner. -/
def parametric (sigOK : Bool) (pos kw : List PSpec) (t : Table) : Option (Except Err Out) :=
  match boxOf pos kw with
  | .error e => some (.error e)
  | .ok box =>
    if !sigOK then some (.error .Type) else
    match lookupAll t (corners box) with
    | none => none
    | some es => some (bounds es)

/-! ## bespoke constructors -/

/-- `np.linspace(a, b, n)` (exact): `a + i·(b−a)/(n−1)` -/
def linspace (a b : Rat) (n : Nat) : List Rat :=
  (List.range n).map (fun (i : Nat) => a + (i : Rat) * ((b - a) / ((n : Rat) - 1)))

/-- `uniform(a, b)`: straight lines between the lower endpoints and between the upper
    endpoints; exact moment intervals of `U(a0,b0)` (mean `(a0+b0)/2`, variance `(b0−a0)²/12`) -/
def uniform (n : Nat) (pa pb : PSpec) : Except Err Out :=
  match parseParam pa with
  | .error e => .error e
  | .ok a =>
    match parseParam pb with
    | .error e => .error e
    | .ok b =>
      let mlo := (a.lo + b.lo) / 2
      let mhi := (a.hi + b.hi) / 2
      if ¬ mlo ≤ mhi then .error .Assertion else
      let wlo := max (b.lo - a.hi) 0
      let whi := b.hi - a.lo
      let vlo := wlo * wlo / 12
      let vhi := whi * whi / 12
      if ¬ vlo ≤ vhi then .error .Assertion else
      match pboxInit (linspace a.lo b.lo n) (linspace a.hi b.hi n) with
      | .error e => .error e
      | .ok (l, r) => .ok ⟨l, r, some ⟨mlo, mhi, vlo, vhi⟩⟩

/-- `Staircase(left=ra, right=rb)`; rows with NaN/inf (`none`) are never increasing -/
def staircaseO (ra rb : Option (List Rat)) : Except Err (List Rat × List Rat) :=
  match ra, rb with
  | some a, some b => pboxInit a b
  | _, _ => .error .Other

/-- `exponential_by_lambda(lamb)`: rows `ra = ppf(scale = 1/lo)`, `rb = ppf(scale = 1/hi)` from the
    wire; moment intervals `[1/hi, 1/lo]`, `[1/hi², 1/lo²]`; `try Staircase(ra, rb) except Staircase(rb, ra)` -/
def exponentialByLambda (p : PSpec) (ra rb : Option (List Rat)) : Except Err Out :=
  match parseParam p with
  | .error e => .error e
  | .ok i =>
    let lo := i.lo
    let hi := i.hi
    if 0 < lo ∧ 0 < hi then
      if ¬ 1 / hi ≤ 1 / lo then .error .Assertion
      else if ¬ 1 / (hi * hi) ≤ 1 / (lo * lo) then .error .Assertion
      else
        match staircaseO ra rb with
        | .ok (l, r) => .ok ⟨l, r, some ⟨1 / hi, 1 / lo, 1 / (hi * hi), 1 / (lo * lo)⟩⟩
        | .error _ =>
          match staircaseO rb ra with
          | .ok (l, r) => .ok ⟨l, r, some ⟨1 / hi, 1 / lo, 1 / (hi * hi), 1 / (lo * lo)⟩⟩
          | .error e => .error e
    else
      -- non-positive rates (outside the property; `lo ≤ hi` assumed): numpy gives 1/0 = inf
      if ¬ (lo = 0 ∨ hi < 0) then .error .Assertion
      else if lo ≠ 0 ∧ lo ≠ hi then .error .Assertion
      else .error .Other

/-! ## vocabulary of the generated code (`harness/pv/translator/param.py` → `Pun/Gen/ParamGen.lean`)

The translator renders the source's own expressions with these import-free building blocks;
`Props/C09Gen.lean` proves the rendered definitions equal to the hand model above. -/

/-- `i.to_numpy()` of a scalar interval: both endpoints -/
def endpoints (p : Rat × Rat) : List Rat := [p.1, p.2]
/-- `i.to_numpy()[:1]` / `[1:]` -/
def loOnly (p : Rat × Rat) : List Rat := [p.1]
def hiOnly (p : Rat × Rat) : List Rat := [p.2]

/-- `itertools.product(*ls)`: first factor slowest -/
def cartesian : List (List Rat) → List (List Rat)
  | [] => [[]]
  | xs :: rest => xs.flatMap (fun x => (cartesian rest).map (x :: ·))

/-- `zip(*ls)`: i-th elements together, as many tuples as the shortest list has elements -/
def zipStar (ls : List (List Rat)) : List (List Rat) :=
  match ls with
  | [] => []
  | l :: t => (List.range (t.foldl (fun m x => min m x.length) l.length)).map (fun i => ls.filterMap (fun x => x[i]?))

/-- `(a[:n], dict(zip(names, a[n:])))`: what scipy is called with at corner `a` -/
def splitCall (n : Nat) (names : List String) (a : List Rat) : List Rat × List (String × Rat) :=
  (a.take n, names.zip (a.drop n))

/-- the same with the keyword arguments filtered by truthiness (`if v`) -/
def splitCallTruthy (n : Nat) (names : List String) (a : List Rat) : List Rat × List (String × Rat) :=
  (a.take n, (names.zip (a.drop n)).filter (fun kv => kv.2 ≠ 0))

end Pun.Param
