import Pun.Model.Proto
/-!
# C10 model: distribution-free p-boxes of `pba/pbox_free.py`

`min_max`, `min_mean`, `max_mean`, `mean_std`, `mean_var`, `min_max_mean`,
`min_max_median`, `min_max_mode`, `min_max_mean_std`, `min_max_mean_var` and
the dispatcher `known_properties`, each followed by the `Staircase`
constructor (`left_right_switch`, 'next' interpolation of 199 values to 200,
"must be increasing" check).  Exact rationals; rounding is not modelled.

Square roots never appear: the values `np.sqrt(..)` / `(..)**0.5` the code
computes are *inputs* of the model (functions `Nat → Rat` indexed by step, or
single numbers) supplied by the harness; the theorems assume of them exactly
`0 ≤ s ∧ s*s = argument`.

`Params.steps = 200` and `Params.p_values = linspace(0.001,0.999,200)` are the
pinned constants (100 of the p-values are `< 0.5`).
-/
namespace Pun.Free
open Pun

abbrev PB := List Rat × List Rat

/-- `np.all(left >= right)` on two arrays of equal length -/
def allGe : List Rat → List Rat → Bool
  | a :: as, b :: bs => decide (b ≤ a) && allGe as bs
  | _, _ => true

/-- Python `left >= right` on two *lists* (lexicographic) -/
def lexGe : List Rat → List Rat → Bool
  | [], [] => true
  | [], _ :: _ => false
  | _ :: _, [] => true
  | a :: as, b :: bs => if a = b then lexGe as bs else decide (b ≤ a)

/-- `is_increasing`: `np.all(np.diff(arr) >= 0)` -/
def isIncreasing : List Rat → Bool
  | a :: b :: t => decide (a ≤ b) && isIncreasing (b :: t)
  | _ => true

/-- `bound_steps_check` for the two lengths that occur: 200 values are kept, 199 values are
interpolated with kind "next" on `linspace(.001,.999,199)` at `Params.p_values`, which is
`[r₀,…,r₁₉₈,r₁₉₈]`.  (Other lengths do not occur in this file; they are rejected, not guessed.) -/
def stretch (l : List Rat) : Except Err (List Rat) :=
  if l.length = 200 then .ok l
  else if l.length = 199 then
    match l.getLast? with
    | some x => .ok (l ++ [x])
    | none => .error .Other
  else .error .Other

/-- how `left >= right` is evaluated in `left_right_switch`: on arrays or on Python lists -/
inductive Cmp where
  | elementwise | lexi
  deriving DecidableEq, Repr

/-- `Staircase(left, right)`: switch, interpolate to 200 steps, raise unless both increase -/
def staircase (cmp : Cmp) (left right : List Rat) : Except Err PB :=
  let sw := match cmp with
    | .elementwise => allGe left right
    | .lexi => lexGe left right
  let l := if sw then right else left
  let r := if sw then left else right
  match stretch l, stretch r with
  | .ok l', .ok r' =>
    if isIncreasing l' && isIncreasing r' then .ok (l', r') else .error .Other
  | .error e, _ => .error e
  | _, .error e => .error e

/-- level at the upper end of step `k`: `(k+1)/200` -/
def lvR (k : Nat) : Rat := ((k : Rat) + 1) / 200
/-- level at the lower end of step `k`: `k/200` -/
def lvL (k : Nat) : Rat := (k : Rat) / 200

/-! ## min_max -/

/-- `min_max(minimum, maximum)`; the keyword argument `mean=I(minimum, maximum)` asserts `min ≤ max` -/
def minMax (a b : Rat) : Except Err PB :=
  if b < a then .error .Assertion
  else staircase .elementwise (List.replicate 200 a) (List.replicate 200 b)

/-! ## min_mean, max_mean (Markov) -/

/-- `(mean - minimum) / (1 - j) + minimum` -/
def markovR (m μ j : Rat) : Rat := (μ - m) / (1 - j) + m

/-- the 199 right values of `min_mean` (levels `1/200 … 198/200, 1 - 1/200`) -/
def minMeanRight (m μ : Rat) : List Rat := (List.range 199).map fun k => markovR m μ (lvR k)

def minMean (m μ : Rat) : Except Err PB :=
  staircase .elementwise (List.replicate 199 m) (minMeanRight m μ)

/-- `Staircase.__neg__`: both bounds are Python lists made by `sorted` -/
def negPB (p : PB) : Except Err PB :=
  staircase .lexi (sortR (p.2.reverse.map (fun x => -x))) (sortR (p.1.reverse.map (fun x => -x)))

/-- `max_mean(maximum, mean) = min_mean(-maximum, -mean).__neg__()` -/
def maxMean (M μ : Rat) : Except Err PB :=
  match minMean (-M) (-μ) with
  | .ok p => negPB p
  | .error e => .error e

/-! ## mean_std, mean_var (Cantelli)

`tL k` stands for `np.sqrt(1/i - 1)` at `i = iii[k]` (`1/200` for `k = 0`, else `k/200`),
`tR k` for `np.sqrt(j/(1-j))` at `j = (k+1)/200`. -/

/-- the level list `iii` of `mean_std` -/
def lvI (k : Nat) : Rat := if k = 0 then 1 / 200 else (k : Rat) / 200

def meanStdLeft (tL : Nat → Rat) (μ σ : Rat) : List Rat := (List.range 199).map fun k => μ - σ * tL k
def meanStdRight (tR : Nat → Rat) (μ σ : Rat) : List Rat := (List.range 199).map fun k => μ + σ * tR k

def meanStd (tL tR : Nat → Rat) (μ σ : Rat) : Except Err PB :=
  staircase .lexi (meanStdLeft tL μ σ) (meanStdRight tR μ σ)

/-- `mean_var(mean, var) = mean_std(mean, np.sqrt(var))`; `s` is the supplied `np.sqrt(var)` -/
def meanVar (tL tR : Nat → Rat) (μ _v s : Rat) : Except Err PB := meanStd tL tR μ s

/-! ## min_max_mean (as repaired: cancellation-free formula, clamped to the range) -/

def mmmLeftAt (a b μ mid : Rat) (k : Nat) : Except Err Rat :=
  let i := lvL k
  if i ≤ mid then .ok a else if i = 0 then .error .ZeroDivision else .ok (max a ((μ - b) / i + b))

def mmmRightAt (a b μ mid : Rat) (k : Nat) : Except Err Rat :=
  let j := lvR k
  if mid ≤ j then .ok b else if 1 - j = 0 then .error .ZeroDivision else .ok (min b ((μ - a) / (1 - j) + a))

def minMaxMean (a b μ : Rat) : Except Err PB :=
  if b - a = 0 then .error .ZeroDivision else
  let mid := (b - μ) / (b - a)
  match (List.range 200).mapM (mmmLeftAt a b μ mid), (List.range 200).mapM (mmmRightAt a b μ mid) with
  | .ok l, .ok r => staircase .elementwise l r
  | .error e, _ => .error e
  | _, .error e => .error e

/-! ## min_max_mode, min_max_median -/

def modeLeft (a M : Rat) : List Rat := (List.range 200).map fun k => lvL k * (M - a) + a
def modeRight (b M : Rat) : List Rat := (List.range 200).map fun k => lvR k * (b - M) + M

/-- `mean=I((min+mode)/2, (mode+max)/2)` asserts `min ≤ max` before `Staircase` runs -/
def minMaxMode (a b M : Rat) : Except Err PB :=
  if a = b then minMax a b
  else if b < a then .error .Assertion
  else staircase .elementwise (modeLeft a M) (modeRight b M)

/-- 100 of `Params.p_values` are `< 0.5` -/
def medianLeft (a med : Rat) : List Rat := List.replicate 100 a ++ List.replicate 100 med
def medianRight (b med : Rat) : List Rat := List.replicate 100 med ++ List.replicate 100 b

/-- `I(minimum, maximum).to_pbox()` asserts `min ≤ max` -/
def minMaxMedian (a b med : Rat) : Except Err PB :=
  if a = b then minMax a b
  else if b < a then .error .Assertion
  else staircase .elementwise (medianLeft a med) (medianRight b med)

/-! ## min_max_mean_std (the recurrence)

Supplied roots: `smax` = `(abs(ran*ran/4 - (max-mean-ran/2)**2))**0.5`,
`t1 k` = `(1/p - 1)**0.5` and `t2 k` = `(1/(1/p - 1))**0.5` at `p = k/200` (`1 ≤ k ≤ 199`),
`s5 k` = `x5**0.5` at `p = k/200` where `x5 = p*p + sl*sl - p ≥ 0`. -/

structure Roots where
  smax : Rat
  t1 : Nat → Rat
  t2 : Nat → Rat
  s5 : Nat → Rat
  /-- relative rounding allowance on `std ≤ smax` read from the source by the harness: `0` for the pinned code
  (no allowance); a repaired version may accept `std ≤ smax*(1+slack)` and use `smax` instead -/
  slack : Rat := 0

def x5At (sl : Rat) (k : Nat) : Rat := lvL k * lvL k + sl * sl - lvL k

/-- left value of step `i` on the unit scale (`p = i/200`) -/
def mmmsLeftUnit (R : Roots) (ml sl sr : Rat) (i : Nat) : Rat :=
  let p := lvL i
  let x2 := if p ≤ 0 then 0 else ml - sr * R.t1 i
  let x3 :=
    if ml + p ≤ 1 then 0 else
      let x5 := x5At sl i
      let x4 :=
        if x5 ≥ 0 then
          let x4' := 1 - p + R.s5 i
          if x4' < ml then ml else x4'
        else ml
      (p + sl * sl + x4 * x4 - 1) / (x4 + p - 1)
  let x6 := if p ≤ 0 ∨ p ≤ 1 - ml then 0 else (ml - 1) / p + 1
  min (max (max (max x2 x3) x6) 0) 1

/-- right value of step `i` on the unit scale (`p = (i+1)/200`) -/
def mmmsRightUnit (R : Roots) (mr sl sr : Rat) (i : Nat) : Rat :=
  let p := lvR i
  let x2 := if p ≥ 1 then 1 else mr + sr * R.t2 (i + 1)
  let x3 :=
    if mr + p ≥ 1 then 1 else
      let x5 := x5At sl (i + 1)
      let x4 :=
        if x5 ≥ 0 then
          let x4' := 1 - p - R.s5 (i + 1)
          if x4' > mr then mr else x4'
        else mr
      (p + sl * sl + x4 * x4 - 1) / (x4 + p - 1) - 1
  let x6 := if 1 - mr ≤ p ∨ 1 ≤ p then 1 else mr / (1 - p)
  max (min (min (min x2 x3) x6) 1) 0

/-- `np.maximum.accumulate` -/
def cummaxFrom (m : Rat) : List Rat → List Rat
  | [] => []
  | x :: xs => max m x :: cummaxFrom (max m x) xs
def cummax : List Rat → List Rat
  | [] => []
  | x :: xs => x :: cummaxFrom x xs
/-- `np.minimum.accumulate(R[::-1])[::-1]`: running minimum from the top -/
def cumminFrom (m : Rat) : List Rat → List Rat
  | [] => []
  | x :: xs => min m x :: cumminFrom (min m x) xs
def cumminRev (l : List Rat) : List Rat :=
  match l.reverse with
  | [] => []
  | x :: xs => (x :: cumminFrom x xs).reverse

def mmmsLeft (R : Roots) (a ran ml sl sr : Rat) : List Rat :=
  cummax ((List.range 200).map fun i => mmmsLeftUnit R ml sl sr i * ran + a)
def mmmsRight (R : Roots) (a ran mr sl sr : Rat) : List Rat :=
  cumminRev ((List.range 200).map fun i => mmmsRightUnit R mr sl sr i * ran + a)

/-- `min_max_mean_std`.  `_constrain` builds `I(max(mean,min), min(mean,max))` and
`I(max(std,0), min(std,smax))`, whose constructor asserts `lo ≤ hi`: a mean outside the range,
a negative std or a std above `smax` raise `AssertionError`.  On the remaining inputs
`m = [mean,mean]`, `s = [std,std]`. -/
def minMaxMeanStd (R : Roots) (a b μ σ : Rat) : Except Err PB :=
  if a = b then minMax a b
  else if b < a then .error .Assertion
  else if μ < a ∨ b < μ then .error .Assertion
  else if σ < 0 ∨ R.smax * (1 + R.slack) < σ then .error .Assertion
  else
    let σe := if R.smax < σ then R.smax else σ     -- only differs from σ when `slack > 0`
    let ran := b - a
    let ml := (μ - a) / ran
    let sl := σe / ran
    let mr := (μ - a) / ran
    let sr := σe / ran
    staircase .elementwise (mmmsLeft R a ran ml sl sr) (mmmsRight R a ran mr sl sr)

/-- `min_max_mean_var(min,max,mean,var) = min_max_mean_std(min,max,mean,np.sqrt(var))` -/
def minMaxMeanVar (R : Roots) (a b μ _v s : Rat) : Except Err PB := minMaxMeanStd R a b μ s

/-! ## known_properties -/

inductive Key where
  | family | maximum | mean | median | minimum | mode | std | var
  deriving DecidableEq, Repr

/-- the keyword arguments (`percentiles` is not modelled: always `None`) -/
structure Args where
  maximum : Option Rat := none
  mean : Option Rat := none
  median : Option Rat := none
  minimum : Option Rat := none
  mode : Option Rat := none
  std : Option Rat := none
  var : Option Rat := none
  family : Bool := false

/-- `tuple(sorted(k for k, v in args.items() if v is not None))` (alphabetical order) -/
def presentKeys (A : Args) : List Key :=
  (if A.family then [Key.family] else []) ++
  (if A.maximum.isSome then [Key.maximum] else []) ++
  (if A.mean.isSome then [Key.mean] else []) ++
  (if A.median.isSome then [Key.median] else []) ++
  (if A.minimum.isSome then [Key.minimum] else []) ++
  (if A.mode.isSome then [Key.mode] else []) ++
  (if A.std.isSome then [Key.std] else []) ++
  (if A.var.isSome then [Key.var] else [])

inductive Handler where
  | minMax | minMean | maxMean | meanStd | meanVar | minMaxMean | minMaxMode | minMaxMedian
  | minMaxMeanStd | minMaxMeanVar
  | minMaxWithFamily      -- ("family","maximum","minimum") ↦ min_max, called with an unexpected keyword
  | parseMoments | truncParseMoments
  | default               -- handle_default: raises
  deriving DecidableEq, Repr

open Key in
/-- the `routes` dictionary; the keys `("percentiles")` and `("family")` of the source are plain
strings, not tuples, so they never match a key tuple -/
def route : List Key → Handler
  | [maximum, minimum] => .minMax
  | [mean, minimum] => .minMean
  | [maximum, mean] => .maxMean
  | [mean, std] => .meanStd
  | [mean, var] => .meanVar
  | [maximum, mean, minimum] => .minMaxMean
  | [maximum, minimum, mode] => .minMaxMode
  | [maximum, median, minimum] => .minMaxMedian
  | [maximum, mean, minimum, std] => .minMaxMeanStd
  | [maximum, mean, minimum, var] => .minMaxMeanVar
  | [family, mean] => .parseMoments
  | [family, mean, std] => .parseMoments
  | [family, mean, var] => .parseMoments
  | [family, mean, std, var] => .parseMoments
  | [family, maximum, minimum] => .minMaxWithFamily
  | [family, maximum, mean, minimum] => .parseMoments
  | [family, maximum, mean, minimum, std] => .truncParseMoments
  | [family, maximum, mean, minimum, var] => .truncParseMoments
  | [family, maximum, mean, minimum, std, var] => .truncParseMoments
  | _ => .default

/-- everything the harness supplies for the square roots a call may need -/
structure Sup where
  sv : Rat            -- np.sqrt(var)
  tL : Nat → Rat
  tR : Nat → Rat
  roots : Roots

inductive Out where
  | pbox (p : PB)
  | parametric (truncated : Bool)     -- handed to `parse_moments` / `truncate_parse_moments` (not modelled)

def need2 (x y : Option Rat) (f : Rat → Rat → Except Err PB) : Except Err Out :=
  match x, y with
  | some a, some b => (f a b).map Out.pbox
  | _, _ => .error .Other
def need3 (x y z : Option Rat) (f : Rat → Rat → Rat → Except Err PB) : Except Err Out :=
  match x, y, z with
  | some a, some b, some c => (f a b c).map Out.pbox
  | _, _, _ => .error .Other
def need4 (x y z w : Option Rat) (f : Rat → Rat → Rat → Rat → Except Err PB) : Except Err Out :=
  match x, y, z, w with
  | some a, some b, some c, some d => (f a b c d).map Out.pbox
  | _, _, _, _ => .error .Other

/-- `known_properties(**kwargs, return_construct=True)`; the handler receives its arguments by
keyword, so each value reaches the parameter of the same name.  (The `none` branches of `need*`
are unreachable: `route` matched the keys as present; see `Props/C10`.) -/
def knownProperties (S : Sup) (A : Args) : Except Err Out :=
  match route (presentKeys A) with
  | .minMax => need2 A.minimum A.maximum minMax
  | .minMean => need2 A.minimum A.mean minMean
  | .maxMean => need2 A.maximum A.mean maxMean
  | .meanStd => need2 A.mean A.std (meanStd S.tL S.tR)
  | .meanVar => need2 A.mean A.var (fun μ v => meanVar S.tL S.tR μ v S.sv)
  | .minMaxMean => need3 A.minimum A.maximum A.mean minMaxMean
  | .minMaxMode => need3 A.minimum A.maximum A.mode minMaxMode
  | .minMaxMedian => need3 A.minimum A.maximum A.median minMaxMedian
  | .minMaxMeanStd => need4 A.minimum A.maximum A.mean A.std (minMaxMeanStd S.roots)
  | .minMaxMeanVar => need4 A.minimum A.maximum A.mean A.var (fun a b μ v => minMaxMeanVar S.roots a b μ v S.sv)
  | .minMaxWithFamily => .error .Type
  | .parseMoments => .ok (.parametric false)
  | .truncParseMoments => .ok (.parametric true)
  | .default => .error .Other

end Pun.Free
