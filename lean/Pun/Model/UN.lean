import Pun.Model.Proto
/-!
# C15 — `UncertainNumber` operators: dispatch table and unit algebra (import-free)

Anchors: `characterisation/uncertainNumber.py` `bin_ops`, the forward and reflected
operators, `__neg__`, `pass_down_units`, `is_un`.

* `Dim` — exponent vector over (m, s, kg); rational exponents because
  `U ** 0.5` is allowed.  This is pint's dimensionality of a quantity built
  from the base units.
* The arithmetic of the *constructs* (Interval / Distribution / p-box / DSS) is
  not re-modelled here (C01, C02, C06 do that): it is a parameter `CAlg C`.
  The driver instantiates it with the free term algebra (`Term`), i.e. the
  model answers *which construct-level call is made on which (converted or
  raw) constructs* and *which unit results*; the harness evaluates the term
  with the real construct library.
* `PBn` — specification of p-box ∘ number on quantile lists, used for the
  mirror-image theorems and executed by the driver (`pbnum`).
-/
namespace Pun.UN

/-! ## dimensions -/
structure Dim where
  m : Rat
  s : Rat
  kg : Rat
  deriving DecidableEq, Repr, Inhabited

namespace Dim
def one : Dim := ⟨0, 0, 0⟩
def mul (a b : Dim) : Dim := ⟨a.m + b.m, a.s + b.s, a.kg + b.kg⟩
def div (a b : Dim) : Dim := ⟨a.m - b.m, a.s - b.s, a.kg - b.kg⟩
def pow (a : Dim) (k : Rat) : Dim := ⟨a.m * k, a.s * k, a.kg * k⟩
end Dim

inductive UErr where
  | dimensionality   -- pint.DimensionalityError
  | type             -- TypeError (no such operator)
  | value            -- ValueError (a bare construct as operand)
  | unbound          -- UnboundLocalError (operand of an unknown kind)
  | cons             -- the construct-level operation raised
  deriving DecidableEq, Repr, Inhabited

def UErr.toString : UErr → String
  | .dimensionality => "Dimensionality" | .type => "Type" | .value => "Value"
  | .unbound => "Unbound" | .cons => "Construct"
instance : ToString UErr := ⟨UErr.toString⟩

inductive Op where | add | sub | mul | div | pow
  deriving DecidableEq, Repr, Inhabited

inductive Ess where | interval | dist | pbox | dss
  deriving DecidableEq, Repr, Inhabited

/-- arithmetic of pint quantities, on dimensions only.  `k` is the magnitude of the
right operand (only used as the exponent of `**`). -/
def qOp (op : Op) (a b : Dim) (k : Rat) : Except UErr Dim :=
  match op with
  | .add | .sub => if a = b then .ok a else .error .dimensionality
  | .mul => .ok (a.mul b)
  | .div => .ok (a.div b)
  | .pow => if b = Dim.one then .ok (a.pow k) else .error .dimensionality

/-- `pass_down_units`, number branch: the quantity the bare number is turned into -/
def numDim (op : Op) (a : Dim) : Dim :=
  match op with
  | .add | .sub => a          -- `b * a._physical_quantity.units`
  | _ => Dim.one              -- plain `b`

/-! ## construct-level algebra (parameter) -/
structure CAlg (C : Type) where
  /-- `convert_pbox` / `convert` -/
  conv : Ess → C → C
  /-- p-box ∘ p-box (both already converted) -/
  binCC : Op → C → C → Except UErr C
  /-- construct ∘ number; the tag is the class of the construct handed over -/
  binCN : Op → Ess → C → Rat → Except UErr C
  /-- number ∘ construct -/
  binNC : Op → Rat → Ess → C → Except UErr C
  neg : Ess → C → Except UErr C
  /-- magnitude of `a ** b` as pint computes it on the nominal values (irrational in general) -/
  powMag : Rat → Rat → Rat

structure UNv (C : Type) where
  ess : Ess
  cons : C
  nom : Rat      -- magnitude of `_physical_quantity` (the nominal value)
  dim : Dim

inductive Opd (C : Type) where
  | un (u : UNv C)
  | num (c : Rat)
  | cons          -- a bare construct (is_un = 2)
  | other         -- anything else (is_un returns None)

/-- what `fromConstruct` + `pass_down_units` put into the new object: the class of the new
construct, the construct, magnitude and dimension of the new pint quantity.  Nothing else. -/
structure Res (C : Type) where
  ess : Ess
  cons : C
  nom : Rat
  dim : Dim

/-- arithmetic of pint on the magnitudes, operands in the order given -/
def magOp (pw : Rat → Rat → Rat) (op : Op) (a b : Rat) : Rat :=
  match op with
  | .add => a + b | .sub => a - b | .mul => a * b | .div => a / b | .pow => pw a b

/-- class of `construct ∘ number`, `number ∘ construct`, `-construct`: an Interval stays an
Interval, everything else comes back as a p-box -/
def numEss : Ess → Ess
  | .interval => .interval
  | _ => .pbox

variable {C : Type}

/-- `pass_down_units(a, b, ops, t, reflected)` -/
def passDownUnits (a : UNv C) (b : Opd C) (op : Op) (reflected : Bool) : Except UErr Dim :=
  match b with
  | .num c =>
    let bq := numDim op a.dim
    if reflected then qOp op bq a.dim a.nom else qOp op a.dim bq c
  | .un v => qOp op a.dim v.dim v.nom
  | _ => .error .unbound

/-- magnitude computed by `pass_down_units` (same branches, same operand order) -/
def passDownMag (pw : Rat → Rat → Rat) (a : UNv C) (b : Opd C) (op : Op) (reflected : Bool) : Rat :=
  match b with
  | .num c => if reflected then magOp pw op c a.nom else magOp pw op a.nom c
  | .un v => magOp pw op a.nom v.nom
  | _ => 0

/-- class of the construct `bin_ops` hands to `fromConstruct` -/
def binEss (self : UNv C) (oth : Opd C) : Ess :=
  match oth with
  | .num _ => numEss self.ess
  | _ => .pbox

/-- `UncertainNumber.bin_ops(self, other, ops, reflected)` -/
def binOps (alg : CAlg C) (self : UNv C) (oth : Opd C) (op : Op) (reflected : Bool) :
    Except UErr (Res C) := do
  let newCons ← match oth with
    | .num c =>
      if reflected then
        match self.ess with
        | .interval => alg.binNC op c .interval self.cons
        | e => alg.binNC op c .pbox (alg.conv e self.cons)
      else alg.binCN op self.ess self.cons c
    | .un v => alg.binCC op (alg.conv self.ess self.cons) (alg.conv v.ess v.cons)
    | .cons => .error .value
    | .other => .error .unbound
  let d ← passDownUnits self oth op reflected
  pure ⟨binEss self oth, newCons, passDownMag alg.powMag self oth op reflected, d⟩

/-- `__rpow__` : number ** U goes through `convert` for every essence -/
def rpow (alg : CAlg C) (self : UNv C) (c : Rat) : Except UErr (Res C) := do
  let newCons ← alg.binNC .pow c .pbox (alg.conv self.ess self.cons)
  let d ← passDownUnits self (.num c) .pow true
  pure ⟨.pbox, newCons, passDownMag alg.powMag self (.num c) .pow true, d⟩

/-- the forward dunder methods `__add__ … __pow__` -/
def dunder (alg : CAlg C) (op : Op) (self : UNv C) (oth : Opd C) : Except UErr (Res C) :=
  binOps alg self oth op false

/-- the reflected dunder methods as coded: `__radd__`/`__rmul__` delegate to the forward
ones, `__rsub__`/`__rtruediv__` call `bin_ops(reflected=True)`, `__rpow__` converts first -/
def rdunder (alg : CAlg C) (op : Op) (self : UNv C) (c : Rat) : Except UErr (Res C) :=
  match op with
  | .add => dunder alg .add self (.num c)
  | .mul => dunder alg .mul self (.num c)
  | .sub => binOps alg self (.num c) .sub true
  | .div => binOps alg self (.num c) .div true
  | .pow => rpow alg self c

/-- Python's evaluation of `l op r` when at least one side is an `UncertainNumber`.
A plain number on the left returns `NotImplemented` from its own method, so the
reflected method of the right operand runs. -/
def pyBin (alg : CAlg C) (op : Op) (l r : Opd C) : Option (Except UErr (Res C)) :=
  match l, r with
  | .un u, r => some (dunder alg op u r)
  | .num c, .un u => some (rdunder alg op u c)
  | _, _ => none

/-- `__neg__` -/
def pyNeg (alg : CAlg C) (u : UNv C) : Except UErr (Res C) := do
  let c ← alg.neg u.ess u.cons
  pure ⟨numEss u.ess, c, -u.nom, u.dim⟩

/-! ## the specified table -/

/-- unit algebra of the statement: products/quotients multiply/divide, a bare number is
dimensionless there and takes the operand's unit in sums, powers scale the exponents (the
exponent must be dimensionless), sums of different dimensions are an error -/
def unitSpec (op : Op) (l r : Option Dim) (expo : Rat) : Except UErr Dim :=
  match op, l, r with
  | .add, some a, some b | .sub, some a, some b => if a = b then .ok a else .error .dimensionality
  | .add, some a, none | .sub, some a, none => .ok a
  | .add, none, some b | .sub, none, some b => .ok b
  | .mul, some a, some b => .ok (a.mul b)
  | .mul, some a, none => .ok a
  | .mul, none, some b => .ok b
  | .div, some a, some b => .ok (a.div b)
  | .div, some a, none => .ok a
  | .div, none, some b => .ok (Dim.one.div b)
  | .pow, some a, none => .ok (a.pow expo)
  | .pow, some a, some b => if b = Dim.one then .ok (a.pow expo) else .error .dimensionality
  | .pow, none, some b => if b = Dim.one then .ok Dim.one else .error .dimensionality
  | _, none, none => .error .type

/-- construct of the statement: the same operation on the underlying constructs (both
converted when both are uncertain numbers; `c + U`, `c * U` are `U + c`, `U * c`;
`c - U`, `c / U`, `c ** U` are the construct library's number-on-the-left operations on
the interval itself or on the converted p-box) -/
def consSpec (alg : CAlg C) (op : Op) (l r : Opd C) : Except UErr C :=
  match l, r with
  | .un u, .un v => alg.binCC op (alg.conv u.ess u.cons) (alg.conv v.ess v.cons)
  | .un u, .num c => alg.binCN op u.ess u.cons c
  | .num c, .un u =>
    match op with
    | .add | .mul => alg.binCN op u.ess u.cons c
    | .pow => alg.binNC op c .pbox (alg.conv u.ess u.cons)
    | _ => if u.ess = .interval then alg.binNC op c .interval u.cons
           else alg.binNC op c .pbox (alg.conv u.ess u.cons)
  | .un _, .cons => .error .value
  | .un _, .other => .error .unbound
  | _, _ => .error .type

def dimOf : Opd C → Option Dim
  | .un u => some u.dim
  | _ => none

def expoOf : Opd C → Rat
  | .un u => u.nom
  | .num c => c
  | _ => 0

/-- magnitude of an operand as a pint quantity -/
def magOf : Opd C → Rat
  | .un u => u.nom
  | .num c => c
  | _ => 0

/-- class of the result: an interval with a plain number stays an interval (except `c ** U`),
everything else is a p-box -/
def essSpec (op : Op) (l r : Opd C) : Ess :=
  match l, r with
  | .un u, .num _ => numEss u.ess
  | .num _, .un u => if op = .pow then .pbox else numEss u.ess
  | _, _ => .pbox

def specBin (alg : CAlg C) (op : Op) (l r : Opd C) : Except UErr (Res C) := do
  let c ← consSpec alg op l r
  let d ← unitSpec op (dimOf l) (dimOf r) (expoOf r)
  pure ⟨essSpec op l r, c, magOp alg.powMag op (magOf l) (magOf r), d⟩

/-! ## histories: a derived uncertain number carries the result's class, construct, magnitude
and dimension and nothing else (`fromConstruct` builds a fresh object, `pass_down_units`
overwrites its quantity) -/
def derive (r : Res C) : UNv C := ⟨r.ess, r.cons, r.nom, r.dim⟩

inductive Step (C : Type) where
  | opR (op : Op) (r : Opd C)     -- acc op r
  | opL (op : Op) (c : Rat)       -- c op acc
  | self (op : Op)                -- acc op acc
  | neg                           -- -acc

/-- one more operator applied to the current uncertain number, as the class computes it -/
def codeStep (alg : CAlg C) (u : UNv C) : Step C → Except UErr (Res C)
  | .opR op r => dunder alg op u r
  | .opL op c => rdunder alg op u c
  | .self op => dunder alg op u (.un u)
  | .neg => pyNeg alg u

/-- … and as the statement specifies it -/
def specStep (alg : CAlg C) (u : UNv C) : Step C → Except UErr (Res C)
  | .opR op r => specBin alg op (.un u) r
  | .opL op c => specBin alg op (.num c) (.un u)
  | .self op => specBin alg op (.un u) (.un u)
  | .neg => (alg.neg u.ess u.cons).map (fun c => ⟨numEss u.ess, c, -u.nom, u.dim⟩)

def runHist (step : UNv C → Step C → Except UErr (Res C)) (u : UNv C) : List (Step C) → Except UErr (UNv C)
  | [] => .ok u
  | s :: rest => do
    let r ← step u s
    runHist step (derive r) rest

/-! ## free term algebra: what the driver prints -/
inductive Term where
  | A | B                         -- the constructs of the left / right uncertain number
  | conv (t : Term)
  | cc (op : Op) (x y : Term)
  | cn (op : Op) (x : Term) (c : Rat)
  | nc (op : Op) (c : Rat) (x : Term)
  | neg (x : Term)
  deriving DecidableEq, Repr, Inhabited

def termAlg : CAlg Term where
  conv := fun _ t => .conv t
  binCC := fun op x y => .ok (.cc op x y)
  binCN := fun op _ x c => .ok (.cn op x c)
  binNC := fun op c _ x => .ok (.nc op c x)
  neg := fun _ x => .ok (.neg x)
  powMag := fun _ _ => 0

/-! ## specification of p-box ∘ number on quantile lists (left = lower quantiles,
right = upper quantiles, both ascending in the probability level) -/
structure PBn where
  left : List Rat
  right : List Rat
  deriving DecidableEq, Repr, Inhabited

namespace PBn
def addN (p : PBn) (c : Rat) : PBn := ⟨p.left.map (· + c), p.right.map (· + c)⟩
def subN (p : PBn) (c : Rat) : PBn := ⟨p.left.map (· - c), p.right.map (· - c)⟩
/-- `-X`: the quantile at level `p` is minus the quantile at `1-p` of the other bound -/
def neg (p : PBn) : PBn := ⟨(p.right.map (- ·)).reverse, (p.left.map (- ·)).reverse⟩
/-- `c - X` as `Pbox.__rsub__` computes it: `(-X) + c` -/
def rsubN (c : Rat) (p : PBn) : PBn := (neg p).addN c
def mulN (p : PBn) (c : Rat) : PBn :=
  if 0 ≤ c then ⟨p.left.map (· * c), p.right.map (· * c)⟩
  else ⟨(p.right.map (· * c)).reverse, (p.left.map (· * c)).reverse⟩
def nonzero (p : PBn) : Bool := p.left.all (fun x => 0 < x) || p.right.all (fun x => x < 0)
/-- `1/X` for a p-box that does not straddle zero -/
def recip (p : PBn) : PBn := ⟨(p.right.map (1 / ·)).reverse, (p.left.map (1 / ·)).reverse⟩
def divN (p : PBn) (c : Rat) : Option PBn := if c = 0 then none else some (p.mulN (1 / c))
/-- `c / X` as `Pbox.__rtruediv__` computes it: `c * (1/X)` -/
def rdivN (c : Rat) (p : PBn) : Option PBn := if p.nonzero then some (p.recip.mulN c) else none
end PBn

end Pun.UN
