import Pun.Model.Expr
/-!
# C13 model, part 2: `propagation/b2b.py` — strategy dispatch, vertex method,
subinterval tiling (`pba/intervals/methods.py: subintervalise, reconstitute`)
and the routing of `EpistemicPropagation.run`.

The model follows the code after the four `fix:` commits of the C13 worktree
(`n_sub = 1`, sized `(1,)` vectors, 1-D vertex method, one-element lists).
-/
namespace Pun.B2B
open Pun Pun.Arith Pun.Expr

abbrev Box := List (Rat × Rat)

/-- cartesian product, first factor slowest: `itertools.product(*ls)` and
`np.stack(np.meshgrid(*ls, indexing="ij"), -1).reshape(-1, d)` -/
def prodL {α : Type} : List (List α) → List (List α)
  | [] => [[]]
  | l :: ls => l.flatMap (fun a => (prodL ls).map (fun t => a :: t))

/-- the `2^d` corners of a box in `vec_cartesian_product` order -/
def corners (box : Box) : List (List Rat) := prodL (box.map (fun p => [p.1, p.2]))

/-- `linspace(lo, hi, n+1)[i]` in exact arithmetic -/
def knot (lo hi : Rat) (n i : Nat) : Rat := lo + (i : Rat) * ((hi - lo) / (n : Rat))

/-- `subintervalise` of one side: `n` tiles `[knot i, knot (i+1)]`; `n ∈ {0,1}` is one tile -/
def tiles1 (p : Rat × Rat) (n : Nat) : List (Rat × Rat) :=
  if n ≤ 1 then [p] else (List.range n).map (fun i => (knot p.1 p.2 n i, knot p.1 p.2 n (i + 1)))

/-- `subintervalise(x, n)`: every combination of one tile per side -/
def tiles (box : Box) (n : Nat) : List Box := prodL (box.map (fun p => tiles1 p n))

def minL1 : List Rat → Option Rat
  | [] => none
  | x :: xs => some (xs.foldl min x)

def maxL1 : List Rat → Option Rat
  | [] => none
  | x :: xs => some (xs.foldl max x)

/-- `reconstitute`: `Interval(min lo, max hi)`; an empty list is numpy's zero-size reduction error -/
def reconstitute (rs : List Val) : Except Err Val :=
  match minL1 (rs.map Val.lo), maxL1 (rs.map Val.hi) with
  | some l, some h => mk l h
  | _, _ => .error .Value

/-- `func(vars)` on Interval inputs.  A constant function returns a number (shown as a degenerate value). -/
def direct (φ : UFun → Rat → Rat) (e : Expr) (box : Box) : Except Err Val := evalIvl φ box e

/-- `endpoints`: the function on every corner, `Interval(min, max)` -/
def endpoints (φ : UFun → Rat → Rat) (e : Expr) (box : Box) : Except Err Val := do
  let ys ← (corners box).mapM (fun c => evalPt φ c e)
  match minL1 ys, maxL1 ys with
  | some l, some h => mk l h
  | _, _ => .error .Value

inductive Style where | direct | endpoints
  deriving DecidableEq, Repr

/-- `subinterval_method` -/
def subinterval (φ : UFun → Rat → Rat) (e : Expr) (box : Box) (style : Option Style) (n : Option Nat) :
    Except Err Val :=
  match style, n with
  | none, _ => .error .Value
  | _, none => .error .Value
  | some .direct, some n => do
      let rs ← (tiles box n).mapM (fun t => direct φ e t)
      reconstitute rs
  | some .endpoints, some n => do
      let rs ← (tiles box n).mapM (fun t => endpoints φ e t)
      reconstitute rs

inductive Strategy where | direct | endpoints | subinterval | unknown
  deriving DecidableEq, Repr

/-- how `vars` was passed: list/tuple of scalar Intervals, a vector Interval, a scalar Interval -/
inductive Form where | list | vec | scalar
  deriving DecidableEq, Repr

/-- `make_vec_interval(vars)` then `wc_scalar_interval(vars)`: which inputs b2b rejects -/
def accepts (form : Form) (box : Box) : Bool :=
  match form with
  | .list => box.length ≥ 1      -- an empty list: assertion, then `Interval()` TypeError → ValueError
  | .vec => box.length ≥ 1
  | .scalar => box.length == 1

def b2b (φ : UFun → Rat → Rat) (e : Expr) (form : Form) (box : Box) (s : Strategy)
    (style : Option Style) (n : Option Nat) : Except Err Val :=
  if !accepts form box then .error .Value else
  match s with
  | .direct => direct φ e box
  | .endpoints => endpoints φ e box
  | .subinterval => subinterval φ e box style n
  | .unknown => .error .Other     -- NotImplementedError

/-- `EpistemicPropagation.run`: method name → b2b strategy (only the three modelled strategies) -/
def route (method : String) : Option Strategy :=
  if method = "endpoint" ∨ method = "endpoints" ∨ method = "vertex" then some .endpoints
  else if method = "subinterval" ∨ method = "subintervals" ∨ method = "subinterval_reconstitution" then
    some .subinterval
  else none

/-- `EpistemicPropagation(vars, func, method).run(**kw)`; `none` = `ValueError("Unknown method")`.
`vars` is a list of scalar Intervals (type_check), passed down as a vector Interval. -/
def epRun (φ : UFun → Rat → Rat) (e : Expr) (box : Box) (method : String)
    (style : Option Style) (n : Option Nat) : Except Err Val :=
  match route method with
  | none => .error .Value
  | some s => if box.length = 0 then .error .Assertion else b2b φ e .vec box s style n

/-! ## driver glue: the `φ` values read by a propagation -/

def queries (φ : UFun → Rat → Rat) (e : Expr) (box : Box) (s : Strategy) (style : Option Style)
    (n : Option Nat) : List (UFun × Rat) :=
  match s, style, n with
  | .direct, _, _ => queriesIvl φ box e
  | .endpoints, _, _ => (corners box).flatMap (fun c => queriesPt φ c e)
  | .subinterval, some .direct, some n => (tiles box n).flatMap (fun t => queriesIvl φ t e)
  | .subinterval, some .endpoints, some n =>
      (tiles box n).flatMap (fun t => (corners t).flatMap (fun c => queriesPt φ c e))
  | _, _, _ => []

end Pun.B2B
