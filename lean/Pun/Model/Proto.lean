/-!
# Line protocol helpers (import-free)

Rationals are written `num/den` or `num`; lists `[a,b,c]` (no blanks);
replies are built with `showRat`/`showList`.  Nothing here is proved about;
it is the glue between the harness and the executable models.
-/
namespace Pun

inductive Err where
  | ZeroDivision | Assertion | Value | Type | Index | Unbound | Attribute | Other
  deriving DecidableEq, Repr, Inhabited

def Err.toString : Err → String
  | .ZeroDivision => "ZeroDivision" | .Assertion => "Assertion" | .Value => "Value"
  | .Type => "Type" | .Index => "Index" | .Unbound => "Unbound"
  | .Attribute => "Attribute" | .Other => "Other"

instance : ToString Err := ⟨Err.toString⟩

def parseRat (s : String) : Option Rat :=
  match s.splitOn "/" with
  | [n] => n.toInt?.map (fun z => (z : Rat))
  | [n, d] => do
      let z ← n.toInt?
      let k ← d.toNat?
      if k = 0 then none else some (mkRat z k)
  | _ => none

def showRat (r : Rat) : String :=
  if r.den = 1 then toString r.num else toString r.num ++ "/" ++ toString r.den

/-- strip one leading `[` and one trailing `]` -/
def unbracket (s : String) : Option String :=
  match s.toList with
  | '[' :: rest =>
    match rest.reverse with
    | ']' :: mid => some (String.ofList mid.reverse)
    | _ => none
  | _ => none

def parseList (s : String) : Option (List Rat) := do
  let body ← unbracket s
  if body.isEmpty then some [] else
  (body.splitOn ",").mapM parseRat

def showList (l : List Rat) : String :=
  "[" ++ ",".intercalate (l.map showRat) ++ "]"

def parseNat (s : String) : Option Nat := s.toNat?
def parseInt (s : String) : Option Int := s.toInt?

def parseNatList (s : String) : Option (List Nat) := do
  let body ← unbracket s
  if body.isEmpty then some [] else (body.splitOn ",").mapM String.toNat?

def showNatList (l : List Nat) : String :=
  "[" ++ ",".intercalate (l.map toString) ++ "]"

/-- sort a list of rationals (the value result of `numpy.sort`) -/
def sortR (l : List Rat) : List Rat := l.mergeSort (fun a b => decide (a ≤ b))

def minL (d : Rat) : List Rat → Rat
  | [] => d
  | x :: xs => xs.foldl min x

def maxL (d : Rat) : List Rat → Rat
  | [] => d
  | x :: xs => xs.foldl max x

end Pun
