import Pun.Model.PBox
import Pun.Model.Arith
/-!
# C07 model: the uncertain-number hierarchy (conversion and operator dispatch)

Operands carry a kind tag.  A `dist` operand is given by the quantile list its `to_pbox()` returns
(the `scipy` `ppf` values are parameters, supplied by the harness); a `dss` operand by the
belief/plausibility p-box of its `to_pbox()` (that conversion is C08's subject).

* embeddings `ofIvl`, `ofReal`, `ofDist` (`Interval.to_pbox`: `np.repeat` of the endpoints);
* `convertPbox` (`pbox_abc.convert_pbox`: rejects numbers) and `convert`
  (`operation.convert`: numbers become degenerate intervals first);
* the methods `Pbox.add/sub/mul/div(other, dependency)` for an `other` of ANY kind
  (`isinstance(other, Number)` shortcut, `is_un` → `convert_pbox`, `-other`, `1 / other`
  evaluated by `other`'s own operators BEFORE the conversion);
* Python's binary-operator protocol for every ordered pair of kinds: forward method of the left
  operand, `NotImplemented` fall-through of numbers and of `Interval` to the reflected method of
  the right operand (`Staircase.__r*__`, `Distribution.__r*__`, the `_PboxOpsMixin`-generated
  `DempsterShafer.__r*__`), with the ambient dependency;
* `spec`: the specification "convert every operand first, then apply the p-box operation".
-/
namespace Pun.Hier
open Pun Pun.PBox

inductive Kind where | num | ivl | pbox | dist | dss deriving DecidableEq, Repr

inductive Opd where
  | num (c : Rat)
  | ivl (a b : Rat)
  | pbox (p : PB)
  | dist (q : List Rat)
  | dss (p : PB)
  deriving Repr, DecidableEq

def Opd.kind : Opd → Kind
  | .num _ => .num | .ivl _ _ => .ivl | .pbox _ => .pbox | .dist _ => .dist | .dss _ => .dss

/-- result of an expression: a Python number, an `Interval`, or a `Staircase` -/
inductive Res where
  | num (c : Rat)
  | ivl (a b : Rat)
  | pbox (p : PB)
  deriving Repr, DecidableEq

/-! ## embeddings -/

/-- `Interval(a,b).to_pbox()` bounds: `np.repeat(lo, steps)`, `np.repeat(hi, steps)` -/
def ofIvl (n : Nat) (a b : Rat) : PB := ⟨List.replicate n a, List.replicate n b⟩
def ofReal (n : Nat) (c : Rat) : PB := ofIvl n c c
/-- precise distribution: both bounds are the quantile list -/
def ofDist (q : List Rat) : PB := ⟨q, q⟩

/-- `Interval.to_pbox`: `Staircase(left=np.repeat(lo,steps), right=np.repeat(hi,steps))` (arrays) -/
def ivlToPbox (steps : Nat) (a b : Rat) : Except Err PB :=
  mk steps false (List.replicate steps a) (List.replicate steps b)

/-- `pbox_abc.convert_pbox` -/
def convertPbox (steps : Nat) : Opd → Except Err PB
  | .num _ => .error .Type
  | .ivl a b => ivlToPbox steps a b
  | .pbox p => .ok p
  | .dist q => .ok (ofDist q)
  | .dss p => .ok p

/-- `operation.convert`: a number becomes `Interval(un, un).to_pbox()` -/
def convert (steps : Nat) : Opd → Except Err PB
  | .num c => ivlToPbox steps c c
  | o => convertPbox steps o

/-! ## `-other` and `1 / other` as evaluated by the operand's own class -/

def negOpd (steps : Nat) : Opd → Except Err Opd
  | .num c => .ok (.num (-c))
  | .ivl a b => .ok (.ivl (-b) (-a))
  | .pbox p => do let r ← neg steps p; pure (.pbox r)
  | .dist q => do let r ← neg steps (ofDist q); pure (.pbox r)
  | .dss p => do let r ← neg steps p; pure (.pbox r)

/-- a bare `except:` turning every failure into `NotImplemented`, hence `TypeError` -/
def tryType {α : Type} : Except Err α → Except Err α
  | .ok v => .ok v
  | .error _ => .error .Type

/-- `1 * p.reciprocal()` inside `try … except: return NotImplemented` -/
def oneOverPB (steps : Nat) (p : PB) : Except Err PB :=
  tryType (do let r ← recip steps p; numberOp steps (· * ·) r 1)

def oneOver (steps : Nat) : Opd → Except Err Opd
  | .num c => if c = 0 then .error .ZeroDivision else .ok (.num (1 / c))
  | .ivl a b => if a ≤ 0 ∧ b ≥ 0 then .error .ZeroDivision else .ok (.ivl (1 / b) (1 / a))
  | .pbox p => do let r ← oneOverPB steps p; pure (.pbox r)
  | .dist q => do let r ← oneOverPB steps (ofDist q); pure (.pbox r)
  | .dss p => do let r ← oneOverPB steps p; pure (.pbox r)

/-! ## the four methods of `Pbox` with an operand of any kind -/

def pboxAdd (steps : Nat) (d : Dep) (self : PB) : Opd → Except Err PB
  | .num c => numberOp steps (· + ·) self c
  | o => do let y ← convertPbox steps o; add steps d self y

def pboxSub (steps : Nat) (d : Dep) (self : PB) (o : Opd) : Except Err PB := do
  let no ← negOpd steps o
  pboxAdd steps (swapPO d) self no

def pboxMul (steps : Nat) (d : Dep) (self : PB) : Opd → Except Err PB
  | .num c => numberOp steps (· * ·) self c
  | o => do let y ← convertPbox steps o; mul steps d self y

def pboxDiv (steps : Nat) (d : Dep) (self : PB) (o : Opd) : Except Err PB := do
  let r ← oneOver steps o
  pboxMul steps (swapPO d) self r

/-- `P.<op>(other, dependency=d)` -/
def method (steps : Nat) (o : Op) (d : Dep) (self : PB) (other : Opd) : Except Err PB :=
  match o with
  | .add => pboxAdd steps d self other
  | .sub => pboxSub steps d self other
  | .mul => pboxMul steps d self other
  | .div => pboxDiv steps d self other

/-- reflected operators of a p-box `P` for a left operand `l` (number or interval):
`l + P = P.add(l)`, `l - P = (-P).add(l)`, `l * P = P.mul(l)`,
`l / P = l * P.reciprocal()` (→ `P.reciprocal().mul(l)`) inside a bare `try` -/
def reflected (steps : Nat) (o : Op) (d : Dep) (l : Opd) (self : PB) : Except Err PB :=
  match o with
  | .add => pboxAdd steps d self l
  | .sub => do let np ← neg steps self; pboxAdd steps d np l
  | .mul => pboxMul steps d self l
  | .div => tryType (do let r ← recip steps self; pboxMul steps d r l)

def toArith : Op → Arith.BinOp
  | .add => .add | .sub => .sub | .mul => .mul | .div => .div

def opdArith : Opd → Option Arith.Opd
  | .num c => some (.N c)
  | .ivl a b => some (.I a b)
  | _ => none

def resOfArith : Except Err Arith.Opd → Except Err Res
  | .ok (.I a b) => .ok (.ivl a b)
  | .ok (.N c) => .ok (.num c)
  | .ok _ => .error .Other
  | .error e => .error e

/-- Python number arithmetic -/
def native (o : Op) (x y : Rat) : Except Err Res :=
  match o with
  | .add => .ok (.num (x + y))
  | .sub => .ok (.num (x - y))
  | .mul => .ok (.num (x * y))
  | .div => if y = 0 then .error .ZeroDivision else .ok (.num (x / y))

/-- both operands numbers or intervals: Python / C01 interval arithmetic -/
def lowOp (o : Op) : Opd → Opd → Except Err Res
  | .num x, .num y => native o x y
  | l, r =>
    match opdArith l, opdArith r with
    | some x, some y => resOfArith (Arith.binop (toArith o) x y)
    | _, _ => .error .Other

/-- the Python expression `l op r` under the ambient dependency `d` -/
def evalOp (steps : Nat) (d : Dep) (o : Op) (l r : Opd) : Except Err Res :=
  match opdArith l, opdArith r with
  | some _, some _ => lowOp o l r
  -- left operand a number or an interval: its forward method returns NotImplemented
  | some _, none => do
      let p ← convertPbox steps r
      let z ← reflected steps o d l p
      pure (.pbox z)
  -- left operand a p-box, a distribution or a DS structure: converted, then the p-box method
  | none, _ => do
      let p ← convertPbox steps l
      let z ← method steps o d p r
      pure (.pbox z)

/-! ## specification: convert every operand first -/

/-- "convert every operand first": both operands through `operation.convert`, then the p-box
operation under the same dependency -/
def spec (steps : Nat) (d : Dep) (o : Op) (l r : Opd) : Except Err PB := do
  let x ← convert steps l
  let y ← convert steps r
  binop steps o d x y

/-- the routes of the dispatch graph -/
inductive Route where
  | native      -- Python numbers
  | interval    -- C01 interval arithmetic
  | pboxFwd     -- left operand converted, `Pbox.<op>(right)`
  | pboxRefl    -- right operand converted, `Pbox.__r<op>__(left)`
  deriving DecidableEq, Repr

def isLow : Kind → Bool
  | .num => true | .ivl => true | _ => false

/-- which code path the expression `l op r` takes, by kinds -/
def route (l : Kind) (_o : Op) (r : Kind) : Route :=
  if isLow l && isLow r then (if l = .num && r = .num then .native else .interval)
  else if isLow l then .pboxRefl else .pboxFwd

/-! ## histories: an operation applied to the result of a mixed-kind operation -/

/-- the Python object an expression returned, as an operand of the next expression -/
def Res.toOpd : Res → Opd
  | .num c => .num c
  | .ivl a b => .ivl a b
  | .pbox p => .pbox p

inductive Shape where
  | left    -- (a op1 b) op2 c
  | right   -- a op1 (b op2 c)
  | reuse   -- (a op1 b) op2 a
  deriving DecidableEq, Repr

/-- two chained Python expressions under one ambient dependency -/
def evalChain (steps : Nat) (d : Dep) (sh : Shape) (o1 o2 : Op) (a b c : Opd) : Except Err Res :=
  match sh with
  | .left => do let r ← evalOp steps d o1 a b; evalOp steps d o2 r.toOpd c
  | .right => do let r ← evalOp steps d o2 b c; evalOp steps d o1 a r.toOpd
  | .reuse => do let r ← evalOp steps d o1 a b; evalOp steps d o2 r.toOpd a

/-- the same history with every operand converted first -/
def specChain (steps : Nat) (d : Dep) (sh : Shape) (o1 o2 : Op) (a b c : Opd) : Except Err PB := do
  let x ← convert steps a
  let y ← convert steps b
  let z ← convert steps c
  match sh with
  | .left => do let r ← binop steps o1 d x y; binop steps o2 d r z
  | .right => do let r ← binop steps o2 d y z; binop steps o1 d x r
  | .reuse => do let r ← binop steps o1 d x y; binop steps o2 d r x

end Pun.Hier
