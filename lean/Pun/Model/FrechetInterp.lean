import Pun.Model.PBox
/-!
# A small interpreter for the loop of `operation.frechet_op`

`harness/pv/translator/frechet.py` extracts from the source of `frechet_op` the two index ranges of each
half of the loop body (`np.arange(start, stop, step)` with bounds affine in the loop variable `i` and the
number of steps `n`), the reduction (`np.min` / `np.max`), the bound arrays read (`x.left`, `y.right` …),
whether the outputs are sorted and in which order they are returned, and writes them as a `Spec`
(`Pun/Gen/FrechetGen.lean`).  `frechetGen spec` below executes such a specification;
`Pun/Props/C02Gen.lean` proves that for the specification extracted from the CURRENT source it is the
hand model `Pun.PBox.frechetOp`, the function all C02/C03 theorems are about.  Import-free.
-/
namespace Pun.FrechetInterp
open Pun Pun.PBox

/-- `c0 + ci * i + cn * n` -/
structure Aff where
  c0 : Int
  ci : Int
  cn : Int
  deriving Repr, DecidableEq

def Aff.eval (a : Aff) (i n : Nat) : Int := a.c0 + a.ci * (i : Int) + a.cn * (n : Int)

inductive Red where | min | max
  deriving Repr, DecidableEq
inductive Side where | left | right
  deriving Repr, DecidableEq

def Side.of : Side → PB → List Rat
  | .left, p => p.left
  | .right, p => p.right

def Red.ap : Red → List Rat → Rat
  | .min, l => minL 0 l
  | .max, l => maxL 0 l

/-- `np.arange(s, e, step)` for `step = ±1` (any other step: not in the recognised form) -/
def arange (s e step : Int) : List Int :=
  if step = 1 then (List.range (e - s).toNat).map (fun (t : Nat) => s + Int.ofNat t)
  else if step = -1 then (List.range (s - e).toNat).map (fun (t : Nat) => s - Int.ofNat t)
  else []

/-- fancy indexing `a[idx]`, with numpy's wrap-around for negative indices -/
def gather (a : List Rat) (idx : List Int) : List Rat :=
  idx.map (fun k => if 0 ≤ k then a.getD k.toNat 0 else a.getD (a.length - (-k).toNat) 0)

/-- one half of the loop body: `out[i] = red(op(X.side[j], Y.side[k]))` -/
structure Half where
  jS : Aff
  jE : Aff
  jStep : Int
  kS : Aff
  kE : Aff
  kStep : Int
  red : Red
  sideX : Side
  sideY : Side
  deriving Repr, DecidableEq

structure Spec where
  left : Half
  right : Half
  sortLeft : Bool
  sortRight : Bool
  /-- `return nleft, nright` (true) or `return nright, nleft` (false) -/
  leftFirst : Bool
  deriving Repr, DecidableEq

def half (h : Half) (op : Rat → Rat → Rat) (x y : PB) : List Rat :=
  let a := h.sideX.of x
  let b := h.sideY.of y
  let n := a.length
  (List.range n).map (fun i =>
    h.red.ap (List.zipWith op (gather a (arange (h.jS.eval i n) (h.jE.eval i n) h.jStep))
                              (gather b (arange (h.kS.eval i n) (h.kE.eval i n) h.kStep))))

def frechetGen (s : Spec) (op : Rat → Rat → Rat) (x y : PB) : List Rat × List Rat :=
  let l := half s.left op x y
  let r := half s.right op x y
  let l := if s.sortLeft then sortR l else l
  let r := if s.sortRight then sortR r else r
  if s.leftFirst then (l, r) else (r, l)

/-! ## the corner rules `perfect_op`, `opposite_op`, `independent_op`

Each builds four arrays of corner combinations `op(x.<bound>, y.<bound>)` (elementwise, or over the `n × n`
grid through `vectorized_cartesian_op`), optionally with `y`'s bounds flipped first, reduces them elementwise
with `np.minimum.reduce` / `np.maximum.reduce`, sorts and returns the pair. -/

structure CornerSpec where
  c1 : Side × Side
  c2 : Side × Side
  c3 : Side × Side
  c4 : Side × Side
  /-- `np.flip(y.left)`, `np.flip(y.right)` are used instead of `y.left`, `y.right` -/
  flipY : Bool
  /-- corners over the grid (`vectorized_cartesian_op`) instead of elementwise -/
  grid : Bool
  redLeft : Red
  redRight : Red
  sortLeft : Bool
  sortRight : Bool
  deriving Repr, DecidableEq

def red4 : Red → List Rat → List Rat → List Rat → List Rat → List Rat
  | .min, a, b, c, d => zip4 min4 a b c d
  | .max, a, b, c, d => zip4 max4 a b c d

def cornerGen (s : CornerSpec) (op : Rat → Rat → Rat) (x y : PB) : List Rat × List Rat :=
  let y' : PB := if s.flipY then ⟨y.left.reverse, y.right.reverse⟩ else y
  let col := fun (c : Side × Side) =>
    if s.grid then cartesian op (c.1.of x) (c.2.of y') else List.zipWith op (c.1.of x) (c.2.of y')
  let l := red4 s.redLeft (col s.c1) (col s.c2) (col s.c3) (col s.c4)
  let r := red4 s.redRight (col s.c1) (col s.c2) (col s.c3) (col s.c4)
  (if s.sortLeft then sortR l else l, if s.sortRight then sortR r else r)

end Pun.FrechetInterp
