import Pun.Model.PBox
/-!
# C06 additions to the p-box model: constant kinds, unary maps, number powers

`numberOp`, `neg`, `recip`, `numRight`, `numLeft`, `unaryTemplate` live in `Pun.Model.PBox`.
Here:

* `CKind` — the Python type of the real constant (`int`, `float`, `numpy.float64`, `numpy.int64`).
  Every kind passes `isinstance(c, Number)`; the only place where the kind matters is `P / 0`:
  `1 / 0` raises `ZeroDivisionError` for Python numbers, while `1 / numpy.float64(0)` is `inf`
  and the product `P * inf` is rejected by the constructor (generic `Exception`).
  With the constant on the left numpy first calls `Pbox.__array_ufunc__`, which (fixed code)
  routes `+ - * /` to the reflected operators, so `numLeftK` does not depend on the kind.
* `expP`, `logP`, `sqrtP` — `_unary_template(f)`: the values `f(left)`, `f(right)` are supplied
  (transcendental functions are parameters), the guards are the code's.
* `numberOpW` — `pbox_number_ops` with the values `f(left, c)`, `f(right, c)` supplied
  (non-integer powers); `powNat` — `P ** k` for a natural `k`, number branch of `Pbox.pow`
  (operand not straddling zero; the straddling branch goes through `Interval.__pow__` and
  `stacking` and is not modelled: `none`).
-/
namespace Pun.PBox
open Pun

inductive CKind where | pyInt | pyFloat | npFloat | npInt deriving DecidableEq, Repr

def CKind.isNp : CKind → Bool
  | .npFloat => true | .npInt => true | _ => false

/-- `P op c` for a constant of kind `k` -/
def numRightK (steps : Nat) (k : CKind) (o : Op) (p : PB) (c : Rat) : Except Err PB :=
  match o with
  | .div => if c = 0 then (if k.isNp then .error .Other else .error .ZeroDivision)
            else numRight steps .div p c
  | o => numRight steps o p c

/-- `c op P` for a constant of kind `k` (reflected operators; numpy scalars arrive through
`__array_ufunc__`) -/
def numLeftK (steps : Nat) (_k : CKind) (o : Op) (c : Rat) (p : PB) : Except Err PB :=
  match o with
  | .div =>
    -- `__rtruediv__`: `try: return other * self.reciprocal()  except: return NotImplemented`,
    -- so every failure of the reciprocal surfaces as `TypeError`
    match numLeft steps .div c p with
    | .ok r => .ok r
    | .error _ => .error .Type
  | o => numLeft steps o c p

/-- `pbox_number_ops` on supplied values `fl = f(left, c)`, `fr = f(right, c)` -/
def numberOpW (steps : Nat) (fl fr : List Rat) : Except Err PB :=
  mk steps true (sortR fl) (sortR fr)

/-- `P.exp()`: `_unary_template(np.exp)` -/
def expP (steps : Nat) (_p : PB) (fl fr : List Rat) : Except Err PB := unaryTemplate steps fl fr

/-- `P.log()`: raises `ValueError` when `P.lo <= 0` -/
def logP (steps : Nat) (p : PB) (fl fr : List Rat) : Except Err PB :=
  if lo p ≤ 0 then .error .Value else unaryTemplate steps fl fr

/-- `P.sqrt()`: a negative bound gives `nan`, which the constructor rejects (`Exception`) -/
def sqrtP (steps : Nat) (p : PB) (fl fr : List Rat) : Except Err PB :=
  if p.left.any (fun x => decide (x < 0)) || p.right.any (fun x => decide (x < 0)) then .error .Other
  else unaryTemplate steps fl fr

/-- `P ** k`, `k` a natural number, number branch (`none`: straddling operand, not modelled) -/
def powNat (steps : Nat) (p : PB) (k : Nat) : Option (Except Err PB) :=
  if straddlesZero p then none else some (numberOp steps (fun x _ => x ^ k) p 0)

/-- `P ** c` with the values `left ** c`, `right ** c` supplied -/
def powW (steps : Nat) (p : PB) (fl fr : List Rat) : Option (Except Err PB) :=
  if straddlesZero p then none else some (numberOpW steps fl fr)

end Pun.PBox
