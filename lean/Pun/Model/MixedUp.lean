import Pun.Model.B2B
import Pun.Model.Dss
/-!
# C14 model: `propagation/mixed_up.py` — `slicing` and `interval_monte_carlo`

Both functions cut every input p-box at one probability level per input
(`Pbox.alpha_cut`: nearest level of the `Params.p_values` grid, `argmin` = first
on ties), send the box of cuts through `b2b`, and hand the list of image
intervals to `stacking`.  The model returns that list (the focal elements of the
output, equal weights); the copula sample of interval Monte Carlo is an input.
-/
namespace Pun.MixedUp
open Pun Pun.Arith Pun.Expr Pun.B2B

structure PB where
  left : List Rat
  right : List Rat
  deriving Repr

/-- index of the first minimal element (`numpy.argmin`); 0 on the empty list -/
def argminFirst : List Rat → Nat
  | [] => 0
  | x :: xs =>
    let rec go (best : Rat) (bi : Nat) (i : Nat) : List Rat → Nat
      | [] => bi
      | y :: ys => if y < best then go y i (i + 1) ys else go best bi (i + 1) ys
    go x 0 1 xs

def absR (x : Rat) : Rat := if x < 0 then -x else x

/-- `find_nearest(Params.p_values, alpha)` for a scalar alpha -/
def findNearest (pv : List Rat) (a : Rat) : Nat := argminFirst (pv.map (fun p => absR (p - a)))

/-- `Pbox.alpha_cut(alpha)`: `Interval(left[ind], right[ind])` -/
def alphaCut (pv : List Rat) (P : PB) (a : Rat) : Except Err (Rat × Rat) :=
  let i := findNearest pv a
  match P.left[i]?, P.right[i]? with
  | some l, some r => if l ≤ r then .ok (l, r) else .error .Assertion
  | _, _ => .error .Index

/-- `[v.alpha_cut(a) for v, a in zip(vars, row)]` -/
def cutBox (pv : List Rat) (vars : List PB) (row : List Rat) : Except Err Box :=
  (vars.zip row).mapM (fun va => alphaCut pv va.1 va.2)

/-- the loop shared by `slicing` and `interval_monte_carlo`: one `b2b` image per row of levels -/
def propagate (φ : UFun → Rat → Rat) (e : Expr) (pv : List Rat) (vars : List PB) (levels : List (List Rat))
    (s : Strategy) (style : Option Style) (n : Option Nat) : Except Err (List Val) :=
  levels.mapM (fun row => do
    let box ← cutBox pv vars row
    b2b φ e .list box s style n)

/-- `np.linspace(p_lboundary, p_hboundary, k)` in exact arithmetic -/
def gridLevels (pl ph : Rat) (k : Nat) : List Rat := (List.range k).map (fun i => knot pl ph (k - 1) i)

/-- `make_u_sample`: meshgrid (`ij`) of `d` copies of the grid, reshaped to `(k^d, d)` -/
def levelTuples (grid : List Rat) (d : Nat) : List (List Rat) := prodL (List.replicate d grid)

def slicing (φ : UFun → Rat → Rat) (e : Expr) (pv : List Rat) (vars : List PB) (grid : List Rat)
    (s : Strategy) (style : Option Style) (n : Option Nat) : Except Err (List Val) :=
  propagate φ e pv vars (levelTuples grid vars.length) s style n

/-- `interval_monte_carlo` given the copula sample `levels` (`dependency.u_sample(n_sam, seed)`) -/
def imc (φ : UFun → Rat → Rat) (e : Expr) (pv : List Rat) (vars : List PB) (levels : List (List Rat))
    (s : Strategy) (style : Option Style) (n : Option Nat) : Except Err (List Val) :=
  propagate φ e pv vars levels s style n

/-- `stacking(container)` of `pba/aggregation.py` with `weights=None`: the C08 model `Pun.Dss.stacking` on the
grid `g = Params.p_values`, fed with the lower and the upper ends of the focal images (equal masses `1/N`) -/
def stackOut (g : List Rat) (out : List Val) : Except Err Dss.PB :=
  Dss.stacking g (out.map Val.lo) (out.map Val.hi) none

/-- `slicing(...)` as returned to the caller: the p-box stacked from the focal images -/
def slicingPbox (φ : UFun → Rat → Rat) (e : Expr) (pv : List Rat) (vars : List PB) (grid : List Rat)
    (s : Strategy) (style : Option Style) (n : Option Nat) : Except Err Dss.PB := do
  let out ← slicing φ e pv vars grid s style n
  stackOut pv out

/-- `interval_monte_carlo(...)` as returned to the caller -/
def imcPbox (φ : UFun → Rat → Rat) (e : Expr) (pv : List Rat) (vars : List PB) (levels : List (List Rat))
    (s : Strategy) (style : Option Style) (n : Option Nat) : Except Err Dss.PB := do
  let out ← imc φ e pv vars levels s style n
  stackOut pv out

/-- driver glue: the `φ` values read -/
def queriesMix (φ : UFun → Rat → Rat) (e : Expr) (pv : List Rat) (vars : List PB) (levels : List (List Rat))
    (s : Strategy) (style : Option Style) (n : Option Nat) : List (UFun × Rat) :=
  levels.flatMap (fun row =>
    match cutBox pv vars row with
    | .ok box => queries φ e box s style n
    | .error _ => [])

end Pun.MixedUp
