import Pun.Model.Proto
/-!
# Shared model of the probability-grid machinery (C08, C18)

* `getEcdf`     — `pba/ecdf.py get_ecdf` : sort the sample by value, cumulate the weights,
                  prepend the first value at level 0.  An ecdf is a list of points `(p, q)`.
* `extendEcdf`  — `pba/utils.py extend_ecdf` : add level 0 / level 1 when missing.
* `interpNext`  — `scipy interp1d(kind="next", fill_value=(q[0], q[-1]), bounds_error=False)`
                  as called by `pba/constructors.py interpolate_p` : stable sort by `p`, then the
                  value at the first `p_j ≥ x`.
* `findNearest` — `pba/utils.py find_nearest` : index of the FIRST minimiser of `|a_j − v|`.

Everything is generic in the grid; the driver passes `Pun.Gen.pValues` (regenerated from
`params.py`).  No Mathlib.
-/
namespace Pun.Grid

/-- stable sort of pairs by first component (value order of `argsort`; ties keep list order —
numpy's default sort is not stable, but tied keys carry the same value so no output depends on it) -/
def sortByFst (l : List (Rat × Rat)) : List (Rat × Rat) :=
  l.mergeSort (fun a b => decide (a.1 ≤ b.1))

/-- `(value, cumulated weight)` along a list of `(value, weight)` -/
def cumW : List (Rat × Rat) → Rat → List (Rat × Rat)
  | [], _ => []
  | (s, w) :: r, acc => (s, acc + w) :: cumW r (acc + w)

def swap (x : Rat × Rat) : Rat × Rat := (x.2, x.1)

/-- `get_ecdf(s, w)` as points `(p, q)`; the empty sample is rejected by the code (IndexError) -/
def getEcdf (s w : List Rat) : Option (List (Rat × Rat)) :=
  match sortByFst (s.zip w) with
  | [] => none
  | (s0, w0) :: r => some ((0, s0) :: (cumW ((s0, w0) :: r) 0).map swap)

/-- `np.repeat(1/N, N)` -/
def equalW (n : Nat) : List Rat := List.replicate n (1 / (n : Rat))

def lastPt : List (Rat × Rat) → Option (Rat × Rat)
  | [] => none
  | [x] => some x
  | _ :: y :: r => lastPt (y :: r)

/-- `extend_ecdf` -/
def extendEcdf (e : List (Rat × Rat)) : List (Rat × Rat) :=
  let e1 := match e with
    | (p0, q0) :: _ => if p0 ≠ 0 then (0, q0) :: e else e
    | [] => e
  match lastPt e1 with
  | some (pl, ql) => if pl ≠ 1 then e1 ++ [(1, ql)] else e1
  | none => e1

/-- value at the first point whose level reaches `x` -/
def firstGE : List (Rat × Rat) → Rat → Option Rat
  | [], _ => none
  | (p, q) :: r, x => if x ≤ p then some q else firstGE r x

/-- `interp1d(p, q, kind="next", fill_value=(q[0], q[-1]), bounds_error=False)(x)` : outside the given
levels the first / last quantile of the arrays as passed (a1b7679) -/
def interpNext (e : List (Rat × Rat)) (x : Rat) : Option Rat :=
  match e, lastPt e with
  | (_, p0) :: _, some (_, pl) =>
    let se := sortByFst e
    match se, lastPt se with
    | (lo, _) :: _, some (hi, _) =>
      if x < lo then some p0 else if hi < x then some pl else firstGE se x
    | _, _ => none
  | _, _ => none

def mapOpt (f : Rat → Option Rat) : List Rat → Option (List Rat)
  | [] => some []
  | x :: r =>
    match f x, mapOpt f r with
    | some a, some l => some (a :: l)
    | _, _ => none

/-- one bound of `Staircase.from_CDFbundle`: the extended ecdf looked up at every grid level -/
def bound (g : List Rat) (e : List (Rat × Rat)) : Option (List Rat) :=
  mapOpt (interpNext (extendEcdf e)) g

/-! ## nearest index -/

def absR (x : Rat) : Rat := if 0 ≤ x then x else -x

/-- `(index, distance)` of the first minimiser of `|a_j − v|` (numpy `argmin` returns the first) -/
def nearestGo (v : Rat) : List Rat → Option (Nat × Rat)
  | [] => none
  | a :: r =>
    match nearestGo v r with
    | none => some (0, absR (a - v))
    | some (k, d) => if absR (a - v) ≤ d then some (0, absR (a - v)) else some (k + 1, d)

/-- `find_nearest(array, value)` for one value; `none` = empty array (numpy raises) -/
def findNearest (arr : List Rat) (v : Rat) : Option Nat := (nearestGo v arr).map (·.1)

end Pun.Grid
