import Pun.Model.Proto
/-!
# P-box model: `pba/operation.py` and the arithmetic of `pba/pbox_abc.py`

A p-box is a pair of bound lists (`left`, `right`), one entry per probability
step.  Everything is exact (`Rat`); the number of steps is the length of the
lists (the library fixes it at `Params.steps = 200`, the model and the
theorems are for any `n`).  Transcribed as the code is, including:

* `frechet_op`: `left[i] = max_{j ≤ i} op x.left[j] y.left[i-j]`,
  `right[i] = min_{i ≤ j} op x.right[j] y.right[n-1+i-j]`, then sort;
* `left_right_switch`: whole-array swap when `all (left ≥ right)` for arrays,
  **lexicographic `≥` for Python lists** (`__neg__`, `pbox_number_ops`, `imp`
  pass lists);
* the sign routing of the Frechet product, `balchprod`, subtraction and
  division through negation / reciprocal with the `p ↔ o` swap.
-/
namespace Pun.PBox
open Pun

structure PB where
  left : List Rat
  right : List Rat
  deriving Repr, DecidableEq, Inhabited

inductive Dep where | f | p | o | i | unknown deriving DecidableEq, Repr
inductive Op where | add | sub | mul | div deriving DecidableEq, Repr

/-! ## constructor -/

def isIncreasing : List Rat → Bool
  | [] => true
  | [_] => true
  | a :: b :: t => decide (a ≤ b) && isIncreasing (b :: t)

/-- `numpy.all(left >= right)` on arrays -/
def allGe (l r : List Rat) : Bool := (l.zip r).all (fun p => decide (p.1 ≥ p.2))

/-- Python `left >= right` on lists: lexicographic -/
def lexGe : List Rat → List Rat → Bool
  | [], [] => true
  | [], _ :: _ => false
  | _ :: _, [] => true
  | a :: s, b :: t => if a > b then true else if a < b then false else lexGe s t

/-- `condensation_bound`: `indices = linspace(0, len-1, n, dtype=int)` -/
def condenseIdx (len n k : Nat) : Nat :=
  if n ≤ 1 then 0 else (k * (len - 1)) / (n - 1)

def condense (n : Nat) (b : List Rat) : List Rat :=
  (List.range n).map (fun k => b.getD (condenseIdx b.length n k) 0)

/-- `bound_steps_check` (only the condensation direction is modelled here;
the `'next'` interpolation for shorter bounds lives in the grid model) -/
def boundSteps (steps : Nat) (b : List Rat) : Except Err (List Rat) :=
  if b.length > steps then .ok (condense steps b)
  else if b.length < steps then .error .Other
  else .ok b

/-- `Staircase(left, right)`; `lists = true` when both arguments are Python lists -/
def mk (steps : Nat) (lists : Bool) (l r : List Rat) : Except Err PB := do
  let sw := if lists then lexGe l r else (if l.length = r.length then allGe l r else false)
  let (l, r) := if sw then (r, l) else (l, r)
  let l ← boundSteps steps l
  let r ← boundSteps steps r
  if l.length ≠ r.length then .error .Assertion
  else if !(isIncreasing l) || !(isIncreasing r) then .error .Other
  else if (l.zip r).any (fun p => decide (p.1 > p.2)) then .error .Other   -- bounds must not cross
  else .ok ⟨l, r⟩

/-! ## elementary binary operations on reals -/

def Op.ap : Op → Rat → Rat → Rat
  | .add, x, y => x + y
  | .sub, x, y => x - y
  | .mul, x, y => x * y
  | .div, x, y => x / y

/-! ## the four combination rules of `operation.py` (raw, before the constructor) -/

def frechetLeftRaw (op : Rat → Rat → Rat) (a b : List Rat) : List Rat :=
  (List.range a.length).map (fun i =>
    maxL 0 (List.zipWith op (a.take (i + 1)) ((b.take (i + 1)).reverse)))

def frechetRightRaw (op : Rat → Rat → Rat) (a b : List Rat) : List Rat :=
  (List.range a.length).map (fun i =>
    minL 0 (List.zipWith op (a.drop i) ((b.drop i).reverse)))

/-- `frechet_op` -/
def frechetOp (op : Rat → Rat → Rat) (x y : PB) : List Rat × List Rat :=
  (sortR (frechetLeftRaw op x.left y.left), sortR (frechetRightRaw op x.right y.right))

def min4 (a b c d : Rat) : Rat := min (min (min a b) c) d
def max4 (a b c d : Rat) : Rat := max (max (max a b) c) d

def zip4 (f : Rat → Rat → Rat → Rat → Rat) : List Rat → List Rat → List Rat → List Rat → List Rat
  | a :: as, b :: bs, c :: cs, d :: ds => f a b c d :: zip4 f as bs cs ds
  | _, _, _, _ => []

/-- focal pairs combined by interval arithmetic: four-corner minima and maxima, elementwise -/
def cornerPair (op : Rat → Rat → Rat) (xl xr yl yr : List Rat) : List Rat × List Rat :=
  let c1 := List.zipWith op xl yl
  let c2 := List.zipWith op xl yr
  let c3 := List.zipWith op xr yl
  let c4 := List.zipWith op xr yr
  (zip4 min4 c1 c2 c3 c4, zip4 max4 c1 c2 c3 c4)

/-- `perfect_op`: step `k` of `x` with step `k` of `y` -/
def perfectOp (op : Rat → Rat → Rat) (x y : PB) : List Rat × List Rat :=
  let (l, r) := cornerPair op x.left x.right y.left y.right
  (sortR l, sortR r)

/-- `opposite_op`: step `k` of `x` with step `n-1-k` of `y` -/
def oppositeOp (op : Rat → Rat → Rat) (x y : PB) : List Rat × List Rat :=
  let (l, r) := cornerPair op x.left x.right y.left.reverse y.right.reverse
  (sortR l, sortR r)

/-- `vectorized_cartesian_op a b op = op(a[:,None], b).ravel()` -/
def cartesian (op : Rat → Rat → Rat) (a b : List Rat) : List Rat :=
  a.flatMap (fun x => b.map (fun y => op x y))

/-- corner minima / maxima over the `n²` grid, sorted -/
def cornersSorted (op : Rat → Rat → Rat) (x y : PB) : List Rat × List Rat :=
  let c1 := cartesian op x.left y.left
  let c2 := cartesian op x.left y.right
  let c3 := cartesian op x.right y.left
  let c4 := cartesian op x.right y.right
  (sortR (zip4 min4 c1 c2 c3 c4), sortR (zip4 max4 c1 c2 c3 c4))

/-- `independent_op` (length `n²`; the constructor condenses to `n`) -/
def independentOp (op : Rat → Rat → Rat) (x y : PB) : List Rat × List Rat := cornersSorted op x y

/-- `new_vectorised_naive_frechet_op`: first `n` of the sorted minima, last `n` of the sorted maxima -/
def naiveOp (op : Rat → Rat → Rat) (x y : PB) : List Rat × List Rat :=
  let n := x.left.length
  let (zu, zd) := cornersSorted op x y
  (zu.take n, zd.drop (n * n - n))

/-! ## unary: negation, reciprocal, number operand -/

/-- `__neg__`: `Staircase(left=sorted(-flip(right)), right=sorted(-flip(left)))` (lists) -/
def neg (steps : Nat) (p : PB) : Except Err PB :=
  mk steps true (sortR (p.right.reverse.map (- ·))) (sortR (p.left.reverse.map (- ·)))

def hasZero (l : List Rat) : Bool := l.any (· == 0)

/-- `straddles_zero()`: `lo < 0 < hi` on the reported support -/
def straddlesZero (p : PB) : Bool := decide (minL 0 p.left < 0) && decide (maxL 0 p.right > 0)

/-- `reciprocal`: raises `ZeroDivisionError` when the support straddles zero, otherwise
`Staircase(left=1/flip(right), right=1/flip(left))` (arrays, not sorted).
A zero bound gives `inf` in numpy; not representable here -/
def recip (steps : Nat) (p : PB) : Except Err PB :=
  if straddlesZero p then .error .ZeroDivision
  else if hasZero p.left || hasZero p.right then .error .Value
  else mk steps false (p.right.reverse.map (1 / ·)) (p.left.reverse.map (1 / ·))

/-- `pbox_number_ops(pbox, n, f)`: `sorted(f(left, n))`, `sorted(f(right, n))` (lists) -/
def numberOp (steps : Nat) (f : Rat → Rat → Rat) (p : PB) (c : Rat) : Except Err PB :=
  mk steps true (sortR (p.left.map (f · c))) (sortR (p.right.map (f · c)))

/-- `_unary_template(f)` for a function given by its values on the two bound arrays -/
def unaryTemplate (steps : Nat) (fl fr : List Rat) : Except Err PB := mk steps false fl fr

/-! ## envelope, imposition -/

def env (steps : Nat) (x y : PB) : Except Err PB :=
  mk steps false (List.zipWith min x.left y.left) (List.zipWith max x.right y.right)

/-- `imp`: raises when some step has `max(sL,oL) > min(sR,oR)`; result built from lists -/
def imp (steps : Nat) (x y : PB) : Except Err PB :=
  let u := List.zipWith max x.left y.left
  let d := List.zipWith min x.right y.right
  if (u.zip d).any (fun p => decide (p.1 > p.2)) then .error .Other
  else mk steps true u d

/-! ## the public methods `add`, `sub`, `mul`, `div` between two p-boxes -/

def lo (p : PB) : Rat := p.left.headD 0
def hi (p : PB) : Rat := p.right.getLastD 0

def classicFrechet (steps : Nat) (op : Rat → Rat → Rat) (x y : PB) : Except Err PB :=
  let (l, r) := frechetOp op x y
  mk steps false l r

/-- `nagative_frechet_pbox` -/
def negativeFrechet (steps : Nat) (x y : PB) : Except Err PB :=
  if hi x ≤ 0 || hi y ≤ 0 then do
    let a ← if hi x ≤ 0 then neg steps x else pure x
    let b ← if hi y ≤ 0 then neg steps y else pure y
    let r ← classicFrechet steps (· * ·) a b
    if (decide (hi x ≤ 0)).xor (decide (hi y ≤ 0)) then neg steps r else pure r
  else .error .Other

/-- `frechet_pbox_mul` restricted to operands that do not straddle zero -/
def frechetMulNoStraddle (steps : Nat) (x y : PB) : Except Err PB :=
  if hi x ≤ 0 || hi y ≤ 0 then negativeFrechet steps x y
  else classicFrechet steps (· * ·) x y

/-- `x.balchprod(y)` as reached from `straddle_frechet_pbox` (there `y` straddles zero).
`x - x0`, `y0 * xx0` … are number operations. -/
def balchprod (steps : Nat) (x y : PB) : Except Err PB :=
  if straddlesZero x && straddlesZero y then do
    let x0 := lo x
    let y0 := lo y
    let xx0 ← numberOp steps (· - ·) x x0
    let yy0 ← numberOp steps (· - ·) y y0
    let a ← frechetMulNoStraddle steps xx0 yy0
    let b1 ← numberOp steps (· * ·) xx0 y0
    let b2 ← numberOp steps (· * ·) yy0 x0
    let b ← classicFrechet steps (· + ·) b1 b2
    let s ← classicFrechet steps (· + ·) a b
    numberOp steps (· + ·) s (x0 * y0)
  else if straddlesZero y then do
    let y0 := lo y
    let yy0 ← numberOp steps (· - ·) y y0
    let a ← frechetMulNoStraddle steps x yy0
    let b ← numberOp steps (· * ·) x y0
    classicFrechet steps (· + ·) a b
  else .error .Other

/-- `straddle_frechet_pbox(x, y)`, `y` straddling -/
def straddleFrechet (steps : Nat) (x y : PB) : Except Err PB := do
  let (zu, zd) := naiveOp (· * ·) x y
  let nv ← mk steps false zu zd
  let bl ← balchprod steps x y
  imp steps nv bl

/-- `frechet_pbox_mul` -/
def frechetMul (steps : Nat) (x y : PB) : Except Err PB :=
  if straddlesZero x || straddlesZero y then
    if straddlesZero y then straddleFrechet steps x y else straddleFrechet steps y x
  else frechetMulNoStraddle steps x y

/-- `Pbox.add(other, dependency)` for a p-box `other` -/
def add (steps : Nat) (d : Dep) (x y : PB) : Except Err PB :=
  match d with
  | .f => let (l, r) := frechetOp (· + ·) x y; mk steps false l r
  | .p => let (l, r) := perfectOp (· + ·) x y; mk steps false l r
  | .o => let (l, r) := oppositeOp (· + ·) x y; mk steps false l r
  | .i => let (l, r) := independentOp (· + ·) x y; mk steps false l r
  | .unknown => .error .Value

def swapPO : Dep → Dep
  | .p => .o | .o => .p | d => d

/-- `Pbox.sub`: `self.add(-other, swapped dependency)` -/
def sub (steps : Nat) (d : Dep) (x y : PB) : Except Err PB := do
  let ny ← neg steps y
  add steps (swapPO d) x ny

/-- `Pbox.mul(other, dependency)` for a p-box `other` -/
def mul (steps : Nat) (d : Dep) (x y : PB) : Except Err PB :=
  match d with
  | .f => frechetMul steps x y
  | .p => let (l, r) := perfectOp (· * ·) x y; mk steps false l r
  | .o => let (l, r) := oppositeOp (· * ·) x y; mk steps false l r
  | .i => let (l, r) := independentOp (· * ·) x y; mk steps false l r
  | .unknown => .error .Unbound

/-- `Pbox.div`: `self.mul(1 / other, swapped)`; `1 / other` is `1 * other.reciprocal()`,
a number operation on the reciprocal -/
def div (steps : Nat) (d : Dep) (x y : PB) : Except Err PB :=
  -- `1 / other` is `other.__rtruediv__(1)`, whose bare `except` turns any failure into
  -- `NotImplemented`, i.e. a `TypeError` for the caller
  match (recip steps y >>= fun r => numberOp steps (· * ·) r 1) with
  | .error _ => .error .Type
  | .ok r1 => mul steps (swapPO d) x r1

def binop (steps : Nat) (o : Op) (d : Dep) (x y : PB) : Except Err PB :=
  match o with
  | .add => add steps d x y
  | .sub => sub steps d x y
  | .mul => mul steps d x y
  | .div => div steps d x y

/-! ## p-box with a real number (`C06`) -/

/-- `P op c` through the public methods -/
def numRight (steps : Nat) (o : Op) (p : PB) (c : Rat) : Except Err PB :=
  match o with
  | .add => numberOp steps (· + ·) p c
  | .sub => numberOp steps (· + ·) p (-c)          -- `pbox_number_ops(self, c, sub)`; `x - c = x + (-c)` exactly
  | .mul => numberOp steps (· * ·) p c
  | .div => if c = 0 then .error .ZeroDivision else numberOp steps (· * ·) p (1 / c)

/-- `c op P` through the reflected operators -/
def numLeft (steps : Nat) (o : Op) (c : Rat) (p : PB) : Except Err PB :=
  match o with
  | .add => numberOp steps (· + ·) p c
  | .sub => do let np ← neg steps p; numberOp steps (· + ·) np c
  | .mul => numberOp steps (· * ·) p c
  | .div => do let r ← recip steps p; numberOp steps (· * ·) r c

end Pun.PBox
