import Pun.Model.Dss
/-!
# C18 model: queries on a p-box (`pba/pbox_abc.py`)

`alphaCut`, `cdf`, `discretise`, `outerDiscretisation`, `condensation`, `getPI`, all on a grid
`g` (the driver passes `Pun.Gen.pValues`).  The level arrays `np.linspace(0.001, 0.999, n)`
are binary64 tables computed by numpy; the harness puts them on the wire (`lv`).
An `Interval(lo, hi)` built with heavy checks raises `AssertionError` unless `lo ≤ hi`.
-/
namespace Pun.Query
open Pun Pun.Grid Pun.Dss

abbrev Ivl := Rat × Rat

/-- `Interval(lo=…, hi=…)` with `do_heavy_checks` -/
def mkIvl (lo hi : Rat) : Except Err Ivl := if lo ≤ hi then .ok (lo, hi) else .error .Assertion

def getE (l : List Rat) (i : Nat) : Except Err Rat :=
  match l[i]? with | some x => .ok x | none => .error .Index

def nearestE (arr : List Rat) (v : Rat) : Except Err Nat :=
  match findNearest arr v with | some k => .ok k | none => .error .Value

/-- the two bounds at the grid level nearest to `a` (no check) -/
def cutRaw (g : List Rat) (P : PB) (a : Rat) : Except Err Ivl := do
  let k ← nearestE g a
  let l ← getE P.left k
  let r ← getE P.right k
  pure (l, r)

/-- `alpha_cut(a)` for a scalar level -/
def alphaCut (g : List Rat) (P : PB) (a : Rat) : Except Err Ivl := do
  let c ← cutRaw g P a
  mkIvl c.1 c.2

/-- elementwise evaluation, first error wins (numpy evaluates the whole array in one expression) -/
def mapE (f : Rat → Except Err Ivl) : List Rat → Except Err (List Ivl)
  | [] => .ok []
  | x :: r =>
    match f x with
    | .error e => .error e
    | .ok a =>
      match mapE f r with
      | .error e => .error e
      | .ok l => .ok (a :: l)

/-- `alpha_cut(levels)` for an array of levels: one vector Interval, `np.all(lo ≤ hi)` asserted -/
def alphaCutArr (g : List Rat) (P : PB) (lv : List Rat) : Except Err (List Ivl) := do
  let cs ← mapE (cutRaw g P) lv
  if cs.all (fun c => decide (c.1 ≤ c.2)) then pure cs else .error .Assertion

/-- `np.searchsorted(arr, x, side="right")` on a non-decreasing array: how many bounds are `≤ x` -/
def countLE : List Rat → Rat → Nat
  | [], _ => 0
  | a :: r, x => if a ≤ x then countLE r x + 1 else 0

/-- `np.clip(searchsorted(arr, x, "right") - 1, 0, last)` : the last step whose bound is `≤ x` -/
def stepOf (last : Nat) (arr : List Rat) (x : Rat) : Nat := min (countLE arr x - 1) last

/-- lower / upper cumulative probability at `x`, before the Interval check -/
def cdfRaw (g : List Rat) (P : PB) (x : Rat) : Except Err Ivl := do
  let lo ← getE g (stepOf (g.length - 1) P.right x)
  let hi ← getE g (stepOf (g.length - 1) P.left x)
  pure (lo, hi)

/-- `cdf(x)` -/
def cdf (g : List Rat) (P : PB) (x : Rat) : Except Err Ivl := do
  let c ← cdfRaw g P x
  mkIvl c.1 c.2

def cdfArr (g : List Rat) (P : PB) (xs : List Rat) : Except Err (List Ivl) := do
  let cs ← mapE (cdfRaw g P) xs
  if cs.all (fun c => decide (c.1 ≤ c.2)) then pure cs else .error .Assertion

/-- `discretise(n)`; `lv = np.linspace(0.001, 0.999, n)`; `n = none` is the default argument -/
def discretise (g : List Rat) (steps : Nat) (P : PB) (n : Option Nat) (lv : List Rat) :
    Except Err (List Ivl) :=
  if n = none ∨ n = some steps then
    if P.left.length = P.right.length ∧ allLE P.left P.right then .ok (P.left.zip P.right)
    else .error .Assertion
  else alphaCutArr g P lv

/-- `outer_discretisation(n)`: left bound at the lower level of each band, right bound at the upper
level; the two alpha-cut arrays are checked, the paired result (LightweightInterval) is not.  `lv` = the `n` levels (`g` itself when `n=None`). -/
def outerDiscretisation (g : List Rat) (P : PB) (lv : List Rat) : Except Err (List Ivl) := do
  let ls ← alphaCutArr g P lv.dropLast
  let rs ← alphaCutArr g P lv.tail
  pure ((ls.map (·.1)).zip (rs.map (·.2)))

/-- `condensation(n)` = `stacking(outer_discretisation(n))` with equal masses -/
def condensation (g : List Rat) (P : PB) (lv : List Rat) : Except Err PB := do
  let o ← outerDiscretisation g P lv
  stacking g (o.map (·.1)) (o.map (·.2)) none

/-- the two cut levels of `get_PI(alpha)` -/
def piLevels (alpha : Rat) : Rat × Rat := ((1 - alpha) / 2, 1 - (1 - alpha) / 2)

def piWidest (g : List Rat) (P : PB) (alpha : Rat) : Except Err Ivl := do
  let h ← alphaCut g P (piLevels alpha).2
  let l ← alphaCut g P (piLevels alpha).1
  mkIvl l.1 h.2

/-- `get_PI(alpha, style)`; `narrow = true` is the default style with its fall-back to 'widest' -/
def getPI (g : List Rat) (P : PB) (alpha : Rat) (narrow : Bool) : Except Err Ivl :=
  if narrow then do
    let h ← alphaCut g P (piLevels alpha).2
    let l ← alphaCut g P (piLevels alpha).1
    if l.2 ≤ h.1 then pure (l.2, h.1) else piWidest g P alpha
  else piWidest g P alpha

end Pun.Query
