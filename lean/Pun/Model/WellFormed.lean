import Pun.Model.PBox
/-!
# C04 model: the `Pbox` constructor in full, and expression histories

`Pun.PBox` (shared) holds the arithmetic of `pba/pbox_abc.py` / `pba/operation.py`.  This file adds what
"every p-box handed to the user is well formed" needs on top of it:

* the constructor `Pbox.__init__` + `post_init_check` **in full** (`mkN`): `left_right_switch`
  (numpy `all(left >= right)` with broadcasting of a length-one array, Python's lexicographic `>=` when
  both arguments are lists), `bound_steps_check` in both directions (condensation for longer bounds,
  `interpolate_p(linspace(p_lo, p_hi, len), bound)` with `kind="next"` for shorter ones; outside the knots the
  end values are returned — `fix:` commit "interpolate_p fills … with the end quantiles"), the length
  assertion, `is_increasing` on both bounds, and the order check `left ≤ right` at every step
  (`fix:` commit "Pbox constructor rejects bounds that cross");
* NaN: bound entries are `Option Rat`, `none` = NaN, every comparison with `none` is `false`
  (`np.diff(arr) >= 0`, `left >= right`);
* the `1 / other` detour of `div` / `__rtruediv__` whose bare `except:` turns every failure into `TypeError`;
* the unary templates `exp`, `sqrt`, `log` (values of the transcendental function come from a table
  supplied by the harness; the model looks up the nearest key);
* `Expr` / `eval`: histories of public operations; leaves are constructor calls with their arrays.
  `eval` re-checks `left ≤ right` after every node exactly as the fixed constructor does;
  `evalNG` omits that re-check on the arithmetic nodes — `Props/C04.lean` proves both agree.

No Mathlib.
-/
namespace Pun.WF
open Pun Pun.PBox

/-- `Params.steps`, `Params.p_lboundary`, `Params.p_hboundary` (read from the repository by the harness) -/
structure Cfg where
  steps : Nat
  lb : Rat
  hb : Rat

/-- a bound entry: `none` = NaN -/
abbrev NR := Option Rat

def geN : NR → NR → Bool
  | some a, some b => decide (a ≥ b)
  | _, _ => false

/-- `np.all(np.diff(arr) >= 0)` -/
def isIncreasingN : List NR → Bool
  | [] => true
  | [_] => true
  | a :: b :: t => geN b a && isIncreasingN (b :: t)

/-- `np.all(left >= right)` on arrays of equal length -/
def allGeN (l r : List NR) : Bool := (l.zip r).all (fun p => geN p.1 p.2)

/-- Python `left >= right` on two lists: the first position whose items are not equal decides -/
def lexGeN : List NR → List NR → Bool
  | [], [] => true
  | [], _ :: _ => false
  | _ :: _, [] => true
  | a :: s, b :: t =>
    match a, b with
    | some x, some y => if x > y then true else if x < y then false else lexGeN s t
    | _, _ => false

/-- `left_right_switch` test on numpy arrays (a length-one array broadcasts; other unequal lengths raise) -/
def switchArr (l r : List NR) : Except Err Bool :=
  if l.length = r.length then .ok (allGeN l r)
  else match l, r with
    | [a], _ => .ok (r.all (fun b => geN a b))
    | _, [b] => .ok (l.all (fun a => geN a b))
    | _, _ => .error .Value

/-- `condensation_bound` on a longer bound: entries `linspace(0, len-1, n, dtype=int)` -/
def condenseN (n : Nat) (b : List NR) : List NR :=
  (List.range n).map (fun k => b.getD (condenseIdx b.length n k) none)

/-- `np.linspace(p_lo, p_hi, m)[j]` in exact arithmetic -/
def gridPt (c : Cfg) (m j : Nat) : Rat :=
  if m ≤ 1 then c.lb else c.lb + (j : Rat) * ((c.hb - c.lb) / ((m : Rat) - 1))

/-- index of the first knot `p_j ≥ x` of `linspace(p_lo, p_hi, m)` -/
def nextKnot (c : Cfg) (m : Nat) (x : Rat) : Option Nat :=
  (List.range m).find? (fun j => decide (x ≤ gridPt c m j))

/-- one value of `interp1d(p, q, kind="next", fill_value=(q[0], q[-1]), bounds_error=False)` with
`p = linspace(p_lo, p_hi, len q)` -/
def interpNext (c : Cfg) (b : List NR) (x : Rat) : NR :=
  let m := b.length
  if x < gridPt c m 0 then b.getD 0 none
  else if gridPt c m (m - 1) < x then b.getD (m - 1) none
  else match nextKnot c m x with
    | some j => b.getD j none
    | none => none

/-- `interpolate_p` on a shorter bound, evaluated at `Params.p_values = linspace(p_lo, p_hi, steps)`;
an empty bound raises `IndexError` (`p[0]`) -/
def stretchN (c : Cfg) (b : List NR) : Except Err (List NR) :=
  if b.length = 0 then .error .Index
  else .ok ((List.range c.steps).map (fun k => interpNext c b (gridPt c c.steps k)))

/-- `bound_steps_check` -/
def boundStepsN (c : Cfg) (b : List NR) : Except Err (List NR) :=
  if b.length > c.steps then .ok (condenseN c.steps b)
  else if b.length < c.steps then stretchN c b
  else .ok b

/-- all entries are numbers -/
def unN : List NR → Option (List Rat)
  | [] => some []
  | some x :: t => (unN t).map (x :: ·)
  | none :: _ => none

/-- `np.any(left > right)` -/
def anyGt (l r : List Rat) : Bool := (l.zip r).any (fun p => decide (p.1 > p.2))

/-- the order check of `post_init_check` -/
def guardLE (p : PB) : Except Err PB :=
  if anyGt p.left p.right then .error .Other else .ok p

/-- the `left_right_switch` decision.  `lists = true` when both arguments are Python lists -/
def switchN (lists : Bool) (l r : List NR) : Except Err Bool :=
  if lists then .ok (lexGeN l r) else switchArr l r

/-- the constructor after the switch: both setters (`bound_steps_check`), `steps_check`, `is_increasing`, the
order check.  A NaN survives `is_increasing` only in a one-step bound (`np.diff` is empty); that value is not
representable here and reported as `Other`. -/
def mkCore (c : Cfg) (l r : List NR) : Except Err PB := do
  let l ← boundStepsN c l
  let r ← boundStepsN c r
  if l.length ≠ r.length then .error .Assertion
  else if !(isIncreasingN l) || !(isIncreasingN r) then .error .Other
  else match unN l, unN r with
    | some l', some r' => guardLE ⟨l', r'⟩
    | _, _ => .error .Other

/-- `Staircase(left, right)` / `Leaf(left, right)` in full -/
def mkN (c : Cfg) (lists : Bool) (l r : List NR) : Except Err PB := do
  let sw ← switchN lists l r
  if sw then mkCore c r l else mkCore c l r

/-! ## division through `1 / other` -/

/-- `Pbox.div(other, dependency)` for a p-box `other`: `1 / other` goes through `__rtruediv__`, whose bare
`except:` answers `NotImplemented` (→ `TypeError`) whenever `other.reciprocal()` or `1 * …` raises -/
def divC (steps : Nat) (d : Dep) (x y : PB) : Except Err PB :=
  match (do let r ← recip steps y; numberOp steps (· * ·) r 1) with
  | .error _ => .error .Type
  | .ok r1 => mul steps (swapPO d) x r1

def binopC (steps : Nat) (o : Op) (d : Dep) (x y : PB) : Except Err PB :=
  match o with
  | .div => divC steps d x y
  | o => binop steps o d x y

/-- `c op P` through the reflected operators; `c / P` is `__rtruediv__` again -/
def numLeftC (steps : Nat) (o : Op) (c : Rat) (p : PB) : Except Err PB :=
  match o with
  | .div =>
    match (do let r ← recip steps p; numberOp steps (· * ·) r c) with
    | .error _ => .error .Type
    | .ok q => .ok q
  | o => numLeft steps o c p

/-! ## unary templates -/

inductive UKind where | exp | sqrt | log deriving DecidableEq, Repr

/-- a transcendental function given by finitely many values `(x, f x)` (keys increasing): value at the
nearest key, ties to the lower key -/
def tabAp : List (Rat × Rat) → Rat → Rat
  | [], _ => 0
  | [(_, v)], _ => v
  | (k0, v0) :: (k1, v1) :: t, x => if 2 * x ≤ k0 + k1 then v0 else tabAp ((k1, v1) :: t) x

/-- `exp()`, `sqrt()`, `log()`: `_unary_template(f)` = `Staircase(left=f(left), right=f(right))`.
`sqrt` of a negative entry is NaN (→ not increasing → raise); `log` raises `ValueError` when `lo ≤ 0`. -/
def unaryK (steps : Nat) (k : UKind) (t : List (Rat × Rat)) (p : PB) : Except Err PB :=
  let go : Except Err PB := unaryTemplate steps (p.left.map (tabAp t)) (p.right.map (tabAp t))
  match k with
  | .exp => go
  | .sqrt => if (p.left ++ p.right).any (fun v => decide (v < 0)) then .error .Other else go
  | .log =>
    if PBox.lo p ≤ 0 then .error .Value
    else if (p.left ++ p.right).any (fun v => decide (v ≤ 0)) then .error .Other else go

/-! ## histories -/

inductive Expr where
  | leaf (lists : Bool) (l r : List NR)
  | bin (o : Op) (d : Dep) (a b : Expr)
  | num (o : Op) (a : Expr) (c : Rat)
  | rnum (o : Op) (c : Rat) (a : Expr)
  | neg (a : Expr)
  | recip (a : Expr)
  | unary (k : UKind) (t : List (Rat × Rat)) (a : Expr)
  | env (a b : Expr)
  | imp (a b : Expr)

/-- the value of a history; operands are evaluated left to right, the first exception wins; every
constructor call ends with the order check -/
def eval (c : Cfg) : Expr → Except Err PB
  | .leaf lists l r => mkN c lists l r
  | .bin o d a b => do
    let x ← eval c a
    let y ← eval c b
    let z ← binopC c.steps o d x y
    guardLE z
  | .num o a k => do
    let x ← eval c a
    let z ← numRight c.steps o x k
    guardLE z
  | .rnum o k a => do
    let x ← eval c a
    let z ← numLeftC c.steps o k x
    guardLE z
  | .neg a => do
    let x ← eval c a
    let z ← PBox.neg c.steps x
    guardLE z
  | .recip a => do
    let x ← eval c a
    let z ← PBox.recip c.steps x
    guardLE z
  | .unary k t a => do
    let x ← eval c a
    let z ← unaryK c.steps k t x
    guardLE z
  | .env a b => do
    let x ← eval c a
    let y ← eval c b
    let z ← PBox.env c.steps x y
    guardLE z
  | .imp a b => do
    let x ← eval c a
    let y ← eval c b
    let z ← PBox.imp c.steps x y
    guardLE z

/-- the same history with the order check kept only where it can matter (leaves and unary maps) -/
def evalNG (c : Cfg) : Expr → Except Err PB
  | .leaf lists l r => mkN c lists l r
  | .bin o d a b => do
    let x ← evalNG c a
    let y ← evalNG c b
    binopC c.steps o d x y
  | .num o a k => do
    let x ← evalNG c a
    numRight c.steps o x k
  | .rnum o k a => do
    let x ← evalNG c a
    numLeftC c.steps o k x
  | .neg a => do
    let x ← evalNG c a
    PBox.neg c.steps x
  | .recip a => do
    let x ← evalNG c a
    PBox.recip c.steps x
  | .unary k t a => do
    let x ← evalNG c a
    let z ← unaryK c.steps k t x
    guardLE z
  | .env a b => do
    let x ← evalNG c a
    let y ← evalNG c b
    PBox.env c.steps x y
  | .imp a b => do
    let x ← evalNG c a
    let y ← evalNG c b
    PBox.imp c.steps x y

/-- `_init_range`: `Interval(min(left), max(right))` -/
def initRange (p : PB) : Rat × Rat := (minL 0 p.left, maxL 0 p.right)

end Pun.WF
