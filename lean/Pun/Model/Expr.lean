import Pun.Model.Arith
/-!
# C13 / C14 model, part 1: response functions as expressions

A response function is an expression over `x[0] … x[d-1]`.  It is evaluated

* pointwise (`evalPt`)  — what numpy does on one row of the corner array in the
  vertex method, and the mathematical function whose range the property is about;
* in interval arithmetic (`evalIvl`) — what Python does when the same source
  text is applied to `Interval` objects: every operator goes to
  `Interval.__add__/__radd__/…/__pow__` and to `multiply`/`divide`
  (`Pun.Arith.mulTable`, `Pun.Arith.divTable`, the C01 model) or to the number
  branches of the operators.

`exp` and `sqrt` are not computed here: `φ f x` is a parameter (the harness
sends the values numpy produced, the theorems assume monotonicity only).
-/
namespace Pun.Expr
open Pun Pun.Arith

inductive UFun where | exp | sqrt
  deriving DecidableEq, Repr

/-- domain of the unary functions (outside it numpy returns `nan`, and `Interval(nan, _)` fails its check) -/
def UFun.dom : UFun → Rat → Prop
  | .exp, _ => True
  | .sqrt, x => 0 ≤ x

instance (f : UFun) (x : Rat) : Decidable (f.dom x) := by
  cases f <;> simp only [UFun.dom] <;> infer_instance

inductive Expr where
  | var (i : Nat)
  | const (c : Rat)
  | add (a b : Expr)
  | sub (a b : Expr)
  | mul (a b : Expr)
  | div (a b : Expr)
  | pow (a : Expr) (k : Nat)
  | un (f : UFun) (a : Expr)
  deriving Repr

/-- the Python value of a sub-expression: a plain number (no variable below it) or a scalar `Interval` -/
inductive Val where
  | num (c : Rat)
  | ivl (lo hi : Rat)
  deriving Repr, DecidableEq

def Val.lo : Val → Rat | .num c => c | .ivl a _ => a
def Val.hi : Val → Rat | .num c => c | .ivl _ b => b

/-- `Interval(lo, hi)` with its `lo <= hi` assertion -/
def mk (l h : Rat) : Except Err Val := if l ≤ h then .ok (.ivl l h) else .error .Assertion

/-! ## pointwise evaluation -/

def binPt (op : BinOp) (x y : Rat) : Except Err Rat :=
  match op with
  | .add => .ok (x + y)
  | .sub => .ok (x - y)
  | .mul => .ok (x * y)
  | .div => if y = 0 then .error .ZeroDivision else .ok (x / y)

def unPt (φ : UFun → Rat → Rat) (f : UFun) (x : Rat) : Except Err Rat :=
  if f.dom x then .ok (φ f x) else .error .Assertion

def evalPt (φ : UFun → Rat → Rat) (x : List Rat) : Expr → Except Err Rat
  | .var i => match x[i]? with | some v => .ok v | none => .error .Index
  | .const c => .ok c
  | .add a b => do let u ← evalPt φ x a; let v ← evalPt φ x b; binPt .add u v
  | .sub a b => do let u ← evalPt φ x a; let v ← evalPt φ x b; binPt .sub u v
  | .mul a b => do let u ← evalPt φ x a; let v ← evalPt φ x b; binPt .mul u v
  | .div a b => do let u ← evalPt φ x a; let v ← evalPt φ x b; binPt .div u v
  | .pow a k => do let u ← evalPt φ x a; .ok (u ^ k)
  | .un f a => do let u ← evalPt φ x a; unPt φ f u

/-! ## interval evaluation (Python operator dispatch on `Interval` / number operands) -/

/-- `l op r` where each side is a number or a scalar Interval -/
def binVal (op : BinOp) (l r : Val) : Except Err Val :=
  match op, l, r with
  | op, .num x, .num y => (binPt op x y).map Val.num
  -- Interval op number  (`__add__`, `__sub__`, `__mul__`, `__truediv__`, NUMERIC_TYPES branch)
  | .add, .ivl a b, .num c => mk (a + c) (b + c)
  | .sub, .ivl a b, .num c => mk (a - c) (b - c)
  | .mul, .ivl a b, .num c => if c ≥ 0 then mk (a * c) (b * c) else mk (b * c) (a * c)
  | .div, .ivl a b, .num c =>
      if c = 0 then .error .ZeroDivision
      else if c > 0 then mk (a / c) (b / c) else mk (b / c) (a / c)
  -- number op Interval  (`__radd__`, `__rsub__`, `__rmul__`, `__rtruediv__`)
  | .add, .num c, .ivl a b => mk (a + c) (b + c)
  | .sub, .num c, .ivl a b => mk (c - b) (c - a)
  | .mul, .num c, .ivl a b => if c ≥ 0 then mk (a * c) (b * c) else mk (b * c) (a * c)
  | .div, .num c, .ivl a b =>
      if a ≤ 0 ∧ b ≥ 0 then .error .ZeroDivision
      else if c ≥ 0 then mk (c / b) (c / a) else mk (c / a) (c / b)
  -- Interval op Interval
  | .add, .ivl a b, .ivl c d => mk (a + c) (b + d)
  | .sub, .ivl a b, .ivl c d => mk (a - d) (b - c)
  | .mul, .ivl a b, .ivl c d =>
      match mulTable a b c d with
      | some (l, h) => mk l h
      | none => .error .Other
  | .div, .ivl a b, .ivl c d =>
      match divTable a b c d with
      | none => .error .ZeroDivision
      | some none => .error .Other
      | some (some (l, h)) => mk l h

/-- `Interval.__pow__` with a non-negative Python int -/
def powVal (v : Val) (k : Nat) : Except Err Val :=
  match v with
  | .num c => .ok (.num (c ^ k))
  | .ivl a b =>
    if k % 2 = 0 then
      let lo := if a > 0 then a ^ k else if b < 0 then b ^ k else 0
      mk lo (max (a ^ k) (b ^ k))
    else mk (min (a ^ k) (b ^ k)) (max (a ^ k) (b ^ k))

/-- `np.exp(X)` / `np.sqrt(X)`: endpoint images, `Interval(f(lo), f(hi))` -/
def unVal (φ : UFun → Rat → Rat) (f : UFun) (v : Val) : Except Err Val :=
  match v with
  | .num c => (unPt φ f c).map Val.num
  | .ivl a b => if f.dom a ∧ f.dom b then mk (φ f a) (φ f b) else .error .Assertion

def evalIvl (φ : UFun → Rat → Rat) (box : List (Rat × Rat)) : Expr → Except Err Val
  | .var i => match box[i]? with | some p => .ok (.ivl p.1 p.2) | none => .error .Index
  | .const c => .ok (.num c)
  | .add a b => do let u ← evalIvl φ box a; let v ← evalIvl φ box b; binVal .add u v
  | .sub a b => do let u ← evalIvl φ box a; let v ← evalIvl φ box b; binVal .sub u v
  | .mul a b => do let u ← evalIvl φ box a; let v ← evalIvl φ box b; binVal .mul u v
  | .div a b => do let u ← evalIvl φ box a; let v ← evalIvl φ box b; binVal .div u v
  | .pow a k => do let u ← evalIvl φ box a; powVal u k
  | .un f a => do let u ← evalIvl φ box a; unVal φ f u

/-! ## which values of `φ` an evaluation reads (driver glue: the harness must have sent them) -/

def okOr {α} (d : α) : Except Err α → α | .ok v => v | .error _ => d

def queriesPt (φ : UFun → Rat → Rat) (x : List Rat) : Expr → List (UFun × Rat)
  | .var _ => [] | .const _ => []
  | .add a b | .sub a b | .mul a b | .div a b => queriesPt φ x a ++ queriesPt φ x b
  | .pow a _ => queriesPt φ x a
  | .un f a => queriesPt φ x a ++ (match evalPt φ x a with | .ok u => (if f.dom u then [(f, u)] else []) | .error _ => [])

def queriesIvl (φ : UFun → Rat → Rat) (box : List (Rat × Rat)) : Expr → List (UFun × Rat)
  | .var _ => [] | .const _ => []
  | .add a b | .sub a b | .mul a b | .div a b => queriesIvl φ box a ++ queriesIvl φ box b
  | .pow a _ => queriesIvl φ box a
  | .un f a => queriesIvl φ box a ++
      (match evalIvl φ box a with
       | .ok (.num c) => if f.dom c then [(f, c)] else []        -- outside the domain `unVal` raises without reading φ
       | .ok (.ivl l h) => (if f.dom l then [(f, l)] else []) ++ (if f.dom h then [(f, h)] else [])
       | .error _ => [])

end Pun.Expr
