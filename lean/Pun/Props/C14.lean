import Pun.Model.MixedUp
import Pun.Props.C13
import Mathlib.Data.List.Nodup
import Mathlib.Data.List.Basic
/-!
# C14 — mixed propagation outputs are mixtures of interval images of input alpha-cuts

About the functions the driver executes: `Pun.MixedUp.levelTuples`, `gridLevels`,
`alphaCut`, `cutBox`, `propagate`, `slicing`, `imc`.
Reproducibility of interval Monte Carlo is a runtime fact about the copula
sampler (tested by the harness), not a theorem: in the model the sample is an input.
-/
set_option linter.unusedSimpArgs false
set_option linter.unusedVariables false
namespace Pun.MixedUp
open Pun Pun.Arith Pun.Expr Pun.B2B

/-! ## every combination of grid levels, exactly once -/

theorem forall₂_replicate_iff {α : Type} (g : List α) (d : Nat) (t : List α) :
    List.Forall₂ (fun a l => a ∈ l) t (List.replicate d g) ↔ t.length = d ∧ ∀ a ∈ t, a ∈ g := by
  induction d generalizing t with
  | zero =>
    simp only [List.replicate_zero, List.forall₂_nil_right_iff]
    constructor
    · rintro rfl; simp
    · rintro ⟨h, _⟩; exact List.length_eq_zero_iff.mp h
  | succ k ih =>
    simp only [List.replicate_succ, List.forall₂_cons_right_iff]
    constructor
    · rintro ⟨a, t', ha, ht', rfl⟩
      obtain ⟨h1, h2⟩ := (ih t').mp ht'
      refine ⟨by simp [h1], ?_⟩
      intro b hb
      simp only [List.mem_cons] at hb
      rcases hb with rfl | hb
      · exact ha
      · exact h2 b hb
    · rintro ⟨h1, h2⟩
      cases t with
      | nil => simp at h1
      | cons a t' =>
        refine ⟨a, t', h2 a (by simp), (ih t').mpr ⟨by simpa using h1, fun b hb => h2 b (by simp [hb])⟩, rfl⟩

/-- ★ (membership) a tuple of levels is propagated iff it has one entry per input, each a grid level -/
theorem grid_complete_mem (grid : List Rat) (d : Nat) (t : List Rat) :
    t ∈ levelTuples grid d ↔ t.length = d ∧ ∀ a ∈ t, a ∈ grid := by
  unfold levelTuples
  rw [mem_prodL]
  exact forall₂_replicate_iff grid d t

theorem length_flatMap_const {α β : Type} (l : List α) (f : α → List β) (c : Nat) (h : ∀ a, (f a).length = c) :
    (l.flatMap f).length = l.length * c := by
  induction l with
  | nil => simp
  | cons a l ih => simp only [List.flatMap_cons, List.length_append, ih, h, List.length_cons]; ring

theorem length_prodL_replicate {α : Type} (g : List α) (d : Nat) : (prodL (List.replicate d g)).length = g.length ^ d := by
  induction d with
  | zero => simp [prodL]
  | succ k ih =>
    simp only [List.replicate_succ, prodL]
    rw [length_flatMap_const _ _ (g.length ^ k) (fun a => by simp [ih]), pow_succ, Nat.mul_comm]

/-- ★ (count) exactly `k^d` tuples are propagated -/
theorem grid_complete_count (grid : List Rat) (d : Nat) : (levelTuples grid d).length = grid.length ^ d :=
  length_prodL_replicate grid d

theorem nodup_prodL {α : Type} (ls : List (List α)) (h : ∀ l ∈ ls, l.Nodup) : (prodL ls).Nodup := by
  induction ls with
  | nil => simp [prodL]
  | cons l ls ih =>
    have hl : l.Nodup := h l (by simp)
    have ht : (prodL ls).Nodup := ih (fun m hm => h m (by simp [hm]))
    simp only [prodL]
    rw [List.nodup_flatMap]
    refine ⟨fun a _ => ht.map (fun x y hxy => by simpa using hxy), ?_⟩
    refine hl.pairwise_of_forall_ne ?_ |>.imp (fun h => h)
    intro a ha b hb hab
    simp only [Function.onFun, List.disjoint_left, List.mem_map]
    rintro t ⟨u, _, rfl⟩ ⟨v, _, hv⟩
    simp only [List.cons.injEq] at hv
    exact hab hv.1.symm

/-- ★ (once) with distinct grid levels no tuple is propagated twice; together with membership and count:
slicing uses every one of the `k^d` combinations exactly once -/
theorem grid_complete_nodup (grid : List Rat) (d : Nat) (hg : grid.Nodup) : (levelTuples grid d).Nodup :=
  nodup_prodL _ (fun l hl => by rw [List.eq_of_mem_replicate hl]; exact hg)

example : levelTuples [1, 2] 2 = [[1, 1], [1, 2], [2, 1], [2, 2]] := by decide +kernel

/-! ## the output is the stack of the b2b images of the cut boxes -/

/-- ★ `slicing` is, by definition of the model, one `b2b` image per level tuple of the box of alpha-cuts at
those levels, in order; `imc` the same for the sampled level matrix -/
theorem output_is_stack (φ : UFun → Rat → Rat) (e : Expr) (pv : List Rat) (vars : List PB) (grid : List Rat)
    (s : Strategy) (style : Option Style) (n : Option Nat) (out : List Val)
    (h : slicing φ e pv vars grid s style n = .ok out) :
    List.Forall₂ (fun row r => ∃ box, cutBox pv vars row = .ok box ∧ b2b φ e .list box s style n = .ok r)
      (levelTuples grid vars.length) out := by
  have := mapM_ok _ _ _ h
  refine this.imp ?_
  intro row r hr
  simp only [bind, Except.bind] at hr
  split at hr
  · cases hr
  · rename_i box hbox; exact ⟨box, hbox, hr⟩

theorem imc_is_stack (φ : UFun → Rat → Rat) (e : Expr) (pv : List Rat) (vars : List PB) (levels : List (List Rat))
    (s : Strategy) (style : Option Style) (n : Option Nat) (out : List Val)
    (h : imc φ e pv vars levels s style n = .ok out) :
    List.Forall₂ (fun row r => ∃ box, cutBox pv vars row = .ok box ∧ b2b φ e .list box s style n = .ok r) levels out := by
  have := mapM_ok _ _ _ h
  refine this.imp ?_
  intro row r hr
  simp only [bind, Except.bind] at hr
  split at hr
  · cases hr
  · rename_i box hbox; exact ⟨box, hbox, hr⟩

/-! ## an alpha-cut is one of the p-box's own steps -/

/-- the cut returned for a level is the pair `(left[i], right[i])` for the nearest-level index `i`, and is a valid interval -/
theorem alphaCut_spec (pv : List Rat) (P : PB) (a : Rat) (c : Rat × Rat) (h : alphaCut pv P a = .ok c) :
    P.left[findNearest pv a]? = some c.1 ∧ P.right[findNearest pv a]? = some c.2 ∧ c.1 ≤ c.2 := by
  unfold alphaCut at h
  simp only at h
  split at h
  · rename_i l r hl hr
    split at h
    · cases h; exact ⟨hl, hr, by assumption⟩
    · cases h
  · cases h

/-- ★ all inputs intervals: a p-box whose steps all equal `(lo, hi)` is cut to `(lo, hi)` at every level
(so every focal element is the same `b2b` image of the box of intervals) -/
theorem all_intervals_cut (pv : List Rat) (lo hi : Rat) (m : Nat) (a : Rat) (hlh : lo ≤ hi)
    (hi' : findNearest pv a < m) :
    alphaCut pv ⟨List.replicate m lo, List.replicate m hi⟩ a = .ok (lo, hi) := by
  unfold alphaCut
  simp [List.getElem?_replicate, hi', hlh]

/-- ★ all inputs precise: a p-box with `left = right` is cut to a zero-width interval at every level -/
theorem precise_cut_degenerate (pv : List Rat) (P : PB) (hP : P.left = P.right) (a : Rat) (c : Rat × Rat)
    (h : alphaCut pv P a = .ok c) : c.1 = c.2 := by
  obtain ⟨h1, h2, _⟩ := alphaCut_spec pv P a c h
  rw [hP] at h1
  rw [h1] at h2
  exact Option.some.inj h2

theorem corners_degenerate (box : Box) (hd : ∀ p ∈ box, p.1 = p.2) (c : List Rat) (hc : c ∈ corners box) :
    c = box.map Prod.fst := by
  have hc' := (mem_prodL _ _).mp hc
  clear hc
  induction box generalizing c with
  | nil => simp only [List.map_nil, List.forall₂_nil_right_iff] at hc'; subst hc'; rfl
  | cons p ps ih =>
    simp only [List.map_cons, List.forall₂_cons_right_iff] at hc'
    obtain ⟨a, c', ha, hc'', rfl⟩ := hc'
    have hp := hd p (by simp)
    simp only [List.mem_cons, List.not_mem_nil, or_false] at ha
    have : a = p.1 := by rcases ha with rfl | rfl <;> simp [hp]
    rw [this, ih (fun r hr => hd r (by simp [hr])) c' hc'']
    rfl

/-- and the vertex method on a zero-width box returns a zero-width interval (all corners coincide) -/
theorem endpoints_degenerate (φ : UFun → Rat → Rat) (e : Expr) (box : Box) (hd : ∀ p ∈ box, p.1 = p.2) (V : Val)
    (h : endpoints φ e box = .ok V) : V.lo = V.hi := by
  obtain ⟨⟨c1, h1, e1⟩, ⟨c2, h2, e2⟩, _⟩ := endpoints_minmax_corners φ e box V h
  rw [corners_degenerate box hd c1 h1] at e1
  rw [corners_degenerate box hd c2 h2, e1] at e2
  exact Except.ok.inj e2

/-! ## probability levels of slicing lie in the unit interval -/

/-- ★ the grid levels lie between the two probability boundaries (hence in `[0,1]`) -/
theorem levels_in_unit (pl ph : Rat) (k : Nat) (h0 : 0 ≤ pl) (h : pl ≤ ph) (h1 : ph ≤ 1) (a : Rat)
    (ha : a ∈ gridLevels pl ph k) : 0 ≤ a ∧ a ≤ 1 := by
  unfold gridLevels at ha
  obtain ⟨i, hi, rfl⟩ := List.mem_map.mp ha
  have hi' := List.mem_range.mp hi
  rcases Nat.eq_zero_or_pos (k - 1) with hk | hk
  · simp only [knot, hk, Nat.cast_zero, div_zero, mul_zero, add_zero]
    exact ⟨h0, le_trans h h1⟩
  · have lo := knot_mono pl ph (k - 1) h 0 i (by omega)
    have hi2 := knot_mono pl ph (k - 1) h i (k - 1) (by omega)
    rw [knot_zero] at lo
    rw [knot_last _ _ _ (by omega)] at hi2
    exact ⟨le_trans h0 lo, le_trans hi2 (le_trans (le_refl _) h1)⟩

example : gridLevels (1/1000) (999/1000) 3 = [1/1000, 1/2, 999/1000] := by decide +kernel

/-! ## support inside the image of the supports (vertex strategy) -/

/-- ★ (vertex strategy) a focal element computed by the vertex method on a box of cuts lies inside the direct
interval image of any box containing the cuts — in particular of the box of input supports.
For the direct strategy this is inclusion isotonicity (`C13.DirectIsotoneStatement`). -/
theorem support_within_image_endpoints (φ : UFun → Rat → Rat) (hφ : Mono φ) (e : Expr) (cut sup : Box)
    (hsub : SubBox cut sup) (r V : Val) (hr : endpoints φ e cut = .ok r) (hV : direct φ e sup = .ok V) :
    V.lo ≤ r.lo ∧ r.hi ≤ V.hi := by
  have hv : ValidBox cut := by
    intro p hp
    clear hr hV
    induction hsub with
    | nil => simp at hp
    | cons h1 _ ih =>
      simp only [List.mem_cons] at hp
      rcases hp with rfl | hp
      · exact h1.2.1
      · exact ih hp
  obtain ⟨⟨x1, hx1, e1⟩, ⟨x2, hx2, e2⟩⟩ := endpoints_inside_range φ e cut hv r hr
  obtain ⟨y1, hy1, m1⟩ := fundamental φ hφ e sup x1 (inBox_of_sub hx1 hsub) V hV
  obtain ⟨y2, hy2, m2⟩ := fundamental φ hφ e sup x2 (inBox_of_sub hx2 hsub) V hV
  rw [e1] at hy1; rw [e2] at hy2
  cases hy1; cases hy2
  exact ⟨m1.1, m2.2⟩

/-- ★ (direct strategy) a focal element computed by direct evaluation on a box of cuts lies inside the direct
interval image of any box containing the cuts — in particular of the box of input supports -/
theorem support_within_image_direct (φ : UFun → Rat → Rat) (hφ : Mono φ) (e : Expr) (cut sup : Box)
    (hsub : SubBox cut sup) (r V : Val) (hr : direct φ e cut = .ok r) (hV : direct φ e sup = .ok V) :
    V.lo ≤ r.lo ∧ r.hi ≤ V.hi :=
  (direct_isotone_partial φ hφ e cut sup hsub r V hr hV).1

/-- every alpha-cut of a p-box with sorted bounds lies inside its support `[left[0], right[last]]`
(stated for the cut index: any valid index gives a sub-interval when `left`, `right` are sorted) -/
theorem cut_within_support (l r : List Rat) (hl : l.Pairwise (· ≤ ·)) (hr : r.Pairwise (· ≤ ·)) (i : Nat) (x y x0 yN : Rat)
    (hx : l[i]? = some x) (hy : r[i]? = some y) (h0 : l[0]? = some x0) (hN : r.getLast? = some yN) :
    x0 ≤ x ∧ y ≤ yN := by
  constructor
  · rcases Nat.eq_zero_or_pos i with hi | hi
    · subst hi; rw [hx] at h0; cases h0; exact le_refl _
    · have hil : i < l.length := (List.getElem?_eq_some_iff.mp hx).1
      have := List.pairwise_iff_getElem.mp hl 0 i (by omega) hil hi
      rw [List.getElem?_eq_some_iff] at hx h0
      obtain ⟨_, rfl⟩ := hx; obtain ⟨_, rfl⟩ := h0
      exact this
  · have hir : i < r.length := (List.getElem?_eq_some_iff.mp hy).1
    rw [List.getLast?_eq_getElem?] at hN
    rcases Nat.lt_or_ge i (r.length - 1) with hi | hi
    · have := List.pairwise_iff_getElem.mp hr i (r.length - 1) hir (by omega) hi
      rw [List.getElem?_eq_some_iff] at hy hN
      obtain ⟨_, rfl⟩ := hy; obtain ⟨_, rfl⟩ := hN
      exact this
    · have : i = r.length - 1 := by omega
      subst this; rw [hy] at hN; cases hN; exact le_refl _

end Pun.MixedUp
