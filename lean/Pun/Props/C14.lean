import Pun.Model.MixedUp
import Pun.Props.C13
import Pun.Props.C08
import Mathlib.Data.List.Nodup
import Mathlib.Data.List.Basic
/-!
# C14 — mixed propagation outputs are mixtures of interval images of input alpha-cuts

About the functions the driver executes: `Pun.MixedUp.levelTuples`, `gridLevels`,
`alphaCut`, `cutBox`, `propagate`, `slicing`, `imc`.
`stackOut`, `slicingPbox`, `imcPbox` (the p-box handed back: the C08 model `Pun.Dss.stacking` of the focal list).
Reproducibility of interval Monte Carlo is a runtime fact about the copula
sampler (tested by the harness), not a theorem: in the model the sample is an input.
-/
set_option linter.unusedSimpArgs false
set_option linter.unusedVariables false
set_option linter.unusedTactic false
set_option linter.unreachableTactic false
namespace Pun.MixedUp
open Pun Pun.Arith Pun.Expr Pun.B2B

/-! ## every combination of grid levels, exactly once -/

theorem forall₂_replicate_iff {α : Type} (g : List α) (d : Nat) (t : List α) :
    List.Forall₂ (fun a l => a ∈ l) t (List.replicate d g) ↔ t.length = d ∧ ∀ a ∈ t, a ∈ g := by
  induction d generalizing t with
  | zero =>
    simp only [List.replicate_zero, List.forall₂_nil_right_iff]
    constructor
    · rintro rfl; simp
    · rintro ⟨h, _⟩; exact List.length_eq_zero_iff.mp h
  | succ k ih =>
    simp only [List.replicate_succ, List.forall₂_cons_right_iff]
    constructor
    · rintro ⟨a, t', ha, ht', rfl⟩
      obtain ⟨h1, h2⟩ := (ih t').mp ht'
      refine ⟨by simp [h1], ?_⟩
      intro b hb
      simp only [List.mem_cons] at hb
      rcases hb with rfl | hb
      · exact ha
      · exact h2 b hb
    · rintro ⟨h1, h2⟩
      cases t with
      | nil => simp at h1
      | cons a t' =>
        refine ⟨a, t', h2 a (by simp), (ih t').mpr ⟨by simpa using h1, fun b hb => h2 b (by simp [hb])⟩, rfl⟩

/-- ★ (membership) a tuple of levels is propagated iff it has one entry per input, each a grid level -/
theorem grid_complete_mem (grid : List Rat) (d : Nat) (t : List Rat) :
    t ∈ levelTuples grid d ↔ t.length = d ∧ ∀ a ∈ t, a ∈ grid := by
  unfold levelTuples
  rw [mem_prodL]
  exact forall₂_replicate_iff grid d t

theorem length_flatMap_const {α β : Type} (l : List α) (f : α → List β) (c : Nat) (h : ∀ a, (f a).length = c) :
    (l.flatMap f).length = l.length * c := by
  induction l with
  | nil => simp
  | cons a l ih => simp only [List.flatMap_cons, List.length_append, ih, h, List.length_cons]; ring

theorem length_prodL_replicate {α : Type} (g : List α) (d : Nat) : (prodL (List.replicate d g)).length = g.length ^ d := by
  induction d with
  | zero => simp [prodL]
  | succ k ih =>
    simp only [List.replicate_succ, prodL]
    rw [length_flatMap_const _ _ (g.length ^ k) (fun a => by simp [ih]), pow_succ, Nat.mul_comm]

/-- ★ (count) exactly `k^d` tuples are propagated -/
theorem grid_complete_count (grid : List Rat) (d : Nat) : (levelTuples grid d).length = grid.length ^ d :=
  length_prodL_replicate grid d

theorem nodup_prodL {α : Type} (ls : List (List α)) (h : ∀ l ∈ ls, l.Nodup) : (prodL ls).Nodup := by
  induction ls with
  | nil => simp [prodL]
  | cons l ls ih =>
    have hl : l.Nodup := h l (by simp)
    have ht : (prodL ls).Nodup := ih (fun m hm => h m (by simp [hm]))
    simp only [prodL]
    rw [List.nodup_flatMap]
    refine ⟨fun a _ => ht.map (fun x y hxy => by simpa using hxy), ?_⟩
    refine hl.pairwise_of_forall_ne ?_ |>.imp (fun h => h)
    intro a ha b hb hab
    simp only [Function.onFun, List.disjoint_left, List.mem_map]
    rintro t ⟨u, _, rfl⟩ ⟨v, _, hv⟩
    simp only [List.cons.injEq] at hv
    exact hab hv.1.symm

/-- ★ (once) with distinct grid levels no tuple is propagated twice; together with membership and count:
slicing uses every one of the `k^d` combinations exactly once -/
theorem grid_complete_nodup (grid : List Rat) (d : Nat) (hg : grid.Nodup) : (levelTuples grid d).Nodup :=
  nodup_prodL _ (fun l hl => by rw [List.eq_of_mem_replicate hl]; exact hg)

example : levelTuples [1, 2] 2 = [[1, 1], [1, 2], [2, 1], [2, 2]] := by decide +kernel

/-! ## the output is the stack of the b2b images of the cut boxes -/

/-- ★ `slicing` is, by definition of the model, one `b2b` image per level tuple of the box of alpha-cuts at
those levels, in order; `imc` the same for the sampled level matrix -/
theorem output_is_stack (φ : UFun → Rat → Rat) (e : Expr) (pv : List Rat) (vars : List PB) (grid : List Rat)
    (s : Strategy) (style : Option Style) (n : Option Nat) (out : List Val)
    (h : slicing φ e pv vars grid s style n = .ok out) :
    List.Forall₂ (fun row r => ∃ box, cutBox pv vars row = .ok box ∧ b2b φ e .list box s style n = .ok r)
      (levelTuples grid vars.length) out := by
  have := mapM_ok _ _ _ h
  refine this.imp ?_
  intro row r hr
  simp only [bind, Except.bind] at hr
  split at hr
  · cases hr
  · rename_i box hbox; exact ⟨box, hbox, hr⟩

theorem imc_is_stack (φ : UFun → Rat → Rat) (e : Expr) (pv : List Rat) (vars : List PB) (levels : List (List Rat))
    (s : Strategy) (style : Option Style) (n : Option Nat) (out : List Val)
    (h : imc φ e pv vars levels s style n = .ok out) :
    List.Forall₂ (fun row r => ∃ box, cutBox pv vars row = .ok box ∧ b2b φ e .list box s style n = .ok r) levels out := by
  have := mapM_ok _ _ _ h
  refine this.imp ?_
  intro row r hr
  simp only [bind, Except.bind] at hr
  split at hr
  · cases hr
  · rename_i box hbox; exact ⟨box, hbox, hr⟩

/-! ## an alpha-cut is one of the p-box's own steps -/

/-- the cut returned for a level is the pair `(left[i], right[i])` for the nearest-level index `i`, and is a valid interval -/
theorem alphaCut_spec (pv : List Rat) (P : PB) (a : Rat) (c : Rat × Rat) (h : alphaCut pv P a = .ok c) :
    P.left[findNearest pv a]? = some c.1 ∧ P.right[findNearest pv a]? = some c.2 ∧ c.1 ≤ c.2 := by
  unfold alphaCut at h
  simp only at h
  split at h
  · rename_i l r hl hr
    split at h
    · cases h; exact ⟨hl, hr, by assumption⟩
    · cases h
  · cases h

/-- ★ all inputs intervals: a p-box whose steps all equal `(lo, hi)` is cut to `(lo, hi)` at every level
(so every focal element is the same `b2b` image of the box of intervals) -/
theorem all_intervals_cut (pv : List Rat) (lo hi : Rat) (m : Nat) (a : Rat) (hlh : lo ≤ hi)
    (hi' : findNearest pv a < m) :
    alphaCut pv ⟨List.replicate m lo, List.replicate m hi⟩ a = .ok (lo, hi) := by
  unfold alphaCut
  simp [List.getElem?_replicate, hi', hlh]

/-- ★ all inputs precise: a p-box with `left = right` is cut to a zero-width interval at every level -/
theorem precise_cut_degenerate (pv : List Rat) (P : PB) (hP : P.left = P.right) (a : Rat) (c : Rat × Rat)
    (h : alphaCut pv P a = .ok c) : c.1 = c.2 := by
  obtain ⟨h1, h2, _⟩ := alphaCut_spec pv P a c h
  rw [hP] at h1
  rw [h1] at h2
  exact Option.some.inj h2

theorem corners_degenerate (box : Box) (hd : ∀ p ∈ box, p.1 = p.2) (c : List Rat) (hc : c ∈ corners box) :
    c = box.map Prod.fst := by
  have hc' := (mem_prodL _ _).mp hc
  clear hc
  induction box generalizing c with
  | nil => simp only [List.map_nil, List.forall₂_nil_right_iff] at hc'; subst hc'; rfl
  | cons p ps ih =>
    simp only [List.map_cons, List.forall₂_cons_right_iff] at hc'
    obtain ⟨a, c', ha, hc'', rfl⟩ := hc'
    have hp := hd p (by simp)
    simp only [List.mem_cons, List.not_mem_nil, or_false] at ha
    have : a = p.1 := by rcases ha with rfl | rfl <;> simp [hp]
    rw [this, ih (fun r hr => hd r (by simp [hr])) c' hc'']
    rfl

/-- and the vertex method on a zero-width box returns a zero-width interval (all corners coincide) -/
theorem endpoints_degenerate (φ : UFun → Rat → Rat) (e : Expr) (box : Box) (hd : ∀ p ∈ box, p.1 = p.2) (V : Val)
    (h : endpoints φ e box = .ok V) : V.lo = V.hi := by
  obtain ⟨⟨c1, h1, e1⟩, ⟨c2, h2, e2⟩, _⟩ := endpoints_minmax_corners φ e box V h
  rw [corners_degenerate box hd c1 h1] at e1
  rw [corners_degenerate box hd c2 h2, e1] at e2
  exact Except.ok.inj e2

/-! ## probability levels of slicing lie in the unit interval -/

/-- ★ the grid levels lie between the two probability boundaries (hence in `[0,1]`) -/
theorem levels_in_unit (pl ph : Rat) (k : Nat) (h0 : 0 ≤ pl) (h : pl ≤ ph) (h1 : ph ≤ 1) (a : Rat)
    (ha : a ∈ gridLevels pl ph k) : 0 ≤ a ∧ a ≤ 1 := by
  unfold gridLevels at ha
  obtain ⟨i, hi, rfl⟩ := List.mem_map.mp ha
  have hi' := List.mem_range.mp hi
  rcases Nat.eq_zero_or_pos (k - 1) with hk | hk
  · simp only [knot, hk, Nat.cast_zero, div_zero, mul_zero, add_zero]
    exact ⟨h0, le_trans h h1⟩
  · have lo := knot_mono pl ph (k - 1) h 0 i (by omega)
    have hi2 := knot_mono pl ph (k - 1) h i (k - 1) (by omega)
    rw [knot_zero] at lo
    rw [knot_last _ _ _ (by omega)] at hi2
    exact ⟨le_trans h0 lo, le_trans hi2 (le_trans (le_refl _) h1)⟩

example : gridLevels (1/1000) (999/1000) 3 = [1/1000, 1/2, 999/1000] := by decide +kernel

/-! ## support inside the image of the supports (vertex strategy) -/

/-- ★ (vertex strategy) a focal element computed by the vertex method on a box of cuts lies inside the direct
interval image of any box containing the cuts — in particular of the box of input supports.
For the direct strategy this is inclusion isotonicity (`C13.DirectIsotoneStatement`). -/
theorem support_within_image_endpoints (φ : UFun → Rat → Rat) (hφ : Mono φ) (e : Expr) (cut sup : Box)
    (hsub : SubBox cut sup) (r V : Val) (hr : endpoints φ e cut = .ok r) (hV : direct φ e sup = .ok V) :
    V.lo ≤ r.lo ∧ r.hi ≤ V.hi := by
  have hv : ValidBox cut := by
    intro p hp
    clear hr hV
    induction hsub with
    | nil => simp at hp
    | cons h1 _ ih =>
      simp only [List.mem_cons] at hp
      rcases hp with rfl | hp
      · exact h1.2.1
      · exact ih hp
  obtain ⟨⟨x1, hx1, e1⟩, ⟨x2, hx2, e2⟩⟩ := endpoints_inside_range φ e cut hv r hr
  obtain ⟨y1, hy1, m1⟩ := fundamental φ hφ e sup x1 (inBox_of_sub hx1 hsub) V hV
  obtain ⟨y2, hy2, m2⟩ := fundamental φ hφ e sup x2 (inBox_of_sub hx2 hsub) V hV
  rw [e1] at hy1; rw [e2] at hy2
  cases hy1; cases hy2
  exact ⟨m1.1, m2.2⟩

/-- ★ (direct strategy) a focal element computed by direct evaluation on a box of cuts lies inside the direct
interval image of any box containing the cuts — in particular of the box of input supports -/
theorem support_within_image_direct (φ : UFun → Rat → Rat) (hφ : Mono φ) (e : Expr) (cut sup : Box)
    (hsub : SubBox cut sup) (r V : Val) (hr : direct φ e cut = .ok r) (hV : direct φ e sup = .ok V) :
    V.lo ≤ r.lo ∧ r.hi ≤ V.hi :=
  (direct_incl_of_ok φ hφ e cut sup hsub r V hr hV).1

/-- every alpha-cut of a p-box with sorted bounds lies inside its support `[left[0], right[last]]`
(stated for the cut index: any valid index gives a sub-interval when `left`, `right` are sorted) -/
theorem cut_within_support (l r : List Rat) (hl : l.Pairwise (· ≤ ·)) (hr : r.Pairwise (· ≤ ·)) (i : Nat) (x y x0 yN : Rat)
    (hx : l[i]? = some x) (hy : r[i]? = some y) (h0 : l[0]? = some x0) (hN : r.getLast? = some yN) :
    x0 ≤ x ∧ y ≤ yN := by
  constructor
  · rcases Nat.eq_zero_or_pos i with hi | hi
    · subst hi; rw [hx] at h0; cases h0; exact le_refl _
    · have hil : i < l.length := (List.getElem?_eq_some_iff.mp hx).1
      have := List.pairwise_iff_getElem.mp hl 0 i (by omega) hil hi
      rw [List.getElem?_eq_some_iff] at hx h0
      obtain ⟨_, rfl⟩ := hx; obtain ⟨_, rfl⟩ := h0
      exact this
  · have hir : i < r.length := (List.getElem?_eq_some_iff.mp hy).1
    rw [List.getLast?_eq_getElem?] at hN
    rcases Nat.lt_or_ge i (r.length - 1) with hi | hi
    · have := List.pairwise_iff_getElem.mp hr i (r.length - 1) hir (by omega) hi
      rw [List.getElem?_eq_some_iff] at hy hN
      obtain ⟨_, rfl⟩ := hy; obtain ⟨_, rfl⟩ := hN
      exact this
    · have : i = r.length - 1 := by omega
      subst this; rw [hy] at hN; cases hN; exact le_refl _

/-! ## zero width for every strategy -/

theorem b2b_deterministic {α : Type} {a b : α} {x : Except Err α} (h1 : x = .ok a) (h2 : x = .ok b) : a = b := by
  rw [h1] at h2; exact Except.ok.inj h2

/-- ★ all three strategies return a zero-width interval on a zero-width box (C01 operations preserve zero width;
exponents at least 1, see `PosPow`) -/
theorem b2b_degenerate (φ : UFun → Rat → Rat) (e : Expr) (hp : PosPow e) (form : Form) (box : Box)
    (hd : ∀ p ∈ box, p.1 = p.2) (s : Strategy) (style : Option Style) (n : Option Nat) (V : Val)
    (h : b2b φ e form box s style n = .ok V) : V.lo = V.hi := by
  unfold b2b at h
  split at h
  · cases h
  · cases s with
    | direct => exact evalIvl_degenerate φ e hp box hd V h
    | endpoints => exact endpoints_degenerate φ e box hd V h
    | unknown => cases h
    | subinterval =>
      simp only at h
      unfold subinterval at h
      split at h
      · cases h
      · cases h
      · rename_i m
        simp only [bind, Except.bind] at h
        split at h
        · cases h
        · rename_i rs hrs
          have hall := mapM_ok _ _ _ hrs
          obtain ⟨_, ⟨r1, hr1, e1⟩, ⟨r2, hr2, e2⟩⟩ := reconstitute_spec h
          obtain ⟨t1, ht1, het1⟩ := forall₂_right hall r1 hr1
          obtain ⟨t2, ht2, het2⟩ := forall₂_right hall r2 hr2
          rw [tiles_degenerate box m hd t1 ht1] at het1
          rw [tiles_degenerate box m hd t2 ht2] at het2
          have : r1 = r2 := b2b_deterministic het1 het2
          subst this
          rw [← e1, ← e2]
          exact evalIvl_degenerate φ e hp box hd r1 het1
      · rename_i m
        simp only [bind, Except.bind] at h
        split at h
        · cases h
        · rename_i rs hrs
          have hall := mapM_ok _ _ _ hrs
          obtain ⟨_, ⟨r1, hr1, e1⟩, ⟨r2, hr2, e2⟩⟩ := reconstitute_spec h
          obtain ⟨t1, ht1, het1⟩ := forall₂_right hall r1 hr1
          obtain ⟨t2, ht2, het2⟩ := forall₂_right hall r2 hr2
          rw [tiles_degenerate box m hd t1 ht1] at het1
          rw [tiles_degenerate box m hd t2 ht2] at het2
          have : r1 = r2 := b2b_deterministic het1 het2
          subst this
          rw [← e1, ← e2]
          exact endpoints_degenerate φ e box hd r1 het1

/-- the box of cuts of precise inputs (`left = right`) has zero width -/
theorem cutBox_degenerate (pv : List Rat) (vars : List PB) (hP : ∀ P ∈ vars, P.left = P.right) (row : List Rat)
    (box : Box) (h : cutBox pv vars row = .ok box) : ∀ p ∈ box, p.1 = p.2 := by
  have hall := mapM_ok _ _ _ h
  intro p hp
  obtain ⟨va, hva, hcut⟩ := forall₂_right hall p hp
  exact precise_cut_degenerate pv va.1 (hP va.1 (List.of_mem_zip hva).1) va.2 p hcut

/-- ★ all inputs precise: every focal element handed to `stacking` has zero width, for slicing and interval
Monte Carlo alike and for every interval strategy -/
theorem all_precise_focal_degenerate (φ : UFun → Rat → Rat) (e : Expr) (hp : PosPow e) (pv : List Rat) (vars : List PB)
    (hP : ∀ P ∈ vars, P.left = P.right) (levels : List (List Rat)) (s : Strategy) (style : Option Style) (n : Option Nat)
    (out : List Val) (h : propagate φ e pv vars levels s style n = .ok out) : ∀ v ∈ out, v.lo = v.hi := by
  have hall := mapM_ok _ _ _ h
  intro v hv
  obtain ⟨row, _, hr⟩ := forall₂_right hall v hv
  simp only [bind, Except.bind] at hr
  split at hr
  · cases hr
  · rename_i box hbox
    exact b2b_degenerate φ e hp .list box (cutBox_degenerate pv vars hP row box hbox) s style n v hr

/-! ## the returned p-box: `stacking` of the focal list (C08 model `Pun.Dss.stacking`) -/

open Pun.Grid Pun.Dss Pun.Props.C08 in
/-- `weights=None` is the equal-mass call -/
theorem stacking_none (g lo hi : List Rat) :
    Dss.stacking g lo hi none = Dss.stacking g lo hi (some (Grid.equalW lo.length)) := by
  unfold Dss.stacking Dss.weightsOf
  rfl

/-- empirical distribution function of a list with equal weights -/
def ecdf (l : List Rat) (t : Rat) : Rat := (1 / (l.length : Rat)) * (l.countP (fun y => decide (y ≤ t)) : Nat)

theorem massLE_equal (l : List Rat) : Grid.massLE (l.zip (Grid.equalW l.length)) = ecdf l := by
  funext t
  unfold Grid.equalW ecdf
  rw [Props.C08.zip_replicate, Props.C08.massLE_const]

/-- a focal list `stacking` accepts: at least one element, each a valid interval -/
def FocalOK (out : List Val) : Prop := out ≠ [] ∧ ∀ v ∈ out, v.lo ≤ v.hi

theorem allLE_map (out : List Val) (h : ∀ v ∈ out, v.lo ≤ v.hi) : Dss.allLE (out.map Val.lo) (out.map Val.hi) = true := by
  induction out with
  | nil => rfl
  | cons v r ih =>
    simp only [List.map_cons, Dss.allLE, Bool.and_eq_true, decide_eq_true_eq]
    exact ⟨h v (by simp), ih (fun w hw => h w (List.mem_cons_of_mem _ hw))⟩

/-- ★ the returned p-box is the equal-weight stack of the focal images: `stacking` succeeds, and at every grid
level `p` the left bound is the generalised inverse at `p` of the empirical distribution function of the lower
ends, the right bound that of the upper ends (smallest end whose share of the focal elements reaches `p`) -/
theorem stackOut_geninv (g : List Rat) (hg : Props.C08.GridOK g) (out : List Val) (hok : FocalOK out) :
    ∃ P, stackOut g out = .ok P ∧ P.left.length = g.length ∧ P.right.length = g.length ∧
      ∀ (i : Nat) (p : Rat), g[i]? = some p → ∃ a b, P.left[i]? = some a ∧ P.right[i]? = some b ∧
        Grid.IsGenInv (ecdf (out.map Val.lo)) p a ∧ Grid.IsGenInv (ecdf (out.map Val.hi)) p b := by
  have hpos : 0 < out.length := List.length_pos_iff.mpr hok.1
  have hv := Props.C08.validW_equal (out.map Val.lo) out.length (by simp) hpos
  have := Props.C08.stacking_geninv g (out.map Val.lo) (out.map Val.hi) (Grid.equalW out.length) (by simp) hv
    (allLE_map out hok.2) hg
  unfold stackOut
  rw [stacking_none]
  simp only [List.length_map]
  have e1 := massLE_equal (out.map Val.lo)
  have e2 := massLE_equal (out.map Val.hi)
  simp only [List.length_map] at e1 e2
  rw [e1, e2] at this
  exact this

theorem ecdf_perm {l l' : List Rat} (h : l.Perm l') : ecdf l = ecdf l' := by
  funext t
  unfold ecdf
  rw [h.length_eq, h.countP_eq]

/-- ★ the p-box does not depend on the order in which the focal images are produced (meshgrid order, sample order) -/
theorem stackOut_perm (g : List Rat) (hg : Props.C08.GridOK g) (out out' : List Val) (hok : FocalOK out)
    (h : out.Perm out') : stackOut g out = stackOut g out' := by
  have hok' : FocalOK out' := ⟨fun h0 => hok.1 (by subst h0; exact h.eq_nil), fun v hv => hok.2 v (h.mem_iff.mpr hv)⟩
  obtain ⟨P, hP, hl, hr, hs⟩ := stackOut_geninv g hg out hok
  obtain ⟨P', hP', hl', hr', hs'⟩ := stackOut_geninv g hg out' hok'
  rw [hP, hP']
  have eL : ecdf (out.map Val.lo) = ecdf (out'.map Val.lo) := ecdf_perm (h.map _)
  have eR : ecdf (out.map Val.hi) = ecdf (out'.map Val.hi) := ecdf_perm (h.map _)
  have e1 : P.left = P'.left := by
    apply List.ext_getElem?
    intro i
    by_cases hi : i < g.length
    · obtain ⟨a, b, ha, hb, hga, hgb⟩ := hs i g[i] (by simp [hi])
      obtain ⟨a', b', ha', hb', hga', hgb'⟩ := hs' i g[i] (by simp [hi])
      rw [ha, ha', hga.unique (eL ▸ hga')]
    · rw [List.getElem?_eq_none (by omega), List.getElem?_eq_none (by omega)]
  have e2 : P.right = P'.right := by
    apply List.ext_getElem?
    intro i
    by_cases hi : i < g.length
    · obtain ⟨a, b, ha, hb, hga, hgb⟩ := hs i g[i] (by simp [hi])
      obtain ⟨a', b', ha', hb', hga', hgb'⟩ := hs' i g[i] (by simp [hi])
      rw [hb, hb', hgb.unique (eR ▸ hgb')]
    · rw [List.getElem?_eq_none (by omega), List.getElem?_eq_none (by omega)]
  cases P; cases P'; simp_all

/-- a generalised inverse of the empirical distribution function at a level in `(0,1]` lies between two sample values -/
theorem geninv_between (l : List Rat) (hne : l ≠ []) (p a : Rat) (h0 : 0 < p) (h1 : p ≤ 1)
    (h : Grid.IsGenInv (ecdf l) p a) : (∃ x ∈ l, x ≤ a) ∧ (∃ x ∈ l, a ≤ x) := by
  have hn : (0 : Rat) < l.length := by exact_mod_cast List.length_pos_iff.mpr hne
  constructor
  · by_contra hc
    have hc' : ∀ x ∈ l, ¬ x ≤ a := fun x hx hxa => hc ⟨x, hx, hxa⟩
    have : l.countP (fun y => decide (y ≤ a)) = 0 := by
      rw [List.countP_eq_zero]; intro x hx; simpa using hc' x hx
    have hF : ecdf l a = 0 := by unfold ecdf; rw [this]; simp
    have := h.1; rw [hF] at this; linarith
  · obtain ⟨M, hM⟩ : ∃ M, B2B.maxL1 l = some M := by
      cases l with
      | nil => exact absurd rfl hne
      | cons x xs => exact ⟨_, rfl⟩
    obtain ⟨b1, b2⟩ := B2B.maxL1_spec hM
    by_cases hMa : a ≤ M
    · exact ⟨M, b2, hMa⟩
    · exfalso
      have hlt := h.2 M (not_le.mp hMa)
      have : l.countP (fun y => decide (y ≤ M)) = l.length := by
        rw [List.countP_eq_length]; intro x hx; simpa using b1 x hx
      have hF : ecdf l M = 1 := by unfold ecdf; rw [this]; field_simp
      rw [hF] at hlt; linarith

/-- ★ every value of the left bound lies between two lower ends of focal images, every value of the right bound
between two upper ends: the output never leaves the hull of the focal images -/
theorem stackOut_between (g : List Rat) (hg : Props.C08.GridOK g) (out : List Val) (hok : FocalOK out) (P : Dss.PB)
    (hP : stackOut g out = .ok P) :
    (∀ a ∈ P.left, (∃ v ∈ out, v.lo ≤ a) ∧ (∃ v ∈ out, a ≤ v.lo)) ∧
    (∀ b ∈ P.right, (∃ v ∈ out, v.hi ≤ b) ∧ (∃ v ∈ out, b ≤ v.hi)) := by
  obtain ⟨P', hP', hl, hr, hs⟩ := stackOut_geninv g hg out hok
  rw [hP] at hP'; cases hP'
  have hne1 : out.map Val.lo ≠ [] := by simpa using hok.1
  have hne2 : out.map Val.hi ≠ [] := by simpa using hok.1
  constructor
  · intro a ha
    obtain ⟨i, hi, rfl⟩ := List.getElem_of_mem ha
    have hig : i < g.length := by omega
    obtain ⟨a', b', ha', hb', hga, hgb⟩ := hs i g[i] (by simp [hig])
    rw [List.getElem?_eq_getElem hi] at ha'; cases ha'
    obtain ⟨⟨x, hx, hxa⟩, ⟨y, hy, hya⟩⟩ := geninv_between _ hne1 g[i] _ (hg.1 _ (List.getElem_mem _)).1 (hg.1 _ (List.getElem_mem _)).2 hga
    obtain ⟨v, hv, rfl⟩ := List.mem_map.mp hx
    obtain ⟨w, hw, rfl⟩ := List.mem_map.mp hy
    exact ⟨⟨v, hv, hxa⟩, ⟨w, hw, hya⟩⟩
  · intro b hb
    obtain ⟨i, hi, rfl⟩ := List.getElem_of_mem hb
    have hig : i < g.length := by omega
    obtain ⟨a', b', ha', hb', hga, hgb⟩ := hs i g[i] (by simp [hig])
    rw [List.getElem?_eq_getElem hi] at hb'; cases hb'
    obtain ⟨⟨x, hx, hxa⟩, ⟨y, hy, hya⟩⟩ := geninv_between _ hne2 g[i] _ (hg.1 _ (List.getElem_mem _)).1 (hg.1 _ (List.getElem_mem _)).2 hgb
    obtain ⟨v, hv, rfl⟩ := List.mem_map.mp hx
    obtain ⟨w, hw, rfl⟩ := List.mem_map.mp hy
    exact ⟨⟨v, hv, hxa⟩, ⟨w, hw, hya⟩⟩

/-- ★ support inside the image: if every focal image lies in `[A, B]` (e.g. the direct interval image of the input
supports, `support_within_image_direct / _endpoints`), so does the whole returned p-box -/
theorem pbox_within_image (g : List Rat) (hg : Props.C08.GridOK g) (out : List Val) (hok : FocalOK out) (P : Dss.PB)
    (hP : stackOut g out = .ok P) (A B : Rat) (hA : ∀ v ∈ out, A ≤ v.lo ∧ v.hi ≤ B) :
    (∀ a ∈ P.left, A ≤ a ∧ a ≤ B) ∧ (∀ b ∈ P.right, A ≤ b ∧ b ≤ B) := by
  obtain ⟨h1, h2⟩ := stackOut_between g hg out hok P hP
  constructor
  · intro a ha
    obtain ⟨⟨v, hv, hva⟩, ⟨w, hw, haw⟩⟩ := h1 a ha
    exact ⟨le_trans (hA v hv).1 hva, le_trans haw (le_trans (hok.2 w hw) (hA w hw).2)⟩
  · intro b hb
    obtain ⟨⟨v, hv, hvb⟩, ⟨w, hw, hbw⟩⟩ := h2 b hb
    exact ⟨le_trans (hA v hv).1 (le_trans (hok.2 v hv) hvb), le_trans hbw (hA w hw).2⟩

/-- ★ all inputs intervals: every focal image is the same interval `[lo, hi]` (`all_intervals_cut`), and then the
returned p-box is that interval at every probability level -/
theorem all_intervals_exact (g : List Rat) (hg : Props.C08.GridOK g) (out : List Val) (hok : FocalOK out) (P : Dss.PB)
    (hP : stackOut g out = .ok P) (lo hi : Rat) (hsame : ∀ v ∈ out, v.lo = lo ∧ v.hi = hi) :
    (∀ a ∈ P.left, a = lo) ∧ (∀ b ∈ P.right, b = hi) := by
  obtain ⟨h1, h2⟩ := stackOut_between g hg out hok P hP
  constructor
  · intro a ha
    obtain ⟨⟨v, hv, hva⟩, ⟨w, hw, haw⟩⟩ := h1 a ha
    rw [(hsame v hv).1] at hva; rw [(hsame w hw).1] at haw
    exact le_antisymm haw hva
  · intro b hb
    obtain ⟨⟨v, hv, hvb⟩, ⟨w, hw, hbw⟩⟩ := h2 b hb
    rw [(hsame v hv).2] at hvb; rw [(hsame w hw).2] at hbw
    exact le_antisymm hbw hvb

/-- ★ all inputs precise: zero-width focal images (`all_precise_focal_degenerate`) stack to a p-box whose two
bounds coincide -/
theorem all_precise_degenerate (g : List Rat) (hg : Props.C08.GridOK g) (out : List Val) (hne : out ≠ [])
    (hdeg : ∀ v ∈ out, v.lo = v.hi) (P : Dss.PB) (hP : stackOut g out = .ok P) : P.left = P.right := by
  have hok : FocalOK out := ⟨hne, fun v hv => le_of_eq (hdeg v hv)⟩
  obtain ⟨P', hP', hl, hr, hs⟩ := stackOut_geninv g hg out hok
  rw [hP] at hP'; cases hP'
  have hmap : out.map Val.lo = out.map Val.hi := List.map_congr_left hdeg
  apply List.ext_getElem?
  intro i
  by_cases hi : i < g.length
  · obtain ⟨a, b, ha, hb, hga, hgb⟩ := hs i g[i] (by simp [hi])
    rw [ha, hb, hga.unique (hmap ▸ hgb)]
  · rw [List.getElem?_eq_none (by omega), List.getElem?_eq_none (by omega)]


/-- ★ rank form (multiplicities counted): with the `N` lower ends sorted as `sl`, the left bound at a grid level `p` with
`j/N < p ≤ (j+1)/N` is the `j`-th of them, i.e. the `⌈p·N⌉`-th smallest lower end; likewise the right bound and the
upper ends.  This is the statement the harness oracle checks on the real Staircase at all 200 levels. -/
theorem stackOut_rank (g : List Rat) (hg : Props.C08.GridOK g) (out : List Val) (hok : FocalOK out) (P : Dss.PB)
    (hP : stackOut g out = .ok P) (sl sh : List Rat) (hsl : sl.Perm (out.map Val.lo)) (hsh : sh.Perm (out.map Val.hi))
    (hsl' : sl.Pairwise (· ≤ ·)) (hsh' : sh.Pairwise (· ≤ ·))
    (i j : Nat) (p : Rat) (hp : g[i]? = some p) (h1 : (j : Rat) / out.length < p) (h2 : p ≤ ((j : Rat) + 1) / out.length) :
    (∀ a, sl[j]? = some a → P.left[i]? = some a) ∧ (∀ b, sh[j]? = some b → P.right[i]? = some b) := by
  obtain ⟨P', hP', _, _, hs⟩ := stackOut_geninv g hg out hok
  rw [hP] at hP'; cases hP'
  obtain ⟨a', b', ha', hb', hga, hgb⟩ := hs i p hp
  have hlenl : sl.length = out.length := by rw [hsl.length_eq]; simp
  have hlenh : sh.length = out.length := by rw [hsh.length_eq]; simp
  constructor
  · intro a ha
    have := Props.C08.sorted_geninv sl out.length hlenl hsl' j a p ha h1 h2
    rw [← hlenl, massLE_equal, ecdf_perm hsl] at this
    rw [ha', hga.unique this]
  · intro b hb
    have := Props.C08.sorted_geninv sh out.length hlenh hsh' j b p hb h1 h2
    rw [← hlenh, massLE_equal, ecdf_perm hsh] at this
    rw [hb', hgb.unique this]

/-! ## end to end: the p-box returned by `slicing` / `interval_monte_carlo` -/

theorem allLE_map_of (out : List Val) (h : Dss.allLE (out.map Val.lo) (out.map Val.hi) = true) : ∀ v ∈ out, v.lo ≤ v.hi := by
  induction out with
  | nil => simp
  | cons v r ih =>
    simp only [List.map_cons, Dss.allLE, Bool.and_eq_true, decide_eq_true_eq] at h
    intro w hw
    simp only [List.mem_cons] at hw
    rcases hw with rfl | hw
    · exact h.1
    · exact ih h.2 w hw

/-- `stacking` returns a p-box only for a non-empty list of valid intervals -/
theorem focalOK_of_stackOut (g : List Rat) (out : List Val) (P : Dss.PB) (h : stackOut g out = .ok P) : FocalOK out := by
  unfold stackOut Dss.stacking at h
  simp only [List.length_map, ne_eq, not_true_eq_false, if_false] at h
  split at h
  · cases h
  · rename_i hlen
    split at h
    · cases h
    · rename_i hle
      refine ⟨?_, allLE_map_of out (by simpa using hle)⟩
      intro h0; subst h0; simp at hlen

/-- ★ `slicing` returns the `stacking` (C08 model, equal masses) of one `b2b` image per level tuple -/
theorem slicingPbox_is_stack (φ : UFun → Rat → Rat) (e : Expr) (pv : List Rat) (vars : List PB) (grid : List Rat)
    (s : Strategy) (style : Option Style) (n : Option Nat) (P : Dss.PB)
    (h : slicingPbox φ e pv vars grid s style n = .ok P) :
    ∃ out, slicing φ e pv vars grid s style n = .ok out ∧
      List.Forall₂ (fun row r => ∃ box, cutBox pv vars row = .ok box ∧ b2b φ e .list box s style n = .ok r)
        (levelTuples grid vars.length) out ∧
      Dss.stacking pv (out.map Val.lo) (out.map Val.hi) none = .ok P := by
  unfold slicingPbox at h
  simp only [bind, Except.bind] at h
  split at h
  · cases h
  · rename_i out hout
    exact ⟨out, hout, output_is_stack φ e pv vars grid s style n out hout, h⟩

/-- ★ the same for interval Monte Carlo, for the level matrix that was sampled -/
theorem imcPbox_is_stack (φ : UFun → Rat → Rat) (e : Expr) (pv : List Rat) (vars : List PB) (levels : List (List Rat))
    (s : Strategy) (style : Option Style) (n : Option Nat) (P : Dss.PB)
    (h : imcPbox φ e pv vars levels s style n = .ok P) :
    ∃ out, imc φ e pv vars levels s style n = .ok out ∧
      List.Forall₂ (fun row r => ∃ box, cutBox pv vars row = .ok box ∧ b2b φ e .list box s style n = .ok r) levels out ∧
      Dss.stacking pv (out.map Val.lo) (out.map Val.hi) none = .ok P := by
  unfold imcPbox at h
  simp only [bind, Except.bind] at h
  split at h
  · cases h
  · rename_i out hout
    exact ⟨out, hout, imc_is_stack φ e pv vars levels s style n out hout, h⟩

/-- ★ all inputs precise ⇒ the returned p-box has coinciding bounds (slicing; every strategy) -/
theorem slicing_all_precise (φ : UFun → Rat → Rat) (e : Expr) (hp : PosPow e) (pv : List Rat) (hg : Props.C08.GridOK pv)
    (vars : List PB) (hP : ∀ Q ∈ vars, Q.left = Q.right) (grid : List Rat) (s : Strategy) (style : Option Style)
    (n : Option Nat) (P : Dss.PB) (h : slicingPbox φ e pv vars grid s style n = .ok P) : P.left = P.right := by
  obtain ⟨out, hout, _, hst⟩ := slicingPbox_is_stack φ e pv vars grid s style n P h
  have hok := focalOK_of_stackOut pv out P hst
  exact all_precise_degenerate pv hg out hok.1
    (all_precise_focal_degenerate φ e hp pv vars hP _ s style n out hout) P hst

/-- ★ … and interval Monte Carlo -/
theorem imc_all_precise (φ : UFun → Rat → Rat) (e : Expr) (hp : PosPow e) (pv : List Rat) (hg : Props.C08.GridOK pv)
    (vars : List PB) (hP : ∀ Q ∈ vars, Q.left = Q.right) (levels : List (List Rat)) (s : Strategy) (style : Option Style)
    (n : Option Nat) (P : Dss.PB) (h : imcPbox φ e pv vars levels s style n = .ok P) : P.left = P.right := by
  obtain ⟨out, hout, _, hst⟩ := imcPbox_is_stack φ e pv vars levels s style n P h
  have hok := focalOK_of_stackOut pv out P hst
  exact all_precise_degenerate pv hg out hok.1
    (all_precise_focal_degenerate φ e hp pv vars hP _ s style n out hout) P hst

/-- ★ output support inside the interval image of the input supports (direct and vertex strategies): if every box of
cuts lies in the box `sup` and direct evaluation over `sup` gives `V`, every value of both bounds of the returned
p-box lies in `V` -/
theorem mixed_within_image (φ : UFun → Rat → Rat) (hφ : Mono φ) (e : Expr) (pv : List Rat) (hg : Props.C08.GridOK pv)
    (vars : List PB) (levels : List (List Rat)) (s : Strategy) (hs : s = .direct ∨ s = .endpoints)
    (style : Option Style) (n : Option Nat) (sup : Box)
    (hsup : ∀ row ∈ levels, ∀ box, cutBox pv vars row = .ok box → SubBox box sup)
    (V : Val) (hV : direct φ e sup = .ok V) (P : Dss.PB) (h : imcPbox φ e pv vars levels s style n = .ok P) :
    (∀ a ∈ P.left, V.lo ≤ a ∧ a ≤ V.hi) ∧ (∀ b ∈ P.right, V.lo ≤ b ∧ b ≤ V.hi) := by
  obtain ⟨out, hout, hall, hst⟩ := imcPbox_is_stack φ e pv vars levels s style n P h
  have hok := focalOK_of_stackOut pv out P hst
  refine pbox_within_image pv hg out hok P hst V.lo V.hi ?_
  intro v hv
  obtain ⟨row, hrow, box, hbox, hb⟩ := forall₂_right hall v hv
  have hsub := hsup row hrow box hbox
  unfold b2b at hb
  split at hb
  · cases hb
  · rcases hs with rfl | rfl
    · exact support_within_image_direct φ hφ e box sup hsub v V hb hV
    · exact support_within_image_endpoints φ hφ e box sup hsub v V hb hV

/-! ### the grid of the source (`Params.p_values`, regenerated into `Pun.Gen.pValues`) satisfies the grid hypothesis -/

theorem slicing_all_precise_source (φ : UFun → Rat → Rat) (e : Expr) (hp : PosPow e)
    (vars : List PB) (hP : ∀ Q ∈ vars, Q.left = Q.right) (grid : List Rat) (s : Strategy) (style : Option Style)
    (n : Option Nat) (P : Dss.PB) (h : slicingPbox φ e Gen.pValues vars grid s style n = .ok P) : P.left = P.right :=
  slicing_all_precise φ e hp Gen.pValues Props.C08.pValues_gridOK vars hP grid s style n P h

/-- non-vacuity of the hypotheses: a valid focal list, and precise inputs -/
example : FocalOK [.ivl 1 2, .ivl 0 5] :=
  ⟨by simp, by intro v hv; simp at hv; rcases hv with rfl | rfl <;> norm_num [Val.lo, Val.hi]⟩

example : PosPow (.sub (.pow (.var 0) 2) (.un .exp (.var 1))) := ⟨⟨by norm_num, trivial⟩, trivial⟩

end Pun.MixedUp
