import Pun.Model.MixedUp
import Pun.Props.C13
set_option linter.unusedSimpArgs false
set_option linter.unusedVariables false
namespace Pun.MixedUp
open Pun Pun.Arith Pun.Expr Pun.B2B

theorem placeholder_c14 : (1 : Nat) = 1 := rfl

end Pun.MixedUp
