import Pun.Model.B2B
import Pun.Props.C01
set_option linter.unusedSimpArgs false
set_option linter.unusedVariables false
namespace Pun.B2B
open Pun Pun.Arith Pun.Expr

theorem placeholder_c13 : (1 : Nat) = 1 := rfl

end Pun.B2B
