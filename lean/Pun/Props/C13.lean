import Pun.Model.B2B
import Pun.Props.C01
import Mathlib.Algebra.Order.Ring.Abs
import Mathlib.Algebra.Order.Monoid.Unbundled.Pow
import Mathlib.Tactic.Ring
import Mathlib.Data.List.Range
/-!
# C13 — interval propagation strategies nest around the true range

All statements are about the functions the driver executes (`Pun.Expr.evalIvl`,
`Pun.Expr.evalPt`, `Pun.B2B.tiles`, `corners`, `direct`, `endpoints`,
`subinterval`).  `φ` (the values of exp / sqrt) is arbitrary; only
monotonicity on the domain is assumed (`Mono φ`).

★ `fundamental` / `direct_encloses`, `direct_isotone` (unconditional; `binVal_total` characterises when an operator
raises), `tiles_cover`, `tiles_within`, `tiles_reach_ends`, `tiles_interior_disjoint` (all `d`, `n`),
`subdirect_encloses`, `subdirect_within_direct`, `subdirect_total`, `subdirect_refines`, `endpoints_minmax_corners`,
`endpoints_inside_range`, `monotone_exact`, `subendpoints_between`, `nesting_chain` (the whole chain), `evalIvl_degenerate` (zero width is preserved).
-/
set_option linter.unusedSimpArgs false
set_option linter.unusedVariables false
set_option linter.unusedTactic false
set_option linter.unreachableTactic false
namespace Pun.B2B
open Pun Pun.Arith Pun.Expr

/-- `y` lies in the value (a number is the point interval) -/
def Mem (y : Rat) (v : Val) : Prop := v.lo ≤ y ∧ y ≤ v.hi

/-- the point `x` lies in the box (same length, coordinatewise) -/
def InBox (x : List Rat) (box : Box) : Prop := List.Forall₂ (fun xi p => p.1 ≤ xi ∧ xi ≤ p.2) x box

/-- the only fact assumed about exp and sqrt: monotone on the domain -/
def Mono (φ : UFun → Rat → Rat) : Prop := ∀ f x y, f.dom x → x ≤ y → φ f x ≤ φ f y

theorem mk_ok {l h : Rat} {V : Val} (hm : mk l h = .ok V) : V = .ivl l h ∧ l ≤ h := by
  unfold mk at hm
  split at hm
  · cases hm; exact ⟨rfl, by assumption⟩
  · cases hm

theorem mem_num {y c : Rat} (h : Mem y (.num c)) : y = c := le_antisymm h.2 h.1

theorem mem_mk {l h y : Rat} {V : Val} (hm : mk l h = .ok V) (h1 : l ≤ y) (h2 : y ≤ h) : Mem y V := by
  obtain ⟨rfl, _⟩ := mk_ok hm; exact ⟨h1, h2⟩

/-! ## soundness of one operator application -/

theorem binVal_sound (op : BinOp) (l r V : Val) (x y : Rat) (hl : Mem x l) (hr : Mem y r)
    (h : binVal op l r = .ok V) : ∃ z, binPt op x y = .ok z ∧ Mem z V := by
  cases l with
  | num p =>
    have hx := mem_num hl; subst hx
    cases r with
    | num s =>
      have hy := mem_num hr; subst hy
      cases op <;> simp only [binVal, binPt] at h ⊢
      · cases h; exact ⟨_, rfl, le_refl _, le_refl _⟩
      · cases h; exact ⟨_, rfl, le_refl _, le_refl _⟩
      · cases h; exact ⟨_, rfl, le_refl _, le_refl _⟩
      · split at h
        · cases h
        · rename_i hy0; rw [if_neg hy0]; cases h; exact ⟨_, rfl, le_refl _, le_refl _⟩
    | ivl c d =>
      obtain ⟨hy1, hy2⟩ := hr
      simp only [Val.lo, Val.hi] at hy1 hy2
      cases op <;> simp only [binVal, binPt] at h ⊢
      · exact ⟨_, rfl, mem_mk h (by linarith) (by linarith)⟩
      · exact ⟨_, rfl, mem_mk h (by linarith) (by linarith)⟩
      · split at h
        · exact ⟨_, rfl, mem_mk h (by nlinarith) (by nlinarith)⟩
        · exact ⟨_, rfl, mem_mk h (by nlinarith) (by nlinarith)⟩
      · split at h
        · cases h
        · rename_i hz
          have h0 : 0 < c ∨ d < 0 := by
            by_contra hc
            rw [not_or, not_lt, not_lt] at hc
            exact hz ⟨hc.1, hc.2⟩
          have hy0 : y ≠ 0 := by
            rcases h0 with h0 | h0
            · exact ne_of_gt (lt_of_lt_of_le h0 hy1)
            · exact ne_of_lt (lt_of_le_of_lt hy2 h0)
          rw [if_neg hy0]
          refine ⟨_, rfl, ?_⟩
          split at h
          · rename_i hp
            rcases h0 with h0 | h0
            · have hyp : 0 < y := lt_of_lt_of_le h0 hy1
              have hdp : 0 < d := lt_of_lt_of_le hyp hy2
              refine mem_mk h ?_ ?_
              · rw [div_le_div_iff₀ hdp hyp]; nlinarith
              · rw [div_le_div_iff₀ hyp h0]; nlinarith
            · have hyn : y < 0 := lt_of_le_of_lt hy2 h0
              have hcn : c < 0 := lt_of_le_of_lt hy1 hyn
              refine mem_mk h ?_ ?_
              · rw [div_le_div_iff_neg h0 hyn]; nlinarith
              · rw [div_le_div_iff_neg hyn hcn]; nlinarith
          · rename_i hp
            have hp' : x < 0 := not_le.mp hp
            rcases h0 with h0 | h0
            · have hyp : 0 < y := lt_of_lt_of_le h0 hy1
              have hdp : 0 < d := lt_of_lt_of_le hyp hy2
              refine mem_mk h ?_ ?_
              · rw [div_le_div_iff₀ h0 hyp]; nlinarith
              · rw [div_le_div_iff₀ hyp hdp]; nlinarith
            · have hyn : y < 0 := lt_of_le_of_lt hy2 h0
              have hcn : c < 0 := lt_of_le_of_lt hy1 hyn
              refine mem_mk h ?_ ?_
              · rw [div_le_div_iff_neg hcn hyn]; nlinarith
              · rw [div_le_div_iff_neg hyn h0]; nlinarith
  | ivl a b =>
    obtain ⟨hx1, hx2⟩ := hl
    simp only [Val.lo, Val.hi] at hx1 hx2
    cases r with
    | num s =>
      have hy := mem_num hr; subst hy
      cases op <;> simp only [binVal, binPt] at h ⊢
      · exact ⟨_, rfl, mem_mk h (by linarith) (by linarith)⟩
      · exact ⟨_, rfl, mem_mk h (by linarith) (by linarith)⟩
      · split at h
        · exact ⟨_, rfl, mem_mk h (by nlinarith) (by nlinarith)⟩
        · exact ⟨_, rfl, mem_mk h (by nlinarith) (by nlinarith)⟩
      · split at h
        · cases h
        · rename_i hy0
          rw [if_neg hy0]
          refine ⟨_, rfl, ?_⟩
          split at h
          · rename_i hp
            exact mem_mk h (by rw [div_le_div_iff₀ hp hp]; nlinarith) (by rw [div_le_div_iff₀ hp hp]; nlinarith)
          · rename_i hp
            have hn : y < 0 := lt_of_le_of_ne (not_lt.mp hp) hy0
            exact mem_mk h (by rw [div_le_div_iff_neg hn hn]; nlinarith) (by rw [div_le_div_iff_neg hn hn]; nlinarith)
    | ivl c d =>
      obtain ⟨hy1, hy2⟩ := hr
      simp only [Val.lo, Val.hi] at hy1 hy2
      have hab : a ≤ b := le_trans hx1 hx2
      have hcd : c ≤ d := le_trans hy1 hy2
      cases op <;> simp only [binVal, binPt] at h ⊢
      · exact ⟨_, rfl, mem_mk h (by linarith) (by linarith)⟩
      · exact ⟨_, rfl, mem_mk h (by linarith) (by linarith)⟩
      · rw [mulTable_exact a b c d hab hcd] at h
        have := mul_hull a b c d x y hx1 hx2 hy1 hy2
        exact ⟨_, rfl, mem_mk h this.1 this.2⟩
      · have h0 : 0 < c ∨ d < 0 := by
          by_contra hc
          rw [not_or, not_lt, not_lt] at hc
          rw [div_straddle_raises a b c d ⟨hc.1, hc.2⟩] at h
          cases h
        obtain ⟨l, hh, ht, hs, _, _⟩ := divTable_sound a b c d hab hcd h0
        rw [ht] at h
        have hy0 : y ≠ 0 := by
          rcases h0 with h0 | h0
          · exact ne_of_gt (lt_of_lt_of_le h0 hy1)
          · exact ne_of_lt (lt_of_le_of_lt hy2 h0)
        rw [if_neg hy0]
        have := hs x y hx1 hx2 hy1 hy2
        exact ⟨_, rfl, mem_mk h this.1 this.2⟩

theorem even_pow_bounds (a b x : Rat) (k : Nat) (hk : k % 2 = 0) (h1 : a ≤ x) (h2 : x ≤ b) :
    (if a > 0 then a ^ k else if b < 0 then b ^ k else 0) ≤ x ^ k ∧ x ^ k ≤ max (a ^ k) (b ^ k) := by
  have hev : Even k := Nat.even_iff.mpr hk
  have habs : ∀ t : Rat, |t| ^ k = t ^ k := fun t => hev.pow_abs t
  constructor
  · split
    · rename_i ha
      exact pow_le_pow_left₀ (le_of_lt ha) h1 k
    · split
      · rename_i hb
        rw [← habs b, ← habs x]
        apply pow_le_pow_left₀ (abs_nonneg _)
        rw [abs_of_neg hb, abs_of_neg (lt_of_le_of_lt h2 hb)]; linarith
      · exact hev.pow_nonneg x
  · rw [← habs x, ← habs a, ← habs b]
    rcases le_total 0 x with hx | hx
    · apply le_max_of_le_right
      apply pow_le_pow_left₀ (abs_nonneg _)
      rw [abs_of_nonneg hx, abs_of_nonneg (le_trans hx h2)]; exact h2
    · apply le_max_of_le_left
      apply pow_le_pow_left₀ (abs_nonneg _)
      rw [abs_of_nonpos hx, abs_of_nonpos (le_trans h1 hx)]; linarith

theorem powVal_sound (v V : Val) (k : Nat) (x : Rat) (hv : Mem x v) (h : powVal v k = .ok V) : Mem (x ^ k) V := by
  cases v with
  | num c =>
    have := mem_num hv; subst this
    simp only [powVal] at h; cases h; exact ⟨le_refl _, le_refl _⟩
  | ivl a b =>
    obtain ⟨h1, h2⟩ := hv
    simp only [Val.lo, Val.hi] at h1 h2
    simp only [powVal] at h
    split at h
    · rename_i hk
      have := even_pow_bounds a b x k hk h1 h2
      exact mem_mk h this.1 this.2
    · rename_i hk
      have hodd : Odd k := Nat.odd_iff.mpr (by omega)
      have hm := hodd.strictMono_pow (R := Rat)
      have e1 : a ^ k ≤ x ^ k := hm.monotone h1
      have e2 : x ^ k ≤ b ^ k := hm.monotone h2
      exact mem_mk h (le_trans (min_le_left _ _) e1) (le_trans e2 (le_max_right _ _))

theorem unVal_sound (φ : UFun → Rat → Rat) (hφ : Mono φ) (f : UFun) (v V : Val) (x : Rat) (hv : Mem x v)
    (h : unVal φ f v = .ok V) : ∃ z, unPt φ f x = .ok z ∧ Mem z V := by
  cases v with
  | num c =>
    have := mem_num hv; subst this
    simp only [unVal, unPt] at h ⊢
    split at h
    · rename_i hd
      rw [if_pos hd]; cases h; exact ⟨_, rfl, le_refl _, le_refl _⟩
    · cases h
  | ivl a b =>
    obtain ⟨h1, h2⟩ := hv
    simp only [Val.lo, Val.hi] at h1 h2
    simp only [unVal] at h
    split at h
    · rename_i hd
      have hdx : f.dom x := by
        cases f
        · trivial
        · exact le_trans hd.1 h1
      simp only [unPt, if_pos hdx]
      exact ⟨_, rfl, mem_mk h (hφ f a x hd.1 h1) (hφ f x b hdx h2)⟩
    · cases h

theorem getElem_inBox {x : List Rat} {box : Box} (h : InBox x box) (i : Nat) (p : Rat × Rat)
    (hp : box[i]? = some p) : ∃ v, x[i]? = some v ∧ p.1 ≤ v ∧ v ≤ p.2 := by
  induction h generalizing i with
  | nil => simp at hp
  | cons hab _ ih =>
    cases i with
    | zero => simp at hp; subst hp; exact ⟨_, by simp, hab⟩
    | succ j => simp at hp ⊢; exact ih j hp

/-- ★ fundamental theorem: whenever interval evaluation over the box returns a value, the function is
defined at every point of the box and its value lies in the returned interval.  Any dimension, any
depth, repeated variables. -/
theorem fundamental (φ : UFun → Rat → Rat) (hφ : Mono φ) (e : Expr) (box : Box) (x : List Rat)
    (hx : InBox x box) (V : Val) (h : evalIvl φ box e = .ok V) :
    ∃ y, evalPt φ x e = .ok y ∧ Mem y V := by
  induction e generalizing V with
  | var i =>
    simp only [evalIvl] at h
    split at h
    · rename_i p hp
      obtain ⟨v, hv, h1, h2⟩ := getElem_inBox hx i p hp
      cases h
      exact ⟨v, by simp [evalPt, hv], h1, h2⟩
    · cases h
  | const c => simp only [evalIvl] at h; cases h; exact ⟨c, rfl, le_refl _, le_refl _⟩
  | add a b iha ihb | sub a b iha ihb | mul a b iha ihb | div a b iha ihb =>
    simp only [evalIvl, bind, Except.bind] at h
    split at h
    · cases h
    · rename_i u hu
      split at h
      · cases h
      · rename_i v hv
        obtain ⟨xa, hxa, ma⟩ := iha u hu
        obtain ⟨xb, hxb, mb⟩ := ihb v hv
        obtain ⟨z, hz, mz⟩ := binVal_sound _ u v V xa xb ma mb h
        exact ⟨z, by simp only [evalPt, hxa, hxb, bind, Except.bind]; exact hz, mz⟩
  | pow a k iha =>
    simp only [evalIvl, bind, Except.bind] at h
    split at h
    · cases h
    · rename_i u hu
      obtain ⟨xa, hxa, ma⟩ := iha u hu
      exact ⟨xa ^ k, by simp only [evalPt, hxa, bind, Except.bind], powVal_sound u V k xa ma h⟩
  | un f a iha =>
    simp only [evalIvl, bind, Except.bind] at h
    split at h
    · cases h
    · rename_i u hu
      obtain ⟨xa, hxa, ma⟩ := iha u hu
      obtain ⟨z, hz, mz⟩ := unVal_sound φ hφ f u V xa ma h
      exact ⟨z, by simp only [evalPt, hxa, bind, Except.bind]; exact hz, mz⟩

/-- ★ direct evaluation encloses the true range -/
theorem direct_encloses (φ : UFun → Rat → Rat) (hφ : Mono φ) (e : Expr) (box : Box) (V : Val)
    (h : direct φ e box = .ok V) (x : List Rat) (hx : InBox x box) :
    ∃ y, evalPt φ x e = .ok y ∧ V.lo ≤ y ∧ y ≤ V.hi :=
  fundamental φ hφ e box x hx V h

example : direct (fun _ x => x) (.sub (.mul (.var 0) (.var 1)) (.var 0)) [(-1, 2), (3, 5)] = .ok (.ivl (-7) 11) := by
  decide +kernel

/-! ## cartesian products, corners, tiles -/

theorem mem_prodL {α : Type} (ls : List (List α)) (t : List α) :
    t ∈ prodL ls ↔ List.Forall₂ (fun a l => a ∈ l) t ls := by
  induction ls generalizing t with
  | nil => simp [prodL]
  | cons l ls ih =>
    simp only [prodL, List.mem_flatMap, List.mem_map, List.forall₂_cons_right_iff]
    constructor
    · rintro ⟨a, ha, t', ht', rfl⟩
      exact ⟨a, t', ha, (ih t').mp ht', rfl⟩
    · rintro ⟨a, t', ha, ht', rfl⟩
      exact ⟨a, ha, t', (ih t').mpr ht', rfl⟩

theorem mapM_ok {α β : Type} (f : α → Except Err β) (l : List α) (rs : List β) (h : l.mapM f = .ok rs) :
    List.Forall₂ (fun a r => f a = .ok r) l rs := by
  induction l generalizing rs with
  | nil => simp [pure, Except.pure] at h; subst h; exact .nil
  | cons a l ih =>
    simp only [List.mapM_cons, bind, Except.bind] at h
    split at h
    · cases h
    · rename_i b hb
      split at h
      · cases h
      · rename_i bs hbs
        simp only [pure, Except.pure] at h
        cases h
        exact .cons hb (ih bs hbs)

theorem foldl_min_spec (xs : List Rat) (x : Rat) :
    (∀ y ∈ x :: xs, xs.foldl min x ≤ y) ∧ xs.foldl min x ∈ x :: xs := by
  induction xs generalizing x with
  | nil => simp
  | cons z zs ih =>
    obtain ⟨h1, h2⟩ := ih (min x z)
    simp only [List.foldl_cons]
    refine ⟨?_, ?_⟩
    · intro y hy
      simp only [List.mem_cons] at hy
      rcases hy with hy | hy | hy
      · rw [hy]; exact le_trans (h1 (min x z) List.mem_cons_self) (min_le_left _ _)
      · rw [hy]; exact le_trans (h1 (min x z) List.mem_cons_self) (min_le_right _ _)
      · exact h1 y (List.mem_cons_of_mem _ hy)
    · simp only [List.mem_cons] at h2 ⊢
      rcases h2 with h2 | h2
      · rcases min_choice x z with hc | hc
        · left; rw [h2, hc]
        · right; left; rw [h2, hc]
      · right; right; exact h2

theorem foldl_max_spec (xs : List Rat) (x : Rat) :
    (∀ y ∈ x :: xs, y ≤ xs.foldl max x) ∧ xs.foldl max x ∈ x :: xs := by
  induction xs generalizing x with
  | nil => simp
  | cons z zs ih =>
    obtain ⟨h1, h2⟩ := ih (max x z)
    simp only [List.foldl_cons]
    refine ⟨?_, ?_⟩
    · intro y hy
      simp only [List.mem_cons] at hy
      rcases hy with hy | hy | hy
      · rw [hy]; exact le_trans (le_max_left _ _) (h1 (max x z) List.mem_cons_self)
      · rw [hy]; exact le_trans (le_max_right _ _) (h1 (max x z) List.mem_cons_self)
      · exact h1 y (List.mem_cons_of_mem _ hy)
    · simp only [List.mem_cons] at h2 ⊢
      rcases h2 with h2 | h2
      · rcases max_choice x z with hc | hc
        · left; rw [h2, hc]
        · right; left; rw [h2, hc]
      · right; right; exact h2

theorem minL1_spec {l : List Rat} {m : Rat} (h : minL1 l = some m) : (∀ y ∈ l, m ≤ y) ∧ m ∈ l := by
  cases l with
  | nil => simp [minL1] at h
  | cons x xs => simp only [minL1, Option.some.injEq] at h; subst h; exact foldl_min_spec xs x

theorem maxL1_spec {l : List Rat} {m : Rat} (h : maxL1 l = some m) : (∀ y ∈ l, y ≤ m) ∧ m ∈ l := by
  cases l with
  | nil => simp [maxL1] at h
  | cons x xs => simp only [maxL1, Option.some.injEq] at h; subst h; exact foldl_max_spec xs x

/-- `reconstitute` returns the hull: it contains every piece and both ends are ends of pieces -/
theorem reconstitute_spec {rs : List Val} {V : Val} (h : reconstitute rs = .ok V) :
    (∀ r ∈ rs, V.lo ≤ r.lo ∧ r.hi ≤ V.hi) ∧ (∃ r ∈ rs, r.lo = V.lo) ∧ (∃ r ∈ rs, r.hi = V.hi) := by
  unfold reconstitute at h
  split at h
  · rename_i l hh hl hh'
    obtain ⟨rfl, _⟩ := mk_ok h
    obtain ⟨a1, a2⟩ := minL1_spec hl
    obtain ⟨b1, b2⟩ := maxL1_spec hh'
    refine ⟨fun r hr => ⟨a1 _ (List.mem_map_of_mem hr), b1 _ (List.mem_map_of_mem hr)⟩, ?_, ?_⟩
    · obtain ⟨r, hr, e⟩ := List.mem_map.mp a2; exact ⟨r, hr, e⟩
    · obtain ⟨r, hr, e⟩ := List.mem_map.mp b2; exact ⟨r, hr, e⟩
  · cases h

def ValidBox (box : Box) : Prop := ∀ p ∈ box, p.1 ≤ p.2

/-- `t` is a sub-box of `box` -/
def SubBox (t box : Box) : Prop := List.Forall₂ (fun q p => p.1 ≤ q.1 ∧ q.1 ≤ q.2 ∧ q.2 ≤ p.2) t box

theorem knot_zero (lo hi : Rat) (n : Nat) : knot lo hi n 0 = lo := by simp [knot]

theorem knot_last (lo hi : Rat) (n : Nat) (hn : n ≠ 0) : knot lo hi n n = hi := by
  have : (n : Rat) ≠ 0 := Nat.cast_ne_zero.mpr hn
  unfold knot; field_simp; ring

theorem knot_mono (lo hi : Rat) (n : Nat) (h : lo ≤ hi) (i j : Nat) (hij : i ≤ j) :
    knot lo hi n i ≤ knot lo hi n j := by
  unfold knot
  have hw : 0 ≤ (hi - lo) / (n : Rat) := div_nonneg (by linarith) (Nat.cast_nonneg n)
  have : (i : Rat) ≤ (j : Rat) := Nat.cast_le.mpr hij
  nlinarith

theorem knot_cover (lo hi x : Rat) (n : Nat) (m : Nat) (hm : 1 ≤ m) (h1 : lo ≤ x) (h2 : x ≤ knot lo hi n m) :
    ∃ i, i < m ∧ knot lo hi n i ≤ x ∧ x ≤ knot lo hi n (i + 1) := by
  induction m with
  | zero => omega
  | succ k ih =>
    rcases Nat.eq_zero_or_pos k with hk | hk
    · subst hk; exact ⟨0, by omega, by rw [knot_zero]; exact h1, h2⟩
    · rcases le_total x (knot lo hi n k) with hx | hx
      · obtain ⟨i, hi', h3, h4⟩ := ih hk hx
        exact ⟨i, by omega, h3, h4⟩
      · exact ⟨k, by omega, hx, h2⟩

/-- ★ one side: the tiles cover the side -/
theorem tiles1_cover (p : Rat × Rat) (n : Nat) (x : Rat) (h1 : p.1 ≤ x) (h2 : x ≤ p.2) :
    ∃ t ∈ tiles1 p n, t.1 ≤ x ∧ x ≤ t.2 := by
  unfold tiles1
  split
  · exact ⟨p, by simp, h1, h2⟩
  · rename_i hn
    have hn0 : n ≠ 0 := by omega
    obtain ⟨i, hi, h3, h4⟩ := knot_cover p.1 p.2 x n n (by omega) h1 (by rw [knot_last _ _ _ hn0]; exact h2)
    exact ⟨_, List.mem_map.mpr ⟨i, List.mem_range.mpr hi, rfl⟩, h3, h4⟩

/-- one side: every tile is a valid sub-interval of the side -/
theorem tiles1_within (p : Rat × Rat) (n : Nat) (hp : p.1 ≤ p.2) (t : Rat × Rat) (ht : t ∈ tiles1 p n) :
    p.1 ≤ t.1 ∧ t.1 ≤ t.2 ∧ t.2 ≤ p.2 := by
  unfold tiles1 at ht
  split at ht
  · simp at ht; subst ht; exact ⟨le_refl _, hp, le_refl _⟩
  · rename_i hn
    have hn0 : n ≠ 0 := by omega
    obtain ⟨i, hi, rfl⟩ := List.mem_map.mp ht
    have hi' := List.mem_range.mp hi
    refine ⟨?_, knot_mono _ _ _ hp _ _ (by omega), ?_⟩
    · have := knot_mono p.1 p.2 n hp 0 i (by omega); rwa [knot_zero] at this
    · have := knot_mono p.1 p.2 n hp (i + 1) n (by omega); rwa [knot_last _ _ _ hn0] at this

/-- ★ the tiles cover the box, for every dimension and every subdivision count -/
theorem tiles_cover (box : Box) (n : Nat) (x : List Rat) (hx : InBox x box) :
    ∃ t ∈ tiles box n, InBox x t := by
  have : ∃ t, List.Forall₂ (fun a l => a ∈ l) t (box.map (fun p => tiles1 p n)) ∧ InBox x t := by
    induction hx with
    | nil => exact ⟨[], by simp, .nil⟩
    | cons hab _ ih =>
      obtain ⟨t, ht, hin⟩ := ih
      obtain ⟨q, hq, h3, h4⟩ := tiles1_cover _ n _ hab.1 hab.2
      exact ⟨q :: t, by simp only [List.map_cons]; exact .cons hq ht, .cons ⟨h3, h4⟩ hin⟩
  obtain ⟨t, ht, hin⟩ := this
  exact ⟨t, (mem_prodL _ _).mpr ht, hin⟩

/-- ★ every tile is a sub-box of the box (so the tiles reconstitute to nothing larger than the box) -/
theorem tiles_within (box : Box) (n : Nat) (hv : ValidBox box) (t : Box) (ht : t ∈ tiles box n) : SubBox t box := by
  have h := (mem_prodL _ _).mp ht
  clear ht
  induction box generalizing t with
  | nil => simp only [List.map_nil, List.forall₂_nil_right_iff] at h; subst h; exact .nil
  | cons p ps ih =>
    simp only [List.map_cons, List.forall₂_cons_right_iff] at h
    obtain ⟨q, t', hq, ht', rfl⟩ := h
    exact .cons (tiles1_within p n (hv p (by simp)) q hq) (ih (fun r hr => hv r (by simp [hr])) t' ht')

theorem inBox_of_sub {x : List Rat} {t box : Box} (hx : InBox x t) (hs : SubBox t box) : InBox x box := by
  induction hx generalizing box with
  | nil => cases hs; exact .nil
  | cons hab _ ih =>
    cases hs with
    | cons h1 h2 => exact .cons ⟨le_trans h1.1 hab.1, le_trans hab.2 h1.2.2⟩ (ih h2)

/-- the tile containing the lower corner starts at the lower corner, the one containing the upper corner
ends at it: together with `tiles_within`, the tiles reconstitute exactly to the box -/
theorem tiles_reach_ends (box : Box) (n : Nat) :
    (∃ t ∈ tiles box n, t.map Prod.fst = box.map Prod.fst) ∧ (∃ t ∈ tiles box n, t.map Prod.snd = box.map Prod.snd) := by
  have key : ∀ p : Rat × Rat, (∃ q ∈ tiles1 p n, q.1 = p.1) ∧ (∃ q ∈ tiles1 p n, q.2 = p.2) := by
    intro p
    unfold tiles1
    split
    · exact ⟨⟨p, by simp, rfl⟩, ⟨p, by simp, rfl⟩⟩
    · rename_i hn
      have hn0 : n ≠ 0 := by omega
      refine ⟨⟨_, List.mem_map.mpr ⟨0, List.mem_range.mpr (by omega), rfl⟩, knot_zero _ _ _⟩,
              ⟨_, List.mem_map.mpr ⟨n - 1, List.mem_range.mpr (by omega), rfl⟩, ?_⟩⟩
      have : n - 1 + 1 = n := by omega
      simp only [this]; exact knot_last _ _ _ hn0
  constructor
  · have : ∃ t, List.Forall₂ (fun a l => a ∈ l) t (box.map (fun p => tiles1 p n)) ∧ t.map Prod.fst = box.map Prod.fst := by
      induction box with
      | nil => exact ⟨[], by simp, rfl⟩
      | cons p ps ih =>
        obtain ⟨t, ht, he⟩ := ih
        obtain ⟨q, hq, hq1⟩ := (key p).1
        exact ⟨q :: t, by simp only [List.map_cons]; exact .cons hq ht, by simp [he, hq1]⟩
    obtain ⟨t, ht, he⟩ := this
    exact ⟨t, (mem_prodL _ _).mpr ht, he⟩
  · have : ∃ t, List.Forall₂ (fun a l => a ∈ l) t (box.map (fun p => tiles1 p n)) ∧ t.map Prod.snd = box.map Prod.snd := by
      induction box with
      | nil => exact ⟨[], by simp, rfl⟩
      | cons p ps ih =>
        obtain ⟨t, ht, he⟩ := ih
        obtain ⟨q, hq, hq1⟩ := (key p).2
        exact ⟨q :: t, by simp only [List.map_cons]; exact .cons hq ht, by simp [he, hq1]⟩
    obtain ⟨t, ht, he⟩ := this
    exact ⟨t, (mem_prodL _ _).mpr ht, he⟩

example : tiles [(-1, 2), (3, 5)] 2 = [[(-1, 1/2), (3, 4)], [(-1, 1/2), (4, 5)], [(1/2, 2), (3, 4)], [(1/2, 2), (4, 5)]] := by
  decide +kernel

/-- ★ subinterval reconstitution with direct evaluation encloses the true range -/
theorem subdirect_encloses (φ : UFun → Rat → Rat) (hφ : Mono φ) (e : Expr) (box : Box) (n : Nat) (V : Val)
    (h : subinterval φ e box (some .direct) (some n) = .ok V) (x : List Rat) (hx : InBox x box) :
    ∃ y, evalPt φ x e = .ok y ∧ V.lo ≤ y ∧ y ≤ V.hi := by
  simp only [subinterval, bind, Except.bind] at h
  split at h
  · cases h
  · rename_i rs hrs
    have hall := mapM_ok _ _ _ hrs
    obtain ⟨t, ht, hxt⟩ := tiles_cover box n x hx
    obtain ⟨r, hr, hdr⟩ : ∃ r ∈ rs, direct φ e t = .ok r := by
      clear hrs h
      generalize tiles box n = ts at hall ht
      induction hall with
      | nil => simp at ht
      | cons hab _ ih =>
        simp only [List.mem_cons] at ht
        rcases ht with rfl | ht
        · exact ⟨_, by simp, hab⟩
        · obtain ⟨r, hr, hd⟩ := ih ht; exact ⟨r, by simp [hr], hd⟩
    obtain ⟨y, hy, m1, m2⟩ := fundamental φ hφ e t x hxt r hdr
    obtain ⟨hs, _, _⟩ := reconstitute_spec h
    exact ⟨y, hy, le_trans (hs r hr).1 m1, le_trans m2 (hs r hr).2⟩

/-! ## vertex method -/

theorem corner_inBox (box : Box) (hv : ValidBox box) (c : List Rat) (hc : c ∈ corners box) : InBox c box := by
  have h := (mem_prodL _ _).mp hc
  clear hc
  induction box generalizing c with
  | nil => simp only [List.map_nil, List.forall₂_nil_right_iff] at h; subst h; exact .nil
  | cons p ps ih =>
    simp only [List.map_cons, List.forall₂_cons_right_iff] at h
    obtain ⟨a, c', ha, hc', rfl⟩ := h
    have hp := hv p (by simp)
    refine .cons ?_ (ih (fun r hr => hv r (by simp [hr])) c' hc')
    simp only [List.mem_cons, List.not_mem_nil, or_false] at ha
    rcases ha with rfl | rfl
    · exact ⟨le_refl _, hp⟩
    · exact ⟨hp, le_refl _⟩

/-- ★ the vertex method returns exactly the minimum and the maximum of the function over the `2^d`
corners (whatever their enumeration order): both ends are values at corners and every corner value
lies between them -/
theorem endpoints_minmax_corners (φ : UFun → Rat → Rat) (e : Expr) (box : Box) (V : Val)
    (h : endpoints φ e box = .ok V) :
    (∃ c ∈ corners box, evalPt φ c e = .ok V.lo) ∧ (∃ c ∈ corners box, evalPt φ c e = .ok V.hi) ∧
    (∀ c ∈ corners box, ∃ y, evalPt φ c e = .ok y ∧ V.lo ≤ y ∧ y ≤ V.hi) := by
  simp only [endpoints, bind, Except.bind] at h
  split at h
  · cases h
  · rename_i ys hys
    have hall := mapM_ok _ _ _ hys
    split at h
    · rename_i l hh hl hh'
      obtain ⟨rfl, _⟩ := mk_ok h
      obtain ⟨a1, a2⟩ := minL1_spec hl
      obtain ⟨b1, b2⟩ := maxL1_spec hh'
      simp only [Val.lo, Val.hi]
      have back : ∀ y ∈ ys, ∃ c ∈ corners box, evalPt φ c e = .ok y := by
        clear hys hl hh' a1 a2 b1 b2 h
        generalize corners box = cs at hall
        induction hall with
        | nil => simp
        | cons hab _ ih =>
          intro y hy
          simp only [List.mem_cons] at hy
          rcases hy with rfl | hy
          · exact ⟨_, by simp, hab⟩
          · obtain ⟨c, hc, he⟩ := ih y hy; exact ⟨c, by simp [hc], he⟩
      have fwd : ∀ c ∈ corners box, ∃ y ∈ ys, evalPt φ c e = .ok y := by
        clear hys hl hh' a1 a2 b1 b2 h back
        generalize corners box = cs at hall
        induction hall with
        | nil => simp
        | cons hab _ ih =>
          intro c hc
          simp only [List.mem_cons] at hc
          rcases hc with rfl | hc
          · exact ⟨_, by simp, hab⟩
          · obtain ⟨y, hy, he⟩ := ih c hc; exact ⟨y, by simp [hy], he⟩
      refine ⟨back _ a2, back _ b2, fun c hc => ?_⟩
      obtain ⟨y, hy, he⟩ := fwd c hc
      exact ⟨y, he, a1 y hy, b1 y hy⟩
    · cases h

/-- ★ hence the vertex result lies inside the true range: both ends are values of the function at
points of the box -/
theorem endpoints_inside_range (φ : UFun → Rat → Rat) (e : Expr) (box : Box) (hv : ValidBox box) (V : Val)
    (h : endpoints φ e box = .ok V) :
    (∃ x, InBox x box ∧ evalPt φ x e = .ok V.lo) ∧ (∃ x, InBox x box ∧ evalPt φ x e = .ok V.hi) := by
  obtain ⟨⟨c1, h1, e1⟩, ⟨c2, h2, e2⟩, _⟩ := endpoints_minmax_corners φ e box V h
  exact ⟨⟨c1, corner_inBox box hv c1 h1, e1⟩, ⟨c2, corner_inBox box hv c2 h2, e2⟩⟩

example : endpoints (fun _ x => x) (.sub (.mul (.var 0) (.var 1)) (.var 0)) [(-1, 2), (3, 5)] = .ok (.ivl (-4) 8) := by
  decide +kernel

/-! ## subinterval reconstitution with vertices -/

theorem forall₂_left {α β : Type} {R : α → β → Prop} {l : List α} {rs : List β} (h : List.Forall₂ R l rs)
    (a : α) (ha : a ∈ l) : ∃ r ∈ rs, R a r := by
  induction h with
  | nil => simp at ha
  | cons hab _ ih =>
    simp only [List.mem_cons] at ha
    rcases ha with rfl | ha
    · exact ⟨_, by simp, hab⟩
    · obtain ⟨r, hr, h⟩ := ih ha; exact ⟨r, by simp [hr], h⟩

theorem forall₂_right {α β : Type} {R : α → β → Prop} {l : List α} {rs : List β} (h : List.Forall₂ R l rs)
    (r : β) (hr : r ∈ rs) : ∃ a ∈ l, R a r := by
  induction h with
  | nil => simp at hr
  | cons hab _ ih =>
    simp only [List.mem_cons] at hr
    rcases hr with rfl | hr
    · exact ⟨_, by simp, hab⟩
    · obtain ⟨a, ha, h⟩ := ih hr; exact ⟨a, by simp [ha], h⟩

theorem tiles1_ends (p : Rat × Rat) (n : Nat) : (∃ q ∈ tiles1 p n, q.1 = p.1) ∧ (∃ q ∈ tiles1 p n, q.2 = p.2) := by
  unfold tiles1
  split
  · exact ⟨⟨p, by simp, rfl⟩, ⟨p, by simp, rfl⟩⟩
  · rename_i hn
    have hn0 : n ≠ 0 := by omega
    refine ⟨⟨_, List.mem_map.mpr ⟨0, List.mem_range.mpr (by omega), rfl⟩, knot_zero _ _ _⟩,
            ⟨_, List.mem_map.mpr ⟨n - 1, List.mem_range.mpr (by omega), rfl⟩, ?_⟩⟩
    have : n - 1 + 1 = n := by omega
    simp only [this]; exact knot_last _ _ _ hn0

/-- every corner of the box is a corner of some tile -/
theorem corner_in_some_tile (box : Box) (n : Nat) (c : List Rat) (hc : c ∈ corners box) :
    ∃ t ∈ tiles box n, c ∈ corners t := by
  have h := (mem_prodL _ _).mp hc
  clear hc
  have : ∃ t, List.Forall₂ (fun a l => a ∈ l) t (box.map (fun p => tiles1 p n)) ∧
      List.Forall₂ (fun a l => a ∈ l) c (t.map (fun p => [p.1, p.2])) := by
    induction box generalizing c with
    | nil => simp only [List.map_nil, List.forall₂_nil_right_iff] at h; subst h; exact ⟨[], .nil, .nil⟩
    | cons p ps ih =>
      simp only [List.map_cons, List.forall₂_cons_right_iff] at h
      obtain ⟨a, c', ha, hc', rfl⟩ := h
      obtain ⟨t, ht, hct⟩ := ih c' hc'
      simp only [List.mem_cons, List.not_mem_nil, or_false] at ha
      rcases ha with rfl | rfl
      · obtain ⟨q, hq, hq1⟩ := (tiles1_ends p n).1
        exact ⟨q :: t, by simp only [List.map_cons]; exact .cons hq ht,
               by simp only [List.map_cons]; exact .cons (by simp [hq1]) hct⟩
      · obtain ⟨q, hq, hq2⟩ := (tiles1_ends p n).2
        exact ⟨q :: t, by simp only [List.map_cons]; exact .cons hq ht,
               by simp only [List.map_cons]; exact .cons (by simp [hq2]) hct⟩
  obtain ⟨t, ht, hct⟩ := this
  exact ⟨t, (mem_prodL _ _).mpr ht, (mem_prodL _ _).mpr hct⟩

theorem validBox_of_sub {t box : Box} (hs : SubBox t box) : ValidBox t := by
  intro p hp
  induction hs with
  | nil => simp at hp
  | cons h1 _ ih =>
    simp only [List.mem_cons] at hp
    rcases hp with rfl | hp
    · exact h1.2.1
    · exact ih hp

/-- ★ subinterval reconstitution with vertices lies between the vertex result and the true range:
it contains the vertex result of the un-subdivided box, and both its ends are values of the function
at points of the box -/
theorem subendpoints_between (φ : UFun → Rat → Rat) (e : Expr) (box : Box) (hv : ValidBox box) (n : Nat) (V : Val)
    (h : subinterval φ e box (some .endpoints) (some n) = .ok V) :
    (∀ E, endpoints φ e box = .ok E → V.lo ≤ E.lo ∧ E.hi ≤ V.hi) ∧
    (∃ x, InBox x box ∧ evalPt φ x e = .ok V.lo) ∧ (∃ x, InBox x box ∧ evalPt φ x e = .ok V.hi) := by
  simp only [subinterval, bind, Except.bind] at h
  split at h
  · cases h
  · rename_i rs hrs
    have hall := mapM_ok _ _ _ hrs
    obtain ⟨hs, ⟨r1, hr1, e1⟩, ⟨r2, hr2, e2⟩⟩ := reconstitute_spec h
    refine ⟨?_, ?_, ?_⟩
    · intro E hE
      obtain ⟨⟨c1, hc1, ec1⟩, ⟨c2, hc2, ec2⟩, _⟩ := endpoints_minmax_corners φ e box E hE
      obtain ⟨t1, ht1, hct1⟩ := corner_in_some_tile box n c1 hc1
      obtain ⟨t2, ht2, hct2⟩ := corner_in_some_tile box n c2 hc2
      obtain ⟨ra, hra, hea⟩ := forall₂_left hall t1 ht1
      obtain ⟨rb, hrb, heb⟩ := forall₂_left hall t2 ht2
      obtain ⟨_, _, ha⟩ := endpoints_minmax_corners φ e t1 ra hea
      obtain ⟨_, _, hb⟩ := endpoints_minmax_corners φ e t2 rb heb
      obtain ⟨y1, hy1, m1, _⟩ := ha c1 hct1
      obtain ⟨y2, hy2, _, m2⟩ := hb c2 hct2
      rw [ec1] at hy1; rw [ec2] at hy2
      cases hy1; cases hy2
      exact ⟨le_trans (hs ra hra).1 m1, le_trans m2 (hs rb hrb).2⟩
    · obtain ⟨t, ht, het⟩ := forall₂_right hall r1 hr1
      have hsub := tiles_within box n hv t ht
      obtain ⟨⟨x, hx, ex⟩, _⟩ := endpoints_inside_range φ e t (validBox_of_sub hsub) r1 het
      exact ⟨x, inBox_of_sub hx hsub, by rw [ex, e1]⟩
    · obtain ⟨t, ht, het⟩ := forall₂_right hall r2 hr2
      have hsub := tiles_within box n hv t ht
      obtain ⟨_, ⟨x, hx, ex⟩⟩ := endpoints_inside_range φ e t (validBox_of_sub hsub) r2 het
      exact ⟨x, inBox_of_sub hx hsub, by rw [ex, e2]⟩

example : subinterval (fun _ x => x) (.sub (.mul (.var 0) (.var 0)) (.var 0)) [(-1, 2)] (some .endpoints) (some 3)
    = .ok (.ivl 0 2) := by decide +kernel

/-! ## functions monotone in each argument -/

/-- `f` is monotone (non-decreasing or non-increasing) in each coordinate over the box, the other
coordinates ranging over the box -/
def CoordMono : (List Rat → Rat) → Box → Prop
  | _, [] => True
  | f, p :: ps =>
    ((∀ s t xs, p.1 ≤ s → s ≤ t → t ≤ p.2 → InBox xs ps → f (s :: xs) ≤ f (t :: xs)) ∨
     (∀ s t xs, p.1 ≤ s → s ≤ t → t ≤ p.2 → InBox xs ps → f (t :: xs) ≤ f (s :: xs))) ∧
    CoordMono (fun xs => f (p.1 :: xs)) ps ∧ CoordMono (fun xs => f (p.2 :: xs)) ps

/-- a coordinatewise monotone function takes its extreme values over the box at corners -/
theorem mono_corners (f : List Rat → Rat) (box : Box) (hm : CoordMono f box) (x : List Rat) (hx : InBox x box) :
    (∃ c ∈ corners box, f c ≤ f x) ∧ (∃ c ∈ corners box, f x ≤ f c) := by
  induction hx generalizing f with
  | nil => exact ⟨⟨[], by simp [corners, prodL], le_refl _⟩, ⟨[], by simp [corners, prodL], le_refl _⟩⟩
  | @cons a p xs ps hab hrest ih =>
    obtain ⟨hdir, hlo, hhi⟩ := hm
    obtain ⟨⟨cl1, hcl1, el1⟩, ⟨cl2, hcl2, el2⟩⟩ := ih (fun xs => f (p.1 :: xs)) hlo
    obtain ⟨⟨ch1, hch1, eh1⟩, ⟨ch2, hch2, eh2⟩⟩ := ih (fun xs => f (p.2 :: xs)) hhi
    have memlo : ∀ c ∈ corners ps, (p.1 :: c) ∈ corners (p :: ps) := by
      intro c hc
      simp only [corners, List.map_cons, prodL, List.mem_flatMap, List.mem_map]
      exact ⟨p.1, by simp, c, hc, rfl⟩
    have memhi : ∀ c ∈ corners ps, (p.2 :: c) ∈ corners (p :: ps) := by
      intro c hc
      simp only [corners, List.map_cons, prodL, List.mem_flatMap, List.mem_map]
      exact ⟨p.2, by simp, c, hc, rfl⟩
    rcases hdir with hinc | hdec
    · exact ⟨⟨_, memlo cl1 hcl1, le_trans el1 (hinc p.1 a xs (le_refl _) hab.1 hab.2 hrest)⟩,
             ⟨_, memhi ch2 hch2, le_trans (hinc a p.2 xs hab.1 hab.2 (le_refl _) hrest) eh2⟩⟩
    · exact ⟨⟨_, memhi ch1 hch1, le_trans eh1 (hdec a p.2 xs hab.1 hab.2 (le_refl _) hrest)⟩,
             ⟨_, memlo cl2 hcl2, le_trans (hdec p.1 a xs (le_refl _) hab.1 hab.2 hrest) el2⟩⟩

/-- ★ for a response function that is monotone in each argument over the box, the vertex result is the
true range: every value of the function on the box lies in it (and its ends are attained,
`endpoints_inside_range`) -/
theorem monotone_exact (φ : UFun → Rat → Rat) (e : Expr) (box : Box) (f : List Rat → Rat)
    (hf : ∀ x, InBox x box → evalPt φ x e = .ok (f x)) (hv : ValidBox box) (hm : CoordMono f box) (V : Val)
    (h : endpoints φ e box = .ok V) (x : List Rat) (hx : InBox x box) : V.lo ≤ f x ∧ f x ≤ V.hi := by
  obtain ⟨_, _, hall⟩ := endpoints_minmax_corners φ e box V h
  obtain ⟨⟨c1, hc1, e1⟩, ⟨c2, hc2, e2⟩⟩ := mono_corners f box hm x hx
  obtain ⟨y1, hy1, m1, _⟩ := hall c1 hc1
  obtain ⟨y2, hy2, _, m2⟩ := hall c2 hc2
  rw [hf c1 (corner_inBox box hv c1 hc1)] at hy1
  rw [hf c2 (corner_inBox box hv c2 hc2)] at hy2
  cases hy1; cases hy2
  exact ⟨le_trans m1 e1, le_trans e2 m2⟩

/-- non-vacuity: `x0 - x1` is increasing in `x0` and decreasing in `x1` on every box -/
example (box : Box) (p q : Rat × Rat) (hb : box = [p, q]) : CoordMono (fun x => x.getD 0 0 - x.getD 1 0) box := by
  subst hb
  refine ⟨Or.inl ?_, ⟨Or.inr ?_, trivial, trivial⟩, ⟨Or.inr ?_, trivial, trivial⟩⟩
  · intro s t xs _ hst _ _; cases xs <;> simp <;> linarith
  · intro s t xs _ hst _ _; simp; linarith
  · intro s t xs _ hst _ _; simp; linarith

/-! ## inclusion isotonicity of direct evaluation -/

/-- `u ⊆ u'` -/
def Incl (u u' : Val) : Prop := u'.lo ≤ u.lo ∧ u.hi ≤ u'.hi
def Valid (u : Val) : Prop := u.lo ≤ u.hi
def _root_.Pun.Expr.Val.isNum : Val → Bool | .num _ => true | .ivl _ _ => false

theorem mem_of_incl {u u' : Val} {x : Rat} (h : Incl u u') (hx : Mem x u) : Mem x u' :=
  ⟨le_trans h.1 hx.1, le_trans hx.2 h.2⟩

/-- a single operator application attains both ends of its result at operand values -/
theorem binVal_attained (op : BinOp) (l r V : Val) (hl : Valid l) (hr : Valid r) (h : binVal op l r = .ok V) :
    (∃ x y, Mem x l ∧ Mem y r ∧ binPt op x y = .ok V.lo) ∧ (∃ x y, Mem x l ∧ Mem y r ∧ binPt op x y = .ok V.hi) := by
  cases l with
  | num p =>
    cases r with
    | num s =>
      have hm : Mem p (.num p) := ⟨le_refl _, le_refl _⟩
      have hs : Mem s (.num s) := ⟨le_refl _, le_refl _⟩
      simp only [binVal] at h
      cases hb : binPt op p s with
      | error e => rw [hb] at h; cases h
      | ok z => rw [hb] at h; cases h; exact ⟨⟨p, s, hm, hs, hb⟩, ⟨p, s, hm, hs, hb⟩⟩
    | ivl c d =>
      have hcd : c ≤ d := hr
      have hm : Mem p (.num p) := ⟨le_refl _, le_refl _⟩
      have mc : Mem c (.ivl c d) := ⟨le_refl _, hcd⟩
      have md : Mem d (.ivl c d) := ⟨hcd, le_refl _⟩
      cases op <;> simp only [binVal] at h
      · obtain ⟨rfl, _⟩ := mk_ok h
        exact ⟨⟨p, c, hm, mc, by simp [binPt, Val.lo, add_comm]⟩, ⟨p, d, hm, md, by simp [binPt, Val.hi, add_comm]⟩⟩
      · obtain ⟨rfl, _⟩ := mk_ok h
        exact ⟨⟨p, d, hm, md, rfl⟩, ⟨p, c, hm, mc, rfl⟩⟩
      · split at h
        · obtain ⟨rfl, _⟩ := mk_ok h
          exact ⟨⟨p, c, hm, mc, by simp [binPt, Val.lo, mul_comm]⟩, ⟨p, d, hm, md, by simp [binPt, Val.hi, mul_comm]⟩⟩
        · obtain ⟨rfl, _⟩ := mk_ok h
          exact ⟨⟨p, d, hm, md, by simp [binPt, Val.lo, mul_comm]⟩, ⟨p, c, hm, mc, by simp [binPt, Val.hi, mul_comm]⟩⟩
      · split at h
        · cases h
        · rename_i hz
          have hc0 : c ≠ 0 := by
            intro hc; subst hc; exact hz ⟨le_refl _, hcd⟩
          have hd0 : d ≠ 0 := by
            intro hd; subst hd; exact hz ⟨hcd, le_refl _⟩
          split at h
          · obtain ⟨rfl, _⟩ := mk_ok h
            exact ⟨⟨p, d, hm, md, by simp [binPt, Val.lo, hd0]⟩, ⟨p, c, hm, mc, by simp [binPt, Val.hi, hc0]⟩⟩
          · obtain ⟨rfl, _⟩ := mk_ok h
            exact ⟨⟨p, c, hm, mc, by simp [binPt, Val.lo, hc0]⟩, ⟨p, d, hm, md, by simp [binPt, Val.hi, hd0]⟩⟩
  | ivl a b =>
    have hab : a ≤ b := hl
    have ma : Mem a (.ivl a b) := ⟨le_refl _, hab⟩
    have mb : Mem b (.ivl a b) := ⟨hab, le_refl _⟩
    cases r with
    | num s =>
      have hs : Mem s (.num s) := ⟨le_refl _, le_refl _⟩
      cases op <;> simp only [binVal] at h
      · obtain ⟨rfl, _⟩ := mk_ok h; exact ⟨⟨a, s, ma, hs, rfl⟩, ⟨b, s, mb, hs, rfl⟩⟩
      · obtain ⟨rfl, _⟩ := mk_ok h; exact ⟨⟨a, s, ma, hs, rfl⟩, ⟨b, s, mb, hs, rfl⟩⟩
      · split at h
        · obtain ⟨rfl, _⟩ := mk_ok h; exact ⟨⟨a, s, ma, hs, rfl⟩, ⟨b, s, mb, hs, rfl⟩⟩
        · obtain ⟨rfl, _⟩ := mk_ok h; exact ⟨⟨b, s, mb, hs, rfl⟩, ⟨a, s, ma, hs, rfl⟩⟩
      · split at h
        · cases h
        · rename_i hs0
          split at h
          · obtain ⟨rfl, _⟩ := mk_ok h
            exact ⟨⟨a, s, ma, hs, by simp [binPt, Val.lo, hs0]⟩, ⟨b, s, mb, hs, by simp [binPt, Val.hi, hs0]⟩⟩
          · obtain ⟨rfl, _⟩ := mk_ok h
            exact ⟨⟨b, s, mb, hs, by simp [binPt, Val.lo, hs0]⟩, ⟨a, s, ma, hs, by simp [binPt, Val.hi, hs0]⟩⟩
    | ivl c d =>
      have hcd : c ≤ d := hr
      have mc : Mem c (.ivl c d) := ⟨le_refl _, hcd⟩
      have md : Mem d (.ivl c d) := ⟨hcd, le_refl _⟩
      cases op <;> simp only [binVal] at h
      · obtain ⟨rfl, _⟩ := mk_ok h; exact ⟨⟨a, c, ma, mc, rfl⟩, ⟨b, d, mb, md, rfl⟩⟩
      · obtain ⟨rfl, _⟩ := mk_ok h; exact ⟨⟨a, d, ma, md, rfl⟩, ⟨b, c, mb, mc, rfl⟩⟩
      · obtain ⟨l, hh, ht, _, ⟨x1, y1, p1, p2, p3, p4, e1⟩, ⟨x2, y2, q1, q2, q3, q4, e2⟩⟩ := mul_exact_image a b c d hab hcd
        rw [ht] at h
        obtain ⟨rfl, _⟩ := mk_ok h
        exact ⟨⟨x1, y1, ⟨p1, p2⟩, ⟨p3, p4⟩, by simp [binPt, Val.lo, e1]⟩, ⟨x2, y2, ⟨q1, q2⟩, ⟨q3, q4⟩, by simp [binPt, Val.hi, e2]⟩⟩
      · have h0 : 0 < c ∨ d < 0 := by
          by_contra hc
          rw [not_or, not_lt, not_lt] at hc
          rw [div_straddle_raises a b c d ⟨hc.1, hc.2⟩] at h
          cases h
        obtain ⟨l, hh, ht, _, ⟨x1, y1, p1, p2, p3, p4, e1⟩, ⟨x2, y2, q1, q2, q3, q4, e2⟩⟩ := divTable_sound a b c d hab hcd h0
        rw [ht] at h
        obtain ⟨rfl, _⟩ := mk_ok h
        have ny : ∀ y, c ≤ y → y ≤ d → y ≠ 0 := by
          intro y h1 h2
          rcases h0 with h0 | h0
          · exact ne_of_gt (lt_of_lt_of_le h0 h1)
          · exact ne_of_lt (lt_of_le_of_lt h2 h0)
        exact ⟨⟨x1, y1, ⟨p1, p2⟩, ⟨p3, p4⟩, by simp [binPt, Val.lo, e1, ny y1 p3 p4]⟩,
               ⟨x2, y2, ⟨q1, q2⟩, ⟨q3, q4⟩, by simp [binPt, Val.hi, e2, ny y2 q3 q4]⟩⟩

theorem valid_lo {u : Val} (h : Valid u) : Mem u.lo u := ⟨le_refl _, h⟩

/-- one operator application is inclusion isotone (and its result is a valid interval) -/
theorem binVal_incl (op : BinOp) (l r l' r' V V' : Val) (hl : Valid l) (hr : Valid r) (il : Incl l l') (ir : Incl r r')
    (h : binVal op l r = .ok V) (h' : binVal op l' r' = .ok V') : Incl V V' ∧ Valid V := by
  obtain ⟨⟨x1, y1, a1, b1, e1⟩, ⟨x2, y2, a2, b2, e2⟩⟩ := binVal_attained op l r V hl hr h
  obtain ⟨z1, hz1, m1⟩ := binVal_sound op l' r' V' x1 y1 (mem_of_incl il a1) (mem_of_incl ir b1) h'
  obtain ⟨z2, hz2, m2⟩ := binVal_sound op l' r' V' x2 y2 (mem_of_incl il a2) (mem_of_incl ir b2) h'
  obtain ⟨z3, hz3, m3⟩ := binVal_sound op l r V x1 y1 a1 b1 h
  rw [e1] at hz1 hz3; rw [e2] at hz2
  cases hz1; cases hz2; cases hz3
  exact ⟨⟨m1.1, m2.2⟩, m3.2⟩

theorem powVal_incl (v v' V V' : Val) (k : Nat) (hv : Valid v) (iv : Incl v v')
    (hk : v.isNum = v'.isNum)
    (h : powVal v k = .ok V) (h' : powVal v' k = .ok V') : Incl V V' ∧ Valid V := by
  have hval : Valid V := by
    have := powVal_sound v V k v.lo (valid_lo hv) h
    exact le_trans this.1 this.2
  refine ⟨?_, hval⟩
  cases v with
  | num c =>
    cases v' with
    | ivl _ _ => simp [Val.isNum] at hk
    | num c' =>
      have : c = c' := le_antisymm (le_trans (le_refl _) iv.2) iv.1
      subst this
      rw [h] at h'; cases h'; exact ⟨le_refl _, le_refl _⟩
  | ivl a b =>
    cases v' with
    | num c' => simp [Val.isNum] at hk
    | ivl a' b' =>
      obtain ⟨ia, ib⟩ := iv
      simp only [Val.lo, Val.hi] at ia ib
      have hab : a ≤ b := hv
      -- ends of V are values x^k at points of [a,b] unless k = 0
      have ma : Mem a (.ivl a' b') := ⟨ia, le_trans hab ib⟩
      have mb : Mem b (.ivl a' b') := ⟨le_trans ia hab, ib⟩
      have sa := powVal_sound _ V' k a ma h'
      have sb := powVal_sound _ V' k b mb h'
      simp only [powVal] at h
      split at h
      · rename_i hev
        obtain ⟨rfl, _⟩ := mk_ok h
        show V'.lo ≤ (if a > 0 then a ^ k else if b < 0 then b ^ k else 0) ∧ max (a ^ k) (b ^ k) ≤ V'.hi
        refine ⟨?_, max_le sa.2 sb.2⟩
        by_cases ha : a > 0
        · rw [if_pos ha]; exact sa.1
        · rw [if_neg ha]
          by_cases hb : b < 0
          · rw [if_pos hb]; exact sb.1
          · rw [if_neg hb]
            rcases Nat.eq_zero_or_pos k with hk0 | hk0
            · subst hk0
              simp only [powVal, Nat.zero_mod, if_true, pow_zero] at h'
              obtain ⟨rfl, _⟩ := mk_ok h'
              have na' : ¬ a' > 0 := fun hh => ha (lt_of_lt_of_le hh ia)
              have nb' : ¬ b' < 0 := fun hh => hb (lt_of_le_of_lt ib hh)
              simp [Val.lo, na', nb']
            · have m0 : Mem 0 (.ivl a' b') := ⟨le_trans ia (not_lt.mp ha), le_trans (not_lt.mp hb) ib⟩
              have s0 := powVal_sound _ V' k 0 m0 h'
              rw [zero_pow (by omega)] at s0
              exact s0.1
      · obtain ⟨rfl, _⟩ := mk_ok h
        show V'.lo ≤ min (a ^ k) (b ^ k) ∧ max (a ^ k) (b ^ k) ≤ V'.hi
        exact ⟨le_min sa.1 sb.1, max_le sa.2 sb.2⟩

theorem unVal_incl (φ : UFun → Rat → Rat) (hφ : Mono φ) (f : UFun) (v v' V V' : Val) (hv : Valid v) (iv : Incl v v')
    (hk : v.isNum = v'.isNum)
    (h : unVal φ f v = .ok V) (h' : unVal φ f v' = .ok V') : Incl V V' ∧ Valid V := by
  cases v with
  | num c =>
    cases v' with
    | ivl _ _ => simp [Val.isNum] at hk
    | num c' =>
    have : c = c' := le_antisymm (le_trans (le_refl _) iv.2) iv.1
    subst this
    rw [h] at h'; cases h'
    have := unVal_sound φ hφ f (.num c) V c ⟨le_refl _, le_refl _⟩ h
    obtain ⟨z, _, mz⟩ := this
    exact ⟨⟨le_refl _, le_refl _⟩, le_trans mz.1 mz.2⟩
  | ivl a b =>
    obtain ⟨ia, ib⟩ := iv
    have hab : a ≤ b := hv
    have ma : Mem a v' := ⟨ia, le_trans hab ib⟩
    have mb : Mem b v' := ⟨le_trans ia hab, ib⟩
    obtain ⟨za, hza, sa⟩ := unVal_sound φ hφ f v' V' a ma h'
    obtain ⟨zb, hzb, sb⟩ := unVal_sound φ hφ f v' V' b mb h'
    simp only [unVal] at h
    split at h
    · rename_i hd
      obtain ⟨rfl, hle⟩ := mk_ok h
      simp only [unPt, if_pos hd.1] at hza
      simp only [unPt, if_pos hd.2] at hzb
      cases hza; cases hzb
      exact ⟨⟨sa.1, sb.2⟩, hle⟩
    · cases h

theorem getElem_sub {t box : Box} (hs : SubBox t box) (i : Nat) (q p : Rat × Rat) (hq : t[i]? = some q) (hp : box[i]? = some p) :
    p.1 ≤ q.1 ∧ q.1 ≤ q.2 ∧ q.2 ≤ p.2 := by
  induction hs generalizing i with
  | nil => simp at hq
  | cons hab _ ih =>
    cases i with
    | zero => simp at hq hp; subst hq; subst hp; exact hab
    | succ j => simp at hq hp; exact ih j hq hp


theorem mk_kind {l h : Rat} {V : Val} (hm : mk l h = .ok V) : V.isNum = false := by
  obtain ⟨rfl, _⟩ := mk_ok hm; rfl

theorem binVal_kind (op : BinOp) (l r V : Val) (h : binVal op l r = .ok V) : V.isNum = (l.isNum && r.isNum) := by
  cases l <;> cases r <;> cases op <;> simp only [binVal] at h <;> simp only [Val.isNum, Bool.and_true, Bool.and_false, Bool.false_and] <;>
    first
    | (cases hb : binPt _ _ _ <;> rw [hb] at h <;> cases h <;> rfl)
    | exact mk_kind h
    | (split at h <;> first | exact mk_kind h | cases h | (split at h <;> first | exact mk_kind h | cases h))

theorem powVal_kind (v V : Val) (k : Nat) (h : powVal v k = .ok V) : V.isNum = v.isNum := by
  cases v <;> simp only [powVal] at h
  · cases h; rfl
  · split at h <;> exact mk_kind h

theorem unVal_kind (φ : UFun → Rat → Rat) (f : UFun) (v V : Val) (h : unVal φ f v = .ok V) : V.isNum = v.isNum := by
  cases v <;> simp only [unVal] at h
  · cases hb : unPt φ f _ <;> rw [hb] at h <;> cases h; rfl
  · split at h
    · exact mk_kind h
    · cases h

/-- inclusion when both evaluations return a value (lemma for `direct_isotone`, which also proves that the
sub-box evaluation does return a value) -/
theorem direct_incl_of_ok (φ : UFun → Rat → Rat) (hφ : Mono φ) (e : Expr) (t box : Box) (hs : SubBox t box)
    (V V' : Val) (h : evalIvl φ t e = .ok V) (h' : evalIvl φ box e = .ok V') :
    Incl V V' ∧ Valid V ∧ V.isNum = V'.isNum := by
  induction e generalizing V V' with
  | var i =>
    simp only [evalIvl] at h h'
    split at h
    · rename_i q hq
      split at h'
      · rename_i p hp
        cases h; cases h'
        obtain ⟨h1, h2, h3⟩ := getElem_sub hs i q p hq hp
        exact ⟨⟨h1, h3⟩, h2, rfl⟩
      · cases h'
    · cases h
  | const c => simp only [evalIvl] at h h'; cases h; cases h'; exact ⟨⟨le_refl _, le_refl _⟩, le_refl _, rfl⟩
  | add a b iha ihb | sub a b iha ihb | mul a b iha ihb | div a b iha ihb =>
    simp only [evalIvl, bind, Except.bind] at h h'
    split at h
    · cases h
    · rename_i u hu
      split at h
      · cases h
      · rename_i v hv
        split at h'
        · cases h'
        · rename_i u' hu'
          split at h'
          · cases h'
          · rename_i v' hv'
            obtain ⟨i1, v1, k1⟩ := iha u u' hu hu'
            obtain ⟨i2, v2, k2⟩ := ihb v v' hv hv'
            obtain ⟨r1, r2⟩ := binVal_incl _ u v u' v' V V' v1 v2 i1 i2 h h'
            exact ⟨r1, r2, by rw [binVal_kind _ _ _ _ h, binVal_kind _ _ _ _ h', k1, k2]⟩
  | pow a k iha =>
    simp only [evalIvl, bind, Except.bind] at h h'
    split at h
    · cases h
    · rename_i u hu
      split at h'
      · cases h'
      · rename_i u' hu'
        obtain ⟨i1, v1, k1⟩ := iha u u' hu hu'
        obtain ⟨r1, r2⟩ := powVal_incl u u' V V' k v1 i1 k1 h h'
        exact ⟨r1, r2, by rw [powVal_kind _ _ _ h, powVal_kind _ _ _ h', k1]⟩
  | un f a iha =>
    simp only [evalIvl, bind, Except.bind] at h h'
    split at h
    · cases h
    · rename_i u hu
      split at h'
      · cases h'
      · rename_i u' hu'
        obtain ⟨i1, v1, k1⟩ := iha u u' hu hu'
        obtain ⟨r1, r2⟩ := unVal_incl φ hφ f u u' V V' v1 i1 k1 h h'
        exact ⟨r1, r2, by rw [unVal_kind _ _ _ _ h, unVal_kind _ _ _ _ h', k1]⟩

/-- the full isotonicity statement (proved below: `direct_isotone_statement`) -/
def DirectIsotoneStatement : Prop :=
  ∀ (φ : UFun → Rat → Rat), Mono φ → ∀ (e : Expr) (t box : Box), SubBox t box → ∀ V', evalIvl φ box e = .ok V' →
    ∃ V, evalIvl φ t e = .ok V ∧ Incl V V'

/-- ★ subinterval reconstitution with direct evaluation is contained in the un-subdivided direct result -/
theorem subdirect_within_direct (φ : UFun → Rat → Rat) (hφ : Mono φ) (e : Expr) (box : Box) (hv : ValidBox box) (n : Nat)
    (V D : Val) (h : subinterval φ e box (some .direct) (some n) = .ok V) (hD : direct φ e box = .ok D) :
    D.lo ≤ V.lo ∧ V.hi ≤ D.hi := by
  simp only [subinterval, bind, Except.bind] at h
  split at h
  · cases h
  · rename_i rs hrs
    have hall := mapM_ok _ _ _ hrs
    obtain ⟨_, ⟨r1, hr1, e1⟩, ⟨r2, hr2, e2⟩⟩ := reconstitute_spec h
    obtain ⟨t1, ht1, het1⟩ := forall₂_right hall r1 hr1
    obtain ⟨t2, ht2, het2⟩ := forall₂_right hall r2 hr2
    obtain ⟨i1, _, _⟩ := direct_incl_of_ok φ hφ e t1 box (tiles_within box n hv t1 ht1) r1 D het1 hD
    obtain ⟨i2, _, _⟩ := direct_incl_of_ok φ hφ e t2 box (tiles_within box n hv t2 ht2) r2 D het2 hD
    exact ⟨by rw [← e1]; exact i1.1, by rw [← e2]; exact i2.2⟩

example : subinterval (fun _ x => x) (.sub (.mul (.var 0) (.var 1)) (.var 0)) [(-1, 2), (3, 5)] (some .direct) (some 2)
    = .ok (.ivl (-11/2) (19/2)) := by decide +kernel

/-! ## tiles do not overlap -/

/-- along one side the tiles are ordered and meet only at knots: tile `i` ends no later than tile `j` starts,
for `i < j` (index form; `tiles1_pairwise` is the list form used for the d-dimensional theorem) -/
theorem tiles1_ordered (p : Rat × Rat) (n : Nat) (hp : p.1 ≤ p.2) (i j : Nat) (hij : i < j) (hj : j < n) :
    ∃ s t, (tiles1 p n)[i]? = some s ∧ (tiles1 p n)[j]? = some t ∧ s.2 ≤ t.1 := by
  have hn : ¬ n ≤ 1 := by omega
  refine ⟨(knot p.1 p.2 n i, knot p.1 p.2 n (i + 1)), (knot p.1 p.2 n j, knot p.1 p.2 n (j + 1)), ?_, ?_, ?_⟩
  · simp [tiles1, hn, List.getElem?_map, List.getElem?_range (by omega : i < n)]
  · simp [tiles1, hn, List.getElem?_map, List.getElem?_range hj]
  · exact knot_mono _ _ _ hp _ _ (by omega)

/-- the non-overlap statement in dimension `d` (proved below: `tiles_interior_disjoint`): two tiles at different
positions of the tiling are separated along some coordinate -/
def TilesInteriorDisjointStatement : Prop :=
  ∀ (box : Box) (n : Nat), ValidBox box → ∀ (i j : Nat), i < j → ∀ (s t : Box), (tiles box n)[i]? = some s → (tiles box n)[j]? = some t →
    ∃ (k : Nat) (q q' : Rat × Rat), s[k]? = some q ∧ t[k]? = some q' ∧ (q.2 ≤ q'.1 ∨ q'.2 ≤ q.1)

example : ∃ s t, (tiles1 (0, 3) 3)[0]? = some s ∧ (tiles1 (0, 3) 3)[2]? = some t ∧ s.2 ≤ t.1 :=
  tiles1_ordered (0, 3) 3 (by norm_num) 0 2 (by omega) (by omega)

/-! ## when interval evaluation raises, and unconditional inclusion isotonicity -/

/-- the only arithmetic reason for `binVal` to raise: a divisor that contains zero -/
def BinDefined (op : BinOp) (r : Val) : Prop := op = .div → ¬ (r.lo ≤ 0 ∧ 0 ≤ r.hi)

theorem mk_of_le {l h : Rat} (hh : l ≤ h) : mk l h = .ok (.ivl l h) := by simp [mk, hh]

/-- an operator application that returned a value did not divide by something containing zero -/
theorem binVal_defined_of_ok (op : BinOp) (l r V : Val) (h : binVal op l r = .ok V) : BinDefined op r := by
  intro hop; subst hop
  cases l with
  | num p =>
    cases r with
    | num s =>
      simp only [binVal, binPt] at h
      rintro ⟨h1, h2⟩
      have : s = 0 := le_antisymm h1 h2
      rw [if_pos this] at h; cases h
    | ivl c d =>
      simp only [binVal] at h
      split at h
      · cases h
      · rename_i hz; exact hz
  | ivl a b =>
    cases r with
    | num s =>
      simp only [binVal] at h
      rintro ⟨h1, h2⟩
      have : s = 0 := le_antisymm h1 h2
      rw [if_pos this] at h; cases h
    | ivl c d =>
      simp only [binVal] at h
      rintro ⟨h1, h2⟩
      rw [div_straddle_raises a b c d ⟨h1, h2⟩] at h
      cases h

theorem binDefined_of_incl {op : BinOp} {r r' : Val} (ir : Incl r r') (h : BinDefined op r') : BinDefined op r := by
  intro hop ⟨h1, h2⟩
  exact h hop ⟨le_trans ir.1 h1, le_trans h2 ir.2⟩

/-- ★ totality: on valid operands an operator application raises ONLY for a divisor containing zero -/
theorem binVal_total (op : BinOp) (l r : Val) (hl : Valid l) (hr : Valid r) (hd : BinDefined op r) :
    ∃ V, binVal op l r = .ok V := by
  cases l with
  | num p =>
    cases r with
    | num s =>
      cases op <;> simp only [binVal, binPt]
      · exact ⟨_, rfl⟩
      · exact ⟨_, rfl⟩
      · exact ⟨_, rfl⟩
      · have hs : s ≠ 0 := by
          intro h0; subst h0; exact hd rfl ⟨le_refl _, le_refl _⟩
        rw [if_neg hs]; exact ⟨_, rfl⟩
    | ivl c d =>
      have hcd : c ≤ d := hr
      cases op <;> simp only [binVal]
      · exact ⟨_, mk_of_le (by linarith)⟩
      · exact ⟨_, mk_of_le (by linarith)⟩
      · split
        · exact ⟨_, mk_of_le (by nlinarith)⟩
        · exact ⟨_, mk_of_le (by nlinarith)⟩
      · have hns : ¬ (c ≤ 0 ∧ d ≥ 0) := hd rfl
        rw [if_neg hns]
        have h0 : 0 < c ∨ d < 0 := by
          by_contra hc
          rw [not_or, not_lt, not_lt] at hc
          exact hns ⟨hc.1, hc.2⟩
        split
        · rename_i hp
          rcases h0 with h0 | h0
          · exact ⟨_, mk_of_le (by rw [div_le_div_iff₀ (lt_of_lt_of_le h0 hcd) h0]; nlinarith)⟩
          · exact ⟨_, mk_of_le (by rw [div_le_div_iff_neg h0 (lt_of_le_of_lt hcd h0)]; nlinarith)⟩
        · rename_i hp
          have hp' : p < 0 := not_le.mp hp
          rcases h0 with h0 | h0
          · exact ⟨_, mk_of_le (by rw [div_le_div_iff₀ h0 (lt_of_lt_of_le h0 hcd)]; nlinarith)⟩
          · exact ⟨_, mk_of_le (by rw [div_le_div_iff_neg (lt_of_le_of_lt hcd h0) h0]; nlinarith)⟩
  | ivl a b =>
    have hab : a ≤ b := hl
    cases r with
    | num s =>
      cases op <;> simp only [binVal]
      · exact ⟨_, mk_of_le (by linarith)⟩
      · exact ⟨_, mk_of_le (by linarith)⟩
      · split
        · exact ⟨_, mk_of_le (by nlinarith)⟩
        · exact ⟨_, mk_of_le (by nlinarith)⟩
      · have hs : s ≠ 0 := by
          intro h0; subst h0; exact hd rfl ⟨le_refl _, le_refl _⟩
        rw [if_neg hs]
        split
        · rename_i hp
          exact ⟨_, mk_of_le (by rw [div_le_div_iff₀ hp hp]; nlinarith)⟩
        · rename_i hp
          have hn : s < 0 := lt_of_le_of_ne (not_lt.mp hp) hs
          exact ⟨_, mk_of_le (by rw [div_le_div_iff_neg hn hn]; nlinarith)⟩
    | ivl c d =>
      have hcd : c ≤ d := hr
      cases op <;> simp only [binVal]
      · exact ⟨_, mk_of_le (by linarith)⟩
      · exact ⟨_, mk_of_le (by linarith)⟩
      · rw [mulTable_exact a b c d hab hcd]
        have := mul_hull a b c d a c (le_refl _) hab (le_refl _) hcd
        exact ⟨_, mk_of_le (le_trans this.1 this.2)⟩
      · have hns : ¬ (c ≤ 0 ∧ 0 ≤ d) := hd rfl
        have h0 : 0 < c ∨ d < 0 := by
          by_contra hc
          rw [not_or, not_lt, not_lt] at hc
          exact hns ⟨hc.1, hc.2⟩
        obtain ⟨l, hh, ht, hs, _, _⟩ := divTable_sound a b c d hab hcd h0
        rw [ht]
        have := hs a c (le_refl _) hab (le_refl _) hcd
        exact ⟨_, mk_of_le (le_trans this.1 this.2)⟩

/-- `Interval.__pow__` with a natural exponent never raises on a valid operand -/
theorem powVal_total (v : Val) (k : Nat) (hv : Valid v) : ∃ V, powVal v k = .ok V := by
  cases v with
  | num c => exact ⟨_, rfl⟩
  | ivl a b =>
    have hab : a ≤ b := hv
    simp only [powVal]
    split
    · rename_i hk
      have := even_pow_bounds a b a k hk (le_refl _) hab
      exact ⟨_, mk_of_le (le_trans this.1 this.2)⟩
    · exact ⟨_, mk_of_le (le_trans (min_le_left _ _) (le_max_left _ _))⟩

theorem dom_mono (f : UFun) {x y : Rat} (hx : f.dom x) (hxy : x ≤ y) : f.dom y := by
  cases f
  · trivial
  · exact le_trans hx hxy

theorem unVal_dom_of_ok (φ : UFun → Rat → Rat) (f : UFun) (v V : Val) (h : unVal φ f v = .ok V) : f.dom v.lo := by
  cases v with
  | num c =>
    simp only [unVal, unPt] at h
    split at h
    · assumption
    · cases h
  | ivl a b =>
    simp only [unVal] at h
    split at h
    · rename_i hd; exact hd.1
    · cases h

/-- exp / sqrt of a valid operand raise only outside the domain -/
theorem unVal_total (φ : UFun → Rat → Rat) (hφ : Mono φ) (f : UFun) (v : Val) (hv : Valid v) (hd : f.dom v.lo) :
    ∃ V, unVal φ f v = .ok V := by
  cases v with
  | num c =>
    have hd' : f.dom c := hd
    simp only [unVal, unPt]; rw [if_pos hd']; exact ⟨_, rfl⟩
  | ivl a b =>
    have hab : a ≤ b := hv
    have hd' : f.dom a := hd
    simp only [unVal]
    rw [if_pos ⟨hd', dom_mono f hd' hab⟩]
    exact ⟨_, mk_of_le (hφ f a b hd hab)⟩

theorem getElem_sub_exists {t box : Box} (hs : SubBox t box) (i : Nat) (p : Rat × Rat) (hp : box[i]? = some p) :
    ∃ q, t[i]? = some q := by
  induction hs generalizing i with
  | nil => simp at hp
  | cons hab _ ih =>
    cases i with
    | zero => exact ⟨_, rfl⟩
    | succ j => simp only [List.getElem?_cons_succ] at hp ⊢; exact ih j hp

theorem valid_of_incl {v v' : Val} (hv : Valid v) (i : Incl v v') : Valid v' :=
  le_trans i.1 (le_trans hv i.2)

theorem direct_isotone_bin (φ : UFun → Rat → Rat) (hφ : Mono φ) (op : BinOp) (t box : Box) (hs : SubBox t box)
    (E a b : Expr)
    (hE : ∀ bx, evalIvl φ bx E = (do let u ← evalIvl φ bx a; let v ← evalIvl φ bx b; binVal op u v))
    (iha : ∀ V', evalIvl φ box a = .ok V' → ∃ V, evalIvl φ t a = .ok V ∧ Incl V V' ∧ Valid V ∧ V.isNum = V'.isNum)
    (ihb : ∀ V', evalIvl φ box b = .ok V' → ∃ V, evalIvl φ t b = .ok V ∧ Incl V V' ∧ Valid V ∧ V.isNum = V'.isNum)
    (V' : Val) (h' : evalIvl φ box E = .ok V') :
    ∃ V, evalIvl φ t E = .ok V ∧ Incl V V' ∧ Valid V ∧ V.isNum = V'.isNum := by
  have h0 := h'
  rw [hE] at h'
  simp only [bind, Except.bind] at h'
  split at h'
  · cases h'
  · rename_i u' hu'
    split at h'
    · cases h'
    · rename_i v' hv'
      obtain ⟨u, hu, iu, vu, _⟩ := iha u' hu'
      obtain ⟨v, hv, iv, vv, _⟩ := ihb v' hv'
      have hdef := binDefined_of_incl iv (binVal_defined_of_ok _ u' v' V' h')
      obtain ⟨V, hV⟩ := binVal_total _ u v vu vv hdef
      have hEt : evalIvl φ t E = .ok V := by
        rw [hE]; simp only [hu, hv, bind, Except.bind]; exact hV
      exact ⟨V, hEt, direct_incl_of_ok φ hφ E t box hs V V' hEt h0⟩

/-- ★ inclusion isotonicity of direct evaluation, unconditionally: whenever evaluation over a box returns
a value, evaluation over every sub-box returns a value too, and it is contained in the former.
Any dimension, any depth, repeated variables, `+ − × ÷`, natural powers, exp, sqrt. -/
theorem direct_isotone (φ : UFun → Rat → Rat) (hφ : Mono φ) (e : Expr) (t box : Box) (hs : SubBox t box)
    (V' : Val) (h' : evalIvl φ box e = .ok V') :
    ∃ V, evalIvl φ t e = .ok V ∧ Incl V V' ∧ Valid V ∧ V.isNum = V'.isNum := by
  induction e generalizing V' with
  | var i =>
    simp only [evalIvl] at h'
    split at h'
    · rename_i p hp
      obtain ⟨q, hq⟩ := getElem_sub_exists hs i p hp
      have hV : evalIvl φ t (.var i) = .ok (.ivl q.1 q.2) := by simp only [evalIvl, hq]
      exact ⟨_, hV, direct_incl_of_ok φ hφ (.var i) t box hs _ V' hV (by simp only [evalIvl, hp]; exact h')⟩
    · cases h'
  | const c => exact ⟨.num c, rfl, direct_incl_of_ok φ hφ (.const c) t box hs _ V' rfl h'⟩
  | add a b iha ihb => exact direct_isotone_bin φ hφ .add t box hs _ a b (fun bx => by simp only [evalIvl]) iha ihb V' h'
  | sub a b iha ihb => exact direct_isotone_bin φ hφ .sub t box hs _ a b (fun bx => by simp only [evalIvl]) iha ihb V' h'
  | mul a b iha ihb => exact direct_isotone_bin φ hφ .mul t box hs _ a b (fun bx => by simp only [evalIvl]) iha ihb V' h'
  | div a b iha ihb => exact direct_isotone_bin φ hφ .div t box hs _ a b (fun bx => by simp only [evalIvl]) iha ihb V' h'
  | pow a k iha =>
    have h0 := h'
    simp only [evalIvl, bind, Except.bind] at h'
    split at h'
    · cases h'
    · rename_i u' hu'
      obtain ⟨u, hu, iu, vu, _⟩ := iha u' hu'
      obtain ⟨V, hV⟩ := powVal_total u k vu
      have hE : evalIvl φ t (.pow a k) = .ok V := by simp only [evalIvl, hu, bind, Except.bind]; exact hV
      exact ⟨V, hE, direct_incl_of_ok φ hφ _ t box hs V V' hE h0⟩
  | un f a iha =>
    have h0 := h'
    simp only [evalIvl, bind, Except.bind] at h'
    split at h'
    · cases h'
    · rename_i u' hu'
      obtain ⟨u, hu, iu, vu, _⟩ := iha u' hu'
      have hd := dom_mono f (unVal_dom_of_ok φ f u' V' h') iu.1
      obtain ⟨V, hV⟩ := unVal_total φ hφ f u vu hd
      have hE : evalIvl φ t (.un f a) = .ok V := by simp only [evalIvl, hu, bind, Except.bind]; exact hV
      exact ⟨V, hE, direct_incl_of_ok φ hφ _ t box hs V V' hE h0⟩

/-- the full statement of `DirectIsotoneStatement` holds -/
theorem direct_isotone_statement : DirectIsotoneStatement := by
  intro φ hφ e t box hs V' h'
  obtain ⟨V, h, i, _⟩ := direct_isotone φ hφ e t box hs V' h'
  exact ⟨V, h, i⟩

/-- consequence: if direct evaluation over the box returns a value, subinterval reconstitution with direct
evaluation returns a value for every subdivision count (no tile can raise) -/
theorem subdirect_total (φ : UFun → Rat → Rat) (hφ : Mono φ) (e : Expr) (box : Box) (hv : ValidBox box) (n : Nat)
    (D : Val) (hD : direct φ e box = .ok D) : ∃ V, subinterval φ e box (some .direct) (some n) = .ok V := by
  have hall : ∀ ts : List Box, (∀ t ∈ ts, SubBox t box) →
      ∃ rs, ts.mapM (fun t => direct φ e t) = .ok rs ∧ rs.length = ts.length ∧ ∀ r ∈ rs, Incl r D ∧ Valid r := by
    intro ts
    induction ts with
    | nil => intro _; exact ⟨[], rfl, rfl, by simp⟩
    | cons t ts ih =>
      intro hsub
      obtain ⟨rs, hrs, hlen, hincl⟩ := ih (fun t' ht' => hsub t' (by simp [ht']))
      obtain ⟨r, hr, ir, vr, _⟩ := direct_isotone φ hφ e t box (hsub t (by simp)) D hD
      refine ⟨r :: rs, ?_, by simp [hlen], ?_⟩
      · simp only [List.mapM_cons, bind, Except.bind, direct] at hrs ⊢
        rw [hr, hrs]; rfl
      · intro r' hr'
        simp only [List.mem_cons] at hr'
        rcases hr' with rfl | hr'
        · exact ⟨ir, vr⟩
        · exact hincl r' hr'
  obtain ⟨rs, hrs, hlen, hincl⟩ := hall (tiles box n) (fun t ht => tiles_within box n hv t ht)
  obtain ⟨t0, ht0, _⟩ := (tiles_reach_ends box n).1
  have hne : rs ≠ [] := by
    intro h0; subst h0
    simp at hlen
    rw [List.eq_nil_of_length_eq_zero hlen.symm] at ht0; simp at ht0
  simp only [subinterval, bind, Except.bind, hrs]
  -- reconstitute of a non-empty list of valid pieces inside D succeeds
  unfold reconstitute
  cases hm : minL1 (rs.map Val.lo) with
  | none => cases rs with
    | nil => exact absurd rfl hne
    | cons r rs' => simp [minL1] at hm
  | some l =>
    cases hM : maxL1 (rs.map Val.hi) with
    | none => cases rs with
      | nil => exact absurd rfl hne
      | cons r rs' => simp [maxL1] at hM
    | some h =>
      obtain ⟨a1, a2⟩ := minL1_spec hm
      obtain ⟨b1, b2⟩ := maxL1_spec hM
      obtain ⟨r, hr, e1⟩ := List.mem_map.mp a2
      have hle : l ≤ h := by
        have := (hincl r hr).2
        calc l = r.lo := e1.symm
          _ ≤ r.hi := this
          _ ≤ h := b1 _ (List.mem_map_of_mem hr)
      exact ⟨_, mk_of_le hle⟩

/-! ## tiles are pairwise interior-disjoint in every dimension -/

/-- "separated along some coordinate": the first box ends, along coordinate `k`, no later than the second starts -/
def SepAt (R : α → α → Prop) (s t : List α) : Prop := ∃ (k : Nat) (a b : α), s[k]? = some a ∧ t[k]? = some b ∧ R a b

/-- in a product of lists that are each pairwise `R`-ordered, two tuples at positions `i < j` are
`R`-separated along the first coordinate in which they differ -/
theorem pairwise_prodL {α : Type} (R : α → α → Prop) (ls : List (List α)) (h : ∀ l ∈ ls, l.Pairwise R) :
    (prodL ls).Pairwise (SepAt R) := by
  induction ls with
  | nil => simp [prodL]
  | cons l ls ih =>
    have hl : l.Pairwise R := h l (by simp)
    have ht := ih (fun m hm => h m (by simp [hm]))
    simp only [prodL]
    rw [List.pairwise_flatMap]
    refine ⟨fun a _ => ?_, ?_⟩
    · rw [List.pairwise_map]
      refine ht.imp ?_
      rintro s t ⟨k, x, y, hx, hy, hr⟩
      exact ⟨k + 1, x, y, by simpa using hx, by simpa using hy, hr⟩
    · refine hl.imp ?_
      intro a b hab s hs t ht'
      obtain ⟨s', _, rfl⟩ := List.mem_map.mp hs
      obtain ⟨t', _, rfl⟩ := List.mem_map.mp ht'
      exact ⟨0, a, b, rfl, rfl, hab⟩

/-- along one side the tiles are ordered: an earlier tile ends no later than a later one starts -/
theorem tiles1_pairwise (p : Rat × Rat) (n : Nat) (hp : p.1 ≤ p.2) :
    (tiles1 p n).Pairwise (fun q q' => q.2 ≤ q'.1) := by
  unfold tiles1
  split
  · simp
  · rw [List.pairwise_map]
    refine (List.pairwise_lt_range (n := n)).imp ?_
    intro i j hij
    exact knot_mono _ _ _ hp _ _ (by omega)

/-- ★ the tiles are pairwise interior-disjoint, for every dimension and every subdivision count: two tiles at
different positions of the tiling are separated along some coordinate (one ends there no later than the other
starts), so no point lies in the interior of both -/
theorem tiles_interior_disjoint : TilesInteriorDisjointStatement := by
  intro box n hv i j hij s t hs ht
  have hpw : (tiles box n).Pairwise (SepAt (fun q q' : Rat × Rat => q.2 ≤ q'.1)) := by
    apply pairwise_prodL
    intro l hl
    obtain ⟨p, hp, rfl⟩ := List.mem_map.mp hl
    exact tiles1_pairwise p n (hv p hp)
  have hi : i < (tiles box n).length := (List.getElem?_eq_some_iff.mp hs).1
  have hj : j < (tiles box n).length := (List.getElem?_eq_some_iff.mp ht).1
  have := List.pairwise_iff_getElem.mp hpw i j hi hj hij
  rw [List.getElem?_eq_some_iff] at hs ht
  obtain ⟨_, rfl⟩ := hs; obtain ⟨_, rfl⟩ := ht
  obtain ⟨k, a, b, ha, hb, hab⟩ := this
  exact ⟨k, a, b, ha, hb, Or.inl hab⟩

theorem strict_getElem {x : List Rat} {u : Box} (hu : List.Forall₂ (fun xi (q : Rat × Rat) => q.1 < xi ∧ xi < q.2) x u)
    (k : Nat) (q : Rat × Rat) (hq : u[k]? = some q) : ∃ xi, x[k]? = some xi ∧ q.1 < xi ∧ xi < q.2 := by
  induction hu generalizing k with
  | nil => simp at hq
  | cons h1 _ ih =>
    cases k with
    | zero => simp at hq; subst hq; exact ⟨_, rfl, h1⟩
    | succ m => simp only [List.getElem?_cons_succ] at hq ⊢; exact ih m hq

/-- no point lies strictly inside two tiles at different positions -/
theorem tiles_no_common_interior (box : Box) (n : Nat) (hv : ValidBox box) (i j : Nat) (hij : i < j) (s t : Box)
    (hs : (tiles box n)[i]? = some s) (ht : (tiles box n)[j]? = some t) (x : List Rat)
    (hxs : List.Forall₂ (fun xi q => q.1 < xi ∧ xi < q.2) x s) (hxt : List.Forall₂ (fun xi q => q.1 < xi ∧ xi < q.2) x t) :
    False := by
  obtain ⟨k, a, b, ha, hb, hab⟩ := tiles_interior_disjoint box n hv i j hij s t hs ht
  obtain ⟨x1, e1, l1, u1⟩ := strict_getElem hxs k a ha
  obtain ⟨x2, e2, l2, u2⟩ := strict_getElem hxt k b hb
  rw [e1] at e2; cases e2
  rcases hab with h | h <;> linarith

/-! ## zero-width inputs give zero-width results -/

/-- every literal exponent is at least 1 (`X ** 0` is the one operation that widens a point: `Interval(0,0) ** 0 = [0, 1]`) -/
def PosPow : Expr → Prop
  | .var _ => True
  | .const _ => True
  | .add a b => PosPow a ∧ PosPow b
  | .sub a b => PosPow a ∧ PosPow b
  | .mul a b => PosPow a ∧ PosPow b
  | .div a b => PosPow a ∧ PosPow b
  | .pow a k => 1 ≤ k ∧ PosPow a
  | .un _ a => PosPow a

theorem mem_degenerate {v : Val} {x : Rat} (hv : v.lo = v.hi) (hx : Mem x v) : x = v.lo :=
  le_antisymm (hv ▸ hx.2) hx.1

/-- C01 operations preserve zero width -/
theorem binVal_degenerate (op : BinOp) (l r V : Val) (hl : l.lo = l.hi) (hr : r.lo = r.hi)
    (h : binVal op l r = .ok V) : V.lo = V.hi := by
  obtain ⟨⟨x1, y1, a1, b1, e1⟩, ⟨x2, y2, a2, b2, e2⟩⟩ := binVal_attained op l r V (le_of_eq hl) (le_of_eq hr) h
  rw [mem_degenerate hl a1, mem_degenerate hr b1] at e1
  rw [mem_degenerate hl a2, mem_degenerate hr b2, e1] at e2
  exact Except.ok.inj e2

theorem powVal_degenerate (v V : Val) (k : Nat) (hk : 1 ≤ k) (hv : v.lo = v.hi) (h : powVal v k = .ok V) : V.lo = V.hi := by
  cases v with
  | num c => simp only [powVal] at h; cases h; rfl
  | ivl a b =>
    have hab : a = b := hv
    subst hab
    simp only [powVal] at h
    split at h
    · obtain ⟨rfl, _⟩ := mk_ok h
      show (if a > 0 then a ^ k else if a < 0 then a ^ k else 0) = max (a ^ k) (a ^ k)
      rw [max_self]
      by_cases h1 : a > 0
      · rw [if_pos h1]
      · rw [if_neg h1]
        by_cases h2 : a < 0
        · rw [if_pos h2]
        · rw [if_neg h2]
          have : a = 0 := le_antisymm (not_lt.mp h1) (not_lt.mp h2)
          subst this
          rw [zero_pow (by omega)]
    · obtain ⟨rfl, _⟩ := mk_ok h
      show min (a ^ k) (a ^ k) = max (a ^ k) (a ^ k)
      rw [min_self, max_self]

theorem unVal_degenerate (φ : UFun → Rat → Rat) (f : UFun) (v V : Val) (hv : v.lo = v.hi) (h : unVal φ f v = .ok V) :
    V.lo = V.hi := by
  cases v with
  | num c =>
    simp only [unVal] at h
    cases hb : unPt φ f c with
    | error e => rw [hb] at h; cases h
    | ok z => rw [hb] at h; cases h; rfl
  | ivl a b =>
    have hab : a = b := hv
    subst hab
    simp only [unVal] at h
    split at h
    · obtain ⟨rfl, _⟩ := mk_ok h; rfl
    · cases h

/-- ★ direct evaluation over a zero-width box returns a zero-width value -/
theorem evalIvl_degenerate (φ : UFun → Rat → Rat) (e : Expr) (hp : PosPow e) (box : Box) (hd : ∀ p ∈ box, p.1 = p.2)
    (V : Val) (h : evalIvl φ box e = .ok V) : V.lo = V.hi := by
  induction e generalizing V with
  | var i =>
    simp only [evalIvl] at h
    split at h
    · rename_i p hpi
      cases h
      exact hd p (List.mem_of_getElem? hpi)
    · cases h
  | const c => simp only [evalIvl] at h; cases h; rfl
  | add a b iha ihb | sub a b iha ihb | mul a b iha ihb | div a b iha ihb =>
    simp only [evalIvl, bind, Except.bind] at h
    split at h
    · cases h
    · rename_i u hu
      split at h
      · cases h
      · rename_i v hv
        exact binVal_degenerate _ u v V (iha hp.1 u hu) (ihb hp.2 v hv) h
  | pow a k iha =>
    simp only [evalIvl, bind, Except.bind] at h
    split at h
    · cases h
    · rename_i u hu
      exact powVal_degenerate u V k hp.1 (iha hp.2 u hu) h
  | un f a iha =>
    simp only [evalIvl, bind, Except.bind] at h
    split at h
    · cases h
    · rename_i u hu
      exact unVal_degenerate φ f u V (iha hp u hu) h

theorem knot_degenerate (a : Rat) (n i : Nat) : knot a a n i = a := by simp [knot]

/-- every tile of a zero-width box is the box itself -/
theorem tiles_degenerate (box : Box) (n : Nat) (hd : ∀ p ∈ box, p.1 = p.2) (t : Box) (ht : t ∈ tiles box n) : t = box := by
  have h := (mem_prodL _ _).mp ht
  clear ht
  induction box generalizing t with
  | nil => simp only [List.map_nil, List.forall₂_nil_right_iff] at h; exact h
  | cons p ps ih =>
    simp only [List.map_cons, List.forall₂_cons_right_iff] at h
    obtain ⟨q, t', hq, ht', rfl⟩ := h
    have hpd := hd p (by simp)
    have : q = p := by
      unfold tiles1 at hq
      split at hq
      · simpa using hq
      · obtain ⟨i, _, rfl⟩ := List.mem_map.mp hq
        rw [← hpd, knot_degenerate, knot_degenerate]
        exact Prod.ext rfl hpd
    rw [this, ih (fun r hr => hd r (by simp [hr])) t' ht']

/-! ## refinement: a tiling with `n·m` tiles per side refines the one with `n` -/

theorem knot_refine (lo hi : Rat) (n m i : Nat) (hn : n ≠ 0) (hm : m ≠ 0) :
    knot lo hi (n * m) (i * m) = knot lo hi n i := by
  have h1 : (n : Rat) ≠ 0 := Nat.cast_ne_zero.mpr hn
  have h2 : (m : Rat) ≠ 0 := Nat.cast_ne_zero.mpr hm
  unfold knot
  push_cast
  field_simp

/-- one side: every tile of the finer subdivision lies inside a tile of the coarser one -/
theorem tiles1_refine (p : Rat × Rat) (hp : p.1 ≤ p.2) (n m : Nat) (hm : 1 ≤ m) (q : Rat × Rat)
    (hq : q ∈ tiles1 p (n * m)) : ∃ q' ∈ tiles1 p n, q'.1 ≤ q.1 ∧ q.1 ≤ q.2 ∧ q.2 ≤ q'.2 := by
  by_cases hn : n ≤ 1
  · refine ⟨p, by simp [tiles1, hn], ?_⟩
    exact tiles1_within p (n * m) hp q hq
  · have hn2 : 2 ≤ n := by omega
    have hN : ¬ n * m ≤ 1 := by
      have : 2 * 1 ≤ n * m := Nat.mul_le_mul hn2 hm
      omega
    unfold tiles1 at hq
    rw [if_neg hN] at hq
    obtain ⟨j, hj, rfl⟩ := List.mem_map.mp hq
    have hj' : j < n * m := List.mem_range.mp hj
    have hmpos : 0 < m := by omega
    have hi : j / m < n := by
      rw [Nat.div_lt_iff_lt_mul hmpos]; exact hj'
    refine ⟨(knot p.1 p.2 n (j / m), knot p.1 p.2 n (j / m + 1)), ?_, ?_, ?_, ?_⟩
    · unfold tiles1; rw [if_neg hn]
      exact List.mem_map.mpr ⟨j / m, List.mem_range.mpr hi, rfl⟩
    · show knot p.1 p.2 n (j / m) ≤ knot p.1 p.2 (n * m) j
      rw [← knot_refine p.1 p.2 n m (j / m) (by omega) (by omega)]
      exact knot_mono _ _ _ hp _ _ (Nat.div_mul_le_self j m)
    · exact knot_mono _ _ _ hp _ _ (by omega)
    · show knot p.1 p.2 (n * m) (j + 1) ≤ knot p.1 p.2 n (j / m + 1)
      rw [← knot_refine p.1 p.2 n m (j / m + 1) (by omega) (by omega)]
      apply knot_mono _ _ _ hp
      have := Nat.lt_div_mul_add hmpos (a := j)
      rw [Nat.add_mul, Nat.one_mul]
      omega

/-- ★ every tile of the `n·m` tiling is a sub-box of a tile of the `n` tiling -/
theorem tiles_refine (box : Box) (hv : ValidBox box) (n m : Nat) (hm : 1 ≤ m) (t : Box) (ht : t ∈ tiles box (n * m)) :
    ∃ t' ∈ tiles box n, SubBox t t' := by
  have h := (mem_prodL _ _).mp ht
  clear ht
  have : ∃ t', List.Forall₂ (fun a l => a ∈ l) t' (box.map (fun p => tiles1 p n)) ∧ SubBox t t' := by
    induction box generalizing t with
    | nil => simp only [List.map_nil, List.forall₂_nil_right_iff] at h; subst h; exact ⟨[], .nil, .nil⟩
    | cons p ps ih =>
      simp only [List.map_cons, List.forall₂_cons_right_iff] at h
      obtain ⟨q, u, hq, hu, rfl⟩ := h
      obtain ⟨u', hu', hsub⟩ := ih (fun r hr => hv r (by simp [hr])) u hu
      obtain ⟨q', hq', hb⟩ := tiles1_refine p (hv p (by simp)) n m hm q hq
      exact ⟨q' :: u', by simp only [List.map_cons]; exact .cons hq' hu', .cons hb hsub⟩
  obtain ⟨t', ht', hs⟩ := this
  exact ⟨t', (mem_prodL _ _).mpr ht', hs⟩

/-- ★ refining the subdivision can only tighten subinterval reconstitution with direct evaluation:
the `n·m` result is contained in the `n` result (and both contain the range, `subdirect_encloses`) -/
theorem subdirect_refines (φ : UFun → Rat → Rat) (hφ : Mono φ) (e : Expr) (box : Box) (hv : ValidBox box) (n m : Nat)
    (hm : 1 ≤ m) (V1 V2 : Val) (h1 : subinterval φ e box (some .direct) (some n) = .ok V1)
    (h2 : subinterval φ e box (some .direct) (some (n * m)) = .ok V2) : V1.lo ≤ V2.lo ∧ V2.hi ≤ V1.hi := by
  simp only [subinterval, bind, Except.bind] at h1 h2
  split at h1
  · cases h1
  · rename_i rs1 hrs1
    split at h2
    · cases h2
    · rename_i rs2 hrs2
      have hall1 := mapM_ok _ _ _ hrs1
      have hall2 := mapM_ok _ _ _ hrs2
      obtain ⟨hs1, _, _⟩ := reconstitute_spec h1
      obtain ⟨_, ⟨ra, hra, ea⟩, ⟨rb, hrb, eb⟩⟩ := reconstitute_spec h2
      have key : ∀ r ∈ rs2, V1.lo ≤ r.lo ∧ r.hi ≤ V1.hi := by
        intro r hr
        obtain ⟨t, ht, het⟩ := forall₂_right hall2 r hr
        obtain ⟨t', ht', hsub⟩ := tiles_refine box hv n m hm t ht
        obtain ⟨r', hr', het'⟩ := forall₂_left hall1 t' ht'
        obtain ⟨i, _, _⟩ := direct_incl_of_ok φ hφ e t t' hsub r r' het het'
        exact ⟨le_trans (hs1 r' hr').1 i.1, le_trans i.2 (hs1 r' hr').2⟩
      exact ⟨by rw [← ea]; exact (key ra hra).1, by rw [← eb]; exact (key rb hrb).2⟩

/-! ## the whole chain of the property in one statement -/

/-- ★ vertex ⊆ subinterval/vertex ⊆ (true range) ⊆ subinterval/direct ⊆ direct, for every expression, box,
dimension and subdivision count: the four results nest, the two inner ones have their ends attained by the
function on the box and the two outer ones contain every value of the function on the box -/
theorem nesting_chain (φ : UFun → Rat → Rat) (hφ : Mono φ) (e : Expr) (box : Box) (hv : ValidBox box) (n : Nat)
    (E SE SD D : Val) (hE : endpoints φ e box = .ok E) (hSE : subinterval φ e box (some .endpoints) (some n) = .ok SE)
    (hSD : subinterval φ e box (some .direct) (some n) = .ok SD) (hD : direct φ e box = .ok D) :
    (SE.lo ≤ E.lo ∧ E.hi ≤ SE.hi) ∧ (SD.lo ≤ SE.lo ∧ SE.hi ≤ SD.hi) ∧ (D.lo ≤ SD.lo ∧ SD.hi ≤ D.hi) ∧
    (∀ x, InBox x box → ∃ y, evalPt φ x e = .ok y ∧ SD.lo ≤ y ∧ y ≤ SD.hi) ∧
    (∃ x, InBox x box ∧ evalPt φ x e = .ok SE.lo) ∧ (∃ x, InBox x box ∧ evalPt φ x e = .ok SE.hi) := by
  obtain ⟨h1, ⟨x1, hx1, e1⟩, ⟨x2, hx2, e2⟩⟩ := subendpoints_between φ e box hv n SE hSE
  have enc := subdirect_encloses φ hφ e box n SD hSD
  refine ⟨h1 E hE, ?_, subdirect_within_direct φ hφ e box hv n SD D hSD hD, enc, ⟨x1, hx1, e1⟩, ⟨x2, hx2, e2⟩⟩
  obtain ⟨y1, hy1, a1, _⟩ := enc x1 hx1
  obtain ⟨y2, hy2, _, b2⟩ := enc x2 hx2
  rw [e1] at hy1; rw [e2] at hy2
  cases hy1; cases hy2
  exact ⟨a1, b2⟩

example : ValidBox [(-1, 2), (3, 5)] := by
  intro p hp; simp at hp; rcases hp with rfl | rfl <;> norm_num

end Pun.B2B
