import Pun.Props.C04
import Pun.Gen.CtorGen
/-!
# C04 — the constructor's validation regenerated from the source equals the hand model

`Pun/Gen/CtorGen.lean` is rewritten on every run by `harness/pv/translator/ctor.py` from `is_increasing`,
`left_right_switch` (pba/utils.py) and `Pbox.__init__`, `steps_check`, `post_init_check` and the bound setters
(pba/pbox_abc.py): the quantifier, comparison and threshold of the monotonicity test; the quantifier, comparison and operand
order of the whole-array switch test and what each of its branches returns; which switched value is stored in which bound;
the comparison of the length assertion; which bounds the monotonicity test reads; the quantifier, comparison and operand
order of the crossing test; the exception classes.  The choices live in finite enums; a fixed interpreter (`incGen`,
`switchTestGen`, `postGen`, `mkCoreGen`, `mkGen`) runs them.

`incGen_eq`, `switchTestGen_eq`, `mkCoreGen_eq`, `mkGen_eq` prove the interpreter on the CURRENT constants equal to the hand
model `mkN` for ALL bound arrays (NaN entries included), all lengths and every configuration; `gen_constructor_wf` and
`gen_nan_rejected` restate the theorems of `Props/C04.lean` for what the source says now.  A source edit that changes a
choice (`>=`→`>` in `is_increasing`, `np.any`→`np.all` or `>`→`>=` in the crossing test, a bound swapped, a check dropped from
the disjunction, another exception class) changes a constant and breaks the corresponding `…_eq` proof.
-/
set_option linter.unusedSimpArgs false
set_option linter.unusedVariables false
namespace Pun.WF
open Pun Pun.PBox Pun.Gen.Ctor

theorem cmpN_ge : cmpN .ge = geN := by
  funext a b; cases a <;> cases b <;> rfl

theorem geN_sub_zero (a b : NR) : cmpN .ge (subN b a) (some 0) = geN b a := by
  cases a <;> cases b <;> simp [subN, cmpN, geN]

theorem incGen_eq : ∀ l : List NR, incGen l = isIncreasingN l
  | [] => rfl
  | [_] => rfl
  | a :: b :: t => by
    have ih := incGen_eq (b :: t)
    unfold incGen at ih ⊢
    simp only [incQuant, incCmp, incThreshold, quantAp, diffN, List.all_cons, isIncreasingN] at ih ⊢
    rw [ih, geN_sub_zero]

theorem switchTestGen_eq (l r : List NR) : switchTestGen l r = switchArr l r := by
  unfold switchTestGen switchArr allGeN
  simp only [swL, swR, swQuant, swCmp, pick, quantAp, cmpN_ge]
  rcases l with _ | ⟨a, _ | ⟨a', t⟩⟩ <;> rcases r with _ | ⟨b, _ | ⟨b', s⟩⟩ <;> rfl

theorem anyGt_eq (l r : List Rat) :
    (l.zip r).any (fun p => cmpN .gt (some p.1) (some p.2)) = anyGt l r := rfl

theorem postGen_eq (l r : List NR) :
    postGen l r = (if l.length ≠ r.length then .error .Assertion
      else if !(isIncreasingN l) || !(isIncreasingN r) then .error .Other
      else match unN l, unN r with
        | some l', some r' => guardLE ⟨l', r'⟩
        | _, _ => .error .Other) := by
  unfold postGen
  simp only [stepsCmp, cmpNat, incSides, incErr, crossQuant, crossCmp, crossL, crossR, crossErr, pick, quantAp,
    List.any_cons, List.any_nil, Bool.or_false, incGen_eq, anyGt_eq, guardLE]
  by_cases h : l.length = r.length <;> simp [h]
  cases unN l <;> cases unN r <;> rfl

theorem mkCoreGen_eq (c : Cfg) (l r : List NR) : mkCoreGen c l r = mkCore c l r := by
  unfold mkCoreGen mkCore
  cases boundStepsN c l with
  | error e => rfl
  | ok l' =>
    cases boundStepsN c r with
    | error e => rfl
    | ok r' => simp only [bind, Except.bind]; exact postGen_eq l' r'

theorem mkGen_eq (c : Cfg) (lists : Bool) (l r : List NR) : mkGen c lists l r = mkN c lists l r := by
  unfold mkGen mkN switchN
  simp only [swTrueSwaps, swFalseSwaps, leftFrom, rightFrom, pick, switchTestGen_eq, mkCoreGen_eq]
  cases lists
  · simp only [Bool.false_eq_true, if_false]
    cases switchArr l r with
    | error e => rfl
    | ok sw => cases sw <;> simp [bind, Except.bind]
  · simp only [if_true]
    cases lexGeN l r <;> simp [bind, Except.bind]

/-! ## the theorems of `Props/C04.lean`, for what the source says now -/

/-- **★ constructor_wf**, regenerated: whatever `Pbox.__init__` as written accepts is a well-formed p-box with exactly the
configured number of steps, sorted bounds and `left ≤ right` at every step -/
theorem gen_constructor_wf (c : Cfg) (lists : Bool) (l r : List NR) (P : PB) (h : mkGen c lists l r = .ok P) :
    WF c.steps P := constructor_wf c lists l r P ((mkGen_eq c lists l r).symm.trans h)

/-- **★ nan_rejected**, regenerated -/
theorem gen_nan_rejected (c : Cfg) (h2 : 2 ≤ c.steps) (lists : Bool) (l r : List NR)
    (hl : l.length = c.steps) (hr : r.length = c.steps) (hn : none ∈ l ∨ none ∈ r) :
    ∃ e, mkGen c lists l r = .error e := by
  rw [mkGen_eq]; exact nan_rejected c h2 lists l r hl hr hn

-- non-vacuity: accepted, swapped as a whole, rejected when the bounds cross, NaN rejected
example : mkGen ⟨2, 1/1000, 999/1000⟩ false [some 1, some 2] [some 2, some 3] = .ok ⟨[1, 2], [2, 3]⟩ := by decide +kernel
example : mkGen ⟨2, 1/1000, 999/1000⟩ false [some 2, some 3] [some 1, some 2] = .ok ⟨[1, 2], [2, 3]⟩ := by decide +kernel
example : mkGen ⟨2, 1/1000, 999/1000⟩ false [some 1, some 4] [some 2, some 3] = .error .Other := by decide +kernel
example : mkGen ⟨3, 1/1000, 999/1000⟩ false [some 1, none, some 3] [some 2, some 3, some 4] = .error .Other := by
  decide +kernel

end Pun.WF
