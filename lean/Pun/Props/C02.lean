import Pun.Lemmas.PBoxFrechet
import Pun.Lemmas.PBoxMk
import Pun.Lemmas.PBoxNeg
import Pun.Lemmas.PBoxFrechet2
import Pun.Lemmas.PBoxRecip
/-!
# C02 — default (Frechet) p-box arithmetic bounds every dependence, and tightly

The theorems are about the functions the model driver executes (`Pun.PBox.binop … .f`, i.e. the
public `add/sub/mul/div(…, 'f')`, and `Pun.PBox.frechetOp` which they route to), for lists of ANY
length `n`, ANY selection of one value per step and ANY permutation coupling `σ`.

"The k-th smallest outcome lies inside the k-th step" is stated by counting: at most `i` outcomes
lie strictly below `left[i]` and at most `n-1-i` strictly above `right[i]` (`Valid`); "the bound is
attained" says that some selection and coupling has `left[i]` (resp. `right[i]`) as its `i`-th
smallest outcome (`IsRank`).  The full statements are `C02Validity o`, `C02Tight o`, `C02Encloses o`.

Proved (all at the level of the public methods, through the constructor, negation, reciprocal, the
sign routing of the product and the zero-straddling branch naive ∩ Balch):
* **validity, in full** — `C02Validity_all : ∀ o, C02Validity o` (`C02Validity_add`, `_sub`, `_mul`,
  `_div`): for ALL well-formed operands (zero-free divisor), every selection and every coupling.  The
  straddling product is `imposition(naive, Balch)`: `naive_allValid` (the `i`-th smallest of `n` corner
  minima taken from distinct rows of the `n × n` grid is at least the `i`-th smallest of all `n²`),
  `balchprod_allValid` (validity composes through Frechet sums: `AllValid.comp`), `Valid.imp`;
* **totality**: `binop_f_total` — the four Frechet operations never fail on well-formed operands and
  return a well-formed p-box (in particular the imposition of naive and Balch is never empty); a divisor
  with a zero bound raises (`div_zero_bound_raises`);
* **enclosure, in full** — `C02Encloses_all : ∀ o, C02Encloses o`: the Frechet result encloses the
  perfect, the opposite AND the independent result (the latter after the constructor condensed its `n²`
  values) of the same operation, for ALL well-formed operands of any sign: the four-corner minima /
  maxima of any pairing of steps are outcomes of a selection and a coupling (`corner_counts`), and the
  `n × n` grid is the union of the `n` cyclic-shift couplings (`independent_enclosed`);
* **tightness of BOTH bounds**: `C02Tight_add`, `C02Tight_sub` (full instances),
  `C02Tight_mul_onesign_partial`, `C02Tight_div_onesign_partial` (operands that do not straddle zero —
  all four sign combinations, operands touching zero included), and with the bounding selections named
  explicitly `add_f_tight`, `sub_f_tight`, `mul_f_pos_tight` (anti-diagonal couplings);
* the two `sort` calls of `frechet_op` are identities.

Missing: `C02Tight .mul` / `.div` for a zero-straddling operand — and it is NOT TRUE there: naive ∩ Balch
is valid but not best possible.  Witness (model, and the real code at 200 steps with each step repeated
100 times): `X = ⟨[-2,-2],[-2,-1]⟩`, `Y = ⟨[-2,-2],[-1,1]⟩` gives `left = [-2, 0]`, while every coupling of
every selection has its second smallest product `≥ 1`.  So the `_partial` tightness theorems are the
strongest true statements of that shape.  Couplings that are not permutations: Birkhoff mixture argument, cited.
-/
set_option linter.unusedSimpArgs false
set_option linter.unusedVariables false
namespace Pun.PBox
open Pun Finset

/-- **C02 validity, sum.** `X + Y` under Frechet: for every selection from each operand and every
coupling, the outcomes `x m + y (σ m)` have at most `i` values below `left[i]` and at most `n-1-i`
above `right[i]`. -/
theorem frechet_add_valid (n : Nat) (X Y : PB) (hX : WFS n X) (hY : WFS n Y)
    (x y : Fin n → Rat) (hx : Sel n X hX x) (hy : Sel n Y hY y) (σ : Equiv.Perm (Fin n)) (i : Fin n)
    (l r : Rat) (hl : (frechetOp (· + ·) X Y).1[i.val]? = some l)
    (hr : (frechetOp (· + ·) X Y).2[i.val]? = some r) :
    (univ.filter (fun m : Fin n => x m + y (σ m) < l)).card ≤ i.val ∧
    (univ.filter (fun m : Fin n => r < x m + y (σ m))).card ≤ n - 1 - i.val := by
  rw [frechetOp_eq_raw (· + ·) add_mono2 X Y (by rw [hX.llen, hY.llen]) (by rw [hX.rlen, hY.rlen])
    hY.lsorted hX.rsorted] at hl hr
  exact ⟨frechetLeft_valid (· + ·) add_mono2 X.left Y.left n hX.llen hY.llen hX.lsorted hY.lsorted x y
      (fun m => (hx m).1) (fun m => (hy m).1) σ i l hl,
    frechetRight_valid (· + ·) add_mono2 X.right Y.right n hX.rlen hY.rlen hX.rsorted hY.rsorted x y
      (fun m => (hx m).2) (fun m => (hy m).2) σ i r hr⟩

/-- **C02 tightness, sum (left bound).** There is a coupling of the left-bounding selections under
which the `i`-th smallest outcome is exactly `left[i]`. -/
theorem frechet_add_tight_left (n : Nat) (X Y : PB) (hX : WFS n X) (hY : WFS n Y) (i : Fin n)
    (l : Rat) (hl : (frechetOp (· + ·) X Y).1[i.val]? = some l) :
    ∃ σ : Equiv.Perm (Fin n),
      (univ.filter (fun m : Fin n =>
        X.left[m.val]'(by have := hX.llen; omega) + Y.left[(σ m).val]'(by have := hY.llen; omega) < l)).card ≤ i.val ∧
      i.val + 1 ≤ (univ.filter (fun m : Fin n =>
        X.left[m.val]'(by have := hX.llen; omega) + Y.left[(σ m).val]'(by have := hY.llen; omega) ≤ l)).card := by
  rw [frechetOp_eq_raw (· + ·) add_mono2 X Y (by rw [hX.llen, hY.llen]) (by rw [hX.rlen, hY.rlen])
    hY.lsorted hX.rsorted] at hl
  exact frechetLeft_tight (· + ·) add_mono2 X.left Y.left n hX.llen hY.llen hX.lsorted hY.lsorted i l hl

/-- **C02 tightness, sum (right bound).** -/
theorem frechet_add_tight_right (n : Nat) (X Y : PB) (hX : WFS n X) (hY : WFS n Y) (i : Fin n)
    (r : Rat) (hr : (frechetOp (· + ·) X Y).2[i.val]? = some r) :
    ∃ σ : Equiv.Perm (Fin n),
      (univ.filter (fun m : Fin n =>
        r < X.right[m.val]'(by have := hX.rlen; omega) + Y.right[(σ m).val]'(by have := hY.rlen; omega))).card ≤ n - 1 - i.val ∧
      n - i.val ≤ (univ.filter (fun m : Fin n =>
        r ≤ X.right[m.val]'(by have := hX.rlen; omega) + Y.right[(σ m).val]'(by have := hY.rlen; omega))).card := by
  rw [frechetOp_eq_raw (· + ·) add_mono2 X Y (by rw [hX.llen, hY.llen]) (by rw [hX.rlen, hY.rlen])
    hY.lsorted hX.rsorted] at hr
  exact frechetRight_tight (· + ·) add_mono2 X.right Y.right n hX.rlen hY.rlen hX.rsorted hY.rsorted i r hr

/-- **C02 validity, product of non-negative operands.** -/
theorem frechet_mul_pos_valid (n : Nat) (X Y : PB) (hX : WFS n X) (hY : WFS n Y)
    (pX : NonNeg X) (pY : NonNeg Y)
    (x y : Fin n → Rat) (hx : Sel n X hX x) (hy : Sel n Y hY y) (σ : Equiv.Perm (Fin n)) (i : Fin n)
    (l r : Rat) (hl : (frechetOp (· * ·) X Y).1[i.val]? = some l)
    (hr : (frechetOp (· * ·) X Y).2[i.val]? = some r) :
    (univ.filter (fun m : Fin n => x m * y (σ m) < l)).card ≤ i.val ∧
    (univ.filter (fun m : Fin n => r < x m * y (σ m))).card ≤ n - 1 - i.val := by
  rw [frechetOp_mul_eq X Y pX pY,
    frechetOp_eq_raw mulPos mulPos_mono2 X Y (by rw [hX.llen, hY.llen]) (by rw [hX.rlen, hY.rlen])
    hY.lsorted hX.rsorted] at hl hr
  have hxpos : ∀ m, 0 ≤ x m := fun m =>
    le_trans (pX.1 _ (List.getElem_mem _)) (hx m).1
  have hypos : ∀ m, 0 ≤ y m := fun m =>
    le_trans (pY.1 _ (List.getElem_mem _)) (hy m).1
  have e : ∀ m, x m * y (σ m) = mulPos (x m) (y (σ m)) := fun m =>
    (mulPos_eq _ _ (hxpos m) (hypos _)).symm
  simp only [e]
  exact ⟨frechetLeft_valid mulPos mulPos_mono2 X.left Y.left n hX.llen hY.llen hX.lsorted hY.lsorted x y
      (fun m => (hx m).1) (fun m => (hy m).1) σ i l hl,
    frechetRight_valid mulPos mulPos_mono2 X.right Y.right n hX.rlen hY.rlen hX.rsorted hY.rsorted x y
      (fun m => (hx m).2) (fun m => (hy m).2) σ i r hr⟩

/-- **C02 tightness, product of non-negative operands (left bound).** -/
theorem frechet_mul_pos_tight_left (n : Nat) (X Y : PB) (hX : WFS n X) (hY : WFS n Y)
    (pX : NonNeg X) (pY : NonNeg Y) (i : Fin n)
    (l : Rat) (hl : (frechetOp (· * ·) X Y).1[i.val]? = some l) :
    ∃ σ : Equiv.Perm (Fin n),
      (univ.filter (fun m : Fin n =>
        X.left[m.val]'(by have := hX.llen; omega) * Y.left[(σ m).val]'(by have := hY.llen; omega) < l)).card ≤ i.val ∧
      i.val + 1 ≤ (univ.filter (fun m : Fin n =>
        X.left[m.val]'(by have := hX.llen; omega) * Y.left[(σ m).val]'(by have := hY.llen; omega) ≤ l)).card := by
  rw [frechetOp_mul_eq X Y pX pY,
    frechetOp_eq_raw mulPos mulPos_mono2 X Y (by rw [hX.llen, hY.llen]) (by rw [hX.rlen, hY.rlen])
    hY.lsorted hX.rsorted] at hl
  have key := frechetLeft_tight mulPos mulPos_mono2 X.left Y.left n hX.llen hY.llen hX.lsorted hY.lsorted i l hl
  obtain ⟨σ, h1, h2⟩ := key
  refine ⟨σ, ?_, ?_⟩
  · have e : ∀ m : Fin n, X.left[m.val]'(by have := hX.llen; omega) * Y.left[(σ m).val]'(by have := hY.llen; omega) =
        mulPos (X.left[m.val]'(by have := hX.llen; omega)) (Y.left[(σ m).val]'(by have := hY.llen; omega)) := fun m =>
      (mulPos_eq _ _ (pX.1 _ (List.getElem_mem _)) (pY.1 _ (List.getElem_mem _))).symm
    simp only [e]; exact h1
  · have e : ∀ m : Fin n, X.left[m.val]'(by have := hX.llen; omega) * Y.left[(σ m).val]'(by have := hY.llen; omega) =
        mulPos (X.left[m.val]'(by have := hX.llen; omega)) (Y.left[(σ m).val]'(by have := hY.llen; omega)) := fun m =>
      (mulPos_eq _ _ (pX.1 _ (List.getElem_mem _)) (pY.1 _ (List.getElem_mem _))).symm
    simp only [e]; exact h2

/-- the final `sort` calls of `frechet_op` are identities for the sum -/
theorem frechet_add_sorted (n : Nat) (X Y : PB) (hX : WFS n X) (hY : WFS n Y) :
    frechetOp (· + ·) X Y = (frechetLeftRaw (· + ·) X.left Y.left, frechetRightRaw (· + ·) X.right Y.right) :=
  frechetOp_eq_raw (· + ·) add_mono2 X Y (by rw [hX.llen, hY.llen]) (by rw [hX.rlen, hY.rlen])
    hY.lsorted hX.rsorted

/-- **The public method** `X.add(Y, dependency='f')` (and the bare `X + Y` under the default
setting) returns exactly the raw Frechet bounds — the constructor's switch, length normalisation and
monotonicity check all pass — and the result is again well formed. -/
theorem add_f_ok (n : Nat) (X Y : PB) (hX : WF n X) (hY : WF n Y) :
    add n .f X Y = .ok ⟨frechetLeftRaw (· + ·) X.left Y.left, frechetRightRaw (· + ·) X.right Y.right⟩ ∧
    WF n ⟨frechetLeftRaw (· + ·) X.left Y.left, frechetRightRaw (· + ·) X.right Y.right⟩ := by
  have hs := frechet_add_sorted n X Y hX.toWFS hY.toWFS
  have sl := frechetLeftRaw_sorted (· + ·) add_mono2 X.left Y.left (by rw [hX.llen, hY.llen]) hY.lsorted
  have sr := frechetRightRaw_sorted (· + ·) add_mono2 X.right Y.right (by rw [hX.rlen, hY.rlen]) hX.rsorted
  have ll : (frechetLeftRaw (· + ·) X.left Y.left).length = n := by rw [frechetLeftRaw_length, hX.llen]
  have lr : (frechetRightRaw (· + ·) X.right Y.right).length = n := by rw [frechetRightRaw_length, hX.rlen]
  have hle : ∀ i (h : i < n), (frechetLeftRaw (· + ·) X.left Y.left)[i]'(by omega) ≤
      (frechetRightRaw (· + ·) X.right Y.right)[i]'(by omega) := fun i h =>
    frechetRaw_le (· + ·) add_mono2 X.left X.right Y.left Y.right n hX.llen hX.rlen hY.llen hY.rlen
      hX.rsorted hY.rsorted hX.le hY.le i h
  refine ⟨?_, ⟨⟨ll, lr, sl, sr⟩, hle⟩⟩
  unfold add
  simp only [hs]
  exact mk_arr_ok n _ _ ll lr sl sr (fun i h => hle i (by omega))

/-- **Full statement of C02 (validity part) for the public methods**, all four operations and all
sign configurations.  Proved in full: `C02Validity_all`. -/
def C02Validity (o : Op) : Prop :=
  ∀ (n : Nat) (X Y R : PB) (hX : WF n X) (hY : WF n Y), (o = .div → ZeroFree Y) →
    binop n o .f X Y = .ok R →
    ∀ (x y : Fin n → Rat), Sel n X hX.toWFS x → Sel n Y hY.toWFS y →
    ∀ (σ : Equiv.Perm (Fin n)) (i : Fin n) (l r : Rat), R.left[i.val]? = some l → R.right[i.val]? = some r →
      (univ.filter (fun m : Fin n => o.ap (x m) (y (σ m)) < l)).card ≤ i.val ∧
      (univ.filter (fun m : Fin n => r < o.ap (x m) (y (σ m)))).card ≤ n - 1 - i.val

/-- C02 validity for the public `add` / bare `+` -/
theorem C02Validity_add : C02Validity .add := by
  intro n X Y R hX hY _ hR x y hx hy σ i l r hl hr
  have h := (add_f_ok n X Y hX hY).1
  simp only [binop] at hR
  rw [h] at hR
  have hRe : R = ⟨frechetLeftRaw (· + ·) X.left Y.left, frechetRightRaw (· + ·) X.right Y.right⟩ :=
    (Except.ok.inj hR).symm
  subst hRe
  have hs := frechet_add_sorted n X Y hX.toWFS hY.toWFS
  exact frechet_add_valid n X Y hX.toWFS hY.toWFS x y hx hy σ i l r (by rw [hs]; exact hl) (by rw [hs]; exact hr)

/-- the public product of two non-negative, not identically zero p-boxes under Frechet returns the raw
rule for the clamped (monotone) product, and the result is well formed -/
theorem mul_f_pos_ok (n : Nat) (X Y : PB) (hX : WF n X) (hY : WF n Y) (pX : NonNeg X) (pY : NonNeg Y)
    (hxh : 0 < hi X) (hyh : 0 < hi Y) :
    mul n .f X Y = .ok ⟨frechetLeftRaw mulPos X.left Y.left, frechetRightRaw mulPos X.right Y.right⟩ := by
  have sl := frechetLeftRaw_sorted mulPos mulPos_mono2 X.left Y.left (by rw [hX.llen, hY.llen]) hY.lsorted
  have sr := frechetRightRaw_sorted mulPos mulPos_mono2 X.right Y.right (by rw [hX.rlen, hY.rlen]) hX.rsorted
  have ll : (frechetLeftRaw mulPos X.left Y.left).length = n := by rw [frechetLeftRaw_length, hX.llen]
  have lr : (frechetRightRaw mulPos X.right Y.right).length = n := by rw [frechetRightRaw_length, hX.rlen]
  have hle : ∀ i (h : i < n), (frechetLeftRaw mulPos X.left Y.left)[i]'(by omega) ≤
      (frechetRightRaw mulPos X.right Y.right)[i]'(by omega) := fun i h =>
    frechetRaw_le mulPos mulPos_mono2 X.left X.right Y.left Y.right n hX.llen hX.rlen hY.llen hY.rlen
      hX.rsorted hY.rsorted hX.le hY.le i h
  have hop : frechetOp (· * ·) X Y =
      (frechetLeftRaw mulPos X.left Y.left, frechetRightRaw mulPos X.right Y.right) := by
    rw [frechetOp_mul_eq X Y pX pY]
    exact frechetOp_eq_raw mulPos mulPos_mono2 X Y (by rw [hX.llen, hY.llen]) (by rw [hX.rlen, hY.rlen])
      hY.lsorted hX.rsorted
  unfold mul frechetMul frechetMulNoStraddle classicFrechet
  simp only [not_straddles_of_nonneg X pX, not_straddles_of_nonneg Y pY, Bool.or_self, Bool.false_eq_true,
    if_false, not_le.mpr hxh, not_le.mpr hyh, decide_false, hop]
  exact mk_arr_ok n _ _ ll lr sl sr (fun i h => hle i (by omega))

/-! ## tightness and enclosure: full statements -/

/-- **Full statement of C02 (tightness part)**: every entry of either bound of the public Frechet
result is the order statistic of the same rank of the outcomes of SOME selection of one value per step
of each operand under SOME coupling — the bounds cannot be improved. -/
def C02Tight (o : Op) : Prop :=
  ∀ (n : Nat) (X Y R : PB) (hX : WF n X) (hY : WF n Y), (o = .div → ZeroFree Y) →
    binop n o .f X Y = .ok R → ∀ (i : Fin n),
      (∀ l, R.left[i.val]? = some l → ∃ x y : Fin n → Rat, Sel n X hX.toWFS x ∧ Sel n Y hY.toWFS y ∧
        ∃ σ : Equiv.Perm (Fin n), IsRank n (fun m => o.ap (x m) (y (σ m))) i l) ∧
      (∀ r, R.right[i.val]? = some r → ∃ x y : Fin n → Rat, Sel n X hX.toWFS x ∧ Sel n Y hY.toWFS y ∧
        ∃ σ : Equiv.Perm (Fin n), IsRank n (fun m => o.ap (x m) (y (σ m))) i r)

/-- **Full statement of C02 (enclosure part)**: the Frechet result encloses the result of the same
operation under every other dependency, step by step. -/
def C02Encloses (o : Op) : Prop :=
  ∀ (n : Nat) (d : Dep) (X Y F D : PB), WF n X → WF n Y → (o = .div → ZeroFree Y) →
    binop n o .f X Y = .ok F → binop n o d X Y = .ok D → Encloses F D

/-! ## `add` -/

theorem add_f_good (n : Nat) (X Y : PB) (hX : WF n X) (hY : WF n Y) :
    add n .f X Y = .ok (rawF (· + ·) X Y) ∧ WF n (rawF (· + ·) X Y) ∧
    Good n (· + ·) X Y (rawF (· + ·) X Y) hX.toWFS hY.toWFS :=
  good_frechet (· + ·) add_mono2 n X Y hX hY

/-- C02 tightness for the public `add` / bare `+`, both bounds -/
theorem C02Tight_add : C02Tight .add := by
  intro n X Y R hX hY _ hR i
  obtain ⟨e, -, g⟩ := add_f_good n X Y hX hY
  simp only [binop] at hR
  rw [e] at hR
  have hRe := (Except.ok.inj hR).symm
  subst hRe
  exact ⟨fun l hl => g.tightL i l hl, fun r hr => g.tightR i r hr⟩

/-- tightness of `add`, naming the selections: the left bound is attained by the two left bounds, the
right bound by the two right bounds, under the anti-diagonal couplings -/
theorem add_f_tight (n : Nat) (X Y R : PB) (hX : WF n X) (hY : WF n Y)
    (hR : binop n .add .f X Y = .ok R) (i : Fin n) :
    (∀ l, R.left[i.val]? = some l → ∃ σ : Equiv.Perm (Fin n),
      IsRank n (fun m => X.left[m.val]'(by have := hX.llen; omega) +
        Y.left[(σ m).val]'(by have := hY.llen; omega)) i l) ∧
    (∀ r, R.right[i.val]? = some r → ∃ σ : Equiv.Perm (Fin n),
      IsRank n (fun m => X.right[m.val]'(by have := hX.rlen; omega) +
        Y.right[(σ m).val]'(by have := hY.rlen; omega)) i r) := by
  obtain ⟨e, -, -⟩ := add_f_good n X Y hX hY
  simp only [binop] at hR
  rw [e] at hR
  have hRe := (Except.ok.inj hR).symm
  subst hRe
  exact frechet_tight_explicit (· + ·) add_mono2 n X Y hX hY i

/-! ## `sub` : Frechet addition of the negated operand -/

theorem sub_f_good (n : Nat) (X Y : PB) (hX : WF n X) (hY : WF n Y) :
    sub n .f X Y = .ok (rawF (· + ·) X (negB Y)) ∧ WF n (rawF (· + ·) X (negB Y)) ∧
    Good n (· - ·) X Y (rawF (· + ·) X (negB Y)) hX.toWFS hY.toWFS := by
  obtain ⟨en, wn⟩ := neg_wf n Y hY
  obtain ⟨e, w, g⟩ := add_f_good n X (negB Y) hX wn
  refine ⟨?_, w, ?_⟩
  · simp only [sub, en, swapPO, bind, Except.bind]
    exact e
  · exact (g.flipY _ _ antiInv_neg hY.toWFS (inS_true Y) wn.toWFS).congr
      (fun a b => (sub_eq_add_neg a b).symm)

/-- C02 validity for the public `sub` / bare `-`: subtraction is Frechet addition of the negated
operand, and negation mirrors selections and couplings (`y ↦ -y ∘ rev`, `σ ↦ rev ∘ σ`). -/
theorem C02Validity_sub : C02Validity .sub := by
  intro n X Y R hX hY _ hR x y hx hy σ i l r hl hr
  obtain ⟨e, -, g⟩ := sub_f_good n X Y hX hY
  simp only [binop] at hR
  rw [e] at hR
  have hRe := (Except.ok.inj hR).symm
  subst hRe
  exact g.valid x y hx hy σ i l r hl hr

/-- C02 tightness for the public `sub` / bare `-`, both bounds -/
theorem C02Tight_sub : C02Tight .sub := by
  intro n X Y R hX hY _ hR i
  obtain ⟨e, -, g⟩ := sub_f_good n X Y hX hY
  simp only [binop] at hR
  rw [e] at hR
  have hRe := (Except.ok.inj hR).symm
  subst hRe
  exact ⟨fun l hl => g.tightL i l hl, fun r hr => g.tightR i r hr⟩

/-- tightness of `sub`, naming the selections: the left bound of `X - Y` is attained by `X.left` against
`Y.right`, the right bound by `X.right` against `Y.left` -/
theorem sub_f_tight (n : Nat) (X Y R : PB) (hX : WF n X) (hY : WF n Y)
    (hR : binop n .sub .f X Y = .ok R) (i : Fin n) :
    (∀ l, R.left[i.val]? = some l → ∃ σ : Equiv.Perm (Fin n),
      IsRank n (fun m => X.left[m.val]'(by have := hX.llen; omega) -
        Y.right[(σ m).val]'(by have := hY.rlen; omega)) i l) ∧
    (∀ r, R.right[i.val]? = some r → ∃ σ : Equiv.Perm (Fin n),
      IsRank n (fun m => X.right[m.val]'(by have := hX.rlen; omega) -
        Y.left[(σ m).val]'(by have := hY.llen; omega)) i r) := by
  obtain ⟨e, -, -⟩ := sub_f_good n X Y hX hY
  obtain ⟨-, wn⟩ := neg_wf n Y hY
  simp only [binop] at hR
  rw [e] at hR
  have hRe := (Except.ok.inj hR).symm
  subst hRe
  obtain ⟨t1, t2⟩ := frechet_tight_explicit (· + ·) add_mono2 n X (negB Y) hX wn i
  have hl := hY.llen; have hr := hY.rlen
  constructor
  · intro l hl'
    obtain ⟨σ, h⟩ := t1 l hl'
    refine ⟨σ.trans Fin.revPerm, ?_⟩
    have e : (fun m : Fin n => X.left[m.val]'(by have := hX.llen; omega) -
        Y.right[((σ.trans Fin.revPerm) m).val]'(by omega)) =
        (fun m : Fin n => X.left[m.val]'(by have := hX.llen; omega) +
          (negB Y).left[(σ m).val]'(by have := wn.llen; omega)) := by
      funext m
      have hs := (σ m).isLt
      simp only [negB, flipB, List.getElem_map, List.getElem_reverse, Equiv.trans_apply, Fin.revPerm_apply,
        Fin.val_rev, sub_eq_add_neg]
      congr 3
      omega
    rw [e]; exact h
  · intro r hr'
    obtain ⟨σ, h⟩ := t2 r hr'
    refine ⟨σ.trans Fin.revPerm, ?_⟩
    have e : (fun m : Fin n => X.right[m.val]'(by have := hX.rlen; omega) -
        Y.left[((σ.trans Fin.revPerm) m).val]'(by omega)) =
        (fun m : Fin n => X.right[m.val]'(by have := hX.rlen; omega) +
          (negB Y).right[(σ m).val]'(by have := wn.rlen; omega)) := by
      funext m
      have hs := (σ m).isLt
      simp only [negB, flipB, List.getElem_map, List.getElem_reverse, Equiv.trans_apply, Fin.revPerm_apply,
        Fin.val_rev, sub_eq_add_neg]
      congr 3
      omega
    rw [e]; exact h

/-! ## `mul` on operands of one sign each (sign routing through `negativeFrechet`) -/

/-- C02 tightness for the public `mul` on operands of one sign each, both bounds.  Partial: for a
zero-straddling operand `C02Tight .mul` does not hold (see the file header for a witness). -/
theorem C02Tight_mul_onesign_partial (n : Nat) (X Y R : PB) (hX : WF n X) (hY : WF n Y)
    (sX : OneSign X) (sY : OneSign Y) (hR : binop n .mul .f X Y = .ok R) (i : Fin n) :
    (∀ l, R.left[i.val]? = some l → ∃ x y : Fin n → Rat, Sel n X hX.toWFS x ∧ Sel n Y hY.toWFS y ∧
      ∃ σ : Equiv.Perm (Fin n), IsRank n (fun m => x m * y (σ m)) i l) ∧
    (∀ r, R.right[i.val]? = some r → ∃ x y : Fin n → Rat, Sel n X hX.toWFS x ∧ Sel n Y hY.toWFS y ∧
      ∃ σ : Equiv.Perm (Fin n), IsRank n (fun m => x m * y (σ m)) i r) := by
  obtain ⟨R', e, -, g⟩ := mul_f_onesign_good n X Y hX hY sX sY
  simp only [binop] at hR
  rw [e] at hR
  have hRe := (Except.ok.inj hR).symm
  subst hRe
  exact ⟨fun l hl => g.tightL i l hl, fun r hr => g.tightR i r hr⟩

/-- tightness of the product of non-negative, not identically zero operands, naming the selections:
left bounds against left bounds, right bounds against right bounds, anti-diagonal couplings -/
theorem mul_f_pos_tight (n : Nat) (X Y R : PB) (hX : WF n X) (hY : WF n Y) (pX : NonNeg X) (pY : NonNeg Y)
    (hxh : 0 < hi X) (hyh : 0 < hi Y) (hR : binop n .mul .f X Y = .ok R) (i : Fin n) :
    (∀ l, R.left[i.val]? = some l → ∃ σ : Equiv.Perm (Fin n),
      IsRank n (fun m => X.left[m.val]'(by have := hX.llen; omega) *
        Y.left[(σ m).val]'(by have := hY.llen; omega)) i l) ∧
    (∀ r, R.right[i.val]? = some r → ∃ σ : Equiv.Perm (Fin n),
      IsRank n (fun m => X.right[m.val]'(by have := hX.rlen; omega) *
        Y.right[(σ m).val]'(by have := hY.rlen; omega)) i r) := by
  simp only [binop] at hR
  rw [mul_f_pos_ok n X Y hX hY pX pY hxh hyh] at hR
  have hRe := (Except.ok.inj hR).symm
  subst hRe
  obtain ⟨t1, t2⟩ := frechet_tight_explicit mulPos mulPos_mono2 n X Y hX hY i
  constructor
  · intro l hl
    obtain ⟨σ, h⟩ := t1 l hl
    refine ⟨σ, ?_⟩
    have e : ∀ m : Fin n, X.left[m.val]'(by have := hX.llen; omega) * Y.left[(σ m).val]'(by have := hY.llen; omega) =
        mulPos (X.left[m.val]'(by have := hX.llen; omega)) (Y.left[(σ m).val]'(by have := hY.llen; omega)) := fun m =>
      (mulPos_eq _ _ (pX.1 _ (List.getElem_mem _)) (pY.1 _ (List.getElem_mem _))).symm
    simp only [e]; exact h
  · intro r hr
    obtain ⟨σ, h⟩ := t2 r hr
    refine ⟨σ, ?_⟩
    have e : ∀ m : Fin n, X.right[m.val]'(by have := hX.rlen; omega) * Y.right[(σ m).val]'(by have := hY.rlen; omega) =
        mulPos (X.right[m.val]'(by have := hX.rlen; omega)) (Y.right[(σ m).val]'(by have := hY.rlen; omega)) := fun m =>
      (mulPos_eq _ _ (pX.2 _ (List.getElem_mem _)) (pY.2 _ (List.getElem_mem _))).symm
    simp only [e]; exact h

/-! ## `div` : Frechet product with the reciprocal -/

/-- C02 tightness for the public `div`, both bounds.  Partial: a zero-straddling dividend goes through
naive ∩ Balch, which is not best possible. -/
theorem C02Tight_div_onesign_partial (n : Nat) (X Y R : PB) (hX : WF n X) (hY : WF n Y)
    (sX : OneSign X) (z : ZeroFree Y) (hR : binop n .div .f X Y = .ok R) (i : Fin n) :
    (∀ l, R.left[i.val]? = some l → ∃ x y : Fin n → Rat, Sel n X hX.toWFS x ∧ Sel n Y hY.toWFS y ∧
      ∃ σ : Equiv.Perm (Fin n), IsRank n (fun m => x m / y (σ m)) i l) ∧
    (∀ r, R.right[i.val]? = some r → ∃ x y : Fin n → Rat, Sel n X hX.toWFS x ∧ Sel n Y hY.toWFS y ∧
      ∃ σ : Equiv.Perm (Fin n), IsRank n (fun m => x m / y (σ m)) i r) := by
  obtain ⟨R', e, -, g⟩ := div_f_onesign_good n X Y hX hY sX z
  simp only [binop] at hR
  rw [e] at hR
  have hRe := (Except.ok.inj hR).symm
  subst hRe
  exact ⟨fun l hl => g.tightL i l hl, fun r hr => g.tightR i r hr⟩

/-- a divisor with a zero bound is rejected (`TypeError` from the reflected division) -/
theorem div_zero_bound_raises (n : Nat) (d : Dep) (X Y : PB) (h : (0 : Rat) ∈ Y.left ∨ (0 : Rat) ∈ Y.right) :
    binop n .div d X Y = .error .Type := by
  obtain ⟨e, he⟩ := recip_zero_raises n Y h
  simp only [binop, div, he, bind, Except.bind]

/-! ## validity for ALL well-formed operands: the zero-straddling product (naive ∩ Balch) included -/

/-- **C02 validity for the public `mul` / bare `*`, every well-formed pair of operands** — no sign
hypothesis.  One-signed operands go through the sign routing (`mul_f_onesign_good`); as soon as one
operand straddles zero the method returns `imposition(naive, Balch)`: the naive bounds (first `n` of the
`n²` sorted corner minima, last `n` of the sorted corner maxima) are valid for every assignment of steps
(`naive_allValid`), every stage of Balch's decomposition `xy = (x−x₀)(y−y₀) + y₀(x−x₀) + x₀(y−y₀) + x₀y₀`
is valid because validity composes through Frechet sums (`AllValid.comp`, `balchprod_allValid`), and the
step-wise intersection of two valid boxes is valid (`Valid.imp`). -/
theorem C02Validity_mul : C02Validity .mul := by
  intro n X Y R hX hY _ hR x y hx hy σ i l r hl hr
  simp only [binop] at hR
  exact (mul_f_allValid n X Y R hX hY hR).2 x y hx hy σ i l r hl hr

/-- **C02 validity for the public `div` / bare `/`, every well-formed dividend and zero-free divisor** -/
theorem C02Validity_div : C02Validity .div := by
  intro n X Y R hX hY z hR x y hx hy σ i l r hl hr
  simp only [binop] at hR
  exact (div_f_allValid n X Y R hX hY (z rfl) hR).2 x y hx hy σ i l r hl hr

/-- **C02, validity part, in full**: all four operations, all well-formed operands (zero-free divisor) -/
theorem C02Validity_all (o : Op) : C02Validity o := by
  cases o with
  | add => exact C02Validity_add
  | sub => exact C02Validity_sub
  | mul => exact C02Validity_mul
  | div => exact C02Validity_div

/-- the public Frechet operations never fail on well-formed operands (zero-free divisor) and return a
well-formed p-box -/
theorem binop_f_total (o : Op) (n : Nat) (X Y : PB) (hX : WF n X) (hY : WF n Y) (z : o = .div → ZeroFree Y) :
    ∃ R, binop n o .f X Y = .ok R ∧ WF n R := by
  cases o with
  | add => exact ⟨_, (add_f_good n X Y hX hY).1, (add_f_good n X Y hX hY).2.1⟩
  | sub => exact ⟨_, (sub_f_good n X Y hX hY).1, (sub_f_good n X Y hX hY).2.1⟩
  | mul => exact mul_f_total n X Y hX hY
  | div => exact div_f_total n X Y hX hY (z rfl)

/-! ## Frechet encloses the perfect, the opposite and the independent result -/

/-- a result encloses itself -/
theorem encloses_refl (F : PB) : Encloses F F := by
  intro k l r dl dr hl hr hdl hdr
  rw [hl] at hdl; rw [hr] at hdr
  rw [← Option.some.inj hdl, ← Option.some.inj hdr]
  exact ⟨le_refl _, le_refl _⟩

/-- **C02 enclosure for the public `add`**: the Frechet sum encloses the perfect, the opposite and the
independent sum (the latter after the constructor condensed its `n²` values) -/
theorem C02Encloses_add : C02Encloses .add := by
  intro n d X Y F D hX hY _ hF hD
  simp only [binop] at hF hD
  obtain ⟨e, wF, g⟩ := add_f_good n X Y hX hY
  rw [e] at hF
  have hFe := (Except.ok.inj hF).symm
  subst hFe
  have v := g.allValid
  cases d with
  | f =>
    rw [e] at hD
    have e' := Except.ok.inj hD
    subst e'
    exact encloses_refl _
  | p =>
    obtain ⟨D', e1, enc⟩ := perfect_enclosed (· + ·) n X Y _ hX hY ⟨wF.llen, wF.rlen⟩ v
    have hD' : add n .p X Y = mk n false (perfectOp (· + ·) X Y).1 (perfectOp (· + ·) X Y).2 := rfl
    rw [hD', e1] at hD
    have e' := Except.ok.inj hD
    subst e'
    exact enc
  | o =>
    obtain ⟨D', e1, enc⟩ := opposite_enclosed (· + ·) n X Y _ hX hY ⟨wF.llen, wF.rlen⟩ v
    have hD' : add n .o X Y = mk n false (oppositeOp (· + ·) X Y).1 (oppositeOp (· + ·) X Y).2 := rfl
    rw [hD', e1] at hD
    have e' := Except.ok.inj hD
    subst e'
    exact enc
  | i =>
    obtain ⟨D', e1, enc⟩ := independent_enclosed (· + ·) n X Y _ hX hY ⟨wF.llen, wF.rlen⟩ v
    have hD' : add n .i X Y = mk n false (independentOp (· + ·) X Y).1 (independentOp (· + ·) X Y).2 := rfl
    rw [hD', e1] at hD
    have e' := Except.ok.inj hD
    subst e'
    exact enc
  | unknown => simp [add] at hD

/-- **C02 enclosure for the public `sub`**: `X.sub(Y, d) = X.add(-Y, swapped d)` -/
theorem C02Encloses_sub : C02Encloses .sub := by
  intro n d X Y F D hX hY _ hF hD
  obtain ⟨en, wn⟩ := neg_wf n Y hY
  simp only [binop, sub, en, bind, Except.bind] at hF hD
  simp only [swapPO] at hF
  exact C02Encloses_add n (swapPO d) X (negB Y) F D hX wn (fun h => by cases h) (by simpa [binop] using hF)
    (by simpa [binop] using hD)

/-! ## enclosure for `mul` and `div`: ALL well-formed operands, every dependency -/

/-- **C02 enclosure for the public `mul`**: the Frechet product encloses the perfect, the opposite and the
independent product of ANY well-formed operands (any signs, zero-straddling included).  The four-corner
minima / maxima of every pairing of steps are outcomes of a selection and a coupling
(`corner_counts`), the `n × n` grid of the independent rule is the union of `n` shifted couplings
(`independent_enclosed`), and the Frechet result is valid for all of them (`mul_f_allValid`). -/
theorem C02Encloses_mul : C02Encloses .mul := by
  intro n d X Y F D hX hY _ hF hD
  simp only [binop] at hF hD
  obtain ⟨wF, v⟩ := mul_f_allValid n X Y F hX hY hF
  cases d with
  | f =>
    rw [hF] at hD
    have e := Except.ok.inj hD
    subst e
    exact encloses_refl _
  | p =>
    obtain ⟨D', e, enc⟩ := perfect_enclosed (· * ·) n X Y F hX hY ⟨wF.llen, wF.rlen⟩ v
    have hD' : mul n .p X Y = mk n false (perfectOp (· * ·) X Y).1 (perfectOp (· * ·) X Y).2 := rfl
    rw [hD', e] at hD
    have e' := Except.ok.inj hD
    subst e'
    exact enc
  | o =>
    obtain ⟨D', e, enc⟩ := opposite_enclosed (· * ·) n X Y F hX hY ⟨wF.llen, wF.rlen⟩ v
    have hD' : mul n .o X Y = mk n false (oppositeOp (· * ·) X Y).1 (oppositeOp (· * ·) X Y).2 := rfl
    rw [hD', e] at hD
    have e' := Except.ok.inj hD
    subst e'
    exact enc
  | i =>
    obtain ⟨D', e, enc⟩ := independent_enclosed (· * ·) n X Y F hX hY ⟨wF.llen, wF.rlen⟩ v
    have hD' : mul n .i X Y = mk n false (independentOp (· * ·) X Y).1 (independentOp (· * ·) X Y).2 := rfl
    rw [hD', e] at hD
    have e' := Except.ok.inj hD
    subst e'
    exact enc
  | unknown => simp [mul] at hD

/-- **C02 enclosure for the public `div`** (zero-free divisor): `X.div(Y, d) = X.mul(1/Y, swapped d)` -/
theorem C02Encloses_div : C02Encloses .div := by
  intro n d X Y F D hX hY z hF hD
  have z' := z rfl
  obtain ⟨-, w, -, -⟩ := recip_ok n Y hY z'
  simp only [binop, div_eq_mul_recip n _ X Y hY z'] at hF hD
  simp only [swapPO] at hF
  exact C02Encloses_mul n (swapPO d) X (recipB Y) F D hX w (fun h => by cases h) (by simpa [binop] using hF)
    (by simpa [binop] using hD)

/-- **C02, enclosure part, in full**: all four operations, all well-formed operands, every dependency -/
theorem C02Encloses_all (o : Op) : C02Encloses o := by
  cases o with
  | add => exact C02Encloses_add
  | sub => exact C02Encloses_sub
  | mul => exact C02Encloses_mul
  | div => exact C02Encloses_div

/-! non-vacuity: a concrete pair of 3-step boxes meets the hypotheses, and the rule computes -/
example : WFS 3 ⟨[1, 2, 3], [2, 3, 4]⟩ := ⟨rfl, rfl, by decide, by decide⟩
example : frechetLeftRaw (· + ·) [1, 2, 3] [0, 1, 5] = [1, 2, 6] := by decide +kernel
example : frechetRightRaw (· + ·) [2, 3, 4] [1, 2, 6] = [5, 6, 10] := by decide +kernel
example : NonNeg ⟨[1, 2, 3], [2, 3, 4]⟩ := by constructor <;> decide

example : OneSign ⟨[-3, -2, 0], [-2, -1, 0]⟩ := Or.inr (by constructor <;> decide)
example : ZeroFree ⟨[1, 2, 3], [2, 3, 4]⟩ := Or.inl (by decide)
example : WF 2 ⟨[-3, -2], [-2, 0]⟩ := ⟨⟨rfl, rfl, by decide, by decide⟩, by decide⟩
example : ∃ R, binop 2 .mul .f ⟨[-3, -2], [-2, 0]⟩ ⟨[1, 2], [2, 4]⟩ = .ok R ∧ WF 2 R :=
  binop_f_total .mul 2 _ _ ⟨⟨rfl, rfl, by decide, by decide⟩, by decide⟩ ⟨⟨rfl, rfl, by decide, by decide⟩, by decide⟩
    (fun h => by cases h)
example : ∃ R, binop 2 .div .f ⟨[1, 2], [2, 4]⟩ ⟨[-4, -2], [-2, -1]⟩ = .ok R ∧ WF 2 R :=
  binop_f_total .div 2 _ _ ⟨⟨rfl, rfl, by decide, by decide⟩, by decide⟩ ⟨⟨rfl, rfl, by decide, by decide⟩, by decide⟩
    (fun _ => Or.inr (by decide))

/-! a zero-straddling pair meets the hypotheses of `C02Validity_mul` -/
example : WF 2 ⟨[-3, 1], [-1, 2]⟩ := ⟨⟨rfl, rfl, by decide, by decide⟩, by decide⟩
example : ∃ R, binop 2 .mul .f ⟨[-3, 1], [-1, 2]⟩ ⟨[-2, 1], [0, 4]⟩ = .ok R ∧ WF 2 R :=
  binop_f_total .mul 2 _ _ ⟨⟨rfl, rfl, by decide, by decide⟩, by decide⟩ ⟨⟨rfl, rfl, by decide, by decide⟩, by decide⟩
    (fun h => by cases h)
example : ∃ R, binop 2 .div .f ⟨[-3, 1], [-1, 2]⟩ ⟨[1, 2], [2, 4]⟩ = .ok R ∧ WF 2 R :=
  binop_f_total .div 2 _ _ ⟨⟨rfl, rfl, by decide, by decide⟩, by decide⟩ ⟨⟨rfl, rfl, by decide, by decide⟩, by decide⟩
    (fun _ => Or.inl (by decide))

/-! the hypotheses of `C02Encloses_mul` are satisfiable with a zero-straddling pair: both runs return -/
example : ∃ F D, binop 2 .mul .f ⟨[-3, 1], [-1, 2]⟩ ⟨[-2, 1], [0, 4]⟩ = .ok F ∧
    binop 2 .mul .p ⟨[-3, 1], [-1, 2]⟩ ⟨[-2, 1], [0, 4]⟩ = .ok D := by
  have hX : WF 2 ⟨[-3, 1], [-1, 2]⟩ := ⟨⟨rfl, rfl, by decide, by decide⟩, by decide⟩
  have hY : WF 2 ⟨[-2, 1], [0, 4]⟩ := ⟨⟨rfl, rfl, by decide, by decide⟩, by decide⟩
  obtain ⟨F, eF, wF⟩ := mul_f_total 2 _ _ hX hY
  obtain ⟨D, eD, -⟩ := perfect_enclosed (· * ·) 2 _ _ F hX hY ⟨wF.llen, wF.rlen⟩ (mul_f_allValid 2 _ _ F hX hY eF).2
  exact ⟨F, D, eF, eD⟩

end Pun.PBox
