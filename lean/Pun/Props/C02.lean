import Pun.Model.PBox
namespace Pun.PBox
theorem placeholder_c02 : True := trivial
end Pun.PBox
