import Pun.Lemmas.PBoxFrechet
/-!
# C02 — default (Frechet) p-box arithmetic bounds every dependence, and tightly

The theorems are about the functions the model driver executes (`Pun.PBox.frechetOp`, which the
public `add/sub/mul/div(…, 'f')` route to), for lists of ANY length `n`, ANY selection of one value
per step and ANY permutation coupling `σ`.

"The k-th smallest outcome lies inside the k-th step" is stated by counting: at most `i` outcomes
lie strictly below `left[i]` and at most `n-1-i` strictly above `right[i]`.

Proved here: validity of both bounds (sum: any operands; product: non-negative operands — negative
operands are routed through negation, which conjugates this case, see `neg` in the model and the
correspondence check), tightness of the left bound (the extremal anti-diagonal coupling attains it),
the two `sort` calls of `frechet_op` are identities.  Not proved (kept as tie + oracle only): the
straddling product (naive ∩ Balch), right-bound tightness (dual argument), general couplings that
are not permutations (Birkhoff mixture argument, cited).
-/
set_option linter.unusedSimpArgs false
set_option linter.unusedVariables false
namespace Pun.PBox
open Pun Finset

/-- well-formed operand: `n` steps, both bounds sorted -/
structure WFS (n : Nat) (p : PB) : Prop where
  llen : p.left.length = n
  rlen : p.right.length = n
  lsorted : p.left.Pairwise (· ≤ ·)
  rsorted : p.right.Pairwise (· ≤ ·)

/-- selection of one value per step -/
def Sel (n : Nat) (p : PB) (h : WFS n p) (z : Fin n → Rat) : Prop :=
  ∀ m : Fin n, p.left[m.val]'(by have := h.llen; omega) ≤ z m ∧ z m ≤ p.right[m.val]'(by have := h.rlen; omega)

/-- **C02 validity, sum.** `X + Y` under Frechet: for every selection from each operand and every
coupling, the outcomes `x m + y (σ m)` have at most `i` values below `left[i]` and at most `n-1-i`
above `right[i]`. -/
theorem frechet_add_valid (n : Nat) (X Y : PB) (hX : WFS n X) (hY : WFS n Y)
    (x y : Fin n → Rat) (hx : Sel n X hX x) (hy : Sel n Y hY y) (σ : Equiv.Perm (Fin n)) (i : Fin n)
    (l r : Rat) (hl : (frechetOp (· + ·) X Y).1[i.val]? = some l)
    (hr : (frechetOp (· + ·) X Y).2[i.val]? = some r) :
    (univ.filter (fun m : Fin n => x m + y (σ m) < l)).card ≤ i.val ∧
    (univ.filter (fun m : Fin n => r < x m + y (σ m))).card ≤ n - 1 - i.val := by
  rw [frechetOp_eq_raw (· + ·) add_mono2 X Y (by rw [hX.llen, hY.llen]) (by rw [hX.rlen, hY.rlen])
    hY.lsorted hX.rsorted] at hl hr
  exact ⟨frechetLeft_valid (· + ·) add_mono2 X.left Y.left n hX.llen hY.llen hX.lsorted hY.lsorted x y
      (fun m => (hx m).1) (fun m => (hy m).1) σ i l hl,
    frechetRight_valid (· + ·) add_mono2 X.right Y.right n hX.rlen hY.rlen hX.rsorted hY.rsorted x y
      (fun m => (hx m).2) (fun m => (hy m).2) σ i r hr⟩

/-- **C02 tightness, sum (left bound).** There is a coupling of the left-bounding selections under
which the `i`-th smallest outcome is exactly `left[i]`. -/
theorem frechet_add_tight_left (n : Nat) (X Y : PB) (hX : WFS n X) (hY : WFS n Y) (i : Fin n)
    (l : Rat) (hl : (frechetOp (· + ·) X Y).1[i.val]? = some l) :
    ∃ σ : Equiv.Perm (Fin n),
      (univ.filter (fun m : Fin n =>
        X.left[m.val]'(by have := hX.llen; omega) + Y.left[(σ m).val]'(by have := hY.llen; omega) < l)).card ≤ i.val ∧
      i.val + 1 ≤ (univ.filter (fun m : Fin n =>
        X.left[m.val]'(by have := hX.llen; omega) + Y.left[(σ m).val]'(by have := hY.llen; omega) ≤ l)).card := by
  rw [frechetOp_eq_raw (· + ·) add_mono2 X Y (by rw [hX.llen, hY.llen]) (by rw [hX.rlen, hY.rlen])
    hY.lsorted hX.rsorted] at hl
  exact frechetLeft_tight (· + ·) add_mono2 X.left Y.left n hX.llen hY.llen hX.lsorted hY.lsorted i l hl

/-- non-negative operand -/
def NonNeg (p : PB) : Prop := (∀ v ∈ p.left, 0 ≤ v) ∧ (∀ v ∈ p.right, 0 ≤ v)

/-- on non-negative operands `frechet_op(…, mul)` is the rule for the clamped product -/
theorem frechetOp_mul_eq (X Y : PB) (hX : NonNeg X) (hY : NonNeg Y) :
    frechetOp (· * ·) X Y = frechetOp mulPos X Y := by
  unfold frechetOp
  rw [frechetLeftRaw_mul_eq X.left Y.left hX.1 hY.1, frechetRightRaw_mul_eq X.right Y.right hX.2 hY.2]

/-- **C02 validity, product of non-negative operands.** -/
theorem frechet_mul_pos_valid (n : Nat) (X Y : PB) (hX : WFS n X) (hY : WFS n Y)
    (pX : NonNeg X) (pY : NonNeg Y)
    (x y : Fin n → Rat) (hx : Sel n X hX x) (hy : Sel n Y hY y) (σ : Equiv.Perm (Fin n)) (i : Fin n)
    (l r : Rat) (hl : (frechetOp (· * ·) X Y).1[i.val]? = some l)
    (hr : (frechetOp (· * ·) X Y).2[i.val]? = some r) :
    (univ.filter (fun m : Fin n => x m * y (σ m) < l)).card ≤ i.val ∧
    (univ.filter (fun m : Fin n => r < x m * y (σ m))).card ≤ n - 1 - i.val := by
  rw [frechetOp_mul_eq X Y pX pY,
    frechetOp_eq_raw mulPos mulPos_mono2 X Y (by rw [hX.llen, hY.llen]) (by rw [hX.rlen, hY.rlen])
    hY.lsorted hX.rsorted] at hl hr
  have hxpos : ∀ m, 0 ≤ x m := fun m =>
    le_trans (pX.1 _ (List.getElem_mem _)) (hx m).1
  have hypos : ∀ m, 0 ≤ y m := fun m =>
    le_trans (pY.1 _ (List.getElem_mem _)) (hy m).1
  have e : ∀ m, x m * y (σ m) = mulPos (x m) (y (σ m)) := fun m =>
    (mulPos_eq _ _ (hxpos m) (hypos _)).symm
  simp only [e]
  exact ⟨frechetLeft_valid mulPos mulPos_mono2 X.left Y.left n hX.llen hY.llen hX.lsorted hY.lsorted x y
      (fun m => (hx m).1) (fun m => (hy m).1) σ i l hl,
    frechetRight_valid mulPos mulPos_mono2 X.right Y.right n hX.rlen hY.rlen hX.rsorted hY.rsorted x y
      (fun m => (hx m).2) (fun m => (hy m).2) σ i r hr⟩

/-- **C02 tightness, product of non-negative operands (left bound).** -/
theorem frechet_mul_pos_tight_left (n : Nat) (X Y : PB) (hX : WFS n X) (hY : WFS n Y)
    (pX : NonNeg X) (pY : NonNeg Y) (i : Fin n)
    (l : Rat) (hl : (frechetOp (· * ·) X Y).1[i.val]? = some l) :
    ∃ σ : Equiv.Perm (Fin n),
      (univ.filter (fun m : Fin n =>
        X.left[m.val]'(by have := hX.llen; omega) * Y.left[(σ m).val]'(by have := hY.llen; omega) < l)).card ≤ i.val ∧
      i.val + 1 ≤ (univ.filter (fun m : Fin n =>
        X.left[m.val]'(by have := hX.llen; omega) * Y.left[(σ m).val]'(by have := hY.llen; omega) ≤ l)).card := by
  rw [frechetOp_mul_eq X Y pX pY,
    frechetOp_eq_raw mulPos mulPos_mono2 X Y (by rw [hX.llen, hY.llen]) (by rw [hX.rlen, hY.rlen])
    hY.lsorted hX.rsorted] at hl
  have key := frechetLeft_tight mulPos mulPos_mono2 X.left Y.left n hX.llen hY.llen hX.lsorted hY.lsorted i l hl
  obtain ⟨σ, h1, h2⟩ := key
  refine ⟨σ, ?_, ?_⟩
  · have e : ∀ m : Fin n, X.left[m.val]'(by have := hX.llen; omega) * Y.left[(σ m).val]'(by have := hY.llen; omega) =
        mulPos (X.left[m.val]'(by have := hX.llen; omega)) (Y.left[(σ m).val]'(by have := hY.llen; omega)) := fun m =>
      (mulPos_eq _ _ (pX.1 _ (List.getElem_mem _)) (pY.1 _ (List.getElem_mem _))).symm
    simp only [e]; exact h1
  · have e : ∀ m : Fin n, X.left[m.val]'(by have := hX.llen; omega) * Y.left[(σ m).val]'(by have := hY.llen; omega) =
        mulPos (X.left[m.val]'(by have := hX.llen; omega)) (Y.left[(σ m).val]'(by have := hY.llen; omega)) := fun m =>
      (mulPos_eq _ _ (pX.1 _ (List.getElem_mem _)) (pY.1 _ (List.getElem_mem _))).symm
    simp only [e]; exact h2

/-- the final `sort` calls of `frechet_op` are identities for the sum -/
theorem frechet_add_sorted (n : Nat) (X Y : PB) (hX : WFS n X) (hY : WFS n Y) :
    frechetOp (· + ·) X Y = (frechetLeftRaw (· + ·) X.left Y.left, frechetRightRaw (· + ·) X.right Y.right) :=
  frechetOp_eq_raw (· + ·) add_mono2 X Y (by rw [hX.llen, hY.llen]) (by rw [hX.rlen, hY.rlen])
    hY.lsorted hX.rsorted

/-! non-vacuity: a concrete pair of 3-step boxes meets the hypotheses, and the rule computes -/
example : WFS 3 ⟨[1, 2, 3], [2, 3, 4]⟩ := ⟨rfl, rfl, by decide, by decide⟩
example : frechetLeftRaw (· + ·) [1, 2, 3] [0, 1, 5] = [1, 2, 6] := by decide +kernel
example : frechetRightRaw (· + ·) [2, 3, 4] [1, 2, 6] = [5, 6, 10] := by decide +kernel
example : NonNeg ⟨[1, 2, 3], [2, 3, 4]⟩ := by constructor <;> decide

end Pun.PBox
