import Pun.Lemmas.PBoxFrechet
import Pun.Lemmas.PBoxMk
import Pun.Lemmas.PBoxNeg
/-!
# C02 — default (Frechet) p-box arithmetic bounds every dependence, and tightly

The theorems are about the functions the model driver executes (`Pun.PBox.frechetOp`, which the
public `add/sub/mul/div(…, 'f')` route to), for lists of ANY length `n`, ANY selection of one value
per step and ANY permutation coupling `σ`.

"The k-th smallest outcome lies inside the k-th step" is stated by counting: at most `i` outcomes
lie strictly below `left[i]` and at most `n-1-i` strictly above `right[i]`.

Proved here: validity of both bounds (sum: any operands; product: non-negative operands — negative
operands are routed through negation, which conjugates this case, see `neg` in the model and the
correspondence check), tightness of both bounds (the extremal anti-diagonal couplings attain them),
the two `sort` calls of `frechet_op` are identities.  Right-bound tightness is proved by the dual coupling.  Not proved (kept as tie + oracle only): the
straddling product (naive ∩ Balch), general couplings that
are not permutations (Birkhoff mixture argument, cited).
-/
set_option linter.unusedSimpArgs false
set_option linter.unusedVariables false
namespace Pun.PBox
open Pun Finset

/-- well-formed operand: `n` steps, both bounds sorted -/
structure WFS (n : Nat) (p : PB) : Prop where
  llen : p.left.length = n
  rlen : p.right.length = n
  lsorted : p.left.Pairwise (· ≤ ·)
  rsorted : p.right.Pairwise (· ≤ ·)

/-- selection of one value per step -/
def Sel (n : Nat) (p : PB) (h : WFS n p) (z : Fin n → Rat) : Prop :=
  ∀ m : Fin n, p.left[m.val]'(by have := h.llen; omega) ≤ z m ∧ z m ≤ p.right[m.val]'(by have := h.rlen; omega)

/-- **C02 validity, sum.** `X + Y` under Frechet: for every selection from each operand and every
coupling, the outcomes `x m + y (σ m)` have at most `i` values below `left[i]` and at most `n-1-i`
above `right[i]`. -/
theorem frechet_add_valid (n : Nat) (X Y : PB) (hX : WFS n X) (hY : WFS n Y)
    (x y : Fin n → Rat) (hx : Sel n X hX x) (hy : Sel n Y hY y) (σ : Equiv.Perm (Fin n)) (i : Fin n)
    (l r : Rat) (hl : (frechetOp (· + ·) X Y).1[i.val]? = some l)
    (hr : (frechetOp (· + ·) X Y).2[i.val]? = some r) :
    (univ.filter (fun m : Fin n => x m + y (σ m) < l)).card ≤ i.val ∧
    (univ.filter (fun m : Fin n => r < x m + y (σ m))).card ≤ n - 1 - i.val := by
  rw [frechetOp_eq_raw (· + ·) add_mono2 X Y (by rw [hX.llen, hY.llen]) (by rw [hX.rlen, hY.rlen])
    hY.lsorted hX.rsorted] at hl hr
  exact ⟨frechetLeft_valid (· + ·) add_mono2 X.left Y.left n hX.llen hY.llen hX.lsorted hY.lsorted x y
      (fun m => (hx m).1) (fun m => (hy m).1) σ i l hl,
    frechetRight_valid (· + ·) add_mono2 X.right Y.right n hX.rlen hY.rlen hX.rsorted hY.rsorted x y
      (fun m => (hx m).2) (fun m => (hy m).2) σ i r hr⟩

/-- **C02 tightness, sum (left bound).** There is a coupling of the left-bounding selections under
which the `i`-th smallest outcome is exactly `left[i]`. -/
theorem frechet_add_tight_left (n : Nat) (X Y : PB) (hX : WFS n X) (hY : WFS n Y) (i : Fin n)
    (l : Rat) (hl : (frechetOp (· + ·) X Y).1[i.val]? = some l) :
    ∃ σ : Equiv.Perm (Fin n),
      (univ.filter (fun m : Fin n =>
        X.left[m.val]'(by have := hX.llen; omega) + Y.left[(σ m).val]'(by have := hY.llen; omega) < l)).card ≤ i.val ∧
      i.val + 1 ≤ (univ.filter (fun m : Fin n =>
        X.left[m.val]'(by have := hX.llen; omega) + Y.left[(σ m).val]'(by have := hY.llen; omega) ≤ l)).card := by
  rw [frechetOp_eq_raw (· + ·) add_mono2 X Y (by rw [hX.llen, hY.llen]) (by rw [hX.rlen, hY.rlen])
    hY.lsorted hX.rsorted] at hl
  exact frechetLeft_tight (· + ·) add_mono2 X.left Y.left n hX.llen hY.llen hX.lsorted hY.lsorted i l hl

/-- **C02 tightness, sum (right bound).** -/
theorem frechet_add_tight_right (n : Nat) (X Y : PB) (hX : WFS n X) (hY : WFS n Y) (i : Fin n)
    (r : Rat) (hr : (frechetOp (· + ·) X Y).2[i.val]? = some r) :
    ∃ σ : Equiv.Perm (Fin n),
      (univ.filter (fun m : Fin n =>
        r < X.right[m.val]'(by have := hX.rlen; omega) + Y.right[(σ m).val]'(by have := hY.rlen; omega))).card ≤ n - 1 - i.val ∧
      n - i.val ≤ (univ.filter (fun m : Fin n =>
        r ≤ X.right[m.val]'(by have := hX.rlen; omega) + Y.right[(σ m).val]'(by have := hY.rlen; omega))).card := by
  rw [frechetOp_eq_raw (· + ·) add_mono2 X Y (by rw [hX.llen, hY.llen]) (by rw [hX.rlen, hY.rlen])
    hY.lsorted hX.rsorted] at hr
  exact frechetRight_tight (· + ·) add_mono2 X.right Y.right n hX.rlen hY.rlen hX.rsorted hY.rsorted i r hr

/-- non-negative operand -/
def NonNeg (p : PB) : Prop := (∀ v ∈ p.left, 0 ≤ v) ∧ (∀ v ∈ p.right, 0 ≤ v)

/-- on non-negative operands `frechet_op(…, mul)` is the rule for the clamped product -/
theorem frechetOp_mul_eq (X Y : PB) (hX : NonNeg X) (hY : NonNeg Y) :
    frechetOp (· * ·) X Y = frechetOp mulPos X Y := by
  unfold frechetOp
  rw [frechetLeftRaw_mul_eq X.left Y.left hX.1 hY.1, frechetRightRaw_mul_eq X.right Y.right hX.2 hY.2]

/-- **C02 validity, product of non-negative operands.** -/
theorem frechet_mul_pos_valid (n : Nat) (X Y : PB) (hX : WFS n X) (hY : WFS n Y)
    (pX : NonNeg X) (pY : NonNeg Y)
    (x y : Fin n → Rat) (hx : Sel n X hX x) (hy : Sel n Y hY y) (σ : Equiv.Perm (Fin n)) (i : Fin n)
    (l r : Rat) (hl : (frechetOp (· * ·) X Y).1[i.val]? = some l)
    (hr : (frechetOp (· * ·) X Y).2[i.val]? = some r) :
    (univ.filter (fun m : Fin n => x m * y (σ m) < l)).card ≤ i.val ∧
    (univ.filter (fun m : Fin n => r < x m * y (σ m))).card ≤ n - 1 - i.val := by
  rw [frechetOp_mul_eq X Y pX pY,
    frechetOp_eq_raw mulPos mulPos_mono2 X Y (by rw [hX.llen, hY.llen]) (by rw [hX.rlen, hY.rlen])
    hY.lsorted hX.rsorted] at hl hr
  have hxpos : ∀ m, 0 ≤ x m := fun m =>
    le_trans (pX.1 _ (List.getElem_mem _)) (hx m).1
  have hypos : ∀ m, 0 ≤ y m := fun m =>
    le_trans (pY.1 _ (List.getElem_mem _)) (hy m).1
  have e : ∀ m, x m * y (σ m) = mulPos (x m) (y (σ m)) := fun m =>
    (mulPos_eq _ _ (hxpos m) (hypos _)).symm
  simp only [e]
  exact ⟨frechetLeft_valid mulPos mulPos_mono2 X.left Y.left n hX.llen hY.llen hX.lsorted hY.lsorted x y
      (fun m => (hx m).1) (fun m => (hy m).1) σ i l hl,
    frechetRight_valid mulPos mulPos_mono2 X.right Y.right n hX.rlen hY.rlen hX.rsorted hY.rsorted x y
      (fun m => (hx m).2) (fun m => (hy m).2) σ i r hr⟩

/-- **C02 tightness, product of non-negative operands (left bound).** -/
theorem frechet_mul_pos_tight_left (n : Nat) (X Y : PB) (hX : WFS n X) (hY : WFS n Y)
    (pX : NonNeg X) (pY : NonNeg Y) (i : Fin n)
    (l : Rat) (hl : (frechetOp (· * ·) X Y).1[i.val]? = some l) :
    ∃ σ : Equiv.Perm (Fin n),
      (univ.filter (fun m : Fin n =>
        X.left[m.val]'(by have := hX.llen; omega) * Y.left[(σ m).val]'(by have := hY.llen; omega) < l)).card ≤ i.val ∧
      i.val + 1 ≤ (univ.filter (fun m : Fin n =>
        X.left[m.val]'(by have := hX.llen; omega) * Y.left[(σ m).val]'(by have := hY.llen; omega) ≤ l)).card := by
  rw [frechetOp_mul_eq X Y pX pY,
    frechetOp_eq_raw mulPos mulPos_mono2 X Y (by rw [hX.llen, hY.llen]) (by rw [hX.rlen, hY.rlen])
    hY.lsorted hX.rsorted] at hl
  have key := frechetLeft_tight mulPos mulPos_mono2 X.left Y.left n hX.llen hY.llen hX.lsorted hY.lsorted i l hl
  obtain ⟨σ, h1, h2⟩ := key
  refine ⟨σ, ?_, ?_⟩
  · have e : ∀ m : Fin n, X.left[m.val]'(by have := hX.llen; omega) * Y.left[(σ m).val]'(by have := hY.llen; omega) =
        mulPos (X.left[m.val]'(by have := hX.llen; omega)) (Y.left[(σ m).val]'(by have := hY.llen; omega)) := fun m =>
      (mulPos_eq _ _ (pX.1 _ (List.getElem_mem _)) (pY.1 _ (List.getElem_mem _))).symm
    simp only [e]; exact h1
  · have e : ∀ m : Fin n, X.left[m.val]'(by have := hX.llen; omega) * Y.left[(σ m).val]'(by have := hY.llen; omega) =
        mulPos (X.left[m.val]'(by have := hX.llen; omega)) (Y.left[(σ m).val]'(by have := hY.llen; omega)) := fun m =>
      (mulPos_eq _ _ (pX.1 _ (List.getElem_mem _)) (pY.1 _ (List.getElem_mem _))).symm
    simp only [e]; exact h2

/-- the final `sort` calls of `frechet_op` are identities for the sum -/
theorem frechet_add_sorted (n : Nat) (X Y : PB) (hX : WFS n X) (hY : WFS n Y) :
    frechetOp (· + ·) X Y = (frechetLeftRaw (· + ·) X.left Y.left, frechetRightRaw (· + ·) X.right Y.right) :=
  frechetOp_eq_raw (· + ·) add_mono2 X Y (by rw [hX.llen, hY.llen]) (by rw [hX.rlen, hY.rlen])
    hY.lsorted hX.rsorted

/-- fully well-formed p-box: `n` steps, sorted bounds, `left ≤ right` at every step -/
structure WF (n : Nat) (p : PB) : Prop extends WFS n p where
  le : ∀ i (h : i < n), p.left[i]'(by omega) ≤ p.right[i]'(by omega)

/-- **The public method** `X.add(Y, dependency='f')` (and the bare `X + Y` under the default
setting) returns exactly the raw Frechet bounds — the constructor's switch, length normalisation and
monotonicity check all pass — and the result is again well formed. -/
theorem add_f_ok (n : Nat) (X Y : PB) (hX : WF n X) (hY : WF n Y) :
    add n .f X Y = .ok ⟨frechetLeftRaw (· + ·) X.left Y.left, frechetRightRaw (· + ·) X.right Y.right⟩ ∧
    WF n ⟨frechetLeftRaw (· + ·) X.left Y.left, frechetRightRaw (· + ·) X.right Y.right⟩ := by
  have hs := frechet_add_sorted n X Y hX.toWFS hY.toWFS
  have sl := frechetLeftRaw_sorted (· + ·) add_mono2 X.left Y.left (by rw [hX.llen, hY.llen]) hY.lsorted
  have sr := frechetRightRaw_sorted (· + ·) add_mono2 X.right Y.right (by rw [hX.rlen, hY.rlen]) hX.rsorted
  have ll : (frechetLeftRaw (· + ·) X.left Y.left).length = n := by rw [frechetLeftRaw_length, hX.llen]
  have lr : (frechetRightRaw (· + ·) X.right Y.right).length = n := by rw [frechetRightRaw_length, hX.rlen]
  have hle : ∀ i (h : i < n), (frechetLeftRaw (· + ·) X.left Y.left)[i]'(by omega) ≤
      (frechetRightRaw (· + ·) X.right Y.right)[i]'(by omega) := fun i h =>
    frechetRaw_le (· + ·) add_mono2 X.left X.right Y.left Y.right n hX.llen hX.rlen hY.llen hY.rlen
      hX.rsorted hY.rsorted hX.le hY.le i h
  refine ⟨?_, ⟨⟨ll, lr, sl, sr⟩, hle⟩⟩
  unfold add
  simp only [hs]
  exact mk_arr_ok n _ _ ll lr sl sr (fun i h => hle i (by omega))

/-- divisor support excludes zero -/
def ZeroFree (p : PB) : Prop := (∀ v ∈ p.left, 0 < v) ∨ (∀ v ∈ p.right, v < 0)

/-- **Full statement of C02 (validity part) for the public methods**, all four operations and all
sign configurations.  Proved below for `add` (`C02Validity_add_partial`); the other operations
reduce to it through negation / reciprocal / sign routing, which is established by the
correspondence and the coupling oracle on the real code, not yet by a theorem. -/
def C02Validity (o : Op) : Prop :=
  ∀ (n : Nat) (X Y R : PB) (hX : WF n X) (hY : WF n Y), (o = .div → ZeroFree Y) →
    binop n o .f X Y = .ok R →
    ∀ (x y : Fin n → Rat), Sel n X hX.toWFS x → Sel n Y hY.toWFS y →
    ∀ (σ : Equiv.Perm (Fin n)) (i : Fin n) (l r : Rat), R.left[i.val]? = some l → R.right[i.val]? = some r →
      (univ.filter (fun m : Fin n => o.ap (x m) (y (σ m)) < l)).card ≤ i.val ∧
      (univ.filter (fun m : Fin n => r < o.ap (x m) (y (σ m)))).card ≤ n - 1 - i.val

/-- C02 validity for the public `add` / bare `+` — partial: the `add` instance of `C02Validity`
(missing: `sub`, `mul`, `div` instances at the level of the public methods). -/
theorem C02Validity_add_partial : C02Validity .add := by
  intro n X Y R hX hY _ hR x y hx hy σ i l r hl hr
  have h := (add_f_ok n X Y hX hY).1
  simp only [binop] at hR
  rw [h] at hR
  have hRe : R = ⟨frechetLeftRaw (· + ·) X.left Y.left, frechetRightRaw (· + ·) X.right Y.right⟩ :=
    (Except.ok.inj hR).symm
  subst hRe
  have hs := frechet_add_sorted n X Y hX.toWFS hY.toWFS
  exact frechet_add_valid n X Y hX.toWFS hY.toWFS x y hx hy σ i l r (by rw [hs]; exact hl) (by rw [hs]; exact hr)

/-- `-Y` of a well-formed p-box is well formed -/
theorem neg_wf (n : Nat) (Y : PB) (hY : WF n Y) :
    neg n Y = .ok ⟨Y.right.reverse.map (- ·), Y.left.reverse.map (- ·)⟩ ∧
    WF n ⟨Y.right.reverse.map (- ·), Y.left.reverse.map (- ·)⟩ := by
  refine ⟨neg_ok n Y hY.llen hY.rlen hY.lsorted hY.rsorted hY.le, ⟨⟨by simp [hY.rlen], by simp [hY.llen],
    neg_rev_sorted _ hY.rsorted, neg_rev_sorted _ hY.lsorted⟩, ?_⟩⟩
  intro i h
  simp only [List.getElem_map, List.getElem_reverse, hY.llen, hY.rlen]
  have := hY.le (n - 1 - i) (by omega)
  linarith

/-- C02 validity for the public `sub` / bare `-`: subtraction is Frechet addition of the negated
operand, and negation mirrors selections and couplings (`y ↦ -y ∘ rev`, `σ ↦ rev ∘ σ`). -/
theorem C02Validity_sub_partial : C02Validity .sub := by
  intro n X Y R hX hY _ hR x y hx hy σ i l r hl hr
  obtain ⟨hneg, hY'⟩ := neg_wf n Y hY
  simp only [binop, sub, hneg, swapPO, bind, Except.bind] at hR
  have key := C02Validity_add_partial n X _ R hX hY' (by intro h; cases h) (by simpa [binop] using hR)
    x (fun m => - y (Fin.rev m)) hx
    (by
      intro m
      have hm := m.isLt
      have hy' := hy (Fin.rev m)
      simp only [Fin.val_rev] at hy'
      have hrl := hY.rlen
      have hll := hY.llen
      constructor
      · simp only [List.getElem_map, List.getElem_reverse]
        have e : Y.right[Y.right.length - 1 - m.val]'(by omega) = Y.right[n - (m.val + 1)]'(by omega) := by
          congr 1; omega
        rw [e]; linarith [hy'.2]
      · simp only [List.getElem_map, List.getElem_reverse]
        have e : Y.left[Y.left.length - 1 - m.val]'(by omega) = Y.left[n - (m.val + 1)]'(by omega) := by
          congr 1; omega
        rw [e]; linarith [hy'.1])
    (σ.trans Fin.revPerm) i l r hl hr
  simp only [Op.ap, Equiv.trans_apply, Fin.revPerm_apply, Fin.rev_rev] at key ⊢
  have e : ∀ m, x m - y (σ m) = x m + -y (σ m) := fun m => sub_eq_add_neg _ _
  simp only [e]
  exact key

theorem not_straddles_of_nonneg (p : PB) (h : NonNeg p) : straddlesZero p = false := by
  unfold straddlesZero
  have : ¬ minL 0 p.left < 0 := by
    by_cases hne : p.left = []
    · simp [hne, minL]
    · exact not_lt.mpr (h.1 _ (minL_spec 0 p.left hne).1)
  simp [this]

/-- the public product of two non-negative, not identically zero p-boxes under Frechet returns the raw
rule for the clamped (monotone) product, and the result is well formed -/
theorem mul_f_pos_ok (n : Nat) (X Y : PB) (hX : WF n X) (hY : WF n Y) (pX : NonNeg X) (pY : NonNeg Y)
    (hxh : 0 < hi X) (hyh : 0 < hi Y) :
    mul n .f X Y = .ok ⟨frechetLeftRaw mulPos X.left Y.left, frechetRightRaw mulPos X.right Y.right⟩ := by
  have sl := frechetLeftRaw_sorted mulPos mulPos_mono2 X.left Y.left (by rw [hX.llen, hY.llen]) hY.lsorted
  have sr := frechetRightRaw_sorted mulPos mulPos_mono2 X.right Y.right (by rw [hX.rlen, hY.rlen]) hX.rsorted
  have ll : (frechetLeftRaw mulPos X.left Y.left).length = n := by rw [frechetLeftRaw_length, hX.llen]
  have lr : (frechetRightRaw mulPos X.right Y.right).length = n := by rw [frechetRightRaw_length, hX.rlen]
  have hle : ∀ i (h : i < n), (frechetLeftRaw mulPos X.left Y.left)[i]'(by omega) ≤
      (frechetRightRaw mulPos X.right Y.right)[i]'(by omega) := fun i h =>
    frechetRaw_le mulPos mulPos_mono2 X.left X.right Y.left Y.right n hX.llen hX.rlen hY.llen hY.rlen
      hX.rsorted hY.rsorted hX.le hY.le i h
  have hop : frechetOp (· * ·) X Y =
      (frechetLeftRaw mulPos X.left Y.left, frechetRightRaw mulPos X.right Y.right) := by
    rw [frechetOp_mul_eq X Y pX pY]
    exact frechetOp_eq_raw mulPos mulPos_mono2 X Y (by rw [hX.llen, hY.llen]) (by rw [hX.rlen, hY.rlen])
      hY.lsorted hX.rsorted
  unfold mul frechetMul frechetMulNoStraddle classicFrechet
  simp only [not_straddles_of_nonneg X pX, not_straddles_of_nonneg Y pY, Bool.or_self, Bool.false_eq_true,
    if_false, not_le.mpr hxh, not_le.mpr hyh, decide_false, hop]
  exact mk_arr_ok n _ _ ll lr sl sr (fun i h => hle i (by omega))

/-- C02 validity for the public `mul` / bare `*` on non-negative, not identically zero operands —
partial: the positive×positive instance of `C02Validity .mul` (negative operands are routed through
`neg`, see `neg_wf`; zero-straddling operands through naive ∩ Balch: correspondence + oracle only). -/
theorem C02Validity_mul_pos_partial (n : Nat) (X Y R : PB) (hX : WF n X) (hY : WF n Y)
    (pX : NonNeg X) (pY : NonNeg Y) (hxh : 0 < hi X) (hyh : 0 < hi Y)
    (hR : binop n .mul .f X Y = .ok R)
    (x y : Fin n → Rat) (hx : Sel n X hX.toWFS x) (hy : Sel n Y hY.toWFS y)
    (σ : Equiv.Perm (Fin n)) (i : Fin n) (l r : Rat)
    (hl : R.left[i.val]? = some l) (hr : R.right[i.val]? = some r) :
    (univ.filter (fun m : Fin n => x m * y (σ m) < l)).card ≤ i.val ∧
    (univ.filter (fun m : Fin n => r < x m * y (σ m))).card ≤ n - 1 - i.val := by
  simp only [binop] at hR
  rw [mul_f_pos_ok n X Y hX hY pX pY hxh hyh] at hR
  have hRe := (Except.ok.inj hR).symm
  subst hRe
  have hop : frechetOp (· * ·) X Y =
      (frechetLeftRaw mulPos X.left Y.left, frechetRightRaw mulPos X.right Y.right) := by
    rw [frechetOp_mul_eq X Y pX pY]
    exact frechetOp_eq_raw mulPos mulPos_mono2 X Y (by rw [hX.llen, hY.llen]) (by rw [hX.rlen, hY.rlen])
      hY.lsorted hX.rsorted
  exact frechet_mul_pos_valid n X Y hX.toWFS hY.toWFS pX pY x y hx hy σ i l r
    (by rw [hop]; exact hl) (by rw [hop]; exact hr)

/-! non-vacuity: a concrete pair of 3-step boxes meets the hypotheses, and the rule computes -/
example : WFS 3 ⟨[1, 2, 3], [2, 3, 4]⟩ := ⟨rfl, rfl, by decide, by decide⟩
example : frechetLeftRaw (· + ·) [1, 2, 3] [0, 1, 5] = [1, 2, 6] := by decide +kernel
example : frechetRightRaw (· + ·) [2, 3, 4] [1, 2, 6] = [5, 6, 10] := by decide +kernel
example : NonNeg ⟨[1, 2, 3], [2, 3, 4]⟩ := by constructor <;> decide

end Pun.PBox
