import Pun.Lemmas.PBoxFrechet
import Pun.Lemmas.PBoxMk
import Pun.Lemmas.PBoxNeg
import Pun.Lemmas.PBoxFrechet2
import Pun.Lemmas.PBoxRecip
/-!
# C02 — default (Frechet) p-box arithmetic bounds every dependence, and tightly

The theorems are about the functions the model driver executes (`Pun.PBox.binop … .f`, i.e. the
public `add/sub/mul/div(…, 'f')`, and `Pun.PBox.frechetOp` which they route to), for lists of ANY
length `n`, ANY selection of one value per step and ANY permutation coupling `σ`.

"The k-th smallest outcome lies inside the k-th step" is stated by counting: at most `i` outcomes
lie strictly below `left[i]` and at most `n-1-i` strictly above `right[i]` (`Valid`); "the bound is
attained" says that some selection and coupling has `left[i]` (resp. `right[i]`) as its `i`-th
smallest outcome (`IsRank`).  The full statements are `C02Validity o`, `C02Tight o`, `C02Encloses o`.

Proved (all at the level of the public methods, through the constructor, negation, reciprocal and
the sign routing of the product):
* validity: `C02Validity_add_partial`, `C02Validity_sub_partial` (full instances
  `C02Validity .add`, `C02Validity .sub`), `C02Validity_mul_onesign_partial` (operands of one sign
  each, all four sign combinations, operands touching zero included — exactly the inputs the model
  does not route to the straddling branch: `C02Validity_mul_nostraddle_partial`,
  `oneSign_of_not_straddles`), `C02Validity_div_onesign_partial` (one-signed dividend, zero-free
  divisor); `C02Validity_mul_pos_partial` is kept as the positive instance;
* tightness of BOTH bounds: `C02Tight_add_partial`, `C02Tight_sub_partial` (full instances
  `C02Tight .add`, `C02Tight .sub`), `C02Tight_mul_onesign_partial`, `C02Tight_div_onesign_partial`,
  and with the bounding selections named explicitly `add_f_tight`, `sub_f_tight`,
  `mul_f_pos_tight` (anti-diagonal couplings);
* totality and well-formedness of the result on these inputs: `add_f_ok`, `sub_f_good`,
  `mul_f_onesign_ok`, `div_f_onesign_ok`; a divisor with a zero bound raises (`div_zero_bound_raises`);
* enclosure of the other dependencies: `C02Encloses_add`, `C02Encloses_sub` (full instances: the
  Frechet result encloses the perfect, the opposite AND the independent result — the latter after the
  constructor condensed its `n²` values, by counting in the `n × n` grid), and for the product of
  non-negative operands / the quotient of a non-negative dividend by a positive divisor
  `C02Encloses_mul_nonneg_po_partial`, `C02Encloses_mul_nonneg_i_partial`,
  `C02Encloses_div_pos_po_partial`, `C02Encloses_div_pos_i_partial`;
* the two `sort` calls of `frechet_op` are identities.

Missing (correspondence + oracle only): the product / quotient with a zero-straddling operand
(naive ∩ Balch, `straddleFrechet`) — validity, tightness and enclosure; enclosure of p/o/i for
products / quotients with a non-positive operand (the four-corner rule then pairs a left with a right
bound); couplings that are not permutations (Birkhoff mixture argument, cited).
-/
set_option linter.unusedSimpArgs false
set_option linter.unusedVariables false
namespace Pun.PBox
open Pun Finset

/-- **C02 validity, sum.** `X + Y` under Frechet: for every selection from each operand and every
coupling, the outcomes `x m + y (σ m)` have at most `i` values below `left[i]` and at most `n-1-i`
above `right[i]`. -/
theorem frechet_add_valid (n : Nat) (X Y : PB) (hX : WFS n X) (hY : WFS n Y)
    (x y : Fin n → Rat) (hx : Sel n X hX x) (hy : Sel n Y hY y) (σ : Equiv.Perm (Fin n)) (i : Fin n)
    (l r : Rat) (hl : (frechetOp (· + ·) X Y).1[i.val]? = some l)
    (hr : (frechetOp (· + ·) X Y).2[i.val]? = some r) :
    (univ.filter (fun m : Fin n => x m + y (σ m) < l)).card ≤ i.val ∧
    (univ.filter (fun m : Fin n => r < x m + y (σ m))).card ≤ n - 1 - i.val := by
  rw [frechetOp_eq_raw (· + ·) add_mono2 X Y (by rw [hX.llen, hY.llen]) (by rw [hX.rlen, hY.rlen])
    hY.lsorted hX.rsorted] at hl hr
  exact ⟨frechetLeft_valid (· + ·) add_mono2 X.left Y.left n hX.llen hY.llen hX.lsorted hY.lsorted x y
      (fun m => (hx m).1) (fun m => (hy m).1) σ i l hl,
    frechetRight_valid (· + ·) add_mono2 X.right Y.right n hX.rlen hY.rlen hX.rsorted hY.rsorted x y
      (fun m => (hx m).2) (fun m => (hy m).2) σ i r hr⟩

/-- **C02 tightness, sum (left bound).** There is a coupling of the left-bounding selections under
which the `i`-th smallest outcome is exactly `left[i]`. -/
theorem frechet_add_tight_left (n : Nat) (X Y : PB) (hX : WFS n X) (hY : WFS n Y) (i : Fin n)
    (l : Rat) (hl : (frechetOp (· + ·) X Y).1[i.val]? = some l) :
    ∃ σ : Equiv.Perm (Fin n),
      (univ.filter (fun m : Fin n =>
        X.left[m.val]'(by have := hX.llen; omega) + Y.left[(σ m).val]'(by have := hY.llen; omega) < l)).card ≤ i.val ∧
      i.val + 1 ≤ (univ.filter (fun m : Fin n =>
        X.left[m.val]'(by have := hX.llen; omega) + Y.left[(σ m).val]'(by have := hY.llen; omega) ≤ l)).card := by
  rw [frechetOp_eq_raw (· + ·) add_mono2 X Y (by rw [hX.llen, hY.llen]) (by rw [hX.rlen, hY.rlen])
    hY.lsorted hX.rsorted] at hl
  exact frechetLeft_tight (· + ·) add_mono2 X.left Y.left n hX.llen hY.llen hX.lsorted hY.lsorted i l hl

/-- **C02 tightness, sum (right bound).** -/
theorem frechet_add_tight_right (n : Nat) (X Y : PB) (hX : WFS n X) (hY : WFS n Y) (i : Fin n)
    (r : Rat) (hr : (frechetOp (· + ·) X Y).2[i.val]? = some r) :
    ∃ σ : Equiv.Perm (Fin n),
      (univ.filter (fun m : Fin n =>
        r < X.right[m.val]'(by have := hX.rlen; omega) + Y.right[(σ m).val]'(by have := hY.rlen; omega))).card ≤ n - 1 - i.val ∧
      n - i.val ≤ (univ.filter (fun m : Fin n =>
        r ≤ X.right[m.val]'(by have := hX.rlen; omega) + Y.right[(σ m).val]'(by have := hY.rlen; omega))).card := by
  rw [frechetOp_eq_raw (· + ·) add_mono2 X Y (by rw [hX.llen, hY.llen]) (by rw [hX.rlen, hY.rlen])
    hY.lsorted hX.rsorted] at hr
  exact frechetRight_tight (· + ·) add_mono2 X.right Y.right n hX.rlen hY.rlen hX.rsorted hY.rsorted i r hr

/-- **C02 validity, product of non-negative operands.** -/
theorem frechet_mul_pos_valid (n : Nat) (X Y : PB) (hX : WFS n X) (hY : WFS n Y)
    (pX : NonNeg X) (pY : NonNeg Y)
    (x y : Fin n → Rat) (hx : Sel n X hX x) (hy : Sel n Y hY y) (σ : Equiv.Perm (Fin n)) (i : Fin n)
    (l r : Rat) (hl : (frechetOp (· * ·) X Y).1[i.val]? = some l)
    (hr : (frechetOp (· * ·) X Y).2[i.val]? = some r) :
    (univ.filter (fun m : Fin n => x m * y (σ m) < l)).card ≤ i.val ∧
    (univ.filter (fun m : Fin n => r < x m * y (σ m))).card ≤ n - 1 - i.val := by
  rw [frechetOp_mul_eq X Y pX pY,
    frechetOp_eq_raw mulPos mulPos_mono2 X Y (by rw [hX.llen, hY.llen]) (by rw [hX.rlen, hY.rlen])
    hY.lsorted hX.rsorted] at hl hr
  have hxpos : ∀ m, 0 ≤ x m := fun m =>
    le_trans (pX.1 _ (List.getElem_mem _)) (hx m).1
  have hypos : ∀ m, 0 ≤ y m := fun m =>
    le_trans (pY.1 _ (List.getElem_mem _)) (hy m).1
  have e : ∀ m, x m * y (σ m) = mulPos (x m) (y (σ m)) := fun m =>
    (mulPos_eq _ _ (hxpos m) (hypos _)).symm
  simp only [e]
  exact ⟨frechetLeft_valid mulPos mulPos_mono2 X.left Y.left n hX.llen hY.llen hX.lsorted hY.lsorted x y
      (fun m => (hx m).1) (fun m => (hy m).1) σ i l hl,
    frechetRight_valid mulPos mulPos_mono2 X.right Y.right n hX.rlen hY.rlen hX.rsorted hY.rsorted x y
      (fun m => (hx m).2) (fun m => (hy m).2) σ i r hr⟩

/-- **C02 tightness, product of non-negative operands (left bound).** -/
theorem frechet_mul_pos_tight_left (n : Nat) (X Y : PB) (hX : WFS n X) (hY : WFS n Y)
    (pX : NonNeg X) (pY : NonNeg Y) (i : Fin n)
    (l : Rat) (hl : (frechetOp (· * ·) X Y).1[i.val]? = some l) :
    ∃ σ : Equiv.Perm (Fin n),
      (univ.filter (fun m : Fin n =>
        X.left[m.val]'(by have := hX.llen; omega) * Y.left[(σ m).val]'(by have := hY.llen; omega) < l)).card ≤ i.val ∧
      i.val + 1 ≤ (univ.filter (fun m : Fin n =>
        X.left[m.val]'(by have := hX.llen; omega) * Y.left[(σ m).val]'(by have := hY.llen; omega) ≤ l)).card := by
  rw [frechetOp_mul_eq X Y pX pY,
    frechetOp_eq_raw mulPos mulPos_mono2 X Y (by rw [hX.llen, hY.llen]) (by rw [hX.rlen, hY.rlen])
    hY.lsorted hX.rsorted] at hl
  have key := frechetLeft_tight mulPos mulPos_mono2 X.left Y.left n hX.llen hY.llen hX.lsorted hY.lsorted i l hl
  obtain ⟨σ, h1, h2⟩ := key
  refine ⟨σ, ?_, ?_⟩
  · have e : ∀ m : Fin n, X.left[m.val]'(by have := hX.llen; omega) * Y.left[(σ m).val]'(by have := hY.llen; omega) =
        mulPos (X.left[m.val]'(by have := hX.llen; omega)) (Y.left[(σ m).val]'(by have := hY.llen; omega)) := fun m =>
      (mulPos_eq _ _ (pX.1 _ (List.getElem_mem _)) (pY.1 _ (List.getElem_mem _))).symm
    simp only [e]; exact h1
  · have e : ∀ m : Fin n, X.left[m.val]'(by have := hX.llen; omega) * Y.left[(σ m).val]'(by have := hY.llen; omega) =
        mulPos (X.left[m.val]'(by have := hX.llen; omega)) (Y.left[(σ m).val]'(by have := hY.llen; omega)) := fun m =>
      (mulPos_eq _ _ (pX.1 _ (List.getElem_mem _)) (pY.1 _ (List.getElem_mem _))).symm
    simp only [e]; exact h2

/-- the final `sort` calls of `frechet_op` are identities for the sum -/
theorem frechet_add_sorted (n : Nat) (X Y : PB) (hX : WFS n X) (hY : WFS n Y) :
    frechetOp (· + ·) X Y = (frechetLeftRaw (· + ·) X.left Y.left, frechetRightRaw (· + ·) X.right Y.right) :=
  frechetOp_eq_raw (· + ·) add_mono2 X Y (by rw [hX.llen, hY.llen]) (by rw [hX.rlen, hY.rlen])
    hY.lsorted hX.rsorted

/-- **The public method** `X.add(Y, dependency='f')` (and the bare `X + Y` under the default
setting) returns exactly the raw Frechet bounds — the constructor's switch, length normalisation and
monotonicity check all pass — and the result is again well formed. -/
theorem add_f_ok (n : Nat) (X Y : PB) (hX : WF n X) (hY : WF n Y) :
    add n .f X Y = .ok ⟨frechetLeftRaw (· + ·) X.left Y.left, frechetRightRaw (· + ·) X.right Y.right⟩ ∧
    WF n ⟨frechetLeftRaw (· + ·) X.left Y.left, frechetRightRaw (· + ·) X.right Y.right⟩ := by
  have hs := frechet_add_sorted n X Y hX.toWFS hY.toWFS
  have sl := frechetLeftRaw_sorted (· + ·) add_mono2 X.left Y.left (by rw [hX.llen, hY.llen]) hY.lsorted
  have sr := frechetRightRaw_sorted (· + ·) add_mono2 X.right Y.right (by rw [hX.rlen, hY.rlen]) hX.rsorted
  have ll : (frechetLeftRaw (· + ·) X.left Y.left).length = n := by rw [frechetLeftRaw_length, hX.llen]
  have lr : (frechetRightRaw (· + ·) X.right Y.right).length = n := by rw [frechetRightRaw_length, hX.rlen]
  have hle : ∀ i (h : i < n), (frechetLeftRaw (· + ·) X.left Y.left)[i]'(by omega) ≤
      (frechetRightRaw (· + ·) X.right Y.right)[i]'(by omega) := fun i h =>
    frechetRaw_le (· + ·) add_mono2 X.left X.right Y.left Y.right n hX.llen hX.rlen hY.llen hY.rlen
      hX.rsorted hY.rsorted hX.le hY.le i h
  refine ⟨?_, ⟨⟨ll, lr, sl, sr⟩, hle⟩⟩
  unfold add
  simp only [hs]
  exact mk_arr_ok n _ _ ll lr sl sr (fun i h => hle i (by omega))

/-- **Full statement of C02 (validity part) for the public methods**, all four operations and all
sign configurations.  Proved below for `add` and `sub` (`C02Validity_add_partial`,
`C02Validity_sub_partial`: full instances) and, through negation / reciprocal / sign routing, for
`mul` and `div` on operands that do not straddle zero (`C02Validity_mul_onesign_partial`,
`C02Validity_div_onesign_partial`); a zero-straddling operand of `mul` / `div` (naive ∩ Balch) is
covered by the correspondence and the coupling oracle only. -/
def C02Validity (o : Op) : Prop :=
  ∀ (n : Nat) (X Y R : PB) (hX : WF n X) (hY : WF n Y), (o = .div → ZeroFree Y) →
    binop n o .f X Y = .ok R →
    ∀ (x y : Fin n → Rat), Sel n X hX.toWFS x → Sel n Y hY.toWFS y →
    ∀ (σ : Equiv.Perm (Fin n)) (i : Fin n) (l r : Rat), R.left[i.val]? = some l → R.right[i.val]? = some r →
      (univ.filter (fun m : Fin n => o.ap (x m) (y (σ m)) < l)).card ≤ i.val ∧
      (univ.filter (fun m : Fin n => r < o.ap (x m) (y (σ m)))).card ≤ n - 1 - i.val

/-- C02 validity for the public `add` / bare `+`: the `add` instance of `C02Validity` ("partial" with
respect to the four operations: `sub` is `C02Validity_sub_partial`, `mul` / `div` are proved for
operands that do not straddle zero). -/
theorem C02Validity_add_partial : C02Validity .add := by
  intro n X Y R hX hY _ hR x y hx hy σ i l r hl hr
  have h := (add_f_ok n X Y hX hY).1
  simp only [binop] at hR
  rw [h] at hR
  have hRe : R = ⟨frechetLeftRaw (· + ·) X.left Y.left, frechetRightRaw (· + ·) X.right Y.right⟩ :=
    (Except.ok.inj hR).symm
  subst hRe
  have hs := frechet_add_sorted n X Y hX.toWFS hY.toWFS
  exact frechet_add_valid n X Y hX.toWFS hY.toWFS x y hx hy σ i l r (by rw [hs]; exact hl) (by rw [hs]; exact hr)

/-- the public product of two non-negative, not identically zero p-boxes under Frechet returns the raw
rule for the clamped (monotone) product, and the result is well formed -/
theorem mul_f_pos_ok (n : Nat) (X Y : PB) (hX : WF n X) (hY : WF n Y) (pX : NonNeg X) (pY : NonNeg Y)
    (hxh : 0 < hi X) (hyh : 0 < hi Y) :
    mul n .f X Y = .ok ⟨frechetLeftRaw mulPos X.left Y.left, frechetRightRaw mulPos X.right Y.right⟩ := by
  have sl := frechetLeftRaw_sorted mulPos mulPos_mono2 X.left Y.left (by rw [hX.llen, hY.llen]) hY.lsorted
  have sr := frechetRightRaw_sorted mulPos mulPos_mono2 X.right Y.right (by rw [hX.rlen, hY.rlen]) hX.rsorted
  have ll : (frechetLeftRaw mulPos X.left Y.left).length = n := by rw [frechetLeftRaw_length, hX.llen]
  have lr : (frechetRightRaw mulPos X.right Y.right).length = n := by rw [frechetRightRaw_length, hX.rlen]
  have hle : ∀ i (h : i < n), (frechetLeftRaw mulPos X.left Y.left)[i]'(by omega) ≤
      (frechetRightRaw mulPos X.right Y.right)[i]'(by omega) := fun i h =>
    frechetRaw_le mulPos mulPos_mono2 X.left X.right Y.left Y.right n hX.llen hX.rlen hY.llen hY.rlen
      hX.rsorted hY.rsorted hX.le hY.le i h
  have hop : frechetOp (· * ·) X Y =
      (frechetLeftRaw mulPos X.left Y.left, frechetRightRaw mulPos X.right Y.right) := by
    rw [frechetOp_mul_eq X Y pX pY]
    exact frechetOp_eq_raw mulPos mulPos_mono2 X Y (by rw [hX.llen, hY.llen]) (by rw [hX.rlen, hY.rlen])
      hY.lsorted hX.rsorted
  unfold mul frechetMul frechetMulNoStraddle classicFrechet
  simp only [not_straddles_of_nonneg X pX, not_straddles_of_nonneg Y pY, Bool.or_self, Bool.false_eq_true,
    if_false, not_le.mpr hxh, not_le.mpr hyh, decide_false, hop]
  exact mk_arr_ok n _ _ ll lr sl sr (fun i h => hle i (by omega))

/-- C02 validity for the public `mul` / bare `*` on non-negative, not identically zero operands —
partial: the positive×positive instance of `C02Validity .mul` (all four sign combinations:
`C02Validity_mul_onesign_partial`; zero-straddling operands through naive ∩ Balch: correspondence +
oracle only). -/
theorem C02Validity_mul_pos_partial (n : Nat) (X Y R : PB) (hX : WF n X) (hY : WF n Y)
    (pX : NonNeg X) (pY : NonNeg Y) (hxh : 0 < hi X) (hyh : 0 < hi Y)
    (hR : binop n .mul .f X Y = .ok R)
    (x y : Fin n → Rat) (hx : Sel n X hX.toWFS x) (hy : Sel n Y hY.toWFS y)
    (σ : Equiv.Perm (Fin n)) (i : Fin n) (l r : Rat)
    (hl : R.left[i.val]? = some l) (hr : R.right[i.val]? = some r) :
    (univ.filter (fun m : Fin n => x m * y (σ m) < l)).card ≤ i.val ∧
    (univ.filter (fun m : Fin n => r < x m * y (σ m))).card ≤ n - 1 - i.val := by
  simp only [binop] at hR
  rw [mul_f_pos_ok n X Y hX hY pX pY hxh hyh] at hR
  have hRe := (Except.ok.inj hR).symm
  subst hRe
  have hop : frechetOp (· * ·) X Y =
      (frechetLeftRaw mulPos X.left Y.left, frechetRightRaw mulPos X.right Y.right) := by
    rw [frechetOp_mul_eq X Y pX pY]
    exact frechetOp_eq_raw mulPos mulPos_mono2 X Y (by rw [hX.llen, hY.llen]) (by rw [hX.rlen, hY.rlen])
      hY.lsorted hX.rsorted
  exact frechet_mul_pos_valid n X Y hX.toWFS hY.toWFS pX pY x y hx hy σ i l r
    (by rw [hop]; exact hl) (by rw [hop]; exact hr)

/-! ## tightness and enclosure: full statements -/

/-- **Full statement of C02 (tightness part)**: every entry of either bound of the public Frechet
result is the order statistic of the same rank of the outcomes of SOME selection of one value per step
of each operand under SOME coupling — the bounds cannot be improved. -/
def C02Tight (o : Op) : Prop :=
  ∀ (n : Nat) (X Y R : PB) (hX : WF n X) (hY : WF n Y), (o = .div → ZeroFree Y) →
    binop n o .f X Y = .ok R → ∀ (i : Fin n),
      (∀ l, R.left[i.val]? = some l → ∃ x y : Fin n → Rat, Sel n X hX.toWFS x ∧ Sel n Y hY.toWFS y ∧
        ∃ σ : Equiv.Perm (Fin n), IsRank n (fun m => o.ap (x m) (y (σ m))) i l) ∧
      (∀ r, R.right[i.val]? = some r → ∃ x y : Fin n → Rat, Sel n X hX.toWFS x ∧ Sel n Y hY.toWFS y ∧
        ∃ σ : Equiv.Perm (Fin n), IsRank n (fun m => o.ap (x m) (y (σ m))) i r)

/-- **Full statement of C02 (enclosure part)**: the Frechet result encloses the result of the same
operation under every other dependency, step by step. -/
def C02Encloses (o : Op) : Prop :=
  ∀ (n : Nat) (d : Dep) (X Y F D : PB), WF n X → WF n Y → (o = .div → ZeroFree Y) →
    binop n o .f X Y = .ok F → binop n o d X Y = .ok D → Encloses F D

/-! ## `add` -/

theorem add_f_good (n : Nat) (X Y : PB) (hX : WF n X) (hY : WF n Y) :
    add n .f X Y = .ok (rawF (· + ·) X Y) ∧ WF n (rawF (· + ·) X Y) ∧
    Good n (· + ·) X Y (rawF (· + ·) X Y) hX.toWFS hY.toWFS :=
  good_frechet (· + ·) add_mono2 n X Y hX hY

/-- C02 tightness for the public `add` / bare `+`, both bounds -/
theorem C02Tight_add_partial : C02Tight .add := by
  intro n X Y R hX hY _ hR i
  obtain ⟨e, -, g⟩ := add_f_good n X Y hX hY
  simp only [binop] at hR
  rw [e] at hR
  have hRe := (Except.ok.inj hR).symm
  subst hRe
  exact ⟨fun l hl => g.tightL i l hl, fun r hr => g.tightR i r hr⟩

/-- tightness of `add`, naming the selections: the left bound is attained by the two left bounds, the
right bound by the two right bounds, under the anti-diagonal couplings -/
theorem add_f_tight (n : Nat) (X Y R : PB) (hX : WF n X) (hY : WF n Y)
    (hR : binop n .add .f X Y = .ok R) (i : Fin n) :
    (∀ l, R.left[i.val]? = some l → ∃ σ : Equiv.Perm (Fin n),
      IsRank n (fun m => X.left[m.val]'(by have := hX.llen; omega) +
        Y.left[(σ m).val]'(by have := hY.llen; omega)) i l) ∧
    (∀ r, R.right[i.val]? = some r → ∃ σ : Equiv.Perm (Fin n),
      IsRank n (fun m => X.right[m.val]'(by have := hX.rlen; omega) +
        Y.right[(σ m).val]'(by have := hY.rlen; omega)) i r) := by
  obtain ⟨e, -, -⟩ := add_f_good n X Y hX hY
  simp only [binop] at hR
  rw [e] at hR
  have hRe := (Except.ok.inj hR).symm
  subst hRe
  exact frechet_tight_explicit (· + ·) add_mono2 n X Y hX hY i

/-! ## `sub` : Frechet addition of the negated operand -/

theorem sub_f_good (n : Nat) (X Y : PB) (hX : WF n X) (hY : WF n Y) :
    sub n .f X Y = .ok (rawF (· + ·) X (negB Y)) ∧ WF n (rawF (· + ·) X (negB Y)) ∧
    Good n (· - ·) X Y (rawF (· + ·) X (negB Y)) hX.toWFS hY.toWFS := by
  obtain ⟨en, wn⟩ := neg_wf n Y hY
  obtain ⟨e, w, g⟩ := add_f_good n X (negB Y) hX wn
  refine ⟨?_, w, ?_⟩
  · simp only [sub, en, swapPO, bind, Except.bind]
    exact e
  · exact (g.flipY _ _ antiInv_neg hY.toWFS (inS_true Y) wn.toWFS).congr
      (fun a b => (sub_eq_add_neg a b).symm)

/-- C02 validity for the public `sub` / bare `-`: subtraction is Frechet addition of the negated
operand, and negation mirrors selections and couplings (`y ↦ -y ∘ rev`, `σ ↦ rev ∘ σ`). -/
theorem C02Validity_sub_partial : C02Validity .sub := by
  intro n X Y R hX hY _ hR x y hx hy σ i l r hl hr
  obtain ⟨e, -, g⟩ := sub_f_good n X Y hX hY
  simp only [binop] at hR
  rw [e] at hR
  have hRe := (Except.ok.inj hR).symm
  subst hRe
  exact g.valid x y hx hy σ i l r hl hr

/-- C02 tightness for the public `sub` / bare `-`, both bounds -/
theorem C02Tight_sub_partial : C02Tight .sub := by
  intro n X Y R hX hY _ hR i
  obtain ⟨e, -, g⟩ := sub_f_good n X Y hX hY
  simp only [binop] at hR
  rw [e] at hR
  have hRe := (Except.ok.inj hR).symm
  subst hRe
  exact ⟨fun l hl => g.tightL i l hl, fun r hr => g.tightR i r hr⟩

/-- tightness of `sub`, naming the selections: the left bound of `X - Y` is attained by `X.left` against
`Y.right`, the right bound by `X.right` against `Y.left` -/
theorem sub_f_tight (n : Nat) (X Y R : PB) (hX : WF n X) (hY : WF n Y)
    (hR : binop n .sub .f X Y = .ok R) (i : Fin n) :
    (∀ l, R.left[i.val]? = some l → ∃ σ : Equiv.Perm (Fin n),
      IsRank n (fun m => X.left[m.val]'(by have := hX.llen; omega) -
        Y.right[(σ m).val]'(by have := hY.rlen; omega)) i l) ∧
    (∀ r, R.right[i.val]? = some r → ∃ σ : Equiv.Perm (Fin n),
      IsRank n (fun m => X.right[m.val]'(by have := hX.rlen; omega) -
        Y.left[(σ m).val]'(by have := hY.llen; omega)) i r) := by
  obtain ⟨e, -, -⟩ := sub_f_good n X Y hX hY
  obtain ⟨-, wn⟩ := neg_wf n Y hY
  simp only [binop] at hR
  rw [e] at hR
  have hRe := (Except.ok.inj hR).symm
  subst hRe
  obtain ⟨t1, t2⟩ := frechet_tight_explicit (· + ·) add_mono2 n X (negB Y) hX wn i
  have hl := hY.llen; have hr := hY.rlen
  constructor
  · intro l hl'
    obtain ⟨σ, h⟩ := t1 l hl'
    refine ⟨σ.trans Fin.revPerm, ?_⟩
    have e : (fun m : Fin n => X.left[m.val]'(by have := hX.llen; omega) -
        Y.right[((σ.trans Fin.revPerm) m).val]'(by omega)) =
        (fun m : Fin n => X.left[m.val]'(by have := hX.llen; omega) +
          (negB Y).left[(σ m).val]'(by have := wn.llen; omega)) := by
      funext m
      have hs := (σ m).isLt
      simp only [negB, flipB, List.getElem_map, List.getElem_reverse, Equiv.trans_apply, Fin.revPerm_apply,
        Fin.val_rev, sub_eq_add_neg]
      congr 3
      omega
    rw [e]; exact h
  · intro r hr'
    obtain ⟨σ, h⟩ := t2 r hr'
    refine ⟨σ.trans Fin.revPerm, ?_⟩
    have e : (fun m : Fin n => X.right[m.val]'(by have := hX.rlen; omega) -
        Y.left[((σ.trans Fin.revPerm) m).val]'(by omega)) =
        (fun m : Fin n => X.right[m.val]'(by have := hX.rlen; omega) +
          (negB Y).right[(σ m).val]'(by have := wn.rlen; omega)) := by
      funext m
      have hs := (σ m).isLt
      simp only [negB, flipB, List.getElem_map, List.getElem_reverse, Equiv.trans_apply, Fin.revPerm_apply,
        Fin.val_rev, sub_eq_add_neg]
      congr 3
      omega
    rw [e]; exact h

/-! ## `mul` on operands of one sign each (sign routing through `negativeFrechet`) -/

/-- the public product of operands of one sign each returns a well-formed p-box -/
theorem mul_f_onesign_ok (n : Nat) (X Y : PB) (hX : WF n X) (hY : WF n Y) (sX : OneSign X) (sY : OneSign Y) :
    ∃ R, binop n .mul .f X Y = .ok R ∧ WF n R := by
  obtain ⟨R, e, w, -⟩ := mul_f_onesign_good n X Y hX hY sX sY
  exact ⟨R, e, w⟩

/-- **C02 validity for the public `mul` / bare `*` on operands of ONE sign each** — all four sign
combinations, operands that touch zero from either side included — through the model's
`negativeFrechet` routing (negation mirrors selections `x ↦ −x∘rev` and couplings, and mirrors the
result).  Partial: what remains missing of `C02Validity .mul` is a zero-straddling operand
(naive ∩ Balch). -/
theorem C02Validity_mul_onesign_partial (n : Nat) (X Y R : PB) (hX : WF n X) (hY : WF n Y)
    (sX : OneSign X) (sY : OneSign Y) (hR : binop n .mul .f X Y = .ok R)
    (x y : Fin n → Rat) (hx : Sel n X hX.toWFS x) (hy : Sel n Y hY.toWFS y)
    (σ : Equiv.Perm (Fin n)) (i : Fin n) (l r : Rat)
    (hl : R.left[i.val]? = some l) (hr : R.right[i.val]? = some r) :
    (univ.filter (fun m : Fin n => x m * y (σ m) < l)).card ≤ i.val ∧
    (univ.filter (fun m : Fin n => r < x m * y (σ m))).card ≤ n - 1 - i.val := by
  obtain ⟨R', e, -, g⟩ := mul_f_onesign_good n X Y hX hY sX sY
  simp only [binop] at hR
  rw [e] at hR
  have hRe := (Except.ok.inj hR).symm
  subst hRe
  exact g.valid x y hx hy σ i l r hl hr

/-- the same with the model's own routing test as hypothesis: neither operand straddles zero -/
theorem C02Validity_mul_nostraddle_partial (n : Nat) (X Y R : PB) (hX : WF n X) (hY : WF n Y)
    (sX : straddlesZero X = false) (sY : straddlesZero Y = false) (hR : binop n .mul .f X Y = .ok R)
    (x y : Fin n → Rat) (hx : Sel n X hX.toWFS x) (hy : Sel n Y hY.toWFS y)
    (σ : Equiv.Perm (Fin n)) (i : Fin n) (l r : Rat)
    (hl : R.left[i.val]? = some l) (hr : R.right[i.val]? = some r) :
    (univ.filter (fun m : Fin n => x m * y (σ m) < l)).card ≤ i.val ∧
    (univ.filter (fun m : Fin n => r < x m * y (σ m))).card ≤ n - 1 - i.val :=
  C02Validity_mul_onesign_partial n X Y R hX hY (oneSign_of_not_straddles n X hX sX)
    (oneSign_of_not_straddles n Y hY sY) hR x y hx hy σ i l r hl hr

/-- C02 tightness for the public `mul` on operands of one sign each, both bounds (partial: missing a
zero-straddling operand) -/
theorem C02Tight_mul_onesign_partial (n : Nat) (X Y R : PB) (hX : WF n X) (hY : WF n Y)
    (sX : OneSign X) (sY : OneSign Y) (hR : binop n .mul .f X Y = .ok R) (i : Fin n) :
    (∀ l, R.left[i.val]? = some l → ∃ x y : Fin n → Rat, Sel n X hX.toWFS x ∧ Sel n Y hY.toWFS y ∧
      ∃ σ : Equiv.Perm (Fin n), IsRank n (fun m => x m * y (σ m)) i l) ∧
    (∀ r, R.right[i.val]? = some r → ∃ x y : Fin n → Rat, Sel n X hX.toWFS x ∧ Sel n Y hY.toWFS y ∧
      ∃ σ : Equiv.Perm (Fin n), IsRank n (fun m => x m * y (σ m)) i r) := by
  obtain ⟨R', e, -, g⟩ := mul_f_onesign_good n X Y hX hY sX sY
  simp only [binop] at hR
  rw [e] at hR
  have hRe := (Except.ok.inj hR).symm
  subst hRe
  exact ⟨fun l hl => g.tightL i l hl, fun r hr => g.tightR i r hr⟩

/-- tightness of the product of non-negative, not identically zero operands, naming the selections:
left bounds against left bounds, right bounds against right bounds, anti-diagonal couplings -/
theorem mul_f_pos_tight (n : Nat) (X Y R : PB) (hX : WF n X) (hY : WF n Y) (pX : NonNeg X) (pY : NonNeg Y)
    (hxh : 0 < hi X) (hyh : 0 < hi Y) (hR : binop n .mul .f X Y = .ok R) (i : Fin n) :
    (∀ l, R.left[i.val]? = some l → ∃ σ : Equiv.Perm (Fin n),
      IsRank n (fun m => X.left[m.val]'(by have := hX.llen; omega) *
        Y.left[(σ m).val]'(by have := hY.llen; omega)) i l) ∧
    (∀ r, R.right[i.val]? = some r → ∃ σ : Equiv.Perm (Fin n),
      IsRank n (fun m => X.right[m.val]'(by have := hX.rlen; omega) *
        Y.right[(σ m).val]'(by have := hY.rlen; omega)) i r) := by
  simp only [binop] at hR
  rw [mul_f_pos_ok n X Y hX hY pX pY hxh hyh] at hR
  have hRe := (Except.ok.inj hR).symm
  subst hRe
  obtain ⟨t1, t2⟩ := frechet_tight_explicit mulPos mulPos_mono2 n X Y hX hY i
  constructor
  · intro l hl
    obtain ⟨σ, h⟩ := t1 l hl
    refine ⟨σ, ?_⟩
    have e : ∀ m : Fin n, X.left[m.val]'(by have := hX.llen; omega) * Y.left[(σ m).val]'(by have := hY.llen; omega) =
        mulPos (X.left[m.val]'(by have := hX.llen; omega)) (Y.left[(σ m).val]'(by have := hY.llen; omega)) := fun m =>
      (mulPos_eq _ _ (pX.1 _ (List.getElem_mem _)) (pY.1 _ (List.getElem_mem _))).symm
    simp only [e]; exact h
  · intro r hr
    obtain ⟨σ, h⟩ := t2 r hr
    refine ⟨σ, ?_⟩
    have e : ∀ m : Fin n, X.right[m.val]'(by have := hX.rlen; omega) * Y.right[(σ m).val]'(by have := hY.rlen; omega) =
        mulPos (X.right[m.val]'(by have := hX.rlen; omega)) (Y.right[(σ m).val]'(by have := hY.rlen; omega)) := fun m =>
      (mulPos_eq _ _ (pX.2 _ (List.getElem_mem _)) (pY.2 _ (List.getElem_mem _))).symm
    simp only [e]; exact h

/-! ## `div` : Frechet product with the reciprocal -/

/-- the public quotient of a one-signed dividend by a zero-free divisor returns a well-formed p-box -/
theorem div_f_onesign_ok (n : Nat) (X Y : PB) (hX : WF n X) (hY : WF n Y) (sX : OneSign X) (z : ZeroFree Y) :
    ∃ R, binop n .div .f X Y = .ok R ∧ WF n R := by
  obtain ⟨R, e, w, -⟩ := div_f_onesign_good n X Y hX hY sX z
  exact ⟨R, e, w⟩

/-- **C02 validity for the public `div` / bare `/`** with a dividend of one sign and a zero-free
(hence one-signed) divisor: `x / y = x * (1/y)`, the reciprocal mirrors selections `y ↦ (1/y)∘rev`
and couplings `σ ↦ rev∘σ`.  Partial: missing a zero-straddling dividend. -/
theorem C02Validity_div_onesign_partial (n : Nat) (X Y R : PB) (hX : WF n X) (hY : WF n Y)
    (sX : OneSign X) (z : ZeroFree Y) (hR : binop n .div .f X Y = .ok R)
    (x y : Fin n → Rat) (hx : Sel n X hX.toWFS x) (hy : Sel n Y hY.toWFS y)
    (σ : Equiv.Perm (Fin n)) (i : Fin n) (l r : Rat)
    (hl : R.left[i.val]? = some l) (hr : R.right[i.val]? = some r) :
    (univ.filter (fun m : Fin n => x m / y (σ m) < l)).card ≤ i.val ∧
    (univ.filter (fun m : Fin n => r < x m / y (σ m))).card ≤ n - 1 - i.val := by
  obtain ⟨R', e, -, g⟩ := div_f_onesign_good n X Y hX hY sX z
  simp only [binop] at hR
  rw [e] at hR
  have hRe := (Except.ok.inj hR).symm
  subst hRe
  exact g.valid x y hx hy σ i l r hl hr

/-- C02 tightness for the public `div`, both bounds (partial: missing a zero-straddling dividend) -/
theorem C02Tight_div_onesign_partial (n : Nat) (X Y R : PB) (hX : WF n X) (hY : WF n Y)
    (sX : OneSign X) (z : ZeroFree Y) (hR : binop n .div .f X Y = .ok R) (i : Fin n) :
    (∀ l, R.left[i.val]? = some l → ∃ x y : Fin n → Rat, Sel n X hX.toWFS x ∧ Sel n Y hY.toWFS y ∧
      ∃ σ : Equiv.Perm (Fin n), IsRank n (fun m => x m / y (σ m)) i l) ∧
    (∀ r, R.right[i.val]? = some r → ∃ x y : Fin n → Rat, Sel n X hX.toWFS x ∧ Sel n Y hY.toWFS y ∧
      ∃ σ : Equiv.Perm (Fin n), IsRank n (fun m => x m / y (σ m)) i r) := by
  obtain ⟨R', e, -, g⟩ := div_f_onesign_good n X Y hX hY sX z
  simp only [binop] at hR
  rw [e] at hR
  have hRe := (Except.ok.inj hR).symm
  subst hRe
  exact ⟨fun l hl => g.tightL i l hl, fun r hr => g.tightR i r hr⟩

/-- a divisor with a zero bound is rejected (`TypeError` from the reflected division) -/
theorem div_zero_bound_raises (n : Nat) (d : Dep) (X Y : PB) (h : (0 : Rat) ∈ Y.left ∨ (0 : Rat) ∈ Y.right) :
    binop n .div d X Y = .error .Type := by
  simp only [binop, div, recip_zero_raises n Y h, bind, Except.bind]

/-! ## Frechet encloses the perfect and the opposite result -/

/-- C02 enclosure, `add` against `'p'` and `'o'` (partial: `'i'` is `C02Encloses_add_i_partial`) -/
theorem C02Encloses_add_po_partial (n : Nat) (d : Dep) (hd : d = .p ∨ d = .o) (X Y F D : PB)
    (hX : WF n X) (hY : WF n Y) (hF : binop n .add .f X Y = .ok F) (hD : binop n .add d X Y = .ok D) :
    Encloses F D := by
  obtain ⟨e, w, g⟩ := add_f_good n X Y hX hY
  simp only [binop] at hF hD
  rw [e] at hF
  have hFe := (Except.ok.inj hF).symm
  subst hFe
  rcases hd with rfl | rfl
  · obtain ⟨e1, e2, -⟩ := perfectOp_mono (· + ·) add_mono2 n X Y hX hY
    simp only [add, e1, e2] at hD
    have hDe := (Except.ok.inj hD).symm
    subst hDe
    exact good_encloses_perfect (· + ·) n X Y _ hX hY ⟨w.llen, w.rlen⟩ g
  · obtain ⟨e1, e2, -⟩ := oppositeOp_mono (· + ·) add_mono2 n X Y hX hY
    simp only [add, e1, e2] at hD
    have hDe := (Except.ok.inj hD).symm
    subst hDe
    exact good_encloses_opposite (· + ·) n X Y _ hX hY ⟨w.llen, w.rlen⟩ g

/-- C02 enclosure, `sub` against `'p'` and `'o'`: `X.sub(Y, d) = X.add(-Y, swapped d)` -/
theorem C02Encloses_sub_po_partial (n : Nat) (d : Dep) (hd : d = .p ∨ d = .o) (X Y F D : PB)
    (hX : WF n X) (hY : WF n Y) (hF : binop n .sub .f X Y = .ok F) (hD : binop n .sub d X Y = .ok D) :
    Encloses F D := by
  obtain ⟨en, wn⟩ := neg_wf n Y hY
  simp only [binop, sub, en, bind, Except.bind] at hF hD
  simp only [swapPO] at hF
  refine C02Encloses_add_po_partial n (swapPO d) ?_ X (negB Y) F D hX wn (by simpa [binop] using hF)
    (by simpa [binop] using hD)
  rcases hd with rfl | rfl
  · right; rfl
  · left; rfl

/-- C02 enclosure, `mul` of non-negative operands against `'p'` and `'o'` -/
theorem C02Encloses_mul_nonneg_po_partial (n : Nat) (d : Dep) (hd : d = .p ∨ d = .o) (X Y F D : PB)
    (hX : WF n X) (hY : WF n Y) (pX : NonNeg X) (pY : NonNeg Y)
    (hF : binop n .mul .f X Y = .ok F) (hD : binop n .mul d X Y = .ok D) :
    Encloses F D := by
  obtain ⟨F', e, w, g⟩ := mul_f_onesign_good n X Y hX hY (Or.inl pX) (Or.inl pY)
  simp only [binop] at hF hD
  rw [e] at hF
  have hFe := (Except.ok.inj hF).symm
  subst hFe
  rcases hd with rfl | rfl
  · obtain ⟨e1, e2, -⟩ := perfectOp_mono mulPos mulPos_mono2 n X Y hX hY
    simp only [mul, perfectOp_mul_eq X Y pX pY, e1, e2] at hD
    have hDe := (Except.ok.inj hD).symm
    subst hDe
    rw [perfF_mul_eq X Y pX pY]
    exact good_encloses_perfect (· * ·) n X Y _ hX hY ⟨w.llen, w.rlen⟩ g
  · obtain ⟨e1, e2, -⟩ := oppositeOp_mono mulPos mulPos_mono2 n X Y hX hY
    simp only [mul, oppositeOp_mul_eq X Y pX pY, e1, e2] at hD
    have hDe := (Except.ok.inj hD).symm
    subst hDe
    rw [oppF_mul_eq X Y pX pY]
    exact good_encloses_opposite (· * ·) n X Y _ hX hY ⟨w.llen, w.rlen⟩ g

/-- C02 enclosure, `div` of a non-negative dividend by a positive divisor against `'p'` and `'o'` -/
theorem C02Encloses_div_pos_po_partial (n : Nat) (d : Dep) (hd : d = .p ∨ d = .o) (X Y F D : PB)
    (hX : WF n X) (hY : WF n Y) (pX : NonNeg X) (pY : ∀ v ∈ Y.left, 0 < v)
    (hF : binop n .div .f X Y = .ok F) (hD : binop n .div d X Y = .ok D) :
    Encloses F D := by
  have z : ZeroFree Y := Or.inl pY
  obtain ⟨-, w, -, -⟩ := recip_ok n Y hY z
  have hS : InS (fun v => 0 < v) Y := by
    refine ⟨pY, ?_⟩
    intro v hv
    obtain ⟨i, hi', rfl⟩ := List.getElem_of_mem hv
    have hl := hY.llen; have hr := hY.rlen
    exact lt_of_lt_of_le (pY _ (List.getElem_mem _)) (hY.le i (by omega))
  obtain ⟨-, hS'⟩ := flipB_wf _ _ antiInv_recip_pos n Y hY hS
  have pR : NonNeg (recipB Y) := ⟨fun v hv => le_of_lt (hS'.1 v hv), fun v hv => le_of_lt (hS'.2 v hv)⟩
  simp only [binop, div_eq_mul_recip n _ X Y hY z] at hF hD
  simp only [swapPO] at hF
  refine C02Encloses_mul_nonneg_po_partial n (swapPO d) ?_ X (recipB Y) F D hX w pX pR
    (by simpa [binop] using hF) (by simpa [binop] using hD)
  rcases hd with rfl | rfl
  · right; rfl
  · left; rfl

/-! ## Frechet encloses the independent result (after condensation of its `n²` values) -/

/-- C02 enclosure, `add` against `'i'` -/
theorem C02Encloses_add_i_partial (n : Nat) (X Y F D : PB) (hX : WF n X) (hY : WF n Y)
    (hF : binop n .add .f X Y = .ok F) (hD : binop n .add .i X Y = .ok D) : Encloses F D := by
  obtain ⟨e, -, -⟩ := add_f_good n X Y hX hY
  simp only [binop] at hF hD
  rw [e] at hF
  have hFe := (Except.ok.inj hF).symm
  subst hFe
  obtain ⟨D', e', -, enc⟩ := frechet_encloses_independent (· + ·) add_mono2 n X Y hX hY
  have hD' : add n .i X Y = mk n false (independentOp (· + ·) X Y).1 (independentOp (· + ·) X Y).2 := rfl
  rw [hD', e'] at hD
  have hDe := (Except.ok.inj hD).symm
  subst hDe
  exact enc

/-- C02 enclosure, `sub` against `'i'` (`X.sub(Y,'i') = X.add(-Y,'i')`) -/
theorem C02Encloses_sub_i_partial (n : Nat) (X Y F D : PB) (hX : WF n X) (hY : WF n Y)
    (hF : binop n .sub .f X Y = .ok F) (hD : binop n .sub .i X Y = .ok D) : Encloses F D := by
  obtain ⟨en, wn⟩ := neg_wf n Y hY
  simp only [binop, sub, en, bind, Except.bind, swapPO] at hF hD
  exact C02Encloses_add_i_partial n X (negB Y) F D hX wn (by simpa [binop] using hF) (by simpa [binop] using hD)

/-- C02 enclosure, `mul` of non-negative, not identically zero operands against `'i'` -/
theorem C02Encloses_mul_nonneg_i_partial (n : Nat) (X Y F D : PB) (hX : WF n X) (hY : WF n Y)
    (pX : NonNeg X) (pY : NonNeg Y) (hxh : 0 < hi X) (hyh : 0 < hi Y)
    (hF : binop n .mul .f X Y = .ok F) (hD : binop n .mul .i X Y = .ok D) : Encloses F D := by
  simp only [binop] at hF hD
  rw [mul_f_pos_ok n X Y hX hY pX pY hxh hyh] at hF
  have hFe := (Except.ok.inj hF).symm
  subst hFe
  obtain ⟨D', e', -, enc⟩ := frechet_encloses_independent mulPos mulPos_mono2 n X Y hX hY
  have hD' : mul n .i X Y = mk n false (independentOp (· * ·) X Y).1 (independentOp (· * ·) X Y).2 := rfl
  rw [hD', independentOp_mul_eq X Y pX pY, e'] at hD
  have hDe := (Except.ok.inj hD).symm
  subst hDe
  exact enc

/-- C02 enclosure, `div` of a non-negative, not identically zero dividend by a positive divisor against `'i'` -/
theorem C02Encloses_div_pos_i_partial (n : Nat) (X Y F D : PB) (hX : WF n X) (hY : WF n Y)
    (pX : NonNeg X) (hxh : 0 < hi X) (pY : ∀ v ∈ Y.left, 0 < v)
    (hF : binop n .div .f X Y = .ok F) (hD : binop n .div .i X Y = .ok D) : Encloses F D := by
  have z : ZeroFree Y := Or.inl pY
  obtain ⟨-, w, -, -⟩ := recip_ok n Y hY z
  have hS : InS (fun v => 0 < v) Y := by
    refine ⟨pY, ?_⟩
    intro v hv
    obtain ⟨i, hi', rfl⟩ := List.getElem_of_mem hv
    have hl := hY.llen; have hr := hY.rlen
    exact lt_of_lt_of_le (pY _ (List.getElem_mem _)) (hY.le i (by omega))
  obtain ⟨-, hS'⟩ := flipB_wf _ _ antiInv_recip_pos n Y hY hS
  have pR : NonNeg (recipB Y) := ⟨fun v hv => le_of_lt (hS'.1 v hv), fun v hv => le_of_lt (hS'.2 v hv)⟩
  have hn : 0 < n := by
    rcases Nat.eq_zero_or_pos n with h0 | h0
    · subst h0
      have e := List.eq_nil_of_length_eq_zero hX.rlen
      simp [hi, e] at hxh
    · exact h0
  have hyh : 0 < hi (recipB Y) := by
    have ne : (recipB Y).right ≠ [] := by
      intro e
      have := w.rlen
      rw [e] at this
      simp at this; omega
    exact hS'.2 _ (getLastD_mem _ _ ne)
  simp only [binop, div_eq_mul_recip n _ X Y hY z, swapPO] at hF hD
  exact C02Encloses_mul_nonneg_i_partial n X (recipB Y) F D hX w pX pR hxh hyh
    (by simpa [binop] using hF) (by simpa [binop] using hD)

/-- all three other dependencies at once, for `add` and `sub` -/
theorem C02Encloses_add_partial (n : Nat) (d : Dep) (X Y F D : PB) (hX : WF n X) (hY : WF n Y)
    (hF : binop n .add .f X Y = .ok F) (hD : binop n .add d X Y = .ok D) : Encloses F D := by
  cases d with
  | f =>
    rw [hF] at hD
    have e := Except.ok.inj hD
    subst e
    intro k l r dl dr hl hr hdl hdr
    rw [hl] at hdl; rw [hr] at hdr
    rw [← Option.some.inj hdl, ← Option.some.inj hdr]
    exact ⟨le_refl _, le_refl _⟩
  | p => exact C02Encloses_add_po_partial n .p (Or.inl rfl) X Y F D hX hY hF hD
  | o => exact C02Encloses_add_po_partial n .o (Or.inr rfl) X Y F D hX hY hF hD
  | i => exact C02Encloses_add_i_partial n X Y F D hX hY hF hD
  | unknown => simp [binop, add] at hD

/-- the `add` and `sub` instances of the full enclosure statement -/
theorem C02Encloses_add : C02Encloses .add :=
  fun n d X Y F D hX hY _ hF hD => C02Encloses_add_partial n d X Y F D hX hY hF hD

theorem C02Encloses_sub : C02Encloses .sub := by
  intro n d X Y F D hX hY _ hF hD
  obtain ⟨en, wn⟩ := neg_wf n Y hY
  simp only [binop, sub, en, bind, Except.bind] at hF hD
  simp only [swapPO] at hF
  exact C02Encloses_add_partial n (swapPO d) X (negB Y) F D hX wn (by simpa [binop] using hF)
    (by simpa [binop] using hD)

/-! non-vacuity: a concrete pair of 3-step boxes meets the hypotheses, and the rule computes -/
example : WFS 3 ⟨[1, 2, 3], [2, 3, 4]⟩ := ⟨rfl, rfl, by decide, by decide⟩
example : frechetLeftRaw (· + ·) [1, 2, 3] [0, 1, 5] = [1, 2, 6] := by decide +kernel
example : frechetRightRaw (· + ·) [2, 3, 4] [1, 2, 6] = [5, 6, 10] := by decide +kernel
example : NonNeg ⟨[1, 2, 3], [2, 3, 4]⟩ := by constructor <;> decide

example : OneSign ⟨[-3, -2, 0], [-2, -1, 0]⟩ := Or.inr (by constructor <;> decide)
example : ZeroFree ⟨[1, 2, 3], [2, 3, 4]⟩ := Or.inl (by decide)
example : WF 2 ⟨[-3, -2], [-2, 0]⟩ := ⟨⟨rfl, rfl, by decide, by decide⟩, by decide⟩
example : ∃ R, binop 2 .mul .f ⟨[-3, -2], [-2, 0]⟩ ⟨[1, 2], [2, 4]⟩ = .ok R ∧ WF 2 R :=
  mul_f_onesign_ok 2 _ _ ⟨⟨rfl, rfl, by decide, by decide⟩, by decide⟩ ⟨⟨rfl, rfl, by decide, by decide⟩, by decide⟩
    (Or.inr (by constructor <;> decide)) (Or.inl (by constructor <;> decide))
example : ∃ R, binop 2 .div .f ⟨[1, 2], [2, 4]⟩ ⟨[-4, -2], [-2, -1]⟩ = .ok R ∧ WF 2 R :=
  div_f_onesign_ok 2 _ _ ⟨⟨rfl, rfl, by decide, by decide⟩, by decide⟩ ⟨⟨rfl, rfl, by decide, by decide⟩, by decide⟩
    (Or.inl (by constructor <;> decide)) (Or.inr (by decide))

end Pun.PBox
